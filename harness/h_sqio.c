/* C04 / C02 / C07 correspondence harness: esl_sqio.c, esl_sqio_ascii.c, esl_sq.c, esl_ssi.c, miniapps/esl-sfetch.c
 * Ops (one answer line each):
 *   file ext=<sfx> hex=<bytes>            write the test file t.<sfx> in the cwd (per-run scratch dir)
 *   open fmt=<name> abc=text|dna|rna|amino B=<read block size>
 *   read | readinfo | readseq | readwin C= W= | reuse | pos off= | close | wfasta | roundtrip
 *   index                                 build t.<sfx>.ssi with the tool code (create_ssi_index of esl-sfetch) and open it
 *   poskey key= | posnum n= | fetch key= | fetchinfo key= | fetchsub key= s= e= | toolsub key= s= e=
 *   guessabc                              esl_sqfile_GuessAlphabet (outside the model; monitor only)
 *   readblock maxres= maxseq= init= long=  esl_sqio_ReadBlock
 */
#include "hcommon.h"
#include <unistd.h>
#include <stdio_ext.h>
#include <fcntl.h>
#include <ctype.h>
#include <sys/types.h>
#include <sys/wait.h>
#include "esl_alphabet.h"
#include "esl_sq.h"
#include "esl_sqio.h"
#include "esl_ssi.h"
#include "esl_getopts.h"
#include "esl_msa.h"
#include "esl_msafile.h"

#define main sfetch_main
#include "miniapps/esl-sfetch.c"
#undef main

/* the alignment fetch tool, for the second half of C07 (fetch a named alignment from a multi-alignment file) */
#define main                afetch_main
#define banner              afetch_banner
#define usage1              afetch_usage1
#define usage2              afetch_usage2
#define usage3              afetch_usage3
#define options             afetch_options
#define cmdline_failure     afetch_cmdline_failure
#define cmdline_help        afetch_cmdline_help
#define create_ssi_index    afetch_create_ssi_index
#define multifetch          afetch_multifetch
#define onefetch            afetch_onefetch
#include "miniapps/esl-afetch.c"
#undef main
#undef banner
#undef usage1
#undef usage2
#undef usage3
#undef options
#undef cmdline_failure
#undef cmdline_help
#undef create_ssi_index
#undef multifetch
#undef onefetch

extern int esl_verif_readbufsize;

static char          fname[64] = "t.fa";
static ESL_SQFILE   *sqfp;
static ESL_SQ       *sq;
static ESL_ALPHABET *abc;
static ESL_SQ_BLOCK *blk;
static int           abctype;       /* 0 text */
static int           dead;
static ESL_GETOPTS  *tool_go;

static void close_all(void)
{
  if (blk)  { esl_sq_DestroyBlock(blk); blk = NULL; }
  if (sqfp) { esl_sqfile_Close(sqfp); sqfp = NULL; }
  if (sq)   { esl_sq_Destroy(sq); sq = NULL; }
  if (abc)  { esl_alphabet_Destroy(abc); abc = NULL; }
  dead = 0;
}
static void h_case_begin(void) { strcpy(fname, "t.fa"); }
static void h_case_end(void)
{
  char ssi[80];
  close_all();
  snprintf(ssi, sizeof(ssi), "%s.ssi", fname);
  remove(ssi); remove(fname); remove("t2.fa");
  if (tool_go) { esl_getopts_Destroy(tool_go); tool_go = NULL; }
}

/* well-formedness of a returned ESL_SQ (the C02 monitor). kind: 'w' whole, 'i' info, 'v' window, 's' subseq */
static const char *wf(const ESL_SQ *s, int kind)
{
  int64_t i, span;
  if (!s->name || !s->acc || !s->desc || !s->source) return "nullstring";
  if (strlen(s->name) >= (size_t) s->nalloc || strlen(s->acc) >= (size_t) s->aalloc || strlen(s->desc) >= (size_t) s->dalloc ||
      strlen(s->source) >= (size_t) s->srcalloc) return "unterminated-string";
  if (s->n < 0) return "negative-n";
  if (s->seq) {
    if (s->n + 1 > s->salloc) return "salloc";
    if (s->seq[s->n] != '\0') return "seq-not-terminated";
    for (i = 0; i < s->n; i++) if (s->seq[i] == '\0') return "nul-in-seq";
  } else if (s->dsq) {
    if (s->n + 2 > s->salloc) return "salloc";
    if (s->dsq[0] != eslDSQ_SENTINEL || s->dsq[s->n+1] != eslDSQ_SENTINEL) return "dsq-sentinel";
    if (!s->abc) return "no-abc";
    for (i = 1; i <= s->n; i++) if (s->dsq[i] >= s->abc->Kp) return "dsq-code";
  } else return "no-seq";
  /* optional per-residue annotation must fit its buffer too (it is sized like the residue array) */
  if (s->ss && strlen(s->seq ? s->ss : s->ss + 1) + (s->seq ? 1 : 2) > (size_t) s->salloc) return "ss-overflows-salloc";
  for (i = 0; i < s->nxr; i++)
    if (s->xr && s->xr[i] && strlen(s->seq ? s->xr[i] : s->xr[i] + 1) + (s->seq ? 1 : 2) > (size_t) s->salloc) return "xr-overflows-salloc";
  switch (kind) {
  case 'w': if (!(s->start == 1 && s->end == s->n && s->C == 0 && s->W == s->n && s->L == s->n)) return "coords-whole"; break;
  case 'i': if (!(s->n == 0 && s->start == 0 && s->end == 0 && s->C == 0 && s->W == 0 && s->L >= 0)) return "coords-info"; break;
  case 'v': span = (s->end >= s->start ? s->end - s->start : s->start - s->end) + 1;
            if (!(s->W >= 1 && s->C >= 0 && s->n == s->C + s->W && span == s->n && s->start >= 1 && s->end >= 1)) return "coords-window"; break;
  case 's': if (!(s->start >= 1 && s->end >= s->start && s->n == s->end - s->start + 1 && s->W == s->n && s->C == 0)) return "coords-subseq"; break;
  }
  return NULL;
}

static FILE *h_sink;      /* when set, result lines go there (joined later into one answer line) instead of stdout */
static void h_emit(const char *line)
{
  if (h_sink) { fputs(line, h_sink); fputs(" ;; ", h_sink); }
  else h_out("%s", line);
}

static void print_sq(const char *st, const ESL_SQ *s, int kind)
{
  const char *w = wf(s, kind);
  size_t cap = 1024 + 2 * (strlen(s->name ? s->name : "") + strlen(s->acc ? s->acc : "") + strlen(s->desc ? s->desc : "") + strlen(s->source ? s->source : "")) + 2 * (size_t) (s->n > 0 ? s->n : 0);
  char *b = malloc(cap), *p = b;
  p += sprintf(p, "%s name=%s", st, s->name ? h_hex(s->name, strlen(s->name)) : "NULL");
  p += sprintf(p, " acc=%s", s->acc ? h_hex(s->acc, strlen(s->acc)) : "NULL");
  p += sprintf(p, " desc=%s", s->desc ? h_hex(s->desc, strlen(s->desc)) : "NULL");
  p += sprintf(p, " src=%s", s->source ? h_hex(s->source, strlen(s->source)) : "NULL");
  p += sprintf(p, " n=%" PRId64 " L=%" PRId64 " start=%" PRId64 " end=%" PRId64 " C=%" PRId64 " W=%" PRId64, s->n, s->L, s->start, s->end, s->C, s->W);
  p += sprintf(p, " roff=%" PRId64 " hoff=%" PRId64 " doff=%" PRId64 " eoff=%" PRId64, (int64_t) s->roff, (int64_t) s->hoff, (int64_t) s->doff, (int64_t) s->eoff);
  if (w && (!strcmp(w, "salloc") || !strcmp(w, "negative-n") || !strcmp(w, "no-seq"))) p += sprintf(p, " seq=?");
  else p += sprintf(p, " seq=%s", s->seq ? h_hex(s->seq, s->n) : h_hex(s->dsq + 1, s->n));
  if (w) p += sprintf(p, " wf=0:%s", w); else p += sprintf(p, " wf=1");
  h_emit(b);
  free(b);
}

static void print_status(int status, int kind)
{
  const char *exc = h_exception_seen ? " exc" : "";
  const char *msg = (sqfp && !esl_sqio_IsAlignment(sqfp->format) ? sqfp->data.ascii.errbuf[0] : (sqfp ? esl_sqfile_GetErrorBuf(sqfp)[0] : 0)) ? "msg" : "nomsg";
  char tmp[256];
  if      (status == eslOK)      print_sq("ok", sq, kind);
  else if (status == eslEOD)     print_sq("eod", sq, 'i');
  else if (status == eslEOF)     h_emit("eof");
  else if (status == eslEFORMAT) { snprintf(tmp, sizeof(tmp), "eformat line=%" PRId64 " %s%s", sqfp ? sqfp->data.ascii.linenumber : 0, msg, exc); h_emit(tmp); }
  else                           { snprintf(tmp, sizeof(tmp), "%s %s%s", h_status(status), msg, exc); h_emit(tmp); }
  if (!(status == eslOK || status == eslEOF || status == eslEOD)) dead = 1;
}

static int fmt_code(const char *s)
{
  if (!s || !strcmp(s, "unknown")) return eslSQFILE_UNKNOWN;
  return esl_sqio_EncodeFormat((char *) s);
}

static void quiet_begin(int *saved) { int dn; fflush(stdout); *saved = dup(1); dn = open("/dev/null", O_WRONLY); dup2(dn, 1); close(dn); }
static void quiet_end(int saved)    { fflush(stdout); dup2(saved, 1); close(saved); }

static uint64_t fnv_file(const char *fn, int64_t *ret_n)
{
  FILE *fp = fopen(fn, "rb"); uint64_t h = 0xcbf29ce484222325ULL; int c; int64_t n = 0;
  if (fp) { while ((c = fgetc(fp)) != EOF) { h = (h ^ (uint64_t)(unsigned char) c) * 0x100000001b3ULL; n++; } fclose(fp); }
  *ret_n = n; return h;
}

static int read_all(const char *fn, ESL_SQ ***ret_list, int *ret_n)
{
  ESL_SQFILE *fp = NULL; ESL_SQ **list = NULL; int n = 0, cap = 0, status;
  status = abc ? esl_sqfile_OpenDigital(abc, fn, eslSQFILE_FASTA, NULL, &fp) : esl_sqfile_Open(fn, eslSQFILE_FASTA, NULL, &fp);
  if (status != eslOK) { *ret_list = NULL; *ret_n = 0; return status; }
  for (;;) {
    ESL_SQ *s = abc ? esl_sq_CreateDigital(abc) : esl_sq_Create();
    status = esl_sqio_Read(fp, s);
    if (status != eslOK) { esl_sq_Destroy(s); break; }
    if (n == cap) { cap = cap ? 2*cap : 16; list = realloc(list, sizeof(ESL_SQ *) * cap); }
    list[n++] = s;
  }
  esl_sqfile_Close(fp);
  *ret_list = list; *ret_n = n;
  return status;  /* eslEOF when everything was read */
}
static void free_list(ESL_SQ **l, int n) { int i; for (i = 0; i < n; i++) esl_sq_Destroy(l[i]); free(l); }

static void op_roundtrip(void)
{
  ESL_SQ **a = NULL, **b = NULL; int na = 0, nb = 0, i, same = 1, st; FILE *fp; int64_t nbytes; uint64_t h;
  st = read_all(fname, &a, &na);
  if (st != eslEOF) { if (a) free_list(a, na); h_out("skip"); return; }
  fp = fopen("t2.fa", "wb");
  for (i = 0; i < na; i++) if (esl_sqio_Write(fp, a[i], eslSQFILE_FASTA, FALSE) != eslOK || h_exception_seen) same = 0;
  fclose(fp);
  h = fnv_file("t2.fa", &nbytes);
  if (nbytes > 0) { st = read_all("t2.fa", &b, &nb); if (st != eslEOF) same = 0; }
  if (nb != na) same = 0;
  for (i = 0; same && i < na; i++) {
    if (strcmp(a[i]->name, b[i]->name) || strcmp(a[i]->acc, b[i]->acc) || strcmp(a[i]->desc, b[i]->desc) || a[i]->n != b[i]->n || a[i]->L != b[i]->L) same = 0;
    else if (a[i]->seq ? memcmp(a[i]->seq, b[i]->seq, a[i]->n) : memcmp(a[i]->dsq + 1, b[i]->dsq + 1, a[i]->n)) same = 0;
  }
  h_out("ok nrec=%d same=%d h=%" PRIu64, na, same, h);
  if (a) free_list(a, na);
  if (b) free_list(b, nb);
}

static void op_file_hex(FILE *fp, const char *label)
{
  int64_t n; char *buf;
  fflush(fp); n = ftell(fp); rewind(fp);
  buf = malloc(n + 1);
  if (fread(buf, 1, n, fp) != (size_t) n) { h_out("%s short-read", label); free(buf); return; }
  h_out("ok hex=%s", h_hex(buf, n));
  free(buf);
}

static void h_op(void)
{
  const char *op = h_words[0];
  int status;

  if (!strcmp(op, "file")) {
    int64_t n; unsigned char *b = h_unhex(h_arg("hex") ? h_arg("hex") : "-", &n); FILE *fp;
    close_all();
    snprintf(fname, sizeof(fname), "t.%s", h_arg("ext") ? h_arg("ext") : "fa");
    fp = fopen(fname, "wb"); fwrite(b, 1, n, fp); fclose(fp); free(b);
    h_out("ok n=%" PRId64, n);
    return;
  }
  if (!strcmp(op, "open")) {
    const char *a = h_arg("abc"); int fmt = fmt_code(h_arg("fmt"));
    close_all();
    if (fmt < 0) { h_out("bad-op"); return; }
    esl_verif_readbufsize = (int) h_argi("B", 4096);
    abctype = 0;
    if (a && strcmp(a, "text")) { abctype = !strcmp(a, "dna") ? eslDNA : !strcmp(a, "rna") ? eslRNA : eslAMINO; abc = esl_alphabet_Create(abctype); }
    status = abc ? esl_sqfile_OpenDigital(abc, fname, fmt, NULL, &sqfp) : esl_sqfile_Open(fname, fmt, NULL, &sqfp);
    if (status == eslOK) { sq = abc ? esl_sq_CreateDigital(abc) : esl_sq_Create(); h_out("ok fmt=%d", sqfp->format); }
    else { sqfp = NULL; h_out("%s%s", h_status(status), h_exception_seen ? " exc" : ""); }
    return;
  }
  if (!strcmp(op, "close")) { close_all(); h_out("ok"); return; }
  if (!strcmp(op, "reuse")) { if (sq) esl_sq_Reuse(sq); h_out("ok"); return; }
  if (!strcmp(op, "wfasta")) {
    FILE *fp = tmpfile();
    if (!sq) { h_out("closed"); fclose(fp); return; }
    status = esl_sqio_Write(fp, sq, eslSQFILE_FASTA, FALSE);
    if (status != eslOK || h_exception_seen) h_out("%s%s", h_status(status), h_exception_seen ? " exc" : "");
    else op_file_hex(fp, "wfasta");
    fclose(fp);
    return;
  }
  if (!strcmp(op, "roundtrip")) { if (!sqfp) h_out("closed"); else op_roundtrip(); return; }

  if (!strcmp(op, "srcscan")) {
    /* srcscan src=gzip|stdin|pipe fmt= abc= B= call=read|readinfo|readseq|win C= W=: read the current file to its end through a gzip -dc
     * pipe (file name *.gz) or through standard input ("-"; done in a child process whose stdin is the file). One answer line:
     * the record lines joined by " ;; ". */
    const char *src = h_arg("src") ? h_arg("src") : "gzip", *call = h_arg("call") ? h_arg("call") : "read", *a = h_arg("abc");
    int fmt = fmt_code(h_arg("fmt")), C = (int) h_argi("C", 0), W = (int) h_argi("W", 10), is_pipe = !strcmp(src, "pipe"), is_stdin = !strcmp(src, "stdin") || is_pipe;
    pid_t catpid = 0;   /* src=pipe: standard input is a REAL pipe fed by `cat file` (ftello() fails on it, as on the gzip -dc pipe) */
    char gz[80], cmd[256], *text; long tn; pid_t pid = 0; int wst = 0, guard = 0;
    close_all();
    esl_verif_readbufsize = (int) h_argi("B", 4096);
    if (a && strcmp(a, "text")) { abctype = !strcmp(a, "dna") ? eslDNA : !strcmp(a, "rna") ? eslRNA : eslAMINO; abc = esl_alphabet_Create(abctype); }
    snprintf(gz, sizeof(gz), "%s.gz", fname);
    if (!is_stdin) { snprintf(cmd, sizeof(cmd), "gzip -c < %s > %s", fname, gz); if (system(cmd) != 0) { h_out("gzip-failed"); return; } }
    fflush(stdout);
    if (is_stdin) { pid = fork(); if (pid < 0) { h_out("fork-failed"); return; } }
    if (!is_stdin || pid == 0) {
      h_sink = fopen("t.scan", "wb");
      if (is_pipe) {
        int pfd[2];
        if (pipe(pfd) != 0) { fputs("pipe-failed ;; ", h_sink); fclose(h_sink); _exit(0); }
        catpid = fork();
        if (catpid == 0) { dup2(pfd[1], 1); close(pfd[0]); close(pfd[1]); execlp("cat", "cat", fname, (char *) NULL); _exit(127); }
        close(pfd[1]); dup2(pfd[0], 0); close(pfd[0]);
        __fpurge(stdin);    /* drop the harness's own buffered input: from here on stdin is the pipe */
      }
      else if (is_stdin && freopen(fname, "rb", stdin) == NULL) { fputs("freopen-failed ;; ", h_sink); fclose(h_sink); _exit(0); }
      status = abc ? esl_sqfile_OpenDigital(abc, is_stdin ? "-" : gz, fmt, NULL, &sqfp) : esl_sqfile_Open(is_stdin ? "-" : gz, fmt, NULL, &sqfp);
      if (status != eslOK) { char t[64]; sqfp = NULL; snprintf(t, sizeof(t), "open-%s", h_status(status)); h_emit(t); }
      else {
        sq = abc ? esl_sq_CreateDigital(abc) : esl_sq_Create();
        dead = 0;
        while (!dead && guard++ < 200000) {
          if (!esl_sqio_IsAlignment(sqfp->format)) sqfp->data.ascii.errbuf[0] = '\0';
          h_exception_seen = 0;
          if      (!strcmp(call, "read"))     { esl_sq_Reuse(sq); status = esl_sqio_Read(sqfp, sq);         print_status(status, 'w'); }
          else if (!strcmp(call, "readinfo")) { esl_sq_Reuse(sq); status = esl_sqio_ReadInfo(sqfp, sq);     print_status(status, 'i'); }
          else if (!strcmp(call, "readseq"))  { esl_sq_Reuse(sq); status = esl_sqio_ReadSequence(sqfp, sq); print_status(status, 'w'); }
          else { status = esl_sqio_ReadWindow(sqfp, C, W, sq); print_status(status, 'v'); if (status == eslEOD) esl_sq_Reuse(sq); }
          if (status == eslEOF) break;
        }
      }
      fclose(h_sink); h_sink = NULL;
      if (is_pipe && catpid > 0) { int c; while ((c = getchar()) != EOF) ; waitpid(catpid, NULL, 0); }
      if (is_stdin) _exit(0);
      close_all();
    }
    if (is_stdin) { waitpid(pid, &wst, 0); if (!WIFEXITED(wst) || WEXITSTATUS(wst) != 0) { h_out("child-died status=%d", wst); remove("t.scan"); return; } }
    { FILE *fp = fopen("t.scan", "rb"); if (!fp) { h_out("no-output"); return; }
      fseek(fp, 0, SEEK_END); tn = ftell(fp); rewind(fp); text = malloc(tn + 8);
      if (fread(text, 1, tn, fp) != (size_t) tn) tn = 0;
      text[tn] = 0; fclose(fp); remove("t.scan"); remove(gz);
      if (tn >= 4 && !strcmp(text + tn - 4, " ;; ")) text[tn - 4] = 0;
      h_out("scan-%s %s", is_pipe ? "pipe" : is_stdin ? "stdin" : "gzip", text); free(text); }
    if (abc && is_stdin) { esl_alphabet_Destroy(abc); abc = NULL; }
    return;
  }
  if (!strcmp(op, "afetch")) {
    /* afetch hex=<multi-alignment Stockholm file> keys=<hex,hex,...>: index it with esl-afetch's create_ssi_index, then for every key
     * position by key and let the tool regurgitate the entry (absent keys: esl_msafile_PositionByKey status only). */
    int64_t n; unsigned char *b = h_unhex(h_arg("hex") ? h_arg("hex") : "-", &n); FILE *fp; ESL_MSAFILE *afp = NULL; int saved, nali = 0;
    char *keys = strdup(h_arg("keys") ? h_arg("keys") : ""), *tok, *sv; char *outb; size_t cap = 64 + 3 * strlen(keys) + 64 * 64, len = 0;
    ESL_MSA *msa = NULL;
    close_all();
    fp = fopen("t.sto", "wb"); fwrite(b, 1, n, fp); fclose(fp); free(b);
    remove("t.sto.ssi");
    status = esl_msafile_Open(NULL, "t.sto", NULL, eslMSAFILE_STOCKHOLM, NULL, &afp);
    if (status != eslOK) { h_out("open-%s", h_status(status)); free(keys); return; }
    quiet_begin(&saved);
    afetch_create_ssi_index(NULL, afp);
    quiet_end(saved);
    esl_msafile_Close(afp); afp = NULL;
    status = esl_msafile_Open(NULL, "t.sto", NULL, eslMSAFILE_STOCKHOLM, NULL, &afp);
    if (status == eslOK) { while ((status = esl_msafile_Read(afp, &msa)) == eslOK) { nali++; esl_msa_Destroy(msa); msa = NULL; } esl_msafile_Close(afp); afp = NULL; }
    status = esl_msafile_Open(NULL, "t.sto", NULL, eslMSAFILE_STOCKHOLM, NULL, &afp);
    if (status != eslOK || esl_ssi_Open("t.sto.ssi", &(afp->ssi)) != eslOK) { h_out("reopen-failed"); if (afp) esl_msafile_Close(afp); free(keys); return; }
    outb = malloc(cap + strlen(keys) * 8);
    len += sprintf(outb + len, "ok nali=%d r=", nali);
    for (tok = strtok_r(keys, ",", &sv); tok; tok = strtok_r(NULL, ",", &sv)) {
      int64_t kn; char *k = (char *) h_unhex(tok, &kn);
      status = esl_msafile_PositionByKey(afp, k);
      if (status == eslOK) {
        FILE *ofp = tmpfile(); int64_t on; uint64_t h = 0xcbf29ce484222325ULL; int c;
        afetch_onefetch(NULL, ofp, eslMSAFILE_STOCKHOLM, k, afp);     /* positions again and regurgitates the entry */
        fflush(ofp); on = ftell(ofp); rewind(ofp);
        while ((c = fgetc(ofp)) != EOF) h = (h ^ (uint64_t)(unsigned char) c) * 0x100000001b3ULL;
        fclose(ofp);
        len += sprintf(outb + len, "%s:ok:%" PRIu64 ":%" PRId64 ",", tok, h, on);
      } else len += sprintf(outb + len, "%s:%s:0:0,", tok, h_status(status));
      free(k);
    }
    h_out("%s", outb);
    free(outb); free(keys);
    esl_msafile_Close(afp);
    remove("t.sto"); remove("t.sto.ssi");
    return;
  }

  /* everything below needs an open, live handle */
  if (dead)  { h_out("dead"); return; }
  if (!sqfp) { h_out("closed"); return; }
  if (!esl_sqio_IsAlignment(sqfp->format)) sqfp->data.ascii.errbuf[0] = '\0';

  if      (!strcmp(op, "read"))     { esl_sq_Reuse(sq); status = esl_sqio_Read(sqfp, sq);         print_status(status, 'w'); }
  else if (!strcmp(op, "readinfo")) { esl_sq_Reuse(sq); status = esl_sqio_ReadInfo(sqfp, sq);     print_status(status, 'i'); }
  else if (!strcmp(op, "readseq"))  { esl_sq_Reuse(sq); status = esl_sqio_ReadSequence(sqfp, sq); print_status(status, 'w'); }
  else if (!strcmp(op, "readwin"))  { status = esl_sqio_ReadWindow(sqfp, (int) h_argi("C", 0), (int) h_argi("W", 1), sq); print_status(status, 'v'); }
  else if (!strcmp(op, "pos")) {
    status = esl_sqfile_Position(sqfp, (off_t) h_argi("off", 0));
    h_out("%s%s", h_status(status), h_exception_seen ? " exc" : "");
    if (!(status == eslOK || status == eslEOF)) dead = 1;
  }
  else if (!strcmp(op, "inmap")) {
    /* the handle's input map as inmap_fasta / inmap_embl / inmap_genbank / inmap_daemon built it for this format and alphabet: the table
     * every read path is driven by (residue / ignored / end-of-line / end-of-data / illegal for each of the 128 ASCII codes) */
    char hexs[2 * 128 + 1]; int i;
    for (i = 0; i < 128; i++) sprintf(hexs + 2 * i, "%02x", (unsigned) sqfp->inmap[i]);
    h_out("ok inmap=%s", hexs);
  }
  else if (!strcmp(op, "geom")) {
    if (esl_sqio_IsAlignment(sqfp->format)) h_out("ok bpl=0 rpl=0");
    else h_out("ok bpl=%d rpl=%d", sqfp->data.ascii.bpl, sqfp->data.ascii.rpl);
  }
  else if (!strcmp(op, "guessabc")) {
    int t = 0; status = esl_sqfile_GuessAlphabet(sqfp, &t);
    h_out("%s type=%d%s", h_status(status), t, h_exception_seen ? " exc" : "");
    if (status != eslOK) dead = 1;
  }
  else if (!strcmp(op, "readblock")) {
    int i; char *b, *p; size_t cap = 256;
    if (!blk) blk = abc ? esl_sq_CreateDigitalBlock((int) h_argi("list", 8), abc) : esl_sq_CreateBlock((int) h_argi("list", 8));
    /* the caller's part of the contract (as the HMMER search loops do it): recycle the sequences in short mode; in long-target
     * mode move an incomplete last window to slot 0 and say how much context is wanted */
    if (!h_argi("long", 0)) { for (i = 0; i < blk->listSize; i++) esl_sq_Reuse(blk->list + i); }
    else if (!blk->complete && blk->count > 0) {
      if (blk->count > 1) esl_sq_Copy(blk->list + blk->count - 1, blk->list);
      blk->list->C = h_argi("ctx", 0);     /* the requested overlap, as the callers set it (it may exceed the carried-over piece) */
    }
    status = esl_sqio_ReadBlock(sqfp, blk, (int) h_argi("maxres", -1), (int) h_argi("maxseq", -1), (int) h_argi("init", 0), (int) h_argi("long", 0));
    if (status == eslOK) {
      const char *bad = NULL;
      for (i = 0; i < blk->count; i++) cap += 200 + 2 * strlen(blk->list[i].name) + 2 * (size_t) blk->list[i].n;
      b = malloc(cap); p = b;
      p += sprintf(p, "ok count=%d complete=%d", blk->count, blk->complete);
      for (i = 0; i < blk->count; i++) {
        ESL_SQ *s = blk->list + i; const char *w = wf(s, h_argi("long", 0) ? 'x' : 'w');
        if (w && !bad) bad = w;
        p += sprintf(p, " | name=%s n=%" PRId64 " L=%" PRId64 " start=%" PRId64 " end=%" PRId64 " C=%" PRId64 " W=%" PRId64 " seq=%s",
                     h_hex(s->name, strlen(s->name)), s->n, s->L, s->start, s->end, s->C, s->W, w && !strcmp(w, "salloc") ? "?" : (s->seq ? h_hex(s->seq, s->n) : h_hex(s->dsq + 1, s->n)));
      }
      if (bad) p += sprintf(p, " | wf=0:%s", bad); else p += sprintf(p, " | wf=1");
      h_out("%s", b); free(b);
    } else if (status == eslEOF) h_out("eof");
    else { h_out("%s%s%s", h_status(status), status == eslEFORMAT ? (sqfp->data.ascii.errbuf[0] ? " msg" : " nomsg") : "", h_exception_seen ? " exc" : ""); dead = 1; }
  }
  else if (!strcmp(op, "index")) {
    ESL_SQFILE *ix = NULL; int saved; ESL_SSI *ssi;
    if (esl_sqio_IsAlignment(sqfp->format)) { h_out("index-failed"); return; }
    if (sqfp->data.ascii.ssi) { esl_ssi_Close(sqfp->data.ascii.ssi); sqfp->data.ascii.ssi = NULL; free(sqfp->data.ascii.ssifile); sqfp->data.ascii.ssifile = NULL; }
    status = esl_sqfile_Open(fname, sqfp->format, NULL, &ix);
    if (status != eslOK) { h_out("index-failed"); return; }
    quiet_begin(&saved);
    create_ssi_index(NULL, ix);          /* the tool code; esl_fatal() (process exit) on unparsable input or duplicate keys */
    quiet_end(saved);
    esl_sqfile_Close(ix);
    status = esl_sqfile_OpenSSI(sqfp, NULL);
    if (status != eslOK) { h_out("index-open-%s", h_status(status)); return; }
    ssi = sqfp->data.ascii.ssi;
    { int fast = (ssi->fileflags[0] & eslSSI_FASTSUBSEQ) ? 1 : 0;
      h_out("ok nprim=%" PRIu64 " nalias=%" PRIu64 " fast=%d bpl=%" PRIu32 " rpl=%" PRIu32, (uint64_t) ssi->nprimary, (uint64_t) ssi->nsecondary, fast, fast ? ssi->bpl[0] : 0, fast ? ssi->rpl[0] : 0); }
  }
  else if (!strcmp(op, "poskey") || !strcmp(op, "posnum")) {
    if (!sqfp->data.ascii.ssi) { h_out("bad-op"); return; }
    if (!strcmp(op, "poskey")) { int64_t n; char *k = (char *) h_unhex(h_arg("key"), &n); status = esl_sqfile_PositionByKey(sqfp, k); free(k); }
    else status = esl_sqfile_PositionByNumber(sqfp, (int) h_argi("n", 0));
    h_out("%s%s", h_status(status), h_exception_seen ? " exc" : "");
    if (!(status == eslOK || status == eslEOF || status == eslENOTFOUND)) dead = 1;
  }
  else if (!strcmp(op, "fetch") || !strcmp(op, "fetchinfo") || !strcmp(op, "fetchsub")) {
    int64_t n; char *k;
    if (!sqfp->data.ascii.ssi) { h_out("bad-op"); return; }
    k = (char *) h_unhex(h_arg("key"), &n);
    esl_sq_Reuse(sq);
    if      (!strcmp(op, "fetch"))     { status = esl_sqio_Fetch(sqfp, k, sq);     if (status == eslENOTFOUND) h_out("enotfound %s", sqfp->data.ascii.errbuf[0] ? "msg" : "nomsg"); else print_status(status, 'w'); }
    else if (!strcmp(op, "fetchinfo")) { status = esl_sqio_FetchInfo(sqfp, k, sq); if (status == eslENOTFOUND) h_out("enotfound %s", sqfp->data.ascii.errbuf[0] ? "msg" : "nomsg"); else print_status(status, 'i'); }
    else {
      status = esl_sqio_FetchSubseq(sqfp, k, h_argi("s", 1), h_argi("e", 0), sq);
      if (status == eslENOTFOUND || status == eslERANGE) h_out("%s %s%s", h_status(status), sqfp->data.ascii.errbuf[0] ? "msg" : "nomsg", h_exception_seen ? " exc" : "");
      else print_status(status, 's');
    }
    free(k);
  }
  else if (!strcmp(op, "echo")) {
    FILE *fp = tmpfile();
    status = esl_sqio_Echo(sqfp, sq, fp);
    if (status == eslOK) {            /* the bytes written + the line number the handle is left with (Echo saves and restores it) */
      int64_t n; char *buf;
      fflush(fp); n = ftell(fp); rewind(fp);
      buf = malloc(n + 1);
      if (fread(buf, 1, n, fp) != (size_t) n) h_out("echo short-read");
      else if (esl_sqio_IsAlignment(sqfp->format)) h_out("ok hex=%s", h_hex(buf, n));
      else h_out("ok hex=%s ln=%" PRId64, h_hex(buf, n), (int64_t) sqfp->data.ascii.linenumber);
      free(buf);
    }
    else { h_out("%s%s", h_status(status), h_exception_seen ? " exc" : ""); dead = 1; }
    fclose(fp);
  }
  else if (!strcmp(op, "toolfetch")) {
    int64_t n; char *k; FILE *fp;     /* without an open index the tool scans the file sequentially from the current position */
    if (!tool_go) { char *argv[3] = { "esl-sfetch", "f", "k" }; tool_go = esl_getopts_Create(options); esl_opt_ProcessCmdline(tool_go, 3, argv); }
    k = (char *) h_unhex(h_arg("key"), &n);
    fp = tmpfile();
    onefetch(tool_go, fp, k, sqfp);      /* esl-sfetch: PositionByKey + Read + Echo; esl_fatal() (process exit) on any error */
    op_file_hex(fp, "toolfetch"); fclose(fp); free(k);
  }
  else if (!strcmp(op, "toolmulti") || !strcmp(op, "toolmultisub")) {
    /* esl-sfetch -f <keyfile> / -Cf <gdffile>: the tool's own loops over a key file (written from the op's text= argument) */
    int64_t n; unsigned char *txt; FILE *fp, *kf; int saved; int sub = !strcmp(op, "toolmultisub");
    if (!sqfp->data.ascii.ssi && sub) { h_out("bad-op"); return; }      /* -f works without an index (sequential scan), -C needs one */
    if (!tool_go) { char *argv[3] = { "esl-sfetch", "f", "k" }; tool_go = esl_getopts_Create(options); esl_opt_ProcessCmdline(tool_go, 3, argv); }
    txt = h_unhex(h_arg("text") ? h_arg("text") : "-", &n);
    kf = fopen("t.keys", "wb"); fwrite(txt, 1, n, kf); fclose(kf); free(txt);
    fp = tmpfile();
    quiet_begin(&saved);                     /* multifetch() reports "Retrieved n sequences" on stdout */
    if (sub) multifetch_subseq(tool_go, fp, "t.keys", sqfp); else multifetch(tool_go, fp, "t.keys", sqfp);
    quiet_end(saved);
    op_file_hex(fp, op); fclose(fp); remove("t.keys");
  }
  else if (!strcmp(op, "toolsub")) {
    int64_t n; char *k; FILE *fp;
    if (!sqfp->data.ascii.ssi) { h_out("bad-op"); return; }
    if (!tool_go) { char *argv[3] = { "esl-sfetch", "f", "k" }; tool_go = esl_getopts_Create(options); esl_opt_ProcessCmdline(tool_go, 3, argv); }
    k = (char *) h_unhex(h_arg("key"), &n);
    { /* the tool ends the process on failure: find out first, with the same library call, whether it would */
      int64_t gs = h_argi("s", 1), ge = h_argi("e", 0); ESL_SQ *t = esl_sq_Create();
      status = (ge != 0 && gs > ge) ? esl_sqio_FetchSubseq(sqfp, k, ge, gs, t) : esl_sqio_FetchSubseq(sqfp, k, gs, ge, t);
      if (status == eslOK && ge != 0 && gs > ge) status = esl_sq_ReverseComplement(t);
      esl_sq_Destroy(t);
      if (status != eslOK) { h_out("tool-fatal"); dead = 1; free(k); return; }
    }
    fp = tmpfile();
    onefetch_subseq(tool_go, fp, sqfp, NULL, k, h_argi("s", 1), h_argi("e", 0));   /* esl_fatal() (process exit) on any error */
    op_file_hex(fp, "toolsub"); fclose(fp); free(k);
  }
  else h_out("bad-op");
}

int main(void) { return h_main(); }
