#!/usr/bin/env python3
"""C13 'harness': runs the sanitizer-built miniapps of the working tree (one op = one tool invocation) and speaks the
line protocol of vlib/engine.py (case <n> / one result line per op / end).

ops (all byte strings lowercase hex, '-' = empty):
  file name=<id> hex=<hex>                     write a file into the case's private directory          -> ok
  run tool=<exe> args=<hex of NUL-joined argv> [stdin=<hex>] [t=<seconds>]
        run <bindir>/<exe> argv... with cwd = case directory (file arguments are plain relative names)
        -> rc=<n|sig<n>|timeout> class=<cls> out=<hex|-|big:<sha1>:<len>> diag=<0|1> site=<token>
           cls: ok | err (non-zero + diagnostic) | nodiag (non-zero, silent) | exception | signal | asan | ubsan | lsan | hang | limit
  save name=<id>                               copy the stdout of the last run to file <id>            -> ok
  cat name=<id>                                content of a file (e.g. written through -o)             -> ok <hex> | missing

Cases are independent; they are executed in parallel (one thread per core), results printed in input order.
The binaries directory comes from $C13_BINDIR.
"""
import os, sys, subprocess, tempfile, shutil, hashlib, re, resource, signal
from concurrent.futures import ThreadPoolExecutor

BINDIR = os.environ.get("C13_BINDIR", ".")
WORK = os.environ.get("C13_WORK") or tempfile.mkdtemp(prefix="c13run.")
MAXOUT = 1 << 20
DEF_TIMEOUT = float(os.environ.get("C13_TIMEOUT", "10"))

ENV = dict(os.environ)
ENV["ASAN_OPTIONS"] = ("detect_leaks=%s:abort_on_error=0:exitcode=99:allocator_may_return_null=1:"
                       "max_allocation_size_mb=1024:detect_stack_use_after_return=0:handle_abort=0"
                       % os.environ.get("C13_LEAKS", "0"))
ENV["UBSAN_OPTIONS"] = "print_stacktrace=1:halt_on_error=1:exitcode=98"
ENV["LSAN_OPTIONS"] = "exitcode=97"
ENV["LC_ALL"] = "C"
for k in ("ESLDIR", "BLASTDB", "HMMERDB"):
    ENV.pop(k, None)


def unhex(s):
    return b"" if s in ("-", "") else bytes.fromhex(s)


def hx(b):
    return b.hex() if b else "-"


def limits():
    resource.setrlimit(resource.RLIMIT_FSIZE, (32 << 20, 32 << 20))
    resource.setrlimit(resource.RLIMIT_CORE, (0, 0))
    os.setsid()


def tok(s, n=60):
    return re.sub(r"[^A-Za-z0-9_.:@-]+", "_", s)[:n].strip("_") or "none"


INPUT_LAYER = ("esl_msafile", "esl_sqio", "esl_buffer", "esl_fileparser", "esl_ssi", "esl_newssi")


def first_user_frame(e):
    """first stack frame inside the easel tree -> (function, scope) ; scope '' = tool-specific, '/input-layer' = inside
    the readers shared by all tools (esl_msafile*, esl_sqio*, esl_buffer, esl_fileparser, esl_ssi, easel.c string/line helpers)"""
    fr = re.findall(r"#\d+ 0x[0-9a-f]+ in (\S+) (\S+)", e)
    for func, path in fr:
        b0 = os.path.basename(path.split(":")[0])
        if not (b0.startswith(("esl_", "esl-", "cmd_", "easel")) and b0.endswith((".c", ".h"))):
            continue          # sanitizer runtime, libc, start-up code: not a frame of the easel tree
        base = os.path.basename(path.split(":")[0])
        if func in ("esl_fatal", "esl_exception", "cmdline_failure"):
            return func, ""
        if "miniapps/" in path or base.startswith(("esl-", "cmd_")):
            return func, ""
        if base.startswith(INPUT_LAYER) or base == "easel.c":
            return func, "/input-layer"
        return func, ""
    return (fr[0][0] if fr else "?"), ""


def classify(rc, timed_out, out, err):
    """-> (rcword, class, site)"""
    e = err.decode("latin-1", "replace")
    if timed_out:
        return "timeout", "hang", "timeout"
    m = re.search(r"ERROR: AddressSanitizer: ([\w-]+)", e)
    if m:
        where, scope = first_user_frame(e)
        if m.group(1) in ("requested-allocation-size-exceeds-maximum-supported-size", "allocation-size-too-big", "out-of-memory"):
            return "rc%d" % rc, "err", "asan-alloc-limit@" + where
        return ("sig%d" % -rc if rc < 0 else "rc%d" % rc), "asan", "%s@%s%s" % (m.group(1), where, scope)
    m = re.search(r"([\w./-]+):(\d+):\d+: runtime error: ([^\n]+)", e)
    if m:
        base = os.path.basename(m.group(1))
        scope = "/input-layer" if (base.startswith(INPUT_LAYER) or base == "easel.c") and "miniapps/" not in m.group(1) else ""
        return "rc%d" % rc, "ubsan", tok(base + ":" + re.sub(r"0x[0-9a-f]+|-?\d+", "N", m.group(3)), 70) + scope
    if "LeakSanitizer" in e:
        fr = re.findall(r"#\d+ 0x[0-9a-f]+ in (\w+)", e)
        fr = [f for f in fr if not f.startswith(("__interceptor", "malloc", "calloc", "realloc", "strdup"))]
        return "rc%d" % rc, "lsan", "leak@" + (fr[0] if fr else "?")
    m = re.search(r"Fatal exception \(source file ([^,]+), line (\d+)\):\s*([^\n]*)", e)
    if m and rc < 0:
        return "sig%d" % -rc, "exception", tok(os.path.basename(m.group(1)) + ":" + re.sub(r"\d+", "N", m.group(3)), 70)
    if rc < 0:
        if -rc in (signal.SIGXFSZ, signal.SIGXCPU, signal.SIGPIPE):
            return "sig%d" % -rc, "limit", "sig%d" % -rc
        return "sig%d" % -rc, "signal", "sig%d" % -rc
    if rc == 0:
        return "rc0", "ok", "-"
    if out.strip() or err.strip():
        return "rc%d" % rc, "err", "-"
    return "rc%d" % rc, "nodiag", "rc%d" % rc


def run_tool(d, words, state):
    kv = dict(w.split("=", 1) for w in words[1:] if "=" in w)
    tool = kv.get("tool", "")
    exe = os.path.join(BINDIR, os.path.basename(tool))
    argv = [a.decode("latin-1") for a in unhex(kv.get("args", "-")).split(b"\0")] if kv.get("args", "-") != "-" else []
    argv = [a.encode("latin-1") for a in argv]
    stdin = unhex(kv["stdin"]) if "stdin" in kv else None
    timeout = float(kv.get("t", DEF_TIMEOUT))
    if not os.path.exists(exe):
        return "rc=127 class=notool out=- diag=0 site=notool"
    fo = open(os.path.join(d, ".stdout"), "wb")
    fe = open(os.path.join(d, ".stderr"), "wb")
    timed_out = False
    try:
        p = subprocess.Popen([exe.encode()] + argv, cwd=d, env=ENV, stdin=subprocess.PIPE if stdin is not None else subprocess.DEVNULL,
                             stdout=fo, stderr=fe, preexec_fn=limits)
        try:
            p.communicate(stdin, timeout=timeout)
        except subprocess.TimeoutExpired:
            timed_out = True
            try:
                os.killpg(p.pid, signal.SIGKILL)
            except OSError:
                pass
            p.kill()
            p.communicate()
        rc = p.returncode
    except (OSError, ValueError) as e:           # e.g. NUL inside an argument
        fo.close(); fe.close()
        return "rc=126 class=noexec out=- diag=0 site=%s" % tok(str(e), 30)
    finally:
        fo.close(); fe.close()
    out = open(os.path.join(d, ".stdout"), "rb").read()
    err = open(os.path.join(d, ".stderr"), "rb").read()
    state["last"] = out
    rcw, cls, site = classify(rc, timed_out, out, err)
    if len(out) > MAXOUT:
        o = "big:%s:%d" % (hashlib.sha1(out).hexdigest(), len(out))
    else:
        o = hx(out)
    diag = 1 if (err.strip() or out.strip()) else 0
    msg = (err.strip() or (out.strip() if cls != "ok" else b""))[:100]
    return "rc=%s class=%s out=%s diag=%d site=%s msg=%s" % (rcw[2:] if rcw.startswith("rc") else rcw, cls, o, diag, site, hx(msg))


def safe_name(n):
    return re.sub(r"[^A-Za-z0-9_.+-]", "_", n)[:64] or "f"


def do_case(idx, ops):
    d = tempfile.mkdtemp(prefix="c%d." % idx, dir=WORK)
    res = []
    state = {"last": b""}
    try:
        for line in ops:
            w = line.split()
            if not w:
                continue
            try:
                if w[0] == "file":
                    kv = dict(x.split("=", 1) for x in w[1:] if "=" in x)
                    with open(os.path.join(d, safe_name(kv["name"])), "wb") as f:
                        f.write(unhex(kv.get("hex", "-")))
                    res.append("ok")
                elif w[0] == "run":
                    res.append(run_tool(d, w, state))
                elif w[0] == "save":
                    kv = dict(x.split("=", 1) for x in w[1:] if "=" in x)
                    with open(os.path.join(d, safe_name(kv["name"])), "wb") as f:
                        f.write(state["last"])
                    res.append("ok")
                elif w[0] == "cat":
                    kv = dict(x.split("=", 1) for x in w[1:] if "=" in x)
                    p = os.path.join(d, safe_name(kv["name"]))
                    if os.path.isfile(p):
                        b = open(p, "rb").read()
                        res.append("ok " + (hx(b) if len(b) <= MAXOUT else "big:%s:%d" % (hashlib.sha1(b).hexdigest(), len(b))))
                    else:
                        res.append("missing")
                else:
                    res.append("bad-op")
            except Exception as e:   # the runner itself must never die on an op
                res.append("bad-op " + tok(repr(e), 60))
    finally:
        shutil.rmtree(d, ignore_errors=True)
    return res


def main():
    cases, cur = [], None
    for line in sys.stdin:
        line = line.rstrip("\n")
        if line.startswith("case "):
            cur = (int(line.split()[1]), [])
        elif line == "end":
            if cur is not None:
                cases.append(cur)
            cur = None
        elif cur is not None and line != "":
            cur[1].append(line)
    os.makedirs(WORK, exist_ok=True)
    with ThreadPoolExecutor(max_workers=int(os.environ.get("C13_JOBS", str(os.cpu_count() or 4)))) as ex:
        results = list(ex.map(lambda c: do_case(c[0], c[1]), cases))
    w = sys.stdout
    for (idx, _), res in zip(cases, results):
        w.write("case %d\n" % idx)
        for r in res:
            w.write(r + "\n")
        w.write("end\n")
    w.flush()
    if not os.environ.get("C13_WORK"):
        shutil.rmtree(WORK, ignore_errors=True)


if __name__ == "__main__":
    main()
