/* C10 correspondence harness: the distribution functions of esl_exponential.c, esl_gumbel.c, esl_gev.c, esl_weibull.c,
 * esl_stretchexp.c, esl_gamma.c, esl_normal.c, esl_lognormal.c (scalar API), called by name.
 *   f fn=<name> a=<bits>,<bits>,...            -> ok <bits>
 *   f2 fn=<g>,<f> a=<x>,<params...>            -> ok <bits of g(f(x,params),params)>   (round trips)
 *   sample fn=<name> seed=<n> k=<draws> a=...  -> ok <bits>,...   (fresh MT19937 generator, k successive samples)
 *   unipos seed=<n> k=<draws>                  -> ok <bits>,...   (the deviates esl_rnd_UniformPositive yields)
 *   mix fam=hxp    fn=<pdf|logpdf|cdf|logcdf|surv|logsurv|invcdf> x=<bits> mu=<bits> q=<list> l=<list>
 *   mix fam=mixgev fn=<...> x=<bits> q=<list> mu=<list> l=<list> al=<list>   -> ok <bits>
 *   mixsample fam=<hxp|mixgev> seed=<n> k=<draws> (same parameters)          -> ok <bits>,...
 *   vec fn=<DMax|DMin|DLogSum> v=<list>                                       -> ok <bits>   (esl_vec_D*, n = length >= 1)
 *   sampleof fn=<esl_*_Sample> u=<bits> a=<params>   -> ok <bits>[,<arguments the sampler passed to the primitive>]: the sampler run on a generator whose ONE primitive draw
 *        (esl_rnd_UniformPositive / esl_rnd_Gamma / esl_rnd_Gaussian, intercepted with ld --wrap) is forced to return u
 *   mixsampleof fam=<hxp|mixgev> k=<n> u=<bits> (mixture parameters) -> ok <bits>: esl_rnd_DChoose forced to k, the deviate to u
 *   gamsample t=<list> a=<mu,lambda,tau>             -> ok <bits>: esl_gam_Sample on the forced stream t of Gamma variates
 *        (`hang` if the stream runs out: every variate gave mu + t/lambda == mu)
 *   bracketlim mu=<bits> q=<bits>  -> ok <k>,<x2>,<absorb>,<r>: the tripling sequence x2 = x2 + 2.*(x2-x1) of esl_hxp_invcdf's
 *        bracketing loop from x1 = mu, x2 = mu + 1. leaves `< eslINFINITY` after k+1 passes at x2; absorb = (x2 <= (x1+x2)/2.);
 *        r = esl_hxp_invcdf(1.0, {mu, K=1, q, lambda=1}) (q < 1: p above every cdf value; hung before 55bbf88)
 */
#include "hcommon.h"
#include <signal.h>
#include <unistd.h>
#include "esl_random.h"
#include "esl_stats.h"
#include "esl_exponential.h"
#include "esl_gumbel.h"
#include "esl_gev.h"
#include "esl_weibull.h"
#include "esl_stretchexp.h"
#include "esl_gamma.h"
#include "esl_normal.h"
#include "esl_lognormal.h"
#include "esl_hyperexp.h"
#include "esl_mixgev.h"
#include "esl_vectorops.h"

/* ---- forced primitive draws: `gcc -Wl,--wrap=<sym>` routes the library's calls here; without a forced value the real
 *      function runs (so `sample` / `mixsample` still use the real generator) ---- */
static int     forced_on;            /* 0: pass through */
static double  forced_u[64]; static int forced_n, forced_i, forced_k, forced_exhausted;
static double forced_args[4]; static int forced_nargs;      /* what the sampler handed to its primitive draw */
static double forced_next(void) { if (forced_i < forced_n) return forced_u[forced_i++]; forced_exhausted = 1; return 1.0; }
extern double __real_esl_rnd_UniformPositive(ESL_RANDOMNESS *r);
extern double __real_esl_rnd_Gamma(ESL_RANDOMNESS *r, double a);
extern double __real_esl_rnd_Gaussian(ESL_RANDOMNESS *r, double mean, double stddev);
extern int    __real_esl_rnd_DChoose(ESL_RANDOMNESS *r, const double *p, int N);
double __wrap_esl_rnd_UniformPositive(ESL_RANDOMNESS *r) { if (!forced_on) return __real_esl_rnd_UniformPositive(r); forced_nargs = 0; return forced_next(); }
double __wrap_esl_rnd_Gamma(ESL_RANDOMNESS *r, double a) { if (!forced_on) return __real_esl_rnd_Gamma(r, a); forced_args[0] = a; forced_nargs = 1; return forced_next(); }
double __wrap_esl_rnd_Gaussian(ESL_RANDOMNESS *r, double mean, double stddev) { if (!forced_on) return __real_esl_rnd_Gaussian(r, mean, stddev); forced_args[0] = mean; forced_args[1] = stddev; forced_nargs = 2; return forced_next(); }
int    __wrap_esl_rnd_DChoose(ESL_RANDOMNESS *r, const double *p, int N) { return forced_on ? forced_k : __real_esl_rnd_DChoose(r, p, N); }

typedef double (*f3_t)(double, double, double);
typedef double (*f4_t)(double, double, double, double);
typedef double (*s2_t)(ESL_RANDOMNESS *, double, double);
typedef double (*s3_t)(ESL_RANDOMNESS *, double, double, double);

#define F3(n) { #n, 3, (void (*)(void)) n }
#define F4(n) { #n, 4, (void (*)(void)) n }
static struct { const char *name; int arity; void (*fp)(void); } ftab[] = {
  F3(esl_exp_pdf), F3(esl_exp_logpdf), F3(esl_exp_cdf), F3(esl_exp_logcdf), F3(esl_exp_surv), F3(esl_exp_logsurv),
  F3(esl_exp_invcdf), F3(esl_exp_invsurv),
  F3(esl_gumbel_pdf), F3(esl_gumbel_logpdf), F3(esl_gumbel_cdf), F3(esl_gumbel_logcdf), F3(esl_gumbel_surv),
  F3(esl_gumbel_logsurv), F3(esl_gumbel_invcdf), F3(esl_gumbel_invsurv),
  F4(esl_gev_pdf), F4(esl_gev_logpdf), F4(esl_gev_cdf), F4(esl_gev_logcdf), F4(esl_gev_surv), F4(esl_gev_logsurv),
  F4(esl_gev_invcdf),
  F4(esl_wei_pdf), F4(esl_wei_logpdf), F4(esl_wei_cdf), F4(esl_wei_logcdf), F4(esl_wei_surv), F4(esl_wei_logsurv),
  F4(esl_wei_invcdf),
  F4(esl_sxp_pdf), F4(esl_sxp_logpdf), F4(esl_sxp_cdf), F4(esl_sxp_logcdf), F4(esl_sxp_surv), F4(esl_sxp_logsurv),
  F4(esl_sxp_invcdf),
  F4(esl_gam_pdf), F4(esl_gam_logpdf), F4(esl_gam_cdf), F4(esl_gam_logcdf), F4(esl_gam_surv), F4(esl_gam_logsurv),
  F4(esl_gam_invcdf),
  F3(esl_normal_pdf), F3(esl_normal_logpdf), F3(esl_normal_cdf), F3(esl_normal_surv),
  F3(esl_lognormal_pdf), F3(esl_lognormal_logpdf),
  { NULL, 0, NULL }
};
typedef double (*g_t)(double, void *);
#define G(n, k) { #n, k, (void (*)(void)) n }
static struct { const char *name; int arity; void (*fp)(void); } gtab[] = {   /* generic API: f(x, void *params) */
  G(esl_exp_generic_pdf, 3), G(esl_exp_generic_cdf, 3), G(esl_exp_generic_surv, 3), G(esl_exp_generic_invcdf, 3),
  G(esl_gumbel_generic_pdf, 3), G(esl_gumbel_generic_cdf, 3), G(esl_gumbel_generic_surv, 3), G(esl_gumbel_generic_invcdf, 3),
  G(esl_gev_generic_pdf, 4), G(esl_gev_generic_cdf, 4), G(esl_gev_generic_surv, 4), G(esl_gev_generic_invcdf, 4),
  G(esl_wei_generic_pdf, 4), G(esl_wei_generic_cdf, 4), G(esl_wei_generic_surv, 4), G(esl_wei_generic_invcdf, 4),
  G(esl_sxp_generic_pdf, 4), G(esl_sxp_generic_cdf, 4), G(esl_sxp_generic_surv, 4), G(esl_sxp_generic_invcdf, 4),
  G(esl_gam_generic_pdf, 4), G(esl_gam_generic_cdf, 4), G(esl_gam_generic_surv, 4), G(esl_gam_generic_invcdf, 4),
  G(esl_normal_generic_pdf, 3), G(esl_normal_generic_cdf, 3), G(esl_normal_generic_surv, 3),
  { NULL, 0, NULL }
};
#define S2(n) { #n, 2, (void (*)(void)) n }
#define S3(n) { #n, 3, (void (*)(void)) n }
static struct { const char *name; int arity; void (*fp)(void); } stab[] = {
  S2(esl_exp_Sample), S2(esl_gumbel_Sample), S3(esl_gev_Sample), S3(esl_wei_Sample),
  S3(esl_sxp_Sample), S3(esl_gam_Sample), S2(esl_lognormal_Sample),     /* not by inversion: monitored statistically */
  { NULL, 0, NULL }
};

static int parse_bits_list(const char *s, double *p, int max) {
  int n = 0; char *dup, *tok, *sv;
  if (!s || !strcmp(s, "-")) return 0;
  dup = strdup(s);
  for (tok = strtok_r(dup, ",", &sv); tok && n < max; tok = strtok_r(NULL, ",", &sv)) {
    uint64_t u = strtoull(tok, NULL, 16); memcpy(&p[n++], &u, 8);
  }
  free(dup); return n;
}

static double wrap_LogGamma(double x)             { double r = 0.0/0.0; esl_stats_LogGamma(x, &r); return r; }
static double wrap_IncGammaP(double a, double x)  { double r = 0.0/0.0; esl_stats_IncompleteGamma(a, x, &r, NULL); return r; }
static double wrap_IncGammaQ(double a, double x)  { double r = 0.0/0.0; esl_stats_IncompleteGamma(a, x, NULL, &r); return r; }

static ESL_HYPEREXP *HX; static ESL_MIXGEV *MG;
static int build_mix(const char *fam)
{
  double q[16], m[16], l[16], al[16]; int K, k;
  K = parse_bits_list(h_arg("q"), q, 16);
  if (K < 1) return 0;
  if (!strcmp(fam, "hxp")) {
    if (parse_bits_list(h_arg("l"), l, 16) != K || parse_bits_list(h_arg("mu"), m, 16) != 1) return 0;
    HX = esl_hyperexp_Create(K);
    for (k = 0; k < K; k++) { HX->q[k] = q[k]; HX->lambda[k] = l[k]; }
    HX->mu = m[0];
    return 1;
  }
  if (!strcmp(fam, "mixgev")) {
    if (parse_bits_list(h_arg("l"), l, 16) != K || parse_bits_list(h_arg("mu"), m, 16) != K || parse_bits_list(h_arg("al"), al, 16) != K) return 0;
    MG = esl_mixgev_Create(K);
    for (k = 0; k < K; k++) { MG->q[k] = q[k]; MG->mu[k] = m[k]; MG->lambda[k] = l[k]; MG->alpha[k] = al[k]; }
    return 1;
  }
  return 0;
}
static void free_mix(void) { if (HX) esl_hyperexp_Destroy(HX); HX = NULL; if (MG) esl_mixgev_Destroy(MG); MG = NULL; }

static void h_case_begin(void) { }
static void h_case_end(void) { free_mix(); }

/* every operation runs under a 3 s alarm: a non-terminating bracketing/bisection loop is answered "hang" at once
 * instead of costing the engine's batch timeout */
static sigjmp_buf h_jb;
static void h_on_alarm(int sig) { (void) sig; siglongjmp(h_jb, 1); }
static void h_op_inner(void);
static void h_op(void)
{
  signal(SIGALRM, h_on_alarm);
  if (sigsetjmp(h_jb, 1)) { free_mix(); h_out("hang"); return; }
  alarm(3);
  h_op_inner();
  alarm(0);
}

static void h_op_inner(void)
{
  const char *op = h_words[0], *fn = h_arg("fn");
  double a[8]; int n, i;
  if (!strcmp(op, "unipos")) {         /* unipos seed=<n> k=<draws> -> the deviates esl_rnd_UniformPositive yields */
    uint32_t seed = (uint32_t) h_argu("seed", 1); int k = (int) h_argi("k", 1), j; ESL_RANDOMNESS *R; char *buf, *p;
    if (seed == 0 || k < 1 || k > 4096) { h_out("bad-op"); return; }
    R = esl_randomness_Create(seed);
    buf = malloc(17 * (size_t) k + 8); p = buf; p += sprintf(p, "ok ");
    for (j = 0; j < k; j++) p += sprintf(p, "%s%s", j ? "," : "", h_dbits(esl_rnd_UniformPositive(R)));
    h_out("%s", buf); free(buf); esl_randomness_Destroy(R);
    return;
  }
  if (!strcmp(op, "mix") || !strcmp(op, "mixsample")) {
    const char *fam = h_arg("fam"); double x = h_argbits("x"), r = 0.0/0.0; int ishx;
    if (!fam || !build_mix(fam)) { h_out("bad-op"); return; }
    ishx = (HX != NULL);
    if (!strcmp(op, "mix") && fn) {
      if      (!strcmp(fn, "pdf"))     r = ishx ? esl_hxp_pdf(x, HX)     : esl_mixgev_pdf(x, MG);
      else if (!strcmp(fn, "logpdf"))  r = ishx ? esl_hxp_logpdf(x, HX)  : esl_mixgev_logpdf(x, MG);
      else if (!strcmp(fn, "cdf"))     r = ishx ? esl_hxp_cdf(x, HX)     : esl_mixgev_cdf(x, MG);
      else if (!strcmp(fn, "logcdf"))  r = ishx ? esl_hxp_logcdf(x, HX)  : esl_mixgev_logcdf(x, MG);
      else if (!strcmp(fn, "surv"))    r = ishx ? esl_hxp_surv(x, HX)    : esl_mixgev_surv(x, MG);
      else if (!strcmp(fn, "logsurv")) r = ishx ? esl_hxp_logsurv(x, HX) : esl_mixgev_logsurv(x, MG);
      else if (!strcmp(fn, "invcdf"))  r = ishx ? esl_hxp_invcdf(x, HX)  : esl_mixgev_invcdf(x, MG);
      else if (!strcmp(fn, "generic_pdf"))    r = ishx ? esl_hxp_generic_pdf(x, HX)    : esl_mixgev_generic_pdf(x, MG);
      else if (!strcmp(fn, "generic_cdf"))    r = ishx ? esl_hxp_generic_cdf(x, HX)    : esl_mixgev_generic_cdf(x, MG);
      else if (!strcmp(fn, "generic_surv"))   r = ishx ? esl_hxp_generic_surv(x, HX)   : esl_mixgev_generic_surv(x, MG);
      else if (!strcmp(fn, "generic_invcdf")) r = ishx ? esl_hxp_generic_invcdf(x, HX) : esl_mixgev_generic_invcdf(x, MG);
      else { free_mix(); h_out("bad-op"); return; }
      if (h_exception_seen) h_out("exception %s", h_status(h_exception_seen)); else h_out("ok %s", h_dbits(r));
    } else if (!strcmp(op, "mixsample")) {
      uint32_t seed = (uint32_t) h_argu("seed", 1); int k = (int) h_argi("k", 1), j; ESL_RANDOMNESS *R; char *buf, *p;
      if (seed == 0 || k < 1 || k > 4096) { free_mix(); h_out("bad-op"); return; }
      R = esl_randomness_Create(seed);
      buf = malloc(17 * (size_t) k + 8); p = buf; p += sprintf(p, "ok ");
      for (j = 0; j < k; j++) p += sprintf(p, "%s%s", j ? "," : "", h_dbits(ishx ? esl_hxp_Sample(R, HX) : esl_mixgev_Sample(R, MG)));
      h_out("%s", buf); free(buf); esl_randomness_Destroy(R);
    } else h_out("bad-op");
    free_mix();
    return;
  }
  if (!strcmp(op, "mixsampleof")) {
    const char *fam = h_arg("fam"); double r; int ishx; ESL_RANDOMNESS *R;
    if (!fam || !build_mix(fam)) { h_out("bad-op"); return; }
    ishx = (HX != NULL);
    forced_k = (int) h_argi("k", 0);
    if (forced_k < 0 || forced_k >= (ishx ? HX->K : MG->K)) { free_mix(); h_out("bad-op"); return; }
    forced_u[0] = h_argbits("u"); forced_n = 1; forced_i = 0; forced_exhausted = 0;
    R = esl_randomness_Create(1);
    forced_on = 1; r = ishx ? esl_hxp_Sample(R, HX) : esl_mixgev_Sample(R, MG); forced_on = 0;
    esl_randomness_Destroy(R); free_mix();
    if (forced_exhausted || forced_i != 1) h_out("bad-draws"); else h_out("ok %s", h_dbits(r));
    return;
  }
  if (!strcmp(op, "bracketlim")) {
    double mu = h_argbits("mu"), q = h_argbits("q"), x1 = mu, x2 = mu + 1., r; int k = 0; ESL_HYPEREXP *hx;
    for (;;) { x2 = x2 + 2.*(x2-x1); if (!(x2 < eslINFINITY) || k >= 5000) break; k++; }
    hx = esl_hyperexp_Create(1); hx->mu = mu; hx->q[0] = q; hx->lambda[0] = 1.0;
    HX = hx; r = esl_hxp_invcdf(1.0, hx); free_mix();
    h_out("ok %s,%s,%s,%s", h_dbits((double) k), h_dbits(x2), h_dbits((x2 <= (x1 + x2) / 2.) ? 1.0 : 0.0), h_dbits(r));
    return;
  }
  if (!strcmp(op, "vec")) {
    double v[16], r; int nv = parse_bits_list(h_arg("v"), v, 16);
    if (!fn || nv < 1) { h_out("bad-op"); return; }
    if      (!strcmp(fn, "DMax"))    r = esl_vec_DMax(v, nv);
    else if (!strcmp(fn, "DMin"))    r = esl_vec_DMin(v, nv);
    else if (!strcmp(fn, "DLogSum")) r = esl_vec_DLogSum(v, nv);
    else { h_out("bad-op"); return; }
    h_out("ok %s", h_dbits(r));
    return;
  }
  if (!fn) { h_out("bad-op"); return; }
  n = parse_bits_list(h_arg("a"), a, 8);
  if (!strcmp(op, "f")) {
    double r;
    if      (!strcmp(fn, "esl_stats_LogGamma") && n == 1)  r = wrap_LogGamma(a[0]);
    else if (!strcmp(fn, "esl_stats_IncGammaP") && n == 2) r = wrap_IncGammaP(a[0], a[1]);
    else if (!strcmp(fn, "esl_stats_IncGammaQ") && n == 2) r = wrap_IncGammaQ(a[0], a[1]);
    else if (!strcmp(fn, "esl_stats_erfc") && n == 1)      r = esl_stats_erfc(a[0]);
    else if (strstr(fn, "_generic_")) {
      for (i = 0; gtab[i].name; i++) if (!strcmp(gtab[i].name, fn)) break;
      if (!gtab[i].name || gtab[i].arity != n) { h_out("bad-op"); return; }
      r = ((g_t) gtab[i].fp)(a[0], (void *) (a + 1));
    }
    else {
      for (i = 0; ftab[i].name; i++) if (!strcmp(ftab[i].name, fn)) break;
      if (!ftab[i].name || ftab[i].arity != n) { h_out("bad-op"); return; }
      if (n == 3) r = ((f3_t) ftab[i].fp)(a[0], a[1], a[2]);
      else        r = ((f4_t) ftab[i].fp)(a[0], a[1], a[2], a[3]);
    }
    if (h_exception_seen) h_out("exception %s", h_status(h_exception_seen));
    else                  h_out("ok %s", h_dbits(r));
  } else if (!strcmp(op, "f2")) {
    char g[64], f[64]; const char *comma = strchr(fn, ','); int ig, jf; double r;
    if (!comma || (size_t)(comma - fn) >= sizeof(g) || strlen(comma + 1) >= sizeof(f)) { h_out("bad-op"); return; }
    memcpy(g, fn, (size_t)(comma - fn)); g[comma - fn] = 0; strcpy(f, comma + 1);
    for (ig = 0; ftab[ig].name; ig++) if (!strcmp(ftab[ig].name, g)) break;
    for (jf = 0; ftab[jf].name; jf++) if (!strcmp(ftab[jf].name, f)) break;
    if (!ftab[ig].name || !ftab[jf].name || ftab[ig].arity != n || ftab[jf].arity != n) { h_out("bad-op"); return; }
    if (n == 3) { r = ((f3_t) ftab[jf].fp)(a[0], a[1], a[2]);       r = ((f3_t) ftab[ig].fp)(r, a[1], a[2]); }
    else        { r = ((f4_t) ftab[jf].fp)(a[0], a[1], a[2], a[3]); r = ((f4_t) ftab[ig].fp)(r, a[1], a[2], a[3]); }
    if (h_exception_seen) h_out("exception %s", h_status(h_exception_seen));
    else                  h_out("ok %s", h_dbits(r));
  } else if (!strcmp(op, "sampleof")) {
    double r; ESL_RANDOMNESS *R;
    for (i = 0; stab[i].name; i++) if (!strcmp(stab[i].name, fn)) break;
    if (!stab[i].name || stab[i].arity != n || !strcmp(fn, "esl_gam_Sample")) { h_out("bad-op"); return; }
    forced_u[0] = h_argbits("u"); forced_n = 1; forced_i = 0; forced_exhausted = 0;
    R = esl_randomness_Create(1);
    forced_on = 1;
    r = (n == 2) ? ((s2_t) stab[i].fp)(R, a[0], a[1]) : ((s3_t) stab[i].fp)(R, a[0], a[1], a[2]);
    forced_on = 0;
    esl_randomness_Destroy(R);
    if (forced_exhausted || forced_i != 1) h_out("bad-draws");
    else if (forced_nargs == 1) { char b0[20]; strcpy(b0, h_dbits(r)); h_out("ok %s,%s", b0, h_dbits(forced_args[0])); }
    else if (forced_nargs == 2) { char b0[20], b1[20]; strcpy(b0, h_dbits(r)); strcpy(b1, h_dbits(forced_args[0])); h_out("ok %s,%s,%s", b0, b1, h_dbits(forced_args[1])); }
    else h_out("ok %s", h_dbits(r));
  } else if (!strcmp(op, "gamsample")) {
    double r; ESL_RANDOMNESS *R;
    if (n != 3) { h_out("bad-op"); return; }
    forced_n = parse_bits_list(h_arg("t"), forced_u, 64); forced_i = 0; forced_exhausted = 0;
    R = esl_randomness_Create(1);
    forced_on = 1; r = esl_gam_Sample(R, a[0], a[1], a[2]); forced_on = 0;
    esl_randomness_Destroy(R);
    if (forced_exhausted) h_out("hang"); else { char b0[20]; strcpy(b0, h_dbits(r)); h_out("ok %s,%s", b0, h_dbits(forced_args[0])); }
  } else if (!strcmp(op, "sample")) {
    uint32_t seed = (uint32_t) h_argu("seed", 1); int k = (int) h_argi("k", 1), j;
    ESL_RANDOMNESS *R; char *buf, *p;
    for (i = 0; stab[i].name; i++) if (!strcmp(stab[i].name, fn)) break;
    if (!stab[i].name || stab[i].arity != n || seed == 0 || k < 1 || k > 4096) { h_out("bad-op"); return; }
    R = esl_randomness_Create(seed);
    buf = malloc(17 * (size_t) k + 8); p = buf; p += sprintf(p, "ok ");
    for (j = 0; j < k; j++) {
      double r = (n == 2) ? ((s2_t) stab[i].fp)(R, a[0], a[1]) : ((s3_t) stab[i].fp)(R, a[0], a[1], a[2]);
      p += sprintf(p, "%s%s", j ? "," : "", h_dbits(r));
    }
    h_out("%s", buf); free(buf); esl_randomness_Destroy(R);
  } else h_out("bad-op");
}

int main(void) { return h_main(); }
