/* C08 correspondence harness: esl_alphabet.c (+ esl_sq.c digitize/textize/revcomp) against the real code.
 * State per case: one alphabet A, one digital sequence D (exact-size malloc so ASan sees overruns), one text T. */
#include "hcommon.h"
#include "esl_alphabet.h"
#include "esl_sq.h"
#include "esl_msa.h"
#include <math.h>

static ESL_ALPHABET *A;
static ESL_DSQ *D; static int64_t DL;          /* D == NULL: no dsq */
static unsigned char *T; static int64_t TL;     /* text, TL bytes + NUL */

static void h_case_begin(void) { }
static void drop_D(void) { if (D) free(D); D = NULL; DL = 0; }
static void drop_T(void) { if (T) free(T); T = NULL; TL = 0; }
static void h_case_end(void) { if (A) esl_alphabet_Destroy(A); A = NULL; drop_D(); drop_T(); }

static char *bufcat(char *buf, size_t *cap, size_t *len, const char *s)
{
  size_t n = strlen(s);
  if (*len + n + 1 > *cap) { *cap = (*len + n + 1) * 2; buf = realloc(buf, *cap); }
  memcpy(buf + *len, s, n + 1); *len += n; return buf;
}

static void dump_abc(void)
{
  char *b = NULL; size_t cap = 0, len = 0; char tmp[64]; int x, y;
  unsigned char *dg = malloc((size_t)A->Kp * (size_t)A->K + 1);
  b = bufcat(b, &cap, &len, "ok ");
  sprintf(tmp, "type=%d K=%d Kp=%d sym=", A->type, A->K, A->Kp); b = bufcat(b, &cap, &len, tmp);
  b = bufcat(b, &cap, &len, h_hex(A->sym, (int64_t) strlen(A->sym)));
  b = bufcat(b, &cap, &len, " inmap="); b = bufcat(b, &cap, &len, h_hex(A->inmap, 128));
  for (x = 0; x < A->Kp; x++) for (y = 0; y < A->K; y++) dg[x * A->K + y] = (unsigned char) A->degen[x][y];
  b = bufcat(b, &cap, &len, " degen="); b = bufcat(b, &cap, &len, h_hex(dg, (int64_t)A->Kp * A->K));
  b = bufcat(b, &cap, &len, " ndegen=");
  for (x = 0; x < A->Kp; x++) { sprintf(tmp, "%s%d", x ? "," : "", A->ndegen[x]); b = bufcat(b, &cap, &len, tmp); }
  b = bufcat(b, &cap, &len, " comp=");
  b = bufcat(b, &cap, &len, A->complement ? h_hex(A->complement, A->Kp) : "null");
  h_out("%s", b);
  free(b); free(dg);
}

/* length of D up to (excluding) its terminating sentinel, scanning inside an allocation of known size */
static void out_dsq(const char *prefix, const ESL_DSQ *d, int64_t L)
{
  h_out("%s dsq=%s", prefix, d ? h_hex(d, L + 2) : "null");
}

static const char *dnum(double d) { return isnan(d) ? "nan" : h_dbits(d); }
static const char *fnum(float f)  { return isnan(f) ? "nan" : h_fbits(f); }

static int parse_dlist(const char *s, double **ret)
{
  int n = 0, cap = 16; double *p = malloc(sizeof(double) * cap); char *dup, *tok, *sv;
  if (!s || !strcmp(s, "-")) { *ret = p; return 0; }
  dup = strdup(s);
  for (tok = strtok_r(dup, ",", &sv); tok; tok = strtok_r(NULL, ",", &sv)) {
    uint64_t u = strtoull(tok, NULL, 16); double d; memcpy(&d, &u, 8);
    if (n == cap) { cap *= 2; p = realloc(p, sizeof(double) * cap); }
    p[n++] = d;
  }
  free(dup); *ret = p; return n;
}
static int parse_flist(const char *s, float **ret)
{
  int n = 0, cap = 16; float *p = malloc(sizeof(float) * cap); char *dup, *tok, *sv;
  if (!s || !strcmp(s, "-")) { *ret = p; return 0; }
  dup = strdup(s);
  for (tok = strtok_r(dup, ",", &sv); tok; tok = strtok_r(NULL, ",", &sv)) {
    uint32_t u = (uint32_t) strtoul(tok, NULL, 16); float d; memcpy(&d, &u, 4);
    if (n == cap) { cap *= 2; p = realloc(p, sizeof(float) * cap); }
    p[n++] = d;
  }
  free(dup); *ret = p; return n;
}
static int parse_ilist(const char *s, int **ret)
{
  int n = 0, cap = 16; int *p = malloc(sizeof(int) * cap); char *dup, *tok, *sv;
  if (!s || !strcmp(s, "-")) { *ret = p; return 0; }
  dup = strdup(s);
  for (tok = strtok_r(dup, ",", &sv); tok; tok = strtok_r(NULL, ",", &sv)) {
    if (n == cap) { cap *= 2; p = realloc(p, sizeof(int) * cap); }
    p[n++] = (int) strtol(tok, NULL, 10);
  }
  free(dup); *ret = p; return n;
}
/* exact-size copy (so that ASan detects reads past the K entries) */
static void *exact(const void *p, size_t bytes) { void *q = malloc(bytes ? bytes : 1); memcpy(q, p, bytes); return q; }

static void do_digitize(const unsigned char *txt, int64_t n, int create)
{
  int status; int64_t len;
  char *s = malloc((size_t) n + 1);
  memcpy(s, txt, (size_t) n); s[n] = 0;
  drop_D();
  if (create) status = esl_abc_CreateDsq(A, s, &D);
  else { D = malloc((size_t) strlen(s) + 2); memset(D, 0xEE, strlen(s) + 2); status = esl_abc_Digitize(A, s, D); }
  free(s);
  if (h_exception_seen) { h_out("exception %s", h_status(h_exception_seen)); drop_D(); return; }
  for (len = 0; D[len + 1] != eslDSQ_SENTINEL; len++) ;
  DL = len;
  { char pre[64]; sprintf(pre, "st=%s", h_status(status)); out_dsq(pre, D, DL); }
}

static void h_op(void)
{
  const char *op = h_words[0];
  int64_t n;

  if (!strcmp(op, "abc")) {
    const char *t = h_arg("type"); int type = -1;
    if (t && !strcmp(t, "dna")) type = eslDNA; else if (t && !strcmp(t, "rna")) type = eslRNA;
    else if (t && !strcmp(t, "amino")) type = eslAMINO; else if (t && !strcmp(t, "coins")) type = eslCOINS;
    else if (t && !strcmp(t, "dice")) type = eslDICE;
    if (type < 0) { h_out("bad-op"); return; }
    if (A) esl_alphabet_Destroy(A);
    A = esl_alphabet_Create(type);
    if (!A) h_out("null"); else dump_abc();
    return;
  }
  if (!strcmp(op, "custom")) {
    unsigned char *s = h_unhex(h_arg("sym") ? h_arg("sym") : "-", &n);
    int K = (int) h_argi("K", 1), Kp = (int) h_argi("Kp", n);
    if (A) esl_alphabet_Destroy(A);
    A = esl_alphabet_CreateCustom((char *) s, K, Kp);
    free(s);
    if (!A) h_out("null"); else dump_abc();
    return;
  }
  if (!strcmp(op, "enctype") || !strcmp(op, "enctypemem")) {
    unsigned char *s = h_unhex(h_arg("hex") ? h_arg("hex") : "-", &n);
    if (!strcmp(op, "enctype")) { char *cp = exact(s, strlen((char *) s) + 1); h_out("ok %d", esl_abc_EncodeType(cp)); free(cp); }
    else { char *cp = exact(s, (size_t) n); h_out("ok %d", esl_abc_EncodeTypeMem(cp, (int) n)); free(cp); }
    free(s);
    return;
  }
  if (!strcmp(op, "dectype")) {
    char *r = esl_abc_DecodeType((int) h_argi("t", 0));
    if (h_exception_seen) h_out("exception %s %s", h_status(h_exception_seen), r ? "nonnull" : "null");
    else h_out("ok %s", r ? h_hex(r, (int64_t) strlen(r)) : "null");
    return;
  }
  if (!strcmp(op, "valtype")) { h_out("%s", h_status(esl_abc_ValidateType((int) h_argi("t", 0)))); return; }
  if (!strcmp(op, "msaguess")) {
    /* esl_msa_GuessAlphabet on a text-mode alignment: rows=<hex>,<hex>,... (equal lengths, NUL-free) */
    const char *rs = h_arg("rows"); char *dup = strdup(rs ? rs : ""), *tok, *sv; int nrow = 0, i, type = -1, st; int64_t alen = -1, len;
    unsigned char *rows[64]; ESL_MSA *msa;
    for (tok = strtok_r(dup, ",", &sv); tok && nrow < 64; tok = strtok_r(NULL, ",", &sv)) {
      rows[nrow] = h_unhex(tok, &len);
      if (alen < 0) alen = len;
      if (len != alen || (int64_t) strlen((char *) rows[nrow]) != len) { for (i = 0; i <= nrow; i++) free(rows[i]); free(dup); h_out("bad-op"); return; }
      nrow++;
    }
    free(dup);
    if (nrow == 0) { h_out("bad-op"); return; }
    msa = esl_msa_Create(nrow, alen);
    for (i = 0; i < nrow; i++) { char nm[16]; sprintf(nm, "s%d", i); esl_msa_SetSeqName(msa, i, nm, -1); memcpy(msa->aseq[i], rows[i], (size_t) alen + 1); free(rows[i]); }
    msa->nseq = nrow;
    st = esl_msa_GuessAlphabet(msa, &type);
    h_out("%s type=%d", h_status(st), type);
    esl_msa_Destroy(msa);
    return;
  }
  if (!A) { h_out("bad-op"); return; }

  if (!strcmp(op, "dump")) { dump_abc(); }
  else if (!strcmp(op, "equiv")) {
    h_out("%s", h_status(esl_alphabet_SetEquiv(A, (char) h_argi("s", 0), (char) h_argi("c", 0))));
  }
  else if (!strcmp(op, "caseins")) { h_out("%s", h_status(esl_alphabet_SetCaseInsensitive(A))); }
  else if (!strcmp(op, "degen")) {
    unsigned char *ds = h_unhex(h_arg("ds") ? h_arg("ds") : "-", &n);
    h_out("%s", h_status(esl_alphabet_SetDegeneracy(A, (char) h_argi("c", 0), (char *) ds)));
    free(ds);
  }
  else if (!strcmp(op, "ignored")) {
    unsigned char *cs = h_unhex(h_arg("chars") ? h_arg("chars") : "-", &n);
    h_out("%s", h_status(esl_alphabet_SetIgnored(A, (char *) cs)));
    free(cs);
  }
  else if (!strcmp(op, "digitize") || !strcmp(op, "createdsq")) {
    unsigned char *s = h_unhex(h_arg("hex") ? h_arg("hex") : "-", &n);
    do_digitize(s, n, !strcmp(op, "createdsq"));
    free(s);
  }
  else if (!strcmp(op, "redigitize")) {
    if (!T) { h_out("bad-op"); return; }
    { unsigned char *cp = exact(T, (size_t) TL + 1); int64_t tl = TL; do_digitize(cp, tl, 0); free(cp); }
  }
  else if (!strcmp(op, "textize")) {
    if (!D) { h_out("bad-op"); return; }
    drop_T();
    T = malloc((size_t) DL + 1); TL = DL; memset(T, 0xEE, (size_t) DL + 1);
    { int status = esl_abc_Textize(A, D, DL, (char *) T); h_out("%s %s nul=%d", h_status(status), h_hex(T, TL), T[TL] == 0 ? 1 : 0); T[TL] = 0; }
  }
  else if (!strcmp(op, "textizen")) {
    int64_t off = h_argi("off", 1), L = h_argi("L", 0); unsigned char *buf;
    if (!D || off < 0 || off > DL + 1 || L < 0) { h_out("bad-op"); return; }
    buf = malloc((size_t) L + 1); memset(buf, 0xAA, (size_t) L + 1);
    { int status = esl_abc_TextizeN(A, D + off, L, (char *) buf); h_out("%s %s", h_status(status), h_hex(buf, L + 1)); }   /* L bytes + one guard byte that must stay 0xAA */
    free(buf);
  }
  else if (!strcmp(op, "dsqnull")) { drop_D(); h_out("ok"); }
  else if (!strcmp(op, "dsqcat")) {
    unsigned char *s = h_unhex(h_arg("hex") ? h_arg("hex") : "-", &n);
    ESL_DSQ inmap[128]; int64_t L = DL; int status;
    const char *lk = h_arg("L"), *nk = h_arg("n");
    memcpy(inmap, A->inmap, 128); inmap[0] = esl_abc_XGetUnknown(A);
    if (h_arg("map")) { int64_t mn; unsigned char *m = h_unhex(h_arg("map"), &mn); if (mn == 128) memcpy(inmap, m, 128); free(m); }
    if (lk && !strcmp(lk, "unknown")) L = -1;
    if (h_arg("snull")) status = esl_abc_dsqcat(inmap, &D, &L, NULL, -1);      /* documented call mode: no text at all */
    else status = esl_abc_dsqcat(inmap, &D, &L, (char *) s, (nk && !strcmp(nk, "unknown")) ? -1 : (esl_pos_t) n);
    free(s);
    if (h_exception_seen) { h_out("exception %s", h_status(status)); drop_D(); return; }
    DL = L;
    { char pre[96]; sprintf(pre, "st=%s L=%" PRId64, h_status(status), L); out_dsq(pre, D, DL); }
  }
  else if (!strcmp(op, "revcomp")) {
    int64_t nn = h_argi("n", DL); int status;
    if (!D || nn < 0 || nn > DL) { h_out("bad-op"); return; }
    status = esl_abc_revcomp(A, D, (int) nn);
    if (h_exception_seen) { h_out("exception %s", h_status(status)); return; }
    { char pre[64]; sprintf(pre, "st=%s", h_status(status)); out_dsq(pre, D, DL); }
  }
  else if (!strcmp(op, "dsqlen"))  { if (!D) { h_out("bad-op"); return; } h_out("ok %" PRId64, esl_abc_dsqlen(D)); }
  else if (!strcmp(op, "dsqrlen")) { if (!D) { h_out("bad-op"); return; } h_out("ok %" PRId64, esl_abc_dsqrlen(A, D)); }
  else if (!strcmp(op, "degen2x")) {
    if (!D) { h_out("bad-op"); return; }
    { char pre[64]; int status = esl_abc_ConvertDegen2X(A, D); sprintf(pre, "st=%s", h_status(status)); out_dsq(pre, D, DL); }
  }
  else if (!strcmp(op, "cdealign")) {
    unsigned char *s = h_unhex(h_arg("s") ? h_arg("s") : "-", &n); int64_t rlen = -1; int status;
    if (!D || n != DL) { free(s); h_out("bad-op"); return; }
    { char *cp = exact(s, (size_t) n + 1);
      status = esl_abc_CDealign(A, cp, D, &rlen);
      h_out("%s rlen=%" PRId64 " s=%s", h_status(status), rlen, h_hex(cp, (int64_t) strlen(cp)));
      free(cp); }
    free(s);
  }
  else if (!strcmp(op, "xdealign")) {
    unsigned char *x = h_unhex(h_arg("x") ? h_arg("x") : "-", &n); int64_t rlen = -1; int status;
    if (!D || n != DL + 2) { free(x); h_out("bad-op"); return; }
    { ESL_DSQ *cp = exact(x, (size_t) n);
      status = esl_abc_XDealign(A, cp, D, &rlen);
      h_out("%s rlen=%" PRId64 " x=%s", h_status(status), rlen, h_hex(cp, rlen + 2));
      free(cp); }
    free(x);
  }
  else if (!strcmp(op, "davg") || !strcmp(op, "dexpect") || !strcmp(op, "dcount")) {
    double *sc, *p = NULL; int nsc = parse_dlist(h_arg("sc"), &sc), np = 0; ESL_DSQ x = (ESL_DSQ) h_argi("x", 0);
    double *sce = exact(sc, sizeof(double) * (size_t) nsc), *pe = NULL;
    if (h_arg("p")) { np = parse_dlist(h_arg("p"), &p); pe = exact(p, sizeof(double) * (size_t) np); }
    if (!strcmp(op, "davg")) h_out("ok %s", dnum(esl_abc_DAvgScore(A, x, sce)));
    else if (!strcmp(op, "dexpect")) h_out("ok %s", dnum(esl_abc_DExpectScore(A, x, sce, pe)));
    else {
      char *b = NULL; size_t cap = 0, len = 0; int i; int status = esl_abc_DCount(A, sce, x, h_argbits("wt"));
      b = bufcat(b, &cap, &len, h_status(status)); b = bufcat(b, &cap, &len, " ");
      for (i = 0; i < nsc; i++) { if (i) b = bufcat(b, &cap, &len, ","); b = bufcat(b, &cap, &len, dnum(sce[i])); }
      h_out("%s", b); free(b);
    }
    free(sc); free(sce); if (p) free(p); if (pe) free(pe);
  }
  else if (!strcmp(op, "favg") || !strcmp(op, "fexpect") || !strcmp(op, "fcount")) {
    float *sc, *p = NULL; int nsc = parse_flist(h_arg("sc"), &sc), np = 0; ESL_DSQ x = (ESL_DSQ) h_argi("x", 0);
    float *sce = exact(sc, sizeof(float) * (size_t) nsc), *pe = NULL;
    if (h_arg("p")) { np = parse_flist(h_arg("p"), &p); pe = exact(p, sizeof(float) * (size_t) np); }
    if (!strcmp(op, "favg")) h_out("ok %s", fnum(esl_abc_FAvgScore(A, x, sce)));
    else if (!strcmp(op, "fexpect")) h_out("ok %s", fnum(esl_abc_FExpectScore(A, x, sce, pe)));
    else {
      char *b = NULL; size_t cap = 0, len = 0; int i; uint32_t u = (uint32_t) strtoul(h_arg("wt") ? h_arg("wt") : "0", NULL, 16); float wt; int status;
      memcpy(&wt, &u, 4);
      status = esl_abc_FCount(A, sce, x, wt);
      b = bufcat(b, &cap, &len, h_status(status)); b = bufcat(b, &cap, &len, " ");
      for (i = 0; i < nsc; i++) { if (i) b = bufcat(b, &cap, &len, ","); b = bufcat(b, &cap, &len, fnum(sce[i])); }
      h_out("%s", b); free(b);
    }
    free(sc); free(sce); if (p) free(p); if (pe) free(pe);
  }
  else if (!strcmp(op, "iavg") || !strcmp(op, "iexpect")) {
    int *sc; float *p = NULL; int nsc = parse_ilist(h_arg("sc"), &sc), np = 0; ESL_DSQ x = (ESL_DSQ) h_argi("x", 0);
    int *sce = exact(sc, sizeof(int) * (size_t) nsc); float *pe = NULL;
    if (h_arg("p")) { np = parse_flist(h_arg("p"), &p); pe = exact(p, sizeof(float) * (size_t) np); }
    if (!strcmp(op, "iavg")) h_out("ok %d", esl_abc_IAvgScore(A, x, sce));
    else h_out("ok %d", esl_abc_IExpectScore(A, x, sce, pe));
    free(sc); free(sce); if (p) free(p); if (pe) free(pe);
  }
  else if (!strcmp(op, "dscvec") || !strcmp(op, "dexpvec")) {
    /* esl_abc_DAvgScVec / DExpectScVec: sc has exactly Kp entries */
    double *sc, *p = NULL, *pe = NULL; int nsc = parse_dlist(h_arg("sc"), &sc), np = 0, i; char *b = NULL; size_t cap = 0, len = 0; int status;
    double *sce = exact(sc, sizeof(double) * (size_t) nsc);
    if (nsc != A->Kp) { free(sc); free(sce); h_out("bad-op"); return; }
    if (h_arg("p")) { np = parse_dlist(h_arg("p"), &p); pe = exact(p, sizeof(double) * (size_t) np); }
    status = !strcmp(op, "dscvec") ? esl_abc_DAvgScVec(A, sce) : esl_abc_DExpectScVec(A, sce, pe);
    b = bufcat(b, &cap, &len, h_status(status)); b = bufcat(b, &cap, &len, " ");
    for (i = 0; i < nsc; i++) { if (i) b = bufcat(b, &cap, &len, ","); b = bufcat(b, &cap, &len, dnum(sce[i])); }
    h_out("%s", b); free(b); free(sc); free(sce); if (p) free(p); if (pe) free(pe);
  }
  else if (!strcmp(op, "fscvec") || !strcmp(op, "fexpvec")) {
    float *sc, *p = NULL, *pe = NULL; int nsc = parse_flist(h_arg("sc"), &sc), np = 0, i; char *b = NULL; size_t cap = 0, len = 0; int status;
    float *sce = exact(sc, sizeof(float) * (size_t) nsc);
    if (nsc != A->Kp) { free(sc); free(sce); h_out("bad-op"); return; }
    if (h_arg("p")) { np = parse_flist(h_arg("p"), &p); pe = exact(p, sizeof(float) * (size_t) np); }
    status = !strcmp(op, "fscvec") ? esl_abc_FAvgScVec(A, sce) : esl_abc_FExpectScVec(A, sce, pe);
    b = bufcat(b, &cap, &len, h_status(status)); b = bufcat(b, &cap, &len, " ");
    for (i = 0; i < nsc; i++) { if (i) b = bufcat(b, &cap, &len, ","); b = bufcat(b, &cap, &len, fnum(sce[i])); }
    h_out("%s", b); free(b); free(sc); free(sce); if (p) free(p); if (pe) free(pe);
  }
  else if (!strcmp(op, "iscvec") || !strcmp(op, "iexpvec")) {
    int *sc; float *p = NULL, *pe = NULL; int nsc = parse_ilist(h_arg("sc"), &sc), np = 0, i; char *b = NULL; size_t cap = 0, len = 0; int status; char tmp[32];
    int *sce = exact(sc, sizeof(int) * (size_t) nsc);
    if (nsc != A->Kp) { free(sc); free(sce); h_out("bad-op"); return; }
    if (h_arg("p")) { np = parse_flist(h_arg("p"), &p); pe = exact(p, sizeof(float) * (size_t) np); }
    status = !strcmp(op, "iscvec") ? esl_abc_IAvgScVec(A, sce) : esl_abc_IExpectScVec(A, sce, pe);
    b = bufcat(b, &cap, &len, h_status(status)); b = bufcat(b, &cap, &len, " ");
    for (i = 0; i < nsc; i++) { sprintf(tmp, "%s%d", i ? "," : "", sce[i]); b = bufcat(b, &cap, &len, tmp); }
    h_out("%s", b); free(b); free(sc); free(sce); if (p) free(p); if (pe) free(pe);
  }
  else if (!strcmp(op, "guess")) {
    /* esl_abc_GuessAlphabet on 26 letter counts */
    int64_t ct[26]; int i = 0, type = -1, status; const char *cs = h_arg("ct"); char *dup = strdup(cs ? cs : ""), *tok, *sv;
    memset(ct, 0, sizeof(ct));
    for (tok = strtok_r(dup, ",", &sv); tok && i < 26; tok = strtok_r(NULL, ",", &sv)) ct[i++] = strtoll(tok, NULL, 10);
    free(dup);
    status = esl_abc_GuessAlphabet(ct, &type);
    h_out("%s type=%d", h_status(status), type);
  }
  else if (!strcmp(op, "sqxadd")) {
    /* esl_sq_CreateDigital -> esl_sq_XAddResidue each code (+ final sentinel) -> esl_sq_Checksum -> esl_sq_CountResidues
     * (exact-size K-vector) -> esl_sq_ConvertDegen2X */
    unsigned char *cs = h_unhex(h_arg("codes") ? h_arg("codes") : "-", &n); ESL_SQ *sq = esl_sq_CreateDigital(A);
    int64_t i; uint32_t ck = 0; float *f; int st; char *b = NULL; size_t cap = 0, len = 0; char tmp[96]; int k;
    for (i = 0; i < n; i++) esl_sq_XAddResidue(sq, (ESL_DSQ) cs[i]);
    esl_sq_XAddResidue(sq, eslDSQ_SENTINEL);
    esl_sq_Checksum(sq, &ck);
    sprintf(tmp, "ok n=%" PRId64 " salloc=%" PRId64 " ck=%08x dsq=", sq->n, sq->salloc, ck); b = bufcat(b, &cap, &len, tmp);
    b = bufcat(b, &cap, &len, h_hex(sq->dsq, sq->n + 2));
    f = malloc(sizeof(float) * (size_t) A->K); for (k = 0; k < A->K; k++) f[k] = 0.0f;
    st = esl_sq_CountResidues(sq, (int) h_argi("start", 1), (int) h_argi("L", sq->n), f);
    sprintf(tmp, " cr=%s f=", h_status(st)); b = bufcat(b, &cap, &len, tmp);
    for (k = 0; k < A->K; k++) { if (k) b = bufcat(b, &cap, &len, ","); b = bufcat(b, &cap, &len, fnum(f[k])); }
    st = esl_sq_ConvertDegen2X(sq);
    sprintf(tmp, " d2x=%s dsq2=", h_status(st)); b = bufcat(b, &cap, &len, tmp);
    b = bufcat(b, &cap, &len, h_hex(sq->dsq, sq->n + 2));
    h_out("%s", b);
    free(b); free(f); free(cs); esl_sq_Destroy(sq);
  }
  else if (!strcmp(op, "sqcadd")) {
    /* esl_sq_Create -> esl_sq_CAddResidue each byte (+ final NUL) -> esl_sq_Checksum; esl_sq_ConvertDegen2X must refuse text mode */
    unsigned char *cs = h_unhex(h_arg("hex") ? h_arg("hex") : "-", &n); ESL_SQ *sq = esl_sq_Create();
    int64_t i; uint32_t ck = 0; int st;
    for (i = 0; i < n; i++) esl_sq_CAddResidue(sq, (char) cs[i]);
    esl_sq_CAddResidue(sq, '\0');
    esl_sq_Checksum(sq, &ck);
    st = esl_sq_ConvertDegen2X(sq);
    h_out("ok n=%" PRId64 " salloc=%" PRId64 " ck=%08x seq=%s d2x=%s%s", sq->n, sq->salloc, ck, h_hex(sq->seq, sq->n + 1),
          h_exception_seen ? "exception-" : "", h_status(st));
    free(cs); esl_sq_Destroy(sq);
  }
  else if (!strcmp(op, "sqguess")) {
    /* esl_sq_GuessAlphabet on a text-mode sequence */
    unsigned char *s = h_unhex(h_arg("hex") ? h_arg("hex") : "-", &n); ESL_SQ *sq; int type = -1, st;
    if ((int64_t) strlen((char *) s) != n) { free(s); h_out("bad-op"); return; }
    sq = esl_sq_CreateFrom("x", (char *) s, NULL, NULL, NULL);
    st = esl_sq_GuessAlphabet(sq, &type);
    h_out("%s type=%d", h_status(st), type);
    esl_sq_Destroy(sq); free(s);
  }
  else if (!strcmp(op, "validateseq")) {
    unsigned char *s = h_unhex(h_arg("hex") ? h_arg("hex") : "-", &n); char errbuf[eslERRBUFSIZE];
    char *cp = exact(s, (size_t) n + 1);
    int status = esl_abc_ValidateSeq(h_argi("noabc", 0) ? NULL : A, cp, n, errbuf);
    h_out("%s %s", h_status(status), errbuf[0] ? h_hex(errbuf, (int64_t) strlen(errbuf)) : "-");
    free(cp); free(s);
  }
  else if (!strcmp(op, "match")) {
    double *p = NULL, *pe = NULL; int np = 0;
    if (h_arg("p")) { np = parse_dlist(h_arg("p"), &p); pe = exact(p, sizeof(double) * (size_t) np); }
    h_out("ok %s", dnum(esl_abc_Match(A, (ESL_DSQ) h_argi("x", 0), (ESL_DSQ) h_argi("y", 0), pe)));
    if (p) free(p); if (pe) free(pe);
  }
  else if (!strcmp(op, "sqroundtrip")) {
    /* esl_sq_CreateFrom(text [, ss]) -> esl_sq_Digitize [-> esl_sq_Digitize again on the same object] -> [esl_sq_ReverseComplement]
     * -> esl_sq_Textize; prints the sequence, the ss annotation and the start/end coordinates */
    unsigned char *s = h_unhex(h_arg("hex") ? h_arg("hex") : "-", &n), *ss = NULL; ESL_SQ *sq; int st1, st1b = eslOK, st2 = eslOK, st3 = eslOK;
    int rc = (int) h_argi("rc", 0), retry = (int) h_argi("retry", 0); int64_t nss = 0; char r2[32] = "";
    if ((int64_t) strlen((char *) s) != n) { free(s); h_out("bad-op"); return; }
    if (h_arg("ss")) { ss = h_unhex(h_arg("ss"), &nss); if (nss != n || (int64_t) strlen((char *) ss) != n) { free(s); free(ss); h_out("bad-op"); return; } }
    sq = esl_sq_CreateFrom("x", (char *) s, NULL, NULL, (char *) ss);
    st1 = esl_sq_Digitize(A, sq);
    if (retry) { st1b = esl_sq_Digitize(A, sq); sprintf(r2, " dig2=%s", h_status(st1b)); }
    if (st1 == eslOK) {
      char *dh = strdup(h_hex(sq->dsq, sq->n + 2));
      if (rc) st2 = esl_sq_ReverseComplement(sq);
      if (!h_exception_seen) st3 = esl_sq_Textize(sq);
      if (h_exception_seen) h_out("dig=ok%s dsq=%s exception %s", r2, dh, h_status(h_exception_seen));
      else h_out("dig=ok%s dsq=%s rc=%s txt=%s seq=%s ss=%s se=%" PRId64 ",%" PRId64, r2, dh, h_status(st2), h_status(st3), h_hex(sq->seq, sq->n),
                 sq->ss ? h_hex(sq->ss, (int64_t) strlen(sq->ss)) : "null", sq->start, sq->end);
      free(dh);
    } else h_out("dig=%s%s seq=%s ss=%s se=%" PRId64 ",%" PRId64, h_status(st1), r2, sq->seq ? h_hex(sq->seq, sq->n) : "null",
                 sq->ss ? h_hex(sq->ss, (int64_t) strlen(sq->ss)) : "null", sq->start, sq->end);
    esl_sq_Destroy(sq); free(s); if (ss) free(ss);
  }
  else if (!strcmp(op, "sqrevtext")) {
    /* text-mode esl_sq_ReverseComplement */
    unsigned char *s = h_unhex(h_arg("hex") ? h_arg("hex") : "-", &n); ESL_SQ *sq; int st;
    if ((int64_t) strlen((char *) s) != n) { free(s); h_out("bad-op"); return; }
    sq = esl_sq_CreateFrom("x", (char *) s, NULL, NULL, NULL);
    st = esl_sq_ReverseComplement(sq);
    h_out("%s seq=%s", h_status(st), h_hex(sq->seq, sq->n));
    esl_sq_Destroy(sq); free(s);
  }
  else if (!strcmp(op, "sqccount")) {
    /* text-mode esl_sq_CountResidues: sq->abc set by the caller (as utest_CountResidues does), exact-size K-vector */
    unsigned char *s = h_unhex(h_arg("hex") ? h_arg("hex") : "-", &n); ESL_SQ *sq; int st, k; float *f; char *b = NULL; size_t cap = 0, len = 0;
    if ((int64_t) strlen((char *) s) != n) { free(s); h_out("bad-op"); return; }
    sq = esl_sq_CreateFrom("x", (char *) s, NULL, NULL, NULL);
    sq->abc = A;
    f = malloc(sizeof(float) * (size_t) A->K); for (k = 0; k < A->K; k++) f[k] = 0.0f;
    st = esl_sq_CountResidues(sq, (int) h_argi("start", 0), (int) h_argi("L", n), f);
    b = bufcat(b, &cap, &len, h_status(st)); b = bufcat(b, &cap, &len, " f=");
    for (k = 0; k < A->K; k++) { if (k) b = bufcat(b, &cap, &len, ","); b = bufcat(b, &cap, &len, fnum(f[k])); }
    h_out("%s", b);
    free(b); free(f); sq->abc = NULL; esl_sq_Destroy(sq); free(s);
  }
  else if (!strcmp(op, "dsqdup")) {
    /* esl_abc_dsqdup (which calls esl_abc_dsqlen / esl_abc_dsqcpy); D may be NULL */
    const char *lk = h_arg("L"); ESL_DSQ *dup = NULL; int st;
    st = esl_abc_dsqdup(D, (lk && !strcmp(lk, "unknown")) ? -1 : DL, &dup);
    if (dup) { h_out("%s dup=%s", h_status(st), h_hex(dup, DL + 2)); free(dup); }
    else h_out("%s dup=null", h_status(st));
  }
  else if (!strcmp(op, "sqget2")) {
    /* two successive esl_sq_GetFromMSA calls into the same ESL_SQ (one-row alignments of different widths), esl_sq_Reuse in between */
    const char *mode = h_arg("mode"); int dig = mode && !strcmp(mode, "digital"); int k, bad = 0; int64_t i; ESL_SQ *sq; char *b = NULL; size_t cap = 0, len = 0; char tmp[64];
    unsigned char *row[2], *ss[2] = { NULL, NULL }; int64_t rn[2], sn; ESL_MSA *msa[2] = { NULL, NULL };
    row[0] = h_unhex(h_arg("row1") ? h_arg("row1") : "-", &rn[0]); row[1] = h_unhex(h_arg("row2") ? h_arg("row2") : "-", &rn[1]);
    if (h_arg("ss1")) { ss[0] = h_unhex(h_arg("ss1"), &sn); if (sn != rn[0] || (int64_t) strlen((char *) ss[0]) != sn) bad = 1; }
    if (h_arg("ss2")) { ss[1] = h_unhex(h_arg("ss2"), &sn); if (sn != rn[1] || (int64_t) strlen((char *) ss[1]) != sn) bad = 1; }
    for (k = 0; k < 2; k++) {
      if (rn[k] == 0) bad = 1;
      if (dig) { for (i = 0; i < rn[k]; i++) if (row[k][i] >= A->Kp) bad = 1; }
      else if ((int64_t) strlen((char *) row[k]) != rn[k]) bad = 1;
    }
    if (bad) { for (k = 0; k < 2; k++) { free(row[k]); if (ss[k]) free(ss[k]); } h_out("bad-op"); return; }
    sq = dig ? esl_sq_CreateDigital(A) : esl_sq_Create();
    b = bufcat(b, &cap, &len, "ok");
    for (k = 0; k < 2 && !bad; k++) {
      int st;
      msa[k] = dig ? esl_msa_CreateDigital(A, 1, rn[k]) : esl_msa_Create(1, rn[k]);
      esl_msa_SetSeqName(msa[k], 0, "s0", -1); msa[k]->nseq = 1;
      if (dig) { msa[k]->ax[0][0] = msa[k]->ax[0][rn[k] + 1] = eslDSQ_SENTINEL; memcpy(msa[k]->ax[0] + 1, row[k], (size_t) rn[k]); }
      else memcpy(msa[k]->aseq[0], row[k], (size_t) rn[k] + 1);
      if (ss[k]) { msa[k]->ss = malloc(sizeof(char *) * (size_t) msa[k]->sqalloc); for (i = 0; i < msa[k]->sqalloc; i++) msa[k]->ss[i] = NULL; msa[k]->ss[0] = strdup((char *) ss[k]); }
      if (k == 1) esl_sq_Reuse(sq);
      st = esl_sq_GetFromMSA(msa[k], 0, sq);
      if (h_exception_seen || st != eslOK) { bad = 1; break; }
      sprintf(tmp, " n%d=%" PRId64 " seq%d=", k + 1, sq->n, k + 1); b = bufcat(b, &cap, &len, tmp);
      b = bufcat(b, &cap, &len, dig ? h_hex(sq->dsq, sq->n + 2) : h_hex(sq->seq, (int64_t) strlen(sq->seq)));
      sprintf(tmp, " ss%d=", k + 1); b = bufcat(b, &cap, &len, tmp);
      b = bufcat(b, &cap, &len, sq->ss ? h_hex(sq->ss + (dig ? 1 : 0), (int64_t) strlen(sq->ss + (dig ? 1 : 0))) : "null");
    }
    if (bad) h_out("%s%s", h_exception_seen ? "exception " : "failed ", h_status(h_exception_seen)); else h_out("%s", b);
    free(b); esl_sq_Destroy(sq);
    for (k = 0; k < 2; k++) { if (msa[k]) esl_msa_Destroy(msa[k]); free(row[k]); if (ss[k]) free(ss[k]); }
  }
  else if (!strcmp(op, "sqfetch")) {
    /* esl_sq_FetchFromMSA on a one-row alignment (text rows: row=<bytes>; digital: row=<codes>), optional #=GR SS line */
    const char *mode = h_arg("mode"); int dig = mode && !strcmp(mode, "digital"); int64_t nss = 0, i; ESL_MSA *msa; ESL_SQ *sq = NULL; int st;
    unsigned char *row = h_unhex(h_arg("row") ? h_arg("row") : "-", &n), *ss = NULL;
    if (h_arg("ss")) { ss = h_unhex(h_arg("ss"), &nss); if (nss != n || (int64_t) strlen((char *) ss) != n) { free(row); free(ss); h_out("bad-op"); return; } }
    if (dig) { for (i = 0; i < n; i++) if (row[i] >= A->Kp) { free(row); if (ss) free(ss); h_out("bad-op"); return; } }
    else if ((int64_t) strlen((char *) row) != n) { free(row); if (ss) free(ss); h_out("bad-op"); return; }
    msa = dig ? esl_msa_CreateDigital(A, 1, n) : esl_msa_Create(1, n);
    esl_msa_SetSeqName(msa, 0, "s0", -1); msa->nseq = 1;
    if (dig) { msa->ax[0][0] = msa->ax[0][n + 1] = eslDSQ_SENTINEL; memcpy(msa->ax[0] + 1, row, (size_t) n); }
    else memcpy(msa->aseq[0], row, (size_t) n + 1);
    if (ss) { msa->ss = malloc(sizeof(char *) * (size_t) msa->sqalloc); for (i = 0; i < msa->sqalloc; i++) msa->ss[i] = NULL; msa->ss[0] = strdup((char *) ss); }
    st = esl_sq_FetchFromMSA(msa, 0, &sq);
    if (h_exception_seen || st != eslOK || !sq) h_out("%s%s", h_exception_seen ? "exception " : "", h_status(h_exception_seen ? h_exception_seen : st));
    else h_out("ok n=%" PRId64 " seq=%s ss=%s", sq->n, dig ? h_hex(sq->dsq, sq->n + 2) : h_hex(sq->seq, (int64_t) strlen(sq->seq)),
               sq->ss ? h_hex(sq->ss + (dig ? 1 : 0), (int64_t) strlen(sq->ss + (dig ? 1 : 0))) : "null");
    if (sq) esl_sq_Destroy(sq);
    esl_msa_Destroy(msa); free(row); if (ss) free(ss);
  }
  else if (!strcmp(op, "sqcopy")) {
    /* esl_sq_Copy between the four text/digital mode combinations; then esl_sq_Validate on the copy */
    const char *from = h_arg("from"), *to = h_arg("to"); int fd = from && !strcmp(from, "digital"), td = to && !strcmp(to, "digital");
    unsigned char *b = h_unhex(h_arg("hex") ? h_arg("hex") : "-", &n); ESL_SQ *src = NULL, *dst = NULL; ESL_ALPHABET *B = NULL; int st, vst; int64_t i, len;
    char errbuf[eslERRBUFSIZE];
    if (fd) {
      ESL_DSQ *d; for (i = 0; i < n; i++) if (b[i] == 255) { free(b); h_out("bad-op"); return; }
      d = malloc((size_t) n + 2); d[0] = d[n + 1] = eslDSQ_SENTINEL; memcpy(d + 1, b, (size_t) n);
      src = esl_sq_CreateDigitalFrom(A, "x", d, n, NULL, NULL, NULL); free(d);
    } else {
      if ((int64_t) strlen((char *) b) != n) { free(b); h_out("bad-op"); return; }
      src = esl_sq_CreateFrom("x", (char *) b, NULL, NULL, NULL);
    }
    if (td && h_argi("other", 0)) B = esl_alphabet_Create(A->type == eslAMINO ? eslDNA : eslAMINO);
    dst = td ? esl_sq_CreateDigital(B ? B : A) : esl_sq_Create();
    st = esl_sq_Copy(src, dst);
    if (h_exception_seen) h_out("exception %s", h_status(h_exception_seen));
    else {
      if (td) { for (len = 0; dst->dsq[len + 1] != eslDSQ_SENTINEL; len++) ; }
      else len = (int64_t) strlen(dst->seq);
      errbuf[0] = 0; vst = esl_sq_Validate(dst, errbuf);
      h_out("st=%s n=%" PRId64 " len=%" PRId64 " body=%s valid=%s", h_status(st), dst->n, len,
            td ? h_hex(dst->dsq + 1, len) : h_hex(dst->seq, len), vst == eslOK ? "ok" : "fail");
    }
    esl_sq_Destroy(src); esl_sq_Destroy(dst); if (B) esl_alphabet_Destroy(B); free(b);
  }
  else if (!strcmp(op, "sqobj")) {
    /* one ESL_SQ with ss + extra residue markup (xr) driven through a script: d = esl_sq_Digitize(A), t = esl_sq_Textize, r = esl_sq_ReverseComplement,
     * g = esl_sq_Grow(&nsafe), to:K = esl_sq_GrowTo(K), c:text / c:digital = esl_sq_Copy into a fresh object that replaces the current one.
     * Markup buffers are allocated with exactly sq->salloc cells (the library's own convention), so ASan sees any access the library makes beyond them. */
    const char *init = h_arg("init"), *via = h_arg("via"), *xra = h_arg("xr"), *scr = h_arg("script");
    int dig = init && !strcmp(init, "digital"), add = via && !strcmp(via, "add"), x, nxr = 0; int64_t i, nss = 0;
    unsigned char *b = h_unhex(h_arg("hex") ? h_arg("hex") : "-", &n), *ss = NULL; unsigned char *xrs[8]; ESL_SQ *sq = NULL, *P = NULL, *cur;
    char *out = NULL; size_t cap = 0, len = 0; char tmp[128]; int bad = 0, pass;
    for (i = 0; i < n; i++) if (b[i] == (dig ? 255 : 0)) bad = 1;
    if (h_arg("ss")) { ss = h_unhex(h_arg("ss"), &nss); if (nss != n || (int64_t) strlen((char *) ss) != n) bad = 1; }
    if (xra) {
      char *dup = strdup(xra), *tok, *sv;
      for (tok = strtok_r(dup, ",", &sv); tok && nxr < 8; tok = strtok_r(NULL, ",", &sv)) {
        int64_t m; xrs[nxr] = h_unhex(tok, &m); if (m != n || (int64_t) strlen((char *) xrs[nxr]) != n) bad = 1; nxr++;
      }
      free(dup);
    }
    if (bad) { h_out("bad-op"); goto SQOBJ_DONE; }
    if (dig) {
      if (add) { sq = esl_sq_CreateDigital(A); for (i = 0; i < n; i++) esl_sq_XAddResidue(sq, b[i]); esl_sq_XAddResidue(sq, eslDSQ_SENTINEL); }
      else { ESL_DSQ *d = malloc((size_t) n + 2); d[0] = d[n + 1] = eslDSQ_SENTINEL; memcpy(d + 1, b, (size_t) n); sq = esl_sq_CreateDigitalFrom(A, "x", d, (h_arg("len") && !strcmp(h_arg("len"), "unknown")) ? -1 : n, NULL, NULL, NULL); free(d); }
    } else {
      if (add) { sq = esl_sq_Create(); for (i = 0; i < n; i++) esl_sq_CAddResidue(sq, (char) b[i]); esl_sq_CAddResidue(sq, 0); }
      else sq = esl_sq_CreateFrom("x", (char *) b, NULL, NULL, NULL);
    }
    if (ss) { sq->ss = malloc((size_t) sq->salloc); if (dig) { sq->ss[0] = 0; strcpy(sq->ss + 1, (char *) ss); } else strcpy(sq->ss, (char *) ss); }
    if (nxr) {
      sq->nxr = nxr; sq->xr_tag = malloc(sizeof(char *) * nxr); sq->xr = malloc(sizeof(char *) * nxr);
      for (x = 0; x < nxr; x++) {
        sq->xr_tag[x] = malloc(4); sprintf(sq->xr_tag[x], "T%d", x);
        sq->xr[x] = malloc((size_t) sq->salloc);
        if (dig) { sq->xr[x][0] = 0; strcpy(sq->xr[x] + 1, (char *) xrs[x]); } else strcpy(sq->xr[x], (char *) xrs[x]);
      }
    }
    if (scr && strcmp(scr, "-")) {
      char *dup = strdup(scr), *tok, *sv;
      for (tok = strtok_r(dup, ",", &sv); tok && !bad; tok = strtok_r(NULL, ",", &sv)) {
        int st = eslOK; h_exception_seen = 0;
        if (!strcmp(tok, "d")) { st = esl_sq_Digitize(A, sq); sprintf(tmp, "d=%s ", h_status(st)); }
        else if (!strcmp(tok, "t")) { st = esl_sq_Textize(sq); sprintf(tmp, "t=%s ", h_status(st)); }
        else if (!strcmp(tok, "r")) { st = esl_sq_ReverseComplement(sq); sprintf(tmp, "r=%s ", h_status(st)); }
        else if (!strcmp(tok, "g")) { int64_t nsafe = -999; st = esl_sq_Grow(sq, &nsafe); sprintf(tmp, "g=%" PRId64 " ", nsafe); }
        else if (!strncmp(tok, "to:", 3)) { st = esl_sq_GrowTo(sq, (int64_t) strtoll(tok + 3, NULL, 10)); sprintf(tmp, "to=%s ", h_status(st)); }
        else if (!strncmp(tok, "a:", 2)) {
          /* append K residues ('A' / code 0) and a '+' to every markup line, as the sequence readers do: Grow, store, n++, Grow, terminate */
          long k, K = strtol(tok + 2, NULL, 10); int64_t nsafe, sum = 0;
          for (k = 0; k < K; k++) {
            esl_sq_Grow(sq, &nsafe); sum += nsafe;
            if (sq->seq) { sq->seq[sq->n] = 'A'; if (sq->ss) sq->ss[sq->n] = '+'; for (x = 0; x < sq->nxr; x++) sq->xr[x][sq->n] = '+'; }
            else { sq->dsq[sq->n + 1] = 0; if (sq->ss) sq->ss[sq->n + 1] = '+'; for (x = 0; x < sq->nxr; x++) sq->xr[x][sq->n + 1] = '+'; }
            sq->n++;
            esl_sq_Grow(sq, &nsafe); sum += nsafe;
            if (sq->seq) { sq->seq[sq->n] = '\0'; if (sq->ss) sq->ss[sq->n] = '\0'; for (x = 0; x < sq->nxr; x++) sq->xr[x][sq->n] = '\0'; }
            else { sq->dsq[sq->n + 1] = eslDSQ_SENTINEL; if (sq->ss) sq->ss[sq->n + 1] = '\0'; for (x = 0; x < sq->nxr; x++) sq->xr[x][sq->n + 1] = '\0'; }
          }
          sprintf(tmp, "a=%" PRId64 " ", sum);
        }
        else if (!strcmp(tok, "p:text") || !strcmp(tok, "p:digital")) {
          /* esl_sq_Copy into the persistent (reused) destination P */
          if (!P) P = !strcmp(tok, "p:digital") ? esl_sq_CreateDigital(A) : esl_sq_Create();
          st = esl_sq_Copy(sq, P); sprintf(tmp, "p=%s ", h_status(st));
        }
        else if (!strcmp(tok, "R")) { if (P) esl_sq_Reuse(P); sprintf(tmp, "R=ok "); }
        else if (!strcmp(tok, "c:text") || !strcmp(tok, "c:digital")) {
          ESL_SQ *dst = !strcmp(tok, "c:digital") ? esl_sq_CreateDigital(A) : esl_sq_Create();
          st = esl_sq_Copy(sq, dst); sprintf(tmp, "c=%s ", h_status(st));
          esl_sq_Destroy(sq); sq = dst;
        }
        else sprintf(tmp, "bad ");
        out = bufcat(out, &cap, &len, tmp);
      }
      free(dup);
    }
    for (pass = 0, cur = sq; pass < 2 && cur; pass++, cur = P) {
    ESL_SQ *sq_saved = sq; sq = cur;
    if (pass) out = bufcat(out, &cap, &len, " || P: ");
    sprintf(tmp, "mode=%s n=%" PRId64 " salloc=%" PRId64 " seq=", sq->seq ? "text" : "digital", sq->n, sq->salloc); out = bufcat(out, &cap, &len, tmp);
    out = bufcat(out, &cap, &len, sq->seq ? h_hex(sq->seq, sq->n) : h_hex(sq->dsq + 1, sq->n));
    if (sq->seq ? sq->seq[sq->n] != '\0' : (sq->dsq[0] != eslDSQ_SENTINEL || sq->dsq[sq->n + 1] != eslDSQ_SENTINEL)) out = bufcat(out, &cap, &len, "!unterminated");
    out = bufcat(out, &cap, &len, " ss=");
    if (!sq->ss) out = bufcat(out, &cap, &len, "null");
    else { char *p_ = sq->seq ? sq->ss : sq->ss + 1; if (!sq->seq && sq->ss[0] != '\0') out = bufcat(out, &cap, &len, "!cell0"); out = bufcat(out, &cap, &len, h_hex(p_, (int64_t) strlen(p_))); }
    sprintf(tmp, " nxr=%d xr=", sq->nxr); out = bufcat(out, &cap, &len, tmp);
    if (sq->nxr == 0) out = bufcat(out, &cap, &len, (sq->xr || sq->xr_tag) ? "!dangling" : "-");
    for (x = 0; x < sq->nxr; x++) {
      char *p_ = sq->seq ? sq->xr[x] : sq->xr[x] + 1;
      if (x) out = bufcat(out, &cap, &len, ",");
      if (!sq->seq && sq->xr[x][0] != '\0') out = bufcat(out, &cap, &len, "!cell0");
      sprintf(tmp, "T%d", x); if (!sq->xr_tag[x] || strcmp(sq->xr_tag[x], tmp)) out = bufcat(out, &cap, &len, "!tag");
      out = bufcat(out, &cap, &len, h_hex(p_, (int64_t) strlen(p_)));
    }
    sprintf(tmp, " se=%" PRId64 ",%" PRId64, sq->start, sq->end); out = bufcat(out, &cap, &len, tmp);
    sq = sq_saved;
    }
    h_exception_seen = 0;
    h_out("%s", out);
   SQOBJ_DONE:
    if (out) free(out); if (sq) esl_sq_Destroy(sq); if (P) esl_sq_Destroy(P); free(b); if (ss) free(ss); for (x = 0; x < nxr; x++) free(xrs[x]);
  }
  else if (!strcmp(op, "dsqcpy")) {
    /* esl_abc_dsqcpy into an exact-size destination (L+2 codes) pre-filled with 0xEE */
    ESL_DSQ *cp; int st;
    if (!D) { h_out("bad-op"); return; }
    cp = malloc((size_t) DL + 2); memset(cp, 0xEE, (size_t) DL + 2);
    st = esl_abc_dsqcpy(D, DL, cp);
    h_out("%s dup=%s", h_status(st), h_hex(cp, DL + 2));
    free(cp);
  }
  else h_out("bad-op");
}
int main(void) { return h_main(); }
