/* C11 correspondence harness: esl_histogram.c and the maximum-likelihood fits
 * (esl_exponential.c esl_gumbel.c esl_lognormal.c esl_gamma.c esl_weibull.c esl_stretchexp.c esl_gev.c). */
#include "esl_minimizer.c"      /* FIRST: gives access to the static bracket(), brent(), numeric_derivative() */
#include "esl_gev.c"            /* access to the static gev_func(), gev_gradient() (op "gevobj") */
#include "hcommon.h"
#include <math.h>
#include <unistd.h>
#include "esl_histogram.h"
#include "esl_exponential.h"
#include "esl_gumbel.h"
#include "esl_lognormal.h"
#include "esl_gamma.h"
#include "esl_weibull.h"
#include "esl_stretchexp.h"
#include "esl_gev.h"
#include "esl_random.h"
#include "esl_normal.h"
#include "esl_rootfinder.h"

#define H_FIT_TIMEOUT 8
static ESL_HISTOGRAM *H;
static double *DX; static int DN;      /* current data set of the fit ops */
static void h_case_begin(void) { }
static void h_case_end(void) { if (H) esl_histogram_Destroy(H); H = NULL; free(DX); DX = NULL; DN = 0; }
static uint64_t fnv(uint64_t h, uint64_t x) { return (h ^ x) * 0x100000001b3ULL; }

static int parse_bits_list(const char *s, double **ret) {
  int n = 0, cap = 64; double *p = malloc(sizeof(double)*cap); const char *q = s;
  if (s && strcmp(s, "-") != 0)
    while (*q) {
      char *end; uint64_t u = strtoull(q, &end, 16); double d; memcpy(&d, &u, 8);
      if (end == q) break;
      if (n == cap) { cap *= 2; p = realloc(p, sizeof(double)*cap); }
      p[n++] = d;
      q = end; if (*q == ',') q++;
    }
  *ret = p; return n;
}

static char st_letter(int s) {
  switch (s) { case eslOK: return 'o'; case eslEINVAL: return 'i'; case eslERANGE: return 'r'; case eslEMEM: return 'm';
    case eslENORESULT: return 'n'; case eslENOHALT: return 'h'; default: return '?'; }
}

static void out_tail(double *x, int n, int z) {
  uint64_t h = 0xcbf29ce484222325ULL; int i;
  for (i = 0; i < n; i++) { uint64_t u; memcpy(&u, &x[i], 8); h = fnv(h, u); }
  if (n > 0) h_out("ok n=%d z=%d first=%s last=%s hash=%016" PRIx64, n, z, h_dbits(x[0]), h_dbits(x[n-1]), h);
  else       h_out("ok n=%d z=%d first=- last=- hash=%016" PRIx64, n, z, h);
}

static const char *bits6(int k, double d) { static char b[8][24]; uint64_t u; memcpy(&u, &d, 8); sprintf(b[k], "%016" PRIx64, u); return b[k]; }
static void dump(void) {
  size_t cap = 1024, len = 0; char *buf = malloc(cap); int i, any = 0;
  buf[0] = 0;
  for (i = 0; i < H->nb; i++) if (H->obs[i]) {
    if (len + 48 > cap) { cap *= 2; buf = realloc(buf, cap); }
    len += sprintf(buf + len, "%s%d:%" PRIu64, any ? "," : "", i, H->obs[i]); any = 1;
  }
  if (!any) strcpy(buf, "-");
  h_out("ok nb=%d bmin=%s bmax=%s w=%s imin=%d imax=%d xmin=%s xmax=%s n=%" PRIu64 " nc=%" PRIu64 " no=%" PRIu64 " z=%" PRIu64
        " cmin=%d phi=%s full=%d done=%d rounded=%d ds=%s obs=%s",
        H->nb, bits6(0, H->bmin), bits6(1, H->bmax), bits6(2, H->w), H->imin, H->imax, bits6(3, H->xmin), bits6(4, H->xmax),
        H->n, H->Nc, H->No, H->z, H->cmin, bits6(5, H->phi), H->is_full ? 1 : 0, H->is_done ? 1 : 0, H->is_rounded ? 1 : 0,
        H->dataset_is == COMPLETE ? "complete" : H->dataset_is == VIRTUAL_CENSORED ? "virtual" : "true", buf);
  free(buf);
}

static void out_fit(int status, int np, double a, double b, double c) {
  if (np == 0) h_out("%s", h_status(status));
  else if (np == 1) h_out("%s %s", h_status(status), h_dbits(a));
  else if (np == 2) h_out("%s %s %s", h_status(status), h_dbits(a), h_dbits(b));
  else h_out("%s %s %s %s", h_status(status), h_dbits(a), h_dbits(b), h_dbits(c));
}

static void do_fit(void) {
  const char *kind = h_arg("kind"); double *x; int n = DN;
  double a = h_argbits("a"), b = h_argbits("b"); int z = (int) h_argi("z", 0);
  double p1 = 0, p2 = 0, p3 = 0; int st;
  if (!kind) { h_out("bad-op"); return; }
  x = malloc(n ? sizeof(double) * n : 1); if (n) memcpy(x, DX, sizeof(double) * n);   /* exact-size copy: ASan sees any overrun */
  if      (!strcmp(kind, "exp"))           { st = esl_exp_FitComplete(x, n, &p1, &p2);                 out_fit(st, 2, p1, p2, 0); }
  else if (!strcmp(kind, "expscale"))      { st = esl_exp_FitCompleteScale(x, n, a, &p1);              out_fit(st, 1, p1, 0, 0); }
  else if (!strcmp(kind, "lognormal"))     { st = esl_lognormal_FitComplete(x, n, &p1, &p2);           out_fit(st, 2, p1, p2, 0); }
  else if (!strcmp(kind, "gumbel"))        { st = esl_gumbel_FitComplete(x, n, &p1, &p2);              out_fit(st, 2, p1, p2, 0); }
  else if (!strcmp(kind, "gumbelloc"))     { st = esl_gumbel_FitCompleteLoc(x, n, a, &p1);             out_fit(st, 1, p1, 0, 0); }
  else if (!strcmp(kind, "gumbelcens"))    { st = esl_gumbel_FitCensored(x, n, z, a, &p1, &p2);        out_fit(st, 2, p1, p2, 0); }
  else if (!strcmp(kind, "gumbelcensloc")) { st = esl_gumbel_FitCensoredLoc(x, n, z, a, b, &p1);       out_fit(st, 1, p1, 0, 0); }
  else if (!strcmp(kind, "gumbeltrunc"))   { st = esl_gumbel_FitTruncated(x, n, a, &p1, &p2);          out_fit(st, 2, p1, p2, 0); }
  else if (!strcmp(kind, "gamma"))         { st = esl_gam_FitComplete(x, n, a, &p1, &p2);              out_fit(st, 2, p1, p2, 0); }
  else if (!strcmp(kind, "weibull"))       { st = esl_wei_FitComplete(x, n, &p1, &p2, &p3);            out_fit(st, 3, p1, p2, p3); }
  else if (!strcmp(kind, "sxp"))           { st = esl_sxp_FitComplete(x, n, &p1, &p2, &p3);            out_fit(st, 3, p1, p2, p3); }
  else if (!strcmp(kind, "gev"))           { st = esl_gev_FitComplete(x, n, &p1, &p2, &p3);            out_fit(st, 3, p1, p2, p3); }
  else if (!strcmp(kind, "gevcens"))       { st = esl_gev_FitCensored(x, n, z, a, &p1, &p2, &p3);      out_fit(st, 3, p1, p2, p3); }
  else h_out("bad-op");
  free(x);
}

/* sample from the library's own samplers: prints the sample as bit patterns (the plug-in feeds it back to both sides) */
static void do_sample(void) {
  const char *kind = h_arg("kind"); int n = (int) h_argi("n", 10), i; uint32_t seed = (uint32_t) h_argu("seed", 1);
  double mu = h_argbits("mu"), lambda = h_argbits("lambda"), tau = h_argbits("tau");
  ESL_RANDOMNESS *r = esl_randomness_Create(seed); char *buf = malloc((size_t) n * 17 + 8), *p = buf;
  p += sprintf(p, "ok ");
  for (i = 0; i < n; i++) {
    double v = 0.;
    if      (!strcmp(kind, "exp"))       v = esl_exp_Sample(r, mu, lambda);
    else if (!strcmp(kind, "gumbel"))    v = esl_gumbel_Sample(r, mu, lambda);
    else if (!strcmp(kind, "gamma"))     v = esl_gam_Sample(r, mu, lambda, tau);
    else if (!strcmp(kind, "weibull"))   v = esl_wei_Sample(r, mu, lambda, tau);
    else if (!strcmp(kind, "sxp"))       v = esl_sxp_Sample(r, mu, lambda, tau);
    else if (!strcmp(kind, "lognormal")) v = exp(mu + lambda * esl_rnd_Gaussian(r, 0., 1.));
    else if (!strcmp(kind, "gev"))       v = esl_gev_Sample(r, mu, lambda, tau);
    p += sprintf(p, "%s%s", i ? "," : "", h_dbits(v));
  }
  h_out("%s", buf); free(buf); esl_randomness_Destroy(r);
}


/* ---- objective families shared with the model (Stats/Rootfinder.lean): same operation order on both sides ---- */
struct rf_prm { int fam; double c[4]; };
static int rf_fdf(double x, void *params, double *ret_fx, double *ret_dfx) {
  struct rf_prm *p = (struct rf_prm *) params; double fx, dfx;
  if      (p->fam == 0) { fx = ((p->c[3]*x + p->c[2])*x + p->c[1])*x + p->c[0]; dfx = (3.0*p->c[3]*x + 2.0*p->c[2])*x + p->c[1]; }
  else if (p->fam == 1) { fx = exp(p->c[1]*x) - p->c[0];                           dfx = p->c[1]*exp(p->c[1]*x); }
  else                  { fx = log(x) - p->c[0];                                    dfx = 1./x; }
  *ret_fx = fx; if (ret_dfx) *ret_dfx = dfx; return eslOK;
}
static int rf_f(double x, void *params, double *ret_fx) { return rf_fdf(x, params, ret_fx, NULL); }

struct obj_prm { int fam; double *p; int np; };
static double P(struct obj_prm *o, int i) { return (i >= 0 && i < o->np) ? o->p[i] : 0.; }
static double obj_func(double *x, int n, void *prm) {
  struct obj_prm *o = (struct obj_prm *) prm; double fx = 0.; int i;
  switch (o->fam) {
  case 0: for (i = 0; i < n; i++) fx += P(o,i) * (x[i] - P(o,n+i)) * (x[i] - P(o,n+i)); return fx;
  case 1: { double t1 = 1. - x[0], t2 = (n > 1 ? x[1] : 0.) - x[0]*x[0]; return t1*t1 + P(o,0)*t2*t2; }
  case 2: for (i = 0; i < n; i++) fx += (exp(P(o,i) * x[i]) - P(o,n+i) * x[i]); return fx;
  case 3: for (i = 0; i < n; i++) fx += (x[i] - P(o,i) * log(x[i])); return fx;
  case 5: case 6: case 7: {       /* negative log-likelihoods of the current data set (op "data"), variables (log lambda, log tau), p[0] = mu:
                                     the objective of esl_wei_FitComplete (5) and esl_sxp_FitComplete (7) rebuilt from the public logpdf's, and the gamma analogue (6) */
      double lambda = exp(x[0]), tau = exp(n > 1 ? x[1] : 0.), mu = P(o,0), logL = 0.;
      if (o->fam == 6 && !(tau > 0.)) return eslINFINITY;             /* esl_gam_logpdf would read an unset LogGamma answer */
      if (o->fam == 7 && !(1./tau > 0.)) return eslINFINITY;          /* same in esl_sxp_logpdf */
      for (i = 0; i < DN; i++) {
        if (o->fam == 5) { if (tau != 1. && DX[i] == mu) continue; logL += esl_wei_logpdf(DX[i], mu, lambda, tau); }
        else if (o->fam == 6) logL += esl_gam_logpdf(DX[i], mu, lambda, tau);
        else logL += esl_sxp_logpdf(DX[i], mu, lambda, tau);
      }
      return -logL; }
  default: { int same = 1;
      for (i = 0; i < n; i++) { double xi = x[i], ai = P(o,i), bi = P(o,n+i);
        fx += (xi > bi) ? 2.0 * ai * (xi - bi) : ai * (bi - xi);
        if (! (xi == bi)) same = 0; }
      return same ? fx : fx + P(o,2*n); }
  }
}
static void obj_dfunc(double *x, int n, void *prm, double *dx) {     /* quad only */
  struct obj_prm *o = (struct obj_prm *) prm; int i;
  for (i = 0; i < n; i++) dx[i] = 2.0 * P(o,i) * (x[i] - P(o,n+i));
}
static int obj_fam(const char *s) {
  if (!s) return -1;
  if (!strcmp(s, "quad")) return 0; if (!strcmp(s, "rosen")) return 1; if (!strcmp(s, "explin")) return 2;
  if (!strcmp(s, "logbar")) return 3; if (!strcmp(s, "needle")) return 4;
  if (!strcmp(s, "weinll")) return 5; if (!strcmp(s, "gamnll")) return 6; if (!strcmp(s, "sxpnll")) return 7; return -1;
}
static ESL_MIN_CFG *mk_cfg(int n) {      /* cfg=null -> NULL; cfg=create -> esl_min_cfg_Create(n) with the overrides given */
  const char *c = h_arg("cfg"); ESL_MIN_CFG *cfg; double *u; int nu, i;
  if (!c || strcmp(c, "create")) return NULL;
  cfg = esl_min_cfg_Create(n);
  if (h_arg("maxit"))    cfg->max_iterations = (int) h_argi("maxit", 100);
  if (h_arg("brackmax")) cfg->brack_maxiter  = (int) h_argi("brackmax", 100);
  if (h_arg("cgrtol"))   cfg->cg_rtol    = h_argbits("cgrtol");
  if (h_arg("cgatol"))   cfg->cg_atol    = h_argbits("cgatol");
  if (h_arg("brtol"))    cfg->brent_rtol = h_argbits("brtol");
  if (h_arg("batol"))    cfg->brent_atol = h_argbits("batol");
  if (h_arg("dstep"))    cfg->deriv_step = h_argbits("dstep");
  if (h_arg("u")) { nu = parse_bits_list(h_arg("u"), &u); for (i = 0; i < n && i < nu; i++) cfg->u[i] = u[i]; free(u); }
  return cfg;
}

static void do_root(void) {
  const char *meth = h_arg("meth"), *fam = h_arg("fam"); struct rf_prm prm; double *c; int nc, i, reps = (int) h_argi("reps", 1);
  ESL_ROOTFINDER *R; char buf[1024]; size_t len = 0; int bis;
  if (!meth || !fam) { h_out("bad-op"); return; }
  prm.fam = !strcmp(fam, "poly") ? 0 : !strcmp(fam, "exp") ? 1 : 2;
  nc = parse_bits_list(h_arg("c"), &c); for (i = 0; i < 4; i++) prm.c[i] = i < nc ? c[i] : 0.; free(c);
  bis = !strcmp(meth, "bis");
  R = (bis && h_argi("fdf", 0) == 0) ? esl_rootfinder_Create(rf_f, &prm) : esl_rootfinder_CreateFDF(rf_fdf, &prm);
  if (h_arg("abstol")) esl_rootfinder_SetAbsoluteTolerance(R, h_argbits("abstol"));
  if (h_arg("reltol")) esl_rootfinder_SetRelativeTolerance(R, h_argbits("reltol"));
  if (h_arg("restol")) esl_rootfinder_SetResidualTolerance(R, h_argbits("restol"));
  if (h_arg("maxit"))  esl_rootfinder_SetMaxIterations(R, (int) h_argi("maxit", 100));
  buf[0] = 0;
  for (i = 0; i < reps && i < 3; i++) {
    double x = -7777.; int st;
    if (bis) { st = esl_root_Bisection(R, h_argbits("xl"), h_argbits("xr"), &x);
               len += sprintf(buf + len, "%s%s x=%s iter=%d xl=%s xr=%s", i ? " | " : "", h_status(st), h_dbits(x), R->iter, bits6(0, R->xl), bits6(1, R->xr)); }
    else     { st = esl_root_NewtonRaphson(R, h_argbits("guess"), &x);
               len += sprintf(buf + len, "%s%s x=%s iter=%d x0=%s", i ? " | " : "", h_status(st), bits6(0, R->x), R->iter, bits6(1, R->x0)); }
  }
  esl_rootfinder_Destroy(R);
  h_out("%s", buf);
}

static void do_min(const char *op) {
  struct obj_prm o; double *x0, *d = NULL, *wrk; int n, nd, i; ESL_MIN_CFG *cfg; char *buf; size_t len = 0;
  o.fam = obj_fam(h_arg("fam")); o.np = parse_bits_list(h_arg("p"), &o.p);
  n = parse_bits_list(h_arg(!strcmp(op, "cgd") ? "x0" : "ori"), &x0);
  if (o.fam < 0 || n < 1) { h_out("bad-op"); free(o.p); free(x0); return; }
  cfg = mk_cfg(n); wrk = malloc(sizeof(double) * n); buf = malloc(64 + 24 * (size_t) n);
  if (!strcmp(op, "cgd")) {
    double fx = -7777.; int st; double *x = malloc(sizeof(double) * n); memcpy(x, x0, sizeof(double) * n);   /* exact-size copy */
    ESL_MIN_DAT *dat = h_argi("nodat", 0) ? NULL : esl_min_dat_Create(cfg);
    alarm(H_FIT_TIMEOUT);
    st = esl_min_ConjugateGradientDescent(cfg, x, n, obj_func, (h_argi("grad", 0) && o.fam == 0) ? obj_dfunc : NULL, &o, &fx, dat);
    alarm(0);
    buf = realloc(buf, 256 + 24 * (size_t) n + (dat ? 40 * (size_t) (dat->niter + 2) : 0));
    len += sprintf(buf + len, "%s fx=%s x=", h_status(st), h_dbits(fx));
    if (st == eslOK || st == eslENOHALT) for (i = 0; i < n; i++) len += sprintf(buf + len, "%s%s", i ? "," : "", h_dbits(x[i]));
    else len += sprintf(buf + len, "-");       /* "<x> is undefined" on thrown exceptions */
    if (dat && (st == eslOK || st == eslENOHALT)) {   /* the ESL_MIN_DAT table: rows 1..niter are complete on these two returns */
      uint64_t h = 0xcbf29ce484222325ULL; int mono = 1;
      for (i = 0; i <= dat->niter; i++) { uint64_t u; memcpy(&u, &dat->fx[i], 8); h = fnv(h, u); if (i > 0 && !(dat->fx[i] <= dat->fx[i-1])) mono = 0; }
      len += sprintf(buf + len, " it=%d nf0=%d mono=%d hash=%016" PRIx64 " bn=", dat->niter, dat->nfunc[0], mono, h);
      for (i = 1; i <= dat->niter; i++) len += sprintf(buf + len, "%s%d", i > 1 ? "," : "", dat->brack_n[i]);
      len += sprintf(buf + len, "%s rn=", dat->niter ? "" : "-");
      for (i = 1; i <= dat->niter; i++) len += sprintf(buf + len, "%s%d", i > 1 ? "," : "", dat->brent_n[i]);
      len += sprintf(buf + len, "%s nf=", dat->niter ? "" : "-");
      for (i = 1; i <= dat->niter; i++) len += sprintf(buf + len, "%s%d", i > 1 ? "," : "", dat->nfunc[i]);
      len += sprintf(buf + len, "%s", dat->niter ? "" : "-");
    }
    if (dat) esl_min_dat_Destroy(dat);
    h_out("%s", buf); free(x);
  } else {
    nd = parse_bits_list(h_arg("d"), &d);
    if (nd != n) h_out("bad-op");
    else if (!strcmp(op, "bracket")) {
      double ax, bx, cx, fa, fb, fc; int st = bracket(cfg, x0, d, n, h_argbits("first"), obj_func, &o, wrk, &ax, &bx, &cx, &fa, &fb, &fc, NULL);
      if (st == eslOK) h_out("ok ax=%s bx=%s cx=%s fa=%s fb=%s fc=%s", bits6(0, ax), bits6(1, bx), bits6(2, cx), bits6(3, fa), bits6(4, fb), bits6(5, fc));
      else h_out("%s", h_status(st));
    } else {
      double x = -7777., fx = -7777.;
      alarm(H_FIT_TIMEOUT); brent(cfg, x0, d, n, obj_func, &o, h_argbits("a"), h_argbits("b"), wrk, &x, &fx, NULL); alarm(0);
      h_out("ok x=%s fx=%s", bits6(0, x), bits6(1, fx));
    }
  }
  if (cfg) esl_min_cfg_Destroy(cfg);
  free(buf); free(wrk); free(d); free(x0); free(o.p);
}

/* ---- cumulative distribution functions shared with the model (Stats/HistExpect.lean): same operation order on both sides ---- */
struct cdf_prm { int fam; double c[2]; };
static double h_cdf(double x, void *params) {
  struct cdf_prm *p = (struct cdf_prm *) params;
  if (p->fam == 0) { if (x < p->c[0]) return 0.; if (x > p->c[1]) return 1.; return (x - p->c[0]) / (p->c[1] - p->c[0]); }
  if (p->fam == 1) { if (x < p->c[0]) return 0.; return 1. - exp(-(p->c[1] * (x - p->c[0]))); }
  return exp(-(exp(-(p->c[1] * (x - p->c[0])))));
}
static int cdf_args(struct cdf_prm *p) {
  const char *f = h_arg("cdf"); double *c; int nc, i;
  if (!f) return 0;
  p->fam = !strcmp(f, "unif") ? 0 : !strcmp(f, "exp") ? 1 : !strcmp(f, "gumbel") ? 2 : -1;
  if (p->fam < 0) return 0;
  nc = parse_bits_list(h_arg("c"), &c); for (i = 0; i < 2; i++) p->c[i] = i < nc ? c[i] : 0.; free(c);
  return 1;
}
static double h_identity(double p, void *params) { (void) params; return p; }
static uint64_t canon_bits(double d) { uint64_t u; if (d != d) return 0x7ff8000000000000ULL; memcpy(&u, &d, 8); return u; }
/* run a plot function into a temporary file and count what it printed: rows of the first and second data set, sum of the second
 * column of the first data set (counts), and the last second-column value of the first data set */
static void plot_table(int surv) {
  FILE *fp = tmpfile(); char line[256]; int set = 0, rows[2] = {0, 0}, nsets = 0; double sum = 0., last = 0., a, b; int st;
  uint64_t th = 0xcbf29ce484222325ULL; int tfinite = 1;     /* FNV-1a of the TEXT of the first data set (rows, trailing row, "&" line) */
  if (!fp) { h_out("esys"); return; }
  st = surv == 2 ? esl_histogram_PlotQQ(fp, H, h_identity, NULL) : surv ? esl_histogram_PlotSurvival(fp, H) : esl_histogram_Plot(fp, H);
  rewind(fp);
  while (fgets(line, sizeof(line), fp)) {
    if (set == 0) { const unsigned char *q; for (q = (const unsigned char *) line; *q; q++) th = (th ^ *q) * 0x100000001b3ULL;
                    if (strstr(line, "nan") || strstr(line, "inf")) tfinite = 0; }
    if (line[0] == '&') { set++; nsets++; continue; }
    if (set < 2 && sscanf(line, "%lf %lf", &a, &b) == 2) { rows[set]++; if (set == 0) { sum += b; last = b; } }
  }
  fclose(fp);
  if (st != eslOK) { h_out("%s", h_status(st)); return; }
  if (surv == 2) {      /* Q-Q plot with the identity as inverse cdf: the second column is the observed cdf sum/Nc (printed with 6 decimals) */
    if (!H->is_tailfit && H->Nc > 0 && H->Nc <= 10000 && rows[0] > 0) h_out("ok sets=%d rows1=%d rows2=%d cum=%ld", nsets, rows[0], rows[1], lround(last * (double) H->Nc));
    else h_out("ok sets=%d rows1=%d rows2=%d cum=-", nsets, rows[0], rows[1]);
  } else if (surv) {
    if (H->Nc > 0 && H->Nc <= 10000) h_out("ok sets=%d rows1=%d rows2=%d cum=%ld", nsets, rows[0], rows[1], lround(last * (double) H->Nc));
    else h_out("ok sets=%d rows1=%d rows2=%d cum=-", nsets, rows[0], rows[1]);
  } else if (tfinite) h_out("ok sets=%d rows1=%d rows2=%d sum=%.0f txt=%016" PRIx64, nsets, rows[0], rows[1], sum, th);
  else h_out("ok sets=%d rows1=%d rows2=%d sum=%.0f txt=-", nsets, rows[0], rows[1], sum);
}

static void h_op(void)
{
  const char *op = h_words[0];
  if (!strcmp(op, "root")) { do_root(); return; }
  if (!strcmp(op, "cgd") || !strcmp(op, "bracket") || !strcmp(op, "brent")) { do_min(op); return; }
  if (!strcmp(op, "hnew")) {
    double bmin = h_argbits("bmin"), bmax = h_argbits("bmax"), w = h_argbits("w");
    if (H) esl_histogram_Destroy(H);
    H = h_argi("full", 0) ? esl_histogram_CreateFull(bmin, bmax, w) : esl_histogram_Create(bmin, bmax, w);
    if (H) h_out("ok nb=%d", H->nb); else h_out("null");
    return;
  }
  if (!strcmp(op, "data"))   { free(DX); DN = parse_bits_list(h_arg("xs"), &DX); h_out("ok n=%d", DN); return; }
  if (!strcmp(op, "fitcount")) {   /* count-histogram fits: cs = c[0..n] */
    const char *kind = h_arg("kind"); double *c; int m = parse_bits_list(h_arg("cs"), &c); double p1 = 0, p2 = 0; int st;
    double *cc = malloc(m ? sizeof(double) * m : 1); if (m) memcpy(cc, c, sizeof(double) * m);     /* exact-size copy */
    if (m < 1 || !kind) h_out("bad-op");
    else if (!strcmp(kind, "lognormal")) { st = esl_lognormal_FitCountHistogram(cc, m - 1, &p1, &p2); out_fit(st, 2, p1, p2, 0); }
    else if (!strcmp(kind, "gamma"))     { st = esl_gam_FitCountHistogram(cc, m - 1, h_argbits("a"), &p1, &p2); out_fit(st, 2, p1, p2, 0); }
    else h_out("bad-op");
    free(cc); free(c); return;
  }
  if (!strcmp(op, "fit"))    { alarm(H_FIT_TIMEOUT); do_fit(); alarm(0); return; }   /* a fit that never returns dies with SIGALRM -> "fault signal:14" */
  if (!strcmp(op, "sample")) { do_sample(); return; }
  if (!strcmp(op, "sxpcdf")) {       /* esl_sxp_cdf() as sxp_complete_binned_func() calls it, incl. the parameters for which IncompleteGamma fails */
    h_out("ok %s", h_dbits(esl_sxp_cdf(h_argbits("x"), h_argbits("mu"), h_argbits("lambda"), h_argbits("tau")))); return;
  }
  if (!strcmp(op, "gevobj")) {       /* gev_func() and gev_gradient() at a given point p = (mu, log lambda, alpha) on the current data set */
    struct gev_data data; double *p = NULL, dp[3] = { 0., 0., 0. }, f; int np = parse_bits_list(h_arg("p"), &p);
    if (np != 3) { free(p); h_out("bad-op"); return; }
    data.x = DX; data.n = DN; data.is_censored = (int) h_argi("cens", 0); data.phi = h_argbits("a"); data.z = (int) h_argi("z", 0);
    f = gev_func(p, 3, &data); gev_gradient(p, 3, &data, dp);
    h_out("ok f=%s g0=%s g1=%s g2=%s", h_dbits(f), h_dbits(dp[0]), h_dbits(dp[1]), h_dbits(dp[2])); free(p); return;
  }
  if (op[0] == 'h' && !H) { h_out("nohist"); return; }
  if (!strcmp(op, "hadd")) {
    double *x; int n = parse_bits_list(h_arg("xs"), &x), i; char *buf = malloc((size_t) n + 8);
    for (i = 0; i < n; i++) buf[i] = st_letter(esl_histogram_Add(H, x[i]));
    buf[n] = 0; h_out("st=%s", buf); free(buf); free(x);
  } else if (!strcmp(op, "hscore")) {
    int b = -7777, st = esl_histogram_Score2Bin(H, h_argbits("x"), &b);
    h_out("%s b=%d lb=%s", h_status(st), b, h_dbits(esl_histogram_Bin2LBound(H, b)));   /* lb: the bin's lower bound, independent of array indexing */
  } else if (!strcmp(op, "hdump")) {
    dump();
  } else if (!strcmp(op, "hrank")) {
    double v = 0; int st = esl_histogram_GetRank(H, (int) h_argi("r", 1), &v);
    if (st == eslOK) h_out("ok %s", h_dbits(v)); else h_out("%s", h_status(st));
  } else if (!strcmp(op, "htail")) {
    double *x = NULL; int n = 0, z = 0, st = esl_histogram_GetTail(H, h_argbits("phi"), &x, &n, &z);
    if (st == eslOK) out_tail(x, n, z); else h_out("%s", h_status(st));
  } else if (!strcmp(op, "htailmass")) {
    double *x = NULL; int n = 0, z = 0, st = esl_histogram_GetTailByMass(H, h_argbits("p"), &x, &n, &z);
    if (st == eslOK) out_tail(x, n, z); else h_out("%s", h_status(st));
  } else if (!strcmp(op, "hdata")) {
    double *x = NULL; int n = 0, st = esl_histogram_GetData(H, &x, &n);
    if (st == eslOK) out_tail(x, n, 0); else h_out("%s", h_status(st));
  } else if (!strcmp(op, "hcens")) {
    h_out("%s", h_status(esl_histogram_DeclareCensoring(H, (int) h_argi("z", 0), h_argbits("phi"))));
  } else if (!strcmp(op, "hround")) {
    h_out("%s", h_status(esl_histogram_DeclareRounding(H)));
  } else if (!strcmp(op, "hsettail")) {
    double m = 0; int st = esl_histogram_SetTail(H, h_argbits("phi"), &m);
    if (st == eslOK) h_out("ok mass=%s", h_dbits(m)); else h_out("%s", h_status(st));
  } else if (!strcmp(op, "hsettailmass")) {
    double m = 0; int st = esl_histogram_SetTailByMass(H, h_argbits("p"), &m);
    if (st == eslOK) h_out("ok mass=%s", h_dbits(m)); else h_out("%s", h_status(st));
  } else if (!strcmp(op, "hexpfit")) {
    double mu = 0, la = 0; int st = esl_exp_FitCompleteBinned(H, &mu, &la);
    if (st == eslOK) out_fit(st, 2, mu, la, 0); else out_fit(st, 0, 0, 0, 0);
  } else if (!strcmp(op, "hgamfit")) {
    double mu = 0, la = 0, tau = 0; int st; alarm(H_FIT_TIMEOUT); st = esl_gam_FitCompleteBinned(H, &mu, &la, &tau);
    alarm(0); out_fit(st, 3, mu, la, tau);
  } else if (!strcmp(op, "hweifit")) {
    double mu = 0, la = 0, tau = 0; int st; alarm(H_FIT_TIMEOUT); st = esl_wei_FitCompleteBinned(H, &mu, &la, &tau);
    alarm(0); out_fit(st, 3, mu, la, tau);
  } else if (!strcmp(op, "hsxpfit")) {
    double mu = 0, la = 0, tau = 0; int st; alarm(H_FIT_TIMEOUT); st = esl_sxp_FitCompleteBinned(H, &mu, &la, &tau);
    alarm(0); out_fit(st, 3, mu, la, tau);
  } else if (!strcmp(op, "hexpect")) {
    struct cdf_prm prm; if (!cdf_args(&prm)) { h_out("bad-op"); return; }
    h_out("%s", h_status(esl_histogram_SetExpect(H, h_cdf, &prm)));
  } else if (!strcmp(op, "hexptail")) {
    struct cdf_prm prm; if (!cdf_args(&prm)) { h_out("bad-op"); return; }
    h_out("%s", h_status(esl_histogram_SetExpectedTail(H, h_argbits("base"), h_argbits("pmass"), h_cdf, &prm)));
  } else if (!strcmp(op, "hexpdump")) {
    if (!H->expect) h_out("ok null emin=%d tailfit=%d done=%d", H->emin, H->is_tailfit ? 1 : 0, H->is_done ? 1 : 0);
    else { uint64_t h = 0xcbf29ce484222325ULL; int i, npos = 0;
      for (i = 0; i < H->nb; i++) { h = fnv(h, canon_bits(H->expect[i])); if (H->expect[i] > 0.) npos++; }
      h_out("ok nb=%d emin=%d tailfit=%d done=%d tailbase=%s tailmass=%s npos=%d hash=%016" PRIx64, H->nb, H->emin, H->is_tailfit ? 1 : 0,
            H->is_done ? 1 : 0, bits6(0, H->tailbase), bits6(1, H->tailmass), npos, h); }
  } else if (!strcmp(op, "hgood")) {
    int nbins = -7; double G = -7., Gp = -7., X2 = -7., X2p = -7.; int st = esl_histogram_Goodness(H, (int) h_argi("nfitted", 0), &nbins, &G, &Gp, &X2, &X2p);
    if (st == eslEINVAL) h_out("einval");      /* thrown before anything is answered ("no expected counts in that histogram") */
    else h_out("%s nbins=%d G=%s Gp=%s X2=%s X2p=%s", h_status(st), nbins, bits6(0, G), bits6(1, Gp), bits6(2, X2), bits6(3, X2p));
  } else if (!strcmp(op, "hplot")) { plot_table(0);
  } else if (!strcmp(op, "hplotsurv")) { plot_table(1);
  } else if (!strcmp(op, "hplotqq")) { plot_table(2);
  } else h_out("bad-op");
}
int main(void) { return h_main(); }
