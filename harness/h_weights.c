/* C16 correspondence harness: weights (PB, BLOSUM, GSC), %id filter, single-linkage clustering, pairwise identity,
 * esl_quicksort — the REAL code of the working tree behind the line protocol of hcommon.h.
 *
 * The alignment is built up by ops (`abc`, `row`, `rf`); every computing op builds a fresh ESL_MSA from the stored rows,
 * runs one library call and prints one line. Doubles are printed as bit patterns.
 */
#include "hcommon.h"
#include "esl_alphabet.h"
#include "esl_msa.h"
#include "esl_msaweight.h"
#include "esl_msacluster.h"
#include "esl_cluster.h"
#include "esl_distance.h"
#include "esl_dmatrix.h"
#include "esl_quicksort.h"
#include "esl_rand64.h"
#include "esl_random.h"
#include "esl_tree.h"
#include <unistd.h>
#include <signal.h>
#include <fcntl.h>
#include <sys/stat.h>

/* Bounding the cost of a library that dies or loops on most inputs. Every computing op appends 's' to a marker file in the
 * working directory (private to one check run) when it starts and 'e' when it has answered; #s - #e is the number of ops
 * that killed the process so far (sanitizer abort, signal, or the 2-minute alarm below). After DEATH_LIMIT of them the
 * remaining computing ops answer `death-limit` at once: the run then ends in minutes with the violations already found
 * instead of restarting the harness once per remaining case. */
#define OPS_MARKER  "h_weights.ops"
#define DEATH_LIMIT 25
static void mark(char c)
{
  int fd = open(OPS_MARKER, O_WRONLY | O_CREAT | O_APPEND, 0600);
  if (fd >= 0) { if (write(fd, &c, 1) < 0) {} close(fd); }
}
static int deaths_so_far(void)
{
  static int n = -1; FILE *f; int c;
  if (n >= 0) return n;
  n = 0;
  if ((f = fopen(OPS_MARKER, "r")) != NULL) { while ((c = fgetc(f)) != EOF) n += (c == 's') - (c == 'e'); fclose(f); }
  return n;
}
#define MAXROWS 4096

static int            g_mode;          /* 0 text, 1 amino, 2 dna, 3 rna */
static ESL_ALPHABET  *g_abc;
static unsigned char *g_row[MAXROWS];
static int64_t        g_alen;
static int            g_nrow;
static unsigned char *g_rf;

static void clear_rows(void)
{
  int i;
  for (i = 0; i < g_nrow; i++) free(g_row[i]);
  g_nrow = 0; g_alen = -1;
  free(g_rf); g_rf = NULL;
}

static void h_case_begin(void) { clear_rows(); if (g_abc) { esl_alphabet_Destroy(g_abc); g_abc = NULL; } g_mode = 0; }
static void h_case_end(void)   { clear_rows(); if (g_abc) { esl_alphabet_Destroy(g_abc); g_abc = NULL; } }

static ESL_MSA *build_msa(void)
{
  ESL_MSA *msa;
  int i; char nm[32];
  if (g_nrow < 1 || g_alen < 1) return NULL;
  msa = (g_mode == 0) ? esl_msa_Create(g_nrow, g_alen) : esl_msa_CreateDigital(g_abc, g_nrow, g_alen);
  if (!msa) return NULL;
  for (i = 0; i < g_nrow; i++) {
    if (g_mode == 0) { memcpy(msa->aseq[i], g_row[i], g_alen); msa->aseq[i][g_alen] = 0; }
    else             { memcpy(msa->ax[i] + 1, g_row[i], g_alen); msa->ax[i][0] = msa->ax[i][g_alen+1] = eslDSQ_SENTINEL; }
    snprintf(nm, sizeof(nm), "s%d", i);
    esl_msa_SetSeqName(msa, i, nm, -1);
    msa->wgt[i] = 1.0;
  }
  msa->alen = g_alen;
  if (g_rf) { msa->rf = malloc(g_alen + 1); memcpy(msa->rf, g_rf, g_alen); msa->rf[g_alen] = 0; }
  return msa;
}

/* growing output buffer */
static char *ob; static size_t ocap, olen;
static void o_reset(void) { olen = 0; if (!ob) { ocap = 1 << 16; ob = malloc(ocap); } ob[0] = 0; }
static void o_add(const char *fmt, ...)
{
  va_list ap; int n;
  if (ocap - olen < 256) { ocap *= 2; ob = realloc(ob, ocap); }
  va_start(ap, fmt); n = vsnprintf(ob + olen, ocap - olen, fmt, ap); va_end(ap);
  olen += n;
}
static void o_dlist(const double *v, int n) { int i; if (n == 0) o_add("-"); for (i = 0; i < n; i++) o_add(i ? ",%s" : "%s", h_dbits(v[i])); }
static void o_ilist(const int *v, int n)    { int i; if (n == 0) o_add("-"); for (i = 0; i < n; i++) o_add(i ? ",%d" : "%d", v[i]); }

static float argf32(const char *key, float dflt)
{ const char *v = h_arg(key); uint32_t u; float f; if (!v) return dflt; u = (uint32_t) strtoul(v, NULL, 16); memcpy(&f, &u, 4); return f; }

/* generic clustering test: vertices are ints, link looked up in an explicit matrix */
struct adj_s { int n; const char *m; };
static int adj_link(const void *v1, const void *v2, const void *p, int *ret_link)
{
  const struct adj_s *a = p;
  int x = *(const int *) v1, y = *(const int *) v2;
  *ret_link = (a->m[x * a->n + y] == '1');
  return eslOK;
}

static int cmp_decreasing(const void *data, int e1, int e2)
{
  const double *w = data;
  if (w[e1] > w[e2]) return -1;
  if (w[e1] < w[e2]) return 1;
  return 0;
}

static void out_weights(ESL_MSA *msa, int status)
{
  if (status != eslOK || h_exception_seen) { h_out("%s exc=%d", h_status(status), h_exception_seen ? 1 : 0); return; }
  o_reset(); o_add("ok hw=%d w=", (msa->flags & eslMSA_HASWGTS) ? 1 : 0); o_dlist(msa->wgt, msa->nseq); h_out("%s", ob);
}

static void out_filtered(ESL_MSA *msa, ESL_MSA *nw, int status)
{
  int i, k, same = 1; int *kept;
  if (status != eslOK || h_exception_seen || !nw) { h_out("%s exc=%d", h_status(status), h_exception_seen ? 1 : 0); return; }
  kept = malloc(sizeof(int) * nw->nseq);
  for (i = 0; i < nw->nseq; i++) {
    k = atoi(nw->sqname[i] + 1); kept[i] = k;
    if (k < 0 || k >= msa->nseq) { same = 0; continue; }
    if (g_mode == 0) { if (memcmp(nw->aseq[i], msa->aseq[k], g_alen + 1) != 0) same = 0; }
    else             { if (memcmp(nw->ax[i], msa->ax[k], g_alen + 2) != 0) same = 0; }
  }
  if (nw->alen != msa->alen) same = 0;
  o_reset(); o_add("ok same=%d kept=", same); o_ilist(kept, nw->nseq); h_out("%s", ob);
  free(kept);
}

/* every public field of ESL_MSAWEIGHT_CFG from the op's arguments (defaults = esl_msaweight_cfg_Create) */
static ESL_MSAWEIGHT_CFG *cfg_from_args(void)
{
  ESL_MSAWEIGHT_CFG *cfg = esl_msaweight_cfg_Create();
  cfg->ignore_rf  = (int) h_argi("irf", eslMSAWEIGHT_IGNORE_RF);
  cfg->fragthresh = argf32("ft", eslMSAWEIGHT_FRAGTHRESH);
  cfg->symfrac    = argf32("sf", eslMSAWEIGHT_SYMFRAC);
  cfg->allow_samp = (int) h_argi("as", eslMSAWEIGHT_ALLOW_SAMP);
  cfg->sampthresh = (int) h_argi("st", eslMSAWEIGHT_SAMPTHRESH);
  cfg->nsamp      = (int) h_argi("ns", eslMSAWEIGHT_NSAMP);
  cfg->maxfrag    = (int) h_argi("mf", eslMSAWEIGHT_MAXFRAG);
  cfg->seed       = h_argu("seed", eslMSAWEIGHT_RNGSEED);
  cfg->filterpref = (int) h_argi("pref", eslMSAWEIGHT_FILT_CONSCOVER);
  return cfg;
}

static void do_op(void);
static void h_op(void)
{
  const char *op = h_words[0];
  int computing = strcmp(op, "abc") && strcmp(op, "row") && strcmp(op, "rf") && strcmp(op, "clear");
  if (computing) {
    if (deaths_so_far() >= DEATH_LIMIT) { h_out("death-limit"); return; }
    mark('s');
    alarm(120);          /* default action of SIGALRM: the process dies, the engine reports `fault signal:14` */
    do_op();
    alarm(0);
    mark('e');
  } else do_op();
}

static void do_op(void)
{
  const char *op = h_words[0];
  if (!strcmp(op, "abc")) {
    const char *t = h_arg("t");
    clear_rows();
    if (g_abc) { esl_alphabet_Destroy(g_abc); g_abc = NULL; }
    if      (t && !strcmp(t, "text"))  g_mode = 0;
    else if (t && !strcmp(t, "amino")) { g_mode = 1; g_abc = esl_alphabet_Create(eslAMINO); }
    else if (t && !strcmp(t, "dna"))   { g_mode = 2; g_abc = esl_alphabet_Create(eslDNA); }
    else if (t && !strcmp(t, "rna"))   { g_mode = 3; g_abc = esl_alphabet_Create(eslRNA); }
    else { h_out("bad-op"); return; }
    h_out("ok");
  }
  else if (!strcmp(op, "clear")) { clear_rows(); h_out("ok"); }
  else if (!strcmp(op, "row")) {
    int64_t n, i; unsigned char *b;
    if (!h_arg("h") || g_nrow >= MAXROWS) { h_out("bad-op"); return; }
    b = h_unhex(h_arg("h"), &n);
    if (n < 1 || (g_alen >= 0 && n != g_alen)) { free(b); h_out("bad-op"); return; }
    for (i = 0; i < n; i++)
      if ((g_mode == 0 && b[i] == 0) || (g_mode != 0 && b[i] >= g_abc->Kp)) { free(b); h_out("bad-op"); return; }
    g_alen = n; g_row[g_nrow++] = b;
    h_out("ok %d", g_nrow);
  }
  else if (!strcmp(op, "rf")) {
    int64_t n, i; unsigned char *b;
    if (!h_arg("h")) { h_out("bad-op"); return; }
    b = h_unhex(h_arg("h"), &n);
    if (g_alen < 0 || n != g_alen) { free(b); h_out("bad-op"); return; }
    for (i = 0; i < n; i++) if (b[i] == 0) { free(b); h_out("bad-op"); return; }
    free(g_rf); g_rf = b;
    h_out("ok");
  }
  else if (!strcmp(op, "pairid")) {
    int i = (int) h_argi("i", 0), j = (int) h_argi("j", 0), st, nid = -1, n = -1; double pid = -1.;
    ESL_MSA *msa = build_msa();
    if (!msa || i < 0 || j < 0 || i >= g_nrow || j >= g_nrow) { esl_msa_Destroy(msa); h_out("bad-op"); return; }
    { /* opt=<mask>: which of the three optional outputs are requested (1 pid, 2 nid, 4 n); the others are passed NULL */
      int opt = (int) h_argi("opt", 7);
      double *ppid = (opt & 1) ? &pid : NULL; int *pnid = (opt & 2) ? &nid : NULL, *pn = (opt & 4) ? &n : NULL;
      if (g_mode == 0) st = esl_dst_CPairId(msa->aseq[i], msa->aseq[j], ppid, pnid, pn);
      else             st = esl_dst_XPairId(g_abc, msa->ax[i], msa->ax[j], ppid, pnid, pn);
    }
    h_out("%s %s %d %d", h_status(st), h_dbits(pid), nid, n);
    esl_msa_Destroy(msa);
  }
  else if (!strcmp(op, "pairstr")) {   /* two free-standing sequences, possibly of unequal length */
    int64_t na, nb; int st, nid = -1, n = -1; double pid = -1.; int64_t i;
    unsigned char *a, *b;
    if (!h_arg("a") || !h_arg("b")) { h_out("bad-op"); return; }
    a = h_unhex(h_arg("a"), &na); b = h_unhex(h_arg("b"), &nb);
    if (g_mode == 0) {
      for (i = 0; i < na; i++) if (a[i] == 0) { free(a); free(b); h_out("bad-op"); return; }
      for (i = 0; i < nb; i++) if (b[i] == 0) { free(a); free(b); h_out("bad-op"); return; }
      st = esl_dst_CPairId((char *) a, (char *) b, &pid, &nid, &n);
    } else {
      ESL_DSQ *x = malloc(na + 2), *y = malloc(nb + 2);
      for (i = 0; i < na; i++) if (a[i] >= g_abc->Kp) { free(a); free(b); free(x); free(y); h_out("bad-op"); return; }
      for (i = 0; i < nb; i++) if (b[i] >= g_abc->Kp) { free(a); free(b); free(x); free(y); h_out("bad-op"); return; }
      x[0] = x[na+1] = y[0] = y[nb+1] = eslDSQ_SENTINEL;
      memcpy(x + 1, a, na); memcpy(y + 1, b, nb);
      st = esl_dst_XPairId(g_abc, x, y, &pid, &nid, &n);
      free(x); free(y);
    }
    h_out("%s %s %d %d", h_status(st), h_dbits(pid), nid, n);
    free(a); free(b);
  }
  else if (!strcmp(op, "pairidmx") || !strcmp(op, "diffmx")) {
    ESL_MSA *msa = build_msa(); ESL_DMATRIX *S = NULL; int st, i;
    if (!msa) { h_out("bad-op"); return; }
    if (!strcmp(op, "pairidmx")) st = (g_mode == 0) ? esl_dst_CPairIdMx(msa->aseq, msa->nseq, &S) : esl_dst_XPairIdMx(g_abc, msa->ax, msa->nseq, &S);
    else                         st = (g_mode == 0) ? esl_dst_CDiffMx(msa->aseq, msa->nseq, &S)   : esl_dst_XDiffMx(g_abc, msa->ax, msa->nseq, &S);
    if (st != eslOK || !S) h_out("%s", h_status(st));
    else {
      o_reset(); o_add("ok ");
      for (i = 0; i < msa->nseq; i++) { if (i) o_add(","); o_dlist(S->mx[i], msa->nseq); }
      h_out("%s", ob);
    }
    esl_dmatrix_Destroy(S); esl_msa_Destroy(msa);
  }
  else if (!strcmp(op, "slink")) {
    ESL_MSA *msa = build_msa(); int *c = NULL, *nin = NULL, nc = -1, st; int pre = (int) h_argi("pre", 0), i;
    /* modes=<c><nin><nc>: each optional result 0 = not requested (NULL), 1 = allocated by the callee (pointer to NULL), 2 = array
     * provided by the caller; <nc> 0/1. pre=0..3 are the four combinations driven since round 2. */
    static const char *premodes[4] = { "111", "221", "011", "101" };
    const char *md = h_arg("modes"); int cm, nm, ncm, nlen = -1;
    if (!msa) { h_out("bad-op"); return; }
    if (!md) md = premodes[(pre >= 0 && pre <= 3) ? pre : 0];
    if (strlen(md) != 3 || md[0] < '0' || md[0] > '2' || md[1] < '0' || md[1] > '2' || md[2] < '0' || md[2] > '1') { esl_msa_Destroy(msa); h_out("bad-op"); return; }
    cm = md[0] - '0'; nm = md[1] - '0'; ncm = md[2] - '0';
    if (cm == 2) { c   = malloc(sizeof(int) * msa->nseq); for (i = 0; i < msa->nseq; i++) c[i]   = -7; }
    if (nm == 2) { nin = malloc(sizeof(int) * msa->nseq); for (i = 0; i < msa->nseq; i++) nin[i] = -7; }
    st = esl_msacluster_SingleLinkage(msa, h_argbits("maxid"), cm ? &c : NULL, nm ? &nin : NULL, ncm ? &nc : NULL);
    if (st != eslOK) h_out("%s", h_status(st));
    else {
      o_reset();
      if (ncm) { o_add("ok nc=%d c=", nc); nlen = nc; } else o_add("ok nc=- c=");
      if (!cm) o_add("-"); else o_ilist(c, msa->nseq);
      if (nlen < 0 && cm)      { for (i = 0, nlen = 0; i < msa->nseq; i++) if (c[i] + 1 > nlen) nlen = c[i] + 1; }
      if (nlen < 0 && nm == 2) { for (nlen = 0; nlen < msa->nseq && nin[nlen] != -7; nlen++) ; }
      o_add(" nin=");
      if (!nm) o_add("-"); else if (nlen < 0) o_add("?"); else o_ilist(nin, nlen);
      if (nm == 2 && nlen >= 0) for (i = nlen; i < msa->nseq; i++) if (nin[i] != -7) { o_add(" wrote-past-nc"); break; }
      h_out("%s", ob);
    }
    free(c); free(nin); esl_msa_Destroy(msa);
  }
  else if (!strcmp(op, "cluster")) {
    int n = (int) h_argi("n", 0), i, nc = -1, st; const char *m = h_arg("adj");
    struct adj_s a; int *v, *ws, *c;
    if (n < 1 || !m || (int) strlen(m) != n * n) { h_out("bad-op"); return; }
    a.n = n; a.m = m;
    v = malloc(sizeof(int) * n); ws = malloc(sizeof(int) * 2 * n); c = malloc(sizeof(int) * n);
    for (i = 0; i < n; i++) { v[i] = i; c[i] = -1; }
    st = esl_cluster_SingleLinkage(v, (size_t) n, sizeof(int), adj_link, &a, ws, c, &nc);
    if (st != eslOK) h_out("%s", h_status(st));
    else { o_reset(); o_add("ok nc=%d c=", nc); o_ilist(c, n); h_out("%s", ob); }
    free(v); free(ws); free(c);
  }
  else if (!strcmp(op, "qsort")) {
    const char *w = h_arg("w"); int n = 0, i; double *d; int *ord; const char *p;
    if (!w) { h_out("bad-op"); return; }
    for (p = w, n = 1; *p; p++) if (*p == ',') n++;
    d = malloc(sizeof(double) * n); ord = malloc(sizeof(int) * n);
    for (p = w, i = 0; i < n; i++) { uint64_t u = strtoull(p, NULL, 16); memcpy(&d[i], &u, 8); p = strchr(p, ','); if (p) p++; else break; }
    esl_quicksort(d, n, cmp_decreasing, ord);
    o_reset(); o_add("ok "); o_ilist(ord, n); h_out("%s", ob);
    free(d); free(ord);
  }
  else if (!strcmp(op, "pb") || !strcmp(op, "gsc") || !strcmp(op, "blosum")) {
    ESL_MSA *msa = build_msa(); int st;
    if (!msa) { h_out("bad-op"); return; }
    if      (!strcmp(op, "pb"))  st = esl_msaweight_PB(msa);
    else if (!strcmp(op, "gsc")) st = esl_msaweight_GSC(msa);
    else                         st = esl_msaweight_BLOSUM(msa, h_argbits("maxid"));
    out_weights(msa, st);
    esl_msa_Destroy(msa);
  }
  else if (!strcmp(op, "multi")) {   /* several weighting calls on ONE msa object; the last one decides the weights */
    ESL_MSA *msa = build_msa(); int st = eslOK; const char *q = h_arg("seq");
    if (!msa || !q) { esl_msa_Destroy(msa); h_out("bad-op"); return; }
    for (; *q && st == eslOK; q++) {
      if      (*q == 'p') st = esl_msaweight_PB(msa);
      else if (*q == 'g') st = esl_msaweight_GSC(msa);
      else if (*q == 'b') st = esl_msaweight_BLOSUM(msa, h_argbits("maxid"));
      else { esl_msa_Destroy(msa); h_out("bad-op"); return; }
    }
    out_weights(msa, st);
    esl_msa_Destroy(msa);
  }
  else if (!strcmp(op, "pbadv")) {
    ESL_MSA *msa = build_msa(); int st;
    ESL_MSAWEIGHT_CFG *cfg; ESL_MSAWEIGHT_DAT *dat;
    if (!msa || g_mode == 0 || h_argi("ns", 1) < 1) { esl_msa_Destroy(msa); h_out("bad-op"); return; }
    cfg = cfg_from_args(); dat = esl_msaweight_dat_Create();
    if (h_argi("reuse", 0)) {   /* multi-step history: the same ESL_MSAWEIGHT_DAT used for another configuration first, then _Reuse()d */
      ESL_MSAWEIGHT_CFG *cfg0 = esl_msaweight_cfg_Create(); int i;
      cfg0->ignore_rf = TRUE; cfg0->symfrac = (h_argi("reuse", 0) == 1 ? 0.0 : 1.0); cfg0->sampthresh = (h_argi("reuse", 0) == 3 ? 1 : cfg0->sampthresh); cfg0->nsamp = 2;
      esl_msaweight_PB_adv(cfg0, msa, dat);
      esl_msaweight_dat_Reuse(dat);
      esl_msaweight_cfg_Destroy(cfg0);
      for (i = 0; i < msa->nseq; i++) msa->wgt[i] = 1.0;
      msa->flags &= ~eslMSA_HASWGTS;
    }
    st = esl_msaweight_PB_adv(cfg, msa, dat);
    if (st != eslOK || h_exception_seen) h_out("%s exc=%d", h_status(st), h_exception_seen ? 1 : 0);
    else {
      o_reset();
      o_add("ok hw=%d rf=%d all=%d allcols=%d samp=%d nfrag=%d rej=%d snfrag=%d ncons=%d cons=", (msa->flags & eslMSA_HASWGTS) ? 1 : 0,
            dat->cons_by_rf, dat->cons_by_all, dat->cons_allcols, dat->cons_by_sample, dat->all_nfrag,
            dat->rejected_sample, dat->samp_nfrag, dat->ncons);
      o_ilist(dat->conscols, dat->conscols ? dat->ncons : 0);
      o_add(" w="); o_dlist(msa->wgt, msa->nseq);
      h_out("%s", ob);
    }
    esl_msaweight_dat_Destroy(dat); esl_msaweight_cfg_Destroy(cfg); esl_msa_Destroy(msa);
  }
  else if (!strcmp(op, "pairmatch") || !strcmp(op, "jc")) {
    int i = (int) h_argi("i", 0), j = (int) h_argi("j", 0), st, nm = -1, n = -1; double pm = -1., d = -1., v = -1.;
    int K = (g_mode == 0) ? (int) h_argi("k", 4) : g_abc->K;
    ESL_MSA *msa = build_msa();
    if (!msa || i < 0 || j < 0 || i >= g_nrow || j >= g_nrow || K < 2) { esl_msa_Destroy(msa); h_out("bad-op"); return; }
    int opt = (int) h_argi("opt", 7);
    if (!strcmp(op, "pairmatch")) {
      double *ppm = (opt & 1) ? &pm : NULL; int *pnm = (opt & 2) ? &nm : NULL, *pn = (opt & 4) ? &n : NULL;
      if (g_mode == 0) st = esl_dst_CPairMatch(msa->aseq[i], msa->aseq[j], ppm, pnm, pn);
      else             st = esl_dst_XPairMatch(g_abc, msa->ax[i], msa->ax[j], ppm, pnm, pn);
      h_out("%s %s %d %d", h_status(st), h_dbits(pm), nm, n);
    } else {
      double *pd = (opt & 1) ? &d : NULL, *pv = (opt & 2) ? &v : NULL;
      if (g_mode == 0) st = esl_dst_CJukesCantor(K, msa->aseq[i], msa->aseq[j], pd, pv);
      else             st = esl_dst_XJukesCantor(g_abc, msa->ax[i], msa->ax[j], pd, pv);
      o_reset(); o_add("%s %s", h_status(st), h_dbits(d)); o_add(" %s", h_dbits(v)); h_out("%s", ob);
    }
    esl_msa_Destroy(msa);
  }
  else if (!strcmp(op, "distpair")) {   /* PairMatch and JukesCantor on two free-standing sequences, possibly of unequal length */
    int64_t na, nb, i; int st1, st2, nm = -1, n = -1; double pm = -1., d = -1., v = -1.;
    int K = (g_mode == 0) ? (int) h_argi("k", 4) : g_abc->K;
    unsigned char *a, *b; int bad = 0;
    if (!h_arg("a") || !h_arg("b") || K < 2) { h_out("bad-op"); return; }
    a = h_unhex(h_arg("a"), &na); b = h_unhex(h_arg("b"), &nb);
    for (i = 0; i < na; i++) if ((g_mode == 0 && a[i] == 0) || (g_mode != 0 && a[i] >= g_abc->Kp)) bad = 1;
    for (i = 0; i < nb; i++) if ((g_mode == 0 && b[i] == 0) || (g_mode != 0 && b[i] >= g_abc->Kp)) bad = 1;
    if (bad) { free(a); free(b); h_out("bad-op"); return; }
    if (g_mode == 0) {
      char *x = malloc(na + 1), *y = malloc(nb + 1);
      memcpy(x, a, na); x[na] = 0; memcpy(y, b, nb); y[nb] = 0;
      st1 = esl_dst_CPairMatch(x, y, &pm, &nm, &n);
      st2 = esl_dst_CJukesCantor(K, x, y, &d, &v);
      free(x); free(y);
    } else {
      ESL_DSQ *x = malloc(na + 2), *y = malloc(nb + 2);
      x[0] = x[na+1] = y[0] = y[nb+1] = eslDSQ_SENTINEL;
      memcpy(x + 1, a, na); memcpy(y + 1, b, nb);
      st1 = esl_dst_XPairMatch(g_abc, x, y, &pm, &nm, &n);
      st2 = esl_dst_XJukesCantor(g_abc, x, y, &d, &v);
      free(x); free(y);
    }
    o_reset(); o_add("%s %s %d %d / ", h_status(st1), h_dbits(pm), nm, n);
    o_add("%s %s", h_status(st2), h_dbits(d)); o_add(" %s", h_dbits(v));
    h_out("%s", ob);
    free(a); free(b);
  }
  else if (!strcmp(op, "avgid") || !strcmp(op, "avgmatch")) {
    ESL_MSA *msa = build_msa(); int st; double avg = -1.; int maxc = (int) h_argi("max", 0);
    if (!msa || maxc < 1) { esl_msa_Destroy(msa); h_out("bad-op"); return; }
    if (!strcmp(op, "avgid")) st = (g_mode == 0) ? esl_dst_CAverageId(msa->aseq, msa->nseq, maxc, &avg)    : esl_dst_XAverageId(g_abc, msa->ax, msa->nseq, maxc, &avg);
    else                      st = (g_mode == 0) ? esl_dst_CAverageMatch(msa->aseq, msa->nseq, maxc, &avg) : esl_dst_XAverageMatch(g_abc, msa->ax, msa->nseq, maxc, &avg);
    h_out("%s %s", h_status(st), h_dbits(avg));
    esl_msa_Destroy(msa);
  }
  else if (!strcmp(op, "jcmx")) {      /* esl_dst_{C,X}JukesCantorMx: both matrices, or the status of the first failing pair */
    ESL_MSA *msa = build_msa(); ESL_DMATRIX *D = NULL, *V = NULL; int st, i;
    int K = (g_mode == 0) ? (int) h_argi("k", 4) : g_abc->K;
    if (!msa || K < 2) { esl_msa_Destroy(msa); h_out("bad-op"); return; }
    { /* opt=<mask>: 1 = distance matrix requested, 2 = variance matrix requested (the other is passed NULL and freed inside) */
      int opt = (int) h_argi("opt", 3);
      ESL_DMATRIX **pD = (opt & 1) ? &D : NULL, **pV = (opt & 2) ? &V : NULL;
      st = (g_mode == 0) ? esl_dst_CJukesCantorMx(K, msa->aseq, msa->nseq, pD, pV) : esl_dst_XJukesCantorMx(g_abc, msa->ax, msa->nseq, pD, pV);
      if (st != eslOK) h_out("%s%s", h_status(st), (D || V) ? " matrices-not-null" : "");
      else if (((opt & 1) && !D) || ((opt & 2) && !V)) h_out("ok-but-null");
      else {
        o_reset(); o_add("ok d=");
        if (!D) o_add("-"); else for (i = 0; i < msa->nseq; i++) { if (i) o_add(","); o_dlist(D->mx[i], msa->nseq); }
        o_add(" v=");
        if (!V) o_add("-"); else for (i = 0; i < msa->nseq; i++) { if (i) o_add(","); o_dlist(V->mx[i], msa->nseq); }
        h_out("%s", ob);
      }
    }
    esl_dmatrix_Destroy(D); esl_dmatrix_Destroy(V); esl_msa_Destroy(msa);
  }
  else if (!strcmp(op, "avgconn") || !strcmp(op, "avgsub")) {   /* esl_dst_XAvgConnectivity / esl_dst_XAvgSubsetConnectivity */
    ESL_MSA *msa = build_msa(); int st, maxc = (int) h_argi("max", 0); double avgid = -1., avgconn = -1.;
    if (!msa || maxc < 1 || g_mode == 0) { esl_msa_Destroy(msa); h_out("bad-op"); return; }
    if (!strcmp(op, "avgconn")) st = esl_dst_XAvgConnectivity(g_abc, msa->ax, msa->nseq, maxc, h_argbits("th"), &avgid, &avgconn);
    else {
      const char *v = h_arg("v"), *p; int nV = 0, *V, bad = 0;
      if (!v) { esl_msa_Destroy(msa); h_out("bad-op"); return; }
      V = malloc(sizeof(int) * (strlen(v) + 1));
      if (strcmp(v, "-")) for (p = v; p && *p; ) { V[nV] = atoi(p); if (V[nV] < 0 || V[nV] >= msa->nseq) bad = 1; nV++; p = strchr(p, ','); if (p) p++; }
      if (bad) { free(V); esl_msa_Destroy(msa); h_out("bad-op"); return; }
      st = esl_dst_XAvgSubsetConnectivity(g_abc, msa->ax, msa->nseq, V, nV, maxc, h_argbits("th"), &avgid, &avgconn);
      free(V);
    }
    o_reset(); o_add("%s %s", h_status(st), h_dbits(avgid)); o_add(" %s", h_dbits(avgconn)); h_out("%s", ob);
    esl_msa_Destroy(msa);
  }
  else if (!strcmp(op, "ragged")) {   /* matrix / averaging routines on sequences that need not be aligned (error paths) */
    const char *sq = h_arg("seqs"), *p; int maxc = (int) h_argi("max", 0), n = 0, i, bad = 0;
    int K = (g_mode == 0) ? (int) h_argi("k", 4) : g_abc->K;
    char **as = NULL; ESL_DSQ **ax = NULL; char *copy, *tok, *save = NULL;
    ESL_DMATRIX *S = NULL, *Dm = NULL, *J = NULL, *V = NULL; int st1, st2, st3, st4, st5, st6 = eslOK;
    double avgid = -7., avgm = -7., cid = -1., cconn = -1.; int skipavg = 0, ragged = 0; int64_t len0 = 0;
    /* esl_dst_{C,X}Average{Id,Match} on an unaligned pair: eslEINVAL and *opt_avg = 0 in BOTH branches (repaired by 640fa96; the
     * outputs are preset to a non-zero value so that "left untouched" shows, and a leaked ESL_RANDOMNESS shows as lsan:leak). */
    if (!sq || maxc < 1 || K < 2) { h_out("bad-op"); return; }
    for (p = sq, n = 1; *p; p++) if (*p == ',') n++;
    as = calloc(n, sizeof(char *)); ax = calloc(n, sizeof(ESL_DSQ *));
    copy = strdup(sq);
    for (i = 0, tok = strtok_r(copy, ",", &save); tok && i < n; tok = strtok_r(NULL, ",", &save), i++) {
      int64_t len = 0, k; unsigned char *b = strcmp(tok, "-") ? h_unhex(tok, &len) : NULL;
      as[i] = malloc(len + 1); ax[i] = malloc(len + 2);
      for (k = 0; k < len; k++) { if ((g_mode == 0 && b[k] == 0) || (g_mode != 0 && b[k] >= g_abc->Kp)) bad = 1; as[i][k] = (char) b[k]; ax[i][k+1] = b[k]; }
      as[i][len] = 0; ax[i][0] = ax[i][len+1] = eslDSQ_SENTINEL;
      if (i == 0) len0 = len; else if (len != len0) ragged = 1;
      free(b);
    }
    if (i != n) bad = 1;
    if (!bad) {
      int exhaustive = (n <= maxc && (int64_t) n * n <= 2 * (int64_t) maxc && (n * (n-1) / 2) <= maxc);
      (void) exhaustive; (void) ragged;
      st4 = st5 = eslOK;
      if (g_mode == 0) {
        st1 = esl_dst_CPairIdMx(as, n, &S);  st2 = esl_dst_CDiffMx(as, n, &Dm);  st3 = esl_dst_CJukesCantorMx(K, as, n, &J, &V);
        if (!skipavg) { st4 = esl_dst_CAverageId(as, n, maxc, &avgid);  st5 = esl_dst_CAverageMatch(as, n, maxc, &avgm); }
      } else {
        st1 = esl_dst_XPairIdMx(g_abc, ax, n, &S);  st2 = esl_dst_XDiffMx(g_abc, ax, n, &Dm);  st3 = esl_dst_XJukesCantorMx(g_abc, ax, n, &J, &V);
        if (!skipavg) { st4 = esl_dst_XAverageId(g_abc, ax, n, maxc, &avgid);  st5 = esl_dst_XAverageMatch(g_abc, ax, n, maxc, &avgm); }
        st6 = esl_dst_XAvgConnectivity(g_abc, ax, n, maxc, h_argbits("th"), &cid, &cconn);
      }
      o_reset();
      o_add("ok pidmx=%s%s", h_status(st1), ((st1 == eslOK) != (S != NULL)) ? "-nullness" : "");
      o_add(" diffmx=%s%s", h_status(st2), ((st2 == eslOK) != (Dm != NULL)) ? "-nullness" : "");
      o_add(" jcmx=%s%s", h_status(st3), ((st3 == eslOK) != (J != NULL) || (st3 == eslOK) != (V != NULL)) ? "-nullness" : "");
      if (skipavg) o_add(" avgid=skip avgmatch=skip");
      else {
        o_add(" avgid=%s:%s", h_status(st4), h_dbits(avgid));
        o_add(" avgmatch=%s:%s", h_status(st5), h_dbits(avgm));
      }
      if (g_mode == 0) o_add(" conn=-");
      else { o_add(" conn=%s:%s", h_status(st6), h_dbits(cid)); o_add(":%s", h_dbits(cconn)); }
      h_out("%s", ob);
    } else h_out("bad-op");
    esl_dmatrix_Destroy(S); esl_dmatrix_Destroy(Dm); esl_dmatrix_Destroy(J); esl_dmatrix_Destroy(V);
    for (i = 0; i < n; i++) { free(as[i]); free(ax[i]); }
    free(as); free(ax); free(copy);
  }
  else if (!strcmp(op, "upgma")) {   /* esl_tree_UPGMA on an explicit symmetric matrix (upper triangle given row-major) */
    int n = (int) h_argi("n", 0), i, j, st, valid; const char *dl = h_arg("d"), *p; ESL_DMATRIX *D; ESL_TREE *T = NULL;
    int cnt = 0; char errbuf[eslERRBUFSIZE];
    if (n < 2 || !dl) { h_out("bad-op"); return; }
    for (p = dl, cnt = 1; *p; p++) if (*p == ',') cnt++;
    if (cnt != n * (n - 1) / 2) { h_out("bad-op"); return; }
    D = esl_dmatrix_Create(n, n);
    p = dl;
    for (i = 0; i < n; i++) {
      D->mx[i][i] = 0.;
      for (j = i + 1; j < n; j++) {
        uint64_t u = strtoull(p, NULL, 16); double v; memcpy(&v, &u, 8);
        D->mx[i][j] = D->mx[j][i] = v;
        p = strchr(p, ','); if (p) p++;
      }
    }
    switch ((int) h_argi("link", 0)) {   /* every mode of cluster_engine */
    case 0:  st = esl_tree_UPGMA(D, &T);           break;
    case 1:  st = esl_tree_WPGMA(D, &T);           break;
    case 2:  st = esl_tree_SingleLinkage(D, &T);   break;
    case 3:  st = esl_tree_CompleteLinkage(D, &T); break;
    default: esl_dmatrix_Destroy(D); h_out("bad-op"); return;
    }
    if (st != eslOK || !T) h_out("%s", h_status(st));
    else {
      esl_tree_SetTaxaParents(T); esl_tree_SetCladesizes(T);
      valid = (esl_tree_Validate(T, errbuf) == eslOK);
      o_reset(); o_add("ok valid=%d N=%d lt=%d left=", valid, T->N, T->is_linkage_tree ? 1 : 0); o_ilist(T->left, n - 1);
      o_add(" right=");  o_ilist(T->right, n - 1);
      o_add(" parent="); o_ilist(T->parent, n - 1);
      o_add(" ld="); o_dlist(T->ld, n - 1);
      o_add(" rd="); o_dlist(T->rd, n - 1);
      o_add(" tp="); o_ilist(T->taxaparent, n);
      o_add(" cs="); o_ilist(T->cladesize, n - 1);
      h_out("%s", ob);
    }
    esl_tree_Destroy(T); esl_dmatrix_Destroy(D);
  }
  else if (!strcmp(op, "treeops")) {   /* the esl_tree.c functions that work on a finished tree, on cluster_engine's output */
    int n = (int) h_argi("n", 0), i, j, st, st2, k; const char *dl = h_arg("d"), *p; ESL_DMATRIX *D, *M = NULL; ESL_TREE *T = NULL, *T2 = NULL;
    int cnt = 0, lk = (int) h_argi("link", 0), lk2 = (int) h_argi("link2", 0); char errbuf[eslERRBUFSIZE];
    if (n < 2 || !dl || lk < 0 || lk > 3 || lk2 < 0 || lk2 > 3) { h_out("bad-op"); return; }
    for (p = dl, cnt = 1; *p; p++) if (*p == ',') cnt++;
    if (cnt != n * (n - 1) / 2) { h_out("bad-op"); return; }
    D = esl_dmatrix_Create(n, n);
    p = dl;
    for (i = 0; i < n; i++) {
      D->mx[i][i] = 0.;
      for (j = i + 1; j < n; j++) {
        uint64_t u = strtoull(p, NULL, 16); double v; memcpy(&v, &u, 8);
        D->mx[i][j] = D->mx[j][i] = v;
        p = strchr(p, ','); if (p) p++;
      }
    }
    for (k = 0; k < 2; k++) {
      ESL_TREE **tp = k ? &T2 : &T;
      switch (k ? lk2 : lk) {
      case 0:  st = esl_tree_UPGMA(D, tp);           break;
      case 1:  st = esl_tree_WPGMA(D, tp);           break;
      case 2:  st = esl_tree_SingleLinkage(D, tp);   break;
      default: st = esl_tree_CompleteLinkage(D, tp); break;
      }
      if (st != eslOK) break;
    }
    if (st != eslOK || !T || !T2) h_out("%s", h_status(st));
    else {
      o_reset();
      st = esl_tree_VerifyUltrametric(T);                   /* sets T->taxaparent */
      o_add("ok vu=%s", h_status(st));
      st = esl_tree_ToDistanceMatrix(T, &M);
      o_add(" dm=");
      if (st == eslOK && M) { int first = 1; for (i = 0; i < n; i++) for (j = i + 1; j < n; j++) { o_add("%s%s", first ? "" : ",", h_dbits(M->mx[i][j])); first = 0; if (M->mx[i][j] != M->mx[j][i]) st = eslFAIL; } if (n < 2) o_add("-"); }
      else o_add("%s", h_status(st));
      o_add(" dmsym=%d", st == eslOK);
      esl_tree_SetCladesizes(T);
      o_add(" cs="); o_ilist(T->cladesize, n - 1);
      o_add(" cmpself=%s", h_status(esl_tree_Compare(T, T)));
      o_add(" cmp=%s", h_status(esl_tree_Compare(T, T2)));
      st2 = esl_tree_RenumberNodes(T);
      o_add(" rn=%s left=", h_status(st2)); o_ilist(T->left, n - 1);
      o_add(" right=");  o_ilist(T->right, n - 1);
      o_add(" parent="); o_ilist(T->parent, n - 1);
      o_add(" ld="); o_dlist(T->ld, n - 1);
      o_add(" rd="); o_dlist(T->rd, n - 1);
      o_add(" tp="); o_ilist(T->taxaparent, n);
      free(T->cladesize); T->cladesize = NULL;              /* RenumberNodes leaves cladesize[] in the old numbering */
      esl_tree_SetCladesizes(T);
      o_add(" valid=%d", esl_tree_Validate(T, errbuf) == eslOK);
      o_add(" vu2=%s", h_status(esl_tree_VerifyUltrametric(T)));
      o_add(" cmp2=%s", h_status(esl_tree_Compare(T2, T)));
      o_add(" l2="); o_ilist(T2->left, n - 1);                /* the second tree, for the monitor's own topology comparison */
      o_add(" r2="); o_ilist(T2->right, n - 1);
      h_out("%s", ob);
    }
    esl_dmatrix_Destroy(M); esl_tree_Destroy(T); esl_tree_Destroy(T2); esl_dmatrix_Destroy(D);
  }
  else if (!strcmp(op, "simulate")) {   /* esl_tree_Simulate from esl_randomness_Create(seed), and the tree functions on its result */
    int n = (int) h_argi("n", 0), st; uint32_t seed = (uint32_t) h_argu("seed", 42); ESL_RANDOMNESS *r, *r2; ESL_TREE *T = NULL, *Tb = NULL;
    char errbuf[eslERRBUFSIZE];
    if (n < 2 || n > 4096 || seed == 0) { h_out("bad-op"); return; }
    r = esl_randomness_Create(seed); r2 = esl_randomness_Create(seed);
    st = esl_tree_Simulate(r, n, &T);
    if (st == eslOK) st = esl_tree_Simulate(r2, n, &Tb);
    if (st != eslOK || !T || !Tb) h_out("%s", h_status(st));
    else {
      o_reset(); o_add("ok next=%lu left=", (unsigned long) esl_random_uint32(r)); o_ilist(T->left, n - 1);
      o_add(" right=");  o_ilist(T->right, n - 1);
      o_add(" parent="); o_ilist(T->parent, n - 1);
      o_add(" ld="); o_dlist(T->ld, n - 1);
      o_add(" rd="); o_dlist(T->rd, n - 1);
      esl_tree_SetTaxaParents(T); esl_tree_SetCladesizes(T);
      o_add(" tp="); o_ilist(T->taxaparent, n);
      o_add(" cs="); o_ilist(T->cladesize, n - 1);
      o_add(" valid=%d", esl_tree_Validate(T, errbuf) == eslOK);
      o_add(" vu=%s", h_status(esl_tree_VerifyUltrametric(T)));
      o_add(" rn=%s rleft=", h_status(esl_tree_RenumberNodes(Tb))); o_ilist(Tb->left, n - 1);
      o_add(" rright=");  o_ilist(Tb->right, n - 1);
      o_add(" rparent="); o_ilist(Tb->parent, n - 1);
      o_add(" cmp=%s", h_status(esl_tree_Compare(T, Tb)));
      h_out("%s", ob);
    }
    esl_tree_Destroy(T); esl_tree_Destroy(Tb); esl_randomness_Destroy(r); esl_randomness_Destroy(r2);
  }
  else if (!strcmp(op, "deal64")) {   /* the sampler consensus_by_sample uses, by itself */
    int64_t m = h_argi("m", 0), n = h_argi("n", 0), i; int64_t *deal; ESL_RAND64 *rng;
    if (m < 1 || m > n) { h_out("bad-op"); return; }
    deal = malloc(sizeof(int64_t) * m);
    rng = esl_rand64_Create(h_argu("seed", eslMSAWEIGHT_RNGSEED));
    esl_rand64_Deal(rng, m, n, deal);
    o_reset(); o_add("ok ");
    for (i = 0; i < m; i++) o_add(i ? ",%lld" : "%lld", (long long) deal[i]);
    h_out("%s", ob);
    esl_rand64_Destroy(rng); free(deal);
  }
  else if (!strcmp(op, "idfilter")) {
    ESL_MSA *msa = build_msa(), *nw = NULL; int st;
    if (!msa) { h_out("bad-op"); return; }
    st = esl_msaweight_IDFilter(msa, h_argbits("maxid"), &nw);
    out_filtered(msa, nw, st);
    esl_msa_Destroy(nw); esl_msa_Destroy(msa);
  }
  else if (!strcmp(op, "idfilteradv")) {
    ESL_MSA *msa = build_msa(), *nw = NULL; int st; ESL_MSAWEIGHT_CFG *cfg;
    int pref = (int) h_argi("pref", eslMSAWEIGHT_FILT_CONSCOVER);
    if (!msa || g_mode == 0 || pref < 1 || pref > 3 || h_argi("ns", 1) < 1) { esl_msa_Destroy(msa); h_out("bad-op"); return; }
    cfg = cfg_from_args();
    st = esl_msaweight_IDFilter_adv(cfg, msa, h_argbits("maxid"), &nw);
    out_filtered(msa, nw, st);
    esl_msaweight_cfg_Destroy(cfg);
    esl_msa_Destroy(nw); esl_msa_Destroy(msa);
  }
  else h_out("bad-op");
}

int main(void) { return h_main(); }
