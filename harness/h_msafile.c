/* C01 / C03 correspondence + monitor harness: esl_msafile*.c, esl_msa.c on top of esl_buffer.c
 *
 * ops (one result line each):
 *   parse fmt=<f|auto> abc=<text|amino|dna|rna|guess> src=<mem|file|allfile|mmap|stream> ps=<pagesize|0> [sfx=<suffix>] [nw=<PHYLIP name width given in an ESL_MSAFILE_FMTDATA>] hex=<bytes>
 *       open the bytes, read alignments until a non-OK status (at most 64), dump each MSA, validate each.
 *   rt fmt=<f> abc=<text|amino|dna|rna> [via=direct [nw=<namewidth> rpl=<residues per line>]] <msa fields>
 *       build the MSA through the public API, write it (esl_msafile_Write dispatch, or via=direct the format's own
 *       esl_msafile_<fmt>_Write; nw/rpl = ESL_MSAFILE_FMTDATA of the PHYLIP writers), read it back (declared + autodetected), re-write.
 *
 *   reformat fmt=<f> abc=<text|amino|dna|rna> hex=<bytes>
 *       read the first alignment of the bytes, write it in the same format, read that back, compare (esl-reformat's path).
 *
 * dump syntax (blank-free), see dump_msa(): {n=..;alen=..;dig=..;hasw=..;nm=h,h;sq=h,h;...optional fields only when present}
 *   h = '~' NULL, '-' empty string, lowercase hex otherwise
 */
#include "hcommon.h"
#include <unistd.h>
#include <sys/stat.h>
#include "esl_alphabet.h"
#include "esl_buffer.h"
#include "esl_msa.h"
#include "esl_msafile.h"

extern int esl_verif_buffer_pagesize;
extern int esl_verif_buffer_forcemode;

/* ---------- growable output string ---------- */
static char  *sb; static size_t sbn, sbcap;
static void sb_reset(void) { sbn = 0; if (sb) sb[0] = 0; }
static void sb_need(size_t k) { if (sbn + k + 1 > sbcap) { sbcap = (sbn + k + 1) * 2 + 256; sb = realloc(sb, sbcap); } }
static void sb_puts(const char *s) { size_t k = strlen(s); sb_need(k); memcpy(sb + sbn, s, k + 1); sbn += k; }
static void sb_printf(const char *fmt, ...) { char tmp[256]; va_list ap; va_start(ap, fmt); vsnprintf(tmp, sizeof(tmp), fmt, ap); va_end(ap); sb_puts(tmp); }
static void sb_hexn(const void *p, int64_t n)
{
  static const char hx[] = "0123456789abcdef"; const unsigned char *b = p; int64_t i;
  if (p == NULL) { sb_puts("~"); return; }
  if (n <= 0)    { sb_puts("-"); return; }
  sb_need((size_t)(2 * n));
  for (i = 0; i < n; i++) { sb[sbn++] = hx[b[i] >> 4]; sb[sbn++] = hx[b[i] & 15]; }
  sb[sbn] = 0;
}
static void sb_hexs(const char *s) { sb_hexn(s, s ? (int64_t) strlen(s) : 0); }

/* ---------- names ---------- */
static int fmt_code(const char *s)
{
  if (!s || !strcmp(s, "auto")) return eslMSAFILE_UNKNOWN;
  if (!strcmp(s, "stockholm"))   return eslMSAFILE_STOCKHOLM;
  if (!strcmp(s, "pfam"))        return eslMSAFILE_PFAM;
  if (!strcmp(s, "a2m"))         return eslMSAFILE_A2M;
  if (!strcmp(s, "psiblast"))    return eslMSAFILE_PSIBLAST;
  if (!strcmp(s, "selex"))       return eslMSAFILE_SELEX;
  if (!strcmp(s, "afa"))         return eslMSAFILE_AFA;
  if (!strcmp(s, "clustal"))     return eslMSAFILE_CLUSTAL;
  if (!strcmp(s, "clustallike")) return eslMSAFILE_CLUSTALLIKE;
  if (!strcmp(s, "phylip"))      return eslMSAFILE_PHYLIP;
  if (!strcmp(s, "phylips"))     return eslMSAFILE_PHYLIPS;
  return -1;
}
static const char *fmt_name(int c)
{
  switch (c) {
  case eslMSAFILE_UNKNOWN: return "auto"; case eslMSAFILE_STOCKHOLM: return "stockholm"; case eslMSAFILE_PFAM: return "pfam";
  case eslMSAFILE_A2M: return "a2m"; case eslMSAFILE_PSIBLAST: return "psiblast"; case eslMSAFILE_SELEX: return "selex";
  case eslMSAFILE_AFA: return "afa"; case eslMSAFILE_CLUSTAL: return "clustal"; case eslMSAFILE_CLUSTALLIKE: return "clustallike";
  case eslMSAFILE_PHYLIP: return "phylip"; case eslMSAFILE_PHYLIPS: return "phylips"; default: return "fmt?";
  }
}
static const char *abc_name(const ESL_ALPHABET *a)
{
  if (!a) return "text";
  switch (a->type) { case eslAMINO: return "amino"; case eslDNA: return "dna"; case eslRNA: return "rna"; default: return "abc?"; }
}
static int abc_type(const char *s)
{
  if (!strcmp(s, "amino")) return eslAMINO; if (!strcmp(s, "dna")) return eslDNA; if (!strcmp(s, "rna")) return eslRNA; return eslUNKNOWN;
}

/* ---------- explicit well-formedness check (independent of esl_msa_Validate) ---------- */
static const char *check_msa(const ESL_MSA *m, int *where)
{
  int i, t; int64_t L = m->alen; int nset = 0, ndef = 0;
  *where = -1;
  if (m->nseq < 1) return "nseq";
  if (L < 0) return "alen";
  if (m->nseq > m->sqalloc) return "sqalloc";
  if (!m->sqname || !m->wgt) return "null";
  for (i = 0; i < m->nseq; i++) {
    *where = i;
    if (!m->sqname[i]) return "noname";
    if (m->flags & eslMSA_DIGITAL) {
      int64_t k;
      if (!m->abc || !m->ax || !m->ax[i]) return "norow";
      if (m->ax[i][0] != eslDSQ_SENTINEL) return "sentinel0";
      for (k = 1; k <= L; k++) if (m->ax[i][k] == eslDSQ_SENTINEL) return "rowshort";
      if (m->ax[i][L+1] != eslDSQ_SENTINEL) return "rowlong";
      for (k = 1; k <= L; k++) if (! esl_abc_XIsValid(m->abc, m->ax[i][k])) return "code";
    } else {
      if (!m->aseq || !m->aseq[i]) return "norow";
      if ((int64_t) strlen(m->aseq[i]) != L) return "rowlen";
    }
    if (m->wgt[i] == 1.0) ndef++;
    if (m->wgt[i] != -1.0) nset++;
    if (m->ss && m->ss[i] && (int64_t) strlen(m->ss[i]) != L) return "sslen";
    if (m->sa && m->sa[i] && (int64_t) strlen(m->sa[i]) != L) return "salen";
    if (m->pp && m->pp[i] && (int64_t) strlen(m->pp[i]) != L) return "pplen";
    for (t = 0; t < m->ngr; t++) if (m->gr[t][i] && (int64_t) strlen(m->gr[t][i]) != L) return "grlen";
  }
  *where = -1;
  if (m->flags & eslMSA_HASWGTS) { if (nset != m->nseq) return "wgtunset"; }
  else                           { if (ndef != m->nseq) return "wgtnotdefault"; }
  if (m->ss_cons && (int64_t) strlen(m->ss_cons) != L) return "sscons";
  if (m->sa_cons && (int64_t) strlen(m->sa_cons) != L) return "sacons";
  if (m->pp_cons && (int64_t) strlen(m->pp_cons) != L) return "ppcons";
  if (m->rf      && (int64_t) strlen(m->rf)      != L) return "rf";
  if (m->mm      && (int64_t) strlen(m->mm)      != L) return "mm";
  for (t = 0; t < m->ngc; t++) if (!m->gc[t] || (int64_t) strlen(m->gc[t]) != L) return "gclen";
  return NULL;
}

/* ---------- dump ---------- */
static void dump_optlist(const char *key, char **a, int n)
{
  int i;
  if (!a) return;
  sb_printf(";%s=", key);
  for (i = 0; i < n; i++) { if (i) sb_puts(","); sb_hexs(a[i]); }
}
static void dump_opt(const char *key, const char *s) { if (s) { sb_printf(";%s=", key); sb_hexs(s); } }

static void dump_msa(const ESL_MSA *m)
{
  int i, t;
  sb_printf("{n=%d;alen=%" PRId64 ";dig=%d;hasw=%d;nm=", m->nseq, m->alen, (m->flags & eslMSA_DIGITAL) ? 1 : 0, (m->flags & eslMSA_HASWGTS) ? 1 : 0);
  for (i = 0; i < m->nseq; i++) { if (i) sb_puts(","); sb_hexs(m->sqname ? m->sqname[i] : NULL); }
  sb_puts(";sq=");
  for (i = 0; i < m->nseq; i++) {
    if (i) sb_puts(",");
    if (m->flags & eslMSA_DIGITAL) {
      if (m->ax && m->ax[i]) { int64_t k = 1; while (m->ax[i][k] != eslDSQ_SENTINEL) k++; sb_hexn(m->ax[i] + 1, k - 1); } else sb_puts("~");
    } else sb_hexs(m->aseq ? m->aseq[i] : NULL);
  }
  if (m->flags & eslMSA_HASWGTS) { sb_puts(";w="); for (i = 0; i < m->nseq; i++) { if (i) sb_puts(","); sb_puts(h_dbits(m->wgt[i])); } }
  dump_opt("name", m->name); dump_opt("desc", m->desc); dump_opt("acc", m->acc); dump_opt("au", m->au);
  dump_opt("sscons", m->ss_cons); dump_opt("sacons", m->sa_cons); dump_opt("ppcons", m->pp_cons); dump_opt("rf", m->rf); dump_opt("mm", m->mm);
  dump_optlist("sqacc", m->sqacc, m->nseq); dump_optlist("sqdesc", m->sqdesc, m->nseq);
  dump_optlist("ss", m->ss, m->nseq); dump_optlist("sa", m->sa, m->nseq); dump_optlist("pp", m->pp, m->nseq);
  for (t = 0; t < eslMSA_NCUTS; t++) if (m->cutset[t]) break;
  if (t < eslMSA_NCUTS) { sb_puts(";cut="); for (t = 0; t < eslMSA_NCUTS; t++) { if (t) sb_puts(","); if (m->cutset[t]) sb_puts(h_fbits(m->cutoff[t])); else sb_puts("~"); } }
  if (m->ncomment) { sb_puts(";com="); for (i = 0; i < m->ncomment; i++) { if (i) sb_puts(","); sb_hexs(m->comment[i]); } }
  if (m->ngf) { sb_puts(";gf="); for (i = 0; i < m->ngf; i++) { if (i) sb_puts(","); sb_hexs(m->gf_tag[i]); sb_puts(":"); sb_hexs(m->gf[i]); } }
  if (m->ngs) { sb_puts(";gs="); for (t = 0; t < m->ngs; t++) { if (t) sb_puts("/"); sb_hexs(m->gs_tag[t]); sb_puts(":");
      for (i = 0; i < m->nseq; i++) { if (i) sb_puts(","); sb_hexs(m->gs[t][i]); } } }
  if (m->ngc) { sb_puts(";gc="); for (i = 0; i < m->ngc; i++) { if (i) sb_puts(","); sb_hexs(m->gc_tag[i]); sb_puts(":"); sb_hexs(m->gc[i]); } }
  if (m->ngr) { sb_puts(";gr="); for (t = 0; t < m->ngr; t++) { if (t) sb_puts("/"); sb_hexs(m->gr_tag[t]); sb_puts(":");
      for (i = 0; i < m->nseq; i++) { if (i) sb_puts(","); sb_hexs(m->gr[t][i]); } } }
  sb_puts("}");
}

static void report_msa(ESL_MSA *m)
{
  char vmsg[eslERRBUFSIZE]; const char *c; int where, vst;
  sb_puts(" "); dump_msa(m);
  c = check_msa(m, &where);
  if (c) sb_printf(" chk=%s:%d", c, where); else sb_puts(" chk=ok");
  vmsg[0] = 0;
  vst = esl_msa_Validate(m, vmsg);
  sb_printf(" val=%s", vst == eslOK ? "ok" : "fail");
}

static void note_exception(void)
{
  if (h_exception_seen) { sb_printf(" exc=%s", h_status(h_exception_seen > 0 ? h_exception_seen : eslFAIL)); h_exception_seen = 0; }
}

/* ---------- open from the requested source ---------- */
static unsigned char *g_exact;   /* exact-size copy of the input for src=mem */
static FILE *g_stream;      /* FILE* behind a stream-mode buffer (closed by us after esl_msafile_Close) */
static char  g_path[64];
static char  g_dir[64];      /* src=named with a '/' in the tail: the directory made for it */

static ESL_MSAFILE_FMTDATA *g_ofd;     /* parse nw=: format data handed to esl_msafile_Open* (NULL = none) */

static int open_source(ESL_ALPHABET **byp, const unsigned char *b, int64_t n, int fmt, const char *src, int ps, const char *sfx, ESL_MSAFILE **ret_afp)
{
  int status;
  g_stream = NULL; g_path[0] = 0;
  esl_verif_buffer_pagesize = ps; esl_verif_buffer_forcemode = 0;
  if (!strcmp(src, "mem")) {
    free(g_exact); g_exact = malloc(n > 0 ? (size_t) n : 1);
    if (n > 0) memcpy(g_exact, b, (size_t) n);
    status = esl_msafile_OpenMem(byp, (const char *) g_exact, n, fmt, g_ofd, ret_afp);
  } else {
    FILE *fp;
    snprintf(g_path, sizeof(g_path), "h_msafile_%d.%s", (int) getpid(), sfx ? sfx : "dat");
    fp = fopen(g_path, "wb"); if (!fp) { perror("fopen"); exit(3); }
    if (n > 0 && fwrite(b, 1, (size_t) n, fp) != (size_t) n) { perror("fwrite"); exit(3); }
    fclose(fp);
    if (!strcmp(src, "named")) {
      /* src=named tail=<hex>: a file called h_msafile_<pid><tail> opened with esl_buffer_OpenFile() + esl_msafile_OpenBuffer(): the way to
       * give the open path a name that ends in ".gz" (esl_buffer_Open() would pipe it through gzip); no '/' in <tail> */
      ESL_BUFFER *bf = NULL; int64_t tn = 0; unsigned char *tail = h_unhex(h_arg("tail") ? h_arg("tail") : "-", &tn);
      unlink(g_path);
      snprintf(g_path, sizeof(g_path), "h_msafile_%d%.*s", (int) getpid(), (int) tn, tail ? (const char *) tail : "");
      free(tail);
      g_dir[0] = 0;
      if (strchr(g_path, '/')) { snprintf(g_dir, sizeof(g_dir), "%s", g_path); *strchr(g_dir, '/') = 0; mkdir(g_dir, 0700); }   /* one directory level */
      fp = fopen(g_path, "wb"); if (!fp) { perror("fopen"); exit(3); }
      if (n > 0 && fwrite(b, 1, (size_t) n, fp) != (size_t) n) { perror("fwrite"); exit(3); }
      fclose(fp);
      status = esl_buffer_OpenFile(g_path, &bf);
      if (status != eslOK) { if (bf) esl_buffer_Close(bf); *ret_afp = NULL; esl_verif_buffer_pagesize = 0; return status; }
      status = esl_msafile_OpenBuffer(byp, bf, fmt, g_ofd, ret_afp);
    } else if (!strcmp(src, "stream")) {
      ESL_BUFFER *bf = NULL;
      g_stream = fopen(g_path, "rb");
      status = esl_buffer_OpenStream(g_stream, &bf);
      if (status != eslOK) { *ret_afp = NULL; esl_verif_buffer_pagesize = 0; return status; }
      status = esl_msafile_OpenBuffer(byp, bf, fmt, g_ofd, ret_afp);
      /* on failure esl_msafile_OpenBuffer() either returns afp (holding bf) or has closed bf itself */
    } else {
      if      (!strcmp(src, "file"))    esl_verif_buffer_forcemode = eslBUFFER_FILE;
      else if (!strcmp(src, "allfile")) esl_verif_buffer_forcemode = eslBUFFER_ALLFILE;
      else if (!strcmp(src, "mmap"))    esl_verif_buffer_forcemode = eslBUFFER_MMAP;
      status = esl_msafile_Open(byp, g_path, NULL, fmt, g_ofd, ret_afp);
    }
  }
  esl_verif_buffer_pagesize = 0; esl_verif_buffer_forcemode = 0;
  return status;
}
static void close_source(ESL_MSAFILE *afp)
{
  if (afp) esl_msafile_Close(afp);
  if (g_stream) { fclose(g_stream); g_stream = NULL; }
  if (g_path[0]) { unlink(g_path); g_path[0] = 0; }
  if (g_dir[0])  { rmdir(g_dir);   g_dir[0]  = 0; }
  free(g_exact); g_exact = NULL;
}

/* read all alignments from afp; appends " rd=<status>[...]" segments */
static void read_all(ESL_MSAFILE *afp, int maxreads)
{
  int k, status;
  for (k = 0; k < maxreads; k++) {
    ESL_MSA *msa = NULL;
    status = esl_msafile_Read(afp, &msa);
    if (status == eslOK) {
      sb_puts(" rd=ok"); note_exception();
      if (!msa) { sb_puts(" nullmsa"); break; }
      report_msa(msa);
      esl_msa_Destroy(msa);
    } else {
      sb_printf(" rd=%s", h_status(status));
      if (status == eslEFORMAT) sb_puts(afp->errmsg[0] ? ":msg" : ":nomsg");
      if (status == eslEOF && afp->errmsg[0]) sb_puts(":msg");      /* documented: "returns eslEOF, and afp->errmsg is blank" */
      if (msa) sb_puts(" nonnullmsa");
      note_exception();
      return;
    }
  }
  sb_puts(" rd=more");
}

static void op_parse(void)
{
  const char *fs = h_arg("fmt"), *as = h_arg("abc"), *src = h_arg("src"), *sfx = h_arg("sfx");
  int fmt = fmt_code(fs), ps = (int) h_argi("ps", 0), status;
  int64_t n; unsigned char *b = h_unhex(h_arg("hex") ? h_arg("hex") : "-", &n);
  ESL_ALPHABET *abc = NULL, **byp = NULL; int guess = 0;
  ESL_MSAFILE *afp = NULL;
  if (!as) as = "text"; if (!src) src = "mem";
  if (!strcmp(as, "text")) byp = NULL;
  else if (!strcmp(as, "guess")) { byp = &abc; guess = 1; }
  else { abc = esl_alphabet_Create(abc_type(as)); byp = &abc; }
  sb_reset();
  { ESL_MSAFILE_FMTDATA ofd;       /* nw=<k>: the caller's ESL_MSAFILE_FMTDATA (PHYLIP name width); absent = NULL */
    esl_msafile_fmtdata_Init(&ofd); g_ofd = NULL;
    if (h_arg("nw")) { ofd.namewidth = (int) h_argi("nw", 0); g_ofd = &ofd; }
    status = open_source(byp, b, n, fmt, src, ps, sfx, &afp);
    g_ofd = NULL; }
  sb_printf("open=%s", h_status(status));
  if (status != eslOK) {
    if (afp) sb_puts(afp->errmsg[0] ? ":msg" : ":nomsg"); else sb_puts(":noafp");
    note_exception();
  } else {
    note_exception();
    sb_printf(" fmt=%s abc=%s", fmt_name(afp->format), abc_name(afp->abc));
    if (guess && afp->abc != abc) sb_puts(" abcmismatch");
    read_all(afp, 64);
  }
  close_source(afp);
  if (abc) esl_alphabet_Destroy(abc);
  free(b);
}

/* ---------- C01: the error paths of esl_msafile_Open() (a name that is no file, a directory, the <env> directory list) ----------
 *   openerr what=<missing|dir|envmissing|envfile> fmt=<f|auto> abc=<..> [sfx=<suffix>] [hex=<bytes: envfile>]
 * answer: as `parse`: open=<status>[:msg|:nomsg|:noafp] [fmt= abc= rd=...]   (documented: eslENOTFOUND returns afp in an error state,
 * afp->errmsg = the buffer's message, afp->abc NULL; the caller reports it and calls esl_msafile_Close()) */
#include <sys/stat.h>
static void op_openerr(void)
{
  const char *what = h_arg("what"), *fs = h_arg("fmt"), *as = h_arg("abc"), *sfx = h_arg("sfx");
  int fmt = fmt_code(fs ? fs : "auto"), status, guess = 0;
  int64_t n = 0; unsigned char *b = h_unhex(h_arg("hex") ? h_arg("hex") : "-", &n);
  ESL_ALPHABET *abc = NULL, **byp = NULL; ESL_MSAFILE *afp = NULL;
  char name[128], dir[128], full[300]; const char *env = NULL;
  if (!what) what = "missing"; if (!as) as = "text";
  if (!strcmp(as, "text")) byp = NULL;
  else if (!strcmp(as, "guess")) { byp = &abc; guess = 1; }
  else { abc = esl_alphabet_Create(abc_type(as)); byp = &abc; }
  snprintf(name, sizeof(name), "h_msafile_%d.%s", (int) getpid(), sfx ? sfx : "dat");
  snprintf(dir,  sizeof(dir),  "h_msafile_%d.d",  (int) getpid());
  full[0] = 0; unlink(name);
  if (!strcmp(what, "dir")) { mkdir(dir, 0700); snprintf(name, sizeof(name), "%s", dir); }
  else if (!strcmp(what, "gz")) {      /* a regular file h_msafile_<pid>.<sfx>.gz holding hex= (gzip data or not): esl_buffer_Open() pipes it through gzip -dc */
    FILE *fp;
    snprintf(name, sizeof(name), "h_msafile_%d.%s.gz", (int) getpid(), sfx ? sfx : "dat");
    fp = fopen(name, "wb"); if (!fp) { perror("fopen"); exit(3); }
    if (n > 0 && fwrite(b, 1, (size_t) n, fp) != (size_t) n) { perror("fwrite"); exit(3); }
    fclose(fp);
    snprintf(full, sizeof(full), "%s", name);      /* unlinked below */
  }
  else if (!strcmp(what, "envmissing")) { setenv("H_MSAFILE_ENV", "/nonexistent-h-msafile-a:/nonexistent-h-msafile-b", 1); env = "H_MSAFILE_ENV"; }
  else if (!strcmp(what, "envfile")) {
    FILE *fp; char list[400];
    mkdir(dir, 0700); snprintf(full, sizeof(full), "%s/%s", dir, name);
    fp = fopen(full, "wb"); if (!fp) { perror("fopen"); exit(3); }
    if (n > 0 && fwrite(b, 1, (size_t) n, fp) != (size_t) n) { perror("fwrite"); exit(3); }
    fclose(fp);
    snprintf(list, sizeof(list), "/nonexistent-h-msafile-a:%s", dir);
    setenv("H_MSAFILE_ENV", list, 1); env = "H_MSAFILE_ENV";
  }
  status = esl_msafile_Open(byp, name, env, fmt, NULL, &afp);
  sb_printf("open=%s", h_status(status));
  if (status != eslOK) {
    if (afp) { sb_puts(afp->errmsg[0] ? ":msg" : ":nomsg"); if (afp->abc) sb_puts(" abcset"); } else sb_puts(":noafp");
    note_exception();
  } else {
    note_exception();
    sb_printf(" fmt=%s abc=%s", fmt_name(afp->format), abc_name(afp->abc));
    if (guess && afp->abc != abc) sb_puts(" abcmismatch");
    read_all(afp, 64);
  }
  if (afp) esl_msafile_Close(afp);
  if (full[0]) unlink(full);
  rmdir(dir); unsetenv("H_MSAFILE_ENV");
  if (abc) esl_alphabet_Destroy(abc);
  free(b);
}

/* ---------- C03: build an MSA from op fields ---------- */
/* split a comma (or other) separated list in place; returns count */
static int split(char *s, char sep, char **out, int max)
{
  int n = 0; char *p = s;
  if (!s || !*s) return 0;
  while (n < max) { out[n++] = p; p = strchr(p, sep); if (!p) break; *p++ = 0; }
  return n;
}
static char *unhex_str(const char *h)     /* '~' -> NULL */
{
  int64_t n; if (!h || !strcmp(h, "~")) return NULL; return (char *) h_unhex(h, &n);
}
static char *dupz(const char *s) { return s ? strdup(s) : NULL; }
#define MAXSEQ 512
#define MAXTAG 64

static void set_optarray(ESL_MSA *m, char ***arr, const char *field)
{
  char *items[MAXSEQ], *copy; int k, i;
  if (!field) return;
  copy = strdup(field); k = split(copy, ',', items, MAXSEQ);
  *arr = malloc(sizeof(char *) * m->sqalloc);
  for (i = 0; i < m->sqalloc; i++) (*arr)[i] = NULL;
  for (i = 0; i < k && i < m->nseq; i++) (*arr)[i] = unhex_str(items[i]);
  free(copy);
}

static ESL_MSA *build_msa(void)
{
  int nseq = (int) h_argi("n", 0), i, k; int64_t alen = h_argi("alen", 0);
  char *items[MAXSEQ], *copy, *s; ESL_MSA *m;
  const char *f;
  m = esl_msa_Create(nseq, alen);
  copy = strdup(h_arg("nm")); k = split(copy, ',', items, MAXSEQ);
  for (i = 0; i < nseq && i < k; i++) { s = unhex_str(items[i]); esl_msa_SetSeqName(m, i, s, -1); free(s); }
  free(copy);
  copy = strdup(h_arg("sq")); k = split(copy, ',', items, MAXSEQ);
  for (i = 0; i < nseq && i < k; i++) { s = unhex_str(items[i]); memcpy(m->aseq[i], s, (size_t) alen); m->aseq[i][alen] = 0; free(s); }
  free(copy);
  if ((f = h_arg("w")) != NULL) {
    copy = strdup(f); k = split(copy, ',', items, MAXSEQ);
    for (i = 0; i < nseq && i < k; i++) { uint64_t u = strtoull(items[i], NULL, 16); memcpy(&m->wgt[i], &u, 8); }
    m->flags |= eslMSA_HASWGTS; free(copy);
  } else esl_msa_SetDefaultWeights(m);
  m->name = unhex_str(h_arg("name")); m->desc = unhex_str(h_arg("desc")); m->acc = unhex_str(h_arg("acc")); m->au = unhex_str(h_arg("au"));
  m->ss_cons = unhex_str(h_arg("sscons")); m->sa_cons = unhex_str(h_arg("sacons")); m->pp_cons = unhex_str(h_arg("ppcons"));
  m->rf = unhex_str(h_arg("rf")); m->mm = unhex_str(h_arg("mm"));
  set_optarray(m, &m->sqacc, h_arg("sqacc")); set_optarray(m, &m->sqdesc, h_arg("sqdesc"));
  set_optarray(m, &m->ss, h_arg("ss")); set_optarray(m, &m->sa, h_arg("sa")); set_optarray(m, &m->pp, h_arg("pp"));
  if ((f = h_arg("cut")) != NULL) {
    copy = strdup(f); k = split(copy, ',', items, eslMSA_NCUTS);
    for (i = 0; i < k; i++) if (strcmp(items[i], "~")) { uint32_t u = (uint32_t) strtoul(items[i], NULL, 16); memcpy(&m->cutoff[i], &u, 4); m->cutset[i] = TRUE; }
    free(copy);
  }
  if ((f = h_arg("com")) != NULL) {
    copy = strdup(f); k = split(copy, ',', items, MAXSEQ);
    for (i = 0; i < k; i++) { s = unhex_str(items[i]); esl_msa_AddComment(m, s, -1); free(s); }
    free(copy);
  }
  if ((f = h_arg("gf")) != NULL) {
    copy = strdup(f); k = split(copy, ',', items, MAXSEQ);
    for (i = 0; i < k; i++) { char *c = strchr(items[i], ':'), *t, *v; *c++ = 0; t = unhex_str(items[i]); v = unhex_str(c); esl_msa_AddGF(m, t, -1, v, -1); free(t); free(v); }
    free(copy);
  }
  if ((f = h_arg("gc")) != NULL) {
    copy = strdup(f); k = split(copy, ',', items, MAXSEQ);
    for (i = 0; i < k; i++) { char *c = strchr(items[i], ':'), *t, *v; *c++ = 0; t = unhex_str(items[i]); v = unhex_str(c); esl_msa_AppendGC(m, t, v); free(t); free(v); }
    free(copy);
  }
  if ((f = h_arg("gs")) != NULL) {
    char *tags[MAXTAG]; int nt, t;
    copy = strdup(f); nt = split(copy, '/', tags, MAXTAG);
    for (t = 0; t < nt; t++) { char *c = strchr(tags[t], ':'), *tg; *c++ = 0; tg = unhex_str(tags[t]); k = split(c, ',', items, MAXSEQ);
      for (i = 0; i < k && i < nseq; i++) { s = unhex_str(items[i]); if (s) { esl_msa_AddGS(m, tg, -1, i, s, -1); free(s); } }
      free(tg); }
    free(copy);
  }
  if ((f = h_arg("gr")) != NULL) {
    char *tags[MAXTAG]; int nt, t;
    copy = strdup(f); nt = split(copy, '/', tags, MAXTAG);
    for (t = 0; t < nt; t++) { char *c = strchr(tags[t], ':'), *tg; *c++ = 0; tg = unhex_str(tags[t]); k = split(c, ',', items, MAXSEQ);
      for (i = 0; i < k && i < nseq; i++) { s = unhex_str(items[i]); if (s) { esl_msa_AppendGR(m, tg, i, s); free(s); } }
      free(tg); }
    free(copy);
  }
  (void) dupz;
  return m;
}

/* the format's own writer, called directly (what esl_msafile_Write() dispatches to); <fd> only reaches the PHYLIP writers */
static int write_direct(FILE *fp, ESL_MSA *m, int fmt, ESL_MSAFILE_FMTDATA *fd)
{
  switch (fmt) {
  case eslMSAFILE_STOCKHOLM:   return esl_msafile_stockholm_Write(fp, m, eslMSAFILE_STOCKHOLM);
  case eslMSAFILE_PFAM:        return esl_msafile_stockholm_Write(fp, m, eslMSAFILE_PFAM);
  case eslMSAFILE_A2M:         return esl_msafile_a2m_Write      (fp, m);
  case eslMSAFILE_PSIBLAST:    return esl_msafile_psiblast_Write (fp, m);
  case eslMSAFILE_SELEX:       return esl_msafile_selex_Write    (fp, m);
  case eslMSAFILE_AFA:         return esl_msafile_afa_Write      (fp, m);
  case eslMSAFILE_CLUSTAL:     return esl_msafile_clustal_Write  (fp, m, eslMSAFILE_CLUSTAL);
  case eslMSAFILE_CLUSTALLIKE: return esl_msafile_clustal_Write  (fp, m, eslMSAFILE_CLUSTALLIKE);
  case eslMSAFILE_PHYLIP:      return esl_msafile_phylip_Write   (fp, m, eslMSAFILE_PHYLIP,  fd);
  case eslMSAFILE_PHYLIPS:     return esl_msafile_phylip_Write   (fp, m, eslMSAFILE_PHYLIPS, fd);
  default:                     return eslEINVAL;
  }
}
static int g_direct;                    /* rt via=direct */
static ESL_MSAFILE_FMTDATA *g_wfd;      /* rt nw= rpl= : format options of the PHYLIP writers (NULL = none) */

static unsigned char *write_msa(ESL_MSA *m, int fmt, int64_t *ret_n, int *ret_status)
{
  FILE *fp = tmpfile(); unsigned char *b; long n;
  *ret_status = g_direct ? write_direct(fp, m, fmt, g_wfd) : esl_msafile_Write(fp, m, fmt);
  fflush(fp); n = ftell(fp); rewind(fp);
  b = malloc((size_t) n + 1);
  if (n > 0 && fread(b, 1, (size_t) n, fp) != (size_t) n) { perror("fread"); exit(3); }
  b[n] = 0; fclose(fp);
  *ret_n = n;
  return b;
}

static char *dump_to_str(const ESL_MSA *m)
{
  size_t save = sbn; char *r;
  dump_msa(m); r = strdup(sb + save); sbn = save; sb[sbn] = 0; return r;
}

static void op_rt(void)
{
  const char *as = h_arg("abc"); int fmt = fmt_code(h_arg("fmt")), status, wst;
  ESL_ALPHABET *abc = NULL, **byp = NULL; char errbuf[eslERRBUFSIZE];
  ESL_MSA *m = build_msa(), *m2 = NULL, *m3 = NULL; ESL_MSAFILE *afp = NULL;
  unsigned char *b1 = NULL, *b2 = NULL; int64_t n1 = 0, n2 = 0; char *d2 = NULL, *d3 = NULL;
  const char *via = h_arg("via");
  ESL_MSAFILE_FMTDATA wfd, rfd, afd, *rfdp = NULL;
  sb_reset();
  if (!as) as = "text";
  /* via=direct: the per-format writer instead of the esl_msafile_Write() dispatch; nw=/rpl= (PHYLIP, direct only): the writer's
   * ESL_MSAFILE_FMTDATA options; the declared-format reader is then opened with the same name width */
  g_direct = (via && !strcmp(via, "direct")); g_wfd = NULL;
  esl_msafile_fmtdata_Init(&wfd); esl_msafile_fmtdata_Init(&rfd); esl_msafile_fmtdata_Init(&afd);
  if (g_direct && (h_arg("nw") || h_arg("rpl")) && (fmt == eslMSAFILE_PHYLIP || fmt == eslMSAFILE_PHYLIPS)) {
    wfd.namewidth = (int) h_argi("nw", 0); wfd.rpl = (int) h_argi("rpl", 0); g_wfd = &wfd;
    rfd.namewidth = wfd.namewidth; rfdp = &rfd;
  }
  if (strcmp(as, "text")) {
    abc = esl_alphabet_Create(abc_type(as)); byp = &abc;
    errbuf[0] = 0;
    status = esl_msa_Digitize(abc, m, errbuf);
    if (status != eslOK) { h_exception_seen = 0; sb_printf("build=%s", h_status(status)); goto DONE; }
  }
  sb_puts("build=ok m="); dump_msa(m);
  b1 = write_msa(m, fmt, &n1, &wst);
  sb_printf(" wr=%s", h_status(wst)); note_exception();
  sb_puts(" bytes="); sb_hexn(b1, n1);
  if (wst != eslOK) goto DONE;
  /* declared format */
  g_stream = NULL; g_path[0] = 0;
  status = esl_msafile_OpenMem(byp, (char *) b1, n1, fmt, rfdp, &afp);
  sb_printf(" open=%s", h_status(status)); note_exception();
  if (status == eslOK) {
    status = esl_msafile_Read(afp, &m2);
    sb_printf(" rd=%s", h_status(status)); if (status == eslEFORMAT) sb_puts(afp->errmsg[0] ? ":msg" : ":nomsg"); note_exception();
    if (status == eslOK && m2) {
      ESL_MSA *mx = NULL; int st2;
      report_msa(m2);
      sb_printf(" cmp=%s", esl_msa_Compare(m, m2) == eslOK ? "ok" : "fail"); h_exception_seen = 0;
      d2 = dump_to_str(m2);
      st2 = esl_msafile_Read(afp, &mx);
      sb_printf(" rd2=%s", h_status(st2)); note_exception();
      if (mx) esl_msa_Destroy(mx);
      b2 = write_msa(m2, fmt, &n2, &wst);
      sb_printf(" rw=%s", (wst == eslOK && n2 == n1 && memcmp(b1, b2, (size_t) n1) == 0) ? "same" : "diff"); note_exception();
    }
  }
  if (afp) { esl_msafile_Close(afp); afp = NULL; }
  /* autodetected format */
  status = esl_msafile_OpenMem(byp, (char *) b1, n1, eslMSAFILE_UNKNOWN, rfdp ? &afd : NULL, &afp);   /* a nonstandard PHYLIP name width needs somewhere to be stored */
  sb_printf(" aopen=%s", h_status(status)); note_exception();
  if (status == eslENOFORMAT) {   /* esl_msafile_OpenMem() drops the afp (and its message) on enoformat: ask the guesser itself why */
    ESL_BUFFER *gbf = NULL; int gfmt = 0; char gerr[eslERRBUFSIZE]; ESL_MSAFILE_FMTDATA gfd;
    gerr[0] = 0;
    if (esl_buffer_OpenMem((char *) b1, n1, &gbf) == eslOK) {
      esl_msafile_GuessFileFormat(gbf, &gfmt, &gfd, gerr);
      sb_printf(" awhy=%s", strstr(gerr, "consistent w/ both") ? "ambiguous" : (gerr[0] ? "other" : "nomsg"));
      esl_buffer_Close(gbf);
    }
    h_exception_seen = 0;
  }
  if (status == eslOK) {
    sb_printf(" afmt=%s", fmt_name(afp->format));
    if (rfdp) sb_printf(" anw=%d", afp->fmtd.namewidth);
    status = esl_msafile_Read(afp, &m3);
    sb_printf(" ard=%s", h_status(status)); note_exception();
    if (status == eslOK && m3) {
      int where; const char *c = check_msa(m3, &where);
      d3 = dump_to_str(m3);
      sb_printf(" achk=%s asame=%s", c ? c : "ok", (d2 && !strcmp(d2, d3)) ? "yes" : "no");
    }
  }
  if (afp) { esl_msafile_Close(afp); afp = NULL; }
  /* guessed alphabet on library-written output (informational: must not crash; type reported) */
  if (byp) {
    ESL_ALPHABET *g = NULL;
    status = esl_msafile_OpenMem(&g, (char *) b1, n1, fmt, rfdp, &afp);
    sb_printf(" gopen=%s", h_status(status)); note_exception();
    if (status == eslOK) sb_printf(" gabc=%s", abc_name(afp->abc));
    if (afp) { esl_msafile_Close(afp); afp = NULL; }
    if (g) esl_alphabet_Destroy(g);
  }
 DONE:
  g_direct = 0; g_wfd = NULL;
  if (m) esl_msa_Destroy(m); if (m2) esl_msa_Destroy(m2); if (m3) esl_msa_Destroy(m3);
  if (abc) esl_alphabet_Destroy(abc);
  free(b1); free(b2); free(d2); free(d3);
}

/* reformat fmt=<f> abc=<text|amino|dna|rna> hex=<bytes>: what `esl-reformat <f>` does to a file of the same format - read the first alignment,
 * write it in the same format, read the written bytes back, compare the two alignments field by field (dump strings) */
static void op_reformat(void)
{
  const char *as = h_arg("abc"); int fmt = fmt_code(h_arg("fmt")), status, wst;
  int64_t n; unsigned char *b = h_unhex(h_arg("hex") ? h_arg("hex") : "-", &n);
  ESL_ALPHABET *abc = NULL, **byp = NULL; ESL_MSAFILE *afp = NULL; ESL_MSA *m = NULL, *m2 = NULL;
  unsigned char *b1 = NULL; int64_t n1 = 0; char *d1 = NULL, *d2 = NULL;
  sb_reset();
  if (!as) as = "text";
  if (strcmp(as, "text")) { abc = esl_alphabet_Create(abc_type(as)); byp = &abc; }
  g_direct = 0; g_wfd = NULL;
  status = open_source(byp, b, n, fmt, "mem", 0, NULL, &afp);
  sb_printf("open=%s", h_status(status)); note_exception();
  if (status != eslOK) goto DONE;
  status = esl_msafile_Read(afp, &m);
  sb_printf(" rd=%s", h_status(status)); if (status == eslEFORMAT) sb_puts(afp->errmsg[0] ? ":msg" : ":nomsg"); note_exception();
  if (status != eslOK || !m) goto DONE;
  report_msa(m);
  d1 = dump_to_str(m);
  b1 = write_msa(m, fmt, &n1, &wst);
  sb_printf(" wr=%s", h_status(wst)); note_exception();
  if (wst != eslOK) goto DONE;
  close_source(afp); afp = NULL;
  status = esl_msafile_OpenMem(byp, (char *) b1, n1, fmt, NULL, &afp);
  sb_printf(" open2=%s", h_status(status)); note_exception();
  if (status != eslOK) goto DONE;
  status = esl_msafile_Read(afp, &m2);
  sb_printf(" rd2=%s", h_status(status)); if (status == eslEFORMAT) sb_puts(afp->errmsg[0] ? ":msg" : ":nomsg"); note_exception();
  if (status == eslOK && m2) { d2 = dump_to_str(m2); sb_printf(" same=%s", strcmp(d1, d2) == 0 ? "yes" : "no"); }
 DONE:
  if (afp && g_exact) close_source(afp); else if (afp) esl_msafile_Close(afp);
  free(g_exact); g_exact = NULL;
  if (m) esl_msa_Destroy(m); if (m2) esl_msa_Destroy(m2);
  if (abc) esl_alphabet_Destroy(abc);
  free(b); free(b1); free(d1); free(d2);
}

/* printf("%.2f") of a double / printf("%.1f") of a float given by their bit patterns (differential test of fmtF2/fmtF1) */
static void op_fmt(void)
{
  uint64_t u = strtoull(h_arg("d") ? h_arg("d") : "0", NULL, 16); uint32_t v = (uint32_t) strtoul(h_arg("f") ? h_arg("f") : "0", NULL, 16);
  double d; float f; char t1[512], t2[128];
  memcpy(&d, &u, 8); memcpy(&f, &v, 4);
  snprintf(t1, sizeof(t1), "%.2f", d); snprintf(t2, sizeof(t2), "%.1f", f);
  sb_reset(); sb_puts("f2="); sb_hexs(t1); sb_puts(" f1="); sb_hexs(t2);
}

/* per-op leak check, so that a leak is attributed to the input that caused it (LeakSanitizer's recoverable check
 * reports every leaked block once). The stack is scrubbed first so that stale pointers in dead frames do not hide a leak. */
#if defined(__SANITIZE_ADDRESS__)
#include <sanitizer/lsan_interface.h>
static long g_leaked_allocs;       /* leaked allocations already attributed to earlier ops */
/* returns the number of NEW leaked allocations since the previous call (this libasan re-reports old leaks on every
 * recoverable check, so the report is captured from fd 2 and its SUMMARY line is compared with the running total) */
static long leak_check(void)
{
  int saved, r; FILE *t; char line[512]; long bytes = 0, allocs = 0, fresh;
  fflush(stderr);
  t = tmpfile(); if (!t) return 0;
  saved = dup(2); dup2(fileno(t), 2);
  r = __lsan_do_recoverable_leak_check();
  dup2(saved, 2); close(saved);
  if (r) {
    rewind(t);
    while (fgets(line, sizeof(line), t))
      if (sscanf(line, "SUMMARY: AddressSanitizer: %ld byte(s) leaked in %ld allocation", &bytes, &allocs) == 2) break;
  }
  fclose(t);
  fresh = allocs - g_leaked_allocs;
  if (fresh > 0) g_leaked_allocs = allocs;
  return fresh > 0 ? fresh : 0;
}
#else
static long g_leaked_allocs;
static long leak_check(void) { return 0; }
#endif
static void __attribute__((noinline)) scrub_stack(void) { volatile char pad[16384]; size_t i; for (i = 0; i < sizeof(pad); i++) pad[i] = 0; }

static void h_case_begin(void) { }
static void h_case_end(void) { }
static void h_op(void)
{
  const char *op = h_words[0];
  sb_reset();
  if      (!strcmp(op, "parse")) op_parse();
  else if (!strcmp(op, "rt"))    op_rt();
  else if (!strcmp(op, "fmt"))   op_fmt();
  else if (!strcmp(op, "reformat")) op_reformat();
  else if (!strcmp(op, "openerr")) op_openerr();
  else { h_out("bad-op"); return; }
  scrub_stack();
  if (leak_check() > 0) sb_puts(" leak");
  h_out("%s", sb);
}
int main(void)
{
  int r = h_main();
  free(sb); sb = NULL;
  scrub_stack();
  fflush(stdout);
  /* every leak found so far was reported on the op that caused it; skip LeakSanitizer's at-exit report unless something new shows up */
  if (g_leaked_allocs > 0 && leak_check() == 0) _exit(r);
  return r;
}
