/* C07 correspondence harness = h_sqio.c (all sequence-file ops, shared with C04/C02) + the alignment-database ops of esl-afetch:
 *   adb hex=<multi-alignment file> [fmt=stockholm|pfam]   write t.sto, run the tool's create_ssi_index() on it (in a child process: the
 *                                  tool ends the process on any failure), open the index and list it in index order:
 *                                  ok nali=<n> nprim= nalias= keys=<hexkey>:<roff>:<doff>:<L>,... full=1     | die
 *   aget key=<hex>                 the tool's onefetch() with the index open: esl_msafile_PositionByKey + regurgitate_one_stockholm_entry
 *                                  ok hex=<bytes written> | enotfound | fatal (the tool ended the process)
 *   toolcmd mode=index|one|sub|list|sublist fmt=<name> B=<n> [key=<hex>] [s= e=] [r=1] [n=<hex newname>] [text=<hex key/GDF file>]
 *                                  the REAL main() of esl-sfetch in a child process on the current file (--informat <fmt>; --index | <key> |
 *                                  -c s..e [-r] [-n new] <key> | [-r] [-n new] <key> | -f <keyfile> | -C -f <gdffile>), its standard output captured:
 *                                  index: ok nprim= nalias= fast= bpl= rpl=  (read back from the .ssi file the tool wrote)   others: ok hex=<stdout>   | die
 *   ascan key=<hex>                the sequential search of onefetch() without an index (esl_msafile_Read until name or accession matches)
 *                                  ok off=<msa->offset> name= acc= | notfound | readfail
 */
#include "hcommon.h"
#define h_op          sqio_h_op
#define h_case_begin  sqio_case_begin
#define h_case_end    sqio_case_end
#include "h_sqio.c"
#undef h_op
#undef h_case_begin
#undef h_case_end

static int adb_fmt = eslMSAFILE_STOCKHOLM;
static int adb_have;

static void h_case_begin(void) { sqio_case_begin(); adb_have = 0; }
static void h_case_end(void)   { sqio_case_end(); remove("t.sto"); remove("t.sto.ssi"); remove("t.aout"); adb_have = 0; }

static void op_adb(void)
{
  int64_t n; unsigned char *b = h_unhex(h_arg("hex") ? h_arg("hex") : "-", &n); FILE *fp; pid_t pid; int wst = 0;
  ESL_SSI *ssi = NULL; char *out; size_t cap, len = 0; uint64_t i; int nali = 0, status;
  ESL_MSAFILE *afp = NULL; ESL_MSA *msa = NULL;

  adb_fmt = (h_arg("fmt") && !strcmp(h_arg("fmt"), "pfam")) ? eslMSAFILE_PFAM : eslMSAFILE_STOCKHOLM;
  fp = fopen("t.sto", "wb"); fwrite(b, 1, n, fp); fclose(fp); free(b);
  remove("t.sto.ssi"); adb_have = 0;
  fflush(stdout);
  pid = fork();
  if (pid < 0) { h_out("fork-failed"); return; }
  if (pid == 0) {
    int dn = open("/dev/null", O_WRONLY); dup2(dn, 1); dup2(dn, 2);
    if (esl_msafile_Open(NULL, "t.sto", NULL, adb_fmt, NULL, &afp) != eslOK) _exit(3);
    afetch_create_ssi_index(NULL, afp);           /* esl_fatal() = exit(1) on a parse failure, a nameless alignment, duplicate keys */
    _exit(0);
  }
  waitpid(pid, &wst, 0);
  if (!WIFEXITED(wst) || WEXITSTATUS(wst) == 99 || WEXITSTATUS(wst) == 98) { remove("t.sto.ssi"); h_out("fault child status=%d", wst); return; }   /* signal, ASan, UBSan */
  if (WEXITSTATUS(wst) != 0) { remove("t.sto.ssi"); h_out("die"); return; }     /* esl_fatal(): exit(1), or 97 when LeakSanitizer then finds what the tool did not free */
  if (esl_ssi_Open("t.sto.ssi", &ssi) != eslOK) { h_out("index-open-failed"); return; }
  if (esl_msafile_Open(NULL, "t.sto", NULL, adb_fmt, NULL, &afp) == eslOK) {
    while ((status = esl_msafile_Read(afp, &msa)) == eslOK) { nali++; esl_msa_Destroy(msa); msa = NULL; }
    esl_msafile_Close(afp);
  }
  cap = 256; out = malloc(cap);
  len += sprintf(out + len, "ok nali=%d nprim=%" PRIu64 " nalias=%" PRIu64 " keys=", nali, (uint64_t) ssi->nprimary, (uint64_t) ssi->nsecondary);
  for (i = 0; i < ssi->nprimary; i++) {
    uint16_t fh; off_t roff, doff; int64_t L; char *pk = NULL; const char *hk;
    status = esl_ssi_FindNumber(ssi, (int64_t) i, &fh, &roff, &doff, &L, &pk);
    if (status != eslOK) { cap += 32; out = realloc(out, cap); len += sprintf(out + len, "%s%s", i ? "," : "", h_status(status)); continue; }
    hk = strlen(pk) ? h_hex(pk, strlen(pk)) : "-";
    cap += strlen(hk) + 80; out = realloc(out, cap);
    len += sprintf(out + len, "%s%s:%" PRId64 ":%" PRId64 ":%" PRId64, i ? "," : "", hk, (int64_t) roff, (int64_t) doff, L);
    free(pk);
  }
  h_out("%s full=1", out);
  free(out);
  esl_ssi_Close(ssi);
  adb_have = 1;
}

static void op_aget(void)
{
  int64_t kn; char *k; pid_t pid; int wst = 0; FILE *fp; long tn; char *text;
  if (!adb_have || !h_arg("key")) { h_out("bad-op"); return; }
  k = (char *) h_unhex(h_arg("key"), &kn);
  remove("t.aout");
  fflush(stdout);
  pid = fork();
  if (pid < 0) { h_out("fork-failed"); free(k); return; }
  if (pid == 0) {
    ESL_MSAFILE *afp = NULL; FILE *ofp; int status; int dn = open("/dev/null", O_WRONLY); dup2(dn, 1); dup2(dn, 2);
    if (esl_msafile_Open(NULL, "t.sto", NULL, adb_fmt, NULL, &afp) != eslOK) _exit(3);
    if (esl_ssi_Open("t.sto.ssi", &(afp->ssi)) != eslOK) _exit(4);
    status = esl_msafile_PositionByKey(afp, k);
    if (status == eslENOTFOUND) _exit(10);
    if (status != eslOK) _exit(11);
    ofp = fopen("t.aout", "wb");
    afetch_onefetch(NULL, ofp, adb_fmt, k, afp);       /* positions again and regurgitates; esl_fatal() = exit(1) at EOF without a terminator */
    fclose(ofp);
    _exit(0);
  }
  waitpid(pid, &wst, 0);
  free(k);
  if (WIFEXITED(wst) && WEXITSTATUS(wst) == 10) { h_out("enotfound"); return; }
  if (WIFEXITED(wst) && (WEXITSTATUS(wst) == 1 || WEXITSTATUS(wst) == 97)) { h_out("fatal"); return; }   /* esl_fatal() (+ LeakSanitizer at exit) */
  if (!WIFEXITED(wst) || WEXITSTATUS(wst) != 0) { h_out("fault child status=%d", wst); return; }
  fp = fopen("t.aout", "rb");
  if (!fp) { h_out("no-output"); return; }
  fseek(fp, 0, SEEK_END); tn = ftell(fp); rewind(fp); text = malloc(tn + 1);
  if (fread(text, 1, tn, fp) != (size_t) tn) tn = 0;
  fclose(fp);
  h_out("ok hex=%s", tn ? h_hex(text, tn) : "-");
  free(text);
}

static void op_ascan(void)
{
  int64_t kn; char *k; ESL_MSAFILE *afp = NULL; ESL_MSA *msa = NULL; int status;
  if (!adb_have || !h_arg("key")) { h_out("bad-op"); return; }
  k = (char *) h_unhex(h_arg("key"), &kn);
  if (esl_msafile_Open(NULL, "t.sto", NULL, adb_fmt, NULL, &afp) != eslOK) { h_out("open-failed"); free(k); return; }
  while ((status = esl_msafile_Read(afp, &msa)) != eslEOF) {      /* the loop of onefetch() without an index */
    if (status != eslOK) break;
    if (!msa->name) { status = eslEINVAL; break; }
    if (strcmp(k, msa->name) == 0 || (msa->acc != NULL && strcmp(k, msa->acc) == 0)) break;
    esl_msa_Destroy(msa); msa = NULL;
  }
  if (status == eslEOF) h_out("notfound");
  else if (status != eslOK) h_out("readfail");
  else {
    char *hn = strdup(strlen(msa->name) ? h_hex(msa->name, strlen(msa->name)) : "-");
    h_out("ok off=%" PRId64 " name=%s acc=%s", (int64_t) msa->offset, hn, msa->acc ? (strlen(msa->acc) ? h_hex(msa->acc, strlen(msa->acc)) : "-") : "NULL");
    free(hn);
  }
  if (msa) esl_msa_Destroy(msa);
  esl_msafile_Close(afp);
  free(k);
}

static void op_toolcmd(void)
{
  const char *mode = h_arg("mode") ? h_arg("mode") : "one"; char *argv[16]; int argc = 0; char coords[64]; pid_t pid; int wst = 0;
  int64_t kn = 0, nn = 0, tn = 0; char *k = NULL, *newname = NULL; unsigned char *txt = NULL; FILE *fp; long on; char *text; char ssiname[80];
  static char fmtbuf[32];
  snprintf(fmtbuf, sizeof(fmtbuf), "%s", h_arg("fmt") ? h_arg("fmt") : "fasta");
  esl_verif_readbufsize = (int) h_argi("B", 4096);
  if (h_arg("key"))  k = (char *) h_unhex(h_arg("key"), &kn);
  if (h_arg("n"))    newname = (char *) h_unhex(h_arg("n"), &nn);
  if (h_arg("text")) { txt = h_unhex(h_arg("text"), &tn); fp = fopen("t.keys", "wb"); fwrite(txt, 1, tn, fp); fclose(fp); free(txt); }
  argv[argc++] = "esl-sfetch"; argv[argc++] = "--informat"; argv[argc++] = fmtbuf;
  if (!strcmp(mode, "index")) { argv[argc++] = "--index"; argv[argc++] = fname; }
  else if (!strcmp(mode, "list"))    { argv[argc++] = "-f"; argv[argc++] = fname; argv[argc++] = "t.keys"; }
  else if (!strcmp(mode, "sublist")) { argv[argc++] = "-C"; argv[argc++] = "-f"; argv[argc++] = fname; argv[argc++] = "t.keys"; }
  else {
    if (h_argi("r", 0)) argv[argc++] = "-r";
    if (newname) { argv[argc++] = "-n"; argv[argc++] = newname; }
    if (!strcmp(mode, "sub")) {
      if (h_argi("e", 0) == 0 && h_argi("dots", 1)) snprintf(coords, sizeof(coords), "%" PRId64 "..", h_argi("s", 1));      /* -c 23.. = to the end */
      else snprintf(coords, sizeof(coords), "%" PRId64 "%s%" PRId64, h_argi("s", 1), h_argi("sep", 0) ? "/" : "..", h_argi("e", 0));
      argv[argc++] = "-c"; argv[argc++] = coords;
    }
    argv[argc++] = fname; argv[argc++] = k ? k : "";
  }
  argv[argc] = NULL;
  remove("t.tout");
  fflush(stdout);
  pid = fork();
  if (pid < 0) { h_out("fork-failed"); return; }
  if (pid == 0) {
    int dn = open("/dev/null", O_WRONLY), rc; dup2(dn, 2);
    if (freopen("t.tout", "wb", stdout) == NULL) _exit(3);
    rc = sfetch_main(argc, argv);               /* esl_fatal() / cmdline_failure(): exit(1) */
    fflush(stdout);
    _exit(rc);
  }
  waitpid(pid, &wst, 0);
  free(k); free(newname); remove("t.keys");
  if (!WIFEXITED(wst) || WEXITSTATUS(wst) == 99 || WEXITSTATUS(wst) == 98) { h_out("fault child status=%d", wst); return; }   /* signal, ASan, UBSan */
  if (WEXITSTATUS(wst) != 0) { h_out("die"); return; }
  if (!strcmp(mode, "index")) {
    ESL_SSI *ssi = NULL; int fast;
    snprintf(ssiname, sizeof(ssiname), "%s.ssi", fname);
    if (esl_ssi_Open(ssiname, &ssi) != eslOK) { h_out("index-open-failed"); return; }
    fast = (ssi->nfiles > 0 && (ssi->fileflags[0] & eslSSI_FASTSUBSEQ)) ? 1 : 0;
    h_out("ok nprim=%" PRIu64 " nalias=%" PRIu64 " fast=%d bpl=%" PRIu32 " rpl=%" PRIu32, (uint64_t) ssi->nprimary, (uint64_t) ssi->nsecondary, fast,
          fast ? ssi->bpl[0] : 0, fast ? ssi->rpl[0] : 0);
    esl_ssi_Close(ssi);
    return;
  }
  fp = fopen("t.tout", "rb");
  if (!fp) { h_out("no-output"); return; }
  fseek(fp, 0, SEEK_END); on = ftell(fp); rewind(fp); text = malloc(on + 1);
  if (fread(text, 1, on, fp) != (size_t) on) on = 0;
  fclose(fp); remove("t.tout");
  h_out("ok hex=%s", on ? h_hex(text, on) : "-");
  free(text);
}

static void h_op(void)
{
  const char *op = h_words[0];
  if      (!strcmp(op, "adb"))   op_adb();
  else if (!strcmp(op, "aget"))  op_aget();
  else if (!strcmp(op, "ascan")) op_ascan();
  else if (!strcmp(op, "toolcmd")) op_toolcmd();
  else if (!strcmp(op, "file")) {          /* a new file: an index the tool wrote for the previous file of that name must not survive */
    char ssiname[96]; snprintf(ssiname, sizeof(ssiname), "t.%s.ssi", h_arg("ext") ? h_arg("ext") : "fa"); remove(ssiname);
    sqio_h_op();
  }
  else sqio_h_op();
}

/* main() is the one at the end of h_sqio.c: it runs h_main() of hcommon.h, which calls the h_op / h_case_begin / h_case_end defined HERE */
