/* Common glue for the correspondence harnesses (DESIGN §2.3).
 * Line protocol:  "case <n>" / one op per line / "end"  ->  "case <n>" / one result line per op / "end".
 * Every result line is flushed at once so that a sanitizer abort cannot swallow earlier output.
 */
#ifndef VERIF_HCOMMON_H
#define VERIF_HCOMMON_H
#include <stdio.h>
#include <stdlib.h>
#include <string.h>
#include <stdarg.h>
#include <stdint.h>
#include <inttypes.h>
#include <setjmp.h>
#include "easel.h"

#define H_MAXLINE (1<<22)
#define H_MAXW    256

static char  *h_line;            /* current line (mutable copy) */
static char  *h_words[H_MAXW];
static int    h_nwords;
static int    h_exception_seen;  /* set by the exception handler */
static char   h_exception_msg[512];

static void h_exception_handler(int errcode, int use_errno, char *sourcefile, int sourceline, char *format, va_list argp)
{
  (void)use_errno; (void)sourcefile; (void)sourceline;
  h_exception_seen = errcode ? errcode : -1;
  vsnprintf(h_exception_msg, sizeof(h_exception_msg), format, argp);
}

static void h_out(const char *fmt, ...)
{
  va_list ap; va_start(ap, fmt); vprintf(fmt, ap); va_end(ap);
  fputc('\n', stdout); fflush(stdout);
}

static const char *h_status(int s)
{
  switch (s) {
  case eslOK: return "ok"; case eslFAIL: return "fail"; case eslEOL: return "eol"; case eslEOF: return "eof";
  case eslEOD: return "eod"; case eslEMEM: return "emem"; case eslENOTFOUND: return "enotfound";
  case eslEFORMAT: return "eformat"; case eslEAMBIGUOUS: return "eambiguous"; case eslEDIVZERO: return "edivzero";
  case eslEINCOMPAT: return "eincompat"; case eslEINVAL: return "einval"; case eslESYS: return "esys";
  case eslECORRUPT: return "ecorrupt"; case eslEINCONCEIVABLE: return "einconceivable"; case eslESYNTAX: return "esyntax";
  case eslERANGE: return "erange"; case eslEDUP: return "edup"; case eslENOHALT: return "enohalt";
  case eslENORESULT: return "enoresult"; case eslENODATA: return "enodata"; case eslETYPE: return "etype";
  case eslEOVERWRITE: return "eoverwrite"; case eslENOSPACE: return "enospace"; case eslEUNIMPLEMENTED: return "eunimplemented";
  case eslENOFORMAT: return "enoformat"; case eslENOALPHABET: return "enoalphabet"; case eslEWRITE: return "ewrite";
  case eslEINACCURATE: return "einaccurate";
  default: return "estatus?";
  }
}

static int h_hexval(int c)
{
  if (c >= '0' && c <= '9') return c - '0';
  if (c >= 'a' && c <= 'f') return c - 'a' + 10;
  if (c >= 'A' && c <= 'F') return c - 'A' + 10;
  return -1;
}

/* decode hex string ("-" = empty). returns malloc'ed buffer with one extra NUL byte; *n = length */
static unsigned char *h_unhex(const char *s, int64_t *n)
{
  size_t len = strlen(s);
  unsigned char *b;
  size_t i;
  if (strcmp(s, "-") == 0) { b = malloc(1); b[0] = 0; *n = 0; return b; }
  b = malloc(len/2 + 1);
  for (i = 0; i + 1 < len; i += 2) b[i/2] = (unsigned char)(h_hexval(s[i]) * 16 + h_hexval(s[i+1]));
  b[len/2] = 0;
  *n = (int64_t)(len/2);
  return b;
}

/* hex-encode into a static rotating buffer ("-" = empty) */
static const char *h_hex(const void *p, int64_t n)
{
  static char *bufs[4]; static size_t cap[4]; static int k;
  const unsigned char *b = p; int64_t i; char *o;
  k = (k + 1) % 4;
  if ((size_t)(2*n + 2) > cap[k]) { cap[k] = (size_t)(2*n + 64); bufs[k] = realloc(bufs[k], cap[k]); }
  o = bufs[k];
  if (n <= 0 || p == NULL) { strcpy(o, "-"); return o; }
  for (i = 0; i < n; i++) sprintf(o + 2*i, "%02x", b[i]);
  return o;
}

static const char *h_arg(const char *key)
{
  size_t kl = strlen(key); int i;
  for (i = 0; i < h_nwords; i++)
    if (strncmp(h_words[i], key, kl) == 0 && h_words[i][kl] == '=') return h_words[i] + kl + 1;
  return NULL;
}
static int64_t  h_argi(const char *key, int64_t dflt) { const char *v = h_arg(key); return v ? strtoll(v, NULL, 10) : dflt; }
static uint64_t h_argu(const char *key, uint64_t dflt) { const char *v = h_arg(key); return v ? strtoull(v, NULL, 10) : dflt; }
static double   h_argbits(const char *key) { const char *v = h_arg(key); uint64_t u = v ? strtoull(v, NULL, 16) : 0; double d; memcpy(&d, &u, 8); return d; }
static const char *h_dbits(double d) { static char b[4][24]; static int k; uint64_t u; k = (k+1)%4; memcpy(&u, &d, 8); sprintf(b[k], "%016" PRIx64, u); return b[k]; }
static const char *h_fbits(float f)  { static char b[4][16]; static int k; uint32_t u; k = (k+1)%4; memcpy(&u, &f, 4); sprintf(b[k], "%08" PRIx32, u); return b[k]; }

/* The property harness defines these two: */
static void h_case_begin(void);
static void h_case_end(void);
static void h_op(void);           /* handle op in h_words[0..h_nwords) ; must print exactly one line */

static int h_main(void)
{
  size_t cap = 0; char *raw = NULL; ssize_t n;
  esl_exception_SetHandler(&h_exception_handler);
  setvbuf(stdout, NULL, _IOLBF, 0);
  while ((n = getline(&raw, &cap, stdin)) > 0) {
    while (n > 0 && (raw[n-1] == '\n' || raw[n-1] == '\r')) raw[--n] = 0;
    if (n == 0) continue;
    if (strncmp(raw, "case ", 5) == 0) { h_out("%s", raw); h_case_begin(); continue; }
    if (strcmp(raw, "end") == 0)       { h_case_end(); h_out("end"); continue; }
    h_line = raw; h_nwords = 0;
    { char *p = raw;
      while (*p && h_nwords < H_MAXW) {
        while (*p == ' ') p++;
        if (!*p) break;
        h_words[h_nwords++] = p;
        while (*p && *p != ' ') p++;
        if (*p) *p++ = 0;
      } }
    if (h_nwords == 0) continue;
    h_exception_seen = 0;
    h_op();
  }
  free(raw);
  return 0;
}
#endif
