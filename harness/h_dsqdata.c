/* C12 correspondence harness: dsqdata codec (statics reached by including esl_dsqdata.c), dsqdata write/threaded
 * read-back, esl_workqueue sequential ops and multi-threaded runs with pthread calls wrapped at link time
 * (-Wl,--wrap=pthread_mutex_lock,…): each mutex-protected region of the work queue is logged with a snapshot of the
 * protected fields; seeded sched_yield/usleep perturbation is injected around every lock operation.
 */
#include "esl_dsqdata.c"          /* FIRST: gives access to dsqdata_pack5/2, dsqdata_unpack5/2, dsqdata_unpack_chunk */
#include <stddef.h>
#include <sched.h>
#if defined(__SANITIZE_ADDRESS__)
#include <sanitizer/lsan_interface.h>
#define H_LEAKCHECK() __lsan_do_recoverable_leak_check()
#else
#define H_LEAKCHECK() 0
#endif
#include <unistd.h>
#include <fcntl.h>
#include "esl_workqueue.h"
#include "esl_threads.h"
#include "hcommon.h"

/* ---------------------------------------------------------------------------------------------
 * pthread wrappers
 * ------------------------------------------------------------------------------------------- */
int __real_pthread_mutex_lock(pthread_mutex_t *m);
int __real_pthread_mutex_unlock(pthread_mutex_t *m);
int __real_pthread_cond_wait(pthread_cond_t *c, pthread_mutex_t *m);
int __real_pthread_cond_signal(pthread_cond_t *c);
int __real_pthread_cond_broadcast(pthread_cond_t *c);
size_t __real_fread(void *ptr, size_t size, size_t n, FILE *fp);

typedef struct {
  int       active;     /* inside a logged work-queue call */
  int       tid;        /* 0 = reader, 1.. = workers */
  char      op;         /* I M S C R W */
  int       in;
  int       outflag;
  void    **outp;
  int       phase;      /* 0 = first region of the call, 1 = after a cond_wait returned */
  uint64_t  rng;
  int64_t   last_nchunk;/* dd->nchunk seen when this thread last released nchunk_mutex */
  int       in_open;    /* main thread is inside esl_dsqdata_Open(): the first mutex it locks is dd->go_mutex */
  pthread_mutex_t *held[8]; int nheld;   /* lock discipline: mutexes this thread holds */
  void     *seen;       /* unpacker: the chunk it saw in its inbox while holding inbox_mutex (it takes exactly that one) */
  void     *mine;       /* unpacker: the chunk in its hands (taken from the inbox, not yet put into the outbox) */
} TCTX;
static __thread TCTX tctx;

static ESL_WORK_QUEUE *g_wq      = NULL;
static ESL_THREADS    *g_thr     = NULL;
static ESL_DSQDATA    *g_dd      = NULL;
static int             g_spurious = 25;    /* % of cond_wait calls that return spuriously while perturbation is on */
static int             g_perturb = 0;      /* 0..100: probability (%) of a perturbation at a lock operation */
static int             g_blk[64];          /* block payloads; block id = index */
static char           *g_trace   = NULL;   /* appended only while holding g_wq->queueMutex */
static size_t          g_tlen = 0, g_tcap = 0;
static int             g_nevents = 0;
static int             g_ptrace  = 0;      /* log the dsqdata pipeline regions */
static int             g_lockerr = 0;      /* unlock / cond_wait on a mutex the thread does not hold */
static pthread_mutex_t g_logmx   = PTHREAD_MUTEX_INITIALIZER;
static void           *g_bufptr[256]; static int g_nbuf = 0;     /* chunk buffer (its psq address) -> id, in first-seen order */
static uint64_t        g_bufsum[256]; static int g_bufsumset[256];  /* contents digest of a parked chunk, taken by the thread that parked it */
static int             g_ownerr = 0;       /* a chunk changed while parked in a box / while in a consumer's hands: somebody else wrote to it */

static int blkid(void *p) { return p ? (int)((int *)p - g_blk) : 0; }

static uint64_t trand(void)
{
  uint64_t x = tctx.rng ? tctx.rng : 0x9E3779B97F4A7C15ull;
  x ^= x << 13; x ^= x >> 7; x ^= x << 17;
  tctx.rng = x;
  return x;
}

/* role-biased schedules (round 6): one role (dsqdata: L loader, U unpackers, C consumers; work queue: R reader, W workers) is slowed
 * down at every wrapped pthread call, so that the interleavings a free run hardly ever visits are reached - a consumer faster than
 * the loader (it sleeps in Read), every unpacker parked, the recycling stack empty / deep, the reader or the workers starved */
static int  g_slow = 0;
static char dd_who(void);
static void perturb(void)
{
  uint64_t r;
  if (g_slow) {
    char who = g_dd ? dd_who() : g_wq ? (tctx.tid == 0 ? 'R' : tctx.tid == 99 ? 0 : 'W') : 0;
    if (who == g_slow && trand() % 2 == 0) usleep((useconds_t)(40 + trand() % 160));
  }
  if (! g_perturb) return;
  r = trand();
  if ((int)(r % 100) >= g_perturb) return;
  r >>= 8;
  if (r % 4 == 0) usleep((useconds_t)((r >> 4) % 150));
  else            sched_yield();
}

static void tappend(const char *s)
{
  size_t n = strlen(s);
  if (g_tlen + n + 2 > g_tcap) { g_tcap = 2 * (g_tlen + n + 2) + 4096; g_trace = realloc(g_trace, g_tcap); }
  memcpy(g_trace + g_tlen, s, n + 1);
  g_tlen += n;
}

/* queue contents in queue order (slots head, head+1, ... mod size): what is observable through the API,
 * independent of whether vacated slots are cleared */
static void slots_str(char *o, void **q, int head, int cnt, int n, const char *sep)
{
  int i; o[0] = 0;
  if (cnt <= 0 || n <= 0) { strcpy(o, "-"); return; }
  for (i = 0; i < cnt && i < 2 * n; i++) sprintf(o + strlen(o), "%s%d", i ? sep : "", blkid(q[(head + i) % n]));
}

/* one record per mutex-protected region, written while the queue mutex is held */
static void log_region(char end)
{
  char buf[1024], rs[300], ws[300];
  int got = 0;
  if (end == 'u' && tctx.outp) got = blkid(*tctx.outp);
  slots_str(rs, g_wq->readerQueue, g_wq->readerQueueHead, g_wq->readerQueueCnt, g_wq->queueSize, ".");
  slots_str(ws, g_wq->workerQueue, g_wq->workerQueueHead, g_wq->workerQueueCnt, g_wq->queueSize, ".");
  snprintf(buf, sizeof(buf), "%s%d/%c/%d/%d/%c/%c/%d/%d/%d/%d/%s/%s", g_nevents ? ";" : "",
           tctx.tid, tctx.op, tctx.in, tctx.outflag, tctx.phase ? 'w' : 'f', end, got,
           g_wq->readerQueueCnt, g_wq->workerQueueCnt, g_wq->pendingWorkers, rs, ws);
  tappend(buf);
  g_nevents++;
}

/* esl_threads start gate: one record per region under startMutex: tid/op/phase/end/startThread/threadCount */
static void log_thr(char end)
{
  char buf[128];
  snprintf(buf, sizeof(buf), "%s%d/%c/%c/%c/%d/%d", g_nevents ? ";" : "", tctx.tid, tctx.op, tctx.phase ? 'w' : 'f', end,
           g_thr->startThread, g_thr->threadCount);
  tappend(buf);
  g_nevents++;
}

/* ---- dsqdata pipeline regions ---- */
static int bufid_psq(void *psq)      /* caller holds g_logmx */
{
  int i;
  for (i = 0; i < g_nbuf; i++) if (g_bufptr[i] == psq) return i;
  if (g_nbuf < 256) { g_bufptr[g_nbuf] = psq; g_bufsumset[g_nbuf] = 0; return g_nbuf++; }
  return 999;
}
static int bufid(void *p)      /* caller holds g_logmx; a chunk is identified by its psq address (fixed at creation) */
{
  if (! p) return -1;
  return bufid_psq(((ESL_DSQDATA_CHUNK *) p)->psq);
}

/* digest of everything a chunk owns: header fields, the whole smem buffer (capped), the metadata buffer, the pointer arrays */
static uint64_t chunk_digest(ESL_DSQDATA_CHUNK *c)
{
  uint64_t h = 0xcbf29ce484222325ull; const unsigned char *b; int64_t i, n;
  int64_t U = (g_dd->pack5 ? 6 : 15) * (int64_t) g_dd->chunk_maxpacket + g_dd->chunk_maxseq + 1;
  int64_t ms = g_dd->chunk_maxseq;
  U = (U + 3) & ~0x3;
  h ^= (uint64_t) c->i0; h *= 0x100000001b3ull; h ^= (uint64_t) c->N; h *= 0x100000001b3ull; h ^= (uint64_t) c->pn; h *= 0x100000001b3ull;
  b = (const unsigned char *) c->smem;     n = U > 65536 ? 65536 : U;                       for (i = 0; i < n; i++) { h ^= b[i]; h *= 0x100000001b3ull; }
  b = (const unsigned char *) c->psq;      n = 4 * (int64_t) c->pn; if (n > 65536) n = 65536; for (i = 0; i < n; i++) { h ^= b[i]; h *= 0x100000001b3ull; }
  b = (const unsigned char *) c->metadata; n = c->mdalloc > 65536 ? 65536 : c->mdalloc;     for (i = 0; i < n; i++) { h ^= b[i]; h *= 0x100000001b3ull; }
  if (ms > 4096) ms = 4096;
  b = (const unsigned char *) c->L;        n = ms * (int64_t) sizeof(int64_t);              for (i = 0; i < n; i++) { h ^= b[i]; h *= 0x100000001b3ull; }
  b = (const unsigned char *) c->taxid;    n = ms * (int64_t) sizeof(int);                  for (i = 0; i < n; i++) { h ^= b[i]; h *= 0x100000001b3ull; }
  return h;
}
static void digest_store(ESL_DSQDATA_CHUNK *c)     /* by the thread that parks the chunk, while it holds the box's mutex */
{
  int id; uint64_t h = chunk_digest(c);
  __real_pthread_mutex_lock(&g_logmx);
  id = bufid(c); if (id >= 0 && id < 256) { g_bufsum[id] = h; g_bufsumset[id] = 1; }
  __real_pthread_mutex_unlock(&g_logmx);
}
static void digest_check(ESL_DSQDATA_CHUNK *c)     /* by the thread that is about to take / has taken / gives back the chunk */
{
  int id; uint64_t h = chunk_digest(c);
  __real_pthread_mutex_lock(&g_logmx);
  id = bufid(c); if (id >= 0 && id < 256 && g_bufsumset[id] && g_bufsum[id] != h) g_ownerr++;
  __real_pthread_mutex_unlock(&g_logmx);
}

static char dd_mutex_kind(pthread_mutex_t *m, int *ret_u)
{
  int u;
  if (! g_dd) return 0;
  for (u = 0; u < g_dd->n_unpackers && u < eslDSQDATA_UMAX; u++) {
    if (m == &g_dd->inbox_mutex[u])  { *ret_u = u; return 'i'; }
    if (m == &g_dd->outbox_mutex[u]) { *ret_u = u; return 'o'; }
  }
  *ret_u = 0;
  if (m == &g_dd->recycling_mutex) return 'r';
  if (m == &g_dd->nchunk_mutex)    return 'n';
  return 0;
}

static char dd_who(void)
{
  pthread_t me = pthread_self(); int k;
  if (pthread_equal(me, g_dd->loader_t)) return 'L';
  for (k = 0; k < g_dd->n_unpackers; k++) if (pthread_equal(me, g_dd->unpacker_t[k])) return 'U';
  return 'C';
}

/* the dsqdata mutexes this thread holds right now, canonical order ("i<u>" < "n" < "o<u>" < "r"), '+'-separated; "-" if none */
static void held_str(char *o, size_t cap)
{
  char tok[8][12]; int nt = 0, i, j, u; char kind;
  for (i = 0; i < tctx.nheld && nt < 8; i++) {
    if ((kind = dd_mutex_kind(tctx.held[i], &u)) == 0) continue;
    if (kind == 'i' || kind == 'o') snprintf(tok[nt++], 12, "%c%d", kind, u); else snprintf(tok[nt++], 12, "%c", kind);
  }
  for (i = 1; i < nt; i++) for (j = i; j > 0 && strcmp(tok[j-1], tok[j]) > 0; j--) { char t[12]; strcpy(t, tok[j]); strcpy(tok[j], tok[j-1]); strcpy(tok[j-1], t); }
  o[0] = 0;
  for (i = 0; i < nt; i++) snprintf(o + strlen(o), cap - strlen(o), "%s%s", i ? "+" : "", tok[i]);
  if (nt == 0) snprintf(o, cap, "-");
}

/* a thread touches the contents of chunk <c> outside any mutex: "L/a/<buf>" (fread into it), "U/a/<u>/<buf>" (has unpacked it),
 * "C/a/<tid>/<buf>" (reads it / hands it back). The validator checks that the model's owner of <buf> is that thread. */
static void log_access(char who, int idx, int id)
{
  char buf[64];
  if (! g_ptrace) return;
  if (who == 'L') snprintf(buf, sizeof(buf), "%sL/a/%d", g_nevents ? ";" : "", id);
  else            snprintf(buf, sizeof(buf), "%s%c/a/%d/%d", g_nevents ? ";" : "", who, idx, id);
  tappend(buf);
  g_nevents++;
}

static void log_pipe(pthread_mutex_t *m, char end)
{
  char buf[2200], hs[100], kind, who; int u, k;
  if (! g_ptrace || (kind = dd_mutex_kind(m, &u)) == 0 || kind == 'n') return;
  who = dd_who();
  held_str(hs, sizeof(hs));
  __real_pthread_mutex_lock(&g_logmx);
  if (kind == 'i') {
    ESL_DSQDATA_CHUNK *c = g_dd->inbox[u];
    snprintf(buf, sizeof(buf), "%s%c/i/%d/%c/%c/%d/%" PRId64 "/%d/%s", g_nevents ? ";" : "", who, u, tctx.phase ? 'w' : 'f', end,
             bufid(c), c ? c->i0 : (int64_t) -1, g_dd->inbox_eod[u] ? 1 : 0, hs);
  } else if (kind == 'o') {
    ESL_DSQDATA_CHUNK *c = g_dd->outbox[u];
    snprintf(buf, sizeof(buf), "%s%c/o/%d/%c/%c/%d/%" PRId64 "/%d/%" PRId64 "/%d/%s", g_nevents ? ";" : "", who, u, tctx.phase ? 'w' : 'f', end,
             bufid(c), c ? c->i0 : (int64_t) -1, g_dd->outbox_eod[u] ? 1 : 0, who == 'C' ? g_dd->nchunk : (int64_t) -1, tctx.tid, hs);
  } else {
    ESL_DSQDATA_CHUNK *c; size_t len;
    snprintf(buf, sizeof(buf), "%s%c/r/0/%c/%c/", g_nevents ? ";" : "", who, tctx.phase ? 'w' : 'f', end);
    len = strlen(buf);
    if (! g_dd->recycling) len += snprintf(buf + len, sizeof(buf) - len, "-");
    for (c = g_dd->recycling, k = 0; c && k < 200; c = c->nxt, k++) len += snprintf(buf + len, sizeof(buf) - len, "%s%d", k ? "." : "", bufid(c));
    snprintf(buf + len, sizeof(buf) - len, "/%d/%s", tctx.tid, hs);
  }
  tappend(buf);
  g_nevents++;
  __real_pthread_mutex_unlock(&g_logmx);
}

/* ownership bookkeeping at the boundaries of the regions (the calling thread holds <m>) */
static void own_after_acquire(pthread_mutex_t *m)      /* after lock / after cond_wait returned */
{
  int u; char kind;
  if (! g_ptrace || ! g_dd || (kind = dd_mutex_kind(m, &u)) != 'i' || dd_who() != 'U') return;
  tctx.seen = g_dd->inbox[u];
  if (tctx.seen) digest_check((ESL_DSQDATA_CHUNK *) tctx.seen);        /* parked by the loader: nobody may have written to it since */
}
static void own_before_release(pthread_mutex_t *m)     /* before unlock */
{
  int u; char kind, who;
  if (! g_ptrace || ! g_dd || (kind = dd_mutex_kind(m, &u)) == 0 || kind == 'n' || kind == 'r') return;
  who = dd_who();
  if (who == 'U' && kind == 'i') { tctx.mine = (g_dd->inbox[u] == NULL) ? tctx.seen : NULL; tctx.seen = NULL; }
  if (who == 'U' && kind == 'o') { if (g_dd->outbox[u]) digest_store(g_dd->outbox[u]); tctx.mine = NULL; }
  if (who == 'L' && kind == 'i') { if (g_dd->inbox[u])  digest_store(g_dd->inbox[u]); }
}
static void own_before_lock(pthread_mutex_t *m)        /* the unpacker has finished unpacking the chunk in its hands */
{
  int u;
  if (! g_ptrace || ! g_dd || ! tctx.mine || dd_mutex_kind(m, &u) != 'o' || dd_who() != 'U') return;
  __real_pthread_mutex_lock(&g_logmx);
  log_access('U', u, bufid(tctx.mine));
  __real_pthread_mutex_unlock(&g_logmx);
}

size_t __wrap_fread(void *ptr, size_t size, size_t n, FILE *fp)
{
  if (g_ptrace && g_dd && fp == g_dd->sfp && pthread_equal(pthread_self(), g_dd->loader_t)) {     /* fread(chu->psq, ...) by the loader */
    __real_pthread_mutex_lock(&g_logmx);
    log_access('L', 0, bufid_psq(ptr));
    __real_pthread_mutex_unlock(&g_logmx);
  }
  return __real_fread(ptr, size, n, fp);
}

static void held_add(pthread_mutex_t *m) { if (tctx.nheld < 8) tctx.held[tctx.nheld++] = m; }
static int  held_has(pthread_mutex_t *m) { int i; for (i = 0; i < tctx.nheld; i++) if (tctx.held[i] == m) return 1; return 0; }
static void held_del(pthread_mutex_t *m)
{ int i; for (i = 0; i < tctx.nheld; i++) if (tctx.held[i] == m) { tctx.held[i] = tctx.held[--tctx.nheld]; return; } __sync_fetch_and_add(&g_lockerr, 1); }

int __wrap_pthread_mutex_lock(pthread_mutex_t *m)
{
  int r;
  perturb();
  if (tctx.in_open && ! g_dd) g_dd = (ESL_DSQDATA *) ((char *) m - offsetof(ESL_DSQDATA, go_mutex));
  own_before_lock(m);
  r = __real_pthread_mutex_lock(m);
  held_add(m);
  own_after_acquire(m);
  { int u; if (g_ptrace && dd_mutex_kind(m, &u)) tctx.phase = 0; }
  if (g_wq && m == &g_wq->queueMutex && tctx.active) tctx.phase = 0;
  if (g_thr && m == &g_thr->startMutex && tctx.active) tctx.phase = 0;
  return r;
}

int __wrap_pthread_mutex_unlock(pthread_mutex_t *m)
{
  int r;
  if (g_wq && m == &g_wq->queueMutex && tctx.active) log_region('u');
  if (g_thr && m == &g_thr->startMutex && tctx.active) log_thr('u');
  if (g_dd && m == &g_dd->nchunk_mutex) tctx.last_nchunk = g_dd->nchunk;
  if (g_dd) { own_before_release(m); log_pipe(m, 'u'); }
  held_del(m);
  r = __real_pthread_mutex_unlock(m);
  perturb();
  return r;
}

int __wrap_pthread_cond_wait(pthread_cond_t *c, pthread_mutex_t *m)
{
  int r;
  if (g_wq && m == &g_wq->queueMutex && tctx.active) log_region('c');
  if (g_thr && m == &g_thr->startMutex && tctx.active) log_thr('c');
  if (g_dd) log_pipe(m, 'c');
  if (! held_has(m)) __sync_fetch_and_add(&g_lockerr, 1);
  /* POSIX allows pthread_cond_wait() to return spuriously: now and then (seeded) do exactly that - release the mutex,
   * yield, take it again, return - so that a wait that is not re-checked in a loop shows */
  if (g_perturb && (int)(trand() % 100) < g_spurious) {
    __real_pthread_mutex_unlock(m);
    sched_yield();
    __real_pthread_mutex_lock(m);
    r = 0;
  } else
  r = __real_pthread_cond_wait(c, m);
  { int u; if (g_ptrace && dd_mutex_kind(m, &u)) tctx.phase = 1; }
  own_after_acquire(m);
  if (g_wq && m == &g_wq->queueMutex && tctx.active) tctx.phase = 1;
  if (g_thr && m == &g_thr->startMutex && tctx.active) tctx.phase = 1;
  return r;
}

int __wrap_pthread_cond_signal(pthread_cond_t *c)    { perturb(); return __real_pthread_cond_signal(c); }
int __wrap_pthread_cond_broadcast(pthread_cond_t *c) { perturb(); return __real_pthread_cond_broadcast(c); }

/* logged calls */
static int L_Init(ESL_WORK_QUEUE *q, void *p)
{ int s; tctx.active = 1; tctx.op = 'I'; tctx.in = blkid(p); tctx.outflag = 0; tctx.outp = NULL; s = esl_workqueue_Init(q, p); tctx.active = 0; return s; }
static int L_Remove(ESL_WORK_QUEUE *q, void **o)
{ int s; tctx.active = 1; tctx.op = 'M'; tctx.in = 0; tctx.outflag = 1; tctx.outp = o; s = esl_workqueue_Remove(q, o); tctx.active = 0; return s; }
static int L_Reset(ESL_WORK_QUEUE *q)
{ int s; tctx.active = 1; tctx.op = 'S'; tctx.in = 0; tctx.outflag = 0; tctx.outp = NULL; s = esl_workqueue_Reset(q); tctx.active = 0; return s; }
static int L_Complete(ESL_WORK_QUEUE *q)
{ int s; tctx.active = 1; tctx.op = 'C'; tctx.in = 0; tctx.outflag = 0; tctx.outp = NULL; s = esl_workqueue_Complete(q); tctx.active = 0; return s; }
static int L_ReaderUpdate(ESL_WORK_QUEUE *q, void *in, void **o)
{ int s; tctx.active = 1; tctx.op = 'R'; tctx.in = blkid(in); tctx.outflag = (o != NULL); tctx.outp = o; s = esl_workqueue_ReaderUpdate(q, in, o); tctx.active = 0; return s; }
static int L_WorkerUpdate(ESL_WORK_QUEUE *q, void *in, void **o)
{ int s; tctx.active = 1; tctx.op = 'W'; tctx.in = blkid(in); tctx.outflag = (o != NULL); tctx.outp = o; s = esl_workqueue_WorkerUpdate(q, in, o); tctx.active = 0; return s; }

/* ---------------------------------------------------------------------------------------------
 * work queue: sequential differential ops
 * ------------------------------------------------------------------------------------------- */
static ESL_WORK_QUEUE *sq_q = NULL;
static int             sq_holder[64];   /* -1: not held by a thread; else thread id */

static const char *wq_dump(ESL_WORK_QUEUE *q)
{
  static char buf[1024]; char rs[300], ws[300];
  slots_str(rs, q->readerQueue, q->readerQueueHead, q->readerQueueCnt, q->queueSize, ",");
  slots_str(ws, q->workerQueue, q->workerQueueHead, q->workerQueueCnt, q->queueSize, ",");
  snprintf(buf, sizeof(buf), "%d %d %d %s %s", q->readerQueueCnt, q->workerQueueCnt, q->pendingWorkers, rs, ws);
  return buf;
}

static void op_wq(void)
{
  const char *op = h_nwords > 1 ? h_words[1] : "";
  ESL_WORK_QUEUE *q = sq_q;
  void *obj = NULL;
  int   st, b, w, out;

  if (strcmp(op, "create") == 0) {
    int size = (int) h_argi("size", 0), i;
    if (size <= 0 || size > 32) { h_out("bad-op"); return; }
    if (sq_q) esl_workqueue_Destroy(sq_q);
    sq_q = esl_workqueue_Create(size);
    for (i = 0; i < 64; i++) sq_holder[i] = -1;
    h_out("ok | %s", wq_dump(sq_q));
    return;
  }
  if (! q) { h_out("bad-op"); return; }
  if (strcmp(op, "init") == 0) {
    b = (int) h_argi("b", 0);
    if (b <= 0 || b >= 64) { h_out("bad-op"); return; }
    { int full = (q->readerQueueCnt >= q->queueSize);
      st = esl_workqueue_Init(q, &g_blk[b]);
      /* the "queue overflow" exception returns with the mutex still held: release it so that the history can go on */
      if (st == eslEINVAL && h_exception_seen) { pthread_mutex_unlock(&q->queueMutex); h_out("overflow | %s", wq_dump(q)); }
      else h_out("%s%s | %s", h_status(st), full ? "-but-was-full" : "", wq_dump(q));
    }
  } else if (strcmp(op, "remove") == 0) {
    st = esl_workqueue_Remove(q, &obj);
    if (st == eslOK) { if (obj) sq_holder[blkid(obj)] = 0; h_out("ok b=%d | %s", blkid(obj), wq_dump(q)); }
    else             h_out("%s | %s", h_status(st), wq_dump(q));
  } else if (strcmp(op, "reset") == 0) {
    st = esl_workqueue_Reset(q);    h_out("%s | %s", h_status(st), wq_dump(q));
  } else if (strcmp(op, "complete") == 0) {
    st = esl_workqueue_Complete(q); h_out("%s | %s", h_status(st), wq_dump(q));
  } else if (strcmp(op, "dump") == 0) {
    /* esl_workqueue_Dump() printf()s to stdout: send fd 1 to a file for the duration of the call, then rebuild the observable state
     * (counts, pending, the queued blocks in queue order) from the PRINTED text alone; it must be the state the structure holds */
    char tmp[64], txt[8192], rs[300] = "", ws[300] = "", line[300]; int saved, fd, n = 0, rh = -1, rc = -1, wh = -1, wc = -1, pend = -99, i, k, ok = 1;
    void *rp[40], *wp[40]; int nslot = 0; FILE *tf;
    snprintf(tmp, sizeof(tmp), "c12_dump_%d.txt", (int) getpid());
    fflush(stdout); saved = dup(1); fd = open(tmp, O_CREAT | O_WRONLY | O_TRUNC, 0644); dup2(fd, 1); close(fd);
    st = esl_workqueue_Dump(q);
    fflush(stdout); dup2(saved, 1); close(saved);
    txt[0] = 0;
    if ((tf = fopen(tmp, "r")) != NULL) {
      while (fgets(line, sizeof(line), tf)) {
        char a[64], b[64];
        if      (sscanf(line, "Reader head: %d count: %d", &rh, &rc) == 2) n++;
        else if (sscanf(line, "Worker head: %d count: %d", &wh, &wc) == 2) n++;
        else if (sscanf(line, "Pending: %d", &pend) == 1) n++;
        else if (sscanf(line, " %d: %63s %63s", &i, a, b) == 3 && nslot < 40 && i == nslot) {
          rp[nslot] = NULL; wp[nslot] = NULL;
          if (strcmp(a, "(nil)") != 0) sscanf(a, "%p", &rp[nslot]);
          if (strcmp(b, "(nil)") != 0) sscanf(b, "%p", &wp[nslot]);
          nslot++;
        }
      }
      fclose(tf);
    }
    remove(tmp);
    if (n != 3 || nslot != q->queueSize || rh != q->readerQueueHead || wh != q->workerQueueHead) ok = 0;
    if (ok) {
      strcpy(rs, rc > 0 ? "" : "-"); strcpy(ws, wc > 0 ? "" : "-");
      for (k = 0; k < rc && k < nslot; k++) sprintf(rs + strlen(rs), "%s%d", k ? "," : "", blkid(rp[(rh + k) % nslot]));
      for (k = 0; k < wc && k < nslot; k++) sprintf(ws + strlen(ws), "%s%d", k ? "," : "", blkid(wp[(wh + k) % nslot]));
      h_out("%s | %d %d %d %s %s", h_status(st), rc, wc, pend, rs, ws);
    } else h_out("dump-unreadable | %s", wq_dump(q));
  } else if (strcmp(op, "rupd") == 0 || strcmp(op, "wupd") == 0) {
    int isw = (op[0] == 'w');
    w   = isw ? (int) h_argi("w", 1) : 0;
    b   = (int) h_argi("in", 0);
    out = (int) h_argi("out", 0);
    if (b < 0 || b >= 64) { h_out("bad-op"); return; }
    if (out && (isw ? q->workerQueueCnt : q->readerQueueCnt) == 0) { h_out("wouldblock | %s", wq_dump(q)); return; }
    if (b && sq_holder[b] != w)                                     { h_out("disabled | %s", wq_dump(q)); return; }
    if (isw) st = esl_workqueue_WorkerUpdate(q, b ? &g_blk[b] : NULL, out ? &obj : NULL);
    else     st = esl_workqueue_ReaderUpdate(q, b ? &g_blk[b] : NULL, out ? &obj : NULL);
    if (st == eslEINVAL && h_exception_seen) {      /* "queue overflow": the call returns with the mutex held and nothing done */
      pthread_mutex_unlock(&q->queueMutex);
      h_out("overflow | %s", wq_dump(q));
      return;
    }
    if (b) sq_holder[b] = -1;
    if (out && obj) sq_holder[blkid(obj)] = w;
    if (st == eslOK && out) h_out("ok b=%d | %s", blkid(obj), wq_dump(q));
    else                    h_out("%s | %s", h_status(st), wq_dump(q));
  } else h_out("bad-op");
}

/* ---------------------------------------------------------------------------------------------
 * work queue: threaded run with trace
 * ------------------------------------------------------------------------------------------- */
typedef struct { int tid; uint64_t seed; int *seen; int nseen; int ok; } WARG;
static int g_wq_extra = 0;     /* rarely used call modes in the threaded run: Complete while workers sleep, Update(NULL, NULL), abandoned blocks before Reset */

static void *wq_worker(void *p)
{
  WARG *a = (WARG *) p;
  int  *obj = NULL;
  memset(&tctx, 0, sizeof(tctx));
  tctx.tid = a->tid; tctx.rng = a->seed;
  a->ok = 1;
  if (L_WorkerUpdate(g_wq, NULL, (void **) &obj) != eslOK || ! obj) { a->ok = 0; return NULL; }
  while (*obj > 0) {
    a->seen[a->nseen++] = *obj;
    perturb();
    if (g_wq_extra && trand() % 12 == 0 && L_WorkerUpdate(g_wq, NULL, NULL) != eslOK) { a->ok = 0; return NULL; }   /* the no-op call */
    if (L_WorkerUpdate(g_wq, obj, (void **) &obj) != eslOK || ! obj) { a->ok = 0; return NULL; }
  }
  if (L_WorkerUpdate(g_wq, obj, NULL) != eslOK) a->ok = 0;    /* hand the stop marker back */
  return NULL;
}

/* controller thread: hands the blocks in lazily, possibly while the reader already sleeps on the empty reader queue */
typedef struct { int B; uint64_t seed; int ok; } CTLARG;
static void *wq_controller(void *p)
{
  CTLARG *a = (CTLARG *) p; int i;
  memset(&tctx, 0, sizeof(tctx)); tctx.tid = 99; tctx.rng = a->seed;
  a->ok = 1;
  for (i = 1; i <= a->B; i++) { perturb(); g_blk[i] = 0; if (L_Init(g_wq, &g_blk[i]) != eslOK) a->ok = 0; }
  return NULL;
}

static void op_wqrun(void)
{
  int size = (int) h_argi("size", 4), W = (int) h_argi("workers", 2), B = (int) h_argi("blocks", size);
  int M = (int) h_argi("items", 10);
  uint64_t seed = h_argu("seed", 1);
  int lazy = (int) h_argi("lazy", 0); pthread_t cth; CTLARG ctl;
  pthread_t th[16]; WARG wa[16];
  int i, k, ok = 1, *obj = NULL, *count, processed = 0, dup = 0, fifo = 1, removed = 0;
  void *r;

  if (size < 1 || size > 32 || W < 1 || W > 8 || B < 1 || B > size || M < 0 || M > 100000) { h_out("bad-op"); return; }
  g_perturb = (int) h_argi("pert", 30);
  g_slow = (h_arg("slow") && h_arg("slow")[0] != '-') ? h_arg("slow")[0] : 0;
  memset(&tctx, 0, sizeof(tctx)); tctx.tid = 0; tctx.rng = seed * 0x9E3779B97F4A7C15ull + 1;
  g_tlen = 0; g_nevents = 0; if (g_trace) g_trace[0] = 0; g_lockerr = 0;
  g_wq_extra = (int) h_argi("extra", 0);
  g_wq = esl_workqueue_Create(size);
  if (! lazy) for (i = 1; i <= B; i++) { g_blk[i] = 0; if (L_Init(g_wq, &g_blk[i]) != eslOK) ok = 0; }
  for (i = 0; i < W; i++) {
    wa[i].tid = i + 1; wa[i].seed = seed * 1000003ull + 7919ull * (i + 1); wa[i].nseen = 0; wa[i].ok = 0;
    wa[i].seen = malloc(sizeof(int) * (M + 1));
    pthread_create(&th[i], NULL, wq_worker, &wa[i]);
  }
  if (lazy) { ctl.B = B; ctl.seed = seed * 31337ull + 3; pthread_create(&cth, NULL, wq_controller, &ctl); }
  if (L_ReaderUpdate(g_wq, NULL, (void **) &obj) != eslOK || ! obj) ok = 0;
  if (lazy) { pthread_join(cth, &r); if (! ctl.ok) ok = 0; }
  for (i = 1; ok && i <= M; i++) {
    *obj = i;
    perturb();
    if (g_wq_extra && trand() % 10 == 0 && L_Complete(g_wq) != eslOK) ok = 0;                 /* wakes every sleeping worker: they must go back to sleep */
    if (g_wq_extra && trand() % 10 == 1 && L_ReaderUpdate(g_wq, NULL, NULL) != eslOK) ok = 0; /* the no-op call */
    if (L_ReaderUpdate(g_wq, obj, (void **) &obj) != eslOK || ! obj) ok = 0;
  }
  for (k = 1; ok && k <= W; k++) {
    *obj = 0;
    if (k < W) { if (L_ReaderUpdate(g_wq, obj, (void **) &obj) != eslOK || ! obj) ok = 0; }
    else       { if (L_ReaderUpdate(g_wq, obj, NULL) != eslOK) ok = 0; }
  }
  if (! ok) { h_out("fail reader-got-null-or-error trace=%s", g_trace ? g_trace : "-"); _exit(3); }  /* workers may be stuck */
  for (i = 0; i < W; i++) { pthread_join(th[i], &r); if (! wa[i].ok) ok = 0; }
  count = calloc(M + 2, sizeof(int));
  for (i = 0; i < W; i++) {
    for (k = 0; k < wa[i].nseen; k++) {
      int v = wa[i].seen[k];
      if (v >= 1 && v <= M) { if (count[v]++) dup++; else processed++; }
      if (k > 0 && wa[i].seen[k-1] >= v) fifo = 0;
    }
    free(wa[i].seen);
  }
  free(count);
  {
    int rc = g_wq->readerQueueCnt, wc = g_wq->workerQueueCnt, pend = g_wq->pendingWorkers;
    int seenb[64]; void *o = NULL;
    memset(seenb, 0, sizeof(seenb));
    if (g_wq_extra) {      /* abandoned work: blocks left in the worker queue with nobody to take them; Reset must bring every one back, in order */
      int t = g_wq_extra; void *o2 = NULL;
      while (t-- > 0 && g_wq->readerQueueCnt > 0) {
        if (L_ReaderUpdate(g_wq, NULL, &o2) != eslOK || ! o2) break;
        if (L_ReaderUpdate(g_wq, o2, NULL) != eslOK) break;
      }
    }
    L_Complete(g_wq);
    L_Reset(g_wq);
    while (L_Remove(g_wq, &o) == eslOK) {
      if (o && ! seenb[blkid(o)]) { seenb[blkid(o)] = 1; removed++; } else { removed = -1000; break; }
      if (removed > 64) break;
    }
    { ESL_WORK_QUEUE *q = g_wq; g_wq = NULL; esl_workqueue_Destroy(q); }
    h_out("%s items=%d processed=%d%s stops=%d order=%s final=%d,%d,%d removed=%d%s%s trace=%s", ok ? "ok" : "fail", M, processed,
          dup ? " dup" : "", W, fifo ? "fifo" : "unordered", rc, wc, pend, removed, g_lockerr ? " lockerr" : "", H_LEAKCHECK() ? " leak" : "",
          g_nevents ? g_trace : "-");
  }
  g_perturb = 0; g_slow = 0;
}

/* ---------------------------------------------------------------------------------------------
 * esl_threads: start rendezvous
 * ------------------------------------------------------------------------------------------- */
static int      th_N, th_arrived, th_startorder, th_early, th_badidx, th_idxseen[64], th_data[64];
static uint64_t th_seed;

static void th_worker(void *arg)
{
  ESL_THREADS *obj = (ESL_THREADS *) arg;
  int idx = -1, st;
  memset(&tctx, 0, sizeof(tctx));
  tctx.tid = __sync_fetch_and_add(&th_startorder, 1);
  tctx.rng = th_seed * 1000003ull + 7919ull * (tctx.tid + 1);
  perturb();
  __sync_fetch_and_add(&th_arrived, 1);
  tctx.active = 1; tctx.op = 'A';
  st = esl_threads_Started(obj, &idx);
  tctx.active = 0;
  if (__sync_fetch_and_add(&th_arrived, 0) != th_N) __sync_fetch_and_add(&th_early, 1);   /* passed the gate before everybody arrived */
  if (st != eslOK || idx < 0 || idx >= th_N || esl_threads_GetData(obj, idx) != (void *) &th_data[idx]
      || esl_threads_GetWorkerCount(obj) != th_N || __sync_fetch_and_add(&th_idxseen[idx], 1) != 0)
    __sync_fetch_and_add(&th_badidx, 1);
  perturb();
  esl_threads_Finished(obj, idx);
}

static void op_thrun(void)
{
  int N = (int) h_argi("workers", 2), R = (int) h_argi("rounds", 1), r, i, ok = 1, early = 0, badidx = 0;
  if (N < 1 || N > 32 || R < 1 || R > 8) { h_out("bad-op"); return; }
  th_seed = h_argu("seed", 1);
  g_perturb = (int) h_argi("pert", 30);
  memset(&tctx, 0, sizeof(tctx)); tctx.tid = 1000; tctx.rng = th_seed * 0x9E3779B97F4A7C15ull + 5;
  g_tlen = 0; g_nevents = 0; if (g_trace) g_trace[0] = 0; g_lockerr = 0;
  g_thr = esl_threads_Create(&th_worker);
  for (r = 0; r < R; r++) {
    th_N = N; th_arrived = 0; th_startorder = 0; th_early = 0; th_badidx = 0; memset(th_idxseen, 0, sizeof(th_idxseen));
    for (i = 0; i < N; i++) { perturb(); if (esl_threads_AddThread(g_thr, &th_data[i]) != eslOK) ok = 0; }
    tctx.active = 1; tctx.op = 'T';
    if (esl_threads_WaitForStart(g_thr) != eslOK) ok = 0;
    tctx.active = 0;
    if (esl_threads_WaitForFinish(g_thr) != eslOK) ok = 0;
    if (esl_threads_GetWorkerCount(g_thr) != 0) ok = 0;
    early += th_early; badidx += th_badidx;
    for (i = 0; i < N; i++) if (th_idxseen[i] != 1) badidx++;
    tappend(g_nevents ? ";0/F/f/u/0/0" : "0/F/f/u/0/0"); g_nevents++;
  }
  { ESL_THREADS *t = g_thr; g_thr = NULL; esl_threads_Destroy(t); }
  h_out("%s workers=%d rounds=%d idx=%s early=%d%s%s trace=%s", ok ? "ok" : "fail", N, R, badidx ? "bad" : "ok", early, g_lockerr ? " lockerr" : "",
        H_LEAKCHECK() ? " leak" : "", g_trace);
  g_perturb = 0; g_slow = 0;
}

/* ---------------------------------------------------------------------------------------------
 * codec
 * ------------------------------------------------------------------------------------------- */
static const char *words_str(uint32_t *p, int n)
{
  static char *buf = NULL; static size_t cap = 0; int i; size_t len = 0;
  if ((size_t) n * 11 + 4 > cap) { cap = (size_t) n * 11 + 64; buf = realloc(buf, cap); }
  if (n == 0) { strcpy(buf, "-"); return buf; }
  for (i = 0; i < n; i++) len += sprintf(buf + len, "%s%" PRIu32, i ? "," : "", p[i]);
  return buf;
}

static uint32_t *parse_words(const char *s, int *ret_n)
{
  int n = 0, cap = 16; uint32_t *p = malloc(sizeof(uint32_t) * cap);
  if (s && strcmp(s, "-") != 0)
    while (*s) {
      char *e; unsigned long v = strtoul(s, &e, 10);
      if (e == s) break;
      if (n == cap) { cap *= 2; p = realloc(p, sizeof(uint32_t) * cap); }
      p[n++] = (uint32_t) v;
      s = (*e == ',') ? e + 1 : e;
    }
  /* exact-size copy so that ASan sees a read past the last packet */
  { uint32_t *q = malloc(sizeof(uint32_t) * (n ? n : 1)); memcpy(q, p, sizeof(uint32_t) * n); free(p); *ret_n = n; return q; }
}

static void op_pack(int five)
{
  int64_t n; unsigned char *d = h_unhex(h_arg("d") ? h_arg("d") : "-", &n);
  int P = 0, P2 = 0, maxP = (int) ESL_MAX(1, (n + 5) / 6), same;
  ESL_DSQ  *dsq = malloc(n + 2);
  uint32_t *psq = malloc(sizeof(uint32_t) * maxP);
  size_t    ipn = ESL_MAX((size_t)(n + 2), sizeof(uint32_t) * (size_t) maxP);
  ESL_DSQ  *ip  = malloc(ipn);                    /* pack-in-place buffer, as esl_dsqdata_Write() uses sq->dsq */
  dsq[0] = eslDSQ_SENTINEL; memcpy(dsq + 1, d, n); dsq[n+1] = eslDSQ_SENTINEL;
  memset(ip, 0, ipn); memcpy(ip, dsq, n + 2);
  if (five) { dsqdata_pack5(dsq, (int) n, psq, &P); dsqdata_pack5(ip, (int) n, (uint32_t *) ip, &P2); }
  else      { dsqdata_pack2(dsq, (int) n, psq, &P); dsqdata_pack2(ip, (int) n, (uint32_t *) ip, &P2); }
  same = (P == P2 && memcmp(ip, psq, sizeof(uint32_t) * P) == 0);
  h_out("ok P=%d psq=%s inplace=%s", P, words_str(psq, P), same ? "same" : "diff");
  free(d); free(dsq); free(psq); free(ip);
}

/* pack, then unpack what was packed (the packets are followed by one foreign EOD packet, as inside a chunk) */
static void op_rt(int five)
{
  int64_t n; unsigned char *d = h_unhex(h_arg("d") ? h_arg("d") : "-", &n);
  int P = 0, L = 0, P2 = 0, maxP = (int) ESL_MAX(1, (n + 5) / 6);
  ESL_DSQ  *dsq = malloc(n + 2), *out;
  uint32_t *psq = malloc(sizeof(uint32_t) * (maxP + 1));
  dsq[0] = eslDSQ_SENTINEL; memcpy(dsq + 1, d, n); dsq[n+1] = eslDSQ_SENTINEL;
  if (five) dsqdata_pack5(dsq, (int) n, psq, &P); else dsqdata_pack2(dsq, (int) n, psq, &P);
  psq[P] = 0xFFFFFFFFu;
  out = malloc((size_t) 15 * (P + 1) + 2); out[0] = eslDSQ_SENTINEL;
  if (five) dsqdata_unpack5(psq, out, &L, &P2); else dsqdata_unpack2(psq, out, &L, &P2);
  h_out("ok P=%d L=%d P2=%d d=%s", P, L, P2, h_hex(out + 1, L));
  free(d); free(dsq); free(psq); free(out);
}

static void op_unpack(int five)
{
  int np, L = 0, P = 0; uint32_t *psq = parse_words(h_arg("p"), &np);
  ESL_DSQ *dsq = malloc((size_t) 15 * (np + 1) + 2);
  dsq[0] = eslDSQ_SENTINEL;
  if (np == 0) { free(psq); psq = malloc(1); }   /* zero packets: the first read is already out of bounds */
  if (five) dsqdata_unpack5(psq, dsq, &L, &P); else dsqdata_unpack2(psq, dsq, &L, &P);
  if (dsq[L+1] != eslDSQ_SENTINEL) h_out("nosentinel L=%d P=%d", L, P);
  else h_out("ok L=%d P=%d d=%s", L, P, h_hex(dsq + 1, L));
  free(psq); free(dsq);
}

static void op_unpackchunk(void)
{
  int mode = (int) h_argi("mode", 2), np, i, N = 0, st; uint32_t *psq = parse_words(h_arg("p"), &np);
  ESL_DSQDATA dd; ESL_DSQDATA_CHUNK *chu; char *Ls; size_t len = 0, tot = 1;
  if (np == 0) { h_out("ok N=0 L= smem=ff"); free(psq); return; }
  for (i = 0; i < np; i++) if (ESL_DSQDATA_EOD(psq[i])) N++;
  memset(&dd, 0, sizeof(dd));
  dd.chunk_maxseq = ESL_MAX(N, 1); dd.chunk_maxpacket = np; dd.pack5 = (mode == 5);
  chu = dsqdata_chunk_Create(&dd);
  if (20 * dd.chunk_maxseq < 7 * N + 8) { free(chu->metadata); chu->mdalloc = 7 * N + 8; chu->metadata = malloc(chu->mdalloc); }
  for (i = 0; i < N; i++) { char *m = chu->metadata + 7 * i; int32_t t = -1; m[0] = 0; m[1] = 0; m[2] = 0; memcpy(m + 3, &t, 4); }
  chu->N = N; chu->pn = np;
  /* the loader fread()s the packets to the END of smem; a chunk that does not end with an EOD packet makes the
   * unpacker run off the allocation: make that visible by placing the packets flush with the end */
  memcpy(chu->psq, psq, sizeof(uint32_t) * np);
  st = dsqdata_unpack_chunk(chu, dd.pack5);
  Ls = malloc((size_t) 12 * (N + 1)); Ls[0] = 0;
  for (i = 0; i < N; i++) { len += sprintf(Ls + len, "%s%" PRId64, i ? "," : "", chu->L[i]); tot += chu->L[i] + 1; }
  if (st != eslOK) h_out("%s", h_status(st));
  else h_out("ok N=%d L=%s smem=%s", N, Ls, h_hex(chu->smem, (int64_t) tot));
  free(Ls); free(psq); dsqdata_chunk_Destroy(chu);
}

/* dsqdata_chunk_Create() for the given limits, the packets placed where the loader fread()s them, dsqdata_unpack_chunk() in place:
 * U, the offset of psq, every dsq[i] offset and L[i], and the unpacked prefix of smem */
static void op_unpacksmem(void)
{
  int mode = (int) h_argi("mode", 2), maxpacket = (int) h_argi("maxpacket", 1), maxseq = (int) h_argi("maxseq", 1), np, i, N = 0, st;
  uint32_t *psq = parse_words(h_arg("p"), &np);
  ESL_DSQDATA dd; ESL_DSQDATA_CHUNK *chu; char *Ls; size_t len = 0, tot = 1; int64_t U;
  for (i = 0; i < np; i++) if (ESL_DSQDATA_EOD(psq[i])) N++;
  if (maxpacket < 1 || maxseq < 1 || np > maxpacket || N > maxseq || (np > 0 && ! ESL_DSQDATA_EOD(psq[np-1]))) { h_out("bad-op"); free(psq); return; }
  memset(&dd, 0, sizeof(dd));
  dd.chunk_maxseq = maxseq; dd.chunk_maxpacket = maxpacket; dd.pack5 = (mode == 5);
  chu = dsqdata_chunk_Create(&dd);
  if (chu->mdalloc < 7 * N + 8) { free(chu->metadata); chu->mdalloc = 7 * N + 8; chu->metadata = malloc(chu->mdalloc); }
  for (i = 0; i < N; i++) { char *m = chu->metadata + 7 * i; int32_t t = -1; m[0] = 0; m[1] = 0; m[2] = 0; memcpy(m + 3, &t, 4); }
  chu->N = N; chu->pn = np;
  if (np) memcpy(chu->psq, psq, sizeof(uint32_t) * np);
  st = dsqdata_unpack_chunk(chu, dd.pack5);
  U  = ((char *) chu->psq - (char *) chu->smem) + 4 * (int64_t) maxpacket;
  Ls = malloc((size_t) 40 * (N + 1)); Ls[0] = 0;
  for (i = 0; i < N; i++) { len += sprintf(Ls + len, "%s%" PRId64 ":%" PRId64, i ? "," : "", (int64_t) ((char *) chu->dsq[i] - (char *) chu->smem), chu->L[i]); tot += chu->L[i] + 1; }
  if (st != eslOK) h_out("%s", h_status(st));
  else h_out("ok U=%" PRId64 " off=%" PRId64 " N=%d segs=%s smem=%s", U, (int64_t) ((char *) chu->psq - (char *) chu->smem), N, Ls, h_hex(chu->smem, (int64_t) tot));
  free(Ls); free(psq); dsqdata_chunk_Destroy(chu);
}

/* ---------------------------------------------------------------------------------------------
 * dsqdata: write a database from generated records, read it back with consumer threads
 * ------------------------------------------------------------------------------------------- */
typedef struct { unsigned char *p; int64_t n; } BYTES;

static int split_hexlist(const char *s, BYTES **ret)
{
  int n = 0, cap = 16; BYTES *a = malloc(sizeof(BYTES) * cap);
  if (s && strcmp(s, "-") != 0) {
    char *copy = strdup(s), *tok, *save = NULL;
    /* empty elements are written as "-" by the generator; strtok_r would skip truly empty fields */
    for (tok = strtok_r(copy, ",", &save); tok; tok = strtok_r(NULL, ",", &save)) {
      if (n == cap) { cap *= 2; a = realloc(a, sizeof(BYTES) * cap); }
      a[n].p = h_unhex(tok[0] == 'x' ? (tok[1] ? tok + 1 : "-") : tok, &a[n].n); n++;   /* element = "x" + hex */
    }
    free(copy);
  }
  *ret = a; return n;
}

typedef struct {
  int filled; char *name, *acc, *desc; int32_t taxid; int64_t L; unsigned char *dsq;
} RREC;

typedef struct { int64_t i0; int N; int pn; int set; } CHREC;

static RREC  *rt_rec;  static int rt_nseq;
static CHREC *rt_chu;  static int rt_nchu_alloc;
static int    rt_dup, rt_eofs, rt_oob, rt_err;
static pthread_mutex_t rt_mutex = PTHREAD_MUTEX_INITIALIZER;

typedef struct { uint64_t seed; int tid; int hold; } CARG;

/* still the owner just before handing the chunk back: nobody else has written to it while this consumer worked on it */
static void rt_giveback(int tid, ESL_DSQDATA_CHUNK *chu)
{
  if (g_ptrace) {
    digest_check(chu);
    __real_pthread_mutex_lock(&g_logmx); log_access('C', tid, bufid(chu)); __real_pthread_mutex_unlock(&g_logmx);
  }
  esl_dsqdata_Recycle(g_dd, chu);
}

static void *rt_consumer(void *p)
{
  CARG *a = (CARG *) p; ESL_DSQDATA_CHUNK *chu; int st, i;
  ESL_DSQDATA_CHUNK *kept[32]; int nkept = 0;     /* chunks this consumer is "still working on" (recycled in batches) */
  memset(&tctx, 0, sizeof(tctx)); tctx.rng = a->seed; tctx.tid = a->tid;
  while ((st = esl_dsqdata_Read(g_dd, &chu)) == eslOK) {
    int64_t seqno = tctx.last_nchunk - 1;
    if (g_ptrace) {      /* this consumer now reads the chunk's contents, outside any mutex: it must be the owner, and the chunk as the unpacker left it */
      digest_check(chu);
      __real_pthread_mutex_lock(&g_logmx); log_access('C', a->tid, bufid(chu)); __real_pthread_mutex_unlock(&g_logmx);
    }
    __real_pthread_mutex_lock(&rt_mutex);
    if (seqno < 0 || seqno >= rt_nchu_alloc) rt_oob++;
    else if (rt_chu[seqno].set) rt_dup++;
    else { rt_chu[seqno].set = 1; rt_chu[seqno].i0 = chu->i0; rt_chu[seqno].N = chu->N; rt_chu[seqno].pn = chu->pn; }
    for (i = 0; i < chu->N; i++) {
      int64_t k = chu->i0 + i;
      if (k < 0 || k >= rt_nseq) { rt_oob++; continue; }
      if (rt_rec[k].filled) { rt_dup++; continue; }
      rt_rec[k].filled = 1;
      rt_rec[k].name = strdup(chu->name[i]); rt_rec[k].acc = strdup(chu->acc[i]); rt_rec[k].desc = strdup(chu->desc[i]);
      rt_rec[k].taxid = chu->taxid[i]; rt_rec[k].L = chu->L[i];
      rt_rec[k].dsq = malloc(chu->L[i] + 2); memcpy(rt_rec[k].dsq, chu->dsq[i], chu->L[i] + 2);
    }
    __real_pthread_mutex_unlock(&rt_mutex);
    perturb();
    kept[nkept++] = chu;
    if (nkept >= a->hold) { while (nkept > 0) { rt_giveback(a->tid, kept[--nkept]); perturb(); } }
  }
  while (nkept > 0) rt_giveback(a->tid, kept[--nkept]);
  __real_pthread_mutex_lock(&rt_mutex);
  if (st == eslEOF && chu == NULL) rt_eofs++; else rt_err++;
  __real_pthread_mutex_unlock(&rt_mutex);
  /* EOF is sticky */
  if (esl_dsqdata_Read(g_dd, &chu) != eslEOF) { __real_pthread_mutex_lock(&rt_mutex); rt_err++; __real_pthread_mutex_unlock(&rt_mutex); }
  return NULL;
}

static uint64_t fnv_bytes(uint64_t h, const void *p, int64_t n)
{ const unsigned char *b = p; int64_t i; for (i = 0; i < n; i++) { h ^= b[i]; h *= 0x100000001b3ull; } return h; }
static uint64_t fnv_u64(uint64_t h, uint64_t v)
{ int i; for (i = 0; i < 8; i++) { h ^= (v >> (8*i)) & 0xff; h *= 0x100000001b3ull; } return h; }

/* write the four dsqdata files by hand (format of esl_dsqdata_Write), so that accessions and taxonomy ids - which no
 * text sequence format carries - are exercised too; packing uses the real dsqdata_pack5/pack2 */
static int raw_write(const char *base, int amino, int rna, int n, BYTES *names, BYTES *accs, BYTES *descs, int32_t *taxids, BYTES *dsqs)
{
  char path[300]; FILE *ifp, *mfp, *sfp, *stub; int i;
  uint32_t magic = eslDSQDATA_MAGIC_V1, tag = 123456789u, alphatype = amino ? eslAMINO : rna ? eslRNA : eslDNA, flags = 0;
  uint32_t mxn = 0, mxa = 0, mxd = 0; uint64_t mxl = 0, nseq = n, nres = 0; int64_t spos = 0, mpos = 0;
  snprintf(path, sizeof(path), "%s.dsqi", base); ifp = fopen(path, "wb");
  snprintf(path, sizeof(path), "%s.dsqm", base); mfp = fopen(path, "wb");
  snprintf(path, sizeof(path), "%s.dsqs", base); sfp = fopen(path, "wb");
  stub = fopen(base, "w");
  if (! ifp || ! mfp || ! sfp || ! stub) return eslFAIL;
  for (i = 0; i < n; i++) {
    if (names[i].n > mxn) mxn = names[i].n;
    if (accs[i].n > mxa) mxa = accs[i].n;
    if (descs[i].n > mxd) mxd = descs[i].n;
    if ((uint64_t) dsqs[i].n > mxl) mxl = dsqs[i].n;
    nres += dsqs[i].n;
  }
  fwrite(&magic, 4, 1, ifp); fwrite(&tag, 4, 1, ifp); fwrite(&alphatype, 4, 1, ifp); fwrite(&flags, 4, 1, ifp);
  fwrite(&mxn, 4, 1, ifp); fwrite(&mxa, 4, 1, ifp); fwrite(&mxd, 4, 1, ifp); fwrite(&mxl, 8, 1, ifp); fwrite(&nseq, 8, 1, ifp); fwrite(&nres, 8, 1, ifp);
  fwrite(&magic, 4, 1, mfp); fwrite(&tag, 4, 1, mfp);
  fwrite(&magic, 4, 1, sfp); fwrite(&tag, 4, 1, sfp);
  for (i = 0; i < n; i++) {
    int64_t L = dsqs[i].n; int P = 0; ESL_DSQDATA_RECORD rec;
    ESL_DSQ  *dsq = malloc(L + 2);
    uint32_t *psq = malloc(sizeof(uint32_t) * ESL_MAX(1, (L + 5) / 6));
    dsq[0] = eslDSQ_SENTINEL; memcpy(dsq + 1, dsqs[i].p, L); dsq[L+1] = eslDSQ_SENTINEL;
    if (amino) dsqdata_pack5(dsq, (int) L, psq, &P); else dsqdata_pack2(dsq, (int) L, psq, &P);
    fwrite(psq, 4, P, sfp); spos += P;
    fwrite(names[i].p, 1, names[i].n + 1, mfp); fwrite(accs[i].p, 1, accs[i].n + 1, mfp); fwrite(descs[i].p, 1, descs[i].n + 1, mfp);
    fwrite(&taxids[i], 4, 1, mfp); mpos += names[i].n + accs[i].n + descs[i].n + 3 + 4;
    rec.psq_end = spos - 1; rec.metadata_end = mpos - 1;
    fwrite(&rec, sizeof(rec), 1, ifp);
    free(dsq); free(psq);
  }
  fprintf(stub, "Easel dsqdata v1 x%" PRIu32 "\n\nhand-written by the C12 harness\n", tag);
  fclose(ifp); fclose(mfp); fclose(sfp); fclose(stub);
  return eslOK;
}

static void op_dsqrt(void)
{
  const char *abcname = h_arg("abc") ? h_arg("abc") : "dna";
  int maxseq = (int) h_argi("maxseq", 0), maxpacket = (int) h_argi("maxpacket", 0), U = (int) h_argi("unpackers", 0);
  int C = (int) h_argi("consumers", 1);
  uint64_t seed = h_argu("seed", 1);
  BYTES *names, *descs, *dsqs, *accs = NULL; int n1, n2, n3, n4 = 0, i, k, bad = -1, miss = 0, st;
  int raw = (h_arg("writer") && strcmp(h_arg("writer"), "raw") == 0);
  int32_t *taxids = NULL;
  ESL_ALPHABET *abc = esl_alphabet_Create(strcmp(abcname, "amino") == 0 ? eslAMINO : strcmp(abcname, "rna") == 0 ? eslRNA : eslDNA);
  ESL_SQFILE *sqfp = NULL; FILE *fp; char base[256], fa[300], path[300], errbuf[eslERRBUFSIZE];
  pthread_t th[8]; CARG ca[8]; void *r;
  char *cstr; size_t clen = 0; uint64_t h = 0xcbf29ce484222325ull; int nchunks = 0;
  char hdr[200] = "-";
  static const char *ext[] = { "", ".dsqi", ".dsqm", ".dsqs" };

  n1 = split_hexlist(h_arg("names"), &names); n2 = split_hexlist(h_arg("descs"), &descs); n3 = split_hexlist(h_arg("dsq"), &dsqs);
  if (n1 != n2 || n1 != n3 || C < 1 || C > 8 || U > eslDSQDATA_UMAX) { h_out("bad-op"); goto DONE; }
  taxids = malloc(sizeof(int32_t) * (n1 + 1));
  for (i = 0; i < n1; i++) taxids[i] = -1;
  if (raw) {
    const char *t = h_arg("taxids");
    n4 = split_hexlist(h_arg("accs"), &accs);
    if (n4 != n1) { h_out("bad-op"); goto DONE; }
    for (i = 0; t && i < n1 && *t; i++) { char *e; taxids[i] = (int32_t) strtol(t, &e, 10); t = (*e == ',') ? e + 1 : e; }
  } else {
    accs = malloc(sizeof(BYTES) * (n1 + 1)); n4 = n1;
    for (i = 0; i < n1; i++) { accs[i].p = calloc(1, 1); accs[i].n = 0; }
  }
  snprintf(base, sizeof(base), "c12_%d.db", (int) getpid()); snprintf(fa, sizeof(fa), "%s.fa", base);
  if (raw) {
    if (raw_write(base, strcmp(abcname, "amino") == 0, strcmp(abcname, "rna") == 0, n1, names, accs, descs, taxids, dsqs) != eslOK) { h_out("esys"); goto CLEAN; }
    goto WRITTEN;
  }
  if ((fp = fopen(fa, "w")) == NULL) { h_out("esys"); goto DONE; }
  for (i = 0; i < n1; i++) {
    fprintf(fp, ">%s", (char *) names[i].p);
    if (descs[i].n) fprintf(fp, " %s", (char *) descs[i].p);
    fputc('\n', fp);
    for (k = 0; k < dsqs[i].n; k++) { fputc(abc->sym[dsqs[i].p[k]], fp); if (k % 60 == 59) fputc('\n', fp); }
    if (dsqs[i].n % 60) fputc('\n', fp);
  }
  fclose(fp);
  errbuf[0] = 0;
  if ((st = esl_sqfile_OpenDigital(abc, fa, eslSQFILE_FASTA, NULL, &sqfp)) != eslOK) { h_out("open-%s", h_status(st)); goto CLEAN; }
  st = esl_dsqdata_Write(sqfp, base, errbuf);
  esl_sqfile_Close(sqfp);
  if (st != eslOK) { h_out("write-%s", h_status(st)); goto CLEAN; }
 WRITTEN:
  esl_verif_dsqdata_maxseq = maxseq; esl_verif_dsqdata_maxpacket = maxpacket; esl_verif_dsqdata_unpackers = U;
  g_perturb = (int) h_argi("pert", 30);
  g_slow = (h_arg("slow") && h_arg("slow")[0] != '-') ? h_arg("slow")[0] : 0;
  memset(&tctx, 0, sizeof(tctx)); tctx.rng = seed * 0x9E3779B97F4A7C15ull + 11;
  rt_nseq = n1; rt_rec = calloc(n1 + 1, sizeof(RREC)); rt_nchu_alloc = n1 + 2; rt_chu = calloc(rt_nchu_alloc, sizeof(CHREC));
  rt_dup = rt_eofs = rt_oob = rt_err = 0;
  g_dd = NULL; g_tlen = 0; g_nevents = 0; if (g_trace) g_trace[0] = 0; g_nbuf = 0; g_lockerr = 0; g_ownerr = 0;
  g_ptrace = (int) h_argi("trace", 1);
  { ESL_DSQDATA *dd = NULL;
    tctx.in_open = 1;                       /* the wrapper derives g_dd from the first mutex locked inside Open() */
    st = esl_dsqdata_Open(&abc, base, C, &dd);
    tctx.in_open = 0;
    if (st != eslOK) { h_out("dsqopen-%s", h_status(st)); g_dd = NULL; g_ptrace = 0; if (dd) free(dd); goto CLEAN2; }
    if (g_dd != dd) { g_ptrace = 0; g_dd = dd; }   /* could not identify the object early: run without trace */
    /* header statistics of the database as esl_dsqdata_Open() read them back */
    snprintf(hdr, sizeof(hdr), "%" PRIu64 "/%" PRIu64 "/%" PRIu64 "/%" PRIu32 "/%" PRIu32 "/%" PRIu32 "/%d", dd->nseq, dd->nres, dd->max_seqlen,
             dd->max_namelen, dd->max_acclen, dd->max_desclen, dd->pack5 ? 5 : 2);
  }
  { /* a consumer may work on several chunks at once (nconsumers is "a hint, not a commitment"): then the loader runs out of
     * chunk buffers and has to wait for recycled ones. Keep at least one buffer circulating: C * hold + 1 <= limit. */
    int Ueff = g_dd->n_unpackers, hold = (int) h_argi("hold", 1), maxhold = (3 * Ueff + 1) / C + 1;
    if (hold < 1) hold = 1;
    if (hold > maxhold) hold = maxhold;
    if (hold > 32) hold = 32;
    for (i = 0; i < C; i++) { ca[i].seed = seed * 7777ull + 13ull * (i + 1); ca[i].tid = 100 + i; ca[i].hold = hold; pthread_create(&th[i], NULL, rt_consumer, &ca[i]); }
  }
  for (i = 0; i < C; i++) pthread_join(th[i], &r);
  { ESL_DSQDATA *dd = g_dd; esl_dsqdata_Close(dd); g_dd = NULL; }
  g_perturb = 0; g_slow = 0;

  /* compare with what was written */
  for (i = 0; i < n1; i++) {
    RREC *q = &rt_rec[i];
    if (! q->filled) { miss++; if (bad < 0) bad = i; continue; }
    if (bad < 0 && (strcmp(q->name, (char *) names[i].p) != 0 || strcmp(q->acc, (char *) accs[i].p) != 0 || strcmp(q->desc, (char *) descs[i].p) != 0 || q->taxid != taxids[i]
                    || q->L != dsqs[i].n || q->dsq[0] != eslDSQ_SENTINEL || q->dsq[q->L + 1] != eslDSQ_SENTINEL
                    || memcmp(q->dsq + 1, dsqs[i].p, dsqs[i].n) != 0)) bad = i;
    h = fnv_bytes(h, q->name, strlen(q->name) + 1); h = fnv_bytes(h, q->acc, strlen(q->acc) + 1); h = fnv_bytes(h, q->desc, strlen(q->desc) + 1);
    h = fnv_u64(h, (uint64_t)(int64_t) q->taxid); h = fnv_u64(h, (uint64_t) q->L); h = fnv_bytes(h, q->dsq + 1, q->L);
  }
  cstr = malloc((size_t) 40 * (rt_nchu_alloc + 1)); cstr[0] = 0;
  for (i = 0; i < rt_nchu_alloc && rt_chu[i].set; i++) {
    clen += sprintf(cstr + clen, "%s%" PRId64 ":%d:%d", i ? "," : "", rt_chu[i].i0, rt_chu[i].N, rt_chu[i].pn); nchunks++;
  }
  for (; i < rt_nchu_alloc; i++) if (rt_chu[i].set) rt_oob++;      /* a gap in the chunk numbering */
  /* every chunk the reader created must have been destroyed by now (esl_dsqdata_Close() has returned) */
  h_out("ok nseq=%d chunks=%s digest=%" PRIu64 " eofs=%d dup=%d miss=%d bad=%d oob=%d err=%d lockerr=%d ownerr=%d leak=%d hdr=%s trace=%s", n1 - miss, nchunks ? cstr : "-", h,
        rt_eofs, rt_dup, miss, bad, rt_oob, rt_err, g_lockerr, g_ownerr, H_LEAKCHECK() ? 1 : 0, hdr, (g_ptrace && g_nevents) ? g_trace : "-");
  g_ptrace = 0;
  free(cstr);
 CLEAN2:
  for (i = 0; i < n1; i++) if (rt_rec[i].filled) { free(rt_rec[i].name); free(rt_rec[i].acc); free(rt_rec[i].desc); free(rt_rec[i].dsq); }
  free(rt_rec); free(rt_chu); rt_rec = NULL; rt_chu = NULL;
  esl_verif_dsqdata_maxseq = esl_verif_dsqdata_maxpacket = esl_verif_dsqdata_unpackers = 0;
 CLEAN:
  remove(fa);
  for (i = 0; i < 4; i++) { snprintf(path, sizeof(path), "%s%s", base, ext[i]); remove(path); }
 DONE:
  for (i = 0; i < n1; i++) free(names[i].p);
  for (i = 0; i < n2; i++) free(descs[i].p);
  for (i = 0; i < n3; i++) free(dsqs[i].p);
  for (i = 0; i < n4; i++) free(accs[i].p);
  free(names); free(descs); free(dsqs); free(accs); free(taxids);
  esl_alphabet_Destroy(abc);
}


/* ---------------------------------------------------------------------------------------------
 * dsqdata at byte level: the files esl_dsqdata_Write() produces, and esl_dsqdata_Open() on mutated files.
 * esl_sqio_Read() is wrapped at link time so that the records reaching esl_dsqdata_Write() can carry an accession
 * and a taxonomy id (no text format Easel reads sets sq->tax_id; the NCBI reader does).
 * ------------------------------------------------------------------------------------------- */
int __real_esl_sqio_Read(ESL_SQFILE *sqfp, ESL_SQ *sq);
static char *hexdup(const void *p, int64_t n)
{
  const unsigned char *b = p; int64_t i; char *o;
  if (n <= 0 || p == NULL) return strdup("-");
  o = malloc(2 * n + 1);
  for (i = 0; i < n; i++) sprintf(o + 2*i, "%02x", b[i]);
  return o;
}
static int      g_inj_n = 0, g_inj_count = 0;
static BYTES   *g_inj_accs = NULL;
static int32_t *g_inj_tax  = NULL;
int __wrap_esl_sqio_Read(ESL_SQFILE *sqfp, ESL_SQ *sq)
{
  int st = __real_esl_sqio_Read(sqfp, sq);
  if (st == eslOK && g_inj_n > 0) {
    int i = g_inj_count++ % g_inj_n;
    if (g_inj_accs) esl_sq_SetAccession(sq, (char *) g_inj_accs[i].p);
    if (g_inj_tax)  sq->tax_id = g_inj_tax[i];
  }
  return st;
}

typedef struct { int n; BYTES *names, *accs, *descs, *dsqs; int32_t *taxids; int nn, na, nd, ns; ESL_ALPHABET *abc; char base[256], fa[300]; } DBARGS;

static void dbargs_free(DBARGS *a)
{
  int i;
  for (i = 0; i < a->nn; i++) free(a->names[i].p);
  for (i = 0; i < a->na; i++) free(a->accs[i].p);
  for (i = 0; i < a->nd; i++) free(a->descs[i].p);
  for (i = 0; i < a->ns; i++) free(a->dsqs[i].p);
  free(a->names); free(a->accs); free(a->descs); free(a->dsqs); free(a->taxids);
  if (a->abc) esl_alphabet_Destroy(a->abc);
}

static int dbargs_parse(DBARGS *a)
{
  const char *abcname = h_arg("abc") ? h_arg("abc") : "dna", *t = h_arg("taxids");
  int i;
  memset(a, 0, sizeof(*a));
  a->nn = split_hexlist(h_arg("names"), &a->names); a->nd = split_hexlist(h_arg("descs"), &a->descs); a->ns = split_hexlist(h_arg("dsq"), &a->dsqs);
  if (h_arg("accs")) a->na = split_hexlist(h_arg("accs"), &a->accs);
  else { a->accs = malloc(sizeof(BYTES) * (a->nn + 1)); a->na = a->nn; for (i = 0; i < a->nn; i++) { a->accs[i].p = calloc(1, 1); a->accs[i].n = 0; } }
  a->n = a->nn;
  a->taxids = malloc(sizeof(int32_t) * (a->n + 1));
  for (i = 0; i < a->n; i++) a->taxids[i] = -1;
  if (t && strcmp(t, "-") == 0) t = NULL;
  for (i = 0; t && i < a->n && *t; i++) { char *e; a->taxids[i] = (int32_t) strtol(t, &e, 10); t = (*e == ',') ? e + 1 : e; }
  a->abc = esl_alphabet_Create(strcmp(abcname, "amino") == 0 ? eslAMINO : strcmp(abcname, "rna") == 0 ? eslRNA : eslDNA);
  snprintf(a->base, sizeof(a->base), "c12_%d.db", (int) getpid()); snprintf(a->fa, sizeof(a->fa), "%s.fa", a->base);
  return (a->nd == a->n && a->ns == a->n && a->na == a->n) ? eslOK : eslFAIL;
}

/* FASTA file -> real esl_dsqdata_Write (accessions / taxonomy ids injected into the records it reads) */
static int db_write(DBARGS *a)
{
  FILE *fp; int i, st; int64_t k; ESL_SQFILE *sqfp = NULL; char errbuf[eslERRBUFSIZE];
  if ((fp = fopen(a->fa, "w")) == NULL) return eslESYS;
  for (i = 0; i < a->n; i++) {
    fprintf(fp, ">%s", (char *) a->names[i].p);
    if (a->descs[i].n) fprintf(fp, " %s", (char *) a->descs[i].p);
    fputc('\n', fp);
    for (k = 0; k < a->dsqs[i].n; k++) { fputc(a->abc->sym[a->dsqs[i].p[k]], fp); if (k % 60 == 59) fputc('\n', fp); }
    if (a->dsqs[i].n % 60) fputc('\n', fp);
  }
  fclose(fp);
  errbuf[0] = 0;
  if ((st = esl_sqfile_OpenDigital(a->abc, a->fa, eslSQFILE_FASTA, NULL, &sqfp)) != eslOK) return st;
  g_inj_n = a->n; g_inj_count = 0; g_inj_accs = a->accs; g_inj_tax = a->taxids;
  st = esl_dsqdata_Write(sqfp, a->base, errbuf);
  g_inj_n = 0; g_inj_accs = NULL; g_inj_tax = NULL;
  esl_sqfile_Close(sqfp);
  return st;
}

static unsigned char *slurp(const char *path, int64_t *ret_n)
{
  FILE *fp = fopen(path, "rb"); unsigned char *b; long n;
  if (! fp) { *ret_n = -1; return NULL; }
  fseek(fp, 0, SEEK_END); n = ftell(fp); fseek(fp, 0, SEEK_SET);
  b = malloc(n + 1); if (fread(b, 1, n, fp) != (size_t) n) n = -1; fclose(fp);
  *ret_n = n; return b;
}

static const char *db_ext[] = { "", ".dsqi", ".dsqm", ".dsqs" };
static void db_remove(DBARGS *a)
{ char path[300]; int i; remove(a->fa); for (i = 0; i < 4; i++) { snprintf(path, sizeof(path), "%s%s", a->base, db_ext[i]); remove(path); } }

static uint32_t db_tag(DBARGS *a)
{ char path[300]; int64_t n; unsigned char *b; uint32_t tag = 0; snprintf(path, sizeof(path), "%s.dsqi", a->base); b = slurp(path, &n); if (b && n >= 8) memcpy(&tag, b + 4, 4); free(b); return tag; }

/* dsqwrite: the bytes of the four files */
static void op_dsqwrite(void)
{
  DBARGS a; int st, i; char path[300]; char *hexs[4] = { NULL, NULL, NULL, NULL }; char *fnhex;
  if (dbargs_parse(&a) != eslOK) { h_out("bad-op"); dbargs_free(&a); return; }
  if ((st = db_write(&a)) != eslOK) { h_out("write-%s", h_status(st)); db_remove(&a); dbargs_free(&a); return; }
  for (i = 0; i < 4; i++) {
    int64_t n; unsigned char *b; snprintf(path, sizeof(path), "%s%s", a.base, db_ext[i]); b = slurp(path, &n);
    hexs[i] = hexdup(b, n); free(b);
  }
  fnhex = hexdup((unsigned char *) a.fa, strlen(a.fa));
  h_out("ok stub=%s dsqi=%s dsqm=%s dsqs=%s tag=%" PRIu32 " fname=%s", hexs[0], hexs[1], hexs[2], hexs[3], db_tag(&a), fnhex);
  for (i = 0; i < 4; i++) free(hexs[i]);
  free(fnhex);
  db_remove(&a); dbargs_free(&a);
}

/* dsqopen: write, mutate bytes of the files, esl_dsqdata_Open; on success read everything with one consumer */
static void op_dsqopen(void)
{
  DBARGS a; int st, i; char path[300]; const char *mut = h_arg("mut"), *expect = h_arg("expect");
  ESL_ALPHABET *abc = NULL; ESL_DSQDATA *dd = NULL; uint32_t tag; char *fnhex;
  if (dbargs_parse(&a) != eslOK) { h_out("bad-op"); dbargs_free(&a); return; }
  if ((st = db_write(&a)) != eslOK) { h_out("write-%s", h_status(st)); db_remove(&a); dbargs_free(&a); return; }
  tag = db_tag(&a);
  fnhex = hexdup((unsigned char *) a.fa, strlen(a.fa));
  if (mut && strcmp(mut, "-") != 0) {
    char *copy = strdup(mut), *tok, *save = NULL;
    for (tok = strtok_r(copy, ",", &save); tok; tok = strtok_r(NULL, ",", &save)) {
      char which[16], what[16]; long v; int64_t n; unsigned char *b; FILE *fp; const char *ext;
      if (sscanf(tok, "%15[^:]:%15[^:]:%ld", which, what, &v) != 3) continue;
      ext = strcmp(which, "stub") == 0 ? "" : strcmp(which, "dsqi") == 0 ? ".dsqi" : strcmp(which, "dsqm") == 0 ? ".dsqm" : ".dsqs";
      snprintf(path, sizeof(path), "%s%s", a.base, ext); b = slurp(path, &n);
      if (! b) continue;
      if (strcmp(what, "trunc") == 0) { if (v < n) n = v; }
      else { long off = atol(what); if (off < n) b[off] ^= (unsigned char) v; }
      fp = fopen(path, "wb"); fwrite(b, 1, n, fp); fclose(fp); free(b);
    }
    free(copy);
  }
  if (expect && strcmp(expect, "none") != 0)
    abc = esl_alphabet_Create(strcmp(expect, "amino") == 0 ? eslAMINO : strcmp(expect, "rna") == 0 ? eslRNA : eslDNA);
  esl_verif_dsqdata_maxseq = (int) h_argi("maxseq", 0); esl_verif_dsqdata_maxpacket = (int) h_argi("maxpacket", 0); esl_verif_dsqdata_unpackers = (int) h_argi("unpackers", 0);
  g_perturb = 0; g_ptrace = 0; g_dd = NULL; memset(&tctx, 0, sizeof(tctx)); tctx.rng = 12345;
  { int had_abc = (abc != NULL);
    st = esl_dsqdata_Open(&abc, a.base, 1, &dd);
    if (st != eslOK) {
      char msg[eslERRBUFSIZE + 1] = "-"; char *q;
      if (dd) {
        if (dd->errbuf[0]) {
          strncpy(msg, dd->errbuf, eslERRBUFSIZE); msg[eslERRBUFSIZE] = 0;
          if (strncmp(msg, "data files use", 14) == 0) msg[14] = 0;
          if (strncmp(msg, "index file has invalid alphabet type", 36) == 0) msg[36] = 0;
          for (q = msg; *q; q++) if (*q == ' ' || *q == '\n') *q = '_';
        }
        if (st == eslEFORMAT || st == eslENOTFOUND) {     /* normal errors: <dd> comes back with its errbuf, files still open */
          if (dd->stubfp) fclose(dd->stubfp);
          if (dd->ifp) fclose(dd->ifp);
          if (dd->mfp) fclose(dd->mfp);
          if (dd->sfp) fclose(dd->sfp);
          free(dd->basename); free(dd);
        }
      }
      h_out("open-%s msg=%s tag=%" PRIu32 " fname=%s", h_status(st), msg, tag, fnhex);
      if (! had_abc) abc = NULL;
    } else {
      ESL_DSQDATA_CHUNK *chu; uint64_t h = 0xcbf29ce484222325ull; int nseq = 0, nch = 0; size_t clen = 0; char *cstr = malloc(64); size_t ccap = 64;
      char hdr[256]; uint32_t filetype = 0;
      /* the alphabet type as the index header states it. For the biosequence alphabets (the only ones esl_dsqdata_Write() produces) the
       * alphabet Open() created must have exactly that type; for the toy alphabets (a corrupted type field 4 / 5) what esl_alphabet_Create()
       * puts into abc->type is esl_alphabet.c's business (create_dice() labels itself eslCOINS), so the header field itself is reported */
      { char ip[320]; FILE *tf; snprintf(ip, sizeof(ip), "%s.dsqi", a.base); if ((tf = fopen(ip, "rb")) != NULL) { if (fseek(tf, 8, SEEK_SET) != 0 || __real_fread(&filetype, 4, 1, tf) != 1) filetype = 0; fclose(tf); } }
      snprintf(hdr, sizeof(hdr), "%" PRIu64 "/%" PRIu64 "/%" PRIu64 "/%" PRIu32 "/%" PRIu32 "/%" PRIu32 "/%" PRIu32 "/%d/%d", dd->nseq, dd->nres, dd->max_seqlen,
               dd->max_namelen, dd->max_acclen, dd->max_desclen, dd->flags, filetype >= 1 && filetype <= 3 ? dd->abc_r->type : (int) filetype, dd->pack5 ? 5 : 2);
      cstr[0] = 0;
      while ((st = esl_dsqdata_Read(dd, &chu)) == eslOK) {
        if (clen + 64 > ccap) { ccap *= 2; cstr = realloc(cstr, ccap); }
        clen += sprintf(cstr + clen, "%s%" PRId64 ":%d:%d", nch ? "," : "", chu->i0, chu->N, chu->pn); nch++;
        for (i = 0; i < chu->N; i++) {
          h = fnv_bytes(h, chu->name[i], strlen(chu->name[i]) + 1); h = fnv_bytes(h, chu->acc[i], strlen(chu->acc[i]) + 1); h = fnv_bytes(h, chu->desc[i], strlen(chu->desc[i]) + 1);
          h = fnv_u64(h, (uint64_t)(int64_t) chu->taxid[i]); h = fnv_u64(h, (uint64_t) chu->L[i]); h = fnv_bytes(h, chu->dsq[i] + 1, chu->L[i]);
          nseq++;
        }
        esl_dsqdata_Recycle(dd, chu);
      }
      esl_dsqdata_Close(dd);
      h_out("open-ok hdr=%s nseq=%d chunks=%s digest=%" PRIu64 " tag=%" PRIu32 " fname=%s", hdr, nseq, nch ? cstr : "-", h, tag, fnhex);
      free(cstr);
    }
  }
  if (abc) esl_alphabet_Destroy(abc);
  esl_verif_dsqdata_maxseq = esl_verif_dsqdata_maxpacket = esl_verif_dsqdata_unpackers = 0;
  free(fnhex);
  db_remove(&a); dbargs_free(&a);
}

/* ---------------------------------------------------------------------------------------------
 * dsqcut: a database whose .dsqi / .dsqm / .dsqs was cut short BEHIND its header (a file system that filled up, an
 * interrupted copy). The loader's short-read branch is `ESL_XEXCEPTION(eslEOD, ...)` -> `ERROR:` -> esl_fatal() -> exit(1):
 * the documented outcome (the comment at the loader's ERROR label) is the death of the whole process, so the run happens
 * in a forked child. The child reports every chunk as it gets it through a pipe; the parent classifies the end:
 *   open-<status>                         Open refused the files (cut inside a header)
 *   cut-ok nseq= chunks= digest=          every Read answered, then eslEOF, Close returned
 *   cut-fatal who=<loader|unpacker> delivered=<chunks the consumer got before the process ended>
 *   fault hang / fault signal:<n> / fault exit:<n>    deadlock (watchdog), crash, sanitizer report
 * exit() called by the library is recognised by an atexit handler registered in the child (it runs before the sanitizer's
 * own exit-time work and leaves with _exit(77)); a sanitizer abort leaves with its own exit code.
 * ------------------------------------------------------------------------------------------- */
#include <sys/wait.h>
#include <signal.h>
#include <fcntl.h>
#include <errno.h>
static void cut_child_atexit(void) { _exit(77); }
static void cut_child_alarm(int sig) { (void) sig; _exit(78); }

static void op_dsqcut(void)
{
  DBARGS a; int st, i; char path[300], errpath[320]; const char *file = h_arg("file") ? h_arg("file") : "dsqs";
  long at = (long) h_argi("at", 0); int pert = (int) h_argi("pert", 0); uint64_t seed = (uint64_t) h_argi("seed", 1);
  int pfd[2]; pid_t pid; int wst = 0; char *out = NULL; size_t olen = 0, ocap = 0; char errtxt[2048]; int64_t en;
  if (access("c12_deadlock_seen", F_OK) == 0) { h_out("fault deadlock-seen-earlier-in-this-run"); return; }   /* one hang per run is enough evidence */
  if (dbargs_parse(&a) != eslOK) { h_out("bad-op"); dbargs_free(&a); return; }
  if ((st = db_write(&a)) != eslOK) { h_out("write-%s", h_status(st)); db_remove(&a); dbargs_free(&a); return; }
  { int64_t n; unsigned char *b; FILE *fp;
    snprintf(path, sizeof(path), "%s.%s", a.base, file); b = slurp(path, &n);
    if (b) { if (at < n) n = at; fp = fopen(path, "wb"); fwrite(b, 1, n, fp); fclose(fp); free(b); } }
  snprintf(errpath, sizeof(errpath), "%s.stderr", a.base);
  fflush(stdout); fflush(stderr);
  if (pipe(pfd) != 0 || (pid = fork()) < 0) { h_out("bad-op fork"); db_remove(&a); dbargs_free(&a); return; }
  if (pid == 0) {
    ESL_ALPHABET *abc = NULL; ESL_DSQDATA *dd = NULL; ESL_DSQDATA_CHUNK *chu; FILE *w; uint64_t h = 0xcbf29ce484222325ull; int nseq = 0, nch = 0;
    int efd = open(errpath, O_CREAT | O_WRONLY | O_TRUNC, 0644);
    close(pfd[0]);
    if (efd >= 0) { dup2(efd, 2); close(efd); }
    w = fdopen(pfd[1], "w");
    atexit(cut_child_atexit);
    signal(SIGALRM, cut_child_alarm); alarm(getenv("C12_WATCHDOG") ? (unsigned) atoi(getenv("C12_WATCHDOG")) : 45);
    esl_verif_dsqdata_maxseq = (int) h_argi("maxseq", 0); esl_verif_dsqdata_maxpacket = (int) h_argi("maxpacket", 0); esl_verif_dsqdata_unpackers = (int) h_argi("unpackers", 0);
    g_perturb = pert; g_ptrace = 0; g_dd = NULL; memset(&tctx, 0, sizeof(tctx)); tctx.rng = seed * 2654435761u + 1;
    st = esl_dsqdata_Open(&abc, a.base, 1, &dd);
    if (st != eslOK) {
      char msg[eslERRBUFSIZE + 1] = "-"; char *q;
      if (dd && dd->errbuf[0]) { strncpy(msg, dd->errbuf, eslERRBUFSIZE); msg[eslERRBUFSIZE] = 0; for (q = msg; *q; q++) if (*q == ' ' || *q == '\n') *q = '_'; }
      fprintf(w, "O %s %s\n", h_status(st), msg); fflush(w); _exit(0);
    }
    while ((st = esl_dsqdata_Read(dd, &chu)) == eslOK) {
      for (i = 0; i < chu->N; i++) {
        h = fnv_bytes(h, chu->name[i], strlen(chu->name[i]) + 1); h = fnv_bytes(h, chu->acc[i], strlen(chu->acc[i]) + 1); h = fnv_bytes(h, chu->desc[i], strlen(chu->desc[i]) + 1);
        h = fnv_u64(h, (uint64_t)(int64_t) chu->taxid[i]); h = fnv_u64(h, (uint64_t) chu->L[i]); h = fnv_bytes(h, chu->dsq[i] + 1, chu->L[i]);
        nseq++;
      }
      fprintf(w, "C %" PRId64 ":%d:%d\n", chu->i0, chu->N, chu->pn); fflush(w); nch++;
      esl_dsqdata_Recycle(dd, chu);
    }
    fprintf(w, "R %s\n", h_status(st)); fflush(w);
    st = esl_dsqdata_Close(dd);
    fprintf(w, "E %s %d %" PRIu64 "\n", h_status(st), nseq, h); fflush(w);
    _exit(0);
  }
  close(pfd[1]);
  { char buf[4096]; ssize_t r;
    while ((r = read(pfd[0], buf, sizeof(buf))) > 0) {
      if (olen + (size_t) r + 1 > ocap) { ocap = 2 * (olen + (size_t) r + 1); out = realloc(out, ocap); }
      memcpy(out + olen, buf, (size_t) r); olen += (size_t) r;
    }
    close(pfd[0]);
    if (! out) out = calloc(1, 1); else out[olen] = 0; }
  while (waitpid(pid, &wst, 0) < 0 && errno == EINTR) ;
  { unsigned char *e = slurp(errpath, &en); errtxt[0] = 0; if (e && en > 0) { if (en > (int64_t) sizeof(errtxt) - 1) en = sizeof(errtxt) - 1; memcpy(errtxt, e, (size_t) en); errtxt[en] = 0; } free(e); remove(errpath); }
  {
    /* parse the child's report */
    char *chunks = malloc(olen + 8), *line, *save = NULL; size_t cl = 0; int nch = 0; char openst[64] = "", readst[32] = "", endst[32] = "", openmsg[300] = "-";
    int nseq = -1; uint64_t dig = 0;
    chunks[0] = 0;
    for (line = strtok_r(out, "\n", &save); line; line = strtok_r(NULL, "\n", &save)) {
      if (line[0] == 'C') { cl += (size_t) sprintf(chunks + cl, "%s%s", nch ? "," : "", line + 2); nch++; }
      else if (line[0] == 'O') sscanf(line + 2, "%63s %256s", openst, openmsg);
      else if (line[0] == 'R') sscanf(line + 2, "%31s", readst);
      else if (line[0] == 'E') sscanf(line + 2, "%31s %d %" SCNu64, endst, &nseq, &dig);
    }
    if (WIFSIGNALED(wst))                                   h_out("fault signal:%d", WTERMSIG(wst));
    else if (WEXITSTATUS(wst) == 78)                      { int fd = open("c12_deadlock_seen", O_CREAT | O_WRONLY, 0644); if (fd >= 0) close(fd);
                                                            h_out("fault hang delivered=%s", nch ? chunks : "-"); }
    else if (WEXITSTATUS(wst) == 77) {
      const char *who = strstr(errtxt, "dsqdata loader thread failed") ? "loader" : strstr(errtxt, "dsqdata unpacker thread failed") ? "unpacker" : "other";
      const char *why = strstr(errtxt, "packet loader: expected") ? "packets" : strstr(errtxt, "metadata loader: expected") ? "metadata" : "-";
      (void) why;
      h_out("cut-fatal who=%s delivered=%s", who, nch ? chunks : "-");
    }
    else if (WEXITSTATUS(wst) != 0)                         h_out("fault exit:%d", WEXITSTATUS(wst));
    else if (openst[0])                                     h_out("open-%s msg=%s", openst, openmsg);
    else if (strcmp(readst, "eof") == 0 && strcmp(endst, "ok") == 0) h_out("cut-ok nseq=%d chunks=%s digest=%" PRIu64, nseq, nch ? chunks : "-", dig);
    else                                                    h_out("cut-odd read=%s close=%s chunks=%s", readst[0] ? readst : "-", endst[0] ? endst : "-", nch ? chunks : "-");
    free(chunks);
  }
  free(out);
  db_remove(&a); dbargs_free(&a);
}

/* ---------------------------------------------------------------------------------------------
 * protocol
 * ------------------------------------------------------------------------------------------- */
#include <signal.h>
#include <fcntl.h>
static void on_alarm(int sig)
{
  int fd = open("c12_deadlock_seen", O_CREAT | O_WRONLY, 0644);
  (void) sig;
  if (fd >= 0) close(fd);
  signal(SIGALRM, SIG_DFL);
  raise(SIGALRM);
}
static void h_case_begin(void) { }
static void h_case_end(void)
{
  if (sq_q) { esl_workqueue_Destroy(sq_q); sq_q = NULL; }
}

static void h_op(void)
{
  const char *op = h_words[0];
  if      (strcmp(op, "pack5") == 0)       op_pack(1);
  else if (strcmp(op, "pack2") == 0)       op_pack(0);
  else if (strcmp(op, "unpack5") == 0)     op_unpack(1);
  else if (strcmp(op, "unpack2") == 0)     op_unpack(0);
  else if (strcmp(op, "rt5") == 0)         op_rt(1);
  else if (strcmp(op, "rt2") == 0)         op_rt(0);
  else if (strcmp(op, "unpackchunk") == 0) op_unpackchunk();
  else if (strcmp(op, "unpacksmem") == 0) op_unpacksmem();
  else if (strcmp(op, "wq") == 0)          op_wq();
  else if (strcmp(op, "thcpu") == 0) {
    /* esl_threads_CPUCount / esl_threads_GetCPUCount: at least one core, both agree, the cached value is stable */
    int n = -7, st = esl_threads_CPUCount(&n), g1 = esl_threads_GetCPUCount(), g2 = esl_threads_GetCPUCount();
    h_out("%s positive=%d get=%d stable=%d", h_status(st), n >= 1, g1 == n, g1 == g2);
  }
  else if (strcmp(op, "dsqwrite") == 0)    op_dsqwrite();
  else if (strcmp(op, "dsqopen") == 0) {
    signal(SIGALRM, on_alarm); alarm(getenv("C12_WATCHDOG") ? (unsigned) atoi(getenv("C12_WATCHDOG")) : 45);
    op_dsqopen();
    alarm(0);
  }
  else if (strcmp(op, "dsqcut") == 0)      op_dsqcut();      /* its forked child carries the watchdog */
  else if (strcmp(op, "wqrun") == 0 || strcmp(op, "dsqrt") == 0 || strcmp(op, "thrun") == 0) {
    /* watchdog: a deadlock becomes a process death ("fault signal:14" for this case). One deadlock per check run is
     * enough evidence: later threaded ops of the same run are answered at once instead of waiting 45 s each. */
    if (access("c12_deadlock_seen", F_OK) == 0) { h_out("fault deadlock-seen-earlier-in-this-run"); return; }
    signal(SIGALRM, on_alarm); alarm(getenv("C12_WATCHDOG") ? (unsigned) atoi(getenv("C12_WATCHDOG")) : 45);
    if (op[0] == 'w') op_wqrun(); else if (op[0] == 't') op_thrun(); else op_dsqrt();
    alarm(0);
  }
  else h_out("bad-op");
  if (h_exception_seen) { /* an ESL_EXCEPTION fired inside the op (already answered by a status) */ }
}

int main(void)
{
  int rc = h_main();
  free(g_trace);
  return rc;
}
