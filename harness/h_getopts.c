/* C14 correspondence harness: esl_getopts.c through its public API.
 *   opt name=H type=N def=H|~ env=H|~ range=H|~ tog=H|~ req=H|~ inc=H|~    add a row to the option table
 *   create                                                                   esl_getopts_Create
 *   cmdline w=H,H,...      (argv[0] first)                                   esl_opt_ProcessCmdline
 *   spoof s=H                                                                esl_opt_ProcessSpoof
 *   env v=NAME:VAL,...     (all table env vars are unset first)              esl_opt_ProcessEnvironment
 *   cfg s=H                (file content)                                    esl_opt_ProcessConfigfile
 *   verify                                                                   esl_opt_VerifyConfig
 *   dump                                                                     every query call + g->valloc[]
 *   reuse                                                                    esl_getopts_Reuse
 *   help grp=N indent=N width=N                                              esl_opt_DisplayHelp into a memory stream (opt rows may carry help=H|~ grp=N)
 *   dumptext                                                                 esl_getopts_Dump into a memory stream
 *   spoofcmd                                                                 esl_opt_SpoofCmdline
 *   defapp nargs=N w=H,H,...                                                 esl_getopts_CreateDefaultApp in a child process: returned / exit0 help / exit1 parse|nargs
 *   realrange r=H v=H                                                        fresh table {--x REAL range r}: ProcessCmdline(prog --x v) status, bits of GetReal
 *   atof s=H                                                                 esl_str_IsReal(s), bit pattern of atof(s)
 * H = lowercase hex, "-" = empty string, "~" = NULL.
 */
#include "hcommon.h"
#include "esl_getopts.h"
#include <unistd.h>
#include <sys/wait.h>
#if defined(__SANITIZE_ADDRESS__)
#include <sanitizer/lsan_interface.h>
#endif

#define MAXOPT 64
static ESL_OPTIONS  T[MAXOPT + 1];
static int          nT;
static ESL_GETOPTS *G;
static void       **arena; static int narena, carena;

static void *keep(void *p)
{
  if (narena == carena) { carena = carena ? 2 * carena : 256; arena = realloc(arena, sizeof(void *) * carena); }
  arena[narena++] = p; return p;
}
static char *field(const char *key)
{
  const char *v = h_arg(key); int64_t n;
  if (v == NULL || strcmp(v, "~") == 0) return NULL;
  return (char *) keep(h_unhex(v, &n));
}
static char *unhex_word(const char *v) { int64_t n; return (char *) keep(h_unhex(v, &n)); }

static void h_case_begin(void) { nT = 0; memset(T, 0, sizeof(T)); G = NULL; }
static void h_case_end(void)
{
  int i;
  for (i = 0; i < nT; i++) if (T[i].envvar) unsetenv(T[i].envvar);
  if (G) esl_getopts_Destroy(G);
  G = NULL;
  for (i = 0; i < narena; i++) free(arena[i]);
  narena = 0; nT = 0;
}

static void report(int status)
{
  h_out("%s %s", h_status(status), (G && G->errbuf[0]) ? "msg" : "nomsg");
}

/* split "a,b,c" (modifies a kept copy); returns count */
static int split_commas(const char *v, char ***ret)
{
  char *dup, *p; char **w; int n = 0, cap = 16;
  w = keep(malloc(sizeof(char *) * cap));
  if (v == NULL || *v == 0) { *ret = w; return 0; }
  dup = keep(strdup(v));
  for (p = dup; ; ) {
    char *q = strchr(p, ',');
    if (q) *q = 0;
    if (n == cap) { char **w2 = keep(malloc(sizeof(char *) * cap * 2)); memcpy(w2, w, sizeof(char *) * n); w = w2; cap *= 2; }
    w[n++] = p;
    if (!q) break;
    p = q + 1;
  }
  *ret = w; return n;
}

static const char *valrepr(const char *v)
{
  if (v == NULL) return "~";
  if (v == (char *) TRUE) return "1";
  return h_hex(v, (int64_t) strlen(v));
}

static void real_canon(double x, char *out)
{
  char b[64]; char *e; long ex; char digs[32]; int nd = 0, i; int neg = 0;
  if (x != x || x - x != 0.0) { strcpy(out, "special"); return; }
  snprintf(b, sizeof(b), "%.14e", x);      /* 15 significant digits: exact for every decimal of <= 15 digits */
  e = strchr(b, 'e'); ex = strtol(e + 1, NULL, 10);
  for (i = 0; b + i < e; i++) { if (b[i] == '-') neg = 1; else if (b[i] >= '0' && b[i] <= '9') digs[nd++] = b[i]; }
  digs[nd] = 0; ex -= (nd - 1);
  while (nd > 1 && digs[nd - 1] == '0') { digs[--nd] = 0; ex++; }
  if (nd == 1 && digs[0] == '0') { strcpy(out, "0"); return; }
  sprintf(out, "%s%se%ld", neg ? "-" : "", digs, ex);
}

static void do_dump(void)
{
  size_t cap = 1 << 16, len = 0; char *buf = malloc(cap); int i, n;
#define APP(...) do { if (len + 4096 > cap) { cap *= 2; buf = realloc(buf, cap); } len += (size_t) snprintf(buf + len, cap - len, __VA_ARGS__); } while (0)
  n = esl_opt_ArgNumber(G);
  APP("ok argn=%d args=", n);
  for (i = 1; i <= n + 1; i++) {          /* one beyond the end must be NULL */
    char *a = esl_opt_GetArg(G, i);
    APP("%s%s", i > 1 ? "," : "", a ? (a[0] ? h_hex(a, (int64_t) strlen(a)) : "-") : "~");
  }
  APP(" a0=%s%s", esl_opt_GetArg(G, 0) ? "x" : "~", esl_opt_GetArg(G, -1) ? "x" : "~");   /* no argument 0 or -1 */
  APP(" opts=");
  for (i = 0; i < nT; i++) {
    char *nm = T[i].name; char typed[96]; int j;
    int on = esl_opt_IsOn(G, nm);
    /* the query calls go by name: with duplicate names (ill-formed table) they all answer for the first option of that
     * name, and a typed getter called on an option of another type is a fatal coding error — so ask by ITS type */
    for (j = 0; j < i; j++) if (strcmp(T[j].name, nm) == 0) break;
    switch (T[j].type) {
    case eslARG_NONE: sprintf(typed, "b%d", esl_opt_GetBoolean(G, nm) ? 1 : 0); break;
    case eslARG_INT:  if (on) sprintf(typed, "i%d", esl_opt_GetInteger(G, nm)); else strcpy(typed, "i~"); break;
    case eslARG_REAL: if (on) { typed[0] = 'x'; real_canon(esl_opt_GetReal(G, nm), typed + 1); } else strcpy(typed, "x~"); break;
    case eslARG_CHAR: if (on) sprintf(typed, "c%d", (int)(unsigned char) esl_opt_GetChar(G, nm)); else strcpy(typed, "c~"); break;
    case eslARG_STRING: case eslARG_INFILE: case eslARG_OUTFILE:
                      { char *s = esl_opt_GetString(G, nm); snprintf(typed, sizeof(typed), "s%d", s ? (int) strlen(s) : -1); } break;
    default:          strcpy(typed, "t?"); break;     /* unknown type code (ill-formed table): no getter applies */
    }
    /* a boolean's stored value is an internal marker (default string or (char*)TRUE): only on/off is observable */
    APP("%s%s/%d/%d%d%d/%s", i ? ";" : "", T[i].type == eslARG_NONE ? (G->val[i] ? "1" : "~") : valrepr(G->val[i]), esl_opt_GetSetter(G, nm),
        esl_opt_IsDefault(G, nm) ? 1 : 0, on ? 1 : 0, esl_opt_IsUsed(G, nm) ? 1 : 0, typed);
  }
  APP(" valloc=");                         /* the allocation layer: size of the block each value owns (0 = none) */
  for (i = 0; i < nT; i++) APP("%s%d", i ? "," : "", G->valloc[i]);
  h_out("%s", buf);
  free(buf);
#undef APP
}

static void h_op(void)
{
  const char *op = h_words[0];
  if (!strcmp(op, "opt")) {
    if (nT >= MAXOPT || G) { h_out("bad-op"); return; }
    T[nT].name          = field("name");
    T[nT].type          = (int) h_argi("type", 0);
    T[nT].defval        = field("def");
    T[nT].envvar        = field("env");
    T[nT].range         = field("range");
    T[nT].toggle_opts   = field("tog");
    T[nT].required_opts = field("req");
    T[nT].incompat_opts = field("inc");
    T[nT].help          = h_arg("help") ? field("help") : "help";
    T[nT].docgrouptag   = (int) h_argi("grp", 0);
    nT++;
    h_out("ok");
    return;
  }
  if (!strcmp(op, "realrange")) {       /* one real-valued option with range r, argument v given on a command line: accepted? */
    ESL_OPTIONS one[2]; ESL_GETOPTS *go; char *av[3]; int st;
    memset(one, 0, sizeof(one));
    one[0].name = "--x"; one[0].type = eslARG_REAL; one[0].range = field("r"); one[0].help = "h";
    av[0] = "prog"; av[1] = "--x"; av[2] = field("v"); if (!av[2]) av[2] = "";
    go = esl_getopts_Create(one);
    if (!go) { h_out("einval"); return; }
    st = esl_opt_ProcessCmdline(go, 3, av);
    if (st == eslOK) h_out("ok bits=%s", h_dbits(esl_opt_GetReal(go, "--x")));
    else h_out("%s %s", h_status(st), go->errbuf[0] ? "msg" : "nomsg");
    esl_getopts_Destroy(go);
    return;
  }
  if (!strcmp(op, "atof")) {            /* the two libc conversions behind real-valued options, on one string (no object needed) */
    char *v = field("s");
    if (!v) v = "";
    h_out("isreal=%d bits=%s", esl_str_IsReal(v) ? 1 : 0, h_dbits(atof(v)));
    return;
  }
  if (!strcmp(op, "defapp")) {          /* esl_getopts_CreateDefaultApp calls exit(): run it in a child, report how it ended */
    char **w; int n = split_commas(h_arg("w"), &w), i; char **argv = keep(malloc(sizeof(char *) * (n + 1)));
    int nargs = (int) h_argi("nargs", -1); int pfd[2]; pid_t pid; int st = 0; char first[128]; size_t have = 0; ssize_t got; char tmp[512];
    for (i = 0; i < n; i++) argv[i] = unhex_word(w[i]);
    argv[n] = NULL;
    if (nT == 0 || n == 0) { h_out("bad-op"); return; }
    fflush(stdout); fflush(stderr);
    if (pipe(pfd) != 0) { h_out("io-error"); return; }
    pid = fork();
    if (pid < 0) { h_out("io-error"); return; }
    if (pid == 0) {
      ESL_GETOPTS *go;
      close(pfd[0]); dup2(pfd[1], 1); close(pfd[1]);
#if defined(__SANITIZE_ADDRESS__)
      __lsan_disable();                 /* the library exits without freeing the object: not this check's business */
#endif
      go = esl_getopts_CreateDefaultApp(T, nargs, n, argv, "test banner", "[-options] <args>");
      printf("RETURNED argn=%d\n", esl_opt_ArgNumber(go));
      fflush(stdout);
      _exit(42);
    }
    close(pfd[1]);
    while ((got = read(pfd[0], tmp, sizeof(tmp))) > 0)
      for (i = 0; i < (int) got; i++) if (have < sizeof(first) - 1) first[have++] = tmp[i];
    first[have] = 0;
    close(pfd[0]);
    waitpid(pid, &st, 0);
    if (WIFEXITED(st) && WEXITSTATUS(st) == 42 && !strncmp(first, "RETURNED argn=", 14)) h_out("returned argn=%d", atoi(first + 14));
    else if (WIFEXITED(st) && WEXITSTATUS(st) == 0) h_out("exit0 %s", strstr(first, "Usage:") || first[0] == '#' ? "help" : "other");
    else if (WIFEXITED(st) && WEXITSTATUS(st) == 1) h_out("exit1 %s", !strncmp(first, "Failed to parse command line", 28) ? "parse" : !strncmp(first, "Incorrect number of command line arguments", 42) ? "nargs" : "other");
    else h_out("fault defapp-child-%s-%d", WIFSIGNALED(st) ? "signal" : "exit", WIFSIGNALED(st) ? WTERMSIG(st) : WEXITSTATUS(st));
    return;
  }
  if (!strcmp(op, "create")) {
    if (G || nT == 0) { h_out("bad-op"); return; }
    G = esl_getopts_Create(T);
    h_out(G ? (G->errbuf[0] ? "ok-errbuf-not-empty" : "ok") : "einval");   /* a fresh object carries no message */
    return;
  }
  if (G == NULL) { h_out("nog"); return; }
  G->errbuf[0] = '\0';
  if (!strcmp(op, "cmdline")) {
    char **w; int n = split_commas(h_arg("w"), &w), i; char **argv = keep(malloc(sizeof(char *) * (n + 1)));
    for (i = 0; i < n; i++) argv[i] = unhex_word(w[i]);
    argv[n] = NULL;
    report(esl_opt_ProcessCmdline(G, n, argv));
  } else if (!strcmp(op, "spoof")) {
    char *s = field("s");
    report(esl_opt_ProcessSpoof(G, s ? s : ""));
  } else if (!strcmp(op, "env")) {
    char **w; int n = split_commas(h_arg("v"), &w), i;
    for (i = 0; i < nT; i++) if (T[i].envvar) unsetenv(T[i].envvar);
    for (i = 0; i < n; i++) {
      char *c = strchr(w[i], ':');
      if (c) { *c = 0; setenv(unhex_word(w[i]), unhex_word(c + 1), 1); }
    }
    report(esl_opt_ProcessEnvironment(G));
  } else if (!strcmp(op, "cfg")) {
    /* the config file is an in-memory stream (no file system involved); an empty file is /dev/null */
    FILE *fp; const char *v = h_arg("s"); int64_t n = 0; unsigned char *b = NULL; int st;
    if (v && strcmp(v, "~")) b = h_unhex(v, &n);
    fp = n ? fmemopen(b, (size_t) n, "r") : fopen("/dev/null", "r");
    if (!fp) { h_out("io-error"); free(b); return; }
    st = esl_opt_ProcessConfigfile(G, "c14.cfg", fp);
    fclose(fp); free(b);
    report(st);
  } else if (!strcmp(op, "verify")) {
    report(esl_opt_VerifyConfig(G));
  } else if (!strcmp(op, "reuse")) {
    { int st; strcpy(G->errbuf, "stale message"); st = esl_getopts_Reuse(G);      /* Reuse must also clear an old message */
      h_out("%s%s", h_status(st), G->errbuf[0] ? "-errbuf-not-empty" : ""); }
  } else if (!strcmp(op, "help")) {
    char *mem = NULL; size_t msz = 0; FILE *fp = open_memstream(&mem, &msz); int st;
    if (!fp) { h_out("io-error"); return; }
    st = esl_opt_DisplayHelp(fp, G, (int) h_argi("grp", 0), (int) h_argi("indent", 0), (int) h_argi("width", 80));
    fclose(fp);
    h_out("%s %s", h_status(st), msz ? h_hex(mem, (int64_t) msz) : "-");
    free(mem);
  } else if (!strcmp(op, "dumptext")) {
    char *mem = NULL; size_t msz = 0; FILE *fp = open_memstream(&mem, &msz);
    if (!fp) { h_out("io-error"); return; }
    esl_getopts_Dump(fp, G);
    fclose(fp);
    h_out("ok %s", msz ? h_hex(mem, (int64_t) msz) : "-");
    free(mem);
  } else if (!strcmp(op, "spoofcmd")) {
    char *cl = NULL; int st = esl_opt_SpoofCmdline(G, &cl);
    h_out("%s %s", h_status(st), cl ? (cl[0] ? h_hex(cl, (int64_t) strlen(cl)) : "-") : "~");
    free(cl);
  } else if (!strcmp(op, "dump")) {
    do_dump();
  } else h_out("bad-op");
}
int main(void) { return h_main(); }
