/* C19 correspondence harness: esl_keyhash.c, esl_heap.c, esl_red_black.c, esl_stack.c, esl_quicksort.c */
/* esl_red_black.c is compiled into the harness (first, so that the linker takes these definitions) with its test-only
 * section enabled: that is the only way to reach the static esl_red_black_doublekey_linked_list_test(). */
#define eslRED_BLACK_TESTDRIVE 1
#define main esl_red_black_utest_main
#include "esl_red_black.c"
#undef main
#include "hcommon.h"
#include "esl_keyhash.h"
#include "esl_heap.h"
#include "esl_red_black.h"
#include "esl_stack.h"
#include "esl_quicksort.h"
#include "esl_random.h"
#include <math.h>

extern int esl_heap_Validate(ESL_HEAP *hp, char *errbuf);

static ESL_KEYHASH *KH, *KH2;
static int RBEXP;   /* tree keys are ldexp(k, RBEXP): a monotone injective map of the protocol's integers into the doubles */
static ESL_HEAP *HP;
static ESL_RED_BLACK_DOUBLEKEY *RB;
/* pool mode: nodes come from esl_red_black_doublekey_pool_Create() blocks (linked through <large>), never freed one by one */
#define H_MAXPOOLS 4096
static ESL_RED_BLACK_DOUBLEKEY *RBPOOLS[H_MAXPOOLS], *RBPOOLNEXT; static int RBNPOOLS, RBPOOLSIZE;
static ESL_STACK *ST; static char STYPE = 'i'; static int STCOND;   /* STCOND: a condition variable is active: Pop on an empty stack would wait */

/* ---- watchdog: a broken implementation may loop for ever (e.g. a cyclic hash chain) or become pathologically slow
 * (e.g. an allocation that doubles at every call). Each case gets a time limit: the process then dies, the engine reports
 * `fault ...` for the case and restarts after it. The seconds spent in timed-out or slow (>= 20 s) cases are added up in a
 * file of the run's private working directory; once they exceed the budget (env C19_TIME_BUDGET, default 600 s) the
 * remaining cases are answered `fault time-limit` at once, so that a broken tree costs a bounded amount of time.
 * On an intact tree the cases of the quick tier take milliseconds (the longest ~0.3 s); the thorough tier's 10^5-operation
 * histories take a few seconds each and get a budget of 3000 s. The limits are deliberately generous (a 40 s limit
 * fired once on an intact tree when the machine ran at load average 80): 240 s per case, below the engine's 300 s batch limit. */
#include <signal.h>
#include <unistd.h>
#include <fcntl.h>
#include <time.h>
#include <sys/stat.h>
#define H_CASE_SECONDS 240
#define H_SLOW_SECONDS 20
#define H_TIMEFILE     "c19.seconds"
static int h_skip_case;
static struct timespec h_t0;
static void h_charge(long seconds)          /* async-signal-safe */
{
  static const char buf[64] = "................................................................";
  int fd = open(H_TIMEFILE, O_WRONLY | O_CREAT | O_APPEND, 0600);
  if (fd < 0) return;
  while (seconds > 0) { long k = seconds > 64 ? 64 : seconds; if (write(fd, buf, (size_t) k) < 0) break; seconds -= k; }
  close(fd);
}
static void h_on_alarm(int sig)
{
  static const char msg[] = "\nhang: case exceeded its time limit (watchdog)\n";
  (void) sig;
  h_charge(H_CASE_SECONDS);
  if (write(2, msg, sizeof(msg) - 1) < 0) { }
  _exit(124);
}
static void h_watchdog_begin(void)
{
  struct stat st; const char *e = getenv("C19_TIME_BUDGET"); long budget = e ? atol(e) : 600;
  h_skip_case = (stat(H_TIMEFILE, &st) == 0 && (long) st.st_size >= budget);
  if (!h_skip_case) { signal(SIGALRM, h_on_alarm); alarm(H_CASE_SECONDS); clock_gettime(CLOCK_MONOTONIC, &h_t0); }
}
static void h_watchdog_end(void)
{
  struct timespec t1;
  alarm(0);
  if (h_skip_case) return;
  clock_gettime(CLOCK_MONOTONIC, &t1);
  { long ms = (long)(t1.tv_sec - h_t0.tv_sec) * 1000 + (long)(t1.tv_nsec - h_t0.tv_nsec) / 1000000;
    if (ms >= 1000 * H_SLOW_SECONDS) h_charge((ms + 500) / 1000); }
}

static uint64_t fnv(uint64_t h, uint64_t x) { return (h ^ x) * 0x100000001b3ULL; }
#define FNV0 0xcbf29ce484222325ULL

static void rb_teardown(void);
static void rp_teardown(void); static int RPPOOL;
static void h_case_begin(void) { h_watchdog_begin(); RBEXP = 0; KH2 = NULL; KH = NULL; HP = NULL; RB = NULL; ST = NULL; if (h_skip_case) return; KH = esl_keyhash_Create(); HP = esl_heap_ICreate(eslHEAP_MIN); RB = NULL; ST = esl_stack_ICreate(); STYPE = 'i'; STCOND = 0; }
static void h_case_end(void)
{
  h_watchdog_end();
  if (KH) esl_keyhash_Destroy(KH); KH = NULL;
  if (KH2) esl_keyhash_Destroy(KH2); KH2 = NULL;
  if (HP) esl_heap_Destroy(HP); HP = NULL;
  rb_teardown(); RBPOOLSIZE = 0;
  rp_teardown(); RPPOOL = 0;
  if (ST) esl_stack_Destroy(ST); ST = NULL;
}

/* growable text buffer for list outputs */
static char *OB; static size_t OBn, OBcap;
static void ob_reset(void) { OBn = 0; if (!OB) { OBcap = 1024; OB = malloc(OBcap); } OB[0] = 0; }
static void ob_add(const char *fmt, ...)
{
  va_list ap; int k;
  if (OBn + 64 > OBcap) { OBcap *= 2; OB = realloc(OB, OBcap); }
  va_start(ap, fmt); k = vsnprintf(OB + OBn, OBcap - OBn, fmt, ap); va_end(ap);
  OBn += (size_t) k;
}
static void ob_int(long long v, int first) { ob_add(first ? "%lld" : ",%lld", v); }

/* parse "a,b,c" or "-" */
static int parse_ints(const char *s, long long **ret)
{
  int n = 0, cap = 16; long long *p = malloc(sizeof(long long) * cap); const char *q = s;
  if (!s || !strcmp(s, "-") || !*s) { *ret = p; return 0; }
  while (*q) {
    char *e; long long v = strtoll(q, &e, 10);
    if (e == q) break;
    if (n == cap) { cap *= 2; p = realloc(p, sizeof(long long) * cap); }
    p[n++] = v; q = e; if (*q == ',') q++;
  }
  *ret = p; return n;
}

/* ---- red-black helpers */
static int rb_badlink;
static void rb_show(ESL_RED_BLACK_DOUBLEKEY *t)
{
  if (!t) { ob_add("."); return; }
  ob_add("(%s%lld ", t->color == ESL_RED_BLACK_COLOR_RED ? "R" : (t->color == ESL_RED_BLACK_COLOR_BLACK ? "B" : "?"), (long long) ldexp(t->key, -RBEXP));
  if (t->small && t->small->parent != t) rb_badlink++;
  if (t->large && t->large->parent != t) rb_badlink++;
  rb_show(t->small); ob_add(" "); rb_show(t->large); ob_add(")");
}
static uint64_t rb_hash(ESL_RED_BLACK_DOUBLEKEY *t, uint64_t h, int *n)
{
  if (!t) return fnv(h, 0);
  (*n)++;
  if (t->small && t->small->parent != t) rb_badlink++;
  if (t->large && t->large->parent != t) rb_badlink++;
  h = fnv(h, t->color == ESL_RED_BLACK_COLOR_RED ? 1 : 2);
  h = fnv(h, (uint64_t)(int64_t) ldexp(t->key, -RBEXP));
  h = rb_hash(t->small, h, n);
  return rb_hash(t->large, h, n);
}
static int rb_count(ESL_RED_BLACK_DOUBLEKEY *t) { return t ? 1 + rb_count(t->small) + rb_count(t->large) : 0; }

static void rb_free_contents(ESL_RED_BLACK_DOUBLEKEY *t) { if (t) { rb_free_contents(t->small); rb_free_contents(t->large); free(t->contents); t->contents = NULL; } }
static void rb_teardown(void)
{
  int i;
  if (RBPOOLSIZE > 0) { rb_free_contents(RB); for (i = 0; i < RBNPOOLS; i++) free(RBPOOLS[i]); RBNPOOLS = 0; RBPOOLNEXT = NULL; }
  else if (RB) esl_red_black_doublekey_Destroy(RB);
  RB = NULL;
}
static ESL_RED_BLACK_DOUBLEKEY *rb_newnode(void)
{
  ESL_RED_BLACK_DOUBLEKEY *n;
  if (RBPOOLSIZE <= 0) return esl_red_black_doublekey_Create();
  if (RBPOOLNEXT == NULL) {
    if (RBNPOOLS == H_MAXPOOLS) return NULL;
    RBPOOLNEXT = RBPOOLS[RBNPOOLS++] = esl_red_black_doublekey_pool_Create(RBPOOLSIZE);
    if (RBPOOLNEXT == NULL) return NULL;
  }
  n = RBPOOLNEXT; RBPOOLNEXT = n->large;     /* take the head of the free list */
  return n;
}


/* ---- pointer-level red-black ops (rp_*): every record has an id = its index in the model's store */
struct rpc { int64_t key; int id; };
static ESL_RED_BLACK_DOUBLEKEY *RP, *RPFREE, *RPHEAD, *RPTAIL, *RPCURBLOCK;
static ESL_RED_BLACK_DOUBLEKEY **RPNODE;   /* id -> record */
static char *RPIN;                          /* id -> linked into the tree */
static int RPNEXTID, RPCAP, RPLIST, RPCURBASE;
static ESL_RED_BLACK_DOUBLEKEY **RPBLOCKS; static int RPNBLOCKS, RPBLOCKCAP;
static int *RPPUSHED; static int RPNPUSHED, RPPUSHCAP;
static void rp_reserve(int n)
{
  if (n <= RPCAP) return;
  { int c = RPCAP ? RPCAP : 64; while (c < n) c *= 2;
    RPNODE = realloc(RPNODE, sizeof(*RPNODE) * (size_t) c); RPIN = realloc(RPIN, (size_t) c);
    memset(RPNODE + RPCAP, 0, sizeof(*RPNODE) * (size_t)(c - RPCAP)); memset(RPIN + RPCAP, 0, (size_t)(c - RPCAP)); RPCAP = c; }
}
static void rp_teardown(void)
{
  int i;
  for (i = 0; i < RPNEXTID; i++) if (RPIN && RPIN[i] && RPNODE[i]) { free(RPNODE[i]->contents); RPNODE[i]->contents = NULL; if (RPPOOL <= 0) free(RPNODE[i]); }
  for (i = 0; i < RPNBLOCKS; i++) free(RPBLOCKS[i]);
  RPNBLOCKS = 0; RPNPUSHED = 0; RPNEXTID = 0; RP = RPFREE = RPHEAD = RPTAIL = RPCURBLOCK = NULL; RPLIST = 0; RPCURBASE = 0;
  if (RPIN) memset(RPIN, 0, (size_t) RPCAP);
}
static int rp_id(ESL_RED_BLACK_DOUBLEKEY *p) { return p && p->contents ? ((struct rpc *) p->contents)->id : -2; }
static void rp_ptr(ESL_RED_BLACK_DOUBLEKEY *p) { if (p == NULL) ob_add("-"); else ob_add("%d", rp_id(p)); }
/* a record for the next insertion, and its id */
static ESL_RED_BLACK_DOUBLEKEY *rp_take(int *ret_id)
{
  ESL_RED_BLACK_DOUBLEKEY *n;
  if (RPPOOL <= 0) { n = esl_red_black_doublekey_Create(); *ret_id = RPNEXTID++; rp_reserve(RPNEXTID); return n; }
  if (RPFREE == NULL) {
    RPFREE = esl_red_black_doublekey_pool_Create(RPPOOL);
    if (RPFREE == NULL) return NULL;
    if (RPNBLOCKS == RPBLOCKCAP) { RPBLOCKCAP = RPBLOCKCAP ? 2 * RPBLOCKCAP : 16; RPBLOCKS = realloc(RPBLOCKS, sizeof(*RPBLOCKS) * (size_t) RPBLOCKCAP); }
    RPBLOCKS[RPNBLOCKS++] = RPFREE; RPCURBLOCK = RPFREE; RPCURBASE = RPNEXTID; RPNEXTID += RPPOOL; rp_reserve(RPNEXTID);
  }
  n = RPFREE; RPFREE = n->large;
  if (RPNPUSHED > 0) *ret_id = RPPUSHED[--RPNPUSHED];              /* a record given back after a duplicate */
  else               *ret_id = RPCURBASE + (int)(n - RPCURBLOCK);  /* a fresh record of the current block   */
  return n;
}

/* ---- stack helpers */
struct dparam { const char *mode; long long p; };
static int pred(long long x, struct dparam *d)
{
  if (!strcmp(d->mode, "even")) return (x & 1) == 0;
  if (!strcmp(d->mode, "lt"))   return x < d->p;
  if (!strcmp(d->mode, "eq"))   return x == d->p;
  if (!strcmp(d->mode, "all"))  return 1;
  return 0;
}
static int discard_i(void *e, void *param) { return pred(*(int *) e, param); }
static int discard_c(void *e, void *param) { return pred((unsigned char) *(char *) e, param); }
static int discard_p(void *e, void *param) { return pred((long long)(intptr_t) e, param); }
static long long st_elem(int i)
{
  if (STYPE == 'i') return ST->idata[i];
  if (STYPE == 'c') return (unsigned char) ST->cdata[i];
  return (long long)(intptr_t) ST->pdata[i];
}
static int st_push(long long v)
{
  if (STYPE == 'i') return esl_stack_IPush(ST, (int) v);
  if (STYPE == 'c') return esl_stack_CPush(ST, (char) v);
  return esl_stack_PPush(ST, (void *)(intptr_t) v);
}
static int st_pop(long long *v)
{
  int s;
  if (STYPE == 'i') { int x; s = esl_stack_IPop(ST, &x); *v = x; }
  else if (STYPE == 'c') { char c; s = esl_stack_CPop(ST, &c); *v = (unsigned char) c; }
  else { void *p; s = esl_stack_PPop(ST, &p); *v = (long long)(intptr_t) p; }
  return s;
}


/* ---- multi-threaded use of a stack (esl_stack_UseMutex + UseCond + ReleaseCond): pushers and poppers run concurrently */
#ifdef HAVE_PTHREAD
#include <pthread.h>
#include <sched.h>
struct thr_push { ESL_STACK *s; char t; long long *v; int n; int stride; int start; int bad; };
struct thr_pop  { ESL_STACK *s; char t; long long *got; int ngot; int cap; int eods; int early; int bad; };
static int thr_released;   /* set by the main thread just before it calls esl_stack_ReleaseCond(): an eslEOD seen earlier came while do_cond was still set */
static void *thr_pusher(void *arg)
{
  struct thr_push *a = arg; int i, st;
  for (i = a->start; i < a->n; i += a->stride) {
    if      (a->t == 'i') st = esl_stack_IPush(a->s, (int) a->v[i]);
    else if (a->t == 'c') st = esl_stack_CPush(a->s, (char) a->v[i]);
    else                  st = esl_stack_PPush(a->s, (void *)(intptr_t) a->v[i]);
    if (st != eslOK) a->bad++;
    if ((i & 7) == 0) sched_yield();
  }
  return NULL;
}
static void *thr_popper(void *arg)
{
  struct thr_pop *a = arg; int st; long long v;
  for (;;) {
    if      (a->t == 'i') { int x;   st = esl_stack_IPop(a->s, &x); v = x; }
    else if (a->t == 'c') { char c;  st = esl_stack_CPop(a->s, &c); v = (unsigned char) c; }
    else                  { void *q; st = esl_stack_PPop(a->s, &q); v = (long long)(intptr_t) q; }
    if (st == eslEOD) { if (!__atomic_load_n(&thr_released, __ATOMIC_SEQ_CST)) a->early++; a->eods++; break; }
    if (st != eslOK)  { a->bad++;  break; }
    if (a->ngot < a->cap) a->got[a->ngot] = v;
    a->ngot++;
  }
  return NULL;
}
static int cmp_ll(const void *x, const void *y) { long long a = *(const long long *) x, b = *(const long long *) y; return a < b ? -1 : (a > b); }
#endif

/* ---- quicksort comparison */
struct qdata { long long *x; int mode; };   /* 0 asc, 1 desc, 2 coarse (x/8, floor) */
static long long fdiv8(long long v) { return v >= 0 ? v / 8 : -((-v + 7) / 8); }
static int qcmp(const void *data, int o1, int o2)
{
  const struct qdata *q = data;
  long long a = q->x[o1], b = q->x[o2];
  if (q->mode == 2) { a = fdiv8(a); b = fdiv8(b); }
  if (q->mode == 1) return a > b ? -1 : (a < b ? 1 : 0);
  return a < b ? -1 : (a > b ? 1 : 0);
}

static void h_op(void)
{
  const char *op = h_words[0];
  if (h_skip_case) { h_out("fault time-limit"); return; }
  /* ------------------------------------------------ keyhash */
  if (!strcmp(op, "kh_new")) {
    if (KH) esl_keyhash_Destroy(KH);
    KH = esl_keyhash_CreateCustom((uint32_t) h_argu("size", 128), (int) h_argi("kalloc", 128), (int) h_argi("salloc", 2048));
    h_out(KH ? "ok" : "emem");
  } else if (!strcmp(op, "kh_default")) {
    if (KH) esl_keyhash_Destroy(KH);
    KH = esl_keyhash_Create();
    h_out(KH ? "ok" : "emem");
  } else if (!strcmp(op, "store") || !strcmp(op, "lookup")) {
    int64_t n; unsigned char *k = h_unhex(h_arg("key"), &n); int idx = -7, st;
    int str = (int) h_argi("str", 0);
    if (!strcmp(op, "store")) st = esl_keyhash_Store (KH, (char *) k, str ? -1 : (esl_pos_t) n, &idx);
    else                       st = esl_keyhash_Lookup(KH, (char *) k, str ? -1 : (esl_pos_t) n, &idx);
    h_out("%s %d", h_status(st), idx);
    free(k);
  } else if (!strcmp(op, "get")) {
    char *k = esl_keyhash_Get(KH, (int) h_argi("i", 0));
    h_out("ok %s", h_hex(k, (int64_t) strlen(k)));
  } else if (!strcmp(op, "getall")) {
    int i, n = esl_keyhash_GetNumber(KH); uint64_t h = FNV0;
    for (i = 0; i < n; i++) {
      char *k = esl_keyhash_Get(KH, i); size_t L = strlen(k), j;
      h = fnv(h, (uint64_t) L);
      for (j = 0; j < L; j++) h = fnv(h, (unsigned char) k[j]);
    }
    h_out("ok n=%d h=%016" PRIx64, n, h);
  } else if (!strcmp(op, "num")) {
    h_out("ok %d", esl_keyhash_GetNumber(KH));
  } else if (!strcmp(op, "kh_reuse")) {
    h_out("%s", h_status(esl_keyhash_Reuse(KH)));
  } else if (!strcmp(op, "kh_clone")) {
    ESL_KEYHASH *nw = esl_keyhash_Clone(KH);
    if (!nw) { h_out("emem"); return; }
    if (KH2) esl_keyhash_Destroy(KH2);    /* a clone sharing memory with its original dies here under ASan */
    KH2 = nw;                             /* the clone goes to the second slot; `kh_swap` makes it current */
    h_out("ok");
  } else if (!strcmp(op, "kh_swap")) {
    ESL_KEYHASH *t = KH; 
    if (KH2 == NULL) { h_out("bad-op"); return; }
    KH = KH2; KH2 = t;
    h_out("ok");
  } else if (!strcmp(op, "kh_dump")) {
    /* esl_keyhash_Dump() to a memory stream; the numbers it prints, and esl_keyhash_Sizeof() minus the struct */
    char *buf = NULL; size_t len = 0; FILE *fp = open_memstream(&buf, &len);
    long long v[10]; int nv = 0; char *q;
    esl_keyhash_Dump(fp, KH); fclose(fp);
    for (q = buf; q && *q && nv < 10; ) {                 /* one number per line, after the colon (line 3 is a float) */
      char *colon = strchr(q, ':'), *nl = strchr(q, '\n');
      if (!colon) break;
      v[nv++] = strtoll(colon + 1, NULL, 10);
      if (!nl) break;
      q = nl + 1;
    }
    if (nv != 10) h_out("unparsable");
    else if (v[9] != (long long)(int) esl_keyhash_Sizeof(KH)) h_out("sizeof-mismatch");
    else h_out("ok nkeys=%lld sn=%lld hashsize=%lld nempty=%lld max=%lld min=%lld kalloc=%lld salloc=%lld size=%lld",
               v[0], v[8], v[1], v[3], v[4], v[5], v[6], v[7], (long long) esl_keyhash_Sizeof(KH) - (long long) sizeof(ESL_KEYHASH));
    free(buf);
  } else if (!strcmp(op, "kh_sizes")) {
    h_out("ok hashsize=%u kalloc=%d salloc=%d sn=%d", KH->hashsize, KH->kalloc, KH->salloc, KH->sn);
  } else if (!strcmp(op, "kh_slots")) {
    /* the raw state of hashtable[] and the nxt[] chains, read directly (not through esl_keyhash_Dump): non-empty slots, records
     * on all chains together, chain pointers outside [0,nkeys), chains longer than nkeys (a cycle). After esl_keyhash_Reuse()
     * every slot must be -1 at ANY fill. Mirrors Keyhash.slotStats of the model. */
    long used = 0, chained = 0, bad = 0, cyc = 0; uint32_t hh;
    for (hh = 0; hh < KH->hashsize; hh++) {
      int idx = KH->hashtable[hh]; long fuel = KH->nkeys;
      if (idx == -1) continue;
      used++;
      while (idx != -1) {
        if (fuel == 0) { cyc++; break; }
        fuel--;
        if (idx < 0 || idx >= KH->nkeys) { bad++; break; }
        idx = KH->nxt[idx]; chained++;
      }
    }
    h_out("ok slots nkeys=%d hashsize=%u used=%ld chained=%ld bad=%ld cyc=%ld", KH->nkeys, KH->hashsize, used, chained, bad, cyc);
  }
  /* ------------------------------------------------ heap */
  else if (!strcmp(op, "heap_new")) {
    if (HP) esl_heap_Destroy(HP);
    HP = esl_heap_ICreate(h_argi("max", 0) ? eslHEAP_MAX : eslHEAP_MIN);
    h_out(HP ? "ok" : "emem");
  } else if (!strcmp(op, "hins")) {
    long long *v; int n = parse_ints(h_arg("v"), &v), i, st = eslOK;
    for (i = 0; i < n && st == eslOK; i++) st = esl_heap_IInsert(HP, (int) v[i]);
    free(v);
    if (st == eslOK) h_out("ok %d", esl_heap_GetCount(HP)); else h_out("%s", h_status(st));
  } else if (!strcmp(op, "hext")) {
    int v = -7; int st = esl_heap_IExtractTop(HP, &v);
    h_out("%s %d", h_status(st), v);
  } else if (!strcmp(op, "hpop")) {          /* "to simply delete the topmost value, pass NULL for opt_val" */
    int st = esl_heap_IExtractTop(HP, NULL);
    h_out("%s %d", h_status(st), esl_heap_GetCount(HP));
  } else if (!strcmp(op, "hdrain")) {
    int v, first = 1; ob_reset();
    while (esl_heap_IExtractTop(HP, &v) == eslOK) { ob_int(v, first); first = 0; }
    h_out("ok %s", first ? "-" : OB);
  } else if (!strcmp(op, "htop")) {
    h_out("ok %d", esl_heap_IGetTopVal(HP));
  } else if (!strcmp(op, "hcount")) {
    h_out("ok %d", esl_heap_GetCount(HP));
  } else if (!strcmp(op, "hreuse")) {
    h_out("%s", h_status(esl_heap_Reuse(HP)));
  } else if (!strcmp(op, "hvalidate")) {
    char errbuf[eslERRBUFSIZE];
    h_out("%s", h_status(esl_heap_Validate(HP, errbuf)));
  } else if (!strcmp(op, "hdump")) {
    int i; ob_reset();
    for (i = 0; i < HP->n; i++) ob_int(HP->idata[i], i == 0);
    h_out("ok %s", HP->n ? OB : "-");
  }
  /* ------------------------------------------------ red-black tree */
  else if (!strcmp(op, "rb_new")) {
    rb_teardown();
    RBEXP = (int) h_argi("exp", 0); RBPOOLSIZE = (int) h_argi("pool", 0); h_out("ok");
  } else if (!strcmp(op, "rb_ins")) {
    long long *v; int n = parse_ints(h_arg("k"), &v), i; ob_reset();
    for (i = 0; i < n; i++) {
      ESL_RED_BLACK_DOUBLEKEY *node = rb_newnode(), *t;
      int64_t *c = malloc(sizeof(int64_t)); *c = v[i];
      if (node == NULL) { free(c); ob_add("E"); continue; }
      if (node->contents != NULL || node->parent != NULL || node->small != NULL) ob_add("U");   /* constructor left a field set */
      node->contents = c; node->key = ldexp((double) v[i], RBEXP);
      t = esl_red_black_doublekey_insert(RB, node);
      if (t == NULL) { free(c); node->contents = NULL; if (RBPOOLSIZE <= 0) free(node); else { node->large = RBPOOLNEXT; RBPOOLNEXT = node; } ob_add("d"); }
      else { RB = t; ob_add("i"); }
    }
    free(v);
    h_out("ok %s", OB);
  } else if (!strcmp(op, "rb_dump")) {
    ob_reset(); rb_badlink = 0;
    if (RB && RB->parent != NULL) rb_badlink++;
    rb_show(RB);
    if (rb_badlink) h_out("badlink %s", OB); else h_out("ok %s", OB);
  } else if (!strcmp(op, "rb_hash")) {
    int n = 0; uint64_t h; rb_badlink = 0;
    if (RB && RB->parent != NULL) rb_badlink++;
    h = rb_hash(RB, FNV0, &n);
    if (rb_badlink) h_out("badlink n=%d", n); else h_out("ok n=%d h=%016" PRIx64, n, h);
  } else if (!strcmp(op, "rb_lookup")) {
    long long *v; int n = parse_ints(h_arg("k"), &v), i; ob_reset();
    for (i = 0; i < n; i++) {
      int64_t *c = esl_red_black_doublekey_lookup(RB, ldexp((double) v[i], RBEXP));
      ob_add(c == NULL ? "n" : (*c == v[i] ? "y" : "X"));
    }
    free(v);
    h_out("ok %s", OB);
  } else if (!strcmp(op, "rb_list")) {
    ESL_RED_BLACK_DOUBLEKEY *head = NULL, *tail = NULL, *p;
    int total = rb_count(RB), k;
    int st = esl_red_black_doublekey_convert_to_sorted_linked(RB, &head, &tail);
    if (st != eslOK) { h_out("%s", h_status(st)); return; }
    ob_reset(); ob_add("ok desc=");
    for (p = head, k = 0; p != NULL && k <= total; p = p->small, k++) ob_int((long long) ldexp(p->key, -RBEXP), k == 0);
    if (k == 0) ob_add("-");
    if (k > total) ob_add(",cycle");
    ob_add(" asc=");
    for (p = tail, k = 0; p != NULL && k <= total; p = p->large, k++) ob_int((long long) ldexp(p->key, -RBEXP), k == 0);
    if (k == 0) ob_add("-");
    if (k > total) ob_add(",cycle");
    h_out("%s", OB);
    if (RBPOOLSIZE > 0) { for (p = head, k = 0; p != NULL && k <= total; p = p->small, k++) { free(p->contents); p->contents = NULL; } RB = NULL; rb_teardown(); }
    else esl_red_black_doublekey_linked_list_Destroy(head, tail);
    RB = NULL;
  }
  /* ------------------------------------------------ red-black tree, pointer level */
  else if (!strcmp(op, "rp_new")) {
    rp_teardown(); RPPOOL = (int) h_argi("pool", 0); h_out("ok");
  } else if (!strcmp(op, "rp_ins")) {
    long long *v; int n, i;
    if (RPLIST) { h_out("bad-op"); return; }
    n = parse_ints(h_arg("k"), &v); ob_reset(); ob_add("ok ");
    for (i = 0; i < n; i++) {
      int id; ESL_RED_BLACK_DOUBLEKEY *node = rp_take(&id), *t; struct rpc *c;
      if (node == NULL) { ob_add(i ? ",E" : "E"); continue; }
      c = malloc(sizeof(*c)); c->key = v[i]; c->id = id;
      node->contents = c; node->key = (double) v[i]; RPNODE[id] = node;
      t = esl_red_black_doublekey_insert(RP, node);
      if (t == NULL) {
        ob_add(i ? ",d%d" : "d%d", id); free(c); node->contents = NULL; RPNODE[id] = NULL;
        if (RPPOOL <= 0) free(node);
        else { node->large = RPFREE; RPFREE = node;
               if (RPNPUSHED == RPPUSHCAP) { RPPUSHCAP = RPPUSHCAP ? 2 * RPPUSHCAP : 16; RPPUSHED = realloc(RPPUSHED, sizeof(int) * (size_t) RPPUSHCAP); }
               RPPUSHED[RPNPUSHED++] = id; }
      } else { RP = t; RPIN[id] = 1; ob_add(i ? ",i%d" : "i%d", id); }
    }
    if (n == 0) ob_add("-");
    free(v);
    ob_add(" root="); rp_ptr(RP);
    h_out("%s", OB);
  } else if (!strcmp(op, "rp_nodes") || !strcmp(op, "rp_hash")) {
    int i, cnt = 0, full = !strcmp(op, "rp_nodes"); uint64_t h = FNV0;
    for (i = 0; i < RPNEXTID; i++) if (RPIN[i]) cnt++;
    ob_reset(); ob_add("ok root="); rp_ptr(RP); ob_add(" n=%d", cnt);
    for (i = 0; i < RPNEXTID; i++) if (RPIN[i]) {
      ESL_RED_BLACK_DOUBLEKEY *p = RPNODE[i];
      if (full) {
        ob_add(" %d:%lld:%s:", i, (long long) p->key, p->color == ESL_RED_BLACK_COLOR_RED ? "R" : (p->color == ESL_RED_BLACK_COLOR_BLACK ? "B" : "?"));
        rp_ptr(p->parent); ob_add(":"); rp_ptr(p->small); ob_add(":"); rp_ptr(p->large);
      } else {
        h = fnv(h, (uint64_t) i); h = fnv(h, (uint64_t)(int64_t) p->key); h = fnv(h, p->color == ESL_RED_BLACK_COLOR_RED ? 1 : 2);
        h = fnv(h, p->parent ? (uint64_t)(rp_id(p->parent) + 1) : 0); h = fnv(h, p->small ? (uint64_t)(rp_id(p->small) + 1) : 0);
        h = fnv(h, p->large ? (uint64_t)(rp_id(p->large) + 1) : 0);
      }
    }
    if (!full) ob_add(" h=%016" PRIx64, h);
    h_out("%s", OB);
  } else if (!strcmp(op, "rp_lookup")) {
    long long *v; int n, i;
    if (RPLIST) { h_out("bad-op"); return; }
    n = parse_ints(h_arg("k"), &v); ob_reset(); ob_add("ok ");
    for (i = 0; i < n; i++) {
      struct rpc *c = esl_red_black_doublekey_lookup(RP, (double) v[i]);
      if (c == NULL) ob_add(i ? ",-" : "-"); else ob_add(i ? ",%d" : "%d", c->id);
    }
    if (n == 0) ob_add("-");
    free(v);
    h_out("%s", OB);
  } else if (!strcmp(op, "rp_pool")) {
    /* the free list: fresh records of the current block carry no id yet: computed from their position */
    ESL_RED_BLACK_DOUBLEKEY *p; int k = 0, npush = RPNPUSHED;
    ob_reset(); ob_add("ok free=");
    for (p = RPFREE; p != NULL && k <= RPNEXTID; p = p->large, k++) {
      int id = npush > 0 ? RPPUSHED[--npush] : RPCURBASE + (int)(p - RPCURBLOCK);
      ob_int(id, k == 0);
    }
    if (k == 0) ob_add("-");
    h_out("%s", OB);
  } else if (!strcmp(op, "rp_convert")) {
    int st;
    if (RPLIST) { h_out("bad-op"); return; }
    st = esl_red_black_doublekey_convert_to_sorted_linked(RP, &RPHEAD, &RPTAIL);
    if (st != eslOK) { h_out("%s", h_status(st)); return; }
    RP = NULL; RPLIST = 1;
    ob_reset(); ob_add("ok head="); rp_ptr(RPHEAD); ob_add(" tail="); rp_ptr(RPTAIL);
    h_out("%s", OB);
  } else if (!strcmp(op, "rp_ltest")) {
    if (!RPLIST) { h_out("bad-op"); return; }
    h_out("%s", h_status(esl_red_black_doublekey_linked_list_test(&RPHEAD, &RPTAIL)));
  } else if (!strcmp(op, "rp_walk")) {
    ESL_RED_BLACK_DOUBLEKEY *p; int k;
    if (!RPLIST) { h_out("bad-op"); return; }
    ob_reset(); ob_add("ok desc=");
    for (p = RPHEAD, k = 0; p != NULL && k <= RPNEXTID; p = p->small, k++) ob_int(rp_id(p), k == 0);
    if (k == 0) ob_add("-");
    ob_add(" asc=");
    for (p = RPTAIL, k = 0; p != NULL && k <= RPNEXTID; p = p->large, k++) ob_int(rp_id(p), k == 0);
    if (k == 0) ob_add("-");
    h_out("%s", OB);
  }
  /* ------------------------------------------------ stacks */
  else if (!strcmp(op, "st_new")) {
    const char *t = h_arg("t");
    if (ST) esl_stack_Destroy(ST);
    STYPE = t ? t[0] : 'i';
    ST = STYPE == 'i' ? esl_stack_ICreate() : (STYPE == 'c' ? esl_stack_CCreate() : esl_stack_PCreate());
    STCOND = 0;
    if (!ST) { h_out("emem"); return; }
#ifdef HAVE_PTHREAD
    /* the thread-communication mode used single-threaded: every operation takes and must release the mutex
     * (a forgotten unlock blocks the next operation: caught by the watchdog), pushes signal the condition */
    if (h_argi("mutex", 0)) { int st = esl_stack_UseMutex(ST); if (st != eslOK) { h_out("%s", h_status(st)); return; } }
    if (h_argi("cond", 0))  { int st = esl_stack_UseCond(ST);  if (st != eslOK) { h_out("%s", h_status(st)); return; } STCOND = 1; }
#endif
    h_out("ok");
  } else if (!strcmp(op, "st_release")) {
#ifdef HAVE_PTHREAD
    int st = ST ? esl_stack_ReleaseCond(ST) : eslESYS;
    if (st == eslOK) STCOND = 0;
    h_out("%s", h_status(st));
#else
    h_out("ok");
#endif
  } else if (ST == NULL && (!strcmp(op, "push") || !strcmp(op, "pop") || !strcmp(op, "popall") || !strcmp(op, "count") || !strcmp(op, "st_reuse")
                            || !strcmp(op, "st_dump") || !strcmp(op, "discardtop") || !strcmp(op, "discardsel") || !strcmp(op, "shuffle") || !strcmp(op, "tostring"))) {
    h_out("bad-op");
  } else if (!strcmp(op, "push")) {
    long long *v; int n = parse_ints(h_arg("v"), &v), i, st = eslOK;
    for (i = 0; i < n && st == eslOK; i++) st = st_push(v[i]);
    free(v);
    if (st == eslOK) h_out("ok %d", esl_stack_ObjectCount(ST)); else h_out("%s", h_status(st));
  } else if (!strcmp(op, "pop")) {
    long long v; int st;
    if (STCOND && esl_stack_ObjectCount(ST) == 0) { h_out("bad-op"); return; }   /* would wait for a pusher for ever */
    st = st_pop(&v);
    h_out("%s %lld", h_status(st), v);
  } else if (!strcmp(op, "popall")) {
    long long v; int first = 1; ob_reset();
    while (esl_stack_ObjectCount(ST) > 0 && st_pop(&v) == eslOK) { ob_int(v, first); first = 0; }
    h_out("ok %s", first ? "-" : OB);
  } else if (!strcmp(op, "count")) {
    h_out("ok %d", esl_stack_ObjectCount(ST));
  } else if (!strcmp(op, "st_reuse")) {
    h_out("%s", h_status(esl_stack_Reuse(ST)));
  } else if (!strcmp(op, "st_dump")) {
    int i; ob_reset();
    for (i = 0; i < ST->n; i++) ob_int(st_elem(i), i == 0);
    h_out("ok %s", ST->n ? OB : "-");
  } else if (!strcmp(op, "discardtop")) {
    int st = esl_stack_DiscardTopN(ST, (int) h_argi("n", 0));
    if (st == eslOK) h_out("ok %d", esl_stack_ObjectCount(ST)); else h_out("%s", h_status(st));
  } else if (!strcmp(op, "discardsel")) {
    struct dparam d; int st;
    d.mode = h_arg("mode") ? h_arg("mode") : "even"; d.p = h_argi("p", 0);
    st = esl_stack_DiscardSelected(ST, STYPE == 'i' ? discard_i : (STYPE == 'c' ? discard_c : discard_p), &d);
    if (st == eslOK) h_out("ok %d", esl_stack_ObjectCount(ST)); else h_out("%s", h_status(st));
  } else if (!strcmp(op, "shuffle")) {
    ESL_RANDOMNESS *r = esl_randomness_Create((uint32_t) h_argu("seed", 1));
    int st = esl_stack_Shuffle(r, ST);
    esl_randomness_Destroy(r);
    h_out("%s", h_status(st));
  } else if (!strcmp(op, "tostring")) {
    char *str;
    if (STYPE != 'c') { h_out("bad-op"); return; }
    str = esl_stack_Convert2String(ST); ST = NULL;
    if (!str) { h_out("emem"); return; }
    h_out("ok %s", h_hex(str, (int64_t) strlen(str)));
    free(str);
    ST = esl_stack_ICreate(); STYPE = 'i'; STCOND = 0;
  }
  else if (!strcmp(op, "st_threads")) {
#ifdef HAVE_PTHREAD
    /* P pusher threads share the values round-robin, Q popper threads pop until eslEOD; the main thread joins the pushers,
     * calls esl_stack_ReleaseCond() and joins the poppers. Whatever the scheduler did: the popped values are exactly the
     * pushed ones (reported sorted), nothing is left, every popper saw exactly one eslEOD. */
    const char *t = h_arg("t"); char ty = t ? t[0] : 'i';
    int P = (int) h_argi("pushers", 1), Q = (int) h_argi("poppers", 1), popfirst = (int) h_argi("popfirst", 0);
    long long *v; int n = parse_ints(h_arg("v"), &v), i, j, bad = 0, tot = 0, eods = 0, early = 0, left, st;
    ESL_STACK *s = ty == 'i' ? esl_stack_ICreate() : (ty == 'c' ? esl_stack_CCreate() : esl_stack_PCreate());
    pthread_t *tp, *tq; struct thr_push *ap; struct thr_pop *aq; long long *all;
    if (P < 1 || P > 16 || Q < 1 || Q > 16 || !s) { free(v); if (s) esl_stack_Destroy(s); h_out("bad-op"); return; }
    tp = malloc(sizeof(*tp) * (size_t) P); tq = malloc(sizeof(*tq) * (size_t) Q);
    ap = calloc((size_t) P, sizeof(*ap)); aq = calloc((size_t) Q, sizeof(*aq)); all = malloc(sizeof(long long) * (size_t)(n + 1));
    __atomic_store_n(&thr_released, 0, __ATOMIC_SEQ_CST);
    if (esl_stack_UseMutex(s) != eslOK) bad++;
    if (esl_stack_UseCond(s)  != eslOK) bad++;
    for (j = 0; j < Q; j++) { aq[j].s = s; aq[j].t = ty; aq[j].cap = n; aq[j].got = malloc(sizeof(long long) * (size_t)(n + 1)); }
    for (i = 0; i < P; i++) { ap[i].s = s; ap[i].t = ty; ap[i].v = v; ap[i].n = n; ap[i].stride = P; ap[i].start = i; }
    if (popfirst) { for (j = 0; j < Q; j++) pthread_create(&tq[j], NULL, thr_popper, &aq[j]); sched_yield(); usleep(200); }
    for (i = 0; i < P; i++) pthread_create(&tp[i], NULL, thr_pusher, &ap[i]);
    if (!popfirst) for (j = 0; j < Q; j++) pthread_create(&tq[j], NULL, thr_popper, &aq[j]);
    for (i = 0; i < P; i++) { pthread_join(tp[i], NULL); bad += ap[i].bad; }
    __atomic_store_n(&thr_released, 1, __ATOMIC_SEQ_CST);
    st = esl_stack_ReleaseCond(s); if (st != eslOK) bad++;
    for (j = 0; j < Q; j++) { pthread_join(tq[j], NULL); bad += aq[j].bad; eods += aq[j].eods; early += aq[j].early; }
    for (j = 0; j < Q; j++) for (i = 0; i < aq[j].ngot; i++) { if (i < aq[j].cap && tot < n) all[tot] = aq[j].got[i]; tot++; }
    left = esl_stack_ObjectCount(s);
    qsort(all, (size_t)(tot < n ? tot : n), sizeof(long long), cmp_ll);
    ob_reset();
    for (i = 0; i < tot && i < n; i++) ob_int(all[i], i == 0);
    if (tot > n) ob_add(",+%d-more", tot - n);
    if (bad) h_out("esys bad=%d", bad); else h_out("ok popped=%s left=%d eods=%d early=%d", tot ? OB : "-", left, eods, early);
    for (j = 0; j < Q; j++) free(aq[j].got);
    free(tp); free(tq); free(ap); free(aq); free(all); free(v);
    esl_stack_Destroy(s);
#else
    h_out("bad-op");
#endif
  }
  /* ------------------------------------------------ quicksort */
  else if (!strcmp(op, "qsort")) {
    struct qdata q; const char *m = h_arg("mode"); int n, i; int *sorted_at;
    n = parse_ints(h_arg("data"), &q.x);
    q.mode = (m && !strcmp(m, "desc")) ? 1 : ((m && !strcmp(m, "coarse")) ? 2 : 0);
    sorted_at = malloc(sizeof(int) * (size_t) n);
    esl_quicksort(&q, n, qcmp, sorted_at);
    ob_reset();
    for (i = 0; i < n; i++) ob_int(sorted_at[i], i == 0);
    h_out("ok %s", n ? OB : "-");
    free(sorted_at); free(q.x);
  }
  else h_out("bad-op");
  if (h_exception_seen) { /* an internal exception was raised during this op: the op line already went out; nothing more */ }
}

int main(void) { return h_main(); }
