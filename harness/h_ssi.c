/* C06 correspondence harness: esl_ssi.c (ESL_NEWSSI writer, ESL_SSI reader) against the real library.
 * The index is built in the current directory (a per-run scratch directory chosen by the engine).
 */
#include "hcommon.h"
#include "esl_ssi.h"
#include <unistd.h>
#include <sys/stat.h>
#include <fcntl.h>
#include <signal.h>

#define IDX  "c06idx.ssi"
#define HEXLIMIT 1500

static ESL_NEWSSI *NS;
static ESL_SSI    *SSI;

static void cleanup_files(void) { remove(IDX); remove(IDX ".1"); remove(IDX ".2"); }
static int  exists(const char *f) { struct stat st; return stat(f, &st) == 0; }

/* Watchdog: a lookup that never returns (e.g. a broken binary search) must not stall the whole run. A case may use
 * HANG_SECS of wall clock; then the process records the hang in a marker file of the scratch directory and dies (the
 * engine reports the case as a fault). After MAX_HANGS such cases the remaining ones are answered "skipped". */
#define HANG_SECS 30
#define MAX_HANGS 3
#define HANGFILE "c06.hangs"
static int skipping;
static int hang_count(void) { FILE *fp = fopen(HANGFILE, "r"); int n = 0; if (fp) { if (fscanf(fp, "%d", &n) != 1) n = 0; fclose(fp); } return n; }
static void on_alarm(int sig)
{
  char buf[16]; int n = hang_count() + 1, fd, len;
  (void) sig;
  len = snprintf(buf, sizeof(buf), "%d\n", n);
  fd = creat(HANGFILE, 0644);
  if (fd >= 0) { if (write(fd, buf, (size_t) len) < 0) {} close(fd); }
  _exit(96);
}

static void h_case_begin(void)
{
  cleanup_files();
  skipping = (hang_count() >= MAX_HANGS);
  signal(SIGALRM, on_alarm);
  alarm(HANG_SECS);
}
static void h_case_end(void)
{
  alarm(0);
  if (NS)  { esl_newssi_Close(NS); NS = NULL; }
  if (SSI) { esl_ssi_Close(SSI);   SSI = NULL; }
  cleanup_files();
}

static uint64_t fnv_bytes(const unsigned char *b, size_t n)
{
  uint64_t h = 0xcbf29ce484222325ULL; size_t i;
  for (i = 0; i < n; i++) h = (h ^ b[i]) * 0x100000001b3ULL;
  return h;
}

static unsigned char *slurp(const char *f, size_t *ret_n)
{
  FILE *fp = fopen(f, "rb"); unsigned char *b; long n;
  *ret_n = 0;
  if (!fp) return NULL;
  fseek(fp, 0, SEEK_END); n = ftell(fp); fseek(fp, 0, SEEK_SET);
  b = malloc((size_t) n + 1);
  if (n > 0 && fread(b, 1, (size_t) n, fp) != (size_t) n) { free(b); fclose(fp); return NULL; }
  fclose(fp);
  *ret_n = (size_t) n;
  return b;
}

static void h_op(void)
{
  const char *op = h_words[0];
  int status;

  if (skipping) { h_out("skipped-after-%d-hangs", MAX_HANGS); return; }
  if (!strcmp(op, "new")) {
    /* ow=0: allow_overwrite FALSE; pre=1/2/3: the index file / the primary / the secondary tmp file exists beforehand */
    int ow = (int) h_argi("ow", 1), pre = (int) h_argi("pre", 0);
    if (NS)  { esl_newssi_Close(NS); NS = NULL; }
    if (SSI) { esl_ssi_Close(SSI);   SSI = NULL; }
    cleanup_files();
    if (pre) { FILE *fp = fopen(pre == 1 ? IDX : pre == 2 ? IDX ".1" : IDX ".2", "w"); fputs("old", fp); fclose(fp); }
    status = esl_newssi_Open(IDX, ow, &NS);
    if (status != eslOK) NS = NULL;
    if (h_arg("ow")) {
      size_t n = 0; unsigned char *b = slurp(IDX, &n);
      h_out("%s file=%d n=%zu tmp=%d", h_status(status), exists(IDX), n, exists(IDX ".1") || exists(IDX ".2"));
      free(b);
    } else h_out("%s", h_status(status));
  }
  else if (!strcmp(op, "closens")) {            /* esl_newssi_Close without Write */
    size_t n = 0; unsigned char *b;
    if (!NS) { h_out("bad-op"); return; }
    esl_newssi_Close(NS); NS = NULL;
    b = slurp(IDX, &n);
    h_out("ok file=%d n=%zu tmp=%d", exists(IDX), n, exists(IDX ".1") || exists(IDX ".2"));
    free(b);
  }
  else if (!strcmp(op, "addfile")) {
    int64_t n; unsigned char *name; uint16_t fh = 0;
    if (!NS || !h_arg("name")) { h_out("bad-op"); return; }
    name = h_unhex(h_arg("name"), &n);
    status = esl_newssi_AddFile(NS, (char *) name, (int) h_argi("fmt", 0), &fh);
    free(name);
    if (status == eslOK) h_out("ok fh=%u", (unsigned) fh); else h_out("%s", h_status(status));
  }
  else if (!strcmp(op, "setsubseq")) {
    if (!NS) { h_out("bad-op"); return; }
    status = esl_newssi_SetSubseq(NS, (uint16_t) h_argu("fh", 0), (uint32_t) h_argu("bpl", 0), (uint32_t) h_argu("rpl", 0));
    h_out("%s", h_status(status));
  }
  else if (!strcmp(op, "addkey")) {
    int64_t n; unsigned char *k;
    if (!NS || !h_arg("k")) { h_out("bad-op"); return; }
    k = h_unhex(h_arg("k"), &n);
    status = esl_newssi_AddKey(NS, (char *) k, (uint16_t) h_argu("fh", 0), (off_t) h_argi("r", 0), (off_t) h_argi("d", 0), h_argi("L", 0));
    free(k);
    h_out("%s", h_status(status));
  }
  else if (!strcmp(op, "addalias")) {
    int64_t n; unsigned char *a, *k;
    if (!NS || !h_arg("a") || !h_arg("k")) { h_out("bad-op"); return; }
    a = h_unhex(h_arg("a"), &n);
    k = h_unhex(h_arg("k"), &n);
    status = esl_newssi_AddAlias(NS, (char *) a, (char *) k);
    free(a); free(k);
    h_out("%s", h_status(status));
  }
  else if (!strcmp(op, "external")) {          /* force the external sort from the next Add* call on: public field, no hook */
    if (!NS) { h_out("bad-op"); return; }
    NS->max_ram = 0;
    h_out("ok");
  }
  else if (!strcmp(op, "maxram")) {            /* any threshold (MB); the switch then happens by itself when the size reaches it */
    if (!NS) { h_out("bad-op"); return; }
    NS->max_ram = (int) h_argi("m", 2048);
    h_out("ok");
  }
  else if (!strcmp(op, "isext")) {             /* public field: has the index switched to the on-disk sort? */
    if (!NS) { h_out("bad-op"); return; }
    h_out("ok ext=%d", NS->external ? 1 : 0);
  }
  else if (!strcmp(op, "write")) {
    unsigned char *b; size_t n; int present, tmp, status2 = eslOK;
    char *path = NULL; char again[40] = "";
    if (!NS) { h_out("bad-op"); return; }
    if (h_argi("nosort", 0)) {                  /* make sort(1) unreachable: the external sort step fails (eslESYS) */
      const char *p = getenv("PATH"); path = p ? strdup(p) : NULL; setenv("PATH", "/nonexistent-c06", 1);
    }
    status = esl_newssi_Write(NS);
    if (h_argi("nosort", 0)) { if (path) { setenv("PATH", path, 1); free(path); } else unsetenv("PATH"); }
    if (h_argi("twice", 0)) status2 = esl_newssi_Write(NS);    /* "trying to _Write() the <ESL_NEWSSI> more than once": eslEINVAL, nothing touched */
    esl_newssi_Close(NS); NS = NULL;
    present = exists(IDX);
    tmp     = exists(IDX ".1") || exists(IDX ".2");
    b = slurp(IDX, &n);
    if (h_argi("twice", 0)) snprintf(again, sizeof(again), " again=%s", h_status(status2));
    if (b && n <= HEXLIMIT)
      h_out("%s file=%d tmp=%d n=%zu h=%016" PRIx64 " hex=%s%s", h_status(status), present, tmp, n, fnv_bytes(b, n), h_hex(b, (int64_t) n), again);
    else
      h_out("%s file=%d tmp=%d n=%zu h=%016" PRIx64 "%s%s", h_status(status), present, tmp, n, fnv_bytes(b, n), b ? "" : " hex=-", again);
    free(b);
  }
  else if (!strcmp(op, "open") || !strcmp(op, "openraw")) {
    if (SSI) { esl_ssi_Close(SSI); SSI = NULL; }
    if (!strcmp(op, "openraw")) {               /* the index file is given byte for byte (malformed-index stream) */
      int64_t n; unsigned char *b; FILE *fp;
      if (!h_arg("hex")) { h_out("bad-op"); return; }
      b = h_unhex(h_arg("hex"), &n);
      fp = fopen(IDX, "wb");
      if (n > 0) fwrite(b, 1, (size_t) n, fp);
      fclose(fp); free(b);
    }
    status = esl_ssi_Open(IDX, &SSI);
    if (status != eslOK) { SSI = NULL; h_out("%s", h_status(status)); return; }
    h_out("ok flags=%" PRIu32 " offsz=%" PRIu32 " nfiles=%u nprimary=%" PRIu64 " nsecondary=%" PRIu64
          " flen=%" PRIu32 " plen=%" PRIu32 " slen=%" PRIu32 " frec=%" PRIu32 " prec=%" PRIu32 " srec=%" PRIu32
          " foff=%lld poff=%lld soff=%lld",
          SSI->flags, SSI->offsz, (unsigned) SSI->nfiles, SSI->nprimary, SSI->nsecondary,
          SSI->flen, SSI->plen, SSI->slen, SSI->frecsize, SSI->precsize, SSI->srecsize,
          (long long) SSI->foffset, (long long) SSI->poffset, (long long) SSI->soffset);
  }
  else if (!strcmp(op, "find")) {
    int64_t n; unsigned char *k; uint16_t fh; off_t roff, doff; int64_t L;
    if (!SSI || !h_arg("k")) { h_out("bad-op"); return; }
    k = h_unhex(h_arg("k"), &n);
    status = esl_ssi_FindName(SSI, (char *) k, &fh, &roff, &doff, &L);
    free(k);
    if (status == eslOK) h_out("ok fh=%u r=%lld d=%lld L=%lld", (unsigned) fh, (long long) roff, (long long) doff, (long long) L);
    else                 h_out("%s", h_status(status));
  }
  else if (!strcmp(op, "findq")) {              /* optional result pointers omitted */
    int64_t n; unsigned char *k; uint16_t fh; off_t roff;
    if (!SSI || !h_arg("k")) { h_out("bad-op"); return; }
    k = h_unhex(h_arg("k"), &n);
    status = esl_ssi_FindName(SSI, (char *) k, &fh, &roff, NULL, NULL);
    free(k);
    if (status == eslOK) h_out("ok fh=%u r=%lld", (unsigned) fh, (long long) roff);
    else                 h_out("%s", h_status(status));
  }
  else if (!strcmp(op, "findnumq")) {
    if (!SSI) { h_out("bad-op"); return; }
    status = esl_ssi_FindNumber(SSI, h_argi("i", 0), NULL, NULL, NULL, NULL, NULL);
    h_out("%s", h_status(status));
  }
  else if (!strcmp(op, "findnum")) {
    uint16_t fh; off_t roff, doff; int64_t L; char *pkey = NULL;
    if (!SSI) { h_out("bad-op"); return; }
    status = esl_ssi_FindNumber(SSI, h_argi("i", 0), &fh, &roff, &doff, &L, &pkey);
    if (status == eslOK) h_out("ok fh=%u r=%lld d=%lld L=%lld key=%s", (unsigned) fh, (long long) roff, (long long) doff, (long long) L,
                               h_hex(pkey, (int64_t) strlen(pkey)));   /* a caller's view: the returned key is a C string (terminated by the library even when the field is not) */
    else                 h_out("%s", h_status(status));
    free(pkey);
  }
  else if (!strcmp(op, "subseq")) {
    int64_t n; unsigned char *k; uint16_t fh; off_t roff, doff; int64_t L, actual;
    if (!SSI || !h_arg("k")) { h_out("bad-op"); return; }
    k = h_unhex(h_arg("k"), &n);
    status = esl_ssi_FindSubseq(SSI, (char *) k, h_argi("start", 1), &fh, &roff, &doff, &L, &actual);
    free(k);
    if (status == eslOK) h_out("ok fh=%u r=%lld d=%lld L=%lld actual=%lld", (unsigned) fh, (long long) roff, (long long) doff, (long long) L, (long long) actual);
    else                 h_out("%s", h_status(status));
  }
  else if (!strcmp(op, "fileinfo")) {
    char *name = NULL; int fmt = 0; uint16_t fh = (uint16_t) h_argu("fh", 0);
    if (!SSI) { h_out("bad-op"); return; }
    status = esl_ssi_FileInfo(SSI, fh, &name, &fmt);
    if (status == eslOK) h_out("ok name=%s fmt=%d flags=%" PRIu32 " bpl=%" PRIu32 " rpl=%" PRIu32,
                               h_hex(name, (int64_t) strlen(name)), fmt, SSI->fileflags[fh], SSI->bpl[fh], SSI->rpl[fh]);   /* likewise: a C string */
    else                 h_out("%s", h_status(status));
  }
  else if (!strcmp(op, "close")) {
    if (SSI) { esl_ssi_Close(SSI); SSI = NULL; }
    h_out("ok");
  }
  else h_out("bad-op");
}

int main(void) { return h_main(); }
