/* C15 correspondence harness: esl_msa.c (alignment transformations), esl_wuss.c, esl_alphabet.c
 *
 * Two alignment slots: A (current, target of in-place ops) and B (result of SequenceSubset / Clone / Copy).
 * Alignments are constructed field by field through the public API (the same calls the Stockholm parser makes),
 * then transformed; `dump` prints EVERY field in a canonical order so that "input unchanged" and
 * "every annotation got the same column selection" are compared exactly with the model.
 *
 * NULL string = "~", empty string = "-", otherwise lowercase hex.
 */
#include "hcommon.h"
#include "esl_alphabet.h"
#include "esl_bitfield.h"
#include "esl_keyhash.h"
#include "esl_msa.h"
#include "esl_random.h"
#include "esl_sq.h"
#include "esl_wuss.h"

/* Uninitialised heap memory: ASan fills fresh allocations with 0xbe, which reads as TRUE / non-NULL and hides a
 * forgotten initialisation (e.g. a useme[] flag never written). Fill with 0x00 on odd seeds and 0xff on even seeds so
 * that both readings are exercised (ASAN_OPTIONS from the environment still take precedence for what they set). */
#include <sys/syscall.h>
#include <fcntl.h>
#include <unistd.h>
__attribute__((no_sanitize("address", "undefined"))) const char *__asan_default_options(void);
__attribute__((no_sanitize("address", "undefined"))) const char *__asan_default_options(void)
{
  /* Called by the ASan runtime before libc has set up environ (getenv() answers NULL here, so the 0xff pattern was never
   * selected) and before the interceptors work: read VERIF_SEED from /proc/self/environ with raw system calls and
   * hand-written loops only; the function itself must not be instrumented (no shadow memory yet). */
  static char env[1 << 16];
  static const char key[] = "VERIF_SEED=";
  long seed = 1, n = 0, i, k;
  long fd = syscall(SYS_openat, AT_FDCWD, "/proc/self/environ", O_RDONLY);
  if (fd >= 0) {
    long got;
    while (n < (long) sizeof env - 1 && (got = syscall(SYS_read, (int) fd, env + n, sizeof env - 1 - (size_t) n)) > 0) n += got;
    syscall(SYS_close, (int) fd);
  }
  env[n] = 0;
  for (i = 0; i < n; ) {
    for (k = 0; k < 11 && env[i + k] == key[k]; k++) ;
    if (k == 11) {
      long v = 0; int any = 0;
      for (i += 11; env[i] >= '0' && env[i] <= '9'; i++) { v = v * 10 + (env[i] - '0'); any = 1; }
      if (any) seed = v;
      break;
    }
    while (i < n && env[i]) i++;
    i++;
  }
  return (seed % 2) ? "malloc_fill_byte=0:max_malloc_fill_size=1048576" : "malloc_fill_byte=255:max_malloc_fill_size=1048576";
}

static ESL_MSA *A, *B;
static ESL_SQ  *Q;      /* a sequence kept from `fetch keep=1` for the esl_sq_* conversions */
static ESL_ALPHABET *abc_rna, *abc_dna, *abc_amino;

static void h_case_begin(void) { }
static void h_case_end(void)
{
  if (A) esl_msa_Destroy(A); A = NULL;
  if (B) esl_msa_Destroy(B); B = NULL;
  if (Q) esl_sq_Destroy(Q);  Q = NULL;
}

static ESL_ALPHABET *get_abc(const char *s)
{
  if (!s) return NULL;
  if (!strcmp(s, "rna"))   { if (!abc_rna)   abc_rna   = esl_alphabet_Create(eslRNA);   return abc_rna; }
  if (!strcmp(s, "dna"))   { if (!abc_dna)   abc_dna   = esl_alphabet_Create(eslDNA);   return abc_dna; }
  if (!strcmp(s, "amino")) { if (!abc_amino) abc_amino = esl_alphabet_Create(eslAMINO); return abc_amino; }
  return NULL;
}

static char *arg_str(const char *key)     /* NULL if absent; malloc'ed NUL-terminated otherwise */
{
  const char *v = h_arg(key); int64_t n;
  if (!v || !strcmp(v, "~")) return NULL;
  return (char *) h_unhex(v, &n);
}

/* growing output buffer */
static char *ob; static size_t ocap, olen;
static void o_reset(void) { olen = 0; if (!ob) { ocap = 1 << 16; ob = malloc(ocap); } ob[0] = 0; }
static void o_add(const char *s)
{
  size_t n = strlen(s);
  if (olen + n + 1 > ocap) { while (olen + n + 1 > ocap) ocap *= 2; ob = realloc(ob, ocap); }
  memcpy(ob + olen, s, n + 1); olen += n;
}
static void o_str(const char *s)          /* NULL -> ~, "" -> -, else hex */
{
  if (!s) o_add("~"); else o_add(h_hex(s, (int64_t) strlen(s)));
}
static void o_fmt(const char *fmt, ...)
{
  char tmp[256]; va_list ap; va_start(ap, fmt); vsnprintf(tmp, sizeof tmp, fmt, ap); va_end(ap); o_add(tmp);
}

static void dump(ESL_MSA *m)
{
  int i, t;
  o_reset();
  if (!m) { h_out("nomsa"); return; }
  o_fmt("ok nseq=%d alen=%" PRId64 " flags=%d abc=%s", m->nseq, m->alen, m->flags,
        !m->abc ? "none" : m->abc->type == eslRNA ? "rna" : m->abc->type == eslDNA ? "dna" : m->abc->type == eslAMINO ? "amino" : "other");
  o_add(" name=");    o_str(m->name);    o_add(" desc=");    o_str(m->desc);
  o_add(" acc=");     o_str(m->acc);     o_add(" au=");      o_str(m->au);
  o_add(" ss_cons="); o_str(m->ss_cons); o_add(" sa_cons="); o_str(m->sa_cons);
  o_add(" pp_cons="); o_str(m->pp_cons); o_add(" rf=");      o_str(m->rf);      o_add(" mm="); o_str(m->mm);
  o_add(" cutoff=");
  for (i = 0; i < eslMSA_NCUTS; i++) o_fmt("%s%s", i ? "," : "", h_fbits(m->cutoff[i]));
  o_add(" cutset=");
  for (i = 0; i < eslMSA_NCUTS; i++) o_fmt("%s%d", i ? "," : "", m->cutset[i] ? 1 : 0);
  for (i = 0; i < m->nseq; i++) {
    o_add(" sq="); o_str(m->sqname[i]); o_fmt(",%s,", h_dbits(m->wgt[i]));
    if (m->flags & eslMSA_DIGITAL) {
      if (!m->ax || !m->ax[i]) o_add("~");
      else {
        int64_t n = esl_abc_dsqlen(m->ax[i]);       /* scans to the sentinel: a missing sentinel is an ASan fault */
        if (m->ax[i][0] != eslDSQ_SENTINEL) o_add("BADSENTINEL");
        o_add(n ? h_hex(m->ax[i] + 1, n) : "-");
      }
    } else o_str(m->aseq ? m->aseq[i] : NULL);
    o_add(","); o_str(m->sqacc  ? m->sqacc[i]  : NULL);
    o_add(","); o_str(m->sqdesc ? m->sqdesc[i] : NULL);
    o_add(","); o_str(m->ss     ? m->ss[i]     : NULL);
    o_add(","); o_str(m->sa     ? m->sa[i]     : NULL);
    o_add(","); o_str(m->pp     ? m->pp[i]     : NULL);
  }
  for (i = 0; i < m->ncomment; i++) { o_add(" comment="); o_str(m->comment[i]); }
  for (i = 0; i < m->ngf; i++) { o_add(" gf="); o_str(m->gf_tag[i]); o_add(","); o_str(m->gf[i]); }
  for (t = 0; t < m->ngs; t++) {
    o_add(" gs="); o_str(m->gs_tag[t]);
    for (i = 0; i < m->nseq; i++) { o_add(","); o_str(m->gs[t] ? m->gs[t][i] : NULL); }
  }
  for (t = 0; t < m->ngc; t++) { o_add(" gc="); o_str(m->gc_tag[t]); o_add(","); o_str(m->gc[t]); }
  for (t = 0; t < m->ngr; t++) {
    o_add(" gr="); o_str(m->gr_tag[t]);
    for (i = 0; i < m->nseq; i++) { o_add(","); o_str(m->gr[t] ? m->gr[t][i] : NULL); }
  }
  h_out("%s", ob);
}

/* mask=0110...; with cyc=1 the pattern is repeated cyclically (or cut) to exactly <need> flags */
static int *parse_mask(const char *s, int64_t need, int64_t *n_ret)
{
  int64_t n = s ? (int64_t) strlen(s) : 0, i;
  int *m;
  if (s && !strcmp(s, "-")) n = 0;
  m = malloc(sizeof(int) * (size_t)((n > need ? n : need) + 1));
  if (h_argi("cyc", 0)) {
    for (i = 0; i < need; i++) m[i] = n ? (s[i % n] == '1') : 0;
    if (n_ret) *n_ret = need;
    return m;
  }
  for (i = 0; i < n; i++) m[i] = (s[i] == '1');
  for (; i < need; i++) m[i] = 0;
  if (n_ret) *n_ret = n;
  return m;
}

static void set_opt_array(char ***arr, int sqalloc, int idx, char *val)   /* what the parsers do for ss/sa/pp */
{
  int i;
  if (!val) return;
  if (!*arr) { *arr = malloc(sizeof(char *) * sqalloc); for (i = 0; i < sqalloc; i++) (*arr)[i] = NULL; }
  if ((*arr)[idx]) free((*arr)[idx]);
  (*arr)[idx] = val;
}

static void add_sq(ESL_SQ *sq)      /* the observable content of a sequence object, in either mode */
{
  int x, dig = (sq->dsq != NULL), padok = 1;
  o_add(" name="); o_str(sq->name); o_add(" acc="); o_str(sq->acc); o_add(" desc="); o_str(sq->desc);
  o_add(" src="); o_str(sq->source);
  o_fmt(" n=%" PRId64 " L=%" PRId64 " seq=", sq->n, sq->L);
  if (dig) o_add(sq->n ? h_hex(sq->dsq + 1, esl_abc_dsqlen(sq->dsq)) : (esl_abc_dsqlen(sq->dsq) ? "LONG" : "-")); else o_str(sq->seq);
  o_add(" ss="); o_str(sq->ss ? (dig ? sq->ss + 1 : sq->ss) : NULL);
  for (x = 0; x < sq->nxr; x++) { o_add(" xr="); o_str(sq->xr_tag[x]); o_add(","); o_str(sq->xr[x] ? (dig ? sq->xr[x] + 1 : sq->xr[x]) : NULL); }
  /* digital sequences keep a leading NUL before ss / xr so that they are indexed 1..n like dsq */
  if (dig && sq->ss && sq->ss[0] != '\0') padok = 0;
  for (x = 0; dig && x < sq->nxr; x++) if (sq->xr[x] && sq->xr[x][0] != '\0') padok = 0;
  o_add(padok ? " pad=ok" : " pad=BAD");
}

static void out_status(int st)
{
  if (h_exception_seen) h_out("%s exception", h_status(st));
  else                  h_out("%s", h_status(st));
}

static int *parse_ct(const char *s, int *n_ret)
{
  int cap = 64, n = 0; int *ct = malloc(sizeof(int) * cap); const char *p = s;
  ct[0] = 0;
  if (s && strcmp(s, "-")) {
    while (*p) {
      char *e; long v = strtol(p, &e, 10);
      if (n + 2 >= cap) { cap *= 2; ct = realloc(ct, sizeof(int) * cap); }
      ct[++n] = (int) v;
      p = (*e == ',') ? e + 1 : e;
      if (e == p && *e) break;
    }
  }
  *n_ret = n; return ct;
}

static void out_ct(int st, const int *ct, int n)
{
  int i;
  o_reset(); o_fmt("%s", h_status(st));
  if (h_exception_seen) o_add(" exception");
  if (st == eslOK) { o_add(" ct="); if (n == 0) o_add("-"); for (i = 1; i <= n; i++) o_fmt("%s%d", i > 1 ? "," : "", ct[i]); }
  h_out("%s", ob);
}

static void out_ss(int st, const char *ss)
{
  o_reset(); o_fmt("%s", h_status(st));
  if (h_exception_seen) o_add(" exception");
  if (st == eslOK) { o_add(" ss="); o_str(ss); }
  h_out("%s", ob);
}

/* representation assumption of the model of esl_msa_Compare: an optional per-sequence array is non-NULL iff at least one
 * of its entries is non-NULL */
static int repinv_arr(char **arr, int n)
{
  int i, any = 0;
  if (!arr) return 1;
  for (i = 0; i < n; i++) if (arr[i]) any = 1;
  return any;
}
static int repinv(const ESL_MSA *m)
{
  return repinv_arr(m->sqacc, m->nseq) && repinv_arr(m->sqdesc, m->nseq) && repinv_arr(m->ss, m->nseq)
      && repinv_arr(m->sa, m->nseq) && repinv_arr(m->pp, m->nseq);
}

static void h_op(void)
{
  const char *op = h_words[0];
  char errbuf[eslERRBUFSIZE];
  errbuf[0] = 0;

  /* ---------------- construction ---------------- */
  if (!strcmp(op, "new")) {
    int nseq = (int) h_argi("nseq", 1); int64_t alen = h_argi("alen", 0); int i;
    if (A) esl_msa_Destroy(A);
    A = esl_msa_Create(nseq, alen);
    for (i = 0; i < nseq; i++) { A->wgt[i] = 1.0; memset(A->aseq[i], '-', (size_t) alen); A->aseq[i][alen] = 0; esl_msa_FormatSeqName(A, i, "s%d", i); }
    h_out("ok");
  } else if (!strcmp(op, "sq")) {
    int i = (int) h_argi("i", 0); char *s; const char *w;
    if (!A || i < 0 || i >= A->nseq) { h_out("bad-op"); return; }
    if ((s = arg_str("name")) != NULL) { esl_msa_SetSeqName(A, i, s, -1); free(s); }
    if ((s = arg_str("seq"))  != NULL) { if ((int64_t) strlen(s) == A->alen) strcpy(A->aseq[i], s); free(s); }
    if ((w = h_arg("wgt")) != NULL) { uint64_t u = strtoull(w, NULL, 16); memcpy(&A->wgt[i], &u, 8); }
    if ((s = arg_str("acc"))  != NULL) { esl_msa_SetSeqAccession(A, i, s, -1);   free(s); }
    if ((s = arg_str("desc")) != NULL) { esl_msa_SetSeqDescription(A, i, s, -1); free(s); }
    set_opt_array(&A->ss, A->sqalloc, i, arg_str("ss"));
    set_opt_array(&A->sa, A->sqalloc, i, arg_str("sa"));
    set_opt_array(&A->pp, A->sqalloc, i, arg_str("pp"));
    h_out("ok");
  } else if (!strcmp(op, "col")) {
    char *s;
    if (!A) { h_out("bad-op"); return; }
    if ((s = arg_str("name")) != NULL) { esl_msa_SetName(A, s, -1);      free(s); }
    if ((s = arg_str("desc")) != NULL) { esl_msa_SetDesc(A, s, -1);      free(s); }
    if ((s = arg_str("acc"))  != NULL) { esl_msa_SetAccession(A, s, -1); free(s); }
    if ((s = arg_str("au"))   != NULL) { esl_msa_SetAuthor(A, s, -1);    free(s); }
    if ((s = arg_str("ss_cons")) != NULL) { free(A->ss_cons); A->ss_cons = s; }
    if ((s = arg_str("sa_cons")) != NULL) { free(A->sa_cons); A->sa_cons = s; }
    if ((s = arg_str("pp_cons")) != NULL) { free(A->pp_cons); A->pp_cons = s; }
    if ((s = arg_str("rf"))      != NULL) { free(A->rf);      A->rf      = s; }
    if ((s = arg_str("mm"))      != NULL) { free(A->mm);      A->mm      = s; }
    if (h_argi("haswgts", 0)) A->flags |= eslMSA_HASWGTS;
    h_out("ok");
  } else if (!strcmp(op, "setstr") || !strcmp(op, "fmtstr")) {
    /* esl_msa_Set{Name,Desc,Accession,Author,SeqName,SeqAccession,SeqDescription}(msa, [i,] v, n) with an explicit length <n>
     * (n = -1: NUL-terminated), v = ~: NULL;  fmtstr: the esl_msa_Format* twin with the format "%s|%d" (v = ~: NULL format) */
    const char *f = h_arg("f"); int set = !strcmp(op, "setstr"); int st = eslOK;
    int i = (int) h_argi("i", 0); int64_t n = h_argi("n", -1); int k = (int) h_argi("k", 0); char *v = arg_str("v");
    const char *fmt = v ? "%s|%d" : NULL;
    if (!A || !f || i < 0 || (set && v && n > (int64_t) strlen(v)) || (set && !v && n > 0)) { free(v); h_out("bad-op"); return; }
    if      (!strcmp(f, "name"))   st = set ? esl_msa_SetName(A, v, n)               : esl_msa_FormatName(A, fmt, v, k);
    else if (!strcmp(f, "desc"))   st = set ? esl_msa_SetDesc(A, v, n)               : esl_msa_FormatDesc(A, fmt, v, k);
    else if (!strcmp(f, "acc"))    st = set ? esl_msa_SetAccession(A, v, n)          : esl_msa_FormatAccession(A, fmt, v, k);
    else if (!strcmp(f, "au"))     st = set ? esl_msa_SetAuthor(A, v, n)             : esl_msa_FormatAuthor(A, fmt, v, k);
    else if (!strcmp(f, "sqname")) st = set ? esl_msa_SetSeqName(A, i, v, n)         : esl_msa_FormatSeqName(A, i, fmt, v, k);
    else if (!strcmp(f, "sqacc"))  st = set ? esl_msa_SetSeqAccession(A, i, v, n)    : esl_msa_FormatSeqAccession(A, i, fmt, v, k);
    else if (!strcmp(f, "sqdesc")) st = set ? esl_msa_SetSeqDescription(A, i, v, n)  : esl_msa_FormatSeqDescription(A, i, fmt, v, k);
    else { free(v); h_out("bad-op"); return; }
    free(v);
    out_status(st);
  } else if (!strcmp(op, "sample")) {
    /* esl_msa_Sample(rng, abc, max_nseq, max_alen, &A) with a Mersenne Twister seeded <seed> (> 0) */
    ESL_ALPHABET *abc = get_abc(h_arg("abc")); int64_t seed = h_argi("seed", 0); int maxn = (int) h_argi("maxn", 0), maxa = (int) h_argi("maxa", 0);
    ESL_RANDOMNESS *rng; int st;
    if (!abc || seed <= 0 || seed >= 4294967296LL || maxn <= 0 || maxa <= 0) { h_out("bad-op"); return; }
    rng = esl_randomness_Create((uint32_t) seed);
    if (A) esl_msa_Destroy(A); A = NULL;
    st = esl_msa_Sample(rng, abc, maxn, maxa, &A);
    esl_randomness_Destroy(rng);
    out_status(st);
  } else if (!strcmp(op, "expand")) {
    /* esl_msa_Expand on the current (not growable: alen >= 0) alignment: eslEINVAL, nothing changes */
    if (!A) { h_out("bad-op"); return; }
    out_status(esl_msa_Expand(A));
  } else if (!strcmp(op, "grow")) {
    /* a growable alignment as the parsers hold it (esl_msa_Create(n, -1)), some per-sequence annotation set through the
     * API (optional ss/sa/pp arrays allocated the way the Stockholm parser does), then k calls of esl_msa_Expand;
     * prints every slot of every per-sequence array */
    int n = (int) h_argi("n", 0), k = (int) h_argi("k", 0), named = (int) h_argi("named", 0), opt = (int) h_argi("opt", 0);
    int acc = (int) h_argi("acc", -1), desc = (int) h_argi("desc", -1), ngs = (int) h_argi("gs", 0), ngr = (int) h_argi("gr", 0);
    ESL_MSA *g; int i, t, st = eslOK; char tag[16];
    if (n <= 0 || n > 64 || k < 0 || k > 5 || acc >= n || desc >= n) { h_out("bad-op"); return; }
    if (named > n) named = n; if (ngs > 8) ngs = 8; if (ngr > 8) ngr = 8;
    g = esl_msa_Create(n, -1);
    for (i = 0; i < named; i++) { snprintf(tag, sizeof tag, "q%d", i); esl_msa_SetSeqName(g, i, tag, -1); }
    g->nseq = named;
    if (opt & 1) { g->ss = malloc(sizeof(char *) * n); g->sslen = malloc(sizeof(int64_t) * n); for (i = 0; i < n; i++) { g->ss[i] = NULL; g->sslen[i] = 0; } }
    if (opt & 2) { g->sa = malloc(sizeof(char *) * n); g->salen = malloc(sizeof(int64_t) * n); for (i = 0; i < n; i++) { g->sa[i] = NULL; g->salen[i] = 0; } }
    if (opt & 4) { g->pp = malloc(sizeof(char *) * n); g->pplen = malloc(sizeof(int64_t) * n); for (i = 0; i < n; i++) { g->pp[i] = NULL; g->pplen[i] = 0; } }
    if (acc  >= 0) esl_msa_SetSeqAccession(g, acc, "AC", -1);
    if (desc >= 0) esl_msa_SetSeqDescription(g, desc, "d", -1);
    for (t = 0; t < ngs; t++) { snprintf(tag, sizeof tag, "T%d", t); esl_msa_AddGS(g, tag, -1, t % n, "v", -1); }
    for (t = 0; t < ngr; t++) { snprintf(tag, sizeof tag, "R%d", t); esl_msa_AppendGR(g, tag, t % n, "x"); }
    for (i = 0; i < k && st == eslOK; i++) st = esl_msa_Expand(g);
    if (st != eslOK) { out_status(st); }
    else {
      o_reset(); o_fmt("ok sqalloc=%d", g->sqalloc);
      for (i = 0; i < g->sqalloc; i++) {
        o_add(" sl="); o_str(g->sqname[i]); o_fmt(",%s,%" PRId64 ",", h_dbits(g->wgt[i]), g->sqlen[i]);
        o_str(g->aseq ? g->aseq[i] : NULL);
        o_add(","); if (!g->ss) o_add("."); else { o_str(g->ss[i]); o_fmt(":%" PRId64, g->sslen[i]); }
        o_add(","); if (!g->sa) o_add("."); else { o_str(g->sa[i]); o_fmt(":%" PRId64, g->salen[i]); }
        o_add(","); if (!g->pp) o_add("."); else { o_str(g->pp[i]); o_fmt(":%" PRId64, g->pplen[i]); }
        o_add(","); if (!g->sqacc)  o_add("."); else o_str(g->sqacc[i]);
        o_add(","); if (!g->sqdesc) o_add("."); else o_str(g->sqdesc[i]);
      }
      for (t = 0; t < g->ngs; t++) { o_add(" gs="); o_str(g->gs_tag[t]); for (i = 0; i < g->sqalloc; i++) { o_add(","); o_str(g->gs[t][i]); } }
      for (t = 0; t < g->ngr; t++) { o_add(" gr="); o_str(g->gr_tag[t]); for (i = 0; i < g->sqalloc; i++) { o_add(","); o_str(g->gr[t][i]); } }
      h_out("%s", ob);
    }
    /* esl_msa_Destroy frees per-sequence strings up to nseq only: make every allocated slot visible to it */
    g->nseq = g->sqalloc;
    esl_msa_Destroy(g);
  } else if (!strcmp(op, "cut")) {
    int k = (int) h_argi("i", 0); const char *v = h_arg("v"); uint32_t u = v ? (uint32_t) strtoul(v, NULL, 16) : 0;
    if (!A || k < 0 || k >= eslMSA_NCUTS) { h_out("bad-op"); return; }
    memcpy(&A->cutoff[k], &u, 4); A->cutset[k] = TRUE;
    h_out("ok");
  } else if (!strcmp(op, "comment")) {
    char *v = arg_str("v"); if (!A || !v) { free(v); h_out("bad-op"); return; }
    out_status(esl_msa_AddComment(A, v, -1)); free(v);
  } else if (!strcmp(op, "gf")) {
    char *t = arg_str("tag"), *v = arg_str("v"); if (!A || !t || !v) { free(t); free(v); h_out("bad-op"); return; }
    out_status(esl_msa_AddGF(A, t, -1, v, -1)); free(t); free(v);
  } else if (!strcmp(op, "gs")) {
    char *t = arg_str("tag"), *v = arg_str("v"); int i = (int) h_argi("i", 0);
    if (!A || !t || !v || i < 0 || i >= A->nseq) { free(t); free(v); h_out("bad-op"); return; }
    out_status(esl_msa_AddGS(A, t, -1, i, v, -1)); free(t); free(v);
  } else if (!strcmp(op, "gc")) {
    char *t = arg_str("tag"), *v = arg_str("v"); if (!A || !t || !v) { free(t); free(v); h_out("bad-op"); return; }
    out_status(esl_msa_AppendGC(A, t, v)); free(t); free(v);
  } else if (!strcmp(op, "gr")) {
    char *t = arg_str("tag"), *v = arg_str("v"); int i = (int) h_argi("i", 0);
    if (!A || !t || !v || i < 0 || i >= A->nseq) { free(t); free(v); h_out("bad-op"); return; }
    out_status(esl_msa_AppendGR(A, t, i, v)); free(t); free(v);

  /* ---------------- observation ---------------- */
  } else if (!strcmp(op, "dump")) {
    const char *w = h_arg("w"); dump(w && !strcmp(w, "b") ? B : A);
  } else if (!strcmp(op, "validate")) {
    const char *w = h_arg("w"); ESL_MSA *m = (w && !strcmp(w, "b")) ? B : A;
    if (!m) { h_out("nomsa"); return; }
    h_out("%s", h_status(esl_msa_Validate(m, errbuf)));
  } else if (!strcmp(op, "fetch")) {      /* esl_sq_FetchFromMSA(): the ungapped sequence with its annotation */
    const char *w = h_arg("w"); ESL_MSA *m = (w && !strcmp(w, "b")) ? B : A; ESL_SQ *sq = NULL; int st;
    if (!m) { h_out("nomsa"); return; }
    st = esl_sq_FetchFromMSA(m, (int) h_argi("i", 0), &sq);
    o_reset(); o_fmt("%s", h_status(st));
    if (st == eslOK) add_sq(sq);
    h_out("%s", ob);
    if (sq && h_argi("keep", 0)) { if (Q) esl_sq_Destroy(Q); Q = sq; }
    else if (sq) esl_sq_Destroy(sq);
  } else if (!strcmp(op, "sqdump")) {
    if (!Q) { h_out("nosq"); return; }
    o_reset(); o_add("ok"); add_sq(Q);
    o_fmt(" abc=%s start=%" PRId64 " end=%" PRId64, !Q->abc ? "none" : Q->abc->type == eslRNA ? "rna" : Q->abc->type == eslDNA ? "dna" : Q->abc->type == eslAMINO ? "amino" : "other", Q->start, Q->end);
    h_out("%s", ob);
  } else if (!strcmp(op, "sqdigitize")) {
    ESL_ALPHABET *abc = get_abc(h_arg("abc"));
    if (!Q || !abc) { h_out("bad-op"); return; }
    out_status(esl_sq_Digitize(abc, Q));
  } else if (!strcmp(op, "sqtextize")) {
    if (!Q) { h_out("bad-op"); return; }
    out_status(esl_sq_Textize(Q));
  } else if (!strcmp(op, "sqrevcomp")) {
    if (!Q) { h_out("bad-op"); return; }
    out_status(esl_sq_ReverseComplement(Q));
  } else if (!strcmp(op, "sqdegen2x")) {
    if (!Q) { h_out("bad-op"); return; }
    out_status(esl_sq_ConvertDegen2X(Q));
  } else if (!strcmp(op, "swap")) {
    if (!B) { h_out("noswap"); return; }
    { ESL_MSA *t = A; A = B; B = t; h_out("ok"); }

  /* ---------------- transformations ---------------- */
  } else if (!strcmp(op, "digitize")) {
    ESL_ALPHABET *abc = get_abc(h_arg("abc"));
    if (!A || !abc) { h_out("bad-op"); return; }
    out_status(esl_msa_Digitize(abc, A, errbuf));
  } else if (!strcmp(op, "textize")) {
    if (!A) { h_out("bad-op"); return; }
    out_status(esl_msa_Textize(A));
  } else if (!strcmp(op, "colsubset") || !strcmp(op, "rbb")) {
    int64_t n; int *m;
    if (!A) { h_out("bad-op"); return; }
    m = parse_mask(h_arg("mask"), A->alen, &n);
    if (n != A->alen) { free(m); h_out("bad-op"); return; }
    out_status(!strcmp(op, "rbb") ? esl_msa_RemoveBrokenBasepairs(A, errbuf, m) : esl_msa_ColumnSubset(A, errbuf, m));
    free(m);
  } else if (!strcmp(op, "minimgaps") || !strcmp(op, "minimgapstext") || !strcmp(op, "nogaps") || !strcmp(op, "nogapstext")) {
    char *gaps = arg_str("gaps"); int rf = (int) h_argi("rf", 0), fix = (int) h_argi("fix", 0), st;
    if (!A || !gaps) { free(gaps); h_out("bad-op"); return; }
    if      (!strcmp(op, "minimgaps"))     st = esl_msa_MinimGaps(A, errbuf, gaps, rf);
    else if (!strcmp(op, "minimgapstext")) st = esl_msa_MinimGapsText(A, errbuf, gaps, rf, fix);
    else if (!strcmp(op, "nogaps"))        st = esl_msa_NoGaps(A, errbuf, gaps);
    else                                   st = esl_msa_NoGapsText(A, errbuf, gaps, fix);
    out_status(st); free(gaps);
  } else if (!strcmp(op, "seqsubset")) {
    int64_t n; int *m; int st;
    if (!A) { h_out("bad-op"); return; }
    m = parse_mask(h_arg("mask"), A->nseq, &n);
    if (n != A->nseq) { free(m); h_out("bad-op"); return; }
    if (B) esl_msa_Destroy(B); B = NULL;
    st = esl_msa_SequenceSubset(A, m, &B);
    out_status(st); free(m);
  } else if (!strcmp(op, "clone")) {
    if (!A) { h_out("bad-op"); return; }
    if (B) esl_msa_Destroy(B);
    B = esl_msa_Clone(A);
    h_out(B ? "ok" : "null");
  } else if (!strcmp(op, "copy")) {
    int st;
    if (!A) { h_out("bad-op"); return; }
    if (B) esl_msa_Destroy(B);
    B = (A->flags & eslMSA_DIGITAL) ? esl_msa_CreateDigital(A->abc, A->nseq, A->alen) : esl_msa_Create(A->nseq, A->alen);
    st = esl_msa_Copy(A, B);
    out_status(st);
  } else if (!strcmp(op, "revcomp")) {
    if (!A) { h_out("bad-op"); return; }
    out_status(esl_msa_ReverseComplement(A));
  } else if (!strcmp(op, "flushleft")) {
    if (!A || !(A->flags & eslMSA_DIGITAL)) { h_out("bad-op"); return; }
    out_status(esl_msa_FlushLeftInserts(A));
  } else if (!strcmp(op, "markfrag")) {
    const char *v = h_arg("t"); uint32_t u = v ? (uint32_t) strtoul(v, NULL, 16) : 0; float t; ESL_BITFIELD *bf = NULL; int st, i;
    if (!A) { h_out("bad-op"); return; }
    memcpy(&t, &u, 4);
    st = esl_msa_MarkFragments(A, t, &bf);
    o_reset(); o_fmt("%s", h_status(st));
    if (st == eslOK) { o_add(" frag="); for (i = 0; i < A->nseq; i++) o_add(esl_bitfield_IsSet(bf, i) ? "1" : "0"); }
    h_out("%s", ob);
    if (bf) esl_bitfield_Destroy(bf);
  } else if (!strcmp(op, "markfragold")) {
    if (!A) { h_out("bad-op"); return; }
    out_status(esl_msa_MarkFragments_old(A, h_argbits("t")));
  } else if (!strcmp(op, "clr")) {
    const char *f = h_arg("f"); char **p = NULL;
    if (!A || !f) { h_out("bad-op"); return; }
    if      (!strcmp(f, "name"))    p = &A->name;    else if (!strcmp(f, "desc"))    p = &A->desc;
    else if (!strcmp(f, "acc"))     p = &A->acc;     else if (!strcmp(f, "au"))      p = &A->au;
    else if (!strcmp(f, "ss_cons")) p = &A->ss_cons; else if (!strcmp(f, "sa_cons")) p = &A->sa_cons;
    else if (!strcmp(f, "pp_cons")) p = &A->pp_cons; else if (!strcmp(f, "rf"))      p = &A->rf;
    else if (!strcmp(f, "mm"))      p = &A->mm;
    if (!p) { h_out("bad-op"); return; }
    if (p == &A->name) esl_msa_SetName(A, NULL, -1); else if (p == &A->desc) esl_msa_SetDesc(A, NULL, -1);
    else if (p == &A->acc) esl_msa_SetAccession(A, NULL, -1); else if (p == &A->au) esl_msa_SetAuthor(A, NULL, -1);
    else { free(*p); *p = NULL; }
    h_out("ok");
  } else if (!strcmp(op, "clrcut")) {
    int k = (int) h_argi("i", 0);
    if (!A || k < 0 || k >= eslMSA_NCUTS) { h_out("bad-op"); return; }
    A->cutset[k] = FALSE; h_out("ok");
  } else if (!strcmp(op, "compare") || !strcmp(op, "cmpmand") || !strcmp(op, "cmpopt")) {
    int st;
    if (!A || !B) { h_out("bad-op"); return; }
    if (!strcmp(op, "cmpopt") && A->nseq != B->nseq) { h_out("bad-op"); return; }
    st = !strcmp(op, "compare") ? esl_msa_Compare(A, B) : !strcmp(op, "cmpmand") ? esl_msa_CompareMandatory(A, B) : esl_msa_CompareOptional(A, B);
    h_out("%s repinv=%s", h_status(st), (repinv(A) && repinv(B)) ? "ok" : "BAD");
  } else if (!strcmp(op, "checksum")) {
    const char *w = h_arg("w"); ESL_MSA *m = (w && !strcmp(w, "b")) ? B : A; uint32_t sum = 0; int st;
    if (!m) { h_out("nomsa"); return; }
    st = esl_msa_Checksum(m, &sum);
    h_out("%s sum=%08x", h_status(st), (unsigned) sum);
  } else if (!strcmp(op, "hash") || !strcmp(op, "uniq")) {
    const char *w = h_arg("w"); ESL_MSA *m = (w && !strcmp(w, "b")) ? B : A; int st;
    if (!m) { h_out("nomsa"); return; }
    if (!strcmp(op, "hash")) {
      st = esl_msa_Hash(m);
      if (st == eslOK) {         /* the index maps every name to its own row */
        int i, idx;
        if (!m->index) { h_out("ok-but-no-index"); return; }
        for (i = 0; i < m->nseq; i++)
          if (esl_keyhash_Lookup(m->index, m->sqname[i], -1, &idx) != eslOK || idx != i) { h_out("ok-but-bad-index"); return; }
      } else if (m->index) { h_out("%s-but-index-kept", h_status(st)); return; }
    } else st = esl_msa_CheckUniqueNames(m);
    out_status(st);
  } else if (!strcmp(op, "degen2x")) {
    if (!A) { h_out("bad-op"); return; }
    out_status(esl_msa_ConvertDegen2X(A));
  } else if (!strcmp(op, "symconvert")) {
    char *o = arg_str("old"), *n = arg_str("new");
    if (!A || !o || !n) { free(o); free(n); h_out("bad-op"); return; }
    out_status(esl_msa_SymConvert(A, o, n)); free(o); free(n);
  } else if (!strcmp(op, "defwgts")) {
    if (!A) { h_out("bad-op"); return; }
    out_status(esl_msa_SetDefaultWeights(A));
  } else if (!strcmp(op, "reasonablerf")) {
    char *rf; int st;
    if (!A) { h_out("bad-op"); return; }
    rf = malloc((size_t) A->alen + 1); memset(rf, '?', (size_t) A->alen); rf[A->alen] = 0;
    {
      /* abc=<name> on a TEXT alignment: the caller hangs its own alphabet on the alignment for the call (the text branch of
       * useconsseq=TRUE needs one: every text alignment the library builds has msa->abc == NULL -> eslEINVAL) */
      ESL_ALPHABET *lent = (!(A->flags & eslMSA_DIGITAL) && A->abc == NULL) ? get_abc(h_arg("abc")) : NULL;
      if (lent) A->abc = lent;
      st = esl_msa_ReasonableRF(A, h_argbits("symfrac"), h_argi("cons", 0) == 1 ? TRUE : FALSE, rf);
      if (lent) A->abc = NULL;
    }
    out_ss(st == eslOK ? eslOK : st, rf); free(rf);

  /* ---------------- WUSS ---------------- */
  } else if (!strcmp(op, "wuss2ct")) {
    char *ss = arg_str("ss"); int n, st; int *ct;
    if (!ss) { h_out("bad-op"); return; }
    n = (int) strlen(ss); ct = malloc(sizeof(int) * (n + 1));
    st = esl_wuss2ct(ss, n, ct);
    out_ct(st, ct, n); free(ct); free(ss);
  } else if (!strcmp(op, "ct2wuss") || !strcmp(op, "ct2simple")) {
    int n, st; int *ct = parse_ct(h_arg("ct"), &n); char *ss = malloc(n + 1);
    st = !strcmp(op, "ct2wuss") ? esl_ct2wuss(ct, n, ss) : esl_ct2simplewuss(ct, n, ss);
    out_ss(st, ss); free(ss); free(ct);
  } else if (!strcmp(op, "roundtrip")) {        /* wuss -> ct -> wuss -> ct: prints both tables */
    char *ss = arg_str("ss"); int n, st, i; int *ct, *ct2; char *s2;
    if (!ss) { h_out("bad-op"); return; }
    n = (int) strlen(ss); ct = malloc(sizeof(int) * (n + 1)); ct2 = malloc(sizeof(int) * (n + 1)); s2 = malloc(n + 1);
    o_reset();
    st = esl_wuss2ct(ss, n, ct);
    o_fmt("%s", h_status(st));
    if (st == eslOK) {
      o_add(" ct="); if (n == 0) o_add("-"); for (i = 1; i <= n; i++) o_fmt("%s%d", i > 1 ? "," : "", ct[i]);
      st = esl_ct2wuss(ct, n, s2);
      o_fmt(" %s%s", h_status(st), h_exception_seen ? " exception" : "");
      if (st == eslOK) {
        o_add(" ss="); o_str(s2);
        st = esl_wuss2ct(s2, n, ct2);
        o_fmt(" %s", h_status(st));
        if (st == eslOK) { o_add(" ct="); if (n == 0) o_add("-"); for (i = 1; i <= n; i++) o_fmt("%s%d", i > 1 ? "," : "", ct2[i]); }
      }
    }
    h_out("%s", ob); free(ss); free(ct); free(ct2); free(s2);
  } else if (!strcmp(op, "wuss2kh") || !strcmp(op, "kh2wuss") || !strcmp(op, "nopseudo") || !strcmp(op, "wussrev") || !strcmp(op, "wussfull")) {
    char *ss = arg_str("ss"); int st; char *out; int inplace = (int) h_argi("inplace", 0);
    if (!ss) { h_out("bad-op"); return; }
    out = inplace ? ss : malloc(strlen(ss) + 1);
    if (!inplace) { memset(out, '?', strlen(ss)); out[strlen(ss)] = 0; }
    if      (!strcmp(op, "wuss2kh"))  st = esl_wuss2kh(ss, out);
    else if (!strcmp(op, "kh2wuss"))  st = esl_kh2wuss(ss, out);
    else if (!strcmp(op, "nopseudo")) st = esl_wuss_nopseudo(ss, out);
    else if (!strcmp(op, "wussrev"))  st = esl_wuss_reverse(ss, out);
    else                              st = esl_wuss_full(ss, out);
    out_ss(st, out);
    if (!inplace) free(out);
    free(ss);
  } else if (!strcmp(op, "rbbss")) {
    char *ss = arg_str("ss"); int64_t n; int *m; int st;
    if (!ss) { h_out("bad-op"); return; }
    m = parse_mask(h_arg("mask"), (int64_t) strlen(ss), &n);
    if (n != (int64_t) strlen(ss)) { free(m); free(ss); h_out("bad-op"); return; }
    st = esl_msa_RemoveBrokenBasepairsFromSS(ss, errbuf, (int) strlen(ss), m);
    o_reset(); o_fmt("%s%s ss=", h_status(st), h_exception_seen ? " exception" : ""); o_str(ss);
    h_out("%s", ob); free(m); free(ss);
  } else h_out("bad-op");
}
int main(void) { return h_main(); }
