/* C05 correspondence harness: esl_buffer.c (+ esl_mem.c through it).
 * Protocol: see lean/Driver/C05.lean. One answer line per op:
 *    <status> <hex bytes> n=<count> off=<offset after the op>[ z=1][ moved=1][ stale=1]
 * moved=1 : bf->mem changed while a stable anchor is in force (pointers handed out are dangling)
 * stale=1 : bytes behind a pointer handed out under the stable anchor changed (window was shifted)
 * `open … retire=1` (sent by the plug-in when the working tree has fix C05-stable-anchor-keep-oldmem: buffer_refill() keeps the old
 * block on bf->retired instead of realloc()ing it): bf->mem may change under a stable anchor, so moved= is never reported; instead
 * EVERY pointer handed out since the anchor was set is read again after EVERY operation (ASan: use-after-free if a block was
 * freed; stale=1 if its bytes changed) — "all pointers returned by _Get*() remain valid at least until the anchor is raised".
 */
#include "hcommon.h"
#include <unistd.h>
#include "esl_buffer.h"

extern int esl_verif_buffer_pagesize;
extern int esl_verif_buffer_forcemode;

static ESL_BUFFER *bf;
static unsigned char *g_data; static int64_t g_n;
static FILE *g_fp;                 /* stream handed to OpenStream (ours to close) */
static char  g_tmp[64]; static int g_tmp_live;
static char *lastp; static int lastp_ok;

/* stable-anchor pointer monitor */
#define NSAVE 64
#define SAVELEN 48
static char *stable_mem; static int stable_on; static int g_retire;
static struct { char *p; int len; char copy[SAVELEN]; } saved[NSAVE]; static int nsaved;

static void open_cleanup(void);   /* round4-open */
static void cleanup(void)
{
  if (bf)   { esl_buffer_Close(bf); bf = NULL; }
  if (g_fp) { fclose(g_fp); g_fp = NULL; }
  if (g_tmp_live) { unlink(g_tmp); g_tmp_live = 0; }
  if (g_data) { free(g_data); g_data = NULL; }
  open_cleanup();   /* round4-open */
  g_n = 0; lastp = NULL; lastp_ok = 0; stable_on = 0; nsaved = 0;
}
/* A case that does not finish in 3 s is an endless loop in the library: die, so that the engine records a fault for it.
 * Each death leaves a mark in the (per-run) working directory; after 3 of them the remaining cases are answered
 * "skipped" at once, so that a tree that hangs on many inputs is still reported within a minute or two. */
#include <signal.h>
#include <fcntl.h>
#define HANGMARK "h_buffer.hangs"
static int g_skip;
static void on_alarm(int sig) { int fd = open(HANGMARK, O_WRONLY | O_CREAT | O_APPEND, 0600); (void) sig; if (fd >= 0) { if (write(fd, "x", 1) < 0) {} close(fd); } raise(SIGKILL); }
static void h_case_begin(void)
{
  FILE *f; long n = 0;
  cleanup();
  if ((f = fopen(HANGMARK, "rb")) != NULL) { fseek(f, 0, SEEK_END); n = ftell(f); fclose(f); }
  g_skip = (n >= 3);
  signal(SIGALRM, on_alarm);
  alarm(3);
}
static void h_case_end(void)   { alarm(0); cleanup(); }

static int write_tmp(void)
{
  FILE *f;
  snprintf(g_tmp, sizeof(g_tmp), "h_buffer_%ld.tmp", (long) getpid());
  if ((f = fopen(g_tmp, "wb")) == NULL) return 0;
  if (g_n > 0 && fwrite(g_data, 1, (size_t) g_n, f) != (size_t) g_n) { fclose(f); return 0; }
  fclose(f);
  g_tmp_live = 1;
  return 1;
}

static char h_poison[8];
static void remember(char *p, esl_pos_t n)
{
  if (!stable_on || p == NULL || p == h_poison || n < 0 || nsaved >= NSAVE) return;
  saved[nsaved].p = p; saved[nsaved].len = (int) (n < SAVELEN ? n : SAVELEN);
  memcpy(saved[nsaved].copy, p, saved[nsaved].len); nsaved++;
}

/* Out-parameters are poisoned before every call: "on EOF/EOL <*ret_p> is NULL and <*ret_n> is 0" is part of the
 * documented results, and a pointer left untouched must not be mistaken for a NULL. */
#define POISON(p, n) do { (p) = h_poison; (n) = -77; } while (0)

/* print the answer line; p may be NULL */
static void answer(int status, const char *p, esl_pos_t n, int z)
{
  int moved = 0, stale = 0, i;
  if (status != eslOK && (p != NULL || n != 0)) {   /* documented: NULL / 0 on every non-OK return */
    h_out("%s DIRTY-OUT-PARAMS p=%s n=%" PRId64 " off=%" PRId64, h_status(status), p == NULL ? "null" : p == h_poison ? "untouched" : "set", (int64_t) n,
          bf ? (int64_t) esl_buffer_GetOffset(bf) : (int64_t) 0);
    return;
  }
  if (p == h_poison) { h_out("%s UNTOUCHED-OUT-PARAM n=%" PRId64, h_status(status), (int64_t) n); return; }
  if (bf && stable_on) {
    if (bf->anchor == -1) { stable_on = 0; nsaved = 0; }
    else if (!g_retire && bf->mem != stable_mem) { moved = 1; }   /* the saved pointers are kept: `checkstable` reads through them */
    else for (i = 0; i < nsaved; i++) if (memcmp(saved[i].p, saved[i].copy, saved[i].len) != 0) stale = 1;
  }
  { char abuf[64] = "a=-";   /* the anchor in input coordinates and its count: anchors must be released, or a stream is kept in memory for ever */
    if (bf && bf->fp && bf->anchor != -1) snprintf(abuf, sizeof(abuf), "a=%" PRId64 "/%d", (int64_t) (bf->baseoffset + bf->anchor), bf->nanchor);
    h_out("%s %s n=%" PRId64 " off=%" PRId64 " %s%s%s%s", h_status(status), h_hex(p, p ? n : 0), (int64_t) n,
          bf ? (int64_t) esl_buffer_GetOffset(bf) : (int64_t) 0, abuf, z ? " z=1" : "", moved ? " moved=1" : "", stale ? " stale=1" : "");
  }
}

/* BEGIN round4-mem */
/* Stateless ops on the string/number helpers of esl_mem.c (protocol: lean/EaselModel/Buffer/MemDriver.lean).
 * The memory line is copied into an exactly sized malloc block (no terminator), C-string arguments into blocks of
 * strlen+1 bytes, so that ASan sees any over-read. */
#include "esl_mem.h"
static char *mem_exact(const char *key, int64_t *n, int *isnull)
{
  const char *a = h_arg(key); unsigned char *t; char *b;
  *isnull = 0; *n = 0;
  if (!a) return NULL;
  if (!strcmp(a, "null")) { *isnull = 1; return NULL; }
  t = h_unhex(a, n);
  b = malloc((size_t) *n); if (!b) b = malloc(1);
  if (*n > 0) memcpy(b, t, (size_t) *n);
  free(t);
  return b;
}
/* C-string argument: bytes up to the first NUL + NUL, exactly sized */
static char *mem_cstr(const char *key, int *isnull)
{
  const char *a = h_arg(key); unsigned char *t; char *b; int64_t n; size_t l;
  *isnull = 0;
  if (!a) return NULL;
  if (!strcmp(a, "null")) { *isnull = 1; return NULL; }
  t = h_unhex(a, &n);
  l = strlen((char *) t);
  b = malloc(l + 1); memcpy(b, t, l + 1);
  free(t);
  return b;
}
#define MEM_STRTOI(FN, T, PA, PB, FMT)                                                                                  \
  { T va = (T) (PA), vb = (T) (PB), v3 = (T) (PA); int na = -77, nb = -78, n3 = -77; int s1, s2, s3, s4, s5;               \
    s1 = FN(p, n, base, &na, &va);  s2 = FN(p, n, base, &nb, &vb);                                                       \
    s3 = FN(p, n, base, &n3, NULL); s4 = FN(p, n, base, NULL, &v3); s5 = FN(p, n, base, NULL, NULL);                     \
    if (s1 != s2 || s1 != s3 || s1 != s4 || s1 != s5) h_out("INCONSISTENT-STATUS %d %d %d %d %d", s1, s2, s3, s4, s5);   \
    else if (na == -77 && nb == -78 && va == (T) (PA) && vb == (T) (PB)) {                                                \
      if (n3 != -77 || v3 != (T) (PA)) h_out("INCONSISTENT-OPT"); else h_out("%s nc=untouched val=untouched", h_status(s1)); } \
    else if (na != nb || va != vb || n3 != na || v3 != va) h_out("INCONSISTENT-OPT %s nc=%d/%d/%d", h_status(s1), na, nb, n3);  \
    else h_out("%s nc=%d val=%" FMT, h_status(s1), na, va); }
static int mem_op(void)
{
  const char *op = h_words[0];
  int64_t n = 0; int pnull = 0, snull = 0; char *p = NULL, *s = NULL;

  if (!strcmp(op, "strtoi32") || !strcmp(op, "strtoi64") || !strcmp(op, "strtoi")) {
    int base = (int) h_argi("base", 10);
    p = mem_exact("hex", &n, &pnull);
    if (!p) { h_out("bad-op"); return 1; }
    if      (!strcmp(op, "strtoi32")) MEM_STRTOI(esl_mem_strtoi32, int32_t, 0x5a5a5a5a, 0x25a5a5a5, PRId32)
    else if (!strcmp(op, "strtoi64")) MEM_STRTOI(esl_mem_strtoi64, int64_t, 0x5a5a5a5a5a5a5a5aLL, 0x25a5a5a5a5a5a5a5LL, PRId64)
    else                              MEM_STRTOI(esl_mem_strtoi,   int,     0x5a5a5a5a, 0x25a5a5a5, "d")
    free(p);
    return 1;
  }
  if (!strcmp(op, "memspn") || !strcmp(op, "memcspn")) {
    p = mem_exact("hex", &n, &pnull); s = mem_cstr("set", &snull);
    if (!p || !s) { free(p); free(s); h_out("bad-op"); return 1; }
    h_out("n=%" PRId64, (int64_t) (!strcmp(op, "memspn") ? esl_memspn(p, n, s) : esl_memcspn(p, n, s)));
    free(p); free(s);
    return 1;
  }
  if (!strcmp(op, "memtok")) {
    char *q, *tok = h_poison; esl_pos_t m, toklen = -77; int st;
    p = mem_exact("hex", &n, &pnull); s = mem_cstr("delim", &snull);
    if (!p || !s) { free(p); free(s); h_out("bad-op"); return 1; }
    q = p; m = n;
    st = esl_memtok(&q, &m, s, &tok, &toklen);
    if (tok == h_poison || toklen == -77) h_out("%s UNTOUCHED-OUT-PARAM", h_status(st));
    else if (tok == NULL) h_out("%s tok=null at=0 off=%" PRId64 " n=%" PRId64 "%s", h_status(st), (int64_t) (q - p), (int64_t) m, toklen != 0 ? " DIRTY-TOKLEN" : "");
    else if (tok < p || toklen < 0 || tok + toklen > p + n) h_out("%s TOKEN-OUTSIDE-LINE", h_status(st));
    else h_out("%s tok=%s at=%" PRId64 " off=%" PRId64 " n=%" PRId64, h_status(st), h_hex(tok, toklen), (int64_t) (tok - p), (int64_t) (q - p), (int64_t) m);
    free(p); free(s);
    return 1;
  }
  if (!strcmp(op, "memnewline")) {
    esl_pos_t nline = -77; int nterm = -77, st;
    p = mem_exact("hex", &n, &pnull);
    if (!p) { h_out("bad-op"); return 1; }
    st = esl_memnewline(p, n, &nline, &nterm);
    h_out("%s nline=%" PRId64 " nterm=%d", h_status(st), (int64_t) nline, nterm);
    free(p);
    return 1;
  }
  if (!strcmp(op, "memstrcmp") || !strcmp(op, "memstrpfx") || !strcmp(op, "memstrcontains") || !strcmp(op, "memstrcmp_case") || !strcmp(op, "memstrpfx_case")) {
    int r;
    p = mem_exact("hex", &n, &pnull); s = mem_cstr("s", &snull);
    if ((!p && !pnull) || (!s && !snull)) { free(p); free(s); h_out("bad-op"); return 1; }
    if      (!strcmp(op, "memstrcmp"))      r = esl_memstrcmp(p, n, s);
    else if (!strcmp(op, "memstrpfx"))      r = esl_memstrpfx(p, n, s);
    else if (!strcmp(op, "memstrcontains")) r = esl_memstrcontains(p, n, s);
    else if (!strcmp(op, "memstrcmp_case")) r = esl_memstrcmp_case(p, n, s);
    else                                    r = esl_memstrpfx_case(p, n, s);
    h_out("r=%d", r);
    free(p); free(s);
    return 1;
  }
  if (!strcmp(op, "memstrdup")) {
    char *d = h_poison; int st;
    p = mem_exact("hex", &n, &pnull);
    if (!p && !pnull) { h_out("bad-op"); return 1; }
    st = esl_memstrdup(p, n, &d);
    if (d == h_poison) h_out("%s UNTOUCHED-OUT-PARAM", h_status(st));
    else if (d == NULL) h_out("%s null", h_status(st));
    else { h_out("%s %s", h_status(st), h_hex(d, n + 1)); free(d); }
    free(p);
    return 1;
  }
  if (!strcmp(op, "memstrcpy")) {
    char *d; int st;
    p = mem_exact("hex", &n, &pnull);
    if (!p) { h_out("bad-op"); return 1; }
    d = malloc((size_t) n + 1); memset(d, 0x7e, (size_t) n + 1);
    st = esl_memstrcpy(p, n, d);
    h_out("%s %s", h_status(st), h_hex(d, n + 1));
    free(d); free(p);
    return 1;
  }
  if (!strcmp(op, "memisreal")) {
    p = mem_exact("hex", &n, &pnull);
    if (!p && !pnull) { h_out("bad-op"); return 1; }
    h_out("r=%d", esl_mem_IsReal(p, n));
    free(p);
    return 1;
  }
  return 0;
}
/* END round4-mem */

/* BEGIN round4-open */
/* fsopen name=<hex> env=<0|1|2> dirs=<hex> ps=<n> files=<hexpath>:<hexunit>[*rep][:<hexplain>],...   (protocol: lean/EaselModel/Buffer/OpenDriver.lean)
 * A fresh directory tree OPEN_ROOT/c/w is built under the harness's working directory; the call is made with OPEN_ROOT/c/w
 * as the current directory, the files are real files at their (relative) paths, the variable is really set/unset, and
 * <filename> is an exactly-sized heap block. The buffer stays open for the operations that follow in the same case. */
#include <sys/stat.h>
#include <sys/types.h>
#include <dirent.h>
#define OPEN_ROOT "h_open_tree"
#define OPEN_ENV  "H_BUFFER_PATH"
static int open_live, open_homefd = -1;

static void open_rmtree(const char *path)
{
  DIR *d = opendir(path); struct dirent *e; struct stat st; char sub[2048];
  if (d == NULL) { unlink(path); return; }
  while ((e = readdir(d)) != NULL) {
    if (!strcmp(e->d_name, ".") || !strcmp(e->d_name, "..")) continue;
    snprintf(sub, sizeof(sub), "%s/%s", path, e->d_name);
    if (lstat(sub, &st) == 0 && S_ISDIR(st.st_mode)) open_rmtree(sub); else unlink(sub);
  }
  closedir(d);
  rmdir(path);
}
static void open_cleanup(void)
{
  if (open_homefd >= 0) { if (fchdir(open_homefd) != 0) {} close(open_homefd); open_homefd = -1; }
  unsetenv(OPEN_ENV);
  if (open_live) { open_rmtree(OPEN_ROOT); open_live = 0; }
}
/* the path must stay inside OPEN_ROOT when resolved from OPEN_ROOT/c/w; creates the directories on the way. 1 = ok */
static int open_mkparents(char *path)
{
  int depth = 2; char *s = path, *q;
  if (path[0] == '/' || path[0] == 0) return 0;
  while ((q = strchr(s, '/')) != NULL) {
    *q = 0;
    if      (!strcmp(s, ".."))               { if (--depth < 0) { *q = '/'; return 0; } }
    else if (strcmp(s, ".") && s[0] != 0)    { depth++; mkdir(path, 0700); }
    *q = '/';
    s = q + 1;
  }
  return strcmp(s, "..") != 0 && strcmp(s, ".") != 0 && s[0] != 0;
}
static const char *open_modename(int m)
{
  switch (m) {
  case eslBUFFER_UNSET: return "unset"; case eslBUFFER_STREAM: return "stream"; case eslBUFFER_CMDPIPE: return "pipe";
  case eslBUFFER_FILE: return "file";   case eslBUFFER_ALLFILE: return "allfile"; case eslBUFFER_MMAP: return "mmap";
  case eslBUFFER_STRING: return "string"; default: return "mode?";
  }
}
static int open_op(void)
{
  char *files, *e, *next, *fn; unsigned char *dirs; int64_t fl, dl; int env, status, okfiles = 1;
  if (strcmp(h_words[0], "fsopen") != 0) return 0;
  if (!h_arg("name") || !h_arg("dirs") || !h_arg("files")) { h_out("bad-op"); return 1; }
  cleanup();
  open_rmtree(OPEN_ROOT);      /* left behind by a process that died inside a call */
  if (mkdir(OPEN_ROOT, 0700) != 0) { h_out("bad-op"); return 1; }
  open_live = 1;
  if (mkdir(OPEN_ROOT "/c", 0700) != 0 || mkdir(OPEN_ROOT "/c/w", 0700) != 0) { h_out("bad-op"); return 1; }
  if ((open_homefd = open(".", O_RDONLY)) < 0 || chdir(OPEN_ROOT "/c/w") != 0) { h_out("bad-op"); return 1; }
  files = strdup(h_arg("files"));
  for (e = files; okfiles && e && strcmp(files, "-") != 0; e = next) {
    char *c1, *c2, *star; unsigned char *path, *unit; int64_t pl, ul, rep = 1, r; FILE *f;
    if ((next = strchr(e, ',')) != NULL) *next++ = 0;
    if ((c1 = strchr(e, ':')) == NULL) { okfiles = 0; break; }
    *c1++ = 0;
    if ((c2 = strchr(c1, ':')) != NULL) *c2 = 0;       /* the plain text behind a gzip stream is the model's business */
    if ((star = strchr(c1, '*')) != NULL) { *star = 0; rep = strtoll(star + 1, NULL, 10); }
    path = h_unhex(e, &pl); unit = h_unhex(c1, &ul);
    if ((int64_t) strlen((char *) path) != pl || !open_mkparents((char *) path) || (f = fopen((char *) path, "wb")) == NULL) okfiles = 0;
    else {
      for (r = 0; r < rep; r++) if (ul > 0 && fwrite(unit, 1, (size_t) ul, f) != (size_t) ul) okfiles = 0;
      if (fclose(f) != 0) okfiles = 0;
    }
    free(path); free(unit);
  }
  free(files);
  if (!okfiles) { open_cleanup(); h_out("bad-op"); return 1; }
  env  = (int) h_argi("env", 0);
  dirs = h_unhex(h_arg("dirs"), &dl);
  if (env == 2) setenv(OPEN_ENV, (char *) dirs, 1); else unsetenv(OPEN_ENV);
  free(dirs);
  fn = (char *) h_unhex(h_arg("name"), &fl);      /* malloc(strlen + 1): reading past the terminator is a heap overflow */
  esl_verif_buffer_pagesize  = (int) h_argi("ps", 0);
  esl_verif_buffer_forcemode = 0;
  status = esl_buffer_Open(fn, env ? OPEN_ENV : NULL, &bf);
  free(fn);
  unsetenv(OPEN_ENV);
  if (fchdir(open_homefd) != 0) {}
  close(open_homefd); open_homefd = -1;
  if (status == eslOK && bf)
    h_out("ok - n=0 off=%" PRId64 " a=- mode=%s file=%s ps=%d", (int64_t) esl_buffer_GetOffset(bf), open_modename(bf->mode_is),
          h_hex(bf->filename, bf->filename ? (int64_t) strlen(bf->filename) : 0), (int) bf->pagesize);
  else if (bf) {
    h_out("%s bf=1 msg=%d unset=%d", h_status(status), bf->errmsg[0] != 0,
          bf->mem == NULL && bf->fp == NULL && bf->n == 0 && bf->mode_is == eslBUFFER_UNSET);
    esl_buffer_Close(bf); bf = NULL;
  }
  else h_out("%s bf=0", h_status(status));
  return 1;
}
/* END round4-open */

static void h_op(void)
{
  const char *op = h_words[0];
  int status; char *p = NULL; esl_pos_t n = 0;

  if (g_skip) { h_out("skipped"); return; }
  if (mem_op()) return;   /* round4-mem */
  if (!strcmp(op, "open") || !strcmp(op, "fsopen")) g_retire = (int) h_argi("retire", 0);
  if (open_op()) return;   /* round4-open */
  if (!strcmp(op, "open")) {
    const char *mode = h_arg("mode"); unsigned char *tmp; int64_t len;
    if (!mode || !h_arg("hex")) { h_out("bad-op"); return; }
    cleanup();
    tmp = h_unhex(h_arg("hex"), &len);
    { int64_t rep = h_argi("rep", 1), r;     /* input = the hex unit repeated rep times (for inputs of several MB) */
      g_data = malloc(len * rep > 0 ? (size_t) (len * rep) : 1);
      for (r = 0; r < rep; r++) if (len > 0) memcpy(g_data + r * len, tmp, (size_t) len);
      free(tmp);
      g_n = len * rep; }
    esl_verif_buffer_pagesize  = (int) h_argi("ps", 4096);
    esl_verif_buffer_forcemode = 0;
    if (!strcmp(mode, "string"))      status = esl_buffer_OpenMem((char *) g_data, g_n, &bf);
    else if (!strcmp(mode, "cstring")) {   /* n = -1: length taken by strlen(); the generator only uses it for NUL-free inputs */
      g_data = realloc(g_data, (size_t) g_n + 1); g_data[g_n] = 0;
      status = esl_buffer_OpenMem((char *) g_data, -1, &bf);
    }
    else if (!strcmp(mode, "pipe0")) {     /* filename NULL: <cmdfmt> is the complete command */
      char cmd[128];
      if (!write_tmp()) { h_out("bad-op"); return; }
      snprintf(cmd, sizeof(cmd), "cat %s", g_tmp);
      status = esl_buffer_OpenPipe(NULL, cmd, &bf);
    }
    else if (!strcmp(mode, "stream")) {
      g_fp = (g_n > 0) ? fmemopen(g_data, (size_t) g_n, "r") : fopen("/dev/null", "r");
      if (!g_fp) { h_out("bad-op"); return; }
      status = esl_buffer_OpenStream(g_fp, &bf);
    }
    else if (!strcmp(mode, "pipe"))   { if (!write_tmp()) { h_out("bad-op"); return; } status = esl_buffer_OpenPipe(g_tmp, "cat %s", &bf); }
    else if (!strcmp(mode, "file") || !strcmp(mode, "allfile") || !strcmp(mode, "mmap")) {
      if (!write_tmp()) { h_out("bad-op"); return; }
      esl_verif_buffer_forcemode = !strcmp(mode, "file") ? eslBUFFER_FILE : !strcmp(mode, "allfile") ? eslBUFFER_ALLFILE : eslBUFFER_MMAP;
      status = esl_buffer_OpenFile(g_tmp, &bf);
      esl_verif_buffer_forcemode = 0;
    }
    else if (!strcmp(mode, "auto") || !strcmp(mode, "open")) {
      /* the natural paths: esl_buffer_OpenFile() / esl_buffer_Open() choose the mode from the file size (no forcing) */
      if (!write_tmp()) { h_out("bad-op"); return; }
      status = !strcmp(mode, "auto") ? esl_buffer_OpenFile(g_tmp, &bf) : esl_buffer_Open(g_tmp, NULL, &bf);
    }
    else { h_out("bad-op"); return; }
    if (status != eslOK && bf) { esl_buffer_Close(bf); bf = NULL; }
    answer(status, NULL, 0, 0);
    return;
  }
  if (!strcmp(op, "openfail")) {
    /* documented failures of the openers: status, a live buffer object carrying a message, nothing else */
    const char *kind = h_arg("kind"); ESL_BUFFER *b2 = NULL;
    if (!kind) { h_out("bad-op"); return; }
    esl_verif_buffer_forcemode = 0;
    if      (!strcmp(kind, "file"))  status = esl_buffer_OpenFile("h_buffer_no_such_file", &b2);
    else if (!strcmp(kind, "open"))  status = esl_buffer_Open("h_buffer_no_such_file", NULL, &b2);
    else if (!strcmp(kind, "dir"))     status = esl_buffer_OpenFile(".", &b2);          /* 5d94071: a directory is refused (fopen() succeeds on it) */
    else if (!strcmp(kind, "opendir")) status = esl_buffer_Open("..", NULL, &b2);
    else if (!strcmp(kind, "pipe"))  status = esl_buffer_OpenPipe("h_buffer_no_such_file", "cat %s", &b2);
    else if (!strcmp(kind, "cmd"))   { if (!bf || !g_tmp_live) { h_out("bad-op"); return; } status = esl_buffer_OpenPipe(g_tmp, "false %s 2>/dev/null", &b2); }
    else { h_out("bad-op"); return; }
    h_out("%s bf=%d msg=%d unset=%d", h_status(status), b2 != NULL, b2 && b2->errmsg[0] != 0,
          b2 && b2->mem == NULL && b2->fp == NULL && b2->n == 0 && b2->mode_is == eslBUFFER_UNSET);
    if (b2) esl_buffer_Close(b2);
    return;
  }
  if (!bf) { h_out("bad-op"); return; }
  if (!strcmp(op, "window")) {
    /* where the window stands: a stream whose window never moves on (an anchor or bf->stable that is not released) is kept in memory for ever */
    h_out("ok base=%" PRId64 " n=%" PRId64, (int64_t) bf->baseoffset, (int64_t) bf->n);
    return;
  }
  if (!strcmp(op, "checkstable")) {
    /* read through every pointer handed out since the stable anchor was set ("remain valid at least until the anchor is raised"):
     * if buffer_refill() freed the block they point into, ASan stops us here (heap-use-after-free) */
    int i, bad = 0;
    if (stable_on && bf->anchor != -1)
      for (i = 0; i < nsaved; i++) if (memcmp(saved[i].p, saved[i].copy, saved[i].len) != 0) bad = 1;
    h_out(bad ? "stale" : "ok");
    return;
  }

  /* Operations OUTSIDE the API contract (try...): executed unless they violate the one duty left to the caller
   * (lean/EaselModel/Buffer/Safe.lean: CallerOk, evaluated here on the real ESL_BUFFER), then answered "unsafe":
   *   Set(p, k) : p + k stays within the loaded bytes (undefined by the documentation, unchecked by the code)
   * SetOffset / SetAnchor / SetStableAnchor have a defined outcome for every argument (theorem history_total).      */
  if (!strncmp(op, "try", 3)) {
    int safe = 1; int64_t k = h_argi("k", 0);
    if      (!strcmp(op, "tryset"))       safe = !lastp_ok || (lastp - bf->mem) + k <= bf->n;
    else if (!strcmp(op, "trysetoffset") || !strcmp(op, "trysetanchor") || !strcmp(op, "trysetstable")) safe = 1;
    else { h_out("bad-op"); return; }
    if (!safe) { lastp_ok = 0; h_out("unsafe"); return; }
    op += 3;
  }

  /* the same calls with NULL for the optional results (a line or token is skipped) */
  if (!strcmp(op, "getline0") || !strcmp(op, "fetchline0") || !strcmp(op, "fetchlinestr0") ||
      !strcmp(op, "gettoken0") || !strcmp(op, "fetchtoken0") || !strcmp(op, "fetchtokenstr0")) {
    int64_t sl; unsigned char *sep = h_unhex(h_arg("sep") ? h_arg("sep") : "-", &sl);
    lastp_ok = 0;
    if      (!strcmp(op, "getline0"))       status = esl_buffer_GetLine(bf, NULL, NULL);
    else if (!strcmp(op, "fetchline0"))     status = esl_buffer_FetchLine(bf, NULL, NULL);
    else if (!strcmp(op, "fetchlinestr0"))  status = esl_buffer_FetchLineAsStr(bf, NULL, NULL);
    else if (!strcmp(op, "gettoken0"))      status = esl_buffer_GetToken(bf, (char *) sep, NULL, NULL);
    else if (!strcmp(op, "fetchtoken0"))    status = esl_buffer_FetchToken(bf, (char *) sep, NULL, NULL);
    else                                    status = esl_buffer_FetchTokenAsStr(bf, (char *) sep, NULL, NULL);
    free(sep);
    answer(status, NULL, 0, 0);
    return;
  }

  if (!strcmp(op, "getline")) {
    POISON(p, n);
    status = esl_buffer_GetLine(bf, &p, &n);
    lastp = p; lastp_ok = (p != NULL && p != h_poison);
    answer(status, p, n, 0); remember(p, n);
    return;
  }
  lastp_ok = lastp_ok && !strcmp(op, "set");   /* a pointer is only good for the very next call */

  if (!strcmp(op, "fetchline")) {
    POISON(p, n);
    status = esl_buffer_FetchLine(bf, &p, &n);
    answer(status, p, n, 0); if (p != h_poison) free(p);
  } else if (!strcmp(op, "fetchlinestr")) {
    POISON(p, n);
    status = esl_buffer_FetchLineAsStr(bf, &p, &n);
    answer(status, p, n, p != NULL && p != h_poison && p[n] == '\0'); if (p != h_poison) free(p);
  } else if (!strcmp(op, "gettoken") || !strcmp(op, "fetchtoken") || !strcmp(op, "fetchtokenstr")) {
    int64_t sl; unsigned char *sep = h_unhex(h_arg("sep") ? h_arg("sep") : "-", &sl);
    POISON(p, n);
    if (!strcmp(op, "gettoken")) {
      status = esl_buffer_GetToken(bf, (char *) sep, &p, &n);
      lastp = p; lastp_ok = (p != NULL && p != h_poison);
      answer(status, p, n, 0); remember(p, n);
    } else if (!strcmp(op, "fetchtoken")) {
      status = esl_buffer_FetchToken(bf, (char *) sep, &p, &n);
      answer(status, p, n, 0); if (p != h_poison) free(p);
    } else {
      status = esl_buffer_FetchTokenAsStr(bf, (char *) sep, &p, &n);
      answer(status, p, n, p != NULL && p != h_poison && p[n] == '\0'); if (p != h_poison) free(p);
    }
    free(sep);
  } else if (!strcmp(op, "read")) {
    int64_t k = h_argi("k", 0); char *dst = malloc(k > 0 ? (size_t) k : 1);
    status = esl_buffer_Read(bf, (size_t) k, dst);
    if (status == eslOK) answer(status, dst, k, 0); else answer(status, NULL, 0, 0);
    free(dst);
  } else if (!strcmp(op, "get")) {
    POISON(p, n);
    status = esl_buffer_Get(bf, &p, &n);
    lastp = p; lastp_ok = (p != NULL && p != h_poison);
    answer(status, p, n, 0); remember(p, n);
  } else if (!strcmp(op, "set")) {
    int64_t k = h_argi("k", 0);
    status = lastp_ok ? esl_buffer_Set(bf, lastp, k) : esl_buffer_Set(bf, NULL, 0);
    lastp_ok = 0;
    answer(status, NULL, 0, 0);
  } else if (!strcmp(op, "getoffset")) {
    answer(eslOK, NULL, 0, 0);
  } else if (!strcmp(op, "setoffset")) {
    status = esl_buffer_SetOffset(bf, (esl_pos_t) h_argi("o", 0));
    answer(status, NULL, 0, 0);
  } else if (!strcmp(op, "setanchor")) {
    status = esl_buffer_SetAnchor(bf, (esl_pos_t) h_argi("o", 0));
    answer(status, NULL, 0, 0);
  } else if (!strcmp(op, "setstable")) {
    status = esl_buffer_SetStableAnchor(bf, (esl_pos_t) h_argi("o", 0));
    if (status == eslOK && bf->fp && bf->anchor != -1 && !stable_on) { stable_on = 1; stable_mem = bf->mem; nsaved = 0; }
    answer(status, NULL, 0, 0);
  } else if (!strcmp(op, "raise")) {
    status = esl_buffer_RaiseAnchor(bf, (esl_pos_t) h_argi("o", 0));
    answer(status, NULL, 0, 0);
  } else h_out("bad-op");
}
int main(void) { return h_main(); }
