/* C17 correspondence harness: esl_gencode.c against the real code.
 * Stateless ops; every op builds its own ESL_GENCODE from a built-in table id + initiator setting. */
#include "hcommon.h"
#include "esl_alphabet.h"
#include "esl_gencode.h"
#include "esl_getopts.h"
#include "esl_fileparser.h"
#include "esl_sq.h"
#include "esl_sqio.h"
#include <unistd.h>

/* the two main loops of miniapps/esl-translate.c (static do_by_sequences / do_by_windows) and its own option table */
#define main    xl_main
#define options xl_options
#define usage   xl_usage
#define banner  xl_banner
#include "miniapps/esl-translate.c"
#undef main
#undef options
#undef usage
#undef banner

static ESL_ALPHABET *NT, *AA, *NTD, *NTR;   /* NT = the nucleic alphabet selected by the current op (nt=dna|rna) */

static void h_case_begin(void) { if (!NTD) { NTD = esl_alphabet_Create(eslDNA); NTR = esl_alphabet_Create(eslRNA); AA = esl_alphabet_Create(eslAMINO); NT = NTD; } }
static void h_case_end(void) { }

static ESL_OPTIONS options[] = {
  { "-l",         eslARG_INT,      "20", NULL, NULL, NULL,  NULL, NULL,  "minimum ORF length",                            0 },
  { "-m",         eslARG_NONE,    FALSE, NULL, NULL, NULL,  NULL, "-M",  "ORFs must initiate with AUG only",              0 },
  { "-M",         eslARG_NONE,    FALSE, NULL, NULL, NULL,  NULL, "-m",  "ORFs must start with allowed initiation codon", 0 },
  { "--watson",   eslARG_NONE,    FALSE, NULL, NULL, NULL,  NULL, NULL,  "only translate top strand",                     0 },
  { "--crick",    eslARG_NONE,    FALSE, NULL, NULL, NULL,  NULL, NULL,  "only translate bottom strand",                  0 },
  {  0, 0, 0, 0, 0, 0, 0, 0, 0, 0 },
};

/* gencode for table <id> with initiator setting init = table|any|aug; NULL + status if the id is unknown */
static ESL_GENCODE *make_code(int *ret_status)
{
  ESL_GENCODE *g = esl_gencode_Create(NT, AA);
  const char *init = h_arg("init");
  int status = esl_gencode_Set(g, (int) h_argi("id", 1));
  *ret_status = status;
  if (status != eslOK) { esl_gencode_Destroy(g); return NULL; }
  if (init && !strcmp(init, "any")) esl_gencode_SetInitiatorAny(g);
  else if (init && !strcmp(init, "aug")) esl_gencode_SetInitiatorOnlyAUG(g);
  return g;
}

static char *bufcat(char *buf, size_t *cap, size_t *len, const char *s)
{
  size_t n = strlen(s);
  if (*len + n + 1 > *cap) { *cap = (*len + n + 1) * 2; buf = realloc(buf, *cap); }
  memcpy(buf + *len, s, n + 1); *len += n; return buf;
}

/* run one strand through ProcessStart / ProcessPiece per window / ProcessEnd.
 * d[1..L] in reading order; window sizes cuts[0..nc-1] (sum L, first >= 3) */
static void run_strand(ESL_GENCODE *g, ESL_GENCODE_WORKSTATE *wrk, const ESL_DSQ *d, int64_t L, int revcomp, const int64_t *cuts, int nc)
{
  int64_t done = 0; int w;
  for (w = 0; w < nc; w++) {
    int64_t C = (w == 0 ? 0 : 2), W = cuts[w], n = C + W, i;
    ESL_DSQ *win = malloc((size_t) n + 2);
    ESL_SQ *sq;
    win[0] = eslDSQ_SENTINEL; win[n + 1] = eslDSQ_SENTINEL;
    for (i = 1; i <= n; i++) win[i] = d[done - C + i];
    sq = esl_sq_CreateDigitalFrom(NT, "seq", win, n, "a desc", NULL, NULL);
    sq->L = L; sq->C = C; sq->W = W;
    if (!revcomp) { sq->start = done - C + 1; sq->end = done + W; }
    else          { sq->start = L - (done - C); sq->end = L - (done + W) + 1; }
    if (w == 0) esl_gencode_ProcessStart(g, wrk, sq);
    esl_gencode_ProcessPiece(g, wrk, sq);
    if (w == nc - 1) esl_gencode_ProcessEnd(wrk, sq);
    esl_sq_Destroy(sq); free(win);
    done += W;
  }
}

static void h_op(void)
{
  const char *op = h_words[0];
  int status;

  NT = (h_arg("nt") && !strcmp(h_arg("nt"), "rna")) ? NTR : NTD;
  if (!strcmp(op, "table")) {
    ESL_GENCODE *g = make_code(&status);
    if (!g) { h_out("%s", h_status(status)); return; }
    { unsigned char init[64]; int c; for (c = 0; c < 64; c++) init[c] = (unsigned char) g->is_initiator[c];
      h_out("ok id=%d desc=%s basic=%s init=%s", g->transl_table, h_hex(g->desc, (int64_t) strlen(g->desc)), h_hex(g->basic, 64), h_hex(init, 64)); }
    esl_gencode_Destroy(g);
  }
  else if (!strcmp(op, "triplets")) {
    /* every triplet over the Kp = 18 nucleotide codes: translation (as stored in an ESL_DSQ) and initiator flag */
    ESL_GENCODE *g = make_code(&status); int a, b, c, k = 0; int Kp = NT->Kp;
    unsigned char *tr, *in;
    if (!g) { h_out("%s", h_status(status)); return; }
    tr = malloc((size_t) Kp * Kp * Kp); in = malloc((size_t) Kp * Kp * Kp);
    for (a = 0; a < Kp; a++) for (b = 0; b < Kp; b++) for (c = 0; c < Kp; c++) {
      ESL_DSQ cod[3]; cod[0] = (ESL_DSQ) a; cod[1] = (ESL_DSQ) b; cod[2] = (ESL_DSQ) c;
      tr[k] = (unsigned char) esl_gencode_GetTranslation(g, cod);
      in[k] = (unsigned char) esl_gencode_IsInitiator(g, cod);
      k++;
    }
    h_out("ok tr=%s in=%s", h_hex(tr, k), h_hex(in, k));
    free(tr); free(in); esl_gencode_Destroy(g);
  }
  else if (!strcmp(op, "codon")) {
    ESL_GENCODE *g = make_code(&status); ESL_DSQ cod[3];
    if (!g) { h_out("%s", h_status(status)); return; }
    cod[0] = (ESL_DSQ) h_argi("a", 0); cod[1] = (ESL_DSQ) h_argi("b", 0); cod[2] = (ESL_DSQ) h_argi("c", 0);
    { int t = esl_gencode_GetTranslation(g, cod); int i = esl_gencode_IsInitiator(g, cod); h_out("ok aa=%d init=%d", t, i); }
    esl_gencode_Destroy(g);
  }
  else if (!strcmp(op, "write") || !strcmp(op, "readwrite")) {
    ESL_GENCODE *g = make_code(&status); char *mem = NULL; size_t msz = 0; FILE *fp;
    if (!g) { h_out("%s", h_status(status)); return; }
    fp = open_memstream(&mem, &msz);
    status = esl_gencode_Write(fp, g, (int) h_argi("comment", 0));
    fclose(fp);
    if (!strcmp(op, "write")) h_out("%s %s", h_status(status), h_hex(mem, (int64_t) msz));
    else {
      ESL_FILEPARSER *efp = esl_fileparser_CreateMapped(mem, (int) msz); ESL_GENCODE *g2 = NULL;
      int st2 = esl_gencode_Read(efp, NT, AA, &g2);
      if (st2 != eslOK) h_out("%s msg", h_status(st2));
      else {
        int same = (memcmp(g->basic, g2->basic, 64) == 0 && memcmp(g->is_initiator, g2->is_initiator, 64) == 0);
        h_out("ok %s id=%d desc=%s", same ? "same" : "DIFFERENT", g2->transl_table, h_hex(g2->desc, (int64_t) strlen(g2->desc)));
        esl_gencode_Destroy(g2);
      }
      esl_fileparser_Destroy(efp);
    }
    free(mem); esl_gencode_Destroy(g);
  }
  else if (!strcmp(op, "read") || !strcmp(op, "readm")) {
    int64_t n; unsigned char *txt = h_unhex(h_arg("hex") ? h_arg("hex") : "-", &n);
    ESL_FILEPARSER *efp = esl_fileparser_CreateMapped((char *) txt, (int) n); ESL_GENCODE *g2 = NULL;
    int st2 = esl_gencode_Read(efp, NT, AA, &g2);
    if (st2 != eslOK) h_out("%s", h_status(st2));
    else {
      unsigned char init[64]; int c; for (c = 0; c < 64; c++) init[c] = (unsigned char) g2->is_initiator[c];
      h_out("ok id=%d desc=%s basic=%s init=%s", g2->transl_table, h_hex(g2->desc, (int64_t) strlen(g2->desc)), h_hex(g2->basic, 64), h_hex(init, 64));
      esl_gencode_Destroy(g2);
    }
    esl_fileparser_Destroy(efp); free(txt);
  }
  else if (!strcmp(op, "orfs")) {
    /* orfs id= init= using=0|1|2 minlen= strand=w|c|b dna=<hex text> cuts=<w1,w2,...> */
    ESL_GENCODE *g = make_code(&status); ESL_GETOPTS *go; ESL_GENCODE_WORKSTATE *wrk; char spoof[128];
    int64_t n, L; unsigned char *txt; ESL_DSQ *d = NULL, *rc = NULL; const char *strand = h_arg("strand") ? h_arg("strand") : "b";
    int64_t *cuts; int nc = 0, using = (int) h_argi("using", 0), i; const char *cs = h_arg("cuts");
    char *b = NULL; size_t cap = 0, len = 0; char tmp[160];
    if (!g) { h_out("%s", h_status(status)); return; }
    txt = h_unhex(h_arg("dna") ? h_arg("dna") : "-", &n);
    if (esl_abc_CreateDsq(NT, (char *) txt, &d) != eslOK) { free(txt); free(d); esl_gencode_Destroy(g); h_out("bad-op"); return; }
    L = (int64_t) strlen((char *) txt);
    cuts = malloc(sizeof(int64_t) * (size_t) (L + 2));
    if (cs && strcmp(cs, "-")) { char *dup = strdup(cs), *tok, *sv; int64_t sum = 0;
      for (tok = strtok_r(dup, ",", &sv); tok; tok = strtok_r(NULL, ",", &sv)) { cuts[nc] = strtoll(tok, NULL, 10); sum += cuts[nc]; nc++; }
      free(dup);
      if (sum != L || cuts[0] < 2) { free(cuts); free(txt); free(d); esl_gencode_Destroy(g); h_out("bad-op"); return; }
    } else { cuts[0] = L; nc = 1; }
    sprintf(spoof, "prog -l %d %s %s", (int) h_argi("minlen", 20), using == 1 ? "-M" : (using == 2 ? "-m" : ""),
            !strcmp(strand, "w") ? "--watson" : (!strcmp(strand, "c") ? "--crick" : (!strcmp(strand, "n") ? "--watson --crick" : "")));
    go = esl_getopts_Create(options);
    esl_opt_ProcessSpoof(go, spoof);
    wrk = esl_gencode_WorkstateCreate(go, g);
    wrk->orf_block = esl_sq_CreateDigitalBlock(4, AA);
    if (L >= 3) {
      if (wrk->do_watson) run_strand(g, wrk, d, L, 0, cuts, nc);
      if (wrk->do_crick) {
        rc = malloc((size_t) L + 2); memcpy(rc, d, (size_t) L + 2);
        esl_abc_revcomp(NT, rc, (int) L);
        run_strand(g, wrk, rc, L, 1, cuts, nc);
      }
    }
    sprintf(tmp, "ok n=%d", wrk->orf_block->count); b = bufcat(b, &cap, &len, tmp);
    for (i = 0; i < wrk->orf_block->count; i++) {
      ESL_SQ *o = wrk->orf_block->list + i; int frame = -1; char *fp = strstr(o->desc, "frame=");
      if (fp) frame = atoi(fp + 6);
      sprintf(tmp, " %s:%d:%" PRId64 ":%" PRId64 ":%" PRId64 ":", o->name, frame, o->start, o->end, o->n);
      b = bufcat(b, &cap, &len, tmp); b = bufcat(b, &cap, &len, h_hex(o->dsq + 1, o->n));
      b = bufcat(b, &cap, &len, ":"); b = bufcat(b, &cap, &len, h_hex(o->desc, (int64_t) strlen(o->desc)));   /* the description line ProcessOrf formats */
    }
    h_out("%s", b);
    free(b); free(cuts); free(txt); free(d); if (rc) free(rc);
    esl_gencode_WorkstateDestroy(wrk); esl_getopts_Destroy(go); esl_gencode_Destroy(g);
  }
  else if (!strcmp(op, "xlate")) {
    /* xlate id= l= [m=1] [M=1] [watson=1] [crick=1] [W=1] lw=<fasta line width> n=<nseq> name<i>= desc<i>=<hex> dna<i>=<hex>
     * the real main loops of esl-translate.c on a FASTA file, set up as its main() does; ORFs collected in wrk->orf_block.
     * Each record is printed with the description ProcessOrf formatted (source= name of its sequence, desc= its description). */
    char path[64] = "/tmp/c17xlXXXXXX", spoof[256], key[32]; int fd = mkstemp(path); FILE *fp = fd >= 0 ? fdopen(fd, "w") : NULL;
    int nseq = (int) h_argi("n", 0), lw = (int) h_argi("lw", 60), i; ESL_GETOPTS *go; ESL_SQFILE *sqfp = NULL;
    ESL_GENCODE *g; ESL_GENCODE_WORKSTATE *wrk; char *b = NULL; size_t cap = 0, len = 0; char tmp[200];
    if (!fp) { h_out("esys"); return; }
    for (i = 0; i < nseq; i++) {
      int64_t n, dn, k; unsigned char *desc, *dna;
      sprintf(key, "name%d", i); fprintf(fp, ">%s", h_arg(key) ? h_arg(key) : "x");
      sprintf(key, "desc%d", i); desc = h_unhex(h_arg(key) ? h_arg(key) : "-", &n); if (n) fprintf(fp, " %s", (char *) desc); free(desc);
      fputc('\n', fp);
      sprintf(key, "dna%d", i); dna = h_unhex(h_arg(key) ? h_arg(key) : "-", &dn);
      for (k = 0; k < dn; k += lw) { fwrite(dna + k, 1, (size_t) (dn - k < lw ? dn - k : lw), fp); fputc('\n', fp); }
      free(dna);
    }
    fclose(fp);
    sprintf(spoof, "esl-translate -c %d -l %d%s%s%s%s%s %s", (int) h_argi("id", 1), (int) h_argi("l", 20), h_argi("m", 0) ? " -m" : "", h_argi("M", 0) ? " -M" : "",
            h_argi("watson", 0) ? " --watson" : "", h_argi("crick", 0) ? " --crick" : "", h_argi("W", 0) ? " -W" : "", path);
    go = esl_getopts_Create(xl_options);
    if (esl_opt_ProcessSpoof(go, spoof) != eslOK || esl_opt_VerifyConfig(go) != eslOK) { esl_getopts_Destroy(go); unlink(path); h_out("bad-options"); return; }
    status = esl_sqfile_OpenDigital(NT, path, eslSQFILE_FASTA, NULL, &sqfp);
    if (status != eslOK) { esl_getopts_Destroy(go); unlink(path); h_out("open-%s", h_status(status)); return; }
    g = esl_gencode_Create(NT, AA);
    if (esl_gencode_Set(g, esl_opt_GetInteger(go, "-c")) != eslOK) { esl_gencode_Destroy(g); esl_sqfile_Close(sqfp); esl_getopts_Destroy(go); unlink(path); h_out("enotfound"); return; }
    if      (esl_opt_GetBoolean(go, "-m"))   esl_gencode_SetInitiatorOnlyAUG(g);
    else if (! esl_opt_GetBoolean(go, "-M")) esl_gencode_SetInitiatorAny(g);
    wrk = esl_gencode_WorkstateCreate(go, g);
    if (h_argi("out", 0)) {
      /* no ORF block: ProcessOrf prints each record with esl_sqio_Write(wrk->outfp, psq, wrk->outformat), as esl-translate does */
      char *mem = NULL; size_t msz = 0; int fasta = (wrk->outformat == eslSQFILE_FASTA && wrk->outfp == stdout);
      wrk->outfp = open_memstream(&mem, &msz);
      if (esl_opt_GetBoolean(go, "-W")) do_by_windows(g, wrk, sqfp); else do_by_sequences(g, wrk, sqfp);
      fclose(wrk->outfp);
      h_out("ok w=%d c=%d u=%d l=%d f=%d text=%s", wrk->do_watson, wrk->do_crick, wrk->using_initiators, wrk->minlen, fasta, h_hex(mem, (int64_t) msz));
      free(mem); esl_gencode_WorkstateDestroy(wrk); esl_sqfile_Close(sqfp); esl_gencode_Destroy(g); esl_getopts_Destroy(go); unlink(path);
      return;
    }
    wrk->orf_block = esl_sq_CreateDigitalBlock(4, AA);
    if (esl_opt_GetBoolean(go, "-W")) do_by_windows(g, wrk, sqfp); else do_by_sequences(g, wrk, sqfp);
    sprintf(tmp, "ok w=%d c=%d u=%d l=%d f=%d n=%d", wrk->do_watson, wrk->do_crick, wrk->using_initiators, wrk->minlen, wrk->outformat == eslSQFILE_FASTA, wrk->orf_block->count);
    b = bufcat(b, &cap, &len, tmp);
    for (i = 0; i < wrk->orf_block->count; i++) {
      ESL_SQ *o = wrk->orf_block->list + i;
      sprintf(tmp, " %s:%" PRId64 ":%" PRId64 ":%" PRId64 ":", o->name, o->start, o->end, o->n);
      b = bufcat(b, &cap, &len, tmp); b = bufcat(b, &cap, &len, h_hex(o->dsq + 1, o->n));
      b = bufcat(b, &cap, &len, ":"); b = bufcat(b, &cap, &len, h_hex(o->desc, (int64_t) strlen(o->desc)));
    }
    h_out("%s", b);
    free(b); esl_gencode_WorkstateDestroy(wrk); esl_sqfile_Close(sqfp); esl_gencode_Destroy(g); esl_getopts_Destroy(go); unlink(path);
  }
  else if (!strcmp(op, "hist")) {
    /* hist [nt=rna] ops=<s<id>|a|u|r<k>|m<k>>,... r<k>|m<k>=<hex NCBI text>: a history of calls on ONE object (created = table 1);
     * Read makes a new object that replaces the old one when it succeeds. Prints status and the whole object after every step. */
    ESL_GENCODE *g = esl_gencode_Create(NT, AA); const char *os = h_arg("ops"); char *dup = strdup(os ? os : ""), *tok, *sv;
    char *b = NULL; size_t cap = 0, len = 0; char tmp[64];
    b = bufcat(b, &cap, &len, "ok");
    for (tok = strtok_r(dup, ",", &sv); tok; tok = strtok_r(NULL, ",", &sv)) {
      int st = eslOK; unsigned char init[64]; int c;
      if      (tok[0] == 's') st = esl_gencode_Set(g, atoi(tok + 1));
      else if (tok[0] == 'a') st = esl_gencode_SetInitiatorAny(g);
      else if (tok[0] == 'u') st = esl_gencode_SetInitiatorOnlyAUG(g);
      else if (tok[0] == 'r' || tok[0] == 'm') {
        int64_t n; unsigned char *txt = h_unhex(h_arg(tok) ? h_arg(tok) : "-", &n);
        ESL_FILEPARSER *efp = esl_fileparser_CreateMapped((char *) txt, (int) n); ESL_GENCODE *g2 = NULL;
        st = esl_gencode_Read(efp, NT, AA, &g2);
        if (st == eslOK) { esl_gencode_Destroy(g); g = g2; }
        esl_fileparser_Destroy(efp); free(txt);
      }
      for (c = 0; c < 64; c++) init[c] = (unsigned char) g->is_initiator[c];
      sprintf(tmp, " %s:%d:", h_status(st), g->transl_table); b = bufcat(b, &cap, &len, tmp);
      b = bufcat(b, &cap, &len, h_hex(g->desc, (int64_t) strlen(g->desc))); b = bufcat(b, &cap, &len, ":");
      b = bufcat(b, &cap, &len, h_hex(g->basic, 64)); b = bufcat(b, &cap, &len, ":");
      b = bufcat(b, &cap, &len, h_hex(init, 64));
    }
    h_out("%s", b);
    free(b); free(dup); esl_gencode_Destroy(g);
  }
  else if (!strcmp(op, "decode")) {
    /* esl_gencode_DecodeDigicodon for any int: the three characters stored (a read outside sym[] dies under ASan) */
    ESL_GENCODE *g = esl_gencode_Create(NT, AA); char codon[4]; char *r;
    codon[0] = codon[1] = codon[2] = codon[3] = 'x';
    r = esl_gencode_DecodeDigicodon(g, (int) h_argi("d", 0), codon);
    if (r != codon || codon[3] != '\0') h_out("bad-return"); else h_out("ok %s", h_hex(codon, 3));
    esl_gencode_Destroy(g);
  }
  else if (!strcmp(op, "alttable")) {
    char *mem = NULL; size_t msz = 0; FILE *fp = open_memstream(&mem, &msz);
    status = esl_gencode_DumpAltCodeTable(fp); fclose(fp);
    h_out("%s %s", h_status(status), h_hex(mem, (int64_t) msz));
    free(mem);
  }
  else if (!strcmp(op, "compare")) {
    /* compare id= init= [nt=] id2= init2= [nt2=] meta=0|1 */
    ESL_GENCODE *g1 = make_code(&status), *g2; const char *init2 = h_arg("init2"); int st2;
    ESL_ALPHABET *NT2 = (h_arg("nt2") && !strcmp(h_arg("nt2"), "rna")) ? NTR : NTD;
    if (!g1) { h_out("%s", h_status(status)); return; }
    g2 = esl_gencode_Create(NT2, AA);
    st2 = esl_gencode_Set(g2, (int) h_argi("id2", 1));
    if (st2 != eslOK) { esl_gencode_Destroy(g1); esl_gencode_Destroy(g2); h_out("%s", h_status(st2)); return; }
    if (init2 && !strcmp(init2, "any")) esl_gencode_SetInitiatorAny(g2);
    else if (init2 && !strcmp(init2, "aug")) esl_gencode_SetInitiatorOnlyAUG(g2);
    st2 = esl_gencode_Compare(g1, g2, (int) h_argi("meta", 0));
    h_out("ok %s", st2 == eslOK ? "same" : (st2 == eslFAIL ? "differ" : h_status(st2)));
    esl_gencode_Destroy(g1); esl_gencode_Destroy(g2);
  }
  else if (!strcmp(op, "ntables")) {
    int id, n = 0; ESL_GENCODE *g = esl_gencode_Create(NT, AA); char *b = NULL; size_t cap = 0, len = 0; char tmp[32];
    b = bufcat(b, &cap, &len, "ok ids=");
    for (id = -2; id < 300; id++) if (esl_gencode_Set(g, id) == eslOK) { sprintf(tmp, "%s%d", n ? "," : "", id); b = bufcat(b, &cap, &len, tmp); n++; }
    h_out("%s", b); free(b); esl_gencode_Destroy(g);
  }
  else h_out("bad-op");
}
int main(void)
{
  int rc = h_main();
  if (NTD) esl_alphabet_Destroy(NTD);
  if (NTR) esl_alphabet_Destroy(NTR);
  if (AA) esl_alphabet_Destroy(AA);
  return rc;
}
