/* C20 correspondence harness: SIMD helper inlines (esl_sse.h, esl_avx.h, esl_avx512.h), esl_sse_logf/expf,
 * the raw intrinsics behind them (validation of the Lean semantics table), and the scalar vector routines of
 * esl_vectorops.c / esl_matrixops.c.
 *
 * ops (one answer line each):
 *   cpu                                         -> ok sse=1 avx=1 avx512=1
 *   simd f=<helper> a=<hex> [b=<hex>] [m=<hex>] -> ok <hex of result>      | unsupported
 *   intr f=<intrinsic> w=<8|16|32> imm=<k> [k=<mask>] a=<hex> [b=<hex>] [m=<hex>] -> ok <hex> | unsupported
 *   logf x=<hex 16 bytes> / expf x=<..>         -> ok <hex 16 bytes> ref=<hex 16 bytes: libm logf/expf per lane>
 *   vec op=<routine> x=<hex> [y=<hex>] [s=<bits>] [n=<int>] -> ok <scalar bits | hex vector | integer | status>
 *   cmpold op=<D|F> a=<bits> b=<bits> s=<bits>   -> ok <0|1>   esl_{D,F}Compare_old (easel.c)
 *   cvt op=<D2F|F2D|I2F|I2D> x=<hex>             -> ok <hex vector>
 *   sweep f=<logf|expf> lo=<u32> hi=<u32>       -> ok n=.. maxulp=.. worst=.. bad=.. first_bad=.. (C only; exhaustive tier)
 */
#include "esl_vectorops.c"   /* first: gives access to the static qsort comparators (the linker then keeps this copy of the esl_vec_* functions) */
#include "hcommon.h"
#include <math.h>
#include <float.h>
#include <x86intrin.h>
#include "esl_sse.h"
#include "esl_vectorops.h"
#include "esl_matrixops.h"

static int have_avx, have_avx512;

static void h_case_begin(void) { }
static void h_case_end(void) { }

typedef union { unsigned char b[64]; __m128i i128; __m128 f128; __m256i i256; __m256 f256; __m512i i512; __m512 f512; } reg_t;

static int load(const char *key, reg_t *r)
{
  const char *v = h_arg(key); int64_t n; unsigned char *p;
  memset(r, 0, sizeof(*r));
  if (!v) return 0;
  p = h_unhex(v, &n);
  if (n > 64) n = 64;
  memcpy(r->b, p, (size_t) n);
  free(p);
  return (int) n;
}

static uint32_t canon_nan(uint32_t u) { return ((u & 0x7f800000u) == 0x7f800000u && (u & 0x007fffffu)) ? 0x7fc00000u : u; }

#define C1(F,i)   case (i): F(i); break;
#define C4(F,i)   C1(F,i) C1(F,(i)+1) C1(F,(i)+2) C1(F,(i)+3)
#define C16(F,i)  C4(F,i) C4(F,(i)+4) C4(F,(i)+8) C4(F,(i)+12)
#define C64(F,i)  C16(F,i) C16(F,(i)+16) C16(F,(i)+32) C16(F,(i)+48)
#define C256(F)   C64(F,0) C64(F,64) C64(F,128) C64(F,192)
#define C33(F)    C16(F,0) C16(F,16) C1(F,32)

/* The AVX2 and AVX-512 parts are compiled in `#pragma GCC target` regions (the file itself needs only -msse4.1), so that on a CPU
 * without those instruction sets nothing outside the guarded calls contains their instructions. */
#define LANE8(call)   do { unsigned char v = (unsigned char)(call); h_out("ok %s", h_hex(&v, 1)); return 1; } while (0)
#define LANE16(call)  do { int16_t v = (call); h_out("ok %s", h_hex(&v, 2)); return 1; } while (0)
#define LANEF(fn, arg, canon) do { uint32_t u; float s; fn(arg, &s); memcpy(&u, &s, 4); if (canon) u = canon_nan(u); h_out("ok %s", h_hex(&u, 4)); return 1; } while (0)
#define VEC(field, call, n) do { reg_t r; memset(&r, 0, sizeof r); r.field = (call); h_out("ok %s", h_hex(r.b, n)); return 1; } while (0)
#define BOOL(call)    do { unsigned char v = (call) ? 1 : 0; h_out("ok %s", h_hex(&v, 1)); return 1; } while (0)
#define IS(name)      (!strcmp(f, name))
#define SW256(F) switch (imm) { C256(F) default: return 0; }
#define SW33(F)  switch (imm) { C33(F)  default: return 0; }
#define SW32(F)  switch (imm) { C16(F,0) C16(F,16) default: return 0; }

/* ------------------------------------------------------------------ SSE (128-bit) */
static int simd_sse(const char *f, reg_t *a, reg_t *b, reg_t *m)
{
  if (IS("esl_sse_hmax_epu8"))  LANE8(esl_sse_hmax_epu8(a->i128));
  if (IS("esl_sse_hmax_epi8"))  LANE8(esl_sse_hmax_epi8(a->i128));
  if (IS("esl_sse_hmax_epi16")) LANE16(esl_sse_hmax_epi16(a->i128));
  if (IS("esl_sse_hmax_ps"))    LANEF(esl_sse_hmax_ps, a->f128, 0);
  if (IS("esl_sse_hmin_ps"))    LANEF(esl_sse_hmin_ps, a->f128, 0);
  if (IS("esl_sse_hsum_ps"))    LANEF(esl_sse_hsum_ps, a->f128, 1);
  if (IS("esl_sse_rightshift_int8"))   VEC(i128, esl_sse_rightshift_int8(a->i128, b->i128), 16);
  if (IS("esl_sse_rightshift_int16"))  VEC(i128, esl_sse_rightshift_int16(a->i128, b->i128), 16);
  if (IS("esl_sse_rightshiftz_float")) VEC(f128, esl_sse_rightshiftz_float(a->f128), 16);
  if (IS("esl_sse_leftshiftz_float"))  VEC(f128, esl_sse_leftshiftz_float(a->f128), 16);
  if (IS("esl_sse_rightshift_ps"))     VEC(f128, esl_sse_rightshift_ps(a->f128, b->f128), 16);
  if (IS("esl_sse_leftshift_ps"))      VEC(f128, esl_sse_leftshift_ps(a->f128, b->f128), 16);
  if (IS("esl_sse_any_gt_epu8"))  BOOL(esl_sse_any_gt_epu8(a->i128, b->i128));
  if (IS("esl_sse_any_gt_epi16")) BOOL(esl_sse_any_gt_epi16(a->i128, b->i128));
  if (IS("esl_sse_any_gt_ps"))    BOOL(esl_sse_any_gt_ps(a->f128, b->f128));
  if (IS("esl_sse_select_ps"))    VEC(f128, esl_sse_select_ps(a->f128, b->f128, m->f128), 16);
  return 0;
}

/* raw 128-bit intrinsics; returns the number of result bytes in r (0 = unknown) */
static int intr_sse(const char *f, int imm, reg_t *a, reg_t *b, reg_t *m, reg_t *r)
{
#ifdef C20_NO_INTR   /* mutation sweeps of the helper headers: skip the (slow to compile) intrinsic tables */
  (void) f; return 0;
#else

  int32_t iv; int i;
  if (IS("_mm_srli_si128")) {
#define F1(i) r->i128 = _mm_srli_si128(a->i128, i)
    SW33(F1) return 16; }
  if (IS("_mm_slli_si128")) {
#define F2(i) r->i128 = _mm_slli_si128(a->i128, i)
    SW33(F2) return 16; }
  if (IS("_mm_shuffle_epi32")) {
#define F4(i) r->i128 = _mm_shuffle_epi32(a->i128, i)
    SW256(F4) return 16; }
  if (IS("_mm_shufflelo_epi16")) {
#define F6(i) r->i128 = _mm_shufflelo_epi16(a->i128, i)
    SW256(F6) return 16; }
  if (IS("_mm_shuffle_ps")) {
#define F8(i) r->f128 = _mm_shuffle_ps(a->f128, b->f128, i)
    SW256(F8) return 16; }
  if (IS("_mm_srli_epi16")) {
#define F10(i) r->i128 = _mm_srli_epi16(a->i128, i)
    SW33(F10) return 16; }
  if (IS("_mm_srli_epi32")) {
#define F11(i) r->i128 = _mm_srli_epi32(a->i128, i)
    SW33(F11) return 16; }
  if (IS("_mm_alignr_epi8")) {
#define F13(i) r->i128 = _mm_alignr_epi8(a->i128, b->i128, i)
    SW33(F13) return 16; }
  if (IS("_mm_move_ss"))       { r->f128 = _mm_move_ss(a->f128, b->f128); return 16; }
  /* scalar extractions: the value is cut to the lane width `w` of the calling helper's view (the C cast `(uint8_t)`, `(int16_t)` … there) */
  if (IS("_mm_extract_epi16")) { int wb = (int) h_argi("w", 16) / 8;
#define F20(i) iv = _mm_extract_epi16(a->i128, i)
    switch (imm) { C4(F20,0) C4(F20,4) default: return 0; } memcpy(r->b, &iv, 4); return wb <= 2 ? wb : 0; }
  if (IS("_mm_cvtsi128_si32")) { int wb = (int) h_argi("w", 32) / 8; iv = _mm_cvtsi128_si32(a->i128); memcpy(r->b, &iv, 4); return wb <= 4 ? wb : 0; }
  if (IS("_mm_store_ss"))      { float fv; _mm_store_ss(&fv, a->f128); memcpy(r->b, &fv, 4); return 4; }
  if (IS("_mm_setzero_ps"))    { memset(r->b, 0xff, 16); r->f128 = _mm_setzero_ps(); return 16; }
  if (IS("_mm_setzero_si128")) { memset(r->b, 0xff, 16); r->i128 = _mm_setzero_si128(); return 16; }
  if (IS("_mm_set1_ps"))       { float fv; memcpy(&fv, a->b, 4); r->f128 = _mm_set1_ps(fv); return 16; }
  if (IS("_mm_set1_epi32"))    { memcpy(&iv, a->b, 4); r->i128 = _mm_set1_epi32(iv); return 16; }
  if (IS("_mm_castps_si128"))  { r->i128 = _mm_castps_si128(a->f128); return 16; }
  if (IS("_mm_castsi128_ps"))  { r->f128 = _mm_castsi128_ps(a->i128); return 16; }
  if (IS("_mm_max_epu8"))      { r->i128 = _mm_max_epu8(a->i128, b->i128); return 16; }
  if (IS("_mm_max_epi8"))      { r->i128 = _mm_max_epi8(a->i128, b->i128); return 16; }
  if (IS("_mm_max_epi16"))     { r->i128 = _mm_max_epi16(a->i128, b->i128); return 16; }
  if (IS("_mm_or_si128"))      { r->i128 = _mm_or_si128(a->i128, b->i128); return 16; }
  if (IS("_mm_xor_si128"))     { r->i128 = _mm_xor_si128(a->i128, b->i128); return 16; }
  if (IS("_mm_and_si128"))     { r->i128 = _mm_and_si128(a->i128, b->i128); return 16; }
  if (IS("_mm_cmpeq_epi8"))    { r->i128 = _mm_cmpeq_epi8(a->i128, b->i128); return 16; }
  if (IS("_mm_cmpgt_epi16"))   { r->i128 = _mm_cmpgt_epi16(a->i128, b->i128); return 16; }
  if (IS("_mm_movemask_epi8")) { iv = _mm_movemask_epi8(a->i128); memcpy(r->b, &iv, 4); return 4; }
  if (IS("_mm_movemask_ps"))   { iv = _mm_movemask_ps(a->f128);   memcpy(r->b, &iv, 4); return 4; }
  if (IS("_mm_max_ps"))        { r->f128 = _mm_max_ps(a->f128, b->f128); return 16; }
  if (IS("_mm_min_ps"))        { r->f128 = _mm_min_ps(a->f128, b->f128); return 16; }
  if (IS("_mm_cmpgt_ps"))      { r->f128 = _mm_cmpgt_ps(a->f128, b->f128); return 16; }
  if (IS("_mm_blendv_ps"))     { r->f128 = _mm_blendv_ps(a->f128, b->f128, m->f128); return 16; }
  if (IS("_mm_add_ps")) {
    r->f128 = _mm_add_ps(a->f128, b->f128);
    for (i = 0; i < 16; i += 4) { uint32_t u; memcpy(&u, r->b + i, 4); u = canon_nan(u); memcpy(r->b + i, &u, 4); }
    return 16; }
  return 0;
#endif
}

/* ------------------------------------------------------------------ AVX2 (256-bit) */
#pragma GCC push_options
#pragma GCC target("avx2")
#include "esl_avx.h"
static int simd_avx(const char *f, reg_t *a, reg_t *b)
{
  if (IS("esl_avx_hmax_epu8"))  LANE8(esl_avx_hmax_epu8(a->i256));
  if (IS("esl_avx_hmax_epi8"))  LANE8(esl_avx_hmax_epi8(a->i256));
  if (IS("esl_avx_hmax_epi16")) LANE16(esl_avx_hmax_epi16(a->i256));
  if (IS("esl_avx_hsum_ps"))    LANEF(esl_avx_hsum_ps, a->f256, 1);
  if (IS("esl_avx_rightshift_int8"))   VEC(i256, esl_avx_rightshift_int8(a->i256, b->i256), 32);
  if (IS("esl_avx_rightshift_int16"))  VEC(i256, esl_avx_rightshift_int16(a->i256, b->i256), 32);
  if (IS("esl_avx_rightshiftz_float")) VEC(f256, esl_avx_rightshiftz_float(a->f256), 32);
  if (IS("esl_avx_leftshiftz_float"))  VEC(f256, esl_avx_leftshiftz_float(a->f256), 32);
  if (IS("esl_avx_any_gt_epi16"))      BOOL(esl_avx_any_gt_epi16(a->i256, b->i256));
  return 0;
}
static int intr_avx(const char *f, int imm, reg_t *a, reg_t *b, reg_t *r)
{
#ifdef C20_NO_INTR   /* mutation sweeps of the helper headers: skip the (slow to compile) intrinsic tables */
  (void) f; return 0;
#else

  int32_t iv; int i;
  if (IS("_mm256_srli_si256")) {
#define F3(i) r->i256 = _mm256_srli_si256(a->i256, i)
    SW33(F3) return 32; }
  if (IS("_mm256_shuffle_epi32")) {
#define F5(i) r->i256 = _mm256_shuffle_epi32(a->i256, i)
    SW256(F5) return 32; }
  if (IS("_mm256_shufflelo_epi16")) {
#define F7(i) r->i256 = _mm256_shufflelo_epi16(a->i256, i)
    SW256(F7) return 32; }
  if (IS("_mm256_permute2x128_si256")) {
#define F12(i) r->i256 = _mm256_permute2x128_si256(a->i256, b->i256, i)
    SW256(F12) return 32; }
  if (IS("_mm256_alignr_epi8")) {
#define F14(i) r->i256 = _mm256_alignr_epi8(a->i256, b->i256, i)
    SW33(F14) return 32; }
  if (IS("_mm256_extract_epi8"))  { int wb = (int) h_argi("w", 8) / 8;
#define F21(i) iv = _mm256_extract_epi8(a->i256, i)
    switch (imm) { C16(F21,0) C16(F21,16) default: return 0; } memcpy(r->b, &iv, 4); return wb <= 1 ? wb : 0; }
  if (IS("_mm256_extract_epi16")) { int wb = (int) h_argi("w", 16) / 8;
#define F22(i) iv = _mm256_extract_epi16(a->i256, i)
    switch (imm) { C16(F22,0) default: return 0; } memcpy(r->b, &iv, 4); return wb <= 2 ? wb : 0; }
  if (IS("_mm256_extract_epi32")) { int wb = (int) h_argi("w", 32) / 8;
#define F23(i) iv = _mm256_extract_epi32(a->i256, i)
    switch (imm) { C4(F23,0) C4(F23,4) default: return 0; } memcpy(r->b, &iv, 4); return wb <= 4 ? wb : 0; }
  if (IS("_mm256_max_epu8"))    { r->i256 = _mm256_max_epu8(a->i256, b->i256); return 32; }
  if (IS("_mm256_max_epi8"))    { r->i256 = _mm256_max_epi8(a->i256, b->i256); return 32; }
  if (IS("_mm256_max_epi16"))   { r->i256 = _mm256_max_epi16(a->i256, b->i256); return 32; }
  if (IS("_mm256_or_si256"))    { r->i256 = _mm256_or_si256(a->i256, b->i256); return 32; }
  if (IS("_mm256_cmpgt_epi16")) { r->i256 = _mm256_cmpgt_epi16(a->i256, b->i256); return 32; }
  if (IS("_mm256_movemask_epi8")) { iv = _mm256_movemask_epi8(a->i256); memcpy(r->b, &iv, 4); return 4; }
  if (IS("_mm256_add_ps")) {
    r->f256 = _mm256_add_ps(a->f256, b->f256);
    for (i = 0; i < 32; i += 4) { uint32_t u; memcpy(&u, r->b + i, 4); u = canon_nan(u); memcpy(r->b + i, &u, 4); }
    return 32; }
  return 0;
#endif
}
#pragma GCC pop_options

/* ------------------------------------------------------------------ AVX-512 */
#pragma GCC push_options
#pragma GCC target("avx512f,avx512bw,avx512dq")
#include "esl_avx512.h"
static int simd_avx512(const char *f, reg_t *a, reg_t *b)
{
  if (IS("esl_avx512_hmax_epu8"))  LANE8(esl_avx512_hmax_epu8(a->i512));
  if (IS("esl_avx512_hmax_epi8"))  LANE8(esl_avx512_hmax_epi8(a->i512));
  if (IS("esl_avx512_hmax_epi16")) LANE16(esl_avx512_hmax_epi16(a->i512));
  if (IS("esl_avx512_hsum_ps"))    LANEF(esl_avx512_hsum_ps, a->f512, 1);
  if (IS("esl_avx512_rightshift_int8"))   VEC(i512, esl_avx512_rightshift_int8(a->i512, b->i512), 64);
  if (IS("esl_avx512_rightshift_int16"))  VEC(i512, esl_avx512_rightshift_int16(a->i512, b->i512), 64);
  if (IS("esl_avx512_rightshiftz_float")) VEC(f512, esl_avx512_rightshiftz_float(a->f512), 64);
  if (IS("esl_avx512_leftshiftz_float"))  VEC(f512, esl_avx512_leftshiftz_float(a->f512), 64);
  return 0;
}
static int intr_avx512(const char *f, int imm, unsigned kmask, reg_t *a, reg_t *b, reg_t *r)
{
#ifdef C20_NO_INTR   /* mutation sweeps of the helper headers: skip the (slow to compile) intrinsic tables */
  (void) f; return 0;
#else

  int i;
  if (IS("_mm512_shuffle_ps")) {
#define F9(i) r->f512 = _mm512_shuffle_ps(a->f512, b->f512, i)
    SW256(F9) return 64; }
  if (IS("_mm512_alignr_epi8")) {
#define F15(i) r->i512 = _mm512_alignr_epi8(a->i512, b->i512, i)
    SW33(F15) return 64; }
  if (IS("_mm512_shuffle_f32x4")) {
#define F16(i) r->f512 = _mm512_shuffle_f32x4(a->f512, b->f512, i)
    SW256(F16) return 64; }
  if (IS("_mm512_maskz_shuffle_i32x4")) {
#define F17(i) r->i512 = _mm512_maskz_shuffle_i32x4((__mmask16) kmask, a->i512, b->i512, i)
    SW256(F17) return 64; }
  if (IS("_mm512_extracti32x8_epi32")) { r->i256 = imm ? _mm512_extracti32x8_epi32(a->i512, 1) : _mm512_extracti32x8_epi32(a->i512, 0); return 32; }
  if (IS("_mm512_extractf32x8_ps"))    { r->f256 = imm ? _mm512_extractf32x8_ps(a->f512, 1) : _mm512_extractf32x8_ps(a->f512, 0); return 32; }
  if (IS("_mm512_or_si512"))           { r->i512 = _mm512_or_si512(a->i512, b->i512); return 64; }
  if (IS("_mm512_add_ps")) {
    r->f512 = _mm512_add_ps(a->f512, b->f512);
    for (i = 0; i < 64; i += 4) { uint32_t u; memcpy(&u, r->b + i, 4); u = canon_nan(u); memcpy(r->b + i, &u, 4); }
    return 64; }
  return 0;
#endif
}
#pragma GCC pop_options

static void op_simd(void)
{
  const char *f = h_arg("f"); reg_t a, b, m; int done = 0;
  if (!f) { h_out("bad-op"); return; }
  load("a", &a); load("b", &b); load("m", &m);
  if      (!strncmp(f, "esl_sse_", 8))     done = simd_sse(f, &a, &b, &m);
  else if (!strncmp(f, "esl_avx_", 8))   { if (!have_avx)    { h_out("unsupported"); return; } done = simd_avx(f, &a, &b); }
  else if (!strncmp(f, "esl_avx512_", 11)) { if (!have_avx512) { h_out("unsupported"); return; } done = simd_avx512(f, &a, &b); }
  if (!done) h_out("bad-op");
}

static void op_intr(void)
{
  const char *f = h_arg("f"); reg_t a, b, m, r; int imm = (int) h_argi("imm", 0); unsigned kmask = (unsigned) h_argu("k", 0); int n = 0;
  if (!f) { h_out("bad-op"); return; }
  load("a", &a); load("b", &b); load("m", &m);
  memset(&r, 0, sizeof r);
  if      (!strncmp(f, "_mm256_", 7)) { if (!have_avx)    { h_out("unsupported"); return; } n = intr_avx(f, imm, &a, &b, &r); }
  else if (!strncmp(f, "_mm512_", 7)) { if (!have_avx512) { h_out("unsupported"); return; } n = intr_avx512(f, imm, kmask, &a, &b, &r); }
  else                                  n = intr_sse(f, imm, &a, &b, &m, &r);
  if (n <= 0) { h_out("bad-op"); return; }
  h_out("ok %s", h_hex(r.b, n));
}

/* ------------------------------------------------------------------ lane-wise 32-bit intrinsics of logf/expf (table Lane32.lean) */
static void op_lane32(void)
{
  const char *f = h_arg("f"); reg_t a, b, r; int imm = (int) h_argi("imm", 0); int canon = 0, i;
  if (!f) { h_out("bad-op"); return; }
  load("a", &a); load("b", &b); memset(&r, 0, sizeof r);
  if      (!strcmp(f, "_mm_cvttps_epi32")) r.i128 = _mm_cvttps_epi32(a.f128);
  else if (!strcmp(f, "_mm_cvtepi32_ps"))  r.f128 = _mm_cvtepi32_ps(a.i128);
  else if (!strcmp(f, "_mm_cmplt_ps"))     r.f128 = _mm_cmplt_ps(a.f128, b.f128);
  else if (!strcmp(f, "_mm_cmpgt_ps"))     r.f128 = _mm_cmpgt_ps(a.f128, b.f128);
  else if (!strcmp(f, "_mm_cmple_ps"))     r.f128 = _mm_cmple_ps(a.f128, b.f128);
  else if (!strcmp(f, "_mm_cmpeq_epi32"))  r.i128 = _mm_cmpeq_epi32(a.i128, b.i128);
  else if (!strcmp(f, "_mm_sub_epi32"))    r.i128 = _mm_sub_epi32(a.i128, b.i128);
  else if (!strcmp(f, "_mm_add_epi32"))    r.i128 = _mm_add_epi32(a.i128, b.i128);
  else if (!strcmp(f, "_mm_and_ps"))       r.f128 = _mm_and_ps(a.f128, b.f128);
  else if (!strcmp(f, "_mm_or_ps"))        r.f128 = _mm_or_ps(a.f128, b.f128);
  else if (!strcmp(f, "_mm_andnot_ps"))    r.f128 = _mm_andnot_ps(a.f128, b.f128);
  else if (!strcmp(f, "_mm_sub_ps"))     { r.f128 = _mm_sub_ps(a.f128, b.f128); canon = 1; }
  else if (!strcmp(f, "_mm_mul_ps"))     { r.f128 = _mm_mul_ps(a.f128, b.f128); canon = 1; }
  else if (!strcmp(f, "_mm_add_ps"))     { r.f128 = _mm_add_ps(a.f128, b.f128); canon = 1; }
  else if (!strcmp(f, "_mm_srli_epi32")) {
#define G1(i) r.i128 = _mm_srli_epi32(a.i128, i)
    switch (imm) { C16(G1,0) C16(G1,16) default: h_out("bad-op"); return; } }
  else if (!strcmp(f, "_mm_slli_epi32")) {
#define G2(i) r.i128 = _mm_slli_epi32(a.i128, i)
    switch (imm) { C16(G2,0) C16(G2,16) default: h_out("bad-op"); return; } }
  else { h_out("bad-op"); return; }
  if (canon) for (i = 0; i < 16; i += 4) { uint32_t u; memcpy(&u, r.b + i, 4); u = canon_nan(u); memcpy(r.b + i, &u, 4); }
  h_out("ok %s", h_hex(r.b, 16));
}

/* ------------------------------------------------------------------ logf / expf */
static void op_logexp(int is_log)
{
  reg_t x, r, ref; int z; float in[4], lib[4];
  load("x", &x);
  memset(&r, 0, sizeof r); memset(&ref, 0, sizeof ref);
  r.f128 = is_log ? esl_sse_logf(x.f128) : esl_sse_expf(x.f128);
  memcpy(in, x.b, 16);
  for (z = 0; z < 4; z++) lib[z] = is_log ? logf(in[z]) : expf(in[z]);
  memcpy(ref.b, lib, 16);
  for (z = 0; z < 4; z++) {            /* NaN payloads are not part of the contract: canonicalise */
    uint32_t u; memcpy(&u, r.b + 4*z, 4); u = canon_nan(u); memcpy(r.b + 4*z, &u, 4);
    memcpy(&u, ref.b + 4*z, 4); u = canon_nan(u); memcpy(ref.b + 4*z, &u, 4);
  }
  h_out("ok %s ref=%s", h_hex(r.b, 16), h_hex(ref.b, 16));
}

static int64_t ulp_key(uint32_t u) { return (u & 0x80000000u) ? -(int64_t)(u & 0x7fffffffu) : (int64_t) u; }

/* the documented result class of one lane; returns 0 if the lane is acceptable, else a code */
static int judge(int is_log, uint32_t xin, uint32_t got, uint32_t lib, int64_t *ulps)
{
  float xf, gf, lf; int64_t d;
  memcpy(&xf, &xin, 4); memcpy(&gf, &got, 4); memcpy(&lf, &lib, 4);
  *ulps = 0;
  if (is_log) {
    if (xin & 0x80000000u)               return isnan(gf) ? 0 : 1;        /* negative, -0, -inf, -NaN -> NaN */
    if ((xin >> 23) == 0)                return got == 0xff800000u ? 0 : 2; /* +0, subnormal -> -inf */
    if ((xin & 0x7f800000u) == 0x7f800000u) return (xin & 0x7fffffu) ? (isnan(gf) ? 0 : 3) : (got == 0x7f800000u ? 0 : 3);
  } else {
    if (isnan(xf))                       return isnan(gf) ? 0 : 4;
    if (xf > 88.3762626647949f)          return got == 0x7f800000u ? 0 : 5;
    if (xf <= -88.3762626647949f)        return got == 0 ? 0 : 6;
    if (fabsf(lf) < FLT_MIN)             { if (got == 0) return 0; }       /* true result subnormal: 0 is documented */
  }
  if (isnan(gf) || isnan(lf)) return (isnan(gf) && isnan(lf)) ? 0 : 7;
  d = ulp_key(got) - ulp_key(lib); if (d < 0) d = -d;
  *ulps = d;
  return d <= 4 ? 0 : 8;
}

static void op_sweep(void)
{
  const char *f = h_arg("f"); int is_log = f && !strcmp(f, "logf");
  uint64_t lo = h_argu("lo", 0), hi = h_argu("hi", 0), p, n = 0, bad = 0; uint32_t first_bad = 0, worst = 0; int first_code = 0;
  int64_t maxulp = 0;
  for (p = lo; p + 4 <= hi; p += 4) {
    int rot, z;
    for (rot = 0; rot < 4; rot++) {
      uint32_t in[4], out[4]; float fin[4]; __m128 r;
      for (z = 0; z < 4; z++) in[z] = (uint32_t)(p + ((z + rot) & 3));
      memcpy(fin, in, 16);
      r = is_log ? esl_sse_logf(_mm_loadu_ps(fin)) : esl_sse_expf(_mm_loadu_ps(fin));
      _mm_storeu_ps((float *) out, r);
      for (z = 0; z < 4; z++) {
        float lf = is_log ? logf(fin[z]) : expf(fin[z]); uint32_t lib; int64_t u; int code;
        memcpy(&lib, &lf, 4);
        code = judge(is_log, in[z], out[z], lib, &u);
        if (u > maxulp) { maxulp = u; worst = in[z]; }
        if (code) { if (!bad) { first_bad = in[z]; first_code = code; } bad++; }
        n++;
      }
    }
  }
  h_out("ok n=%" PRIu64 " maxulp=%" PRId64 " worst=%08x bad=%" PRIu64 " first_bad=%08x code=%d", n, maxulp, worst, bad, first_bad, first_code);
}

/* ------------------------------------------------------------------ vector routines */
/* NaN sign/payload is not part of any contract here (and Lean's Float.toBits canonicalises it): print one NaN */
static double cn64(double d) { uint64_t u = 0x7ff8000000000000ULL; if (isnan(d)) memcpy(&d, &u, 8); return d; }
static float  cn32(float f)  { uint32_t u = 0x7fc00000u; if (isnan(f)) memcpy(&f, &u, 4); return f; }
static void out_dvec(double *v, int64_t n) { int64_t i; for (i = 0; i < n; i++) v[i] = cn64(v[i]); h_out("ok %s", h_hex(v, 8*n)); }
static void out_fvec(float *v, int64_t n)  { int64_t i; for (i = 0; i < n; i++) v[i] = cn32(v[i]); h_out("ok %s", h_hex(v, 4*n)); }
#define DB(x) h_dbits(cn64(x))
#define FB(x) h_fbits(cn32(x))

/* the Validate family: with an error buffer (`msg` / `nomsg` = was a message written) and, with e=0, with errbuf == NULL (allowed by the API) */
#define VALIDATE(fn, tol) { int st; if (h_argi("e", 1) == 0) { st = fn(x, n, tol, NULL); h_out("ok %s null", h_status(st)); } \
    else { char eb[eslERRBUFSIZE]; memset(eb, 0x55, sizeof eb); st = fn(x, n, tol, eb); h_out("ok %s %s", h_status(st), eb[0] ? "msg" : "nomsg"); } }

static void op_vec(void)
{
  const char *op = h_arg("op"); int64_t nx = 0, ny = 0, n; unsigned char *xb = NULL, *yb = NULL;
  double sd = h_argbits("s"); float sf; char T;
  { uint64_t u = h_arg("s") ? strtoull(h_arg("s"), NULL, 16) : 0; uint32_t w = (uint32_t) u; memcpy(&sf, &w, 4); }
  if (!op) { h_out("bad-op"); return; }
  T = op[0]; op++;
  if (h_arg("x")) xb = h_unhex(h_arg("x"), &nx);
  if (h_arg("y")) yb = h_unhex(h_arg("y"), &ny);
#define DONE do { free(xb); free(yb); return; } while (0)
#define NLIM do { if (h_arg("n") && h_argi("n", 0) < n && h_argi("n", 0) >= 0) n = h_argi("n", 0); } while (0)   /* operate on a prefix of the buffer */
  if (T == 'D') {
    double *x = (double *) xb, *y = (double *) yb; n = nx / 8;
    if (yb && ny / 8 != n) { h_out("bad-op"); DONE; } NLIM;
    if      (!strcmp(op, "Sum"))      h_out("ok %s", DB(esl_vec_DSum(x, n)));
    else if (!strcmp(op, "Dot"))      h_out("ok %s", DB(esl_vec_DDot(x, y, n)));
    else if (!strcmp(op, "Max"))      h_out("ok %s", DB(esl_vec_DMax(x, n)));
    else if (!strcmp(op, "Min"))      h_out("ok %s", DB(esl_vec_DMin(x, n)));
    else if (!strcmp(op, "MatMax"))   { int M = (int) h_argi("m", 1); double **A = esl_mat_DCreate(M, (int)(n / M)); memcpy(A[0], x, 8*n); h_out("ok %s", DB(esl_mat_DMax(A, M, (int)(n / M)))); esl_mat_DDestroy(A); }
    else if (!strcmp(op, "MatSet"))   { int M = (int) h_argi("m", 1); double **A = esl_mat_DCreate(M, (int)(n / M)); memcpy(A[0], x, 8*n); esl_mat_DSet(A, M, (int)(n / M), sd); out_dvec(A[0], n); esl_mat_DDestroy(A); }
    else if (!strcmp(op, "MatCopy"))  { int M = (int) h_argi("m", 1); double **A = esl_mat_DCreate(M, (int)(n / M)), **B = esl_mat_DCreate(M, (int)(n / M)); memcpy(A[0], x, 8*n); esl_mat_DCopy(A, M, (int)(n / M), B); out_dvec(B[0], n); esl_mat_DDestroy(A); esl_mat_DDestroy(B); }
    else if (!strcmp(op, "MatScale")) { int M = (int) h_argi("m", 1); double **A = esl_mat_DCreate(M, (int)(n / M)); memcpy(A[0], x, 8*n); esl_mat_DScale(A, M, (int)(n / M), sd); out_dvec(A[0], n); esl_mat_DDestroy(A); }
    else if (!strcmp(op, "ArgMax"))   h_out("ok %" PRId64, esl_vec_DArgMax(x, n));
    else if (!strcmp(op, "ArgMin"))   h_out("ok %" PRId64, esl_vec_DArgMin(x, n));
    else if (!strcmp(op, "SortIncreasing")) { esl_vec_DSortIncreasing(x, n); out_dvec(x, n); }
    else if (!strcmp(op, "SortDecreasing")) { esl_vec_DSortDecreasing(x, n); out_dvec(x, n); }
    else if (!strcmp(op, "Reverse"))  { double *r = malloc(8*n + 8); esl_vec_DReverse(x, r, n); out_dvec(r, n); free(r); }
    else if (!strcmp(op, "ReverseInPlace")) { esl_vec_DReverse(x, x, n); out_dvec(x, n); }
    else if (!strcmp(op, "Set"))      { esl_vec_DSet(x, n, sd); out_dvec(x, n); }
    else if (!strcmp(op, "Copy"))     { double *r = malloc(8*n + 8); esl_vec_DCopy(x, n, r); out_dvec(r, n); free(r); }
    else if (!strcmp(op, "Swap"))     { double *r = malloc(16*n + 8); esl_vec_DSwap(x, y, n); memcpy(r, x, 8*n); memcpy(r + n, y, 8*n); out_dvec(r, 2*n); free(r); }
    else if (!strcmp(op, "Scale"))    { esl_vec_DScale(x, n, sd); out_dvec(x, n); }
    else if (!strcmp(op, "Increment")){ esl_vec_DIncrement(x, n, sd); out_dvec(x, n); }
    else if (!strcmp(op, "Add"))      { esl_vec_DAdd(x, y, n); out_dvec(x, n); }
    else if (!strcmp(op, "AddScaled")){ esl_vec_DAddScaled(x, y, sd, n); out_dvec(x, n); }
    else if (!strcmp(op, "Norm"))     { esl_vec_DNorm(x, n); out_dvec(x, n); }
    else if (!strcmp(op, "LogNorm"))  { esl_vec_DLogNorm(x, n); out_dvec(x, n); }
    else if (!strcmp(op, "Log2Norm")) { esl_vec_DLog2Norm(x, n); out_dvec(x, n); }
    else if (!strcmp(op, "Log"))      { esl_vec_DLog(x, n); out_dvec(x, n); }
    else if (!strcmp(op, "Exp"))      { esl_vec_DExp(x, n); out_dvec(x, n); }
    else if (!strcmp(op, "Log2"))     { esl_vec_DLog2(x, n); out_dvec(x, n); }
    else if (!strcmp(op, "Exp2"))     { esl_vec_DExp2(x, n); out_dvec(x, n); }
    else if (!strcmp(op, "LogSum"))   h_out("ok %s", DB(esl_vec_DLogSum(x, n)));
    else if (!strcmp(op, "Log2Sum"))  h_out("ok %s", DB(esl_vec_DLog2Sum(x, n)));
    else if (!strcmp(op, "Entropy"))  h_out("ok %s", DB(esl_vec_DEntropy(x, n)));
    else if (!strcmp(op, "RelEntropy")) h_out("ok %s", DB(esl_vec_DRelEntropy(x, y, n)));
    else if (!strcmp(op, "CDF"))      { double *c = malloc(8*n + 8); esl_vec_DCDF(x, n, c); out_dvec(c, n); free(c); }
    else if (!strcmp(op, "CDFInPlace")) { esl_vec_DCDF(x, n, x); out_dvec(x, n); }
    else if (!strcmp(op, "Compare"))  h_out("ok %d", esl_vec_DCompare(x, y, n, sd));
    else if (!strcmp(op, "MatCompare")) { int M = (int) h_argi("m", 1); double **A = esl_mat_DCreate(M, (int)(n / M)), **B = esl_mat_DCreate(M, (int)(n / M)); memcpy(A[0], x, 8*n); memcpy(B[0], y, 8*n); h_out("ok %d", esl_mat_DCompare(A, B, M, (int)(n / M), sd)); esl_mat_DDestroy(A); esl_mat_DDestroy(B); }
    else if (!strcmp(op, "Validate")) VALIDATE(esl_vec_DValidate, sd)
    else if (!strcmp(op, "LogValidate")) VALIDATE(esl_vec_DLogValidate, sd)
    else if (!strcmp(op, "Log2Validate")) VALIDATE(esl_vec_DLog2Validate, sd)
    else h_out("bad-op");
  } else if (T == 'F') {
    float *x = (float *) xb, *y = (float *) yb; n = nx / 4;
    if (yb && ny / 4 != n) { h_out("bad-op"); DONE; } NLIM;
    if      (!strcmp(op, "Sum"))      h_out("ok %s", FB(esl_vec_FSum(x, n)));
    else if (!strcmp(op, "Dot"))      h_out("ok %s", FB(esl_vec_FDot(x, y, n)));
    else if (!strcmp(op, "Max"))      h_out("ok %s", FB(esl_vec_FMax(x, n)));
    else if (!strcmp(op, "Min"))      h_out("ok %s", FB(esl_vec_FMin(x, n)));
    else if (!strcmp(op, "MatMax"))   { int M = (int) h_argi("m", 1); float **A = esl_mat_FCreate(M, (int)(n / M)); memcpy(A[0], x, 4*n); h_out("ok %s", FB(esl_mat_FMax(A, M, (int)(n / M)))); esl_mat_FDestroy(A); }
    else if (!strcmp(op, "MatSet"))   { int M = (int) h_argi("m", 1); float **A = esl_mat_FCreate(M, (int)(n / M)); memcpy(A[0], x, 4*n); esl_mat_FSet(A, M, (int)(n / M), sf); out_fvec(A[0], n); esl_mat_FDestroy(A); }
    else if (!strcmp(op, "MatCopy"))  { int M = (int) h_argi("m", 1); float **A = esl_mat_FCreate(M, (int)(n / M)), **B = esl_mat_FCreate(M, (int)(n / M)); memcpy(A[0], x, 4*n); esl_mat_FCopy(A, M, (int)(n / M), B); out_fvec(B[0], n); esl_mat_FDestroy(A); esl_mat_FDestroy(B); }
    else if (!strcmp(op, "MatScale")) { int M = (int) h_argi("m", 1); float **A = esl_mat_FCreate(M, (int)(n / M)); memcpy(A[0], x, 4*n); esl_mat_FScale(A, M, (int)(n / M), sf); out_fvec(A[0], n); esl_mat_FDestroy(A); }
    else if (!strcmp(op, "ArgMax"))   h_out("ok %" PRId64, esl_vec_FArgMax(x, n));
    else if (!strcmp(op, "ArgMin"))   h_out("ok %" PRId64, esl_vec_FArgMin(x, n));
    else if (!strcmp(op, "SortIncreasing")) { esl_vec_FSortIncreasing(x, n); out_fvec(x, n); }
    else if (!strcmp(op, "SortDecreasing")) { esl_vec_FSortDecreasing(x, n); out_fvec(x, n); }
    else if (!strcmp(op, "Reverse"))  { float *r = malloc(4*n + 4); esl_vec_FReverse(x, r, n); out_fvec(r, n); free(r); }
    else if (!strcmp(op, "ReverseInPlace")) { esl_vec_FReverse(x, x, n); out_fvec(x, n); }
    else if (!strcmp(op, "CDFInPlace")) { esl_vec_FCDF(x, n, x); out_fvec(x, n); }
    else if (!strcmp(op, "Set"))      { esl_vec_FSet(x, n, sf); out_fvec(x, n); }
    else if (!strcmp(op, "Copy"))     { float *r = malloc(4*n + 4); esl_vec_FCopy(x, n, r); out_fvec(r, n); free(r); }
    else if (!strcmp(op, "Swap"))     { float *r = malloc(8*n + 4); esl_vec_FSwap(x, y, n); memcpy(r, x, 4*n); memcpy(r + n, y, 4*n); out_fvec(r, 2*n); free(r); }
    else if (!strcmp(op, "Scale"))    { esl_vec_FScale(x, n, sf); out_fvec(x, n); }
    else if (!strcmp(op, "Increment")){ esl_vec_FIncrement(x, n, sf); out_fvec(x, n); }
    else if (!strcmp(op, "Add"))      { esl_vec_FAdd(x, y, n); out_fvec(x, n); }
    else if (!strcmp(op, "AddScaled")){ esl_vec_FAddScaled(x, y, sf, n); out_fvec(x, n); }
    else if (!strcmp(op, "Norm"))     { esl_vec_FNorm(x, n); out_fvec(x, n); }
    else if (!strcmp(op, "LogNorm"))  { esl_vec_FLogNorm(x, n); out_fvec(x, n); }
    else if (!strcmp(op, "Log2Norm")) { esl_vec_FLog2Norm(x, n); out_fvec(x, n); }
    else if (!strcmp(op, "Log"))      { esl_vec_FLog(x, n); out_fvec(x, n); }
    else if (!strcmp(op, "Exp"))      { esl_vec_FExp(x, n); out_fvec(x, n); }
    else if (!strcmp(op, "Log2"))     { esl_vec_FLog2(x, n); out_fvec(x, n); }
    else if (!strcmp(op, "Exp2"))     { esl_vec_FExp2(x, n); out_fvec(x, n); }
    else if (!strcmp(op, "LogSum"))   h_out("ok %s", FB(esl_vec_FLogSum(x, n)));
    else if (!strcmp(op, "Log2Sum"))  h_out("ok %s", FB(esl_vec_FLog2Sum(x, n)));
    else if (!strcmp(op, "Entropy"))  h_out("ok %s", FB(esl_vec_FEntropy(x, n)));
    else if (!strcmp(op, "RelEntropy")) h_out("ok %s", FB(esl_vec_FRelEntropy(x, y, n)));
    else if (!strcmp(op, "CDF"))      { float *c = malloc(4*n + 4); esl_vec_FCDF(x, n, c); out_fvec(c, n); free(c); }
    else if (!strcmp(op, "Compare"))  h_out("ok %d", esl_vec_FCompare(x, y, n, sf));
    else if (!strcmp(op, "MatCompare")) { int M = (int) h_argi("m", 1); float **A = esl_mat_FCreate(M, (int)(n / M)), **B = esl_mat_FCreate(M, (int)(n / M)); memcpy(A[0], x, 4*n); memcpy(B[0], y, 4*n); h_out("ok %d", esl_mat_FCompare(A, B, M, (int)(n / M), sf)); esl_mat_FDestroy(A); esl_mat_FDestroy(B); }
    else if (!strcmp(op, "Validate")) VALIDATE(esl_vec_FValidate, sf)
    else if (!strcmp(op, "LogValidate")) VALIDATE(esl_vec_FLogValidate, sf)
    else if (!strcmp(op, "Log2Validate")) VALIDATE(esl_vec_FLog2Validate, sf)
    else h_out("bad-op");
  } else if (T == 'I') {
    int *x = (int *) xb, *y = (int *) yb; n = nx / 4;
    if (yb && ny / 4 != n) { h_out("bad-op"); DONE; } NLIM;
    if      (!strcmp(op, "Sum"))      h_out("ok %d", esl_vec_ISum(x, n));
    else if (!strcmp(op, "Dot"))      h_out("ok %d", esl_vec_IDot(x, y, n));
    else if (!strcmp(op, "Max"))      h_out("ok %d", esl_vec_IMax(x, n));
    else if (!strcmp(op, "Min"))      h_out("ok %d", esl_vec_IMin(x, n));
    else if (!strcmp(op, "MatMax"))   { int M = (int) h_argi("m", 1); int **A = esl_mat_ICreate(M, (int)(n / M)); memcpy(A[0], x, 4*n); h_out("ok %d", esl_mat_IMax(A, M, (int)(n / M))); esl_mat_IDestroy(A); }
    else if (!strcmp(op, "ArgMax"))   h_out("ok %" PRId64, esl_vec_IArgMax(x, n));
    else if (!strcmp(op, "ArgMin"))   h_out("ok %" PRId64, esl_vec_IArgMin(x, n));
    else if (!strcmp(op, "SortIncreasing")) { esl_vec_ISortIncreasing(x, n); h_out("ok %s", h_hex(x, 4*n)); }
    else if (!strcmp(op, "SortDecreasing")) { esl_vec_ISortDecreasing(x, n); h_out("ok %s", h_hex(x, 4*n)); }
    else if (!strcmp(op, "Reverse"))  { int *r = malloc(4*n + 4); esl_vec_IReverse(x, r, n); h_out("ok %s", h_hex(r, 4*n)); free(r); }
    else if (!strcmp(op, "ReverseInPlace")) { esl_vec_IReverse(x, x, n); h_out("ok %s", h_hex(x, 4*n)); }
    else if (!strcmp(op, "Set"))      { esl_vec_ISet(x, n, (int) h_argi("k", 1)); h_out("ok %s", h_hex(x, 4*n)); }
    else if (!strcmp(op, "Copy"))     { int *r = malloc(4*n + 4); esl_vec_ICopy(x, n, r); h_out("ok %s", h_hex(r, 4*n)); free(r); }
    else if (!strcmp(op, "Swap"))     { int *r = malloc(8*n + 4); esl_vec_ISwap(x, y, n); memcpy(r, x, 4*n); memcpy(r + n, y, 4*n); h_out("ok %s", h_hex(r, 8*n)); free(r); }
    else if (!strcmp(op, "Scale"))    { esl_vec_IScale(x, n, (int) h_argi("k", 1)); h_out("ok %s", h_hex(x, 4*n)); }
    else if (!strcmp(op, "Increment")){ esl_vec_IIncrement(x, n, (int) h_argi("k", 1)); h_out("ok %s", h_hex(x, 4*n)); }
    else if (!strcmp(op, "Add"))      { esl_vec_IAdd(x, y, n); h_out("ok %s", h_hex(x, 4*n)); }
    else if (!strcmp(op, "AddScaled")){ esl_vec_IAddScaled(x, y, (int) h_argi("k", 1), n); h_out("ok %s", h_hex(x, 4*n)); }
    else if (!strcmp(op, "Compare"))  h_out("ok %d", esl_vec_ICompare(x, y, n));
    else if (!strcmp(op, "MatCompare")) { int M = (int) h_argi("m", 1); int **A = esl_mat_ICreate(M, (int)(n / M)), **B = esl_mat_ICreate(M, (int)(n / M)); memcpy(A[0], x, 4*n); memcpy(B[0], y, 4*n); h_out("ok %d", esl_mat_ICompare(A, B, M, (int)(n / M))); esl_mat_IDestroy(A); esl_mat_IDestroy(B); }
    else if (!strcmp(op, "MatSet"))   { int M = (int) h_argi("m", 1); int **A = esl_mat_ICreate(M, (int)(n / M)); memcpy(A[0], x, 4*n); esl_mat_ISet(A, M, (int)(n / M), (int) h_argi("k", 1)); h_out("ok %s", h_hex(A[0], 4*n)); esl_mat_IDestroy(A); }
    else if (!strcmp(op, "MatCopy"))  { int M = (int) h_argi("m", 1); int **A = esl_mat_ICreate(M, (int)(n / M)), **B = esl_mat_ICreate(M, (int)(n / M)); memcpy(A[0], x, 4*n); esl_mat_ICopy(A, M, (int)(n / M), B); h_out("ok %s", h_hex(B[0], 4*n)); esl_mat_IDestroy(A); esl_mat_IDestroy(B); }
    else if (!strcmp(op, "MatScale")) { int M = (int) h_argi("m", 1); int **A = esl_mat_ICreate(M, (int)(n / M)); memcpy(A[0], x, 4*n); esl_mat_IScale(A, M, (int)(n / M), (int) h_argi("k", 1)); h_out("ok %s", h_hex(A[0], 4*n)); esl_mat_IDestroy(A); }
    else h_out("bad-op");
  } else if (T == 'L') {
    int64_t *x = (int64_t *) xb, *y = (int64_t *) yb; n = nx / 8;
    if (yb && ny / 8 != n) { h_out("bad-op"); DONE; } NLIM;
    if      (!strcmp(op, "Sum"))      h_out("ok %" PRId64, esl_vec_LSum(x, n));
    else if (!strcmp(op, "Dot"))      h_out("ok %" PRId64, esl_vec_LDot(x, y, n));
    else if (!strcmp(op, "Max"))      h_out("ok %" PRId64, esl_vec_LMax(x, n));
    else if (!strcmp(op, "Min"))      h_out("ok %" PRId64, esl_vec_LMin(x, n));
    else if (!strcmp(op, "ArgMax"))   h_out("ok %" PRId64, esl_vec_LArgMax(x, n));
    else if (!strcmp(op, "ArgMin"))   h_out("ok %" PRId64, esl_vec_LArgMin(x, n));
    else if (!strcmp(op, "SortIncreasing")) { esl_vec_LSortIncreasing(x, n); h_out("ok %s", h_hex(x, 8*n)); }
    else if (!strcmp(op, "SortDecreasing")) { esl_vec_LSortDecreasing(x, n); h_out("ok %s", h_hex(x, 8*n)); }
    else if (!strcmp(op, "Reverse"))  { int64_t *r = malloc(8*n + 8); esl_vec_LReverse(x, r, n); h_out("ok %s", h_hex(r, 8*n)); free(r); }
    else if (!strcmp(op, "ReverseInPlace")) { esl_vec_LReverse(x, x, n); h_out("ok %s", h_hex(x, 8*n)); }
    else if (!strcmp(op, "Set"))      { esl_vec_LSet(x, n, h_argi("k", 1)); h_out("ok %s", h_hex(x, 8*n)); }
    else if (!strcmp(op, "Copy"))     { int64_t *r = malloc(8*n + 8); esl_vec_LCopy(x, n, r); h_out("ok %s", h_hex(r, 8*n)); free(r); }
    else if (!strcmp(op, "Swap"))     { int64_t *r = malloc(16*n + 8); esl_vec_LSwap(x, y, n); memcpy(r, x, 8*n); memcpy(r + n, y, 8*n); h_out("ok %s", h_hex(r, 16*n)); free(r); }
    else if (!strcmp(op, "Scale"))    { esl_vec_LScale(x, n, h_argi("k", 1)); h_out("ok %s", h_hex(x, 8*n)); }
    else if (!strcmp(op, "Increment")){ esl_vec_LIncrement(x, n, h_argi("k", 1)); h_out("ok %s", h_hex(x, 8*n)); }
    else if (!strcmp(op, "Add"))      { esl_vec_LAdd(x, y, n); h_out("ok %s", h_hex(x, 8*n)); }
    else if (!strcmp(op, "AddScaled")){ esl_vec_LAddScaled(x, y, h_argi("k", 1), n); h_out("ok %s", h_hex(x, 8*n)); }
    else if (!strcmp(op, "Compare"))  h_out("ok %d", esl_vec_LCompare(x, y, n));
    else h_out("bad-op");
  } else if (T == 'W' && !strcmp(op, "MatCopy")) {
    int16_t *x = (int16_t *) xb, *r, **A, **B; int M = (int) h_argi("m", 1), N, i; n = nx / 2; N = (int)(n / M); r = malloc(2*n + 2);
    A = malloc(sizeof *A * M); B = malloc(sizeof *B * M); for (i = 0; i < M; i++) { A[i] = x + (int64_t) i * N; B[i] = r + (int64_t) i * N; }
    esl_mat_WCopy(A, M, N, B); h_out("ok %s", h_hex(r, 2*n)); free(r); free(A); free(B);
  } else if (T == 'B' && !strcmp(op, "MatCopy")) {
    int8_t *x = (int8_t *) xb, *r, **A, **B; int M = (int) h_argi("m", 1), N, i; n = nx; N = (int)(n / M); r = malloc(n + 1);
    A = malloc(sizeof *A * M); B = malloc(sizeof *B * M); for (i = 0; i < M; i++) { A[i] = x + (int64_t) i * N; B[i] = r + (int64_t) i * N; }
    esl_mat_BCopy(A, M, N, B); h_out("ok %s", h_hex(r, n)); free(r); free(A); free(B);
  } else if (T == 'C' && !strcmp(op, "Reverse")) {
    char *x = (char *) xb, *r; n = nx; NLIM; r = malloc(n + 1); esl_vec_CReverse(x, r, n); h_out("ok %s", h_hex(r, n)); free(r);
  } else if (T == 'C' && !strcmp(op, "ReverseInPlace")) {
    char *x = (char *) xb; n = nx; NLIM; esl_vec_CReverse(x, x, n); h_out("ok %s", h_hex(x, n));
  } else if (T == 'W' && !strcmp(op, "Copy")) {
    int16_t *x = (int16_t *) xb, *r; n = nx / 2; r = malloc(2*n + 2); esl_vec_WCopy(x, n, r); h_out("ok %s", h_hex(r, 2*n)); free(r);
  } else if (T == 'B' && !strcmp(op, "Copy")) {
    int8_t *x = (int8_t *) xb, *r; n = nx; r = malloc(n + 1); esl_vec_BCopy(x, n, r); h_out("ok %s", h_hex(r, n)); free(r);
  } else h_out("bad-op");
  DONE;
}

/* ------------------------------------------------------------------ matrices (esl_matrixops.c) */
#define MAT_OPS(T, ctype, X, outvec)                                                                              \
  if (Tc == X) {                                                                                                    \
    ctype *x = (ctype *) xb; int64_t n = nx / (int64_t) sizeof(ctype); ctype **A, **B; int i, j;                    \
    if (n != (int64_t) M * N) { h_out("bad-op"); free(xb); return; }                                                \
    A = esl_mat_##T##Create(M, N);                                                                                  \
    if (!strcmp(op, "Rows"))        { for (i = 0; i < M; i++) for (j = 0; j < N; j++) A[i][j] = x[i*N+j]; outvec(A[0], n); } \
    else if (!strcmp(op, "Clone"))  { memcpy(A[0], x, sizeof(ctype)*n); B = esl_mat_##T##Clone(A, M, N);            \
                                      for (i = 0; i < M; i++) for (j = 0; j < N; j++) x[i*N+j] = B[i][j]; outvec(x, n); esl_mat_##T##Destroy(B); } \
    else if (!strcmp(op, "Copy"))   { memcpy(A[0], x, sizeof(ctype)*n); B = esl_mat_##T##Create(M, N); esl_mat_##T##Copy(A, M, N, B); \
                                      for (i = 0; i < M; i++) for (j = 0; j < N; j++) x[i*N+j] = B[i][j]; outvec(x, n); esl_mat_##T##Destroy(B); } \
    else if (!strcmp(op, "GrowTo")) { ctype *keep = malloc(sizeof(ctype) * (size_t) M2 * N2 + 8); int64_t k, keepn = n < (int64_t) M2*N2 ? n : (int64_t) M2*N2; \
                                      memcpy(A[0], x, sizeof(ctype)*n); esl_mat_##T##GrowTo(&A, M2, N2);            \
                                      for (k = 0; k < keepn; k++) keep[k] = A[0][k];                                \
                                      for (i = 0; i < M2; i++) for (j = 0; j < N2; j++) A[i][j] = (ctype)((i*N2+j) % 100); \
                                      for (k = 0; k < (int64_t) M2*N2; k++) if (A[0][k] != (ctype)(k % 100)) break;  \
                                      h_out("ok kept=%s rows=%s", h_hex(keep, (int64_t) sizeof(ctype)*keepn), k == (int64_t) M2*N2 ? "rowmajor" : "BROKEN"); free(keep); } \
    else h_out("bad-op");                                                                                           \
    esl_mat_##T##Destroy(A); free(xb); return;                                                                      \
  }
static void out_ivec(int *v, int64_t n) { h_out("ok %s", h_hex(v, 4*n)); }
static void out_cvec(char *v, int64_t n) { h_out("ok %s", h_hex(v, n)); }

static void op_mat(void)
{
  const char *full = h_arg("op"), *op; char Tc; int M = (int) h_argi("m", 1), N = (int) h_argi("n", 1), M2 = (int) h_argi("m2", 1), N2 = (int) h_argi("n2", 1);
  int64_t nx = 0; unsigned char *xb = NULL;
  if (!full || M < 1 || N < 1 || M2 < 1 || N2 < 1) { h_out("bad-op"); return; }
  Tc = full[0]; op = full + 1;
  if (!strcmp(op, "Sizeof")) {
    size_t z = Tc == 'D' ? esl_mat_DSizeof(M, N) : Tc == 'F' ? esl_mat_FSizeof(M, N) : Tc == 'I' ? esl_mat_ISizeof(M, N) : esl_mat_CSizeof(M, N);
    h_out("ok %zu", z); return;
  }
  if (h_arg("x")) xb = h_unhex(h_arg("x"), &nx);
  if (!xb) { h_out("bad-op"); return; }
  if (Tc == 'D' && !strcmp(op, "Set")) { double **A = esl_mat_DCreate(M, N); esl_mat_DSet(A, M, N, h_argbits("s")); out_dvec(A[0], (int64_t) M*N); esl_mat_DDestroy(A); free(xb); return; }
  if (Tc == 'F' && !strcmp(op, "Set")) { float **A = esl_mat_FCreate(M, N); uint32_t w = (uint32_t) strtoull(h_arg("s") ? h_arg("s") : "0", NULL, 16); float sf; memcpy(&sf, &w, 4); esl_mat_FSet(A, M, N, sf); out_fvec(A[0], (int64_t) M*N); esl_mat_FDestroy(A); free(xb); return; }
  if (Tc == 'I' && !strcmp(op, "Set")) { int **A = esl_mat_ICreate(M, N); esl_mat_ISet(A, M, N, (int) h_argi("k", 1)); out_ivec(A[0], (int64_t) M*N); esl_mat_IDestroy(A); free(xb); return; }
  MAT_OPS(D, double, 'D', out_dvec)
  MAT_OPS(F, float,  'F', out_fvec)
  MAT_OPS(I, int,    'I', out_ivec)
  if (Tc == 'C') {            /* char matrices have Create/GrowTo/Sizeof/Destroy only */
    char *x = (char *) xb; char **A; int i, j; int64_t k, n = nx;
    if (n != (int64_t) M * N) { h_out("bad-op"); free(xb); return; }
    A = esl_mat_CCreate(M, N);
    if (!strcmp(op, "Rows")) { for (i = 0; i < M; i++) for (j = 0; j < N; j++) A[i][j] = x[i*N+j]; out_cvec(A[0], n); }
    else if (!strcmp(op, "GrowTo")) {
      char *keep = malloc((size_t) M2 * N2 + 8); int64_t keepn = n < (int64_t) M2*N2 ? n : (int64_t) M2*N2;
      memcpy(A[0], x, n); esl_mat_CGrowTo(&A, M2, N2);
      for (k = 0; k < keepn; k++) keep[k] = A[0][k];
      for (i = 0; i < M2; i++) for (j = 0; j < N2; j++) A[i][j] = (char)((i*N2+j) % 100);
      for (k = 0; k < (int64_t) M2*N2; k++) if (A[0][k] != (char)(k % 100)) break;
      h_out("ok kept=%s rows=%s", h_hex(keep, keepn), k == (int64_t) M2*N2 ? "rowmajor" : "BROKEN"); free(keep);
    } else h_out("bad-op");
    esl_mat_CDestroy(A); free(xb); return;
  }
  h_out("bad-op"); free(xb);
}

/* the comparators handed to qsort(): the C standard only promises a sorted result if they return <0, 0, >0 consistently */
static void op_cmp(void)
{
  const char *op = h_arg("op"); int r = 0; uint64_t ua = strtoull(h_arg("a") ? h_arg("a") : "0", NULL, 16), ub = strtoull(h_arg("b") ? h_arg("b") : "0", NULL, 16);
  if (!op) { h_out("bad-op"); return; }
  if (op[0] == 'D') { double a, b; memcpy(&a, &ua, 8); memcpy(&b, &ub, 8); r = !strcmp(op + 1, "Increasing") ? qsort_DIncreasing(&a, &b) : qsort_DDecreasing(&a, &b); }
  else if (op[0] == 'F') { float a, b; uint32_t wa = (uint32_t) ua, wb = (uint32_t) ub; memcpy(&a, &wa, 4); memcpy(&b, &wb, 4); r = !strcmp(op + 1, "Increasing") ? qsort_FIncreasing(&a, &b) : qsort_FDecreasing(&a, &b); }
  else if (op[0] == 'I') { int a = (int)(int32_t)(uint32_t) ua, b = (int)(int32_t)(uint32_t) ub; r = !strcmp(op + 1, "Increasing") ? qsort_IIncreasing(&a, &b) : qsort_IDecreasing(&a, &b); }
  else if (op[0] == 'L') { int64_t a = (int64_t) ua, b = (int64_t) ub; r = !strcmp(op + 1, "Increasing") ? qsort_LIncreasing(&a, &b) : qsort_LDecreasing(&a, &b); }
  else { h_out("bad-op"); return; }
  h_out("ok %d", r < 0 ? -1 : r > 0 ? 1 : 0);
}

/* esl_{D,F}Compare_old (easel.c), the scalar test behind esl_vec_{D,F}Compare */
static void op_cmpold(void)
{
  const char *op = h_arg("op"); uint64_t ua = strtoull(h_arg("a") ? h_arg("a") : "0", NULL, 16), ub = strtoull(h_arg("b") ? h_arg("b") : "0", NULL, 16), us = strtoull(h_arg("s") ? h_arg("s") : "0", NULL, 16);
  if (!op) { h_out("bad-op"); return; }
  if (op[0] == 'D') { double a, b, t; memcpy(&a, &ua, 8); memcpy(&b, &ub, 8); memcpy(&t, &us, 8); h_out("ok %d", esl_DCompare_old(a, b, t)); }
  else if (op[0] == 'F') { float a, b, t; uint32_t wa = (uint32_t) ua, wb = (uint32_t) ub, wt = (uint32_t) us; memcpy(&a, &wa, 4); memcpy(&b, &wb, 4); memcpy(&t, &wt, 4); h_out("ok %d", esl_FCompare_old(a, b, t)); }
  else h_out("bad-op");
}

/* esl_vec_D2F / F2D / I2F / I2D */
static void op_cvt(void)
{
  const char *op = h_arg("op"); int64_t nx = 0, n; unsigned char *xb = NULL;
  if (!op) { h_out("bad-op"); return; }
  if (h_arg("x")) xb = h_unhex(h_arg("x"), &nx);
  if      (!strcmp(op, "D2F")) { float  *r; n = nx / 8; r = malloc(4*n + 4); esl_vec_D2F((double *) xb, n, r); out_fvec(r, n); free(r); }
  else if (!strcmp(op, "F2D")) { double *r; n = nx / 4; r = malloc(8*n + 8); esl_vec_F2D((float *)  xb, n, r); out_dvec(r, n); free(r); }
  else if (!strcmp(op, "I2F")) { float  *r; n = nx / 4; r = malloc(4*n + 4); esl_vec_I2F((int *)    xb, n, r); out_fvec(r, n); free(r); }
  else if (!strcmp(op, "I2D")) { double *r; n = nx / 4; r = malloc(8*n + 8); esl_vec_I2D((int *)    xb, n, r); out_dvec(r, n); free(r); }
  else h_out("bad-op");
  free(xb);
}

static void h_op(void)
{
  const char *op = h_words[0];
  if      (!strcmp(op, "cpu"))   h_out("ok sse=1 avx=%d avx512=%d", have_avx, have_avx512);
  else if (!strcmp(op, "simd"))  op_simd();
  else if (!strcmp(op, "intr"))  op_intr();
  else if (!strcmp(op, "lane32")) op_lane32();
  else if (!strcmp(op, "logf"))  op_logexp(1);
  else if (!strcmp(op, "expf"))  op_logexp(0);
  else if (!strcmp(op, "sweep")) op_sweep();
  else if (!strcmp(op, "vec"))   op_vec();
  else if (!strcmp(op, "mat"))   op_mat();
  else if (!strcmp(op, "cmp"))   op_cmp();
  else if (!strcmp(op, "cmpold")) op_cmpold();
  else if (!strcmp(op, "cvt"))   op_cvt();
  else h_out("bad-op");
}

int main(void)
{
  __builtin_cpu_init();
  have_avx    = __builtin_cpu_supports("avx2") ? 1 : 0;
  have_avx512 = (__builtin_cpu_supports("avx512f") && __builtin_cpu_supports("avx512bw") && __builtin_cpu_supports("avx512dq")) ? 1 : 0;
  if (getenv("VERIF_NO_AVX512")) have_avx512 = 0;
  return h_main();
}
