/* C18 correspondence harness: esl_randomseq.c, esl_msashuffle.c, esl_vectorops.c shufflers (real code, ASan/UBSan) */
#include "hcommon.h"
#include <unistd.h>
#include <ctype.h>
#include <math.h>
#include <signal.h>
#include <fcntl.h>
#include <sys/stat.h>
#include "esl_alphabet.h"
#include "esl_random.h"
#include "esl_rand64.h"
#include "esl_randomseq.h"
#include "esl_msa.h"
#include "esl_msashuffle.h"
#include "esl_keyhash.h"
#include "esl_vectorops.h"

static ESL_RANDOMNESS *R;
static ESL_RAND64 *R64;
static ESL_ALPHABET *ABC_DNA, *ABC_AA;
/* A case takes milliseconds. A shuffler that no longer terminates is cut off after 15 s (generous: the machine may be heavily loaded) and reported as a fault of that case
 * (the process dies by SIGALRM). Each cut-off is recorded in a file in the run's private scratch directory (the cwd);
 * after three of them the remaining ops are answered "skipped-after-hangs" so that a broken tree is reported quickly. */
static int h_skip;
static void on_alarm(int sig)
{
  int fd = open("c18_hangs", O_WRONLY | O_CREAT | O_APPEND, 0600);
  (void) sig;
  if (fd >= 0) { if (write(fd, "x", 1) < 0) { } close(fd); }
  signal(SIGALRM, SIG_DFL); raise(SIGALRM);
}
static void h_case_begin(void) { struct stat st; h_skip = (stat("c18_hangs", &st) == 0 && st.st_size >= 3); signal(SIGALRM, on_alarm); alarm(15); }
static void h_case_end(void) { alarm(0); if (R) esl_randomness_Destroy(R); R = NULL; if (R64) esl_rand64_Destroy(R64); R64 = NULL; }

static ESL_ALPHABET *get_abc(void)
{
  const char *a = h_arg("abc");
  if (!ABC_DNA) { ABC_DNA = esl_alphabet_Create(eslDNA); ABC_AA = esl_alphabet_Create(eslAMINO); }
  return (a && !strcmp(a, "amino")) ? ABC_AA : ABC_DNA;
}

/* split a comma list into fields (modifies a private copy); returns count */
static int split_commas(const char *s, char ***ret, char **ret_dup)
{
  char *dup = strdup(s ? s : ""), *p = dup; int n = 0, cap = 8; char **f = malloc(sizeof(char *) * cap);
  if (*dup) for (;;) {
    if (n == cap) { cap *= 2; f = realloc(f, sizeof(char *) * cap); }
    f[n++] = p;
    p = strchr(p, ','); if (!p) break; *p++ = 0;
  }
  *ret = f; *ret_dup = dup; return n;
}

/* output buffer builder */
/* exact-size allocations (1 byte when empty) so that ASan sees any access past the n elements the callee was given */
#define XN(type, n) malloc((n) > 0 ? sizeof(type) * (size_t)(n) : 1)
static char *ob; static size_t ob_n, ob_cap;
static void ob_reset(void) { ob_n = 0; if (!ob) { ob_cap = 1024; ob = malloc(ob_cap); } ob[0] = 0; }
static void ob_add(const char *s) { size_t l = strlen(s); if (ob_n + l + 2 > ob_cap) { ob_cap = 2 * (ob_n + l + 2); ob = realloc(ob, ob_cap); } memcpy(ob + ob_n, s, l + 1); ob_n += l; }

/* a digital sequence with sentinels from residue bytes */
static ESL_DSQ *mk_dsq(const unsigned char *res, int64_t L)
{
  ESL_DSQ *d = malloc(L + 2); d[0] = eslDSQ_SENTINEL; if (L) memcpy(d + 1, res, L); d[L + 1] = eslDSQ_SENTINEL; return d;
}

static void out_status_or(int status, const char *hex)
{
  if (h_exception_seen && status == eslOK) h_out("exception-but-ok");
  else if (status != eslOK) h_out("%s", h_status(status));
  else h_out("ok %s", hex);
}

/* ---- MSA helpers ---- */
static ESL_MSA *mk_msa(int dig, ESL_ALPHABET *abc, char **rows, int nseq, int64_t *ret_alen)
{
  int64_t alen = 0, n; int i; ESL_MSA *msa; unsigned char *b;
  if (nseq > 0) { b = h_unhex(rows[0], &alen); free(b); }
  msa = dig ? esl_msa_CreateDigital(abc, nseq, alen) : esl_msa_Create(nseq, alen);
  for (i = 0; i < nseq; i++) {
    b = h_unhex(rows[i], &n);
    if (dig) { msa->ax[i][0] = eslDSQ_SENTINEL; if (alen) memcpy(msa->ax[i] + 1, b, alen); msa->ax[i][alen + 1] = eslDSQ_SENTINEL; }
    else     { if (alen) memcpy(msa->aseq[i], b, alen); msa->aseq[i][alen] = 0; }
    free(b);
  }
  *ret_alen = alen;
  return msa;
}
static void out_msa(ESL_MSA *m, int dig, int64_t alen)
{
  int i; ob_reset(); ob_add("ok ");
  for (i = 0; i < m->nseq; i++) { if (i) ob_add(","); ob_add(dig ? h_hex(m->ax[i], alen + 2) : h_hex(m->aseq[i], alen)); }
  if (m->nseq == 0) ob_add("-");
  h_out("%s", ob);
}
static char **opt_fields(const char *key, int nseq, char **dup)
{
  const char *v = h_arg(key); char **f; *dup = NULL;
  if (!v || !strcmp(v, "none")) return NULL;
  if (split_commas(v, &f, dup) != nseq) { free(f); free(*dup); *dup = NULL; return NULL; }
  return f;
}
static char *unhex_str(const char *h) { int64_t n; return (char *) h_unhex(h, &n); }


/* ---- support-only monitor of the binary64 facts the Markov/IID theorems trust (see lean/EaselModel/Shuffle/FloatLaws.lean).
 * Replays the numeric pipeline of one call on a COPY of the generator and evaluates every law instance in C doubles. ---- */
static long lw_checked, lw_bad;
static volatile double lw_zero = 0.0;     /* volatile: the compiler must do the arithmetic, not fold it */
static void lw_chk(int ok) { lw_checked++; if (!ok) lw_bad++; }
static int  lw_beq(double a, double b) { return memcmp(&a, &b, sizeof(double)) == 0; }
static int  lw_dchoose(ESL_RANDOMNESS *rc, const double *p, int N)
{
  double roll = esl_random(rc), norm = 0.0, sum = 0.0; int i;
  for (i = 0; i < N; i++) norm += p[i];
  lw_chk(!(roll < lw_zero / norm));                                                /* L4 */
  lw_chk(roll < 1.0);                                                               /* L5 */
  if (norm > 0. && isfinite(norm)) { volatile double nn = norm; lw_chk(lw_beq(nn / nn, 1.0)); }   /* L5 */
  for (i = 0; i < N; i++) { lw_chk(lw_beq(sum + lw_zero, sum)); sum += p[i]; }      /* L1 at every running sum */
  for (sum = 0.0, i = 0; i < N; i++) { sum += p[i]; if (roll < sum / norm) return i; }
  return -1;
}
static void lw_markov0(ESL_RANDOMNESS *rc, const int *codes, int L, int K)
{
  double *p = malloc(sizeof(double) * (K > 0 ? K : 1)); int i, x;
  for (x = 0; x < K; x++) p[x] = 0.;
  for (i = 0; i < L; i++) p[codes[i]] += 1.0;
  if (L > 0) { lw_chk(lw_beq(lw_zero / (double) L, 0.0)); for (x = 0; x < K; x++) p[x] /= (double) L; }     /* L3 */
  for (i = 0; i < L; i++) if (lw_dchoose(rc, p, K) < 0) break;
  free(p);
}
static void lw_markov1(ESL_RANDOMNESS *rc, const int *codes, int L, int K)
{
  double *p = malloc(sizeof(double) * K * K), *p0 = malloc(sizeof(double) * K); int i, x, y, i0;
  for (x = 0; x < K * K; x++) p[x] = 0.;
  i0 = x = codes[0];
  for (i = 1; i < L; i++) { y = codes[i]; p[x * K + y] += 1.0; x = y; }
  p[x * K + i0] += 1.0;
  for (x = 0; x < K; x++) { p0[x] = 0.; for (y = 0; y < K; y++) p0[x] += p[x * K + y]; }
  for (x = 0; x < K; x++) if (p0[x] > 0.) lw_chk(lw_beq(lw_zero / p0[x], 0.0));                             /* L2 */
  lw_chk(lw_beq(lw_zero + lw_zero, 0.0));                                                                    /* L1 at a = 0 */
  lw_chk(lw_beq(lw_zero / (double) L, 0.0));                                                                 /* L3 */
  for (x = 0; x < K; x++) { for (y = 0; y < K; y++) p[x * K + y] = (p0[x] > 0. ? p[x * K + y] / p0[x] : 0.); p0[x] /= (double) L; }
  x = lw_dchoose(rc, p0, K);
  for (i = 1; x >= 0 && i < L; i++) x = lw_dchoose(rc, p + x * K, K);
  free(p); free(p0);
}

static void h_op(void)
{
  const char *op = h_words[0];
  int ip = (int) h_argi("ip", 0);
  int status;

  if (h_skip) { h_out("skipped-after-hangs"); return; }

  if (!strcmp(op, "seed64")) { if (R64) esl_rand64_Destroy(R64); R64 = esl_rand64_Create(h_argu("s", 1)); h_out("ok"); return; }
  if (!strcmp(op, "poke64")) {   /* force the next (pre-tempering) state word of the 64-bit generator (esl_rand64_Roll rejection boundary) */
    if (!R64) { h_out("bad-op"); return; }
    if (R64->mti >= 312) (void) esl_rand64(R64);
    R64->mt[R64->mti] = (uint64_t) h_argu("raw", 0);
    h_out("ok");
    return;
  }
  if (!strcmp(op, "peek64")) { if (!R64) h_out("bad-op"); else h_out("ok %" PRIu64, esl_rand64(R64)); return; }
  if (!strcmp(op, "dshuffle64") || !strcmp(op, "fshuffle64") || !strcmp(op, "ishuffle64") || !strcmp(op, "lshuffle64")) {
    char **f, *dup; const char *vv = h_arg("v"); int n, i; char num[24];
    double *dv; float *fv; int *iv; int64_t *lv;
    if (!R64) { h_out("bad-op"); return; }
    n = (vv && strcmp(vv, "-")) ? split_commas(vv, &f, &dup) : (f = NULL, dup = NULL, 0);
    dv = XN(double, n); fv = XN(float, n); iv = XN(int, n); lv = XN(int64_t, n);
    for (i = 0; i < n; i++) { int x = atoi(f[i]); dv[i] = x; fv[i] = (float) x; iv[i] = x; lv[i] = x; }
    if (op[0] == 'd') esl_vec_DShuffle64(R64, dv, n); else if (op[0] == 'f') esl_vec_FShuffle64(R64, fv, n);
    else if (op[0] == 'i') esl_vec_IShuffle64(R64, iv, n); else esl_vec_LShuffle64(R64, lv, n);
    ob_reset(); ob_add("ok ");
    for (i = 0; i < n; i++) { sprintf(num, "%s%d", i ? "," : "", op[0] == 'd' ? (int) dv[i] : op[0] == 'f' ? (int) fv[i] : op[0] == 'i' ? iv[i] : (int) lv[i]); ob_add(num); }
    if (n == 0) ob_add("-");
    h_out("%s", ob);
    free(dv); free(fv); free(iv); free(lv); free(f); free(dup);
    return;
  }
  if (!strcmp(op, "abcinfo")) {   /* the alphabet facts the model hard-codes (K, Kp, gap characters, gap / nonresidue / missing codes), read from the real alphabet */
    ESL_ALPHABET *abc = get_abc(); int c; char num[96]; char gaps[130]; int ng = 0;
    for (c = 1; c < 128; c++) if (esl_abc_CIsGap(abc, c)) gaps[ng++] = (char) c;
    ob_reset(); sprintf(num, "ok K=%d Kp=%d", abc->K, abc->Kp); ob_add(num);
    ob_add(" gapchars="); ob_add(h_hex(gaps, ng));
    ob_add(" xisgap=");
    for (c = 0; c < abc->Kp; c++) ob_add(esl_abc_XIsGap(abc, c) ? "1" : "0");
    sprintf(num, " gap=%d nonres=%d missing=%d", esl_abc_XGetGap(abc), esl_abc_XGetNonresidue(abc), esl_abc_XGetMissing(abc)); ob_add(num);
    h_out("%s", ob);
    return;
  }
  if (!strcmp(op, "seed") || !strcmp(op, "seedfast")) {
    if (R) esl_randomness_Destroy(R);
    R = !strcmp(op, "seed") ? esl_randomness_Create((uint32_t) h_argu("s", 1)) : esl_randomness_CreateFast((uint32_t) h_argu("s", 1));
    h_out("ok");
    return;
  }
  if (!R) { h_out("bad-op"); return; }
  if (!strcmp(op, "peek")) { h_out("ok %" PRIu32, esl_random_uint32(R)); return; }
  if (!strcmp(op, "poke") && R->type != eslRND_MERSENNE) { h_out("bad-op"); return; }
  if (!strcmp(op, "poke")) {   /* force the next (pre-tempering) state word: reaches generator states that seeds make astronomically rare */
    if (R->mti >= 624) (void) esl_random_uint32(R);
    { int64_t n = h_argi("n", 1), j;    /* n > 1 (round 6b): the next n words, as far as the current table reaches - e.g. esl_random() = 0.0 at EVERY draw of one call */
      for (j = 0; j < n && R->mti + j < 624; j++) R->mt[R->mti + j] = (uint32_t) h_argu("raw", 0); }
    h_out("ok");
    return;
  }

  if (!strcmp(op, "fplaws")) {     /* of=<op> + that op's arguments; the generator R is NOT advanced */
    const char *of = h_arg("of"); ESL_RANDOMNESS rc = *R; int64_t L, i; int bad = 0;
    lw_checked = lw_bad = 0;
    if (!of) { h_out("bad-op"); return; }
    if (!strcmp(of, "cmarkov0") || !strcmp(of, "cmarkov1") || !strcmp(of, "xmarkov0") || !strcmp(of, "xmarkov1")) {
      unsigned char *sq = h_unhex(h_arg("s"), &L); int K = of[0] == 'c' ? 26 : (int) h_argi("K", 4); int *codes = malloc(sizeof(int) * (L + 1));
      for (i = 0; i < L; i++) {
        if (of[0] == 'c') { if (!isalpha(sq[i]) || sq[i] > 127) bad = 1; else codes[i] = toupper(sq[i]) - 'A'; }
        else              { if (sq[i] >= K) bad = 1; else codes[i] = sq[i]; }
      }
      if (bad) h_out("einval");
      else {
        if (of[7] == '0') lw_markov0(&rc, codes, (int) L, K); else if (L > 2) lw_markov1(&rc, codes, (int) L, K);
        h_out("ok checked=%ld bad=%ld", lw_checked, lw_bad);
      }
      free(codes); free(sq);
      return;
    }
    if (!strcmp(of, "iid") || !strcmp(of, "fiid") || !strcmp(of, "xiid") || !strcmp(of, "xfiid")) {
      const char *pv = h_arg("p"); int isf = (of[0] == 'f' || of[1] == 'f'), K, n = (int) h_argi("L", 0); char **f, *dup; double *pd;
      if (!pv || !strcmp(pv, "none")) { h_out("ok checked=0 bad=0"); return; }
      K = split_commas(pv, &f, &dup); pd = XN(double, K);
      for (i = 0; i < K; i++) {
        if (isf) { uint32_t u = (uint32_t) strtoul(f[i], NULL, 16); float fl; memcpy(&fl, &u, 4); pd[i] = (double) fl; }
        else     { uint64_t u = strtoull(f[i], NULL, 16); memcpy(&pd[i], &u, 8); }
      }
      for (i = 0; i < n; i++) if (lw_dchoose(&rc, pd, K) < 0) break;
      h_out("ok checked=%ld bad=%ld", lw_checked, lw_bad);
      free(pd); free(f); free(dup);
      return;
    }
    h_out("bad-op");
    return;
  }
  if (!strcmp(op, "sample")) {     /* esl_rsq_Sample: pre=0 lets the routine allocate, pre=1 passes caller storage */
    int L = (int) h_argi("L", 0), pre = (int) h_argi("pre", 0); char *sp = NULL, *own = NULL;
    if (pre) { own = malloc(L + 1); memset(own, 0x77, L + 1); sp = own; }
    status = esl_rsq_Sample(R, (int) h_argi("flag", 0), L, &sp);
    if (status != eslOK) { h_out("%s%s", h_status(status), (!pre && sp != NULL) ? "-but-pointer-set" : ""); }
    else if (sp == NULL || (pre && sp != own)) h_out("ok-but-bad-pointer");
    else if (sp[L] != 0) h_out("ok-but-no-nul");
    else h_out("ok %s", h_hex(sp, L));
    if (pre) free(own); else if (status == eslOK) free(sp);
    return;
  }
  if (!strcmp(op, "sampledirty")) {   /* esl_rsq_SampleDirty: p provided / p=none ret=0 (internal) / p=none ret=1 (returned to the caller) */
    ESL_ALPHABET *abc = get_abc(); int L = (int) h_argi("L", 0), K, i; char **f = NULL, *dup = NULL; double *pd = NULL, *pp = NULL; ESL_DSQ *d;
    const char *pv = h_arg("p"); int pnone = (!pv || !strcmp(pv, "none")), ret = (int) h_argi("ret", 0);
    d = malloc(L + 2); memset(d, 0x77, L + 2);
    if (!pnone) {
      K = split_commas(pv, &f, &dup);
      if (K != abc->Kp) { h_out("bad-op"); free(f); free(dup); free(d); return; }
      pd = malloc(sizeof(double) * K);
      for (i = 0; i < K; i++) { uint64_t u = strtoull(f[i], NULL, 16); memcpy(&pd[i], &u, 8); }
      pp = pd;
      status = esl_rsq_SampleDirty(R, abc, &pp, L, d);
      if (status == eslOK && pp != pd) h_out("ok-but-p-replaced"); else out_status_or(status, h_hex(d, L + 2));
    } else if (!ret) {
      status = esl_rsq_SampleDirty(R, abc, NULL, L, d);
      out_status_or(status, h_hex(d, L + 2));
    } else {
      status = esl_rsq_SampleDirty(R, abc, &pp, L, d);
      if (status != eslOK || pp == NULL) h_out("%s", status == eslOK ? "ok-but-no-p" : h_status(status));
      else { char num[24]; ob_reset(); ob_add("ok "); ob_add(h_hex(d, L + 2)); ob_add(" p=");
             for (i = 0; i < abc->Kp; i++) { uint64_t u; memcpy(&u, &pp[i], 8); sprintf(num, "%s%" PRIx64, i ? "," : "", u); ob_add(num); }
             h_out("%s", ob); }
      free(pp);
    }
    free(d); free(pd); free(f); free(dup);
    return;
  }
  /* ---------------- text sequence ops ---------------- */
  if (!strcmp(op, "cshuffle") || !strcmp(op, "cshuffledp") || !strcmp(op, "ckmers") || !strcmp(op, "cwindows") ||
      !strcmp(op, "creverse") || !strcmp(op, "cmarkov0") || !strcmp(op, "cmarkov1")) {
    int64_t L; char *s = (char *) h_unhex(h_arg("s"), &L); char *dst = s;
    if (!ip) { dst = malloc(L + 1); memset(dst, 0x77, L + 1); }
    if      (!strcmp(op, "cshuffle"))   status = esl_rsq_CShuffle(R, s, dst);
    else if (!strcmp(op, "cshuffledp")) status = esl_rsq_CShuffleDP(R, s, dst);
    else if (!strcmp(op, "ckmers"))     status = esl_rsq_CShuffleKmers(R, s, (int) h_argi("k", 1), dst);
    else if (!strcmp(op, "cwindows"))   status = esl_rsq_CShuffleWindows(R, s, (int) h_argi("w", 1), dst);
    else if (!strcmp(op, "creverse"))   status = esl_rsq_CReverse(s, dst);
    else if (!strcmp(op, "cmarkov0"))   status = esl_rsq_CMarkov0(R, s, dst);
    else                                status = esl_rsq_CMarkov1(R, s, dst);
    if (status == eslOK && dst[L] != 0) h_out("ok-but-no-nul");
    else out_status_or(status, h_hex(dst, L));
    if (!ip) free(dst);
    free(s);
    return;
  }
  /* ---------------- digital sequence ops ---------------- */
  if (!strcmp(op, "xshuffle") || !strcmp(op, "xshuffledp") || !strcmp(op, "xkmers") || !strcmp(op, "xwindows") ||
      !strcmp(op, "xreverse") || !strcmp(op, "xmarkov0") || !strcmp(op, "xmarkov1")) {
    int64_t L; unsigned char *res = h_unhex(h_arg("s"), &L); ESL_DSQ *d = mk_dsq(res, L), *dst = d; int K = (int) h_argi("K", 4);
    if (!ip) { dst = malloc(L + 2); memset(dst, 0x77, L + 2); }
    if      (!strcmp(op, "xshuffle"))   status = esl_rsq_XShuffle(R, d, (int) L, dst);
    else if (!strcmp(op, "xshuffledp")) status = esl_rsq_XShuffleDP(R, d, (int) L, K, dst);
    else if (!strcmp(op, "xkmers"))     status = esl_rsq_XShuffleKmers(R, d, (int) L, (int) h_argi("k", 1), dst);
    else if (!strcmp(op, "xwindows"))   status = esl_rsq_XShuffleWindows(R, d, (int) L, (int) h_argi("w", 1), dst);
    else if (!strcmp(op, "xreverse"))   status = esl_rsq_XReverse(d, (int) L, dst);
    else if (!strcmp(op, "xmarkov0"))   status = esl_rsq_XMarkov0(R, d, (int) L, K, dst);
    else                                status = esl_rsq_XMarkov1(R, d, (int) L, K, dst);
    out_status_or(status, h_hex(dst, L + 2));
    if (!ip) free(dst);
    free(d); free(res);
    return;
  }
  /* ---------------- i.i.d. generation ---------------- */
  if (!strcmp(op, "iid") || !strcmp(op, "fiid") || !strcmp(op, "xiid") || !strcmp(op, "xfiid")) {
    int isf = (op[0] == 'f' || op[1] == 'f'), isx = (op[0] == 'x');
    int L = (int) h_argi("L", 0), K = 0, i; char **f = NULL, *dup = NULL; const char *pv = h_arg("p");
    double *pd = NULL; float *pf = NULL; int pnull = (!pv || !strcmp(pv, "none"));
    if (!pnull) {
      K = split_commas(pv, &f, &dup);
      pd = XN(double, K); pf = XN(float, K);
      for (i = 0; i < K; i++) {
        if (isf) { uint32_t u = (uint32_t) strtoul(f[i], NULL, 16); memcpy(&pf[i], &u, 4); }
        else     { uint64_t u = strtoull(f[i], NULL, 16); memcpy(&pd[i], &u, 8); }
      }
    } else K = (int) h_argi("K", 4);
    if (!isx) {
      int64_t an; char *abc = (char *) h_unhex(h_arg("abc"), &an); char *s = malloc(L + 1);
      memset(s, 0x77, L + 1);
      status = isf ? esl_rsq_fIID(R, abc, pf, K, L, s) : esl_rsq_IID(R, abc, pd, K, L, s);
      if (status == eslOK && s[L] != 0) h_out("ok-but-no-nul"); else out_status_or(status, h_hex(s, L));
      free(s); free(abc);
    } else {
      ESL_DSQ *d = malloc(L + 2); memset(d, 0x77, L + 2);
      status = isf ? esl_rsq_xfIID(R, pnull ? NULL : pf, K, L, d) : esl_rsq_xIID(R, pnull ? NULL : pd, K, L, d);
      out_status_or(status, h_hex(d, L + 2));
      free(d);
    }
    free(pd); free(pf); free(f); free(dup);
    return;
  }
  /* ---------------- integer vector shuffle / reverse (esl_vectorops.c) ---------------- */
  if (!strcmp(op, "dshuffle") || !strcmp(op, "fshuffle") || !strcmp(op, "lshuffle") ||
      !strcmp(op, "dreverse") || !strcmp(op, "freverse") || !strcmp(op, "lreverse") || !strcmp(op, "vcreverse")) {
    /* same values as small integers, stored as double / float / int64 / char */
    char **f, *dup; const char *vv = h_arg("v"); int n = (vv && strcmp(vv, "-")) ? split_commas(vv, &f, &dup) : (f = NULL, dup = NULL, 0);
    int i, rev = (op[1] == 'r' || op[2] == 'r'); char t = op[0] == 'v' ? 'c' : op[0]; char num[24];
    double *dv = XN(double, n), *dd = dv; float *fv = XN(float, n), *fd = fv;
    int64_t *lv = XN(int64_t, n), *ld = lv; char *cv = XN(char, n), *cd = cv;
    for (i = 0; i < n; i++) { int x = atoi(f[i]); dv[i] = x; fv[i] = (float) x; lv[i] = x; cv[i] = (char) x; }
    if (rev && !ip) { dd = XN(double, n); fd = XN(float, n); ld = XN(int64_t, n); cd = XN(char, n);
                      for (i = 0; i < n; i++) { dd[i] = -777; fd[i] = -777; ld[i] = -777; cd[i] = 0x77; } }
    if (!rev) { if (t == 'd') esl_vec_DShuffle(R, dv, n); else if (t == 'f') esl_vec_FShuffle(R, fv, n); else esl_vec_LShuffle(R, lv, n); }
    else { if (t == 'd') esl_vec_DReverse(dv, dd, n); else if (t == 'f') esl_vec_FReverse(fv, fd, n); else if (t == 'l') esl_vec_LReverse(lv, ld, n); else esl_vec_CReverse(cv, cd, n); }
    ob_reset(); ob_add("ok ");
    for (i = 0; i < n; i++) { sprintf(num, "%s%d", i ? "," : "", t == 'd' ? (int) dd[i] : t == 'f' ? (int) fd[i] : t == 'l' ? (int) ld[i] : (int) cd[i]); ob_add(num); }
    if (n == 0) ob_add("-");
    h_out("%s", ob);
    if (dd != dv) { free(dd); free(fd); free(ld); free(cd); }
    free(dv); free(fv); free(lv); free(cv); free(f); free(dup);
    return;
  }
  if (!strcmp(op, "ishuffle") || !strcmp(op, "ireverse")) {
    char **f, *dup; const char *vv = h_arg("v"); int n = (vv && strcmp(vv, "-")) ? split_commas(vv, &f, &dup) : (f = NULL, dup = NULL, 0);
    int *v = XN(int, n), *dst = v, i; char num[24];
    for (i = 0; i < n; i++) v[i] = atoi(f[i]);
    if (!strcmp(op, "ishuffle")) esl_vec_IShuffle(R, v, n);
    else { if (!ip) { dst = XN(int, n); for (i = 0; i < n; i++) dst[i] = -777; } esl_vec_IReverse(v, dst, n); }
    ob_reset(); ob_add("ok ");
    for (i = 0; i < n; i++) { sprintf(num, "%s%d", i ? "," : "", dst[i]); ob_add(num); }
    if (n == 0) ob_add("-");
    h_out("%s", ob);
    if (dst != v) free(dst);
    free(v); free(f); free(dup);
    return;
  }
  /* ---------------- alignment shufflers ---------------- */
  if (!strcmp(op, "msashuffle") || !strcmp(op, "bootstrap") || !strcmp(op, "vshuffle")) {
    int dig = (int) h_argi("dig", 0); ESL_ALPHABET *abc = get_abc(); char **rows, *dup; const char *rv = h_arg("rows");
    int nseq = split_commas(rv, &rows, &dup); int64_t alen; ESL_MSA *msa, *shuf;
    if (!strcmp(op, "vshuffle")) dig = 1;
    msa = mk_msa(dig, abc, rows, nseq, &alen);
    if (h_argi("mixed", 0) && strcmp(op, "vshuffle")) {   /* <shuf> in the other mode: the documented eslEINVAL */
      ESL_MSA *other = dig ? esl_msa_Create(nseq, alen) : esl_msa_CreateDigital(abc, nseq, alen);
      status = !strcmp(op, "msashuffle") ? esl_msashuffle_Shuffle(R, msa, other) : esl_msashuffle_Bootstrap(R, msa, other);
      h_out("%s", status == eslOK ? "ok-mixed" : h_status(status));
      esl_msa_Destroy(other); esl_msa_Destroy(msa); free(rows); free(dup);
      return;
    }
    if (!strcmp(op, "vshuffle") && h_argi("mk", 0)) {
      int i; char *t = malloc(alen + 1); memset(t, 'x', alen); t[alen] = 0;
      msa->ss_cons = strdup(t); msa->rf = strdup(t); msa->pp_cons = strdup(t);
      msa->ss = malloc(sizeof(char *) * msa->sqalloc); msa->pp = malloc(sizeof(char *) * msa->sqalloc);
      for (i = 0; i < msa->sqalloc; i++) { msa->ss[i] = (i < nseq && (i & 1) == 0) ? strdup(t) : NULL; msa->pp[i] = i < nseq ? strdup(t) : NULL; }
      for (i = 0; i < nseq; i++) { char nm[16]; sprintf(nm, "s%d", i); esl_msa_SetSeqName(msa, i, nm, -1); msa->wgt[i] = i + 1; }
      free(t);
    }
    if (ip && strcmp(op, "bootstrap")) shuf = msa;
    else if (!strcmp(op, "vshuffle") && !h_argi("fresh", 0)) shuf = esl_msa_Clone(msa);
    else {
      int i; shuf = dig ? esl_msa_CreateDigital(abc, nseq, alen) : esl_msa_Create(nseq, alen);
      for (i = 0; i < nseq; i++) { if (dig) memset(shuf->ax[i], 0x77, alen + 2); else memset(shuf->aseq[i], 0x77, alen + 1); }
    }
    if      (!strcmp(op, "msashuffle")) status = esl_msashuffle_Shuffle(R, msa, shuf);
    else if (!strcmp(op, "bootstrap"))  status = esl_msashuffle_Bootstrap(R, msa, shuf);
    else                                status = esl_msashuffle_VShuffle(R, msa, shuf);
    if (status == eslOK && !dig) { int i; for (i = 0; i < nseq; i++) if (shuf->aseq[i][alen] != 0) status = -12345; }
    if (status == eslOK && !strcmp(op, "vshuffle") && h_argi("mk", 0) && !h_argi("fresh", 0)) {   /* everything but ax[][] must be as before */
      int i, okm = 1; char *t = malloc(alen + 1); memset(t, 'x', alen); t[alen] = 0;
      if (!shuf->ss_cons || strcmp(shuf->ss_cons, t) || !shuf->rf || strcmp(shuf->rf, t) || !shuf->pp_cons || strcmp(shuf->pp_cons, t)) okm = 0;
      for (i = 0; i < nseq && okm; i++) {
        char nm[16]; sprintf(nm, "s%d", i);
        if (strcmp(shuf->sqname[i], nm) || shuf->wgt[i] != i + 1 || !shuf->pp[i] || strcmp(shuf->pp[i], t)) okm = 0;
        if (((i & 1) == 0) ? (!shuf->ss[i] || strcmp(shuf->ss[i], t)) : (shuf->ss[i] != NULL)) okm = 0;
      }
      if (shuf->nseq != nseq || shuf->alen != alen) okm = 0;
      free(t);
      if (!okm) status = -12346;
    }
    if (status == -12345) h_out("ok-but-no-nul");
    else if (status == -12346) h_out("ok-but-markup-changed");
    else if (status != eslOK) h_out("%s", h_status(status)); else out_msa(shuf, dig, alen);
    if (shuf != msa) esl_msa_Destroy(shuf);
    esl_msa_Destroy(msa); free(rows); free(dup);
    return;
  }
  if (!strcmp(op, "permute")) {
    /* arrays: rows names wgt sqlen + optional acc desc ss sa pp gs gr (each "none" or nseq hex fields) */
    int dig = (int) h_argi("dig", 0); ESL_ALPHABET *abc = get_abc(); char **rows, *dup, **names, *ndup, **w, *wdup, **sl, *sldup;
    int nseq = split_commas(h_arg("rows"), &rows, &dup); int64_t alen; ESL_MSA *msa; int i, k; char *idxs = NULL; size_t idxn = 0;
    static const char *optk[7] = { "acc", "desc", "ss", "sa", "pp", "gs", "gr" };
    char **of[7], *od[7];
    msa = mk_msa(dig, abc, rows, nseq, &alen);
    if (split_commas(h_arg("names"), &names, &ndup) != nseq || split_commas(h_arg("wgt"), &w, &wdup) != nseq ||
        split_commas(h_arg("sqlen"), &sl, &sldup) != nseq) { h_out("bad-op"); esl_msa_Destroy(msa); return; }
    for (k = 0; k < 7; k++) of[k] = opt_fields(optk[k], nseq, &od[k]);
    for (i = 0; i < nseq; i++) {
      char *t = unhex_str(names[i]); esl_msa_SetSeqName(msa, i, t, -1); free(t);
      msa->wgt[i] = (double) atoi(w[i]); msa->sqlen[i] = atoll(sl[i]);
      if (of[0]) { t = unhex_str(of[0][i]); esl_msa_SetSeqAccession(msa, i, t, -1); free(t); }
      if (of[1]) { t = unhex_str(of[1][i]); esl_msa_SetSeqDescription(msa, i, t, -1); free(t); }
      if (of[5]) { t = unhex_str(of[5][i]); esl_msa_AddGS(msa, "TG", -1, i, t, -1); free(t); }
      if (of[6]) { t = unhex_str(of[6][i]); esl_msa_AppendGR(msa, "RT", i, t); free(t); }
    }
    if (of[2]) { msa->ss = malloc(sizeof(char *) * msa->sqalloc); for (i = 0; i < msa->sqalloc; i++) msa->ss[i] = (i < nseq && strcmp(of[2][i], "~")) ? unhex_str(of[2][i]) : NULL; }
    if (of[3]) { msa->sa = malloc(sizeof(char *) * msa->sqalloc); for (i = 0; i < msa->sqalloc; i++) msa->sa[i] = (i < nseq && strcmp(of[3][i], "~")) ? unhex_str(of[3][i]) : NULL; }
    if (of[4]) { msa->pp = malloc(sizeof(char *) * msa->sqalloc); for (i = 0; i < msa->sqalloc; i++) msa->pp[i] = (i < nseq && strcmp(of[4][i], "~")) ? unhex_str(of[4][i]) : NULL; }
    /* the parsers' length arrays, present iff the annotation is: sslen[i] = 1000+i, salen[i] = 2000+i, pplen[i] = 3000+i */
    if (of[2]) { msa->sslen = malloc(sizeof(int64_t) * msa->sqalloc); for (i = 0; i < msa->sqalloc; i++) msa->sslen[i] = 1000 + i; }
    if (of[3]) { msa->salen = malloc(sizeof(int64_t) * msa->sqalloc); for (i = 0; i < msa->sqalloc; i++) msa->salen[i] = 2000 + i; }
    if (of[4]) { msa->pplen = malloc(sizeof(int64_t) * msa->sqalloc); for (i = 0; i < msa->sqalloc; i++) msa->pplen[i] = 3000 + i; }
    /* a second #=GS tag present only for the sequences whose gs2 field is not "~" */
    { char **g2, *g2d; const char *gv = h_arg("gs2");
      if (gv && strcmp(gv, "none") && split_commas(gv, &g2, &g2d) == nseq) {
        for (i = 0; i < nseq; i++) if (strcmp(g2[i], "~")) { char *t = unhex_str(g2[i]); esl_msa_AddGS(msa, "T2", -1, i, t, -1); free(t); }
        free(g2); free(g2d);
      } }
    { char **g2, *g2d; const char *gv = h_arg("gr2");    /* a second #=GR tag present only for the sequences whose field is not "~" */
      if (gv && strcmp(gv, "none") && split_commas(gv, &g2, &g2d) == nseq) {
        for (i = 0; i < nseq; i++) if (strcmp(g2[i], "~")) { char *t = unhex_str(g2[i]); esl_msa_AppendGR(msa, "R2", i, t); free(t); }
        free(g2); free(g2d);
      } }
    if (h_argi("idx", 1)) { for (i = 0; i < nseq; i++) esl_keyhash_Store(msa->index, msa->sqname[i], -1, NULL); }
    else { esl_keyhash_Destroy(msa->index); msa->index = NULL; }      /* an alignment without a name index */
    status = esl_msashuffle_PermuteSequenceOrder(R, msa);
    if (status != eslOK) h_out("%s", h_status(status));
    else {
      char num[48];
      ob_reset(); ob_add("ok ");
      for (i = 0; i < nseq; i++) {
        int ki;
        if (i) ob_add(";");
        ob_add(dig ? h_hex(msa->ax[i] + 1, alen) : h_hex(msa->aseq[i], alen)); ob_add("/");
        ob_add(h_hex(msa->sqname[i], strlen(msa->sqname[i])));
        sprintf(num, "/%d/%" PRId64, (int) msa->wgt[i], msa->sqlen[i]); ob_add(num);
        if (of[0]) { ob_add("/"); ob_add(h_hex(msa->sqacc[i], strlen(msa->sqacc[i]))); }
        if (of[1]) { ob_add("/"); ob_add(h_hex(msa->sqdesc[i], strlen(msa->sqdesc[i]))); }
        if (of[2]) { ob_add("/"); if (msa->ss[i]) ob_add(h_hex(msa->ss[i], strlen(msa->ss[i]))); else ob_add("~"); }
        if (of[3]) { ob_add("/"); if (msa->sa[i]) ob_add(h_hex(msa->sa[i], strlen(msa->sa[i]))); else ob_add("~"); }
        if (of[4]) { ob_add("/"); if (msa->pp[i]) ob_add(h_hex(msa->pp[i], strlen(msa->pp[i]))); else ob_add("~"); }
        if (of[5]) { ob_add("/"); ob_add(h_hex(msa->gs[0][i], strlen(msa->gs[0][i]))); }
        if (of[6]) { ob_add("/"); ob_add(h_hex(msa->gr[0][i], strlen(msa->gr[0][i]))); }
        if (of[2]) { sprintf(num, "/%" PRId64, msa->sslen[i]); ob_add(num); }
        if (of[3]) { sprintf(num, "/%" PRId64, msa->salen[i]); ob_add(num); }
        if (of[4]) { sprintf(num, "/%" PRId64, msa->pplen[i]); ob_add(num); }
        { int tg; for (tg = 0; tg < msa->ngs; tg++) if (!strcmp(msa->gs_tag[tg], "T2")) {
            ob_add("/"); if (msa->gs[tg][i]) ob_add(h_hex(msa->gs[tg][i], strlen(msa->gs[tg][i]))); else ob_add("~"); } }
        { int tg; for (tg = 0; tg < msa->ngr; tg++) if (!strcmp(msa->gr_tag[tg], "R2")) {
            ob_add("/"); if (msa->gr[tg][i]) ob_add(h_hex(msa->gr[tg][i], strlen(msa->gr[tg][i]))); else ob_add("~"); } }
        if (msa->index) {      /* what the rebuilt index answers for the name of row i */
          char num[24];
          if (esl_keyhash_Lookup(msa->index, msa->sqname[i], -1, &ki) != eslOK) sprintf(num, "%sx", i ? "," : ""); else sprintf(num, "%s%d", i ? "," : "", ki);
          idxs = realloc(idxs, idxn + strlen(num) + 1); strcpy(idxs + idxn, num); idxn += strlen(num);
        }
      }
      if (nseq == 0) ob_add("-");
      if (!h_argi("idx", 1)) ob_add(msa->index != NULL ? " index=INVENTED" : " index=none");     /* the routine must not invent an index */
      else { ob_add(" index="); ob_add(nseq ? idxs : "-"); }
      free(idxs);
      h_out("%s", ob);
    }
    for (k = 0; k < 7; k++) { free(of[k]); free(od[k]); }
    esl_msa_Destroy(msa); free(rows); free(dup); free(names); free(ndup); free(w); free(wdup); free(sl); free(sldup);
    return;
  }
  if (!strcmp(op, "cqrna") || !strcmp(op, "xqrna")) {
    ESL_ALPHABET *abc = get_abc(); int64_t Lx, Ly; unsigned char *x = h_unhex(h_arg("x"), &Lx), *y = h_unhex(h_arg("y"), &Ly);
    if (!strcmp(op, "cqrna")) {
      /* ip=0 separate, ip=1 both in place, ip=2 only xs == x, ip=3 only ys == y */
      char *xs = (char *) x, *ys = (char *) y;
      if (ip == 0 || ip == 3) { xs = malloc(Lx + 1); memset(xs, 0x77, Lx + 1); }
      if (ip == 0 || ip == 2) { ys = malloc(Ly + 1); memset(ys, 0x77, Ly + 1); }
      status = esl_msashuffle_CQRNA(R, abc, (char *) x, (char *) y, xs, ys);
      if (status != eslOK) h_out("%s", h_status(status));
      else if (xs[Lx] != 0 || ys[Ly] != 0) h_out("ok-but-no-nul");
      else { ob_reset(); ob_add("ok "); ob_add(h_hex(xs, Lx)); ob_add(","); ob_add(h_hex(ys, Ly)); h_out("%s", ob); }
      if (xs != (char *) x) free(xs);
      if (ys != (char *) y) free(ys);
    } else {
      ESL_DSQ *dx = mk_dsq(x, Lx), *dy = mk_dsq(y, Ly), *xs = dx, *ys = dy;
      if (ip == 0 || ip == 3) { xs = malloc(Lx + 2); memset(xs, 0x77, Lx + 2); }
      if (ip == 0 || ip == 2) { ys = malloc(Ly + 2); memset(ys, 0x77, Ly + 2); }
      status = esl_msashuffle_XQRNA(R, abc, dx, dy, xs, ys);
      if (status != eslOK) h_out("%s", h_status(status));
      else { ob_reset(); ob_add("ok "); ob_add(h_hex(xs, Lx + 2)); ob_add(","); ob_add(h_hex(ys, Ly + 2)); h_out("%s", ob); }
      if (xs != dx) free(xs);
      if (ys != dy) free(ys);
      free(dx); free(dy);
    }
    free(x); free(y);
    return;
  }
  h_out("bad-op");
}
int main(void) { int rc = h_main(); if (ABC_DNA) { esl_alphabet_Destroy(ABC_DNA); esl_alphabet_Destroy(ABC_AA); } free(ob); return rc; }
