/* C09 correspondence harness: esl_random.c, esl_rand64.c */
#include "hcommon.h"
#include <time.h>
#include <unistd.h>
#include <sys/syscall.h>
#include "esl_random.h"
#include "esl_rand64.h"
extern int64_t esl_rand64_int64(ESL_RAND64 *rng);   /* defined in esl_rand64.c but missing from esl_rand64.h */

/* choose_arbitrary_seed() reads time(), getpid(), clock(): the harness owns these three symbols so that an `env t= p= c=`
 * op makes them inputs of the case (the model computes the selected seed from the same three words). Without `env`
 * they answer from the kernel as usual. */
static int fake_env; static uint32_t fake_t, fake_p, fake_c;
time_t time(time_t *t) {
  time_t v; struct timespec ts;
  if (fake_env) v = (time_t) fake_t; else { clock_gettime(CLOCK_REALTIME, &ts); v = ts.tv_sec; }
  if (t) *t = v;
  return v;
}
pid_t getpid(void) { return fake_env ? (pid_t) fake_p : (pid_t) syscall(SYS_getpid); }
clock_t clock(void) {
  struct timespec ts;
  if (fake_env) return (clock_t) fake_c;
  clock_gettime(CLOCK_PROCESS_CPUTIME_ID, &ts);
  return (clock_t) (ts.tv_sec * CLOCKS_PER_SEC + ts.tv_nsec / (1000000000 / CLOCKS_PER_SEC));
}

static ESL_RANDOMNESS *R; static ESL_RAND64 *R64;
static void h_case_begin(void) { fake_env = 0; }
/* FNV-1a over the bytes a Dump function wrote */
static void out_dump(char *buf, size_t len) {
  uint64_t h = 0xcbf29ce484222325ULL; size_t i, nl = 0;
  for (i = 0; i < len; i++) { h = (h ^ (unsigned char) buf[i]) * 0x100000001b3ULL; if (buf[i] == '\n') nl++; }
  h_out("ok len=%zu lines=%zu h=%016" PRIx64, len, nl, h);
}
static void h_case_end(void) { if (R) esl_randomness_Destroy(R); R = NULL; if (R64) esl_rand64_Destroy(R64); R64 = NULL; }
static uint64_t fnv(uint64_t h, uint64_t x) { return (h ^ x) * 0x100000001b3ULL; }

static int parse_bits_list(const char *s, double **ret) {
  int n = 0, cap = 16; double *p = malloc(sizeof(double)*cap); char *dup = strdup(s), *tok, *sv;
  for (tok = strtok_r(dup, ",", &sv); tok; tok = strtok_r(NULL, ",", &sv)) {
    uint64_t u = strtoull(tok, NULL, 16); double d; memcpy(&d, &u, 8);
    if (n == cap) { cap *= 2; p = realloc(p, sizeof(double)*cap); }
    p[n++] = d;
  }
  free(dup);
  { double *q = malloc(sizeof(double) * (n ? n : 1)); memcpy(q, p, sizeof(double) * n); free(p); p = q; } /* exact size: ASan sees p[N] */
  *ret = p; return n;
}

static int parse_f32_list(const char *s, float **ret) {
  int n = 0, cap = 16; float *p = malloc(sizeof(float)*cap); char *dup = strdup(s), *tok, *sv;
  for (tok = strtok_r(dup, ",", &sv); tok; tok = strtok_r(NULL, ",", &sv)) {
    uint32_t u = (uint32_t) strtoul(tok, NULL, 16); float f; memcpy(&f, &u, 4);
    if (n == cap) { cap *= 2; p = realloc(p, sizeof(float)*cap); }
    p[n++] = f;
  }
  free(dup);
  { float *q = malloc(sizeof(float) * (n ? n : 1)); memcpy(q, p, sizeof(float) * n); free(p); p = q; }   /* exact size: ASan sees p[N] */
  *ret = p; return n;
}

static void h_op(void)
{
  const char *op = h_words[0];
  if (!strcmp(op, "env")) {           /* the three inputs of choose_arbitrary_seed() for the rest of the case */
    fake_t = (uint32_t) h_argu("t", 0); fake_p = (uint32_t) h_argu("p", 0); fake_c = (uint32_t) h_argu("c", 0); fake_env = 1;
    h_out("ok");
  } else if (!strcmp(op, "new32") || !strcmp(op, "newfast") || !strcmp(op, "newtime")) {
    uint32_t seed = !strcmp(op, "newtime") ? 0 : (uint32_t) h_argu("seed", 1);
    if (seed == 0 && !fake_env) { h_out("bad-op"); return; }      /* seed 0 is only driven with a controlled environment */
    if (R) esl_randomness_Destroy(R);
    R = !strcmp(op, "new32") ? esl_randomness_Create(seed) : !strcmp(op, "newfast") ? esl_randomness_CreateFast(seed) : esl_randomness_CreateTimeseeded();
    h_out("ok seed=%" PRIu32, esl_randomness_GetSeed(R));
  } else if (!strcmp(op, "init")) {
    uint32_t seed = (uint32_t) h_argu("seed", 1);
    if (seed == 0 && !fake_env) { h_out("bad-op"); return; }
    esl_randomness_Init(R, seed);
    h_out("ok seed=%" PRIu32, esl_randomness_GetSeed(R));
  } else if (!strcmp(op, "init64")) {
    uint64_t seed = h_argu("seed", 1);
    if (seed == 0 && !fake_env) { h_out("bad-op"); return; }
    esl_rand64_Init(R64, seed);
    h_out("ok seed=%" PRIu64, esl_rand64_GetSeed(R64));
  } else if (!strcmp(op, "dump32")) {
    char *buf = NULL; size_t len = 0; FILE *fp = open_memstream(&buf, &len);
    esl_randomness_Dump(fp, R); fclose(fp); out_dump(buf, len); free(buf);
  } else if (!strcmp(op, "dump64")) {
    char *buf = NULL; size_t len = 0; FILE *fp = open_memstream(&buf, &len);
    esl_rand64_Dump(fp, R64); fclose(fp); out_dump(buf, len); free(buf);
  } else if (!strcmp(op, "pos32")) {   /* generator consumption: table position (or LCG state) after the history so far */
    if (R->type == eslRND_MERSENNE) h_out("ok mti=%d", R->mti); else h_out("ok x=%" PRIu32, R->x);
  } else if (!strcmp(op, "pos64")) {
    h_out("ok mti=%d", R64->mti);
  } else if (!strcmp(op, "seedzero32")) {
    ESL_RANDOMNESS *a = esl_randomness_Create(0), *b; uint32_t s = esl_randomness_GetSeed(a); int i, same = 1;
    b = esl_randomness_Create(s);
    for (i = 0; i < 2000; i++) if (esl_random_uint32(a) != esl_random_uint32(b)) same = 0;
    h_out("ok %s %s", s != 0 ? "nonzero" : "ZERO", same && esl_randomness_GetSeed(b) == s ? "replay" : "NOREPLAY");
    esl_randomness_Destroy(a); esl_randomness_Destroy(b);
  } else if (!strcmp(op, "seedzero64")) {
    ESL_RAND64 *a = esl_rand64_Create(0), *b; uint64_t s = esl_rand64_GetSeed(a); int i, same = 1;
    b = esl_rand64_Create(s);
    for (i = 0; i < 2000; i++) if (esl_rand64(a) != esl_rand64(b)) same = 0;
    h_out("ok %s %s", s != 0 ? "nonzero" : "ZERO", same && esl_rand64_GetSeed(b) == s ? "replay" : "NOREPLAY");
    esl_rand64_Destroy(a); esl_rand64_Destroy(b);
  } else if (!strcmp(op, "u32")) {
    int64_t k = h_argi("k", 1), i; uint64_t h = 0xcbf29ce484222325ULL; uint32_t x = 0;
    for (i = 0; i < k; i++) { x = esl_random_uint32(R); h = fnv(h, x); }
    h_out("ok h=%016" PRIx64 " last=%" PRIu32, h, x);
  } else if (!strcmp(op, "w32") || !strcmp(op, "w64")) {   /* the raw words themselves (k <= 2000), for the reference-stream monitor */
    int64_t k = h_argi("k", 1), i; char *buf, *q;
    if (k < 0 || k > 2000) { h_out("bad-op"); return; }
    buf = malloc(22 * (size_t)(k + 1) + 8); q = buf; q += sprintf(q, "ok ");
    for (i = 0; i < k; i++) {
      if (op[1] == '3') q += sprintf(q, "%s%" PRIu32, i ? "," : "", esl_random_uint32(R));
      else              q += sprintf(q, "%s%" PRIu64, i ? "," : "", esl_rand64(R64));
    }
    h_out("%s", buf); free(buf);
  } else if (!strcmp(op, "roll")) {
    h_out("ok %d", esl_rnd_Roll(R, (int) h_argi("n", 1)));
  } else if (!strcmp(op, "random")) {
    h_out("ok %s", h_dbits(esl_random(R)));
  } else if (!strcmp(op, "unipos")) {
    h_out("ok %s", h_dbits(esl_rnd_UniformPositive(R)));
  } else if (!strcmp(op, "deal")) {
    int m = (int) h_argi("m", 0), n = (int) h_argi("n", 1), i; int *deal = malloc(sizeof(int) * (m + 1));
    char *buf = malloc(12 * (size_t)(m + 1) + 8), *p = buf;
    esl_rnd_Deal(R, m, n, deal);
    p += sprintf(p, "ok ");
    for (i = 0; i < m; i++) p += sprintf(p, "%s%d", i ? "," : "", deal[i]);
    h_out("%s", buf); free(buf); free(deal);
  } else if (!strcmp(op, "dchoose") || !strcmp(op, "dchoosecdf")) {
    double *p; int n = parse_bits_list(h_arg("p"), &p);
    h_out("ok %d", !strcmp(op, "dchoose") ? esl_rnd_DChoose(R, p, n) : esl_rnd_DChooseCDF(R, p, n));
    free(p);
  } else if (!strcmp(op, "fchoose") || !strcmp(op, "fchoosecdf")) {
    float *p; int n = parse_f32_list(h_arg("p"), &p);
    h_out("ok %d", !strcmp(op, "fchoose") ? esl_rnd_FChoose(R, p, n) : esl_rnd_FChooseCDF(R, p, n));
    free(p);
  } else if (!strcmp(op, "pokeraw")) {   /* test hook: force the table word the next draw will temper */
    if (R->type == eslRND_MERSENNE) { if (R->mti >= 624) esl_random_uint32(R); R->mt[R->mti] = (uint32_t) h_argu("w", 0); }
    h_out("ok");
  } else if (!strcmp(op, "pokeraw64")) { /* test hook: force the table word the next 64-bit draw will temper */
    int off = (int) h_argi("off", 0);      /* off=k: the word k draws ahead */
    while (R64->mti + off >= 312) esl_rand64(R64);
    R64->mt[R64->mti + off] = h_argu("w", 0);
    h_out("ok");
  } else if (!strcmp(op, "new64")) {
    uint64_t seed = h_argu("seed", 1);
    if (seed == 0 && !fake_env) { h_out("bad-op"); return; }
    if (R64) esl_rand64_Destroy(R64);
    R64 = esl_rand64_Create(seed);
    h_out("ok seed=%" PRIu64, esl_rand64_GetSeed(R64));
  } else if (!strcmp(op, "u64")) {
    int64_t k = h_argi("k", 1), i; uint64_t h = 0xcbf29ce484222325ULL; uint64_t x = 0;
    for (i = 0; i < k; i++) { x = esl_rand64(R64); h = fnv(h, x); }
    h_out("ok h=%016" PRIx64 " last=%" PRIu64, h, x);
  } else if (!strcmp(op, "roll64")) {
    h_out("ok %" PRIu64, esl_rand64_Roll(R64, h_argu("n", 1)));
  } else if (!strcmp(op, "deal64")) {
    int64_t m = h_argi("m", 1), n = h_argi("n", 1), i; int64_t *deal = malloc(sizeof(int64_t) * (size_t)(m + 1));
    char *buf = malloc(22 * (size_t)(m + 1) + 8), *p = buf;
    esl_rand64_Deal(R64, m, n, deal);
    p += sprintf(p, "ok ");
    for (i = 0; i < m; i++) p += sprintf(p, "%s%" PRId64, i ? "," : "", deal[i]);
    h_out("%s", buf); free(buf); free(deal);
  } else if (!strcmp(op, "int64")) { h_out("ok %" PRId64, esl_rand64_int64(R64));
  } else if (!strcmp(op, "dbl64"))     { h_out("ok %s", h_dbits(esl_rand64_double(R64)));
  } else if (!strcmp(op, "dblclosed")) { h_out("ok %s", h_dbits(esl_rand64_double_closed(R64)));
  } else if (!strcmp(op, "dblopen"))   { h_out("ok %s", h_dbits(esl_rand64_double_open(R64)));
  } else if (!strcmp(op, "gauss")) {
    h_out("ok %s", h_dbits(esl_rnd_Gaussian(R, h_argbits("mean"), h_argbits("sd"))));
  } else if (!strcmp(op, "gamma")) {
    h_out("ok %s", h_dbits(esl_rnd_Gamma(R, h_argbits("a"))));
  } else if (!strcmp(op, "dirichlet")) {
    double *alpha = NULL, *p; int K, i; char *buf, *q;
    if (h_arg("alpha")) K = parse_bits_list(h_arg("alpha"), &alpha); else K = (int) h_argi("k", 1);
    p = malloc(sizeof(double) * (K ? K : 1)); buf = malloc(17 * (size_t)(K + 1) + 8); q = buf;
    esl_rnd_Dirichlet(R, alpha, K, p);
    q += sprintf(q, "ok ");
    for (i = 0; i < K; i++) q += sprintf(q, "%s%s", i ? "," : "", h_dbits(p[i]));
    h_out("%s", buf); free(buf); free(p); free(alpha);
  } else if (!strcmp(op, "mem")) {
    int n = (int) h_argi("n", 0); unsigned char *buf = malloc(n ? n : 1);   /* exact size: ASan sees buf[n] */
    esl_rnd_mem(R, buf, n);
    h_out("ok %s", n ? h_hex(buf, n) : "-"); free(buf);
  } else if (!strcmp(op, "floatstr")) {
    char *str = malloc(20);                                                  /* the documented allocation: 20 chars */
    esl_rnd_floatstring(R, str);
    h_out("ok %s", str); free(str);
  } else h_out("bad-op");
}
int main(void) { return h_main(); }
