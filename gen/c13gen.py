"""Generators for C13: valid inputs, mutations, option combinations from the parsed ESL_OPTIONS tables (search half),
and the reference cases whose stdout the Lean driver predicts exactly (reference half). All randomness from ctx.rng."""
import os, re, random

ENTRY_POINTS = ["esl-afetch", "esl-alimanip", "esl-alimap", "esl-alimask", "esl-alimerge", "esl-alipid", "esl-alirev",
                "esl-alistat", "esl-compalign", "esl-compstruct", "esl-construct", "esl-histplot", "esl-mask",
                "esl-mixdchlet", "esl-reformat", "esl-selectn", "esl-seqrange", "esl-seqstat", "esl-sfetch", "esl-shuffle",
                "esl-ssdraw", "esl-translate", "esl-weight",
                "easel alistat", "easel downsample", "easel filter", "easel index"]

THEOREMS = ["fasta_read_write", "fasta_rewrap_invariant", "fasta_file_lines", "fasta_file_read_write",
            "seqstat_nseq", "seqstat_nres", "seqstat_small", "seqstat_large", "seqstat_concat",
            "alirev_involution_dna", "alirev_involution_rna", "alirev_columns", "sfetch_revcomp_involution_partial",
            "sfetch_revcomp_U_not_involutive", "sfetch_subseq", "seqrange_partition",
            "selectn_selects", "selectn_count", "selectn_deterministic",
            "mask_length", "mask_normal", "mask_reverse", "alipid_bounds", "alipid_symmetric",
            "shuffle_mono_permutation", "shuffle_windows_permutation", "shuffle_kmers_permutation", "shuffle_msa_columns_permutation", "shuffle_mono_counts", "shuffle_reproducible",
            "reformat_afa_shape", "reformat_no_option_identity", "reformat_upper_idempotent", "reformat_rna_then_dna",
            "reformat_roundtrip", "reformat_gap_columns", "alistat_counts", "translate_orf_header",
            "sfetch_r_and_reversed_coords_cancel", "bootstrap_columns_from_input", "downsample_selects",
            # round 3: the alignment branch of esl-reformat = C03 readers/writers o C15 operations, with every option
            "reformat_namelen_default_is_phylip", "reformat_namelen_roundtrip", "reformat_phylips_row_contiguous",
            "reformat_msa_is_write_transform_read", "reformat_afa_idempotent", "reformat_phylip_to_afa",
            "reformat_namelen_ignored_elsewhere", "reformat_convert_keeps_shape",
            # round 3: esl-alimask / esl-alimanip = the tool's mask computation, then C15 ColumnSubset / SequenceSubset, then the C03 writer
            "alimask_is_column_subset", "alimask_truncate_is_slice", "alimanip_seq_subset_keeps_rows", "alimanip_seq_list_is_subset",
            "alimanip_reorder_attached",
            # round 4: esl-afetch (sequential search, SSI lookup, verbatim echo of the record's span)
            "afetch_sequential_returns_requested", "afetch_sequential_first_match", "afetch_indexed_returns_requested",
            "afetch_indexed_name_before_accession", "afetch_echo_is_record_text",
            # round 4: esl-reformat fasta <alignment file> (sequence branch over the C03 readers and C15 FetchFromMSA)
            "reformat_fasta_lines_are_sequence", "reformat_fasta_convert_pointwise",
            # round 4: esl-alistat on Stockholm/Pfam in digital mode with --list/--icinfo/--rinfo/--iinfo/--cinfo
            "alistat_column_counters", "alistat_count_cells", "alistat_rfpos_cells",
            # round 4: esl-compstruct
            "compstruct_correct_le_pairs", "compstruct_strict_correct_symmetric", "compstruct_self_is_perfect", "compstruct_mathews_relaxes",
            # round 4: esl-compalign
            "compalign_self_is_perfect", "compalign_correct_le_counted",
            # round 6: the streamed (--small) paths: esl_msafile2_RegurgitatePfam as esl-alimask / esl-alimanip call it, esl-alistat --small
            "small_regurgitate_rows", "small_regurgitate_identity", "small_regurgitate_seq_line", "small_mask_shrinks",
            "small_wanted_sublist", "small_alistat_is_projection", "small_reformat_afa_eq_reference", "small_reformat_pfam_rows", "small_seq_k_seq_r_split",
            # round 6: esl-alimerge (in-memory mode)
            "alimerge_restriction", "alimerge_length", "alimerge_rows_stay_aligned", "alimerge_insert_regions_partition", "alimerge_adds_only_gaps", "alimerge_maxgap_dominates"]

SQFORMATS = ["fasta", "embl", "genbank", "uniprot", "ddbj", "daemon", "hmmpgmd", "ncbi", "fmindex"]
MSAFORMATS = ["stockholm", "pfam", "a2m", "afa", "psiblast", "clustal", "clustallike", "selex", "phylip", "phylips"]
ALLFORMATS = SQFORMATS + MSAFORMATS

DNA = "ACGT"
AMINO = "ACDEFGHIKLMNPQRSTVWY"


def hx(b):
    if isinstance(b, str):
        b = b.encode("latin-1")
    return b.hex() if b else "-"


def op_file(name, content):
    return "file name=%s hex=%s" % (name, hx(content))


def op_run(tool, argv, stdin=None, t=None):
    exe = tool.split()[0]
    args = tool.split()[1:] + list(argv)
    b = b"\0".join(a.encode("latin-1") if isinstance(a, str) else a for a in args)
    s = "run tool=%s args=%s" % (exe, b.hex() if args else "-")
    if stdin is not None:
        s += " stdin=" + hx(stdin)
    if t is not None:
        s += " t=%g" % t
    return s


def asks_huge(argv):
    """command line contains an integer >= 10^4 (asks for a very large amount of work: a timeout is not a hang)"""
    for a in argv:
        for m in re.finditer(rb"\d{5,}", a):
            return True
    return False


# ---------------------------------------------------------------------------------------------------------------
# valid inputs
# ---------------------------------------------------------------------------------------------------------------
def rand_name(rng, i=None):
    base = rng.choice(["seq", "s", "tRNA", "Q9", "x_y", "A.b", "n|m", "prot"])
    return "%s%d" % (base, i if i is not None else rng.randrange(1000))


def rand_seq(rng, abc, n, lower=0.0):
    s = "".join(rng.choice(abc) for _ in range(n))
    if lower and rng.random() < lower:
        s = s.lower()
    return s


def gen_fasta(rng, abc=None, nseq=None, maxlen=200, width=None, desc=True, minlen=1):
    abc = abc or rng.choice([DNA, DNA, AMINO, "ACGU"])
    nseq = nseq if nseq is not None else rng.choice([1, 2, 3, 5, 8, 13])
    recs = []
    for i in range(nseq):
        n = rng.choice([minlen, minlen + 1, 10, 59, 60, 61, 120, rng.randrange(minlen, maxlen + 1)])
        n = max(minlen, min(n, maxlen))
        recs.append((rand_name(rng, i + 1), rng.choice(["", "", "a description", "x"]) if desc else "", rand_seq(rng, abc, n)))
    return recs, abc


def fasta_text(recs, width=60):
    out = []
    for name, desc, seq in recs:
        out.append(">" + name + (" " + desc if desc else ""))
        for i in range(0, len(seq), width):
            out.append(seq[i:i + width])
    return "\n".join(out) + "\n"


def gen_msa(rng, abc=None, nseq=None, alen=None, gapfrac=None):
    abc = abc or rng.choice([DNA, AMINO, "ACGU"])
    nseq = nseq if nseq is not None else rng.choice([1, 2, 3, 4, 6, 10])
    alen = alen if alen is not None else rng.choice([1, 2, 10, 59, 60, 61, 100, rng.randrange(1, 150)])
    gapfrac = gapfrac if gapfrac is not None else rng.choice([0.0, 0.1, 0.3, 0.6])
    base = rand_seq(rng, abc, alen)
    rows = []
    for i in range(nseq):
        mut = rng.choice([0.0, 0.1, 0.5, 1.0])
        r = []
        for c in base:
            if rng.random() < gapfrac:
                r.append("-")
            elif rng.random() < mut:
                r.append(rng.choice(abc))
            else:
                r.append(c)
        if all(c == "-" for c in r):
            r[rng.randrange(alen)] = rng.choice(abc)
        rows.append((rand_name(rng, i + 1), "".join(r)))
    return rows, abc


def afa_text(rows, width=60):
    out = []
    for name, seq in rows:
        out.append(">" + name)
        for i in range(0, len(seq), width):
            out.append(seq[i:i + width])
    return "\n".join(out) + "\n"


def stockholm_text(rows, rng=None, rf=False, ss=False, name=None):
    w = max(len(n) for n, _ in rows) + 2
    out = ["# STOCKHOLM 1.0"]
    if name:
        out.append("#=GF ID " + name)
    out.append("")
    for n, s in rows:
        out.append(n.ljust(w + 8) + s)
    alen = len(rows[0][1])
    if rf:
        rfl = "".join("x" if (rng is None or rng.random() < 0.8) else "." for _ in range(alen))
        if "x" not in rfl: rfl = "x" + rfl[1:]            # an RF line without any consensus column is refused by the RF-based tools
        out.append("#=GC RF".ljust(w + 8) + rfl)
    if ss:
        half = alen // 2
        k = min(half, 3) if rng is None else rng.randrange(0, half + 1)
        out.append("#=GC SS_cons".ljust(w + 8) + "<" * k + "." * (alen - 2 * k) + ">" * k)
    out.append("//")
    return "\n".join(out) + "\n"


def load_corpus_files(ctx):
    files = []
    for d, kind in (("formats", "sq"), ("esl_msa_testfiles", "msa")):
        base = os.path.join(getattr(ctx, "c13_src", None) or ctx.src, d)
        for root, dirs, fns in os.walk(base):
            dirs.sort()
            for fn in sorted(fns):
                p = os.path.join(root, fn)
                try:
                    b = open(p, "rb").read()
                except OSError:
                    continue
                if len(b) > 20000:
                    continue
                rel = os.path.relpath(p, base)
                fmt = rel.split("/")[0].split(".")[0] if kind == "msa" else fn.split(".")[0]
                files.append({"path": d + "/" + rel, "kind": kind if fn not in ("BLOSUM62", "wag.dat") else "data",
                              "fmt": fmt, "bytes": b, "bad": ".bad" in fn})
    return files


# ---------------------------------------------------------------------------------------------------------------
# mutations
# ---------------------------------------------------------------------------------------------------------------
SPECIAL = [b"\0", b"\r", b"\n", b"\f", b" ", b"\t", b">", b"#", b"//", b"*", b"-", b".", b"~", b"\xff", b"\x80", b"#=GC RF ", b"#=GR ",
           b"# STOCKHOLM 1.0\n", b"CLUSTAL W\n", b"ID   ", b"SQ   ", b"ORIGIN", b"0", b"9999999999", b"-1", b"<", b"{", b"%"]


def mutate(rng, b, n=None):
    b = bytearray(b)
    n = n or rng.choice([1, 1, 2, 3, 5])
    for _ in range(n):
        r = rng.random()
        L = len(b)
        if L == 0:
            b += rng.choice(SPECIAL); continue
        i = rng.randrange(L)
        if r < 0.2:
            b[i] = rng.randrange(256)
        elif r < 0.35:
            b[i:i] = rng.choice(SPECIAL)
        elif r < 0.5:
            j = min(L, i + rng.choice([1, 1, 2, 5, 20, 100]))
            del b[i:j]
        elif r < 0.6:
            del b[i:]                                 # truncate
        elif r < 0.75:
            lines = bytes(b).split(b"\n")             # duplicate / delete / swap a line
            k = rng.randrange(len(lines))
            w = rng.random()
            if w < 0.4:
                lines.insert(k, lines[k])
            elif w < 0.7:
                del lines[k]
            else:
                k2 = rng.randrange(len(lines)); lines[k], lines[k2] = lines[k2], lines[k]
            b = bytearray(b"\n".join(lines))
        elif r < 0.85:
            lines = bytes(b).split(b"\n")             # change the length of one line (ragged alignments)
            k = rng.randrange(len(lines))
            if rng.random() < 0.5:
                lines[k] = lines[k] + rng.choice([b"A", b"-", b"ACGT", b"x" * 70])
            else:
                lines[k] = lines[k][:max(0, len(lines[k]) - rng.choice([1, 2, 10]))]
            b = bytearray(b"\n".join(lines))
        elif r < 0.92:
            j = min(L, i + rng.choice([1, 5, 50]))
            b[i:i] = b[i:j]                            # duplicate a chunk
        else:
            b = bytearray(bytes(b).replace(b"\n", b"\r\n")) if rng.random() < 0.5 else bytearray(bytes(b).rstrip(b"\n"))
    return bytes(b)


def raw_bytes(rng):
    n = rng.choice([0, 1, 2, 3, 10, 100, 1000])
    w = rng.random()
    if w < 0.3:
        return bytes(rng.randrange(256) for _ in range(n))
    if w < 0.6:
        return b"".join(rng.choice(SPECIAL) for _ in range(n // 3 + 1))
    return bytes(rng.choice(b">ACGT-.\n #=/ 0123abc") for _ in range(n))


# ---------------------------------------------------------------------------------------------------------------
# option values
# ---------------------------------------------------------------------------------------------------------------
INT_WEIRD = ["-1", "0", "1", "2", "3", "7", "10", "100", "2147483647", "-2147483648", "2147483648", "99999999999", "x", "", "1.5", "0x10"]
REAL_WEIRD = ["0", "0.0", "0.5", "1", "1.0", "-1", "2", "1e-300", "1e300", "nan", "inf", "-inf", "x", "", "0.62", "100"]
STR_POOL = ["1..5", "0..5", "5..1", "1..1", "3..", "..4", "1-3", "1..99999", "-3..2", "a", "", "1", "x:y", "ab:c", "ACGT:N", "seq1", "s1",
            "*", "-", ".", "%s%n", "a" * 300, "1,2,3", "1-2,4-5", "1-0", "7-3"]


def range_value(rng, typ, rg):
    """a value inside the documented range 'n>0', '0<=x<=1', ... (None when the range cannot be parsed)"""
    if not rg:
        return None
    m = re.fullmatch(r"\s*(?:(-?[\d.eE+-]+)\s*(<=|<))?\s*[nxc]\s*(?:(<=|<|>=|>)\s*(-?[\d.eE+-]+))?\s*", rg)
    if not m:
        return None
    lo, lo_op, hi_op, hi = m.group(1), m.group(2), m.group(3), m.group(4)
    try:
        lo_v = float(lo) if lo else None
        hi_v = float(hi) if hi else None
    except ValueError:
        return None
    if hi_op in (">", ">="):           # 'n>0'
        lo_v, lo_op, hi_v, hi_op = hi_v, ("<" if hi_op == ">" else "<="), None, None
    if typ == "eslARG_INT":
        a = int(lo_v) + (1 if lo_op == "<" else 0) if lo_v is not None else -5
        b = int(hi_v) - (1 if hi_op == "<" else 0) if hi_v is not None else a + 50
        if b < a:
            return None
        return str(rng.choice([a, b if hi_v is not None else a + 1, rng.randint(a, b)]))
    a = lo_v if lo_v is not None else -2.0
    b = hi_v if hi_v is not None else a + 10.0
    c = rng.choice([a, b, a + (b - a) * rng.random()])
    if (lo_op == "<" and c == a) or (hi_op == "<" and c == b):
        c = (a + b) / 2
    return "%.4g" % c


def option_value(rng, tool, opt, files, valid):
    """files: names of files present in the case directory"""
    typ, name, helptext = opt["type"], opt["name"], (opt.get("help") or "")
    if typ == "eslARG_NONE":
        return None
    if typ == "eslARG_INT":
        v = range_value(rng, typ, opt.get("range")) if valid or rng.random() < 0.5 else None
        if v is None:
            v = rng.choice(["1", "2", "3", "5", "10", "42"]) if valid else rng.choice(INT_WEIRD)
        return v
    if typ == "eslARG_REAL":
        v = range_value(rng, typ, opt.get("range")) if valid or rng.random() < 0.5 else None
        if v is None:
            v = rng.choice(["0.5", "0.1", "1.0", "0.9", "2.0"]) if valid else rng.choice(REAL_WEIRD)
        return v
    if typ == "eslARG_CHAR":
        return rng.choice(["x", "N", "-", "a"]) if valid else rng.choice(["x", "", "ab", "\xff", " ", "%"])
    if typ == "eslARG_OUTFILE" or (name == "-o" and typ == "eslARG_STRING"):
        return rng.choice(["out.%d" % rng.randrange(3), "out.0"]) if valid or rng.random() < 0.7 else rng.choice(["", "nodir/x", "."])
    if typ == "eslARG_INFILE":
        return rng.choice(files) if files and (valid or rng.random() < 0.7) else rng.choice(["nonexistent", "", "."])
    # eslARG_STRING
    if "format" in name or "format" in helptext.lower():
        return rng.choice(ALLFORMATS) if valid or rng.random() < 0.7 else rng.choice(["bogus", "", "FASTA", "Stockholm", "a" * 100])
    if "file" in helptext.lower() and files and rng.random() < 0.7:
        return rng.choice(files + ["out.1"])
    return rng.choice(STR_POOL)


def pick_options(rng, tool, table, files, valid, forced=()):
    """-> argv list of options. valid=True: respect incompatibilities/requirements roughly and use in-range values."""
    opts = [o for o in table if o["name"] not in ("-h", "--help", "--stall", "--version", "--devhelp")
            and not (valid and str(o.get("docgroup")) == "99")]
    if not opts:
        return list(forced)
    k = rng.choice([0, 0, 1, 1, 1, 2, 2, 3, 4]) if valid else rng.choice([1, 2, 3, 4, 6, 8])
    chosen = []
    names = set(forced)
    for _ in range(k):
        o = rng.choice(opts)
        if o["name"] in names:
            continue
        if valid:
            inc = set((o.get("incomp") or "").split(","))
            if inc & names:
                continue
            if any(o["name"] in (c.get("incomp") or "").split(",") for c in chosen):
                continue
        names.add(o["name"])
        chosen.append(o)
    if valid:      # add required options
        for o in list(chosen):
            for r in (o.get("reqs") or "").split(","):
                r = r.strip()
                if r and r not in names:
                    ro = next((x for x in table if x["name"] == r), None)
                    if ro is not None:
                        names.add(r); chosen.append(ro)
    argv = list(forced)
    for o in chosen:
        v = option_value(rng, tool, o, files, valid)
        if v is None:
            argv.append(o["name"])
        elif o["name"].startswith("--") and rng.random() < 0.3:
            argv.append(o["name"] + "=" + v)
        elif not o["name"].startswith("--") and rng.random() < 0.2 and v != "":
            argv.append(o["name"] + v)
        else:
            argv += [o["name"], v]
    if not valid and rng.random() < 0.15:
        argv.append(rng.choice(["--bogus", "-Z", "--", "-", "--informat", "-o"]))
    return argv


WRITABLE = ["fasta"] + MSAFORMATS


def avoid_known(rng, tool, argv, pos):
    """seed-dependent stream only: stay out of the regions of known findings (known_findings.d/C13.json), so that a
    DIFFERENT death of the same tool is still reported:
      * esl-reformat: output formats the writers do not implement abort through ESL_EXCEPTION; a sequence-file --informat
        with an alignment output format reaches esl_msafile_Open() with a sqio format code
      * esl-sfetch reading the sequence file from stdin aborts in esl_sqio_Echo()"""
    if tool == "esl-reformat" and pos and pos[0] in ALLFORMATS and pos[0] not in WRITABLE:
        pos = [rng.choice(WRITABLE)] + pos[1:]

    def fix(v):
        if tool == "esl-reformat" and (v not in MSAFORMATS) and pos and pos[0] in MSAFORMATS:
            return rng.choice(MSAFORMATS)
        return v
    out = []
    i = 0
    while i < len(argv):
        a = argv[i]
        if a == "--informat" and i + 1 < len(argv):
            out += [a, fix(argv[i + 1])]
            i += 2; continue
        if a.startswith("--informat="):
            out.append("--informat=" + fix(a.split("=", 1)[1]))
            i += 1; continue
        out.append(a); i += 1
    return out, pos


# usage variants: (forced mode options, positional kinds)
USAGE = {
    "esl-afetch": [([], ["msa", "msaname"]), (["-f"], ["msa", "namefile"]), (["--index"], ["msa"])],
    "esl-alimanip": [([], ["msa"])],
    "esl-alimap": [([], ["msa", "msa2"])],
    "esl-alimask": [([], ["msa", "maskfile"]), (["-t"], ["msa", "coords"]), (["-g"], ["msa"]), (["-p"], ["msa"]), (["--rf-is-mask"], ["msa"])],
    "esl-alimerge": [([], ["msa", "msa2"]), (["--list"], ["listfile"])],
    "esl-alipid": [([], ["msa"])],
    "esl-alirev": [([], ["msa"])],
    "esl-alistat": [([], ["msa"])],
    "esl-compalign": [([], ["msa", "msa2"])],
    "esl-compstruct": [([], ["msa", "msa2"])],
    "esl-construct": [([], ["msa"])],
    "esl-histplot": [([], ["data"])],
    "esl-mask": [([], ["sq", "seqmask"])],
    "esl-mixdchlet fit": [([], ["smallint", "smallint", "counts", "outfile"])],
    "esl-mixdchlet score": [([], ["mixd", "counts"])],
    "esl-mixdchlet gen": [([], ["mixd"])],
    "esl-mixdchlet sample": [([], [])],
    "esl-reformat": [([], ["fmt", "sqormsa"])],
    "esl-selectn": [([], ["int", "text"])],
    "esl-seqrange": [([], ["sq", "smallint", "smallint"])],
    "esl-seqstat": [([], ["sqormsa"])],
    "esl-sfetch": [([], ["sq", "seqname"]), (["-f"], ["sq", "namefile"]), (["--index"], ["sq"])],
    "esl-shuffle": [([], ["sqormsa"]), (["-A"], ["msa"]), (["-G"], [])],
    "esl-ssdraw": [([], ["msa", "ps", "outfile"])],
    "esl-translate": [([], ["sq"])],
    "esl-weight": [([], ["msa"])],
    "easel alistat": [([], ["msa"])],
    "easel downsample": [([], ["int", "text"]), (["-s"], ["int", "sq"]), (["-S"], ["int", "sq"])],
    "easel filter": [([], ["real01", "msa"])],
    "easel index": [([], ["sq"])],
}

STK_ONLY = {"esl-alimap", "esl-compalign", "esl-compstruct", "esl-construct", "esl-ssdraw", "esl-alimerge", "esl-alimask", "esl-alimanip"}
RNA_PREF = {"esl-construct", "esl-compstruct", "esl-ssdraw", "esl-alimap", "esl-compalign"}

MIXD = "1 4\n1.0  0.25 0.25 0.25 0.25\n"
MIXD2 = "2 4\n0.6  1.0 1.2 0.8 0.9\n0.4  0.2 0.1 0.3 0.5\n"
COUNTS = "10 2 3 4\n1 1 1 1\n0 5 0 5\n7 0 0 1\n"
DATA = "1.0\n2.5\n3.1\n2.2\n-0.5\n10\n2.2\n"


def search_case(ctx, rng, tool, idx, corpus, only_valid_inputs=False, optfn=None):
    """one invocation of <tool>: choose a usage variant, build its input files (valid / mutated / raw), choose options"""
    tables = ctx.c13_tables
    if tool.startswith("esl-mixdchlet "):
        sub = tool.split()[1]
        table = tables["esl-mixdchlet"]["tables"].get(sub + "_options", [])
    else:
        table = tables[tool]["options"]
    forced, kinds = rng.choice(USAGE[tool])
    mode = rng.random()        # input quality
    quality = "valid" if mode < 0.45 else ("mutated" if mode < 0.9 else "raw")
    if only_valid_inputs:
        quality = "valid"
    valid_opts = rng.random() < 0.7
    abc_used = [None]
    ops, files, pos = [], [], []
    names_in_file = []

    def input_bytes(kind):
        nonlocal names_in_file
        if kind in ("sq", "sqormsa") and (kind == "sq" or rng.random() < 0.6):
            if rng.random() < 0.5:
                recs, abc_used[0] = gen_fasta(rng, maxlen=130)
                names_in_file = [r[0] for r in recs]
                b = fasta_text(recs, rng.choice([60, 60, 10, 80])).encode()
            else:
                f = rng.choice([c for c in corpus if c["kind"] == "sq"])
                b = f["bytes"]
                names_in_file = re.findall(rb"^>(\S+)", b, re.M)[:5] or re.findall(rb"^(?:ID|LOCUS)\s+(\S+)", b, re.M)[:5]
                names_in_file = [n.decode("latin-1") for n in names_in_file]
        else:
            if rng.random() < 0.45 or (tool in STK_ONLY and rng.random() < 0.8):
                rows, abc_used[0] = gen_msa(rng, abc=("ACGU" if tool in RNA_PREF and rng.random() < 0.8 else None))
                names_in_file = [r[0] for r in rows]
                w = rng.random()
                if w < 0.5 or tool in STK_ONLY:
                    b = stockholm_text(rows, rng, rf=rng.random() < (0.9 if tool in RNA_PREF else 0.5), ss=rng.random() < (0.9 if tool in RNA_PREF else 0.4), name=rng.choice([None, "aln1"])).encode()
                    if rng.random() < 0.2:
                        rows2, _ = gen_msa(rng)
                        b += stockholm_text(rows2, rng, name="aln2").encode()
                else:
                    b = afa_text(rows).encode()
            else:
                f = rng.choice([c for c in corpus if c["kind"] == "msa"])
                b = f["bytes"]
                names_in_file = [n.decode("latin-1") for n in re.findall(rb"^([A-Za-z][\w.|/-]*)\s+\S+$", b, re.M)[:5]]
        if quality == "mutated":
            b = mutate(rng, b)
        elif quality == "raw":
            b = raw_bytes(rng)
        return b

    for k, kind in enumerate(kinds):
        fname = "in%d" % k
        if kind in ("sq", "msa", "msa2", "sqormsa"):
            if kind == "msa2" and rng.random() < 0.6 and files:
                b = None
                for o in ops:
                    if o.startswith("file name=in0 "):
                        b = bytes.fromhex(o.split("hex=")[1]) if not o.endswith("hex=-") else b""
                b = mutate(rng, b, 1) if (b is not None and rng.random() < 0.5) else (b if b is not None else input_bytes("msa"))
            else:
                b = input_bytes(kind)
            ops.append(op_file(fname, b)); files.append(fname); pos.append(fname)
        elif kind in ("seqname", "msaname"):
            pos.append(rng.choice(names_in_file) if names_in_file and rng.random() < 0.8 else rng.choice(["nosuch", "", "aln1", "aln2", "seq1"]))
        elif kind == "namefile":
            ns = [rng.choice(names_in_file) for _ in range(rng.randrange(1, 4))] if names_in_file else ["nosuch"]
            if "-C" in forced or rng.random() < 0.3:
                txt = "".join("%s/1-3 %s %s %s\n" % (n, rng.choice(["1", "0", "3", "-1", "x"]), rng.choice(["3", "1", "0", "999"]), n) for n in ns)
            else:
                txt = "".join(n + "\n" for n in ns)
            b = txt.encode("latin-1")
            if quality != "valid" and rng.random() < 0.4:
                b = mutate(rng, b)
            ops.append(op_file(fname, b)); files.append(fname); pos.append(fname)
        elif kind == "maskfile":
            b = "".join(rng.choice("01") for _ in range(rng.choice([1, 10, 60, 100]))).encode() + b"\n"
            if rng.random() < 0.3:
                b = mutate(rng, b)
            ops.append(op_file(fname, b)); files.append(fname); pos.append(fname)
        elif kind == "seqmask":
            lines = []
            for n in (names_in_file or ["seq1"]):
                if rng.random() < 0.85:
                    a, c = rng.choice([1, 2, 5, 0, -3, 50, 10 ** 12]), rng.choice([1, 4, 10, 0, 200, -1, 10 ** 12])
                    lines.append("%s %d %d" % (n, a, c))
            b = ("\n".join(lines) + "\n").encode("latin-1")
            if quality != "valid" and rng.random() < 0.5:
                b = mutate(rng, b)
            ops.append(op_file(fname, b)); files.append(fname); pos.append(fname)
        elif kind == "coords":
            pos.append(rng.choice(["1..5", "1-5", "2-3", "0-5", "5-1", "1-99999", "x", "", "1-", "-5", "3-3"]))
        elif kind == "listfile":
            nfiles = rng.choice([1, 2, 3])
            lst = []
            for j in range(nfiles):
                fn2 = "m%d" % j
                ops.append(op_file(fn2, input_bytes("msa"))); files.append(fn2); lst.append(fn2)
            if rng.random() < 0.2:
                lst.append("nonexistent")
            ops.append(op_file(fname, ("\n".join(lst) + "\n").encode())); files.append(fname); pos.append(fname)
        elif kind == "data":
            b = DATA.encode() if rng.random() < 0.5 else ("\n".join("%g %g" % (rng.gauss(0, 3), rng.random()) for _ in range(rng.randrange(0, 30))) + "\n").encode()
            if quality != "valid":
                b = mutate(rng, b) if quality == "mutated" else raw_bytes(rng)
            ops.append(op_file(fname, b)); files.append(fname); pos.append(fname)
        elif kind == "text":
            b = "".join("line %d %s\n" % (i, "x" * rng.randrange(0, 30)) for i in range(rng.randrange(0, 20))).encode()
            if quality != "valid":
                b = mutate(rng, b) if quality == "mutated" else raw_bytes(rng)
            ops.append(op_file(fname, b)); files.append(fname); pos.append(fname)
        elif kind in ("counts", "mixd"):
            b = (COUNTS if kind == "counts" else rng.choice([MIXD, MIXD2])).encode()
            if quality != "valid":
                b = mutate(rng, b) if quality == "mutated" else raw_bytes(rng)
            ops.append(op_file(fname, b)); files.append(fname); pos.append(fname)
        elif kind == "ps":
            f = [c for c in corpus if c["path"].endswith(".ps")]
            b = f[0]["bytes"] if f else b"%!PS\n"
            if quality != "valid":
                b = mutate(rng, b) if quality == "mutated" else raw_bytes(rng)
            ops.append(op_file(fname, b)); files.append(fname); pos.append(fname)
        elif kind == "outfile":
            pos.append("out.9")
        elif kind == "fmt":
            pos.append(rng.choice(ALLFORMATS) if rng.random() < 0.9 else rng.choice(["bogus", "", "FASTA"]))
        elif kind == "int":
            pos.append(rng.choice(["0", "1", "2", "3", "5", "10"]) if rng.random() < 0.8 else rng.choice(INT_WEIRD))
        elif kind == "smallint":
            pos.append(rng.choice(["1", "2", "3", "4"]) if rng.random() < 0.8 else rng.choice(INT_WEIRD))
        elif kind == "real01":
            pos.append(rng.choice(["0.5", "0.9", "1.0", "0.0", "0.62"]) if rng.random() < 0.8 else rng.choice(REAL_WEIRD))
    # ssi index in advance for the tools that want one
    pre = []
    if tool in ("esl-sfetch", "esl-seqrange", "esl-mask") and "--index" not in forced and files and rng.random() < 0.7:
        pre.append(op_run("esl-sfetch", ["--index", files[0]]))
    if tool == "esl-afetch" and "--index" not in forced and files and rng.random() < 0.5:
        pre.append(op_run("esl-afetch", ["--index", files[0]]))
    argv = pick_options(rng, tool, table, files, valid_opts, forced) if optfn is None else optfn(rng, tool, table, files, forced)
    # (no region of a known finding has to be avoided at present: the esl-reformat / esl-sfetch argument checks are fixed)
    if valid_opts and abc_used[0] and rng.random() < 0.7:
        flag = {DNA: "--dna", AMINO: "--amino", "ACGU": "--rna"}[abc_used[0]]
        tn = [o["name"] for o in table]
        if flag in tn and not any(a in ("--dna", "--rna", "--amino") for a in argv) and ("-G" not in forced):
            argv.append(flag)
    if rng.random() < 0.06 and optfn is None:
        pos = pos[:-1] if rng.random() < 0.5 else pos + ["extra"]
    if rng.random() < 0.04 and files and optfn is None:
        pos = ["nonexistent" if p == files[0] else p for p in pos]
    use_stdin = None
    if files and rng.random() < 0.06 and pos and pos[0] == files[0] and optfn is None:
        # read the first input from stdin ('-')
        for o in ops:
            if o.startswith("file name=%s " % files[0]):
                h = o.split("hex=")[1]
                use_stdin = bytes.fromhex(h) if h != "-" else b""
        pos[0] = "-"
    if rng.random() < 0.5:
        full = argv + pos
    else:
        full = argv + pos
    ops = ops + pre + [op_run(tool, full, stdin=use_stdin)]
    return {"name": "search-%s-%d-%s" % (tool.replace(" ", "_"), idx, quality), "ops": ops, "sticky": len(ops) - 1}


# Tools in which the exploration of the unchanged tree keeps finding further distinct deaths (long tail of genuine
# defects, see known_findings.d/C13.json). They are searched with the FIXED streams only (same invocations at every seed,
# so every death of the unchanged tree is an exactly known witness); the seed-dependent stream covers the other tools.
# tools left out of the seed-dependent stream because every run found another abort of theirs: EMPTY since round 4 (all 16 deaths of
# esl-histplot / esl-mixdchlet / esl-alimanip / esl-alimask / esl-alimerge / esl-shuffle were repaired in /repo)
FRAGILE = set()


def _tool_rng(tool, stream):
    import hashlib
    return random.Random(int(hashlib.sha256(("C13|%s|%s" % (tool, stream)).encode()).hexdigest()[:12], 16))


def search_cases(ctx):
    corpus = load_corpus_files(ctx)
    ctx.c13_corpus_files = len(corpus)
    tools = [t for t in USAGE]
    out = []
    # (1) fixed streams: per tool, prefix-stable (the quick list is a prefix of the thorough list)
    nfix = 30 if ctx.tier == "quick" else 300
    for tool in tools:
        base = tool if not tool.startswith("esl-mixdchlet ") else "esl-mixdchlet"
        if base not in ctx.c13_tables:
            continue
        r = _tool_rng(tool, "fixed")
        n = nfix if not tool.startswith("esl-mixdchlet ") else max(6, nfix // 4)
        for i in range(n):
            c = search_case(ctx, r, tool, i, corpus)
            c["name"] = "fixed-" + c["name"][7:]
            out.append(c)
    # (2) seed-dependent stream over the tools outside FRAGILE
    rng = ctx.rng
    nseed = 14 if ctx.tier == "quick" else 120
    i = 0
    for tool in tools:
        if tool in FRAGILE or tool not in ctx.c13_tables:
            continue
        for _ in range(nseed):
            out.append(search_case(ctx, rng, tool, i, corpus, only_valid_inputs=True)); i += 1
    return out


# ---- round 6: the edges the property's quantifier names explicitly ("any file content and any combination of its documented options") ----
def _decode_run(op):
    kv = dict(w.split("=", 1) for w in op.split()[1:] if "=" in w)
    a = kv.get("args", "-")
    return kv["tool"], ([x.decode("latin-1") for x in bytes.fromhex(a).split(b"\0")] if a != "-" else [])


def _file_bytes(ops, name):
    for o in ops:
        if o.startswith("file name=%s " % name):
            h = o.split("hex=")[1]
            return bytes.fromhex(h) if h != "-" else b""
    return None


def _valued(rng, tool, o, files):
    v = option_value(rng, tool, o, files, True)
    if v is not None and re.fullmatch(r"\d{4,}", v) and o["type"] == "eslARG_INT":
        v = rng.choice(["1", "2", "3", "5", "10"])      # a valid but large count is a long computation under the sanitizers, not a hang
    return [o["name"]] if v is None else [o["name"], v]


def _usable(table):
    return [o for o in table if o["name"] not in ("-h", "--help", "--stall", "--version", "--devhelp")]


def _incompatible_pairs(table):
    """(a, b): the table of a names b as incompatible, both exist, and they are not the two sides of one toggle group
    (the later of two toggles silently wins: C14's subject, not an error)"""
    byname = {o["name"]: o for o in _usable(table)}
    out = []
    for o in byname.values():
        for x in (o.get("incomp") or "").split(","):
            x = x.strip()
            if x and x != o["name"] and x in byname:
                ta, tb = o.get("toggles"), byname[x].get("toggles")
                if ta and tb and ta == tb: continue
                out.append((o, byname[x]))
    return out


def _missing_required(table):
    byname = {o["name"]: o for o in _usable(table)}
    out = []
    for o in byname.values():
        for x in (o.get("reqs") or "").split(","):
            x = x.strip()
            if x and x in byname and byname[x].get("default") in (None, "FALSE", "NULL", "0"):
                out.append((o, byname[x]))
    return out


EDGE_KINDS = ("empty", "nonl", "stdin", "nonexistent", "directory", "outdir", "incompat", "noreq", "triple", "crlf", "onlynl", "bigint")
# at and beyond the int range: what the option parser validates (esl_str_IsInteger, the range string) and what the tool then reads
# (esl_opt_GetInteger) must agree for every one of them - a value that is accepted but arrives as 0 / negative kills tool bodies
BIGINTS = ["2147483647", "2147483648", "4294967295", "4294967296", "4294967297", "-2147483648", "-2147483649", "9223372036854775807",
           "99999999999999999999", "0", "1", "-1"]


def edge_cases_for(ctx, rng, tool, corpus, tag, kinds=EDGE_KINDS):
    """one valid invocation of <tool> per edge kind, transformed: empty input file, input without the trailing newline, CR-LF line ends,
    a file of newlines only, input on stdin ('-'), nonexistent / directory input path, every output-file option pointed into a
    nonexistent directory, an incompatible option pair and a missing required option (both MUST be refused with a diagnostic:
    `expect_err`), three to five compatible options at once. None of them may end in a signal, a sanitizer report or a hang."""
    tables = ctx.c13_tables
    table = tables["esl-mixdchlet"]["tables"].get(tool.split()[1] + "_options", []) if tool.startswith("esl-mixdchlet ") else tables[tool]["options"]
    out = []

    def base(optfn=None):
        return search_case(ctx, rng, tool, len(out), corpus, only_valid_inputs=True, optfn=optfn or (lambda r, t, tb, fs, forced: list(forced) + (
            pick_options(r, t, tb, fs, True) if r.random() < 0.5 else [])))

    def finish(c, kind, **kw):
        c["name"] = "edge-%s-%s-%s-%d" % (tool.replace(" ", "_"), kind, tag, len(out))
        c["sticky"] = len(c["ops"]); c.update(kw); out.append(c)

    for kind in kinds:
        if kind in ("empty", "nonl", "crlf", "onlynl"):
            c = base()
            fidx = [k for k, o in enumerate(c["ops"]) if o.startswith("file name=")]
            if not fidx: continue
            for k in (fidx if kind == "empty" else fidx[:1]):
                c2 = dict(c); c2["ops"] = list(c["ops"])
                nm = c["ops"][k].split()[1].split("=", 1)[1]
                b = _file_bytes(c["ops"], nm)
                nb = {"empty": b"", "nonl": b.rstrip(b"\n"), "crlf": b.replace(b"\n", b"\r\n"), "onlynl": b"\n" * rng.choice([1, 2, 50])}[kind]
                c2["ops"][k] = op_file(nm, nb)
                finish(c2, kind + "-" + nm)
        elif kind == "stdin":
            c = base()
            exe, args = _decode_run(c["ops"][-1])
            for k, a in enumerate(args):
                b = _file_bytes(c["ops"], a)
                if b is not None and (k == 0 or not args[k - 1].startswith("-")):
                    args2 = list(args); args2[k] = "-"
                    c2 = dict(c); c2["ops"] = c["ops"][:-1] + [op_run(exe, args2, stdin=rng.choice([b, b, b"", b.rstrip(b"\n")]))]
                    finish(c2, "stdin%d" % k)
                    break
        elif kind in ("nonexistent", "directory"):
            c = base()
            exe, args = _decode_run(c["ops"][-1])
            cand = [k for k, a in enumerate(args) if _file_bytes(c["ops"], a) is not None]
            for k in cand:
                args2 = list(args); args2[k] = {"nonexistent": rng.choice(["nosuchfile", "nodir/in0", ""]), "directory": rng.choice([".", "/", "/tmp"])}[kind]
                c2 = dict(c); c2["ops"] = c["ops"][:-1] + [op_run(exe, args2)]
                finish(c2, "%s%d" % (kind, k))
        elif kind == "outdir":
            for o in _usable(table):
                if o["type"] == "eslARG_OUTFILE" or (o["name"] == "-o" and o["type"] == "eslARG_STRING"):
                    def fn(r, t, tb, fs, forced, o=o):
                        argv = list(forced) + [o["name"], r.choice(["nodir/out", "/nonexistent-dir/x", ".", "/"])]
                        for q in (o.get("reqs") or "").split(","):
                            ro = next((x for x in tb if x["name"] == q.strip()), None)
                            if ro is not None and ro["name"] not in argv: argv += _valued(r, t, ro, fs)
                        return argv
                    finish(base(fn), "outdir" + o["name"])
        elif kind == "incompat":
            pairs = _incompatible_pairs(table)
            rng.shuffle(pairs)
            for a, b in pairs[:3]:
                def fn(r, t, tb, fs, forced, a=a, b=b):
                    x, y = (a, b) if r.random() < 0.5 else (b, a)
                    return list(forced) + _valued(r, t, x, fs) + _valued(r, t, y, fs)
                finish(base(fn), "incompat%s+%s" % (a["name"], b["name"]), expect_err=True)
        elif kind == "noreq":
            pairs = _missing_required(table)
            rng.shuffle(pairs)
            for a, b in pairs[:2]:
                def fn(r, t, tb, fs, forced, a=a, b=b):
                    return [w for w in forced if w != b["name"]] + _valued(r, t, a, fs)
                c = base(fn)
                exe, args = _decode_run(c["ops"][-1])
                if b["name"] in args: continue           # the usage variant itself supplies it
                finish(c, "noreq%s-%s" % (a["name"], b["name"]), expect_err=True)
        elif kind == "bigint":
            for o in _usable(table):
                if o["type"] != "eslARG_INT": continue
                for v in BIGINTS:
                    def fn(r, t, tb, fs, forced, o=o, v=v):
                        argv = list(forced) + ([o["name"] + "=" + v] if o["name"].startswith("--") and r.random() < 0.3 else [o["name"], v])
                        for q in (o.get("reqs") or "").split(","):
                            ro = next((x for x in tb if x["name"] == q.strip()), None)
                            if ro is not None and ro["name"] not in argv: argv += _valued(r, t, ro, fs)
                        return argv
                    c = base(fn)
                    exe, args = _decode_run(c["ops"][-1])
                    c["ops"][-1] = op_run(exe, args, t=8)
                    finish(c, "bigint%s=%s" % (o["name"], v), bigint=True)
        elif kind == "triple":
            def fn(r, t, tb, fs, forced):
                us = [o for o in _usable(tb) if str(o.get("docgroup")) != "99"]
                chosen, names = [], set(forced)
                r.shuffle(us)
                for o in us:
                    if len(chosen) >= r.choice([3, 3, 4, 5]): break
                    inc = set(x.strip() for x in (o.get("incomp") or "").split(","))
                    if o["name"] in names or inc & names or any(o["name"] in (c_.get("incomp") or "").split(",") for c_ in chosen): continue
                    tg = o.get("toggles")
                    if tg and any(c_.get("toggles") == tg for c_ in chosen): continue
                    chosen.append(o); names.add(o["name"])
                argv = list(forced)
                for o in chosen: argv += _valued(r, t, o, fs)
                return argv
            for _ in range(2): finish(base(fn), "triple")
    return out


def edge_cases(ctx):
    corpus = load_corpus_files(ctx)
    out = []
    for tool in USAGE:
        basen = tool if not tool.startswith("esl-mixdchlet ") else "esl-mixdchlet"
        if basen not in ctx.c13_tables: continue
        out += edge_cases_for(ctx, _tool_rng(tool, "edge"), tool, corpus, "fixed")
        if ctx.tier != "quick":
            for k in range(6): out += edge_cases_for(ctx, _tool_rng(tool, "edge%d" % k), tool, corpus, "fixed%d" % k)
        out += edge_cases_for(ctx, ctx.rng, tool, corpus, "seed", kinds=("incompat", "triple", "stdin", "nonl", "outdir"))
    ctx.c13_stats["edge_cases"] = len(out)
    return out


# ---------------------------------------------------------------------------------------------------------------
# reference half: invocations whose complete stdout the Lean driver predicts
# ---------------------------------------------------------------------------------------------------------------
ABCFLAG = {DNA: "--dna", "ACGU": "--rna", AMINO: "--amino"}


def ref_records(rng, abc=None, nseq=None, maxlen=150, degenerate=True, long_ok=False):
    """FASTA records inside the reference's domain: plain names, optional description, residues of one alphabet
    (some lower case, a few degenerate symbols)"""
    abc = abc or rng.choice([DNA, DNA, "ACGU", AMINO])
    nseq = nseq if nseq is not None else rng.choice([1, 1, 2, 3, 4, 7, 12])
    deg = {DNA: "RYMKSWHBVDN", "ACGU": "RYMKSWHBVDN", AMINO: "BJZOUX"}[abc]
    recs = []
    for i in range(nseq):
        n = rng.choice([1, 2, 3, 10, 59, 60, 61, 119, 120, 121, rng.randrange(1, maxlen + 1), rng.randrange(1, maxlen + 1)])
        n = min(n, maxlen)
        if long_ok and rng.random() < 0.06:      # around the 4096-residue read window / block sizes of the sequence reader
            n = rng.choice([4095, 4096, 4097, 8191, 8192, 8193, 9000, 12289])
        style = rng.random()
        seq = []
        for _ in range(n):
            c = rng.choice(abc)
            if degenerate and rng.random() < 0.03:
                c = rng.choice(deg)
            if style < 0.2 or (style < 0.4 and rng.random() < 0.3):
                c = c.lower()
            seq.append(c)
        name = rand_name(rng, i + 1)
        desc = rng.choice(["", "", "a description", "x", "two  spaces", "len=%d" % n])
        recs.append((name, desc, "".join(seq)))
    return recs, abc


def ref_fasta_text(rng, recs, crlf_ok=False):
    """the same records laid out in different but equivalent ways (line width, blank lines, trailing blanks, CRLF)"""
    width = rng.choice([60, 60, 1, 7, 50, 80, 1000])
    if max(len(r[2]) for r in recs) > 2000 and width < 7: width = 60
    out = []
    for name, desc, seq in recs:
        out.append(">" + name + (" " + desc if desc else ""))
        for i in range(0, len(seq), width):
            out.append(seq[i:i + width] + (" " if rng.random() < 0.05 else ""))
        if rng.random() < 0.15:
            out.append("")
    nl = "\r\n" if (crlf_ok and rng.random() < 0.08) else "\n"
    return nl.join(out) + nl


def _with_o(rng, case, tool, args, p=0.15):
    """with probability p send the output to a file (-o) and compare the file (cat) - stdout must then be empty"""
    if rng.random() < p:
        case["ops"][-1] = op_run(tool, ["-o", "out.txt"] + args)
        case["ops"].append("cat name=out.txt")
    return case


def ref_seqstat(rng, i):
    recs, abc = ref_records(rng, long_ok=True)
    args = []
    if rng.random() < 0.5: args.append("-a")
    if rng.random() < 0.5: args.append("-c")
    if rng.random() < 0.25: args.append("--comptbl")
    if rng.random() < 0.3: args += ["--informat", "fasta"]
    args.append(ABCFLAG[abc])
    rng.shuffle(args) if "--informat" not in args else None
    return {"name": "ref-seqstat-%d" % i, "ref": True, "ops": [op_file("in.fa", ref_fasta_text(rng, recs, crlf_ok=True)), op_run("esl-seqstat", args + ["in.fa"])],
            "sticky": 1, "recs": recs, "abc": abc}


def ref_msa_rows(rng, abc=None):
    """aligned rows (same length) with gaps, some lower case, a few degenerate symbols; distinct names"""
    abc = abc or rng.choice([DNA, "ACGU", AMINO])
    rows, _ = gen_msa(rng, abc=abc, nseq=rng.choice([1, 2, 3, 4, 6, 9]))
    deg = {DNA: "RYMKSWHBVDN", "ACGU": "RYMKSWHBVDN", AMINO: "BJZOUX"}[abc]
    out = []
    for name, s in rows:
        t = []
        for c in s:
            if c != "-" and rng.random() < 0.04: c = rng.choice(deg)
            if c != "-" and rng.random() < 0.1: c = c.lower()
            if c == "-" and rng.random() < 0.2: c = rng.choice("._")
            t.append(c)
        out.append((name, rng.choice(["", "", "desc here"]), "".join(t)))
    return out, abc


def ref_alirev(rng, i):
    abc = rng.choice([DNA, "ACGU"])
    rows, abc = ref_msa_rows(rng, abc)
    args = ["--informat", "afa", ABCFLAG[abc]]
    if rng.random() < 0.3: args += ["--outformat", "afa"]
    return {"name": "ref-alirev-%d" % i, "ref": True, "sticky": 1,
            "ops": [op_file("in.afa", ref_fasta_text(rng, rows)), op_run("esl-alirev", args + ["in.afa"])]}


def ref_alipid(rng, i):
    rows, abc = ref_msa_rows(rng)
    if rng.random() < 0.3 and len(rows) > 1:      # identical rows, all-gap-against-residue columns
        rows[1] = (rows[1][0], rows[1][1], rows[0][2])
    args = ["--informat", "afa", ABCFLAG[abc]]
    if rng.random() < 0.3: args.append("--noheader")
    return {"name": "ref-alipid-%d" % i, "ref": True, "sticky": 1,
            "ops": [op_file("in.afa", ref_fasta_text(rng, rows)), op_run("esl-alipid", args + ["in.afa"])]}


def ref_seqrange(rng, i):
    n = rng.choice([1, 2, 3, 5, 7, 10, 16, 23])
    recs, abc = ref_records(rng, nseq=n, maxlen=30)
    nproc = rng.choice([1, 2, 3, n, max(1, n - 1), rng.randrange(1, n + 1)])
    nproc = max(1, min(nproc, n))
    procidx = rng.choice([1, nproc, rng.randrange(1, nproc + 1)])
    text = fasta_text(recs, 60)       # SSI wants regular line lengths for subseq offsets; plain layout here
    return {"name": "ref-seqrange-%d" % i, "ref": True, "sticky": 2, "nopred_ok": True,
            "ops": [op_file("in.fa", text), op_run("esl-sfetch", ["--index", "in.fa"]),
                    op_run("esl-seqrange", ["in.fa", str(procidx), str(nproc)])]}


def ref_selectn(rng, i):
    nlines = rng.choice([0, 1, 2, 3, 5, 10, 30, 100, 400])
    lines = ["l%d %s" % (k, "x" * rng.randrange(0, 12)) for k in range(nlines)]
    if rng.random() < 0.3 and nlines > 3:
        lines[rng.randrange(nlines - 1)] = ""                 # empty line (not the last one)
        lines[rng.randrange(nlines)] = lines[0]               # duplicate line
    if lines and lines[-1] == "": lines[-1] = "last"          # a final empty line without newline is no line at all
    text = "\n".join(lines) + ("\n" if lines and rng.random() < 0.85 else "")
    m = min(nlines, rng.choice([0, 1, 2, nlines, max(0, nlines - 1), rng.randrange(0, nlines + 1)]))
    seed = rng.choice([1, 2, 42, 2 ** 31 - 1, rng.randrange(1, 2 ** 31)])
    return {"name": "ref-selectn-%d" % i, "ref": True, "sticky": 1,
            "ops": [op_file("in.txt", text), op_run("esl-selectn", ["--seed", str(seed), str(m), "in.txt"])]}


def ref_mask(rng, i):
    recs, abc = ref_records(rng, maxlen=130, long_ok=True)
    recs = [(n, d, "".join(c if rng.random() > 0.03 else rng.choice("*") for c in s)) for n, d, s in recs]
    k = rng.randrange(1, len(recs) + 1)
    mlines = []
    for n, d, s in recs[:k]:
        L = len(s)
        a = rng.choice([1, 2, L, L + 1, 0, -2, rng.randrange(1, L + 1), rng.randrange(-5, L + 10)])
        b = rng.choice([L, L - 1, 1, 0, L + 5, rng.randrange(1, L + 1), rng.randrange(-5, L + 10), a, a - 1])
        mlines.append("%s %d %d" % (n, a, b))
    args = []
    if rng.random() < 0.4: args.append("-r")
    w = rng.random()
    if w < 0.3: args.append("-l")
    elif w < 0.6: args += ["-m", rng.choice(["N", "x", "-", "*", "Q"])]
    if rng.random() < 0.5: args += ["-x", str(rng.choice([0, 1, 2, 5, 1000, -1, -3]))]
    if rng.random() < 0.25:       # -R: random access through the SSI index, mask lines in any order
        rng.shuffle(mlines)
        mlines = mlines[:rng.randrange(1, len(mlines) + 1)]
        return {"name": "ref-mask-%d-R" % i, "ref": True, "sticky": 3,
                "ops": [op_file("in.fa", fasta_text(recs, rng.choice([60, 50, 11]))), op_file("mask", "\n".join(mlines) + "\n"),
                        op_run("esl-sfetch", ["--index", "in.fa"]), op_run("esl-mask", ["-R"] + args + ["in.fa", "mask"])]}
    return _with_o(rng, {"name": "ref-mask-%d" % i, "ref": True, "sticky": 2,
            "ops": [op_file("in.fa", ref_fasta_text(rng, recs)), op_file("mask", "\n".join(mlines) + "\n"),
                    op_run("esl-mask", args + ["in.fa", "mask"])]}, "esl-mask", args + ["in.fa", "mask"])


def ref_reformat(rng, i):
    mode = rng.choice(["ff", "af", "aa"])
    if mode == "ff":
        recs, abc = ref_records(rng, maxlen=140, long_ok=True)
        if rng.random() < 0.3:
            recs = [(n, d, "".join(c if rng.random() > 0.05 else rng.choice("XxNn*") for c in s)) for n, d, s in recs]
        mapargs = []
        if rng.random() < 0.35:
            # --ignore / --acceptx edit the sequence reader's input map: characters that are otherwise illegal in FASTA are dropped /
            # read as X; a letter can be ignored too; a character in both lists is read as X (AcceptAs is applied last)
            ign = "".join(rng.sample("0123456789.-_/N", rng.choice([1, 2, 4])))
            acc = "".join(rng.sample("?#@+=x" + ign[:1], rng.choice([1, 2, 3])))
            if ign == "-": ign = "."
            if ign[0] == "-": ign = ign[1:] + "-"       # a value that starts with '-' "looks like an option" to esl_getopts
            if acc == "-": acc = "?"
            if acc[0] == "-": acc = acc[1:] + "-"
            pool = ""
            if rng.random() < 0.8: mapargs += ["--ignore", ign]; pool += ign
            if rng.random() < 0.6 or not pool: mapargs += ["--acceptx", acc]; pool += acc
            recs = [(n, d, "".join(c + (rng.choice(pool) if rng.random() < 0.08 else "") for c in s)) for n, d, s in recs]
        text, infmt, outfmt = ref_fasta_text(rng, recs, crlf_ok=True), "fasta", "fasta"
    else:
        rows, abc = ref_msa_rows(rng)
        if rng.random() < 0.3:
            rows = [(n, d, "".join(c if rng.random() > 0.05 else rng.choice("XxNn" if mode == "af" else "XxNn~") for c in s)) for n, d, s in rows]
        text, infmt, outfmt = ref_fasta_text(rng, rows), "afa", ("fasta" if mode == "af" else "afa")
    args = list(mapargs) if mode == "ff" else []
    for a, b in (("-d", "-r"), ("-l", "-u"), ("-n", "-x")):
        w = rng.random()
        if w < 0.25: args.append(a)
        elif w < 0.5: args.append(b)
    if mode == "aa" and rng.random() < 0.3: args += ["--gapsym", rng.choice([".", "_", "x", "~"])]
    if mode == "aa" and "--gapsym" not in args and rng.random() < 0.4:
        gopt = rng.choice(["--mingap", "--nogap"])
        if any((all if gopt == "--nogap" else any)(r[2][c] not in "-_.~" for r in rows) for c in range(len(rows[0][2]))):
            args.append(gopt)         # at least one column survives
    if rng.random() < 0.35: args += ["--rename", rng.choice(["new", "s", "x.y"])]
    if rng.random() < 0.25: args += ["--replace", rng.choice(["A:x", "AC:ca", "acgt:ACGT", "_:-", "N:n", "XYZ:NNN"])]
    rng.shuffle(args) if not any(a.startswith("--") for a in args) else None
    args += ["--informat", infmt, outfmt, "in.x"]
    return _with_o(rng, {"name": "ref-reformat-%d-%s" % (i, mode), "ref": True, "sticky": 1,
            "ops": [op_file("in.x", text), op_run("esl-reformat", args)]}, "esl-reformat", args)


def ref_reformat_msa2fasta(rng, i):
    """esl-reformat fasta <alignment file>: several Stockholm alignments in one file (the numbering of --rename runs on), #=GS AC / DE
    (printed behind the name), per-sequence SS lines (dealigned in parallel; --fullwuss refuses a non-WUSS line), rows that are all
    gaps (a header without sequence lines), rows longer than one 60-residue line; every other alignment format as input"""
    nali = rng.choice([1, 1, 2, 3])
    text, k0 = "", 0
    bad_ss = False
    for a in range(nali):
        rows, abc = wide_rows(rng, alen=rng.choice([None, 5, 61, 130]), gaps=rng.choice(["-", "-.", "-._~"]))
        rows = [("%s_%d" % (n, a + 1), s_) for n, s_ in rows]
        alen = len(rows[0][1])
        if rng.random() < 0.2: rows[rng.randrange(len(rows))] = (rows[0][0] + "gap", "-" * alen)
        if len(set(n for n, _ in rows)) < len(rows): rows = [("q%d_%d" % (k + 1, a + 1), s_) for k, (n, s_) in enumerate(rows)]
        grss = None
        if rng.random() < 0.4:
            grss = {k: balanced_ss(rng, alen, kh=rng.random() < 0.2) for k in range(len(rows)) if rng.random() < 0.6}
            if rng.random() < 0.15 and grss:
                k = rng.choice(sorted(grss)); grss[k] = "><" + grss[k][2:] if alen > 2 else grss[k]; bad_ss = True
        desc = {k: rng.choice(["a description", "x", "two  spaces"]) for k in range(len(rows)) if rng.random() < 0.3}
        t = sto_text_blocks(rows, max(1, rng.choice([alen, 200, 50])), grss=grss, desc=desc, ident=rng.choice([None, "aln%d" % (a + 1)]))
        for k in range(len(rows)):
            if rng.random() < 0.25:
                t = t.replace("# STOCKHOLM 1.0\n", "# STOCKHOLM 1.0\n#=GS %s AC AC%04d.%d\n" % (rows[k][0], rng.randrange(10000), k), 1)
        text += t
    infmt = "stockholm"
    ops = [op_file("in.x", text)]
    if nali == 1 and rng.random() < 0.5:
        infmt = rng.choice(["clustal", "clustallike", "selex", "psiblast", "a2m", "pfam", "phylip", "phylips"])
        ops += [op_run("esl-reformat", ["--informat", "stockholm", infmt, "in.x"]), "save name=in.y"]
        src = "in.y"
    else:
        src = "in.x"
    args = []
    for a_, b_ in (("-d", "-r"), ("-l", "-u"), ("-n", "-x")):
        w = rng.random()
        if w < 0.2: args.append(a_)
        elif w < 0.4: args.append(b_)
    if rng.random() < 0.3: args += ["--rename", rng.choice(["new", "s", "x.y"])]
    if rng.random() < 0.2: args += ["--replace", rng.choice(["A:x", "AC:ca", "acgt:ACGT", "N:n", "GU:ug"])]
    if rng.random() < 0.15: args += ["--gapsym", rng.choice([".", "x"])]
    elif rng.random() < 0.15: args.append(rng.choice(["--mingap", "--nogap"]))
    if rng.random() < 0.1: args += ["--namelen", "5"]
    w = rng.random()
    if w < 0.15: args.append("--fullwuss")
    elif w < 0.25: args.append("--wussify")
    elif w < 0.35: args.append("--dewuss")
    args += ["--informat", infmt, "fasta", src]
    c = {"name": "ref-reformat-m2f-%d" % i, "ref": True, "sticky": 1, "ops": ops + [op_run("esl-reformat", args)]}
    if "--fullwuss" in args:
        c["may_fail"] = True; c["nopred_ok"] = True       # a structure line that is not WUSS (or is in the old notation) is refused with a message
    return c


def ref_seed(rng):
    return str(rng.choice([1, 2, 3, 42, 2 ** 31 - 1, rng.randrange(1, 2 ** 31), rng.randrange(1, 2 ** 31)]))


def ref_shuffle(rng, i):
    if rng.random() < 0.2:
        args = ["-G", rng.choice(["--dna", "--rna"]), "-L", str(rng.choice([1, 2, 59, 60, 61, 150])), "--seed", ref_seed(rng)]
        if rng.random() < 0.5: args += ["-N", str(rng.choice([1, 2, 3, 10]))]
        return {"name": "ref-shuffle-%d-G" % i, "ref": True, "sticky": 0, "ops": [op_run("esl-shuffle", args)]}
    if rng.random() < 0.2:      # -A: shuffle / bootstrap the columns of an alignment (alphabet guessed: clear DNA/RNA only)
        abc = rng.choice([DNA, "ACGU"])
        rows, _ = gen_msa(rng, abc=abc, nseq=rng.choice([3, 4, 6, 9]), alen=rng.choice([30, 59, 60, 61, 100, 130]), gapfrac=rng.choice([0.0, 0.1, 0.2]))
        rows = [(n, rng.choice(["", "desc x"]), "".join(c.lower() if rng.random() < 0.05 else c for c in s_)) for n, s_ in rows]
        args = ["-A", "--seed", ref_seed(rng)] + (["-b"] if rng.random() < 0.4 else []) + (["-N", str(rng.choice([1, 2, 3]))] if rng.random() < 0.4 else []) + ["--informat", "afa", "in.afa"]
        return {"name": "ref-shuffle-%d-A" % i, "ref": True, "sticky": 1,
                "ops": [op_file("in.afa", ref_fasta_text(rng, rows)), op_run("esl-shuffle", args)]}
    recs, abc = ref_records(rng, maxlen=160, long_ok=True)
    args = ["--seed", ref_seed(rng)]
    w = rng.random()
    if w < 0.25: args.append("-m")
    elif w < 0.45: args += ["-k", str(rng.choice([1, 2, 3, 5, 7, 100]))]
    elif w < 0.65: args += ["-w", str(rng.choice([1, 2, 3, 10, 60, 1000]))]
    elif w < 0.75: args.append("-r")
    if rng.random() < 0.4: args += ["-N", str(rng.choice([1, 2, 3, 5]))]
    if rng.random() < 0.3:     # -L: sequences shorter than L are skipped (regression: they used to leak into the next one)
        args += ["-L", str(rng.choice([1, 2, 5, 10, 60, 100]))]
    args += ["--informat", "fasta", "in.fa"]
    return _with_o(rng, {"name": "ref-shuffle-%d" % i, "ref": True, "sticky": 1,
            "ops": [op_file("in.fa", ref_fasta_text(rng, recs, crlf_ok=True)), op_run("esl-shuffle", args)]}, "esl-shuffle", args)


def ref_downsample(rng, i):
    if rng.random() < 0.6:
        nlines = rng.choice([0, 1, 2, 3, 5, 10, 30, 100, 300])
        lines = ["l%d %s" % (k, "y" * rng.randrange(0, 12)) for k in range(nlines)]
        if nlines > 3 and rng.random() < 0.3:
            lines[rng.randrange(nlines - 1)] = ""
        nl = "\r\n" if rng.random() < 0.15 else "\n"
        text = nl.join(lines) + (nl if lines and rng.random() < 0.85 else "")
        m = min(nlines, rng.choice([0, 1, 2, nlines, nlines, max(0, nlines - 1), rng.randrange(0, nlines + 1)]))
        return {"name": "ref-downsample-%d-lines" % i, "ref": True, "sticky": 1,
                "ops": [op_file("in.txt", text), op_run("easel", ["downsample", "--seed", ref_seed(rng), str(m), "in.txt"])]}
    recs, abc = ref_records(rng, nseq=rng.choice([1, 2, 3, 5, 10, 25]), maxlen=90)
    m = min(len(recs), rng.choice([0, 1, 2, len(recs), len(recs), max(0, len(recs) - 1), rng.randrange(0, len(recs) + 1)]))
    if rng.random() < 0.4:      # -S: two passes over a rewindable file, sample echoed verbatim in file order
        return {"name": "ref-downsample-%d-big" % i, "ref": True, "sticky": 1,
                "ops": [op_file("in.fa", fasta_text(recs, rng.choice([60, 50, 9]))), op_run("easel", ["downsample", "-S", "--seed", ref_seed(rng), str(m), "in.fa"])]}
    return {"name": "ref-downsample-%d-seqs" % i, "ref": True, "sticky": 1,
            "ops": [op_file("in.fa", ref_fasta_text(rng, recs)), op_run("easel", ["downsample", "-s", "--seed", ref_seed(rng), str(m), "in.fa"])]}


def ref_sfetch_afa(rng, i):
    """esl-sfetch on an alignment file: no SSI index, sequential scan, the de-gapped parsed record is written (file order for -f)"""
    rows, abc = ref_msa_rows(rng, rng.choice([DNA, AMINO]))
    rows = [(n, d, "".join(c if c not in "._" else "-" for c in s_)) for n, d, s_ in rows]
    rows = [(n, d, s_) if s_.replace("-", "") else (n, d, "A" + s_[1:]) for n, d, s_ in rows]
    ops = [op_file("in.afa", ref_fasta_text(rng, rows))]
    args = ["--informat", "afa"]
    mode = rng.choice(["one", "one-r", "one-n", "multi", "multi-r"])
    if abc != DNA and mode.endswith("-r"): mode = mode[:-2]
    name = rng.choice(rows)[0]
    if mode.startswith("multi"):
        ks = [r[0] for r in rows]; rng.shuffle(ks); ks = ks[:rng.randrange(1, len(ks) + 1)]
        ops.append(op_file("keys", "\n".join(ks) + "\n"))
        args += (["-r"] if mode == "multi-r" else []) + ["-f", "in.afa", "keys"]
    else:
        args += (["-r"] if mode == "one-r" else []) + (["-n", "renamed"] if mode == "one-n" else []) + ["in.afa", name]
    if rng.random() < 0.2:
        args = ["-o", "out.fa"] + args
        ops += [op_run("esl-sfetch", args), "cat name=out.fa"]
    else:
        ops.append(op_run("esl-sfetch", args))
    return {"name": "ref-sfetchafa-%d-%s" % (i, mode), "ref": True, "sticky": 1, "ops": ops}


def ref_sfetch(rng, i):
    recs, abc = ref_records(rng, abc=DNA, nseq=rng.choice([1, 2, 3, 5, 9]), maxlen=150)
    recs = [(n, d, "".join(c if rng.random() > 0.02 else rng.choice("NRYnx") for c in s)) for n, d, s in recs]
    text = fasta_text(recs, rng.choice([60, 60, 50, 80, 7]))
    ops = [op_file("in.fa", text), op_run("esl-sfetch", ["--index", "in.fa"])]
    name, desc, seq = rng.choice(recs)
    L = len(seq)
    mode = rng.choice(["one", "one-r", "one-n", "sub", "sub", "sub", "multi", "gdf", "gdf"])
    def coords():      # forward (a <= b), reversed (a > b: reverse complement), single residue, to-the-end (b = 0)
        a = rng.choice([1, L, rng.randrange(1, L + 1)])
        b = rng.choice([1, L, 0, rng.randrange(1, L + 1), a])
        if rng.random() < 0.35 and b != 0 and a < b:
            a, b = b, a
        return a, b
    if mode == "one": args = ["in.fa", name]
    elif mode == "one-r": args = ["-r", "in.fa", name]
    elif mode == "one-n": args = (["-r"] if rng.random() < 0.3 else []) + ["-n", "renamed", "in.fa", name]
    elif mode == "sub":
        a, b = coords()
        args = (["-r"] if rng.random() < 0.5 else []) + (["-n", "nn"] if rng.random() < 0.3 else []) + ["-c", "%d..%d" % (a, b), "in.fa", name]
    elif mode == "multi":
        ks = [r[0] for r in recs]; rng.shuffle(ks); ks = ks[:rng.randrange(1, len(ks) + 1)]
        ops.append(op_file("keys", "\n".join(ks) + "\n"))
        args = (["-r"] if rng.random() < 0.3 else []) + ["-f", "in.fa", "keys"]
    else:
        lines = []
        for k in range(rng.randrange(1, 5)):
            name, desc, seq = rng.choice(recs); L = len(seq)
            a, b = coords()
            lines.append("sub%d %d %d %s" % (k, a, b, name))
        ops.append(op_file("gdf", "\n".join(lines) + "\n"))
        args = (["-r"] if rng.random() < 0.5 else []) + ["-C", "-f", "in.fa", "gdf"]
    if rng.random() < 0.2:
        args = ["--informat", "fasta"] + args
    # output to a file: -o <f> (any mode) or -O (single fetch; file named after the key) - stdout then only carries a note
    outname = None
    w = rng.random()
    if w < 0.2:
        outname = "out.fa"; args = ["-o", outname] + args
    elif w < 0.3 and mode in ("one", "one-r", "one-n", "sub") and re.fullmatch(r"[A-Za-z0-9_.]+", name):
        outname = name; args = ["-O"] + args
    ops.append(op_run("esl-sfetch", args))
    if outname:
        ops.append("cat name=%s" % outname)
    return {"name": "ref-sfetch-%d-%s" % (i, mode), "ref": True, "sticky": len(ops) - 1, "ops": ops}


def ref_translate(rng, i):
    """DNA with degenerate residues in every canonical/degenerate pattern over the first and last four positions, stop and
    start codons next to the ends, runs of N, lengths 3..7 and long ones (sequences shorter than a codon are skipped)"""
    DEG = "NRYKMSWBDHV"
    n = rng.choice([1, 1, 2, 3, 5])
    recs = []
    use_W = rng.random() < 0.3
    for k in range(n):
        L = rng.choice([0, 1, 2, 3, 4, 5, 6, 7, 8, 9, 30, 61, 150, rng.randrange(3, 400), rng.randrange(3, 400)])
        if use_W and rng.random() < 0.2:
            L = rng.choice([4091, 4092, 4093, 4094, 4095, 8184, 8186, 9001])       # around the 4092-residue window of -W
        style = rng.random()
        seq = []
        while len(seq) < L:
            if style < 0.3 and rng.random() < 0.08:
                seq += list(rng.choice(["TAA", "TAG", "TGA", "ATG", "ATG"]))     # more stops and starts
            c = rng.choice("ACGT")
            if rng.random() < 0.02: c = rng.choice(DEG + "U")
            seq.append(c)
        seq = seq[:L]
        if rng.random() < 0.2 and L > 12:                                         # a run of N
            p0 = rng.randrange(0, L - 6); ln = rng.choice([1, 2, 3, 4, 7])
            seq[p0:p0 + ln] = list("N" * ln)
        # the two ends: every degenerate/canonical pattern over the first and the last four positions
        head = rng.choice([rng.randrange(16), rng.randrange(16), 3, 7, 11, 15, 1, 2])
        tail = rng.choice([rng.randrange(16), rng.randrange(16), 3, 7, 11, 15, 1, 2])
        for b_ in range(min(4, L)):
            if head >> b_ & 1: seq[b_] = rng.choice(DEG)
            if tail >> b_ & 1: seq[L - 1 - b_] = rng.choice(DEG)
        w = rng.random()
        if w < 0.15 and L >= 6:                                                    # stop / start right at an end
            cod = list(rng.choice(["TAA", "TAG", "TGA", "ATG", "TTA", "CTA", "TCA", "CAT"]))
            off = rng.choice([0, 1, 2])
            if rng.random() < 0.5: seq[off:off + 3] = cod
            else: seq[L - 3 - off:L - off] = cod
        seq = [c.lower() if rng.random() < 0.05 else c for c in seq]
        recs.append((rand_name(rng, k + 1), rng.choice(["", "a desc", "x"]), "".join(seq)))
    args = []
    if rng.random() < 0.5: args += ["-c", str(rng.choice([1, 1, 2, 3, 4, 5, 6, 9, 10, 11, 12, 13, 14, 16, 21, 22, 23, 24, 25]))]
    if rng.random() < 0.7: args += ["-l", str(rng.choice([0, 0, 1, 2, 5, 10, 20, 50]))]
    w = rng.random()
    if w < 0.25: args.append("-m")
    elif w < 0.5: args.append("-M")
    w = rng.random()
    if w < 0.2: args.append("--watson")
    elif w < 0.4: args.append("--crick")
    if use_W: args.append("-W")
    args += ["--informat", "fasta", "in.fa"]
    return {"name": "ref-translate-%d" % i, "ref": True, "sticky": 1,
            "ops": [op_file("in.fa", ref_fasta_text(rng, recs)), op_run("esl-translate", args)]}


def ref_alistat(rng, i):
    rows, abc = ref_msa_rows(rng)
    if rng.random() < 0.12:       # many rows: the average identity is then a seeded stochastic sample (N(N-1)/2 > 1000)
        base, _ = gen_msa(rng, abc=abc, nseq=rng.choice([45, 46, 60]), alen=rng.choice([5, 12, 30]))
        rows = [(n, "", s) for n, s in base]
    which = rng.choice(["esl", "esl1", "easel", "easel1"])
    text = ref_fasta_text(rng, rows)
    if which in ("easel", "easel1"):
        return {"name": "ref-alistat-%d-%s" % (i, which), "ref": True, "sticky": 1,
                "ops": [op_file("in.afa", text), op_run("easel", ["alistat"] + (["-1"] if which == "easel1" else []) + [ABCFLAG[abc], "in.afa"])]}
    args = (["-1"] if which == "esl1" else []) + ["--informat", "afa", ABCFLAG[abc], "in.afa"]
    return {"name": "ref-alistat-%d-%s" % (i, which), "ref": True, "sticky": 1,
            "ops": [op_file("in.afa", text), op_run("esl-alistat", args)]}


def ref_hmmpgmd(rng, i):
    """esl-reformat hmmpgmd: header `#<nres> <nseq> 1 <nseq> <nseq> <date>`, records renamed `<idx> 1` without description,
    and the map file `<nseq>` / `<idx> <name> <desc>`"""
    recs, abc = ref_records(rng, maxlen=100)
    return {"name": "ref-hmmpgmd-%d" % i, "ref": True, "nopred_ok": True, "sticky": 1, "hmmpgmd": recs,
            "ops": [op_file("in.fa", ref_fasta_text(rng, recs)), op_run("esl-reformat", ["--informat", "fasta", "hmmpgmd", "in.fa"]), "cat name=in.fa.map"]}


def _check_hmmpgmd(case, out):
    recs = case["hmmpgmd"]
    kv = dict(w.split("=", 1) for w in out[-2].split() if "=" in w)
    txt = bytes.fromhex(kv.get("out", "")).decode("latin-1") if kv.get("out", "-") != "-" else ""
    p_ = out[-1].split()
    mp = bytes.fromhex(p_[1]).decode("latin-1") if len(p_) > 1 and p_[0] == "ok" and p_[1] != "-" else ""
    lines = txt.split("\n")
    n = len(recs); nres = sum(len(s_) for _, _, s_ in recs)
    if not re.fullmatch(r"#%d %d 1 %d %d \w{3} \w{3} +\d+ \d\d:\d\d:\d\d \d{4}" % (nres, n, n, n), lines[0]):
        return "header line %r (expected #%d %d 1 %d %d <date>)" % (lines[0], nres, n, n, n)
    want = fasta_text([("%d 1" % (k + 1), "", s_) for k, (_, _, s_) in enumerate(recs)], 60)
    if "\n".join(lines[1:]) != want:
        return "records differ: %r vs %r" % ("\n".join(lines[1:])[:200], want[:200])
    wantmap = "%d\n" % n + "".join("%d %s %s\n" % (k + 1, nm, d) for k, (nm, d, _) in enumerate(recs))
    if mp != wantmap:
        return "map file %r, expected %r" % (mp[:200], wantmap[:200])
    return None


def ref_alistat_info(rng, i):
    """esl-alistat --list / --rinfo / --cinfo --noambig files, recomputed from the alignment (numeric fields compared)"""
    abc = rng.choice([DNA, "ACGU", AMINO])
    rows, _ = gen_msa(rng, abc=abc, nseq=rng.choice([1, 2, 3, 5, 8]), alen=rng.choice([1, 2, 7, 30, 61]))
    rows = [("%s%d" % (rng.choice(["s", "seq", "x_"]), k + 1), s_) for k, (n, s_) in enumerate(rows)]
    alen = len(rows[0][1])
    rf = "".join("x" if rng.random() < 0.8 else "." for _ in range(alen))
    if "x" not in rf: rf = "x" + rf[1:]
    w_ = max(len(n) for n, _ in rows) + 2
    text = stockholm_text(rows, rng, rf=False, ss=False).replace("//\n", "#=GC RF".ljust(w_ + 8) + rf + "\n//\n")
    return {"name": "ref-alistatinfo-%d" % i, "ref": True, "nopred_ok": True, "sticky": 1,
            "alistat_info": {"rows": rows, "rf": rf, "abc": abc},
            "ops": [op_file("in.sto", text),
                    op_run("esl-alistat", [ABCFLAG[abc], "--list", "l.out", "--rinfo", "r.out", "--cinfo", "c.out", "--noambig", "in.sto"]),
                    "cat name=l.out", "cat name=r.out", "cat name=c.out"]}


DEGEN = {DNA: "RYMKSWHBVDN", "ACGU": "RYMKSWHBVDN", AMINO: "BJZOUX"}


def ref_alistat_exact(rng, i):
    """esl-alistat on Stockholm / Pfam files read in digital mode: one or several alignments (named or not), with / without RF,
    degenerate residues (shared out by esl_abc_DCount), '.', '_', '~', '*' columns, weights present but not asked for, alignments
    wider than a block; default and -1 summary; --list / --icinfo / --rinfo / --iinfo / --cinfo [--noambig] files compared byte for byte"""
    abc = rng.choice([DNA, "ACGU", AMINO])
    nali = rng.choice([1, 1, 2, 3])
    pfam = rng.random() < 0.3
    want_iinfo = rng.random() < 0.4
    want_pp = rng.random() < 0.4
    want_bp = rng.random() < 0.35
    text = ""
    for a in range(nali):
        rows, _ = wide_rows(rng, abc=abc, nseq=rng.choice([1, 2, 3, 6, 9]), alen=rng.choice([1, 2, 7, 30, 61, 130, 205]),
                            gaps=rng.choice(["-", "-.", "-._", "-.~"]))
        alen = len(rows[0][1])
        if rng.random() < 0.5:      # degenerate residues, lower case, a few '*' (nonresidue) and '~' (missing)
            extra = DEGEN[abc] + DEGEN[abc].lower() + rng.choice(["", "*", "~", "*~"])
            rows = [(n, "".join(rng.choice(extra) if rng.random() < 0.12 else (c.lower() if rng.random() < 0.1 else c) for c in s_)) for n, s_ in rows]
        if rng.random() < 0.15 and alen > 2:      # a column made of degenerate residues only (--noambig: nothing counted there)
            k = rng.randrange(alen); rows = [(n, s_[:k] + rng.choice(DEGEN[abc]) + s_[k + 1:]) for n, s_ in rows]
        rf = None
        if want_iinfo or rng.random() < 0.4:
            rf = "".join(rng.choice("xX") if rng.random() < 0.7 else rng.choice(".-~") for _ in range(alen))
            if not any(c in "xX" for c in rf): rf = "x" + rf[1:]
        name = rng.choice([None, "aln%d" % (a + 1), "a_long_alignment_name_%d" % (a + 1)])
        cpl = alen if pfam else rng.choice([alen, 200, 50, 77])
        grpp = None
        if want_pp:      # posterior probability lines: a digit or * under a residue, a gap character under a gap; some sequences without one
            grpp = {k: "".join(rng.choice(".." if rng.random() < 0.9 else "-_") if c in "-._~" else rng.choice("0123456789*****") for c in s_)
                    for k, (n, s_) in enumerate(rows) if rng.random() < 0.8}
            if not grpp: grpp = {0: "".join("." if c in "-._~" else "*" for c in rows[0][1])}
        sscons = None
        if want_bp:
            sscons = balanced_ss(rng, alen)
            if rng.random() < 0.3 and alen > 6:      # a pseudoknot (letters): removed before the pairs are read
                free = [c_ for c_ in range(alen) if sscons[c_] in ".:,_-~"]
                if len(free) >= 2:
                    x_, y_ = sorted(rng.sample(free, 2)); l_ = list(sscons); l_[x_], l_[y_] = "A", "a"; sscons = "".join(l_)
        t = sto_text_blocks(rows, max(1, cpl), rf=rf, ident=name, grpp=grpp, sscons=sscons)
        if rng.random() < 0.4:
            ws_ = ["1.0", "0.5", "2.25", "0.3333", "1.7", "0.1"] if rng.random() < 0.8 else ["1.0"]
            t = t.replace("# STOCKHOLM 1.0\n", "# STOCKHOLM 1.0\n" + "".join("#=GS %s WT %s\n" % (n, rng.choice(ws_)) for n, _ in rows), 1)
        text += t
    args = [ABCFLAG[abc], "--informat", "pfam" if pfam else "stockholm"]
    if rng.random() < 0.35: args.append("-1")
    cats = []
    for opt, f in (("--list", "l.out"), ("--icinfo", "ic.out"), ("--rinfo", "r.out"), ("--cinfo", "c.out")):
        if rng.random() < 0.5:
            args += [opt, f]; cats.append("cat name=" + f)
    if want_iinfo:
        args += ["--iinfo", "i.out"]; cats.append("cat name=i.out")
    if want_pp:
        for opt, f in (("--pcinfo", "pc.out"), ("--psinfo", "ps.out")):
            if rng.random() < 0.7:
                args += [opt, f]; cats.append("cat name=" + f)
    if want_bp:
        args += ["--bpinfo", "bp.out"]; cats.append("cat name=bp.out")
    if rng.random() < 0.3: args.append("--noambig")
    if rng.random() < 0.35: args.append("--weight")       # weighted counts where an alignment has WT lines that are not all 1.0
    rng.shuffle(cats)
    return {"name": "ref-alistatx-%d" % i, "ref": True, "sticky": 1,
            "ops": [op_file("in.sto", text), op_run("esl-alistat", args + ["in.sto"])] + cats}


def ref_alistat_small_info(rng, i):
    """esl-alistat --small (Pfam, one line per sequence) with the info files it supports: --list (written by esl_msafile2_ReadInfoPfam itself),
    --icinfo / --rinfo / --cinfo (per-column counts collected by ReadInfoPfam) and --pcinfo (its PP counts): stdout and every file compared
    byte for byte with the prediction = --small summary + the non-small reference's files on the same input"""
    abc = rng.choice([DNA, "ACGU", AMINO])
    nali = rng.choice([1, 1, 2, 3])
    want_pp = rng.random() < 0.4
    text = ""
    for a in range(nali):
        rows, _ = wide_rows(rng, abc=abc, nseq=rng.choice([1, 2, 3, 6, 9, 17]), alen=rng.choice([1, 2, 7, 30, 61, 130, 205]),
                            gaps=rng.choice(["-", "-.", "-._"]))
        alen = len(rows[0][1])
        if rng.random() < 0.5:
            extra = DEGEN[abc] + DEGEN[abc].lower()
            rows = [(n, "".join(rng.choice(extra) if rng.random() < 0.12 else (c.lower() if rng.random() < 0.1 else c) for c in s_)) for n, s_ in rows]
        rf = None
        if rng.random() < 0.5:
            rf = "".join(rng.choice("xX") if rng.random() < 0.7 else rng.choice(".-") for _ in range(alen))
            if not any(c in "xX" for c in rf): rf = "x" + rf[1:]
        name = rng.choice([None, "aln%d" % (a + 1), "a_long_alignment_name_%d" % (a + 1)])
        grpp = None
        if want_pp:
            grpp = {k: "".join("." if c in "-._~" else rng.choice("0123456789*****") for c in s_) for k, (n, s_) in enumerate(rows) if rng.random() < 0.8}
            if not grpp: grpp = {0: "".join("." if c in "-._~" else "*" for c in rows[0][1])}
        text += sto_text_blocks(rows, max(1, alen), rf=rf, ident=name, grpp=grpp)
    args = ["--small", ABCFLAG[abc], "--informat", "pfam"]
    if rng.random() < 0.35: args.append("-1")
    cats = []
    for opt, f in (("--list", "l.out"), ("--icinfo", "ic.out"), ("--rinfo", "r.out"), ("--cinfo", "c.out")):
        if rng.random() < 0.6:
            args += [opt, f]; cats.append("cat name=" + f)
    if want_pp and rng.random() < 0.8:
        args += ["--pcinfo", "pc.out"]; cats.append("cat name=pc.out")
    rng.shuffle(cats)
    return {"name": "ref-alistat-small-info-%d" % i, "ref": True, "sticky": 1,
            "ops": [op_file("in.sto", text), op_run("esl-alistat", args + ["in.sto"])] + cats}


def _check_alistat_info(case, out):
    info = case["alistat_info"]; rows, rf, abc = info["rows"], info["rf"], info["abc"]
    def txt(l):
        p_ = l.split()
        return bytes.fromhex(p_[1]).decode("latin-1") if len(p_) > 1 and p_[0] == "ok" and p_[1] != "-" else ""
    lst, rinfo, cinfo = txt(out[-3]), txt(out[-2]), txt(out[-1])
    if lst.split() != [n for n, _ in rows]:
        return "--list file %r, expected the names %r" % (lst[:200], [n for n, _ in rows])
    nseq, alen = len(rows), len(rows[0][1])
    data = [l.split() for l in rinfo.split("\n") if l.strip() and not l.startswith(("#", "//"))]
    if len(data) != alen:
        return "--rinfo has %d data lines, expected %d" % (len(data), alen)
    rfpos = 0
    for c, f in enumerate(data):
        nres = sum(1 for _, s_ in rows if s_[c] != "-")
        if rf[c] == "x": rfpos += 1
        want = [str(rfpos) if rf[c] == "x" else "-", str(c + 1), "%.1f" % nres, "%.6f" % (nres / nseq), "%.1f" % (nseq - nres), "%.6f" % ((nseq - nres) / nseq)]
        if f != want:
            return "--rinfo column %d: %r, expected %r" % (c + 1, f, want)
    K = abc.replace("U", "U")
    data = [l.split() for l in cinfo.split("\n") if l.strip() and not l.startswith(("#", "//"))]
    if len(data) != alen:
        return "--cinfo has %d data lines, expected %d" % (len(data), alen)
    for c, f in enumerate(data):
        want = [str(c + 1)] + ["%.1f" % sum(1 for _, s_ in rows if s_[c] == x) for x in abc]
        if f != want:
            return "--cinfo column %d: %r, expected %r" % (c + 1, f, want)
    return None


def _pfam_record(rng, abc, names, ident=None, gs=True, gr=True, rf=None, ss=None, alen=None, lower=0.2, gaps="-."):
    """one Pfam record (one line per sequence) with the furniture the streamed (--small) paths have to cope with: #=GF lines,
    comment and blank lines, #=GS AC/DE lines in front of the sequences, #=GR PP/SS lines, #=GC SS_cons/RF, names padded with SPACES"""
    alen = alen or rng.choice([1, 5, 12, 30, 59, 60, 61, 75, 121])
    nuc = abc != AMINO
    rows = []
    for n in names:
        seq = "".join(rng.choice(gaps) if rng.random() < 0.2 else rng.choice(abc + (DEGEN[abc] if rng.random() < 0.1 else "")) for _ in range(alen))
        if not any(c not in gaps for c in seq): seq = abc[0] + seq[1:]
        seq = "".join(c.lower() if rng.random() < lower else c for c in seq)
        rows.append((n, seq))
    w = max(len(n) for n in names) + rng.choice([1, 2, 5])
    if gr or ss or rf: w = max(w, 14 + max(len(n) for n in names))
    L = ["# STOCKHOLM 1.0"]
    if rng.random() < 0.3: L.append("")
    if ident: L.append("#=GF ID %s" % ident)
    if rng.random() < 0.3: L.append("#=GF DE  some free text   with   blanks")
    if rng.random() < 0.3: L.append("# a comment line")
    gsl = []
    if gs:
        # in sequence order, as the Pfam writer emits them (the afa path of esl-reformat relies on that order), and such that the order of
        # FIRST MENTION is the order of the sequence lines: the in-memory reader numbers sequences by first mention (a #=GS line counts),
        # the streamed paths by sequence line - the two modes promise the same output only when these orders coincide
        k1 = rng.randrange(0, len(names) + 1) if rng.random() < 0.7 else 0
        k2 = rng.randrange(k1, len(names) + 1)
        for n in names[:k1]:
            gsl.append(("AC", "#=GS %s AC %s" % (n, rng.choice(["X123.4", "PF00001", "acc_" + n]))))
        for j, n in enumerate(names[:k2]):
            if j >= k1 or rng.random() < 0.5: gsl.append(("DE", "#=GS %s DE %s" % (n, rng.choice(["a description", "kinase (EC 2.7.1.1)", "x"]))))
        L += [l for _, l in gsl]
    if rng.random() < 0.5: L.append("")
    sscons = balanced_ss(rng, alen) if (ss if ss is not None else (nuc and rng.random() < 0.5)) else None
    for n, seq in rows:
        L.append(n.ljust(w) + " " + seq)
        if gr and rng.random() < 0.4:
            pp = "".join("." if c in gaps else rng.choice("0123456789*") for c in seq)
            L.append(("#=GR %s PP" % n).ljust(w) + " " + pp)
        if gr and nuc and sscons and rng.random() < 0.3:
            L.append(("#=GR %s SS" % n).ljust(w) + " " + sscons)
    if sscons: L.append("#=GC SS_cons".ljust(w) + " " + sscons)
    has_rf = rf if rf is not None else rng.random() < 0.5
    rfl = None
    if has_rf:
        rfl = "".join("x" if rng.random() < 0.7 else "." for _ in range(alen))
        if "x" not in rfl: rfl = "x" + rfl[1:]
        L.append("#=GC RF".ljust(w) + " " + rfl)
    L.append("//")
    return "\n".join(L) + "\n", rows, rfl


def ref_small(rng, i):
    """the streamed (--small, Pfam only) paths of esl-reformat / esl-alimask / esl-alimanip / esl-alistat: stdout predicted by the Lean
    models of esl_msafile2_RegurgitatePfam, regurgitate_pfam_as_pfam, regurgitate_pfam_as_afa and the --small summary of esl-alistat, compared
    exactly; the python monitor (`same_out`) additionally checks, on the tool's own outputs, that the normal mode prints the same tokens"""
    abc = rng.choice([DNA, "ACGU", AMINO])
    nseq = rng.choice([1, 2, 3, 6, 17])
    names = ["%s%d" % (rng.choice(["s", "seq", "x_", "a|b|"]), k + 1) for k in range(nseq)]
    which = rng.choice(["reformat-afa", "reformat-pfam", "alimask", "alimask", "alimanip", "alistat", "alistat"])
    nrec = 1 if which in ("reformat-afa", "alimask") else rng.choice([1, 1, 2, 3])
    text, rows0, rf0 = "", None, None
    for k in range(nrec):
        t, rows, rfl = _pfam_record(rng, abc, names, ident=("aln%d" % (k + 1) if rng.random() < 0.7 or nrec > 1 else None),
                                    gs=(which != "alistat" or rng.random() < 0.5), rf=(True if which == "alimask" and rng.random() < 0.6 else None),
                                    ss=(True if which == "alimask" and abc != AMINO and rng.random() < 0.85 else None),   # the mask must break pairs of SS_cons / SS
                                    lower=(0.2 if which.startswith("reformat") else 0.0))
        if k == 0: rows0, rf0 = rows, rfl
        text += t
        if rng.random() < 0.3: text += "\n"
    case = {"name": "ref-small-%d-%s" % (i, which), "ref": True, "sticky": 1}
    if which.startswith("reformat"):
        opts = []
        for a, b in (("-d", "-r"), ("-l", "-u"), ("-n", "-x")):
            w = rng.random()
            if w < 0.25: opts.append(a)
            elif w < 0.5: opts.append(b)
        if rng.random() < 0.3: opts += ["--gapsym", rng.choice([".", "_", "x"])]
        if rng.random() < 0.3 and which == "reformat-afa": opts += ["--rename", "nn"]
        if rng.random() < 0.2: opts += ["--replace", rng.choice(["A:x", "AC:ca"])]
        outf = "afa" if which == "reformat-afa" else "pfam"
        tail = ["--informat", "pfam", outf, "in.sto"]
        case["ops"] = [op_file("in.sto", text), op_run("esl-reformat", opts + tail), op_run("esl-reformat", ["--small"] + opts + tail)]
        case["same_out"] = True; case["nopred_first"] = True
    elif which == "alimask":
        alen = len(rows0[0][1])
        mode = rng.choice(["-t", "-t", "maskfile", "rf", "-g", "-g"]) if rf0 else rng.choice(["-t", "maskfile", "-g"])
        ops = [op_file("in.sto", text)]
        if mode == "-t":
            a = rng.randrange(1, alen + 1); b = rng.randrange(a, alen + 1)
            base = ["-t", "--informat", "pfam", ABCFLAG[abc], "in.sto", "%d-%d" % (a, b)]
        elif mode == "maskfile":
            m = "".join(rng.choice("01") for _ in range(alen))
            if "1" not in m: m = "1" + m[1:]
            ops.append(op_file("mask", m + "\n"))
            base = ["--informat", "pfam", ABCFLAG[abc], "in.sto", "mask"]
        elif mode == "-p":
            base = ["-p"] + (["--pfract", rng.choice(["0.0", "0.3", "0.5", "0.95", "1.0"])] if rng.random() < 0.6 else []) \
                   + (["--pthresh", rng.choice(["0.0", "0.35", "0.65", "0.95", "1.0"])] if rng.random() < 0.6 else []) \
                   + (["--pallgapok"] if rng.random() < 0.3 else []) + ["--informat", "pfam", ABCFLAG[abc], "in.sto"]
        elif mode == "-g":
            base = ["-g"] + (["--gapthresh", rng.choice(["0.0", "0.2", "0.5", "0.75", "1.0", "0.3333"])] if rng.random() < 0.7 else []) + ["--informat", "pfam", ABCFLAG[abc], "in.sto"]
        else:
            base = ["--rf-is-mask", "--informat", "pfam", ABCFLAG[abc], "in.sto"]
        case["ops"] = ops + [op_run("esl-alimask", base), op_run("esl-alimask", ["--small"] + base)]
        case["same_out"] = True; case["nopred_first"] = True
    elif which == "alimanip":
        sel = [n for n in names if rng.random() < 0.5] or [names[0]]
        opt = rng.choice(["--seq-k", "--seq-r"])
        if len(sel) == len(names):
            if len(names) > 1: sel = sel[:-1]
            else: opt = "--seq-k"
        rng.shuffle(sel)
        base = [opt, "list", "--informat", "pfam", ABCFLAG[abc], "in.sto"]
        case["ops"] = [op_file("in.sto", text), op_file("list", "\n".join(sel) + "\n"), op_run("esl-alimanip", base), op_run("esl-alimanip", ["--small"] + base)]
        case["same_out"] = True; case["nopred_first"] = True
    else:
        base = (["-1"] if rng.random() < 0.4 else []) + ["--informat", "pfam", ABCFLAG[abc], "in.sto"]
        case["ops"] = [op_file("in.sto", text), op_run("esl-alistat", base), op_run("esl-alistat", ["--small"] + base)]
    return case


def ref_alimerge(rng, i):
    """esl-alimerge (in-memory mode): 2-4 alignments that share their consensus (#=GC RF) columns but differ in their insert columns
    (none / before the first / between / after the last consensus column; widths 0..5), two files or --list with several files and
    several alignments per file; complete stdout predicted by the Lean model of update_maxgap / determine_gap_columns_to_add /
    inflate_seq_with_gaps + the C03 Stockholm writer"""
    abc = rng.choice([DNA, "ACGU", AMINO])
    clen = rng.choice([0, 1, 2, 5, 12, 30]) if rng.random() < 0.9 else 61
    cons = "".join(rng.choice("xX" + abc) for _ in range(clen))
    nali = rng.choice([2, 2, 3, 4])
    narrow = rng.random() < 0.4
    use_list = nali != 2 or rng.random() < 0.3
    texts, k = [], 0
    for a in range(nali):
        # narrow: the widest insert of a region is 1 and some input has none there (the `maxgap[cpos] > 0` boundary of every placement branch)
        pool = [0, 0, 1] if narrow else [0, 0, 0, 1, 2, 3, 5]
        widths = [rng.choice(pool) for _ in range(clen + 1)]
        if clen == 0 and widths[0] == 0: widths[0] = 1
        rf, cols = "", []
        for c in range(clen + 1):
            rf += "".join(rng.choice(".-") if rng.random() < 0.3 else "." for _ in range(widths[c])); cols += [False] * widths[c]
            if c < clen: rf += cons[c]; cols.append(True)
        rows = []
        for _ in range(rng.choice([1, 2, 3, 5])):
            k += 1
            seq = "".join((rng.choice(abc) if rng.random() < 0.85 else "-") if m else (rng.choice(abc).lower() if rng.random() < 0.6 else ".") for m in cols)
            rows.append(("%s%d" % (rng.choice(["s", "seq", "x_"]), k), seq))
        w = max(len(n) for n, _ in rows) + rng.choice([1, 3])
        w = max(w, 8)
        t = "# STOCKHOLM 1.0\n" + ("\n" if rng.random() < 0.5 else "") + "".join(n.ljust(w) + s_ + "\n" for n, s_ in rows) + "#=GC RF".ljust(w) + rf + "\n//\n"
        texts.append(t)
    ops, args = [], [ABCFLAG[abc]]
    if rng.random() < 0.3: args += ["--outformat", rng.choice(["pfam", "stockholm", "afa"])]
    if rng.random() < 0.2 and clen > 0: args += ["--rfonly"]
    if use_list:
        # group the alignments into files
        files, cur = [], ""
        for t in texts:
            cur += t
            if rng.random() < 0.6: files.append(cur); cur = ""
        if cur: files.append(cur)
        for j, f in enumerate(files): ops.append(op_file("m%d.sto" % j, f))
        ops.append(op_file("list", "".join("m%d.sto\n" % j for j in range(len(files)))))
        args = ["--list"] + args + ["list"]
    else:
        ops += [op_file("m0.sto", texts[0]), op_file("m1.sto", texts[1])]
        args += ["m0.sto", "m1.sto"]
    c = {"name": "ref-alimerge-%d" % i, "ref": True, "sticky": len(ops), "ops": ops + [op_run("esl-alimerge", args)]}
    return _with_o(rng, c, "esl-alimerge", args)


def ref_afetch_multi(rng, i):
    """esl-afetch -f <msafile> <namefile>: the named alignments, each converted through the tool to afa is not possible for a
    multi-record output, so the monitor checks the #=GF ID lines (all requested, none else; key order with an SSI index, file order
    without) and that every record is complete"""
    nali = rng.choice([2, 3, 5, 7])
    names = ["%s%d" % (rng.choice(["aln", "fam_", "PF000"]), k + 1) for k in range(nali)]
    text = ""
    for nm in names:
        rows, _ = gen_msa(rng, nseq=rng.choice([1, 2, 4]))
        text += stockholm_text(rows, rng, rf=rng.random() < 0.3, ss=False, name=nm)
    want = [n for n in names if rng.random() < 0.5] or [names[-1]]
    rng.shuffle(want)
    indexed = rng.random() < 0.5
    ops = [op_file("in.sto", text), op_file("names", "\n".join(want) + "\n")]
    if indexed:
        ops.append(op_run("esl-afetch", ["--index", "in.sto"]))
    ops.append(op_run("esl-afetch", ["-f", "in.sto", "names"]))
    expect = want if indexed else [n for n in names if n in want]
    return {"name": "ref-afetchmulti-%d" % i, "ref": True, "nopred_ok": True, "sticky": 1, "expect_ids": expect, "ops": ops,
            "index_msg": "Working...    done.\nIndexed %d alignments (%d names).\nSSI index written to file in.sto.ssi\n" % (nali, nali)}


RT_FORMATS = ["stockholm", "pfam", "clustal", "clustallike", "phylip", "phylips", "selex"]   # psiblast and a2m re-case insert columns: not an identity


def ref_roundtrip(rng, i):
    """afa -> <format> -> afa through the tool itself: names and residues must come back unchanged (checked by ref_monitor;
    the Lean side has no writer model for these formats, see C03)"""
    abc = rng.choice([DNA, "ACGU", AMINO])
    rows, _ = gen_msa(rng, abc=abc, nseq=rng.choice([1, 2, 3, 5, 8]))
    rows = [("%s%d" % (rng.choice(["s", "seq", "Q9", "x_"]), k + 1), s) for k, (n, s) in enumerate(rows)]     # <= 10 chars (PHYLIP)
    fmt = rng.choice(RT_FORMATS)
    text = afa_text(rows, rng.choice([60, 60, 13, 200]))
    return {"name": "ref-roundtrip-%d-%s" % (i, fmt), "ref": True, "nopred_ok": True, "sticky": 1, "roundtrip": rows,
            "ops": [op_file("in.afa", text), op_run("esl-reformat", ["--informat", "afa", fmt, "in.afa"]), "save name=mid",
                    op_run("esl-reformat", ["--informat", fmt, "afa", "mid"])]}


def ref_afetch(rng, i):
    """esl-afetch <stockholm with several named alignments> <name>: the fetched record, converted to afa by the tool, has exactly
    the rows of that alignment (with and without an SSI index)"""
    nali = rng.choice([1, 2, 3, 5])
    alis, text = [], ""
    for k in range(nali):
        abc = rng.choice([DNA, "ACGU", AMINO])
        rows, _ = gen_msa(rng, abc=abc, nseq=rng.choice([1, 2, 3, 6]))
        name = "%s%d" % (rng.choice(["aln", "fam_", "PF000"]), k + 1)
        alis.append((name, rows))
        text += stockholm_text(rows, rng, rf=rng.random() < 0.3, ss=False, name=name)
    name, rows = rng.choice(alis)
    ops = [op_file("in.sto", text)]
    if rng.random() < 0.5:
        ops.append(op_run("esl-afetch", ["--index", "in.sto"]))
    ops += [op_run("esl-afetch", ["in.sto", name]), "save name=mid", op_run("esl-reformat", ["--informat", "stockholm", "afa", "mid"])]
    return {"name": "ref-afetch-%d" % i, "ref": True, "nopred_ok": True, "sticky": 1, "roundtrip": rows, "ops": ops,
            "index_msg": "Working...    done.\nIndexed %d alignments (%d names).\nSSI index written to file in.sto.ssi\n" % (nali, nali)}


def ref_afetch_exact(rng, i):
    """esl-afetch --informat stockholm|pfam: by name, by accession, with / without an SSI index (verbatim echo of the record's
    span vs. parse + write), --outformat, -o / -O, -f <keyfile>; records wider than one 200-column block, blank lines between
    records (they belong to the NEXT record's span: msa->offset is taken before the read). Complete stdout / output file predicted."""
    nali = rng.choice([1, 2, 3, 5])
    pfam = rng.random() < 0.3
    recs, text = [], ""
    for k in range(nali):
        rows, abc = wide_rows(rng, alen=rng.choice([None, None, 7, 30, 201, 260]))
        alen = len(rows[0][1])
        name = "%s%d" % (rng.choice(["aln", "fam_", "PF000", "tRNA.", "x"]), k + 1)
        acc = ("%s%05d.%d" % (rng.choice(["PF", "RF", "AC"]), rng.randrange(100000), k + 1)) if rng.random() < 0.5 else None
        rf = "".join("x" if rng.random() < 0.7 else "." for _ in range(alen)) if rng.random() < 0.3 else None
        ss = balanced_ss(rng, alen) if rng.random() < 0.3 else None
        cpl = alen if pfam else rng.choice([alen, 200, 200, 50, 77])
        t = sto_text_blocks(rows, max(1, cpl), rf=rf, sscons=ss, desc=({0: "a description"} if rng.random() < 0.3 else None), ident=name)
        if acc: t = t.replace("#=GF ID %s\n" % name, "#=GF ID %s\n#=GF AC %s\n" % (name, acc), 1)
        w_ = rng.random()
        if w_ < 0.3: t = t.replace("//\n", "  //\n")                      # terminator indented, as the parser allows
        elif w_ < 0.45: t = t.replace("//\n", "// \n")                    # ... or followed by anything: only the prefix "//" counts
        elif w_ < 0.55: t = t.replace("//\n", "//end of record\n")
        text += t + "\n" * rng.choice([0, 0, 1, 3])
        recs.append((name, acc))
    infmt = "pfam" if pfam else "stockholm"
    indexed = rng.random() < 0.5
    if not indexed and nali > 1 and rng.random() < 0.25:
        # the accession of an EARLIER record equals the name of a later one: the sequential search stops at the earlier record
        a, b = sorted(rng.sample(range(nali), 2))
        old = recs[a][1]
        if old: text = text.replace("#=GF AC %s\n" % old, "#=GF AC %s\n" % recs[b][0], 1)
        else: text = text.replace("#=GF ID %s\n" % recs[a][0], "#=GF ID %s\n#=GF AC %s\n" % (recs[a][0], recs[b][0]), 1)
        recs[a] = (recs[a][0], recs[b][0])
        forced_key = recs[b][0]
    else:
        forced_key = None
    ops = [op_file("in.sto", text)]
    if indexed:
        ops.append(op_run("esl-afetch", ["--informat", infmt, "--index", "in.sto"]))
    args = ["--informat", infmt]
    w = rng.random()
    if w < 0.35: args += ["--outformat", rng.choice(MSAFORMATS)]
    elif w < 0.5: args += ["--outformat", infmt]
    if rng.random() < 0.3:
        keys = [rng.choice([x for x in r if x]) for r in recs if rng.random() < 0.6] or [recs[-1][0]]
        keys = list(dict.fromkeys(keys))          # a key listed twice is refused by the tool (the name/accession tie above can produce one)
        rng.shuffle(keys)
        kt = ""
        for k_ in keys:
            if rng.random() < 0.2: kt += rng.choice(["# a comment\n", "\n", "   \n", "  # indented comment\n"])
            kt += rng.choice(["", "  ", "\t"]) + k_ + rng.choice(["", "", " trailing words", "\t# c"]) + "\n"
        ops.append(op_file("keys", kt))
        if rng.random() < 0.3:
            ops += [op_run("esl-afetch", ["-o", "out.txt"] + args + ["-f", "in.sto", "keys"]), "cat name=out.txt"]
        else:
            ops.append(op_run("esl-afetch", args + ["-f", "in.sto", "keys"]))
    else:
        key = forced_key or rng.choice([x for x in rng.choice(recs) if x])
        w = rng.random()
        if w < 0.15: ops += [op_run("esl-afetch", ["-o", "out.txt"] + args + ["in.sto", key]), "cat name=out.txt"]
        elif w < 0.3: ops += [op_run("esl-afetch", ["-O"] + args + ["in.sto", key]), "cat name=" + key]
        else: ops.append(op_run("esl-afetch", args + ["in.sto", key]))
    return {"name": "ref-afetchx-%d" % i, "ref": True, "sticky": 1, "ops": ops}


def _perturb_ss(rng, ss, seq):
    """a 'predicted' structure: the trusted one with some pairs removed, some slipped by one position (Mathews' rule), some added"""
    ss = list(ss)
    n = len(ss)
    stack, pairs = [], []
    for k, c in enumerate(ss):
        if c in "<([{": stack.append(k)
        elif c in ">)]}" and stack: pairs.append((stack.pop(), k))
    for (a, b) in pairs:
        w = rng.random()
        if w < 0.2: ss[a] = ss[b] = "."
        elif w < 0.4 and b + 1 < n and ss[b + 1] in ".:,_-~" and seq[b + 1] not in "-._~":
            ss[b + 1], ss[b] = ss[b], "."              # (i, j+1)
        elif w < 0.5 and a > 0 and ss[a - 1] in ".:,_-~" and seq[a - 1] not in "-._~":
            ss[a - 1], ss[a] = ss[a], "."              # (i-1, j)
    return "".join(ss)


def ref_compstruct(rng, i):
    """esl-compstruct --quiet [-m] [-p]: trusted vs predicted per-sequence structures (#=GR SS) of one or more alignment pairs;
    identical / perturbed / slipped predictions, pseudoknot letters, sequences without pairs (0/0 = -nan%), and every REJECTED
    branch: missing predicted / trusted structure, other name, other length, unbalanced structure"""
    nali = rng.choice([1, 1, 2])
    ktext = ttext = ""
    for a in range(nali):
        rows, abc = wide_rows(rng, abc="ACGU", nseq=rng.choice([1, 2, 3, 5]), alen=rng.choice([6, 20, 45, 61, 130]), longnames=rng.random() < 0.3)
        alen = len(rows[0][1])
        kss, tss, trows = {}, {}, list(rows)
        for k, (n, s_) in enumerate(rows):
            ss = balanced_ss(rng, alen)
            # a pair must sit on two residues: gap columns carry '.'
            ssl = list(ss); st = []
            for c_, ch in enumerate(ssl):
                if ch in "<([{": st.append(c_)
                elif ch in ">)]}":
                    o = st.pop()
                    if s_[o] in "-._~" or s_[c_] in "-._~": ssl[o] = ssl[c_] = "."
            ss = "".join(ssl)
            if rng.random() < 0.2 and alen >= 6:       # a pseudoknot: A..a on residues
                free = [c_ for c_ in range(alen) if ss[c_] in ".:,_-~" and s_[c_] not in "-._~"]
                if len(free) >= 2:
                    x, y = sorted(rng.sample(free, 2)); ssl = list(ss); ssl[x], ssl[y] = "A", "a"; ss = "".join(ssl)
            if rng.random() < 0.1: ss = "." * alen      # no pairs at all
            kss[k] = ss
            w = rng.random()
            tss[k] = ss if w < 0.3 else _perturb_ss(rng, ss, s_)
            w = rng.random()
            if w < 0.05: del tss[k]
            elif w < 0.10: del kss[k]
            elif w < 0.15: trows[k] = (n + "x", s_)
            elif w < 0.18 and "-" in s_: trows[k] = (n, s_.replace("-", "A", 1))                 # test sequence one residue longer
            elif w < 0.20 and alen > 1:                                                       # ... or one residue shorter
                j_ = next((c_ for c_ in range(alen) if s_[c_] not in "-._~" and tss.get(k, "." * alen)[c_] in ".:,_-~"), None)
                if j_ is not None: trows[k] = (n, s_[:j_] + "-" + s_[j_ + 1:])
            elif w < 0.25: tss[k] = "<" + tss[k][1:].replace(">", ".", 1) if alen > 1 else tss[k]
            elif w < 0.30: kss[k] = ">" + kss[k][1:]
        if not kss: kss[0] = "." * alen
        if not tss: tss[0] = "." * alen
        cpl = rng.choice([alen, 200, 50])
        ktext += sto_text_blocks(rows, cpl, grss=kss, ident=rng.choice([None, "k%d" % a]))
        ttext += sto_text_blocks(trows, rng.choice([alen, cpl]), grss=tss)
    if rng.random() < 0.2:
        ttext += sto_text_blocks([("extra", "ACGU")], 4)          # more alignments in the test file than in the trusted one: not read
    args = ["--quiet"] + [o for o in ("-m", "-p") if rng.random() < 0.5]
    return {"name": "ref-compstruct-%d" % i, "ref": True, "sticky": 2,
            "ops": [op_file("k.sto", ktext), op_file("t.sto", ttext), op_run("esl-compstruct", args + ["k.sto", "t.sto"])]}


def _multi_sto(rng, abc, nali=None, annotate=True, pfam=False, dup=False):
    """a Stockholm / Pfam file of 2-4 alignments of different shapes (number of sequences, width, name lengths, annotation)"""
    text = ""
    for a in range(nali or rng.choice([2, 2, 3, 4])):
        rows, _ = wide_rows(rng, abc=abc, nseq=rng.choice([1, 2, 3, 5, 8]), alen=rng.choice([3, 11, 40, 61, 130, 205]), gaps=rng.choice(["-", "-.", "-._"]))
        rows = [("%s.%d" % (n, a + 1), s_) for n, s_ in rows]
        if rng.random() < 0.3: rows = [(n, "".join(c.lower() if rng.random() < 0.2 else c for c in s_)) for n, s_ in rows]
        if dup and len(rows) > 2: rows[2] = (rows[2][0], rows[0][1])         # identical sequences: something for the filters to remove
        alen = len(rows[0][1])
        rf = ss = None
        if annotate and rng.random() < 0.4:
            rf = "".join("x" if rng.random() < 0.7 else "." for _ in range(alen))
            if "x" not in rf: rf = "x" + rf[1:]
        if annotate and rng.random() < 0.3: ss = balanced_ss(rng, alen)
        text += sto_text_blocks(rows, alen if pfam else rng.choice([alen, 200, 50]), rf=rf, sscons=ss,
                                desc=({0: "a description"} if annotate and rng.random() < 0.3 else None),
                                ident=(rng.choice([None, "aln%d" % (a + 1)]) if annotate else None))
    return text


def ref_multi_ali(rng, i):
    """esl-alipid / esl-alirev / esl-weight on files that hold SEVERAL alignments of different shapes: these tools loop over every
    alignment of the file, and the complete stdout is predicted (state carried from one alignment to the next shows as a difference)"""
    tool = rng.choice(["esl-alipid", "esl-alirev", "esl-weight", "easel alistat"])
    pfam = rng.random() < 0.3
    infmt = "pfam" if pfam else "stockholm"
    if tool == "easel alistat":      # the format is guessed (by content, then by the file name's suffix); -1 prints each record's size one iteration late
        abc = rng.choice([DNA, "ACGU", AMINO])
        text = _multi_sto(rng, abc, nali=rng.choice([1, 2, 3, 4]), pfam=pfam)
        if rng.random() < 0.3: text = text.replace("//\n", "//\n\n", 1)         # a blank line between two records belongs to the second one's span
        if rng.random() < 0.3: text += "\n\n"                                  # trailing blank lines count towards the last record
        fn = "in.pfam" if (pfam and rng.random() < 0.7) else rng.choice(["in.sto", "in.stk", "aln"])
        args = ["alistat", ABCFLAG[abc]] + (["-1"] if rng.random() < 0.6 else [])
        return {"name": "ref-multi-easel-alistat-%d" % i, "ref": True, "sticky": 1, "ops": [op_file(fn, text), op_run("easel", args + [fn])]}
    if tool == "esl-alirev":
        abc = rng.choice([DNA, "ACGU"])
        text = _multi_sto(rng, abc, pfam=pfam)
        args = [ABCFLAG[abc], "--informat", infmt]
        if rng.random() < 0.3: args += ["--outformat", rng.choice(["stockholm", "pfam"])]
    elif tool == "esl-alipid":
        abc = rng.choice([DNA, "ACGU", AMINO])
        text = _multi_sto(rng, abc, pfam=pfam)
        args = [ABCFLAG[abc], "--informat", infmt] + (["--noheader"] if rng.random() < 0.3 else [])
    else:
        abc = rng.choice([DNA, "ACGU", AMINO])
        text = _multi_sto(rng, abc, pfam=pfam, annotate=rng.random() < 0.5, dup=True)
        args = [ABCFLAG[abc], "--informat", infmt]
        w = rng.random()
        if w < 0.25: args.append("-p")
        elif w < 0.5: args += ["-b"] + (["--id", rng.choice(["0.62", "0.5", "0.9"])] if rng.random() < 0.5 else [])
        elif w < 0.7: args.append("-g")
        elif w < 0.9: args += ["-f"] + (["--idf", rng.choice(["0.8", "0.5", "1.0"])] if rng.random() < 0.6 else [])
    return {"name": "ref-multi-%s-%d" % (tool, i), "ref": True, "sticky": 1, "ops": [op_file("in.sto", text), op_run(tool, args + ["in.sto"])]}


def ref_alimask_pp(rng, i):
    """esl-alimask -p [-g]: masks from #=GR PP lines (fraction of sequences at or above --pthresh, average PP --pavg, #=GC PP_cons with
    --ppcons), all-gap columns (--pallgapok), with / without RF (--keepins), -o + verbose table, --pmask-rf/--pmask-all/--fmask-* files;
    a second alignment behind the first is ignored by the tool"""
    abc = rng.choice(["ACGU", DNA, AMINO])
    rows, _ = wide_rows(rng, abc=abc, nseq=rng.choice([1, 2, 3, 5, 8]), alen=rng.choice([5, 20, 61, 130, 205]), gaps=rng.choice(["-", "-.", "-."]))
    alen = len(rows[0][1])
    if rng.random() < 0.3:      # a column of gaps only
        k = rng.randrange(alen); rows = [(n, s_[:k] + "-" + s_[k + 1:]) for n, s_ in rows]
    hi = rng.random() < 0.5
    grpp = {k: "".join("." if c in "-._~" else rng.choice("*******9" if hi else "0123456789*") for c in s_) for k, (n, s_) in enumerate(rows)}
    rf = None
    if rng.random() < 0.5:
        rf = "".join(rng.choice("xxxX") if rng.random() < 0.7 else "." for _ in range(alen))
        if all(c == "." for c in rf): rf = "x" + rf[1:]
    text = sto_text_blocks(rows, rng.choice([alen, 200, 50]), rf=rf, grpp=grpp, ident=rng.choice([None, "aln1"]),
                           sscons=(balanced_ss(rng, alen) if rng.random() < 0.3 else None))
    args = ["-p"]
    w = rng.random()
    if w < 0.25: args += ["--pavg", rng.choice(["0.5", "0.9", "0.95", "0.96", "0.975", "0.3", "0.0", "1.0"])]   # 0.96/0.975: a column of '*' only averages 0.975
    elif w < 0.45:
        ppc = "".join(rng.choice("0123456789*") if any(s_[c] not in "-._~" for _, s_ in rows) else "." for c in range(alen))
        text = text.replace("//\n", "#=GC PP_cons   " + ppc + "\n//\n") if len(text.split("\n\n")) <= 3 else text
        if "#=GC PP_cons" in text: args += ["--ppcons", rng.choice(["0.5", "0.95", "0.85", "0.3", "0.0"])]
    else:
        if rng.random() < 0.6: args += ["--pthresh", rng.choice(["0.95", "0.9", "0.85", "0.5", "0.05", "0.0", "1.0", "0.3"])]
        if rng.random() < 0.6: args += ["--pfract", rng.choice(["0.95", "0.5", "1.0", "0.0", "0.7"])]
    if rng.random() < 0.3: args.append("--pallgapok")
    if rng.random() < 0.3: args += ["-g"] + (["--gapthresh", rng.choice(["0.5", "0.2", "0.9"])] if rng.random() < 0.5 else [])
    if rf and "--ppcons" not in args and rng.random() < 0.3: args.append("--keepins")
    cats = []
    if rng.random() < 0.5:
        args += ["-o", "out.ali"]; cats.append("cat name=out.ali")
        if rng.random() < 0.2: args.append("-q")
    for opt, f, need_rf in (("--pmask-all", "pa.out", False), ("--pmask-rf", "pr.out", True), ("--fmask-all", "fa.out", False), ("--fmask-rf", "fr.out", True)):
        if (rf or not need_rf) and rng.random() < 0.3:
            args += [opt, f]; cats.append("cat name=" + f)
    if rng.random() < 0.3: text += more_alignments(rng, abc, n=1)
    args += [ABCFLAG[abc], "--informat", "stockholm"]
    if rng.random() < 0.25: args += ["--outformat", rng.choice(["pfam", "afa", "clustal", "stockholm"])]
    # every sequence filtered away / a broken base pair in a kept column is a legitimate refusal
    return {"name": "ref-alimaskpp-%d" % i, "ref": True, "sticky": 1, "may_fail": True, "nopred_ok": True,
            "ops": [op_file("in.sto", text), op_run("esl-alimask", args + ["in.sto"])] + cats}


def _realign(rng, s_, rf):
    """the same residues placed differently: each residue moves to a neighbouring gap with a small probability"""
    l = list(s_)
    for k in range(len(l) - 1):
        if rng.random() < 0.15:
            if l[k] not in "-." and l[k + 1] in "-.": l[k], l[k + 1] = l[k + 1], l[k]
            elif l[k] in "-." and l[k + 1] not in "-.": l[k], l[k + 1] = l[k + 1], l[k]
    return "".join(l)


def ref_compalign(rng, i):
    """esl-compalign [-c]: a test alignment of the same sequences against the trusted one (same number of RF consensus columns, residues
    shifted between match and insert columns), 1-3 alignment pairs per file (the name column never shrinks again), sequences without
    residues in insert columns (0/0 = -nan in the totals), long names"""
    abc = rng.choice(["ACGU", DNA, AMINO])
    nali = rng.choice([1, 1, 2, 3])
    want_pp = rng.random() < 0.4
    ktext = ttext = ""
    for a in range(nali):
        rows, _ = wide_rows(rng, abc=abc, nseq=rng.choice([1, 2, 3, 5]), alen=rng.choice([6, 20, 45, 61, 130]), longnames=rng.random() < 0.4, gaps=rng.choice(["-", "-."]))
        rows = [("%s.%d" % (n, a + 1), s_) for n, s_ in rows]
        alen = len(rows[0][1])
        rf = "".join("x" if rng.random() < rng.choice([0.7, 1.0]) else "." for _ in range(alen))
        if "x" not in rf: rf = "x" + rf[1:]
        w = rng.random()
        trows = rows if w < 0.25 else [(n, _realign(rng, s_, rf)) for n, s_ in rows]
        trf = rf
        if rng.random() < 0.3:      # the test alignment has another width: a gap column inserted (not an RF column)
            k = rng.randrange(alen + 1); trows = [(n, s_[:k] + "-" + s_[k:]) for n, s_ in trows]; trf = trf[:k] + "." + trf[k:]
        grpp = None
        if want_pp:      # -p: every test sequence carries a PP line, a class under every residue
            grpp = {k: "".join("." if c in "-._~" else rng.choice("0123456789****") for c in s_) for k, (n, s_) in enumerate(trows)}
        ktext += sto_text_blocks(rows, rng.choice([alen, 200, 50]), rf=rf, ident=rng.choice([None, "k%d" % a]))
        ttext += sto_text_blocks(trows, rng.choice([len(trf), 200, 50]), rf=trf, grpp=grpp)
    args = [ABCFLAG[abc]] + (["-c"] if rng.random() < 0.35 else []) + (["-p"] if want_pp and rng.random() < 0.85 else [])
    return {"name": "ref-compalign-%d" % i, "ref": True, "sticky": 2,
            "ops": [op_file("k.sto", ktext), op_file("t.sto", ttext), op_run("esl-compalign", args + ["k.sto", "t.sto"])]}


def ref_weight(rng, i):
    rows, abc = ref_msa_rows(rng)
    if rng.random() < 0.15:
        rows = [(n, d, s * 4) for n, d, s in rows]          # alignment longer than one 200-column Stockholm block
    args = []
    w = rng.random()
    if w < 0.3: args.append("-p")
    elif w < 0.55:
        args.append("-b")
        if rng.random() < 0.6: args += ["--id", rng.choice(["0.62", "0.5", "0.9", "1.0", "0.25", "0"])]
    elif w < 0.7: args.append("-g")
    elif w < 0.85:
        args.append("-f")
        if rng.random() < 0.7: args += ["--idf", rng.choice(["0.8", "0.5", "0.9", "1.0", "0.62", "0.25"])]
        if len(rows) > 2 and rng.random() < 0.5:
            rows[2] = (rows[2][0], rows[2][1], rows[0][2])
    args += ["--informat", "afa", ABCFLAG[abc], "in.afa"]
    return _with_o(rng, {"name": "ref-weight-%d" % i, "ref": True, "sticky": 1,
            "ops": [op_file("in.afa", ref_fasta_text(rng, rows)), op_run("esl-weight", args)]}, "esl-weight", args)


def ref_filter(rng, i):
    rows, abc = ref_msa_rows(rng)
    if rng.random() < 0.4 and len(rows) > 2:     # near-duplicates so that something is actually removed
        rows[2] = (rows[2][0], rows[2][1], rows[0][2])
        rows[-1] = (rows[-1][0], rows[-1][1], rows[0][2][:-1] + rows[1][2][-1:])
    maxid = rng.choice(["0.8", "0.5", "0.9", "1.0", "0.62", "0.25", "0.99"])
    return {"name": "ref-filter-%d" % i, "ref": True, "sticky": 1,
            "ops": [op_file("in.afa", ref_fasta_text(rng, rows)), op_run("easel", ["filter", "--informat", "afa", ABCFLAG[abc], maxid, "in.afa"])]}


def ref_index(rng, i):
    recs, abc = ref_records(rng, nseq=rng.choice([1, 2, 5, 11]), maxlen=100)
    opts, key = [], None
    if rng.random() < 0.5:       # UniProt-style names db|acc|id: -u indexes the id, -u -a also the accession, as secondary keys
        recs = [("%s|P%05d|ID%d_%s" % (rng.choice(["sp", "tr"]), 100 + k, k, rng.choice(["HUMAN", "YEAST"])), d, s_) for k, (n, d, s_) in enumerate(recs)]
        if rng.random() < 0.2: recs[0] = ("plain0", recs[0][1], recs[0][2])
        opts = rng.choice([["-u"], ["-u", "-a"], ["-a", "-u"], []])
        cand = [r for r in recs if "|" in r[0]]
        if opts and cand:
            parts = rng.choice(cand)[0].split("|")
            key = parts[2] if (len(opts) == 1 or rng.random() < 0.5) else parts[1]
    name = key or rng.choice(recs)[0]
    return {"name": "ref-index-%d" % i, "ref": True, "sticky": 1,
            "ops": [op_file("in.fa", fasta_text(recs, rng.choice([60, 50, 7]))), op_run("easel", ["index"] + opts + ["in.fa"]),
                    op_run("esl-sfetch", ["in.fa", name])]}      # the index just written must be usable, secondary keys too


def _sto_rows(rng, rf=True):
    abc = rng.choice(["ACGU", DNA, AMINO])
    rows, _ = gen_msa(rng, abc=abc, nseq=rng.choice([2, 3, 4, 6, 9]), alen=rng.choice([5, 10, 33, 60, 61, rng.randrange(2, 120)]))
    rows = [("%s%d" % (rng.choice(["s", "seq", "x_"]), k + 1), s) for k, (n, s) in enumerate(rows)]
    return rows, abc


def ref_alimask(rng, i):
    """esl-alimask -t <a>-<b> keeps exactly columns a..b; esl-alimask -g --gapthresh x keeps exactly the columns whose gap
    fraction is <= x. The output (Stockholm) is converted to afa by esl-reformat and compared with the recomputed rows."""
    rows, abc = _sto_rows(rng)
    alen = len(rows[0][1])
    text = stockholm_text(rows, rng, rf=rng.random() < 0.5, ss=False)
    flag = ABCFLAG[abc]
    mode_ = rng.random()
    if mode_ < 0.3:
        a = rng.randrange(1, alen + 1); b = rng.randrange(a, alen + 1)
        want = [(n, s[a - 1:b]) for n, s in rows]
        args = ["-t", flag, "in.sto", "%d%s%d" % (a, rng.choice(["-", ".."]), b)]
        kind = "t"
    elif mode_ < 0.5:           # mask file: one 0/1 character per alignment column
        m = "".join(rng.choice("01") for _ in range(alen))
        if "1" not in m: m = "1" + m[1:]
        want = [(n, "".join(s_[c] for c in range(alen) if m[c] == "1")) for n, s_ in rows]
        text = stockholm_text(rows, rng, rf=False, ss=False)
        return {"name": "ref-alimask-%d-m" % i, "ref": True, "nopred_ok": True, "sticky": 1, "roundtrip": want,
                "ops": [op_file("in.sto", text), op_file("maskfile", m + "\n"), op_run("esl-alimask", [flag, "in.sto", "maskfile"]), "save name=mid",
                        op_run("esl-reformat", ["--informat", "stockholm", "afa", "mid"])]}
    elif mode_ < 0.65:          # --rf-is-mask: keep the non-gap #=GC RF columns
        rfline = "".join("x" if rng.random() < 0.7 else "." for _ in range(alen))
        if "x" not in rfline: rfline = "x" + rfline[1:]
        want = [(n, "".join(s_[c] for c in range(alen) if rfline[c] == "x")) for n, s_ in rows]
        w_ = max(len(n) for n, _ in rows) + 2
        text = stockholm_text(rows, rng, rf=False, ss=False).replace("//\n", "#=GC RF".ljust(w_ + 8) + rfline + "\n//\n")
        return {"name": "ref-alimask-%d-rf" % i, "ref": True, "nopred_ok": True, "sticky": 1, "roundtrip": want,
                "ops": [op_file("in.sto", text), op_run("esl-alimask", ["--rf-is-mask", flag, "in.sto"]), "save name=mid",
                        op_run("esl-reformat", ["--informat", "stockholm", "afa", "mid"])]}
    else:
        nseq = len(rows)
        k = rng.randrange(0, nseq + 1)
        x = min(1.0, (k + 0.5) / nseq)
        rfline = None
        if rng.random() < 0.5:       # with #=GC RF annotation only the non-gap RF columns are eligible (no --keepins)
            rfline = "".join("x" if rng.random() < 0.8 else "." for _ in range(alen))
            if "x" not in rfline: rfline = "x" + rfline[1:]
        keep = [c for c in range(alen) if sum(1 for n, s in rows if s[c] == "-") / nseq <= x and (rfline is None or rfline[c] == "x")]
        if not keep:
            x = 1.0
            keep = [c for c in range(alen) if rfline is None or rfline[c] == "x"]
        want = [(n, "".join(s[c] for c in keep)) for n, s in rows]
        text = stockholm_text(rows, rng, rf=False, ss=False)
        if rfline is not None:
            w_ = max(len(n) for n, _ in rows) + 2
            text = text.replace("//\n", "#=GC RF".ljust(w_ + 8) + rfline + "\n//\n")
        args = ["-g", "--gapthresh", "%.4f" % x, flag, "in.sto"]
        kind = "g"
    return {"name": "ref-alimask-%d-%s" % (i, kind), "ref": True, "nopred_ok": True, "sticky": 1, "roundtrip": want,
            "ops": [op_file("in.sto", text), op_run("esl-alimask", args), "save name=mid",
                    op_run("esl-reformat", ["--informat", "stockholm", "afa", "mid"])]}


def ref_alimanip(rng, i):
    """esl-alimanip --seq-k / --seq-r <list>: exactly the listed sequences are kept / removed, in alignment order;
    --lmin / --lmax <n>: exactly the sequences whose unaligned length is >= / <= n are kept"""
    rows, abc = _sto_rows(rng)
    text = stockholm_text(rows, rng, rf=rng.random() < 0.5, ss=False)
    flag = ABCFLAG[abc]
    ops = [op_file("in.sto", text)]
    w = rng.random()
    if w < 0.5:
        names = [n for n, _ in rows]
        sel = [n for n in names if rng.random() < 0.5] or [names[0]]
        if len(sel) == len(names): sel = sel[:-1]
        lst = list(sel); rng.shuffle(lst)
        ops.append(op_file("list", "\n".join(lst) + "\n"))
        if rng.random() < 0.5:
            args = ["--seq-k", "list", flag, "in.sto"]; want = [(n, s) for n, s in rows if n in sel]
        else:
            args = ["--seq-r", "list", flag, "in.sto"]; want = [(n, s) for n, s in rows if n not in sel]
    else:
        lens = sorted(len(s.replace("-", "")) for _, s in rows)
        cut = rng.choice(lens)
        if rng.random() < 0.5:
            args = ["--lmin", str(cut), flag, "in.sto"]; want = [(n, s) for n, s in rows if len(s.replace("-", "")) >= cut]
        else:
            args = ["--lmax", str(cut), flag, "in.sto"]; want = [(n, s) for n, s in rows if len(s.replace("-", "")) <= cut]
    ops += [op_run("esl-alimanip", args), "save name=mid", op_run("esl-reformat", ["--informat", "stockholm", "afa", "mid"])]
    return {"name": "ref-alimanip-%d" % i, "ref": True, "nopred_ok": True, "sticky": 1, "roundtrip": want, "ops": ops}



# ---------------------------------------------------------------------------------------------------------------
# option sweep: for every reference-modelled tool, every option of its ESL_OPTIONS table (parsed from the working tree)
# that the reference function can express is exercised ALONE and in PAIRS, on inputs of the shape where it matters
# ---------------------------------------------------------------------------------------------------------------
def show_op(op):
    kv = dict(w.split("=", 1) for w in op.split()[1:] if "=" in w)
    if op.startswith("run "):
        a = kv.get("args", "-")
        argv = bytes.fromhex(a).decode("latin-1").split("\0") if a != "-" else []
        return "%s %s" % (kv.get("tool"), " ".join(argv))
    return op[:120]


def wide_rows(rng, abc=None, nseq=None, alen=None, longnames=True, gaps="-"):
    """alignment rows of the shape where layout options matter: wider than one output block (60 columns for
    PHYLIP/Clustal/SELEX/afa, 200 for Stockholm), several sequences, names longer than the default name widths"""
    abc = abc or rng.choice([DNA, "ACGU", AMINO])
    nseq = nseq or rng.choice([2, 3, 4, 6])
    alen = alen or rng.choice([7, 59, 60, 61, 75, 119, 120, 121, 130, 199, 200, 201, 260, 405])
    rows, _ = gen_msa(rng, abc=abc, nseq=nseq, alen=alen, gapfrac=rng.choice([0.0, 0.1, 0.3]))
    names = []
    for k in range(nseq):
        w = rng.random()
        if longnames and w < 0.35:
            nm = "%s_%d" % (rng.choice(["a_rather_long_sequence_name", "third.seq/1-80", "seq_two_long", "Q9XYZ1_HUMAN/12-345"]), k + 1)
        elif w < 0.6:
            nm = "%s%d" % (rng.choice(["seq", "tRNA", "x_"]), k + 1)
        else:
            nm = "%s%d" % (rng.choice(["s", "Q"]), k + 1)
        names.append(nm)
    out = []
    for (n, s_), nm in zip(rows, names):
        if len(gaps) > 1:
            s_ = "".join(rng.choice(gaps) if c == "-" and rng.random() < 0.3 else c for c in s_)
        out.append((nm, s_))
    return out, abc


def balanced_ss(rng, alen, kh=False):
    """a nested structure line in WUSS (<>, (), [], {} with . : , _ - ~ unpaired) or in the old KH notation (> < .)"""
    ss = ["."] * alen
    i, j = 0, alen - 1
    opens = "<([{" if not kh else ">"
    closes = {"<": ">", "(": ")", "[": "]", "{": "}", ">": "<"}
    while i + 1 < j:
        w = rng.random()
        if w < 0.45:
            o = rng.choice(opens); ss[i] = o; ss[j] = closes[o]; i += 1; j -= 1
        elif w < 0.7: i += 1
        elif w < 0.95: j -= 1
        else: break
    if not kh:
        ss = [rng.choice(".:,_-~") if c == "." and rng.random() < 0.3 else c for c in ss]
    return "".join(ss)


def sto_text_blocks(rows, cpl, rf=None, sscons=None, grss=None, desc=None, ident=None, grpp=None):
    """Stockholm text in blocks of <cpl> columns (cpl >= alen: one block, i.e. Pfam)"""
    alen = len(rows[0][1])
    w = max([len(n) for n, _ in rows] + [12]) + 2
    out = ["# STOCKHOLM 1.0"]
    if ident: out.append("#=GF ID " + ident)
    for k, d in (desc or {}).items():
        out.append("#=GS %s DE %s" % (rows[k][0], d))
    out.append("")
    for pos in range(0, alen, cpl):
        if pos: out.append("")
        for k, (n, s_) in enumerate(rows):
            out.append(n.ljust(w) + " " + s_[pos:pos + cpl])
            if grss and k in grss:
                out.append(("#=GR %s SS" % n).ljust(w) + " " + grss[k][pos:pos + cpl])
            if grpp and k in grpp:
                out.append(("#=GR %s PP" % n).ljust(w) + " " + grpp[k][pos:pos + cpl])
        if sscons: out.append("#=GC SS_cons".ljust(w) + " " + sscons[pos:pos + cpl])
        if rf: out.append("#=GC RF".ljust(w) + " " + rf[pos:pos + cpl])
    out.append("//")
    return "\n".join(out) + "\n"


def more_alignments(rng, abc, names=None, rf=False, sscons=False, pfam=False, kh=False, n=None, gaps="-"):
    """text of 1-2 FURTHER Stockholm alignments of other shapes (other width, other rows; the same sequence names when <names>
    is given, the same kinds of annotation): whatever a tool carries over from one alignment to the next shows in its output"""
    out = ""
    for a in range(n or rng.choice([1, 1, 2])):
        rows, _ = wide_rows(rng, abc=abc, nseq=(len(names) if names else rng.choice([1, 2, 4, 7])), alen=rng.choice([4, 9, 40, 61, 77, 205]), gaps=gaps)
        if names: rows = [(nm, s_) for nm, (_, s_) in zip(names, rows)]
        else: rows = [("%s.%d" % (nm, a + 2), s_) for nm, s_ in rows]
        alen = len(rows[0][1])
        rfl = None
        if rf:
            rfl = "".join("x" if rng.random() < 0.7 else "." for _ in range(alen))
            if "x" not in rfl: rfl = "x" + rfl[1:]
        ss = balanced_ss(rng, alen, kh) if sscons else None
        out += sto_text_blocks(rows, alen if pfam else rng.choice([alen, 200, 50]), rf=rfl, sscons=ss, ident=rng.choice([None, "aln%d" % (a + 2)]))
    return out


def sweep_input_msa(rng, want_ss=None, want_rf=None, via_ok=True, kh=False, abc=None, alen=None, multi=False):
    """-> (ops creating the input file 'in.x', informat, info) : aligned FASTA, Stockholm in 200- or other-width blocks, Pfam,
    or (via) any other alignment format produced from aligned FASTA by the tool itself (that run is predicted too)"""
    w = rng.random()
    rows, abc = wide_rows(rng, abc=abc, alen=alen, gaps=rng.choice(["-", "-", "-.", "-._", "-.~"]))
    if rng.random() < 0.3:
        rows = [(n, "".join(c.lower() if rng.random() < 0.2 else c for c in s_)) for n, s_ in rows]
    alen = len(rows[0][1])
    info = {"rows": rows, "abc": abc}
    need_sto = want_ss or want_rf
    if need_sto or w < 0.4:
        rf = None
        if want_rf or (want_rf is None and rng.random() < 0.4):
            rf = "".join("x" if rng.random() < 0.7 else "." for _ in range(alen))
            if "x" not in rf: rf = "x" + rf[1:]
        sscons = balanced_ss(rng, alen, kh) if (want_ss or (want_ss is None and rng.random() < 0.3)) else None
        grss = {0: balanced_ss(rng, alen, kh)} if (sscons and rng.random() < 0.4) else None
        desc = {0: "a description"} if rng.random() < 0.3 else None
        cpl = rng.choice([alen, alen, 200, 200, 50, 77])
        text = sto_text_blocks(rows, max(1, cpl), rf=rf, sscons=sscons, grss=grss, desc=desc, ident=rng.choice([None, "aln1"]))
        info.update(rf=rf, sscons=sscons)
        as_pfam = cpl >= alen and rng.random() < 0.5
        if multi and rng.random() < 0.4:
            more = more_alignments(rng, abc, rf=bool(rf), sscons=bool(sscons), pfam=as_pfam, kh=kh)
            text += more; info["nali"] = 1 + more.count("# STOCKHOLM 1.0")
        return [op_file("in.x", text)], ("pfam" if as_pfam else "stockholm"), info
    if w < 0.7 or not via_ok:
        recs = [(n, rng.choice(["", "", "desc here"]), s_) for n, s_ in rows]
        return [op_file("in.x", ref_fasta_text(rng, recs))], "afa", info
    fmt = rng.choice(["clustal", "clustallike", "phylip", "phylips", "selex", "psiblast", "a2m", "stockholm", "pfam"])
    if fmt in ("phylip", "phylips"):       # strict PHYLIP input: the reader takes exactly ten name columns
        rows = [(n[:10].ljust(1, "x"), s_) for n, s_ in rows]
        if len(set(n for n, _ in rows)) < len(rows):
            rows = [("n%d" % (k + 1), s_) for k, (n, s_) in enumerate(rows)]
        info["rows"] = rows
    return [op_file("in.afa", afa_text(rows)), op_run("esl-reformat", ["--informat", "afa", fmt, "in.afa"]), "save name=in.x"], fmt, info


def _opt_words(name, val):
    return [name] if val is None else [name, val]


class Sweep:
    """tool: entry point; values: {option: fn(rng) -> value | None (flag)} = what the reference function can express;
    skip: {option: reason} = in the table but not expressible (listed in the evidence);
    build(rng, opts) -> case (opts = [(name, value)]); shapes: how many inputs per single option"""
    def __init__(self, tool, values, skip, build, singles=3, pair_reps=1, always=(), no_pair=()):
        self.tool, self.values, self.skip, self.build, self.singles, self.pair_reps, self.always = tool, values, skip, build, singles, pair_reps, always
        self.no_pair = set(frozenset(x) for x in no_pair)       # pairs the table allows but the reference does not define


def _table_opts(ctx, tool):
    return {o["name"]: o for o in ctx.c13_tables[tool]["options"]}


def _conflict(tab, names):
    """the table forbids this combination (incompatible options / missing required option) -> the tool must reject it"""
    on = set(names)
    for n in names:
        o = tab.get(n)
        if not o: continue
        for x in (o.get("incomp") or "").split(","):
            if x.strip() and x.strip() in on and x.strip() != n: return True
        for x in (o.get("reqs") or "").split(","):
            x = x.strip()
            if x and x not in on and (tab.get(x) or {}).get("default") in (None, "FALSE", "NULL", "0"):
                return True          # a required option that is neither given nor on by default
    return False


def sweep_tool(ctx, sw):
    rng = ctx.rng
    tab = _table_opts(ctx, sw.tool)
    names = [n for n in tab if n in sw.values]
    unknown = [n for n in tab if n not in sw.values and n not in sw.skip and n not in ("-h", "--help", "--stall", "--version", "--devhelp")]
    st = ctx.c13_stats.setdefault("sweep", {}).setdefault(sw.tool, {})
    st.update(options_in_table=len(tab), expressible=sorted(names), not_expressible={k: v for k, v in sw.skip.items() if k in tab},
              not_classified=unknown, singles=0, pairs=0, rejected_pairs=0)
    out = []

    def mk(opts, tag):
        c = sw.build(rng, opts)
        if c is None: return
        on = c.pop("on", None) or ([n for n, _ in opts] + list(sw.always))
        c["name"] = "sweep-%s-%s-%d" % (sw.tool.replace(" ", "_"), tag, len(out))
        c["ref"] = True
        c.setdefault("sticky", len(c["ops"]))
        if _conflict(tab, on):
            c["expect_err"] = True; c["nopred_ok"] = True; c["may_fail"] = True
            st["rejected_pairs"] += 1
        out.append(c)

    mk([], "none")
    for n in names:
        for _ in range(sw.singles):
            mk([(n, sw.values[n](rng))], "1" + n.lstrip("-")); st["singles"] += 1
    for i in range(len(names)):
        for j in range(i + 1, len(names)):
            ta, tb = tab[names[i]].get("toggles"), tab[names[j]].get("toggles")
            if (ta and tb and ta == tb) or frozenset((names[i], names[j])) in sw.no_pair:
                st["pairs_left_out"] = st.get("pairs_left_out", 0) + 1       # same toggle group (C14's subject) / undefined by the reference
                continue
            for _ in range(sw.pair_reps):
                a, b = names[i], names[j]
                if rng.random() < 0.5: a, b = b, a
                mk([(a, sw.values[a](rng)), (b, sw.values[b](rng))], "2" + a.lstrip("-") + "+" + b.lstrip("-")); st["pairs"] += 1
    return out


# ---- esl-reformat ---------------------------------------------------------------------------------------------
def _reformat_build(rng, opts):
    on = dict(opts)
    wuss = [n for n in ("--wussify", "--dewuss", "--fullwuss") if n in on]
    want_ss = True if wuss else None
    want_rf = True if "--keeprf" in on else None
    forced_fmt = "<outfmt>" in on
    outfmt = on.pop("<outfmt>", None) or rng.choice(MSAFORMATS + ["fasta", "fasta"])    # fasta: the tool's sequence branch over an alignment file
    alen = on.pop("<alen>", None)
    if "--namelen" in on and rng.random() < 0.7 and outfmt not in ("phylip", "phylips"):
        outfmt = rng.choice(["phylip", "phylips"])
    ops, infmt, info = sweep_input_msa(rng, want_ss=want_ss, want_rf=want_rf, kh=("--wussify" in on), alen=alen, multi=True)
    multi_refused = False
    if info.get("nali", 1) > 1 and outfmt not in ("stockholm", "pfam", "fasta"):
        if not forced_fmt and rng.random() < 0.75: outfmt = rng.choice(["stockholm", "pfam", "fasta"])
        else: multi_refused = True         # ">1 alignments, but <fmt> formatted output file can only contain 1": the first is written, then exit 1
    args = []
    for n, v in opts:
        if n.startswith("<"): continue
        args += _opt_words(n, v)
    args += ["--informat", infmt, outfmt, "in.x"]
    c = {"ops": ops + [op_run("esl-reformat", args)], "sticky": len(ops)}
    if "--wussify" in on and ("--mingap" in on or "--nogap" in on):
        # old-notation structure lines are not WUSS: the base-pair repair of the column removal refuses them (exit 1 + message)
        c["may_fail"] = True; c["nopred_ok"] = True
    if multi_refused:
        c["may_fail"] = True; c["nopred_ok"] = True
    if "--fullwuss" in on and outfmt == "fasta":
        # unaligned output: the per-sequence structure line is dealigned with its sequence (a pair can lose one partner) before
        # esl_wuss_full() sees it: "Bad SS for <name>: not in WUSS format" + exit 1 is a legitimate outcome (the reference says none)
        c["may_fail"] = True; c["nopred_ok"] = True
    if rng.random() < 0.1:
        c["ops"][-1] = op_run("esl-reformat", ["-o", "out.txt"] + args); c["ops"].append("cat name=out.txt")
    return c


REFORMAT_SWEEP = Sweep("esl-reformat",
    values={"-d": lambda r: None, "-l": lambda r: None, "-n": lambda r: None, "-r": lambda r: None, "-u": lambda r: None, "-x": lambda r: None,
            "--gapsym": lambda r: r.choice([".", "_", "x", "~", "*"]), "--mingap": lambda r: None, "--keeprf": lambda r: None, "--nogap": lambda r: None,
            "--wussify": lambda r: None, "--dewuss": lambda r: None, "--fullwuss": lambda r: None,
            "--rename": lambda r: r.choice(["new", "s", "x.y", "a_long_new_name"]),
            "--replace": lambda r: r.choice(["A:x", "AC:ca", "acgt:ACGT", "N:n", "XYZ:NNN", ".:-", "_.:--"]),
            "--namelen": lambda r: r.choice(["1", "5", "10", "10", "14", "25", "40"])},
    skip={"-o": "exercised on a tenth of the cases (output file compared instead of stdout)", "--informat": "always given",
          "--ignore": "alignment output: refused at run time (corpus); FASTA input -> fasta: modelled and exercised by ref_reformat (input-map edit of the sequence reader)",
          "--acceptx": "as --ignore", "--small": "modelled line by line (Miniapps/Small.lean) and compared exactly by ref_small",
          "--id_map": "hmmpgmd output only: map file compared by the python monitor (ref_hmmpgmd)"},
    build=_reformat_build, singles=4, pair_reps=1)


def reformat_grid_cases(ctx):
    """all output formats x --namelen x alignment widths around one output block (PHYLIP 60, Stockholm 200)"""
    rng = ctx.rng
    out = []
    for outfmt in MSAFORMATS + ["fasta"]:
        for nl in ([None, "10", "7", "25"] if outfmt in ("phylip", "phylips") else [None, "12"]):
            for alen in (60, 61, rng.choice([75, 120, 121, 150, 201, 260])):
                opts = ([("--namelen", nl)] if nl else []) + [("<outfmt>", outfmt), ("<alen>", alen)]
                c = _reformat_build(rng, opts)
                c.update(name="sweep-esl-reformat-grid-%s-%s-%d" % (outfmt, nl, alen), ref=True)
                out.append(c)
    return out


SWEEPS = [REFORMAT_SWEEP]



# ---- the other reference-modelled tools ---------------------------------------------------------------------------
def _flag(r): return None


def _args_of(opts):
    a = []
    for n, v in opts:
        a += _opt_words(n, v)
    return a


def _seqstat_build(rng, opts):
    recs, abc = ref_records(rng, long_ok=True)
    on = [n for n, _ in opts]
    args = _args_of(opts)
    if not any(x in on for x in ("--dna", "--rna", "--amino")): args.append(ABCFLAG[abc])
    elif ABCFLAG[abc] not in on: return None
    return {"ops": [op_file("in.fa", ref_fasta_text(rng, recs, crlf_ok=True)), op_run("esl-seqstat", args + ["in.fa"])]}


def _abc_values(abcs=("--dna", "--rna", "--amino")):
    return {a: _flag for a in abcs}


SEQSTAT_SWEEP = Sweep("esl-seqstat", values={"-a": _flag, "-c": _flag, "--comptbl": _flag, "--informat": lambda r: "fasta", "--dna": _flag, "--rna": _flag, "--amino": _flag},
                      skip={}, build=_seqstat_build, singles=2)


def _ali_build(tool, abcs=(DNA, "ACGU", AMINO), fixed=()):
    def build(rng, opts):
        rows, abc = ref_msa_rows(rng, rng.choice(abcs))
        if rng.random() < 0.3: rows = [(n, d, s_ * 3) for n, d, s_ in rows]
        on = [n for n, _ in opts]
        flags = [x for x in ("--dna", "--rna", "--amino") if x in on]
        if flags and flags != [ABCFLAG[abc]]:
            if len(flags) > 1: pass                      # two alphabets: the table forbids it, the tool must refuse
            else: return None
        args = _args_of(opts)
        if not flags: args.append(ABCFLAG[abc])
        if "--informat" not in on: args += ["--informat", "afa"]
        c = {"ops": [op_file("in.afa", ref_fasta_text(rng, rows)), op_run(tool, list(fixed) + args + ["in.afa"])]}
        if len(flags) > 1: c.update(nopred_ok=True, may_fail=True)     # two alphabet flags: refused or resolved by the tool's own rule
        return c
    return build


ALIPID_SWEEP = Sweep("esl-alipid", values=dict({"--noheader": _flag, "--informat": lambda r: "afa"}, **_abc_values()),
                     skip={"--outformat": "declared in the table, never read by the tool"}, build=_ali_build("esl-alipid"), singles=2)
ALIREV_SWEEP = Sweep("esl-alirev", values=dict({"--informat": lambda r: "afa", "--outformat": lambda r: "afa"}, **_abc_values(("--dna", "--rna"))),
                     skip={}, build=_ali_build("esl-alirev", abcs=(DNA, "ACGU")), singles=2)
ALISTAT_SWEEP = Sweep("esl-alistat", values=dict({"-1": _flag, "--informat": lambda r: "afa"}, **_abc_values()),
                      skip={k: "per-column/per-sequence report written to a file: recomputed by the python monitor (ref_alistat_info)" for k in
                            ("--list", "--icinfo", "--rinfo", "--pcinfo", "--psinfo", "--iinfo", "--cinfo", "--bpinfo")} |
                           {"--small": "Pfam input only; same numbers (search)", "--noambig": "modifies --cinfo (monitor)", "--weight": "needs #=GS WT (search)"},
                      build=_ali_build("esl-alistat"), singles=2)


def _weight_build(rng, opts):
    c = _ali_build("esl-weight")(rng, opts)
    return c


WEIGHT_SWEEP = Sweep("esl-weight", values=dict({"-g": _flag, "-p": _flag, "-b": _flag, "-f": _flag, "--informat": lambda r: "afa",
                                                 "--id": lambda r: r.choice(["0.62", "0.5", "0.9", "1.0", "0.25", "0"]),
                                                 "--idf": lambda r: r.choice(["0.8", "0.5", "0.9", "1.0", "0.25"])}, **_abc_values()),
                     skip={"-o": "exercised by ref_weight (output file compared)"}, build=_weight_build, singles=2)


def _translate_build(rng, opts):
    c = ref_translate(rng, 0)
    run = c["ops"][-1]
    args = _args_of(opts)
    if "--informat" not in [n for n, _ in opts]: args += ["--informat", "fasta"]
    c["ops"][-1] = op_run("esl-translate", args + ["in.fa"])
    return {"ops": c["ops"]}


TRANSLATE_SWEEP = Sweep("esl-translate", values={"-c": lambda r: str(r.choice([1, 2, 3, 4, 5, 6, 9, 10, 11, 12, 13, 14, 16, 21, 22, 23, 24, 25])),
                                                 "-l": lambda r: str(r.choice([0, 1, 2, 5, 10, 20, 50])), "-m": _flag, "-M": _flag, "-W": _flag,
                                                 "--informat": lambda r: "fasta", "--watson": _flag, "--crick": _flag},
                        skip={}, build=_translate_build, singles=3, no_pair=[("--watson", "--crick")])


def _mask_build(rng, opts):
    on = dict(opts)
    recs, abc = ref_records(rng, maxlen=130, long_ok=True)
    mlines = []
    for n, d, s_ in recs[:rng.randrange(1, len(recs) + 1)]:
        L = len(s_)
        a = rng.choice([1, 2, L, L + 1, 0, -2, rng.randrange(1, L + 1), rng.randrange(-5, L + 10)])
        b = rng.choice([L, L - 1, 1, 0, L + 5, rng.randrange(1, L + 1), rng.randrange(-5, L + 10), a, a - 1])
        mlines.append("%s %d %d" % (n, a, b))
    args = _args_of(opts)
    if "--informat" not in on: args += ["--informat", "fasta"]
    ops = [op_file("in.fa", fasta_text(recs, rng.choice([60, 50, 11])) if "-R" in on else ref_fasta_text(rng, recs)), op_file("mask", "\n".join(mlines) + "\n")]
    if "-R" in on: ops.append(op_run("esl-sfetch", ["--index", "in.fa"]))
    return {"ops": ops + [op_run("esl-mask", args + ["in.fa", "mask"])]}


MASK_SWEEP = Sweep("esl-mask", values={"-r": _flag, "-R": _flag, "-l": _flag, "-m": lambda r: r.choice(["N", "x", "*", "Q"]),
                                       "-x": lambda r: str(r.choice([0, 1, 2, 5, 1000])), "--informat": lambda r: "fasta"},
                   skip={"-o": "exercised by ref_mask (output file compared)"}, build=_mask_build, singles=3)


def _shuffle_build(rng, opts):
    on = dict(opts)
    args = _args_of(opts)
    if "--seed" not in on: args += ["--seed", ref_seed(rng)]
    if "-G" in on:
        if "-L" not in on: args += ["-L", str(rng.choice([1, 59, 60, 61, 150]))]
        if not any(x in on for x in ("--dna", "--rna")): args.append(rng.choice(["--dna", "--rna"]))
        return {"ops": [op_run("esl-shuffle", args)], "on": list(on) + ["-L"]}
    if "-A" in on or "-b" in on:
        abc = rng.choice([DNA, "ACGU"])
        rows, _ = gen_msa(rng, abc=abc, nseq=rng.choice([3, 4, 6]), alen=rng.choice([30, 59, 60, 61, 100, 130]), gapfrac=rng.choice([0.0, 0.1, 0.2]))
        rows = [(n, "", s_) for n, s_ in rows]
        return {"ops": [op_file("in.afa", ref_fasta_text(rng, rows)), op_run("esl-shuffle", args + ["--informat", "afa", "in.afa"])]}
    recs, abc = ref_records(rng, maxlen=160, long_ok=True)
    if "--informat" not in on: args += ["--informat", "fasta"]
    return {"ops": [op_file("in.fa", ref_fasta_text(rng, recs, crlf_ok=True)), op_run("esl-shuffle", args + ["in.fa"])]}


SHUFFLE_SWEEP = Sweep("esl-shuffle", values={"-N": lambda r: str(r.choice([1, 2, 3, 5])), "-L": lambda r: str(r.choice([1, 2, 5, 10, 60, 100])),
                                             "-m": _flag, "-k": lambda r: str(r.choice([1, 2, 3, 7, 100])), "-r": _flag, "-w": lambda r: str(r.choice([1, 2, 10, 60, 1000])),
                                             "-b": _flag, "-A": _flag, "-G": _flag, "--seed": lambda r: ref_seed(r), "--informat": lambda r: "fasta"},
                      skip={"-d": "dinucleotide-preserving shuffle (C18 owns the model; not wired into the reference)", "-0": "as -d", "-1": "as -d",
                            "-v": "as -d", "-S": "as -d", "--amino": "-G with 20 letters: not wired", "--dna": "given with -G", "--rna": "given with -G",
                            "-o": "exercised by ref_shuffle (output file compared)"},
                      build=_shuffle_build, singles=2,
                      no_pair=[("-A", x) for x in ("-m", "-k", "-r", "-w", "-L", "--informat")] + [("-G", x) for x in ("-m", "-k", "-r", "-w", "-A", "-b", "--informat")]
                              + [("-b", x) for x in ("-m", "-k", "-r", "-w", "-L", "--informat", "-G")])

SWEEPS += [SEQSTAT_SWEEP, ALIPID_SWEEP, ALIREV_SWEEP, ALISTAT_SWEEP, WEIGHT_SWEEP, TRANSLATE_SWEEP, MASK_SWEEP, SHUFFLE_SWEEP]


# ---- esl-alimask ----------------------------------------------------------------------------------------------
def _alimask_build(rng, opts):
    on = dict(opts)
    have = set(on)
    if have & {"-t", "--t-rf", "--t-rmins"}: mode = "t"
    elif "--rf-is-mask" in have: mode = "rf"
    elif have & {"-g", "--gapthresh", "--gmask-rf", "--gmask-all", "--keepins"}: mode = "g"
    else: mode = rng.choice(["file", "file", "t", "g", "rf"])
    extra = []
    if mode == "t" and "-t" not in have: extra.append(("-t", None))
    if mode == "g" and "-g" not in have: extra.append(("-g", None))
    if mode == "rf" and "--rf-is-mask" not in have: extra.append(("--rf-is-mask", None))
    if "-q" in have and "-o" not in have: extra.append(("-o", "out.ali"))
    opts = extra + list(opts)
    on = dict(opts)
    need_rf = mode == "rf" or bool(set(on) & {"--t-rf", "--t-rmins", "--keepins", "--fmask-rf", "--gmask-rf"})
    abcflag = next((x for x in ("--dna", "--rna", "--amino") if x in on), None)
    abc = {"--dna": DNA, "--rna": "ACGU", "--amino": AMINO}.get(abcflag) or rng.choice(["ACGU", "ACGU", DNA, AMINO])
    rows, _ = wide_rows(rng, abc=abc, alen=rng.choice([7, 33, 60, 61, 130, 201, 230]), gaps=rng.choice(["-", "-.", "-."]))
    alen = len(rows[0][1])
    rf = None
    if need_rf or rng.random() < 0.5:
        rf = "".join(rng.choice("xxxxxXAa") if rng.random() < 0.7 else rng.choice("..-") for _ in range(alen))
        if all(c in ".-" for c in rf): rf = "x" + rf[1:]
    sscons = balanced_ss(rng, alen) if rng.random() < 0.6 else None
    grss = {0: balanced_ss(rng, alen)} if (sscons and rng.random() < 0.3) else None
    cpl = rng.choice([alen, 200, 50])
    text = sto_text_blocks(rows, cpl, rf=rf, sscons=sscons, grss=grss, ident=rng.choice([None, "aln1"]))
    if rng.random() < 0.3:      # esl-alimask works on the FIRST alignment of the file only
        text += more_alignments(rng, abc, rf=bool(rf), sscons=bool(sscons), n=1)
    ops = [op_file("in.sto", text)]
    args = []
    for n, v in opts:
        args += _opt_words(n, v)
    if "--informat" not in on: args += ["--informat", "stockholm"]
    pos = ["in.sto"]
    if mode == "file" and not (set(on) & {"-g", "--rf-is-mask", "-t"}):
        rflen = sum(1 for c in (rf or "") if c not in ".-_~*")
        mlen = rflen if (rf and rng.random() < 0.5) else alen
        mk_ = "".join(rng.choice("01") for _ in range(mlen))
        if "1" not in mk_: mk_ = "1" + mk_[1:]
        if rng.random() < 0.3: mk_ = "# a comment\n" + mk_[:mlen // 2] + "\n" + mk_[mlen // 2:]
        ops.append(op_file("maskfile", mk_ + "\n")); pos.append("maskfile")
    elif mode == "t":
        lim = sum(1 for c in rf if c not in ".-_~*") if (rf and "--t-rf" in on) else alen
        a = rng.randrange(1, lim + 1); b = rng.randrange(a, lim + 1)
        pos.append(rng.choice(["%d-%d" % (a, b), "%d..%d" % (a, b), "%d:" % a, "%d/%d" % (a, b)]))
    c = {"ops": ops + [op_run("esl-alimask", args + pos)], "on": list(on)}
    for k in ("-o", "--fmask-rf", "--fmask-all", "--gmask-rf", "--gmask-all"):
        if k in on: c["ops"].append("cat name=" + on[k])
    if ("--keepins" in on and mode != "g") or ("--amino" in on and abc != AMINO):
        c.update(may_fail=True, nopred_ok=True)
    return c


ALIMASK_SWEEP = Sweep("esl-alimask",
    values={"-t": _flag, "-g": _flag, "--rf-is-mask": _flag, "--t-rf": _flag, "--t-rmins": _flag, "--keepins": _flag, "-q": _flag,
            "--dna": _flag, "--rna": _flag, "--amino": _flag,
            "--gapthresh": lambda r: r.choice(["0.5", "0.0", "1.0", "0.25", "0.34", "0.75", "0.6"]),
            "--informat": lambda r: "stockholm", "--outformat": lambda r: r.choice(["stockholm", "pfam", "afa", "clustal", "selex", "phylip", "a2m", "psiblast"]),
            "-o": lambda r: "out.ali", "--fmask-rf": lambda r: "fm_rf.txt", "--fmask-all": lambda r: "fm_all.txt",
            "--gmask-rf": lambda r: "gm_rf.txt", "--gmask-all": lambda r: "gm_all.txt"},
    skip={k: "posterior-probability masks (-p): not modelled; search + ref_alimask monitor" for k in
          ("-p", "--pfract", "--pthresh", "--pavg", "--ppcons", "--pallgapok", "--pmask-rf", "--pmask-all")} | {"--small": "modelled (esl_msafile2_RegurgitatePfam) and compared exactly by ref_small"},
    build=_alimask_build, singles=3)

SWEEPS += [ALIMASK_SWEEP]


# ---- esl-alimanip ---------------------------------------------------------------------------------------------
ROWFILTERS = {"--lnfract", "--lxfract", "--lmin", "--lmax", "--rffract", "--detrunc", "--xambig", "--seq-k", "--seq-r", "--reorder"}


def _alimanip_build(rng, opts):
    on = dict(opts)
    abcflag = next((x for x in ("--dna", "--rna", "--amino") if x in on), None)
    abc = {"--dna": DNA, "--rna": "ACGU", "--amino": AMINO}.get(abcflag) or rng.choice(["ACGU", DNA, AMINO])
    rows, _ = wide_rows(rng, abc=abc, nseq=rng.choice([2, 3, 5, 8]), alen=rng.choice([7, 33, 61, 130, 201, 230]))
    deg = {DNA: "RYMKSWHBVDN", "ACGU": "RYMKSWHBVDN", AMINO: "BJZOUX"}[abc]
    rows = [(n, "".join(rng.choice(deg) if (c != "-" and rng.random() < 0.02) else c for c in s_)) for n, s_ in rows]
    if rng.random() < 0.5:      # truncated sequences: leading / trailing gaps
        k = rng.randrange(len(rows)); n, s_ = rows[k]; cut = rng.randrange(1, max(2, len(s_) // 2))
        rows[k] = (n, "-" * cut + s_[cut:]) if rng.random() < 0.5 else (n, s_[:-cut] + "-" * cut)
        if not rows[k][1].replace("-", ""): rows[k] = (n, s_)
    alen = len(rows[0][1])
    need_rf = bool(set(on) & {"--rffract", "--detrunc", "--num-rf"}) or on.get("--rm-gc") == "RF"
    rf = None
    if need_rf or rng.random() < 0.5:
        rf = "".join("x" if rng.random() < 0.7 else "." for _ in range(alen))
        if "x" not in rf: rf = "x" + rf[1:]
    sscons = balanced_ss(rng, alen) if (on.get("--rm-gc") == "SS_cons" or rng.random() < 0.4) else None
    grss = {0: balanced_ss(rng, alen)} if (sscons and rng.random() < 0.3) else None
    desc = {len(rows) - 1: "a description"} if rng.random() < 0.3 else None
    text = sto_text_blocks(rows, rng.choice([alen, 200, 50]), rf=rf, sscons=sscons, grss=grss, desc=desc, ident=rng.choice([None, "aln1"]))
    multi = rng.random() < 0.35
    if multi:      # further alignments with the same sequence names (the name lists must match every alignment) but other shapes
        text += more_alignments(rng, abc, names=[n for n, _ in rows], rf=bool(rf), sscons=bool(sscons))
    ops = [op_file("in.sto", text)]
    lens = sorted(len(s_.replace("-", "")) for _, s_ in rows)
    names = [n for n, _ in rows]
    args = []
    for n, v in opts:
        if v == "@list":
            if n == "--reorder":
                sel = list(names); rng.shuffle(sel)
            else:
                sel = [x for x in names if rng.random() < 0.5] or [names[0]]
                if n == "--seq-r" and len(sel) == len(names): sel = sel[:-1] or None
                if sel is None: return None
                rng.shuffle(sel)
            ops.append(op_file("list", rng.choice(["\n", " ", "\n\n", "\t"]).join(sel) + "\n")); v = "list"
        elif v == "@len": v = str(max(1, rng.choice(lens)))
        elif n == "--xambig":      # stay out of the known finding (every sequence removed aborts): at least one sequence must survive
            v = str(max(int(v), min(sum(1 for c in s_ if c in deg) for _, s_ in rows)))
        args += _opt_words(n, v)
    if "--k-reorder" in on and "--seq-k" not in on:
        sel = [x for x in names if rng.random() < 0.6] or [names[0]]; rng.shuffle(sel)
        ops.append(op_file("list", "\n".join(sel) + "\n")); args += ["--seq-k", "list"]; on["--seq-k"] = "list"
    if not abcflag: args.append(ABCFLAG[abc])
    if "--informat" not in on: args += ["--informat", "stockholm"]
    c = {"ops": ops + [op_run("esl-alimanip", args + ["in.sto"])], "on": list(on)}
    if multi and set(on) & (ROWFILTERS - {"--seq-k", "--seq-r", "--reorder"}):
        c.update(may_fail=True, nopred_ok=True)        # thresholds chosen for the first alignment may empty a later one
    if len(set(on) & ROWFILTERS) > 1 or set(on) & {"--rffract", "--detrunc", "--xambig"} or (abcflag and {"--dna": DNA, "--rna": "ACGU", "--amino": AMINO}[abcflag] != abc):
        c.update(may_fail=True, nopred_ok=True)        # every sequence may be filtered out: the tool then stops with a message
    if ("--outformat" in on and on["--outformat"] not in ("stockholm", "pfam") and set(on) & {"--num-rf", "--num-all", "--rm-gc"}) or \
       (on.get("--rm-gc") == "RF" and "--num-rf" in on):
        c.update(may_fail=True, nopred_ok=True)
    return c


ALIMANIP_SWEEP = Sweep("esl-alimanip",
    values={"--seq-k": lambda r: "@list", "--seq-r": lambda r: "@list", "--reorder": lambda r: "@list", "--k-reorder": _flag,
            "--lnfract": lambda r: r.choice(["0.5", "0.9", "1.0", "0.0"]), "--lxfract": lambda r: r.choice(["1.0", "1.2", "2.0", "3.0"]),
            "--lmin": lambda r: "@len", "--lmax": lambda r: "@len", "--rffract": lambda r: r.choice(["0.0", "0.3", "0.5", "0.8"]),
            "--detrunc": lambda r: r.choice(["1", "2", "5"]), "--xambig": lambda r: r.choice(["0", "1", "3", "10"]),
            "--rm-gc": lambda r: r.choice(["RF", "SS_cons"]), "--num-rf": _flag, "--num-all": _flag,
            "--outformat": lambda r: r.choice(["stockholm", "pfam", "afa", "clustal", "phylip", "selex"]), "--informat": lambda r: "stockholm",
            "--dna": _flag, "--rna": _flag, "--amino": _flag},
    skip={k: "clustering / insert / tree / trim / mask / structure options: search only (--small: modelled and compared exactly by ref_small)" for k in
          ("--small", "--seq-ins", "--seq-ni", "--seq-xi", "--trim", "--t-keeprf", "--minpp", "--tree", "--mask2rf", "--m-keeprf", "--sindi", "--cindi",
           "--post2pp", "--xmask", "--cn-id", "--cs-id", "--cx-id", "--cn-ins", "--cs-ins", "--cx-ins", "--c-nmin", "--c-mx", "-M", "--M-rf", "--M-gapt")}
         | {"-o": "output file (exercised for the other tools)"},
    build=_alimanip_build, singles=3)

SWEEPS += [ALIMANIP_SWEEP]

def sweep_cases(ctx):
    out = []
    for sw in SWEEPS:
        if sw.tool in ctx.c13_tables:
            out += sweep_tool(ctx, sw)
    out += reformat_grid_cases(ctx)
    return out


REF_GENERATORS = [("esl-alistat --small info", ref_alistat_small_info), ("esl-alimerge", ref_alimerge), ("esl-compalign", ref_compalign), ("esl-alimask -p", ref_alimask_pp), ("multi-alignment files", ref_multi_ali), ("esl-compstruct", ref_compstruct), ("esl-alistat exact", ref_alistat_exact), ("esl-afetch exact", ref_afetch_exact), ("esl-reformat msa->fasta", ref_reformat_msa2fasta), ("esl-reformat hmmpgmd", ref_hmmpgmd), ("esl-sfetch afa", ref_sfetch_afa), ("esl-alistat info", ref_alistat_info), ("small modes", ref_small), ("esl-afetch -f", ref_afetch_multi), ("esl-alimask", ref_alimask), ("esl-alimanip", ref_alimanip), ("easel index", ref_index), ("easel filter", ref_filter), ("esl-weight", ref_weight), ("esl-afetch", ref_afetch), ("roundtrip", ref_roundtrip), ("esl-alistat", ref_alistat), ("esl-translate", ref_translate), ("esl-sfetch", ref_sfetch), ("esl-seqstat", ref_seqstat), ("esl-alirev", ref_alirev), ("esl-alipid", ref_alipid),
                  ("esl-seqrange", ref_seqrange), ("esl-selectn", ref_selectn), ("esl-mask", ref_mask),
                  ("esl-reformat", ref_reformat), ("esl-shuffle", ref_shuffle), ("easel downsample", ref_downsample)]


# witnesses of findings that were repaired in /repo: plain regression cases (name, fixing commit, ops)
RETIRED_WITNESSES = [
    ('esl_histplot_exception_esl_minimizer_c_minimum_not_finite', '137d847', ['file name=in0 hex=2d362e363337353820302e3533353035380a2d322e373336303820302e32383736360a332e353238323820302e353432370a2d302e32363730333120302e3730333334340a322e383338373120302e3332393535390a312e313936333320302e3333373530350a2d362e373131313120302e3430373738370a322e313738373820302e3833393732330a2d312e343237313320302e34313333360a342e323731303720302e3236313930340a2d322e393433343320302e3933393339350a2d342e373430393720302e3738313334360a2d332e373631343420302e30303235373030360a302e33313536313820302e3538303231310a2d322e303030343520302e3531383133310a2d302e38313333343120302e3234393534380a2d302e31393738313920302e35343931360a2d302e35393837363120302e3630313935380a2d302e33383330383320302e3533313837360a', 'run tool=esl-histplot args=2d2d676576002d62002d2d6d617800302e3100696e30']),
    ('esl_histplot_exception_esl_exponential_c_empty_data_vector_p', 'dc0566f', ['file name=in0 hex=31300a322e0a332e310a0a2d302e356d312ebd0a322e320a', 'run tool=esl-histplot args=2d2d6578707461696c002d2d73686f77676576002d2d6d753d302e3900696e30']),
    ('esl_histplot_exception_esl_histogram_c_value_N_N_isn_t_going', '6797247', ['file name=in0 hex=2d332e393831343320302e3336373332390a2d312e323835303220302e3132373138360a322e363434353320302e3631393436390a332e393132373720302e3731393938370a2d322e3237323220302e3530363630390a302e33373532343420302e3132393530370a2d342e343031353520302e363436363938787878787878787878787878787878787878787878787878787878787878787878787878787878787878787878787878787878787878787878787878787878787878787878780a2d322e303320302e3635383631320a2d302e35323937373520302e3435393038370a302e31353930383920302e3531363536320a2d352e343935393420302e3734363133320a2d302e36373234323720302e3738313032310a2d322e333234303620302e3834373730350a', 'run tool=esl-histplot args=2d2d6e6f726d616c002d62002d2d7375727600696e30']),
    ('esl_histplot_exception_unchecked_alloc_size', '6797247', ['file name=in0 hex=eb7ab058c76f0197415af91fbe0fb15dabbdcda688634143a30089745f7dab14d39bae97adcac431c6d059458ebc1387f5cb3fb27290bc87a74b99cc949720d66bb5dae6661e0d889c7175c31f4ccfe037d8407fca1b8457da589721fab4d68e42853b64f14b73c3ac17a1215157651f2850c90374b9066578d910389adbfa625557cbc1e6ccb7f4f673d28de7ca90f436dba7aa6f7c3a43df79911a86bed51de36c8876ab1def920eb26a8231099a59b0b9c79c8ccf221bacee933b5e9574fa55d87b9f0dc373ae342eb0eb60fa622a2a8345579c31631e167d42fcefa3f7f4e102788ca8590082bb5dfce8e503eecbb456b8d6085975810159ded44fbe3e2ae65d6640dd3a0a11bee838151cb0fa7a8aa84c9297446e51d46a450e2c8d18e25598be43a7f055b5b543b69cbe438b6ff1775ba17fff2b091c44dd16d88f0f43415b36c465c011b5d62253d6f6ea9b2e033c3fc99b4b6d61de2e7889797924e14a597c02bbf21ad6a3e13a2f4e1ef7994878a03e40b5d04e805a637593775085ebbe9211eabb8f00603836727e8bab41a8a0a4e0a8cc616d12d88b8d2e43adaf364c9c905e53a28e943dac26895572418c6d085c27d49e442ca45094689bcf536823e8141cd7ae06c33720b8c5eb0dcc8d60d5e942f7b2c398294c28d7641c671c064ab8da8041176e4e4707de6500f06141894fde07a0de37a59cac70c3a16d72f68f7575327ade10ef99f88f348376168370e8c8d30c809ca1960a5acb5835d59dd542b71117f42e41c6772e649ae5b6f35c0ed2c08c9ad7493b7c8a0373aa109195a3315b8225e3ce20e07ac7cd6829943f1b56a4a332edf3f6f6001cbf9a7dd9d622feb86e4804f4fed55467012bba296ce3f24256a9a50c37dfd8a6659240ef09d75516c42ee472694af1083120fd4c9812a15f5f326606c754fc02b01219ac072868193cec1361f4af119910ec1e62e958e5854554f6454b83fd3f83ba10fbb26a9cce6b43bf177aa2a2c71dda7b033b1fe44cc11d15a57ff71fc18d510edce51a054dd4ea93dfcf07e7af89608ef304b5cb9bc09e2e0ed9bd2b3eb38f9facf567ffcc266fded9746d082ce9fb6f9e144d8624ac9699b311ba6003dc1ccd729e30673df4d4e9e75f0e090967aeb693d1bfb895cf6701ea4b05e08fc644412df9f9429efd645b9d4c688038461d3032dfe9b9eab8b0d9a9e2d5c2a50ad9df960f690311d4930c95463c168913b0a253896f7fb80dea0409bb271db7a6da9e65c32ce82240ab6ce07fe04be1b76bda41a64983d85bed3dc9902cc6b67ed28c6fa994a794e93f5fe41c5596d4e5ef0c902052449589baf7737fdb49b9864e8363ead7dfad6a956c9ddcee46eca9b098506458e68a8720e7c4fd93af9480e767f9b258de841c91', 'run tool=esl-histplot args=2d2d6d696e3d302e3632002d2d6d6178002d696e6600696e30']),
    ('esl_histplot_exception_esl_histogram_c_pmass_not_a_probabili', '52da802', ['file name=in0 hex=362e323032343520302e3134303233340a2d312e363538373120302e363235370a362e393430363220302e3236383134370a', 'run tool=esl-histplot args=2d7400322e30002d2d6d7500302e35002d2d73686f77676576002d2d6578707461696c6c6f6300696e30']),
    ('esl_mixdchlet_fit_exception_esl_stats_c_invalid_x_N_in_esl_s', '8c2a45a', ['file name=in2 hex=31302032203320340a312031203120310a302035203020350a372030', 'run tool=esl-mixdchlet args=666974002d7300320033003400696e32006f75742e39']),
    ('esl_mixdchlet_fit_exception_unchecked_alloc_size', '8c2a45a', ['file name=in2 hex=31302032203320340a312031203120310a302035203020350a372030203020310a', 'run tool=esl-mixdchlet args=666974002d730033003939393939393939393939003400696e32006f75742e39']),
    ('esl_mixdchlet_gen_exception_unchecked_alloc_size', '8c2a45a', ['file name=in0 hex=312039393939393939393939340a312e302020302e323520302e323520302e323520302e32350a', 'run tool=esl-mixdchlet args=67656e002d4e0033002d73003100696e30']),
    ('esl_mixdchlet_sample_exception_unchecked_alloc_size', '8c2a45a', ['run tool=esl-mixdchlet args=73616d706c65002d510032313437343833363437']),
    ('esl_shuffle_exception_unchecked_alloc_size', 'cfe3f0a', ['run tool=esl-shuffle args=2d47002d4c0032313437343833363437']),
    ('esl_alimask_exception_unchecked_alloc_size', '0430f3a', ['file name=in0 hex=232053544f434b484f4c4d20312e300a233d474620494420616c6e310a0a0a233d47432053535f636f6e73203c3c3c3c3c3c3c3c3c3c3c3c3c3c2e2e2e2e2e2e2e2e2e2e2e2e2e2e2e2e2ecc2e2e2e2e2e2e2e2e2e2e2e2e2e2e2e2e2e2e2e2e2e2e2e2e2e2e2e2e2e2e2e2e2e2e2e2e2e2e2e2e2e2e2e2e2e2e2e2e2e2e2e2e2e2e3e3e3e3e3e3e3e3e3e3e3e3e3e3e0a2f2f0a5139312020202020202020202047414453522d56544b2d5649572d522d59492d4d5743504749432d594e574949432d2d4b4346594441572d475346485950434d4751574d56482d574c4552595145594e45494948455156534448564c474e5146475650502d56454550565941', 'run tool=esl-alimask args=2d70002d2d736d616c6c002d2d616d696e6f002d stdin=232053544f434b484f4c4d20312e300a233d474620494420616c6e310a0a0a233d47432053535f636f6e73203c3c3c3c3c3c3c3c3c3c3c3c3c3c2e2e2e2e2e2e2e2e2e2e2e2e2e2e2e2e2ecc2e2e2e2e2e2e2e2e2e2e2e2e2e2e2e2e2e2e2e2e2e2e2e2e2e2e2e2e2e2e2e2e2e2e2e2e2e2e2e2e2e2e2e2e2e2e2e2e2e2e2e2e2e2e3e3e3e3e3e3e3e3e3e3e3e3e3e3e0a2f2f0a5139312020202020202020202047414453522d56544b2d5649572d522d59492d4d5743504749432d594e574949432d2d4b4346594441572d475346485950434d4751574d56482d574c4552595145594e45494948455156534448564c474e5146475650502d56454550565941']),
    ('esl_alimanip_exception_unchecked_alloc_size', 'fc7c80b', ['file name=in0 hex=232053544f434b484f4c4d20312e300a0a70726f7431202020202020202020202d474743432d414354432d2d542d2d2d2d2d432d2d2d432d2d47542d2d472d2d2d2d2d47472d47414754472d41412d2d412d2d2d414754412d2d2d0a233d4743205246202020202020202078787878787878787878787878782e7878787878787878782e7878787878787878787878782e78787878782e787878782e78782e2e2e78787878780a233d47432053535f636f6e732020203c3c3c3c3c3c3c3c3c2e2e2e2e2e2e2e2e2e2e2e2e2e2e2e2e2e2e2e2e2e2e2e2e2e2e2e2e2e2e2e2e2e2e2e2e2e2e2e2e2e3e3e3e3e3e3e3e3e3e0a2f2f0a232053544f434b484f4c4d20312e300a233d474620494420616c6e320a0a70726f7431202020202020202020202055470a70726f7432202020202020202020202055410a7333202020202020202020202020202041430a785f793420202020202020202020202047430a5139352020202020202020202020202055470a5139362020202020202020202020202047410a7337202020202020202020202020202047430a785f793820202020202020202020202047430a6e7c6d3920202020202020202020202055550a70726f7431302020202020202020202041430a2f2f0a', 'run tool=esl-alimanip args=2d2d74726565006f75742e30002d2d646e6100696e30']),
    ('esl_alimerge_asan_heap_buffer_overflow_determine_gap_columns', '5e1f0af', ['file name=m0 hex=0a233d43530a233d52460a736571312041434445464748494b4c4d4e50515253545657590a6c6f6e675f6e616d65204748494b4c4d4e50515253545657590a626c616e6b5f7365715f616c6c5f67617073200a736571322041434445462d2d2d4b4c4d4e50515253545657590a736571332041434445462e2e2e4b4c4d4e50515253545657590a2320656d62656464656420636f6d6d656e7473206f6b0a736571342041434445464748494b4c4d4e50515253545657590a207365713520434445464748494b4c4d4e50515253545657590a233d5353200a233d53410a0a0a0a233d43530a233d52460a736571312041434445464748494b4c4d4e50515253545657590a6c6f6e675f6e616d65204748494b4c4d4e50515253545657590a626c616e6b5f7365715f616c6c5f67617073200a736571322041434445464748494b4c4d4e50515253545657590a736571332041434445464748494b4c4d4e50515253545657590a736571342041434445464748494b4c4d4e50515253545657590a736571352041434445464748494b4c4d4e50515253545657590a233d5353200a233d5341', 'file name=in0 hex=6d300a', 'run tool=esl-alimerge args=2d2d6c69737400696e30']),
    ('esl_histplot_asan_heap_buffer_overflow_esl_vec_DSet', '7d2bcba', ['file name=in0 hex=31300a322e350a332e310a322e', 'run tool=esl-histplot args=2d2d73686f77657870002d2d6d617800302e31002d62002d2d6d7500322e3000696e30']),
    ('esl_histplot_asan_heap_buffer_overflow_esl_histogram_PlotSur', 'e843eeb', ['file name=in0 hex=-', 'run tool=esl-histplot args=2d2d7375727600696e30']),
    ('input_layer_asan_heap_buffer_overflow_esl_fgets', '69f253a', ['file name=in0 hex=002d302e32373339303320302e3834363636330a2d342e343532383820302e303335333835380a', 'run tool=esl-histplot args=2d6f006f75742e30002d2d6578707461696c6c6f63002d2d67756d62656c002d2d6c616d62646100302e3500696e30']),
]


def corpus_cases(ctx):
    """witnesses of the known findings (known_findings.d/C13.json) + a few fixed sanity invocations; run first"""
    fa = ">s1 desc one\nACGTACGTAC\nGGTTNN\n>s2\nAAAA\n"
    out = [
        {"name": "corpus-seqstat", "ref": True, "sticky": 1,
         "ops": [op_file("a.fa", fa), op_run("esl-seqstat", ["-a", "-c", "--dna", "a.fa"])]},
        # DESIGN §5 C13 sizing run: esl-shuffle -d on a sequence containing '*'
        {"name": "corpus-shuffle-d-star", "sticky": 1,
         "ops": [op_file("star.fa", ">s1\nACGT*ACGT\n"), op_run("esl-shuffle", ["-d", "star.fa"])]},
        # format string without its argument (esl-seqstat / -seqrange / -shuffle: SEGV; esl-mask prints "(null)")
        {"name": "corpus-seqstat-informat", "sticky": 1,
         "ops": [op_file("a.fa", fa), op_run("esl-seqstat", ["--informat", "bogus", "a.fa"])]},
        {"name": "corpus-seqrange-informat", "sticky": 1,
         "ops": [op_file("a.fa", fa), op_run("esl-seqrange", ["--informat", "bogus", "a.fa", "1", "1"])]},
        {"name": "corpus-shuffle-informat", "sticky": 1,
         "ops": [op_file("a.fa", fa), op_run("esl-shuffle", ["--informat", "bogus", "a.fa"])]},
        # esl-reformat to a format without a writer
        {"name": "corpus-reformat-embl", "sticky": 1,
         "ops": [op_file("a.fa", fa), op_run("esl-reformat", ["embl", "a.fa"])]},
        # esl-shuffle -L: a sequence shorter than L is skipped without esl_sq_Reuse(): its residues stay in front of the next one
        {"name": "corpus-shuffle-L-skip", "ref": True, "sticky": 1,
         "ops": [op_file("in.fa", ">prot1 x\na\n>seq2 x\nACg\n>n|m3\nAAACGAG\nGCTACGC\nATTAAAT\nCTAGCAC\nCTACCGT\nGGCTGCC\nGCTADGT\nGAGCATA\nACTCT\n"),
                 op_run("esl-shuffle", ["--seed", "2", "-m", "-L", "5", "--informat", "fasta", "in.fa"])]},
        # esl-sfetch: -r and reversed coordinates are two separate reverse-complement steps that cancel
        {"name": "corpus-sfetch-r-reversed-c", "ref": True,
         "ops": [op_file("db.fa", ">seq1 d\nACGTTGCAAGGCTTAACCGGTTACGATCGATCGGATCCAATTGGCCAAGT\n>p2\nAAAACCCCGGGGTTTT\n"),
                 op_run("esl-sfetch", ["--index", "db.fa"]), op_run("esl-sfetch", ["-r", "-c", "41..7", "db.fa", "seq1"]),
                 op_run("esl-sfetch", ["-c", "41..7", "db.fa", "seq1"]), op_run("esl-sfetch", ["-r", "-c", "7..41", "db.fa", "seq1"]),
                 op_run("esl-sfetch", ["-r", "-c", "9..9", "-n", "one", "db.fa", "seq1"])]},
        {"name": "corpus-sfetch-r-reversed-C", "ref": True,
         "ops": [op_file("db.fa", ">seq1 d\nACGTTGCAAGGCTTAACCGGTTACGATCGATCGGATCCAATTGGCCAAGT\n>p2\nAAAACCCCGGGGTTTT\n"),
                 op_file("gdf", "a 3 20 seq1\nb 20 3 seq1\nc 16 1 p2\nd 5 5 p2\ne 7 0 seq1\n"),
                 op_run("esl-sfetch", ["--index", "db.fa"]), op_run("esl-sfetch", ["-r", "-C", "-f", "db.fa", "gdf"]),
                 op_run("esl-sfetch", ["-C", "-f", "db.fa", "gdf"])]},
        # esl-reformat --small used to close the alignment file twice (regression witness)
        {"name": "corpus-reformat-small", "ops": [op_file("p.sto", "# STOCKHOLM 1.0\n\ns1  ACGU\ns2  AC-U\n//\n"),
                                                  op_run("esl-reformat", ["--small", "--informat", "pfam", "afa", "p.sto"])]},
        # top level of the `easel` driver and of esl-mixdchlet (esl_subcmd.c dispatch)
        {"name": "corpus-easel-h", "expect_ok": True, "ops": [op_run("easel", ["-h"])]},
        {"name": "corpus-easel-help", "expect_ok": True, "ops": [op_run("easel", ["--help"])]},
        {"name": "corpus-easel-version", "expect_ok": True, "ops": [op_run("easel", ["--version"])]},
        {"name": "corpus-easel-noargs", "ops": [op_run("easel", [])]},
        {"name": "corpus-easel-nosuch", "ops": [op_run("easel", ["nosuchcommand", "x"])]},
        {"name": "corpus-easel-missing-arg", "ops": [op_run("easel", ["alistat"])]},
        {"name": "corpus-mixdchlet-h", "expect_ok": True, "ops": [op_run("esl-mixdchlet", ["-h"])]},
        {"name": "corpus-mixdchlet-noargs", "ops": [op_run("esl-mixdchlet", [])]},
        # esl-translate: a sequence shorter than a codon is skipped without esl_sq_Reuse(): it is glued in front of the next one
        # esl-alimanip --xambig: every sequence removed -> was ESL_EXCEPTION "No sequences selected"; repaired in 94aa3ca
        {"name": "corpus-alimanip-xambig-all",
         "ops": [op_file("in.sto", "# STOCKHOLM 1.0\n\ns1  ACGRT\ns2  AYGNT\n//\n"), op_run("esl-alimanip", ["--xambig", "0", "--dna", "in.sto"])]},
        {"name": "corpus-translate-short", "ref": True, "sticky": 1,
         "ops": [op_file("in.fa", ">a\nCC\n>b a desc\nATTG\n"), op_run("esl-translate", ["-l", "0", "-m", "--crick", "--informat", "fasta", "in.fa"])]},
    ]
    # round 6 (edge stream): a directory where an input file is expected -> esl_buffer_OpenFile slurps it -> 'failed to slurp' exception
    # (repaired in 5d94071: esl_buffer_OpenFile refuses a directory with eslENOTFOUND): must be a diagnostic + non-zero exit
    for k_, (t_, a_) in enumerate([("esl-alistat", ["/tmp"]), ("esl-seqstat", ["."]), ("esl-reformat", ["pfam", "/"]), ("easel", ["index", "."])]):
        out.append({"name": "corpus-regress-5d94071-directory-as-input-%d" % k_, "expect_err": True, "ops": [op_run(t_, a_)]})
    # round 6: esl-alistat --small truncated each column's (fractional, degenerate) residue count: B + H in one DNA column counted 1 (repaired in edf1c28)
    out.append({"name": "corpus-regress-edf1c28-alistat-small-nres", "ref": True, "sticky": 1,
                "ops": [op_file("bh.sto", "# STOCKHOLM 1.0\ns1 B\ns2 H\n//\n"), op_run("esl-alistat", ["--small", "--dna", "--informat", "pfam", "bh.sto"])]})
    # round 6: esl_msafile2_RegurgitatePfam looked a #=GS line's sequence name up before parsing it (NULL -> SIGSEGV with --seq-k; --seq-r kept
    # the #=GS lines of removed sequences); repaired in 682375e. Predicted exactly by the Lean model of the regurgitator.
    q_ = "# STOCKHOLM 1.0\n#=GS s1 AC acc1\n#=GS seq_two DE a description here\n\ns1         acgu-ACGU.nn\n#=GR s1 PP 9999.9999.99\nseq_two    AC-UUACGU.NN\n#=GC SS_cons <<<<....>>>>\n#=GC RF      xxxx.xxxx.xx\n//\n"
    for k_, o_ in enumerate(["--seq-k", "--seq-r"]):
        out.append({"name": "corpus-regress-682375e-regurgitate-gs-%d" % k_, "ref": True, "sticky": 2,
                    "ops": [op_file("q.sto", q_), op_file("list", "s1\n"), op_run("esl-alimanip", ["--small", o_, "list", "--rna", "--informat", "pfam", "q.sto"])]})
    # round 6 (bigint stream): esl-shuffle -k 2147483647 allocated a K-byte scratch word for a sequence with fewer than two K-mers ('malloc of size
    # 2147483647 failed', SIGABRT under a memory limit); repaired in b700765: the sequence is copied
    out.append({"name": "corpus-regress-b700765-shuffle-k-huge", "expect_ok": True,
                "ops": [op_file("in0", ">s1\nACGTACGTAC\n"), op_run("esl-shuffle", ["-k", "2147483647", "-S", "in0"])]})
    # round 6: the --small tools on an INTERLEAVED Stockholm file must stop with the 'two seqs named' / 'same name' diagnostic (esl-reformat printed a
    # non-terminated token with %s: heap over-read; esl-alimanip ended silently with exit 0 and a truncated alignment; repaired in 6d1c4fc)
    il_ = "# STOCKHOLM 1.0\n\ns1 ACGU\ns2 AC-U\n\ns1 GGCC\ns2 GG-C\n//\n"
    for k_, (t_, a_, kk_) in enumerate([("esl-reformat", ["--small", "--informat", "pfam", "pfam", "il.sto"], None),
                                        ("esl-reformat", ["--small", "--informat", "pfam", "afa", "il.sto"], None),
                                        ("esl-alimanip", ["--small", "--seq-k", "list", "--rna", "--informat", "pfam", "il.sto"], None),
                                        ("esl-alimask", ["--small", "-t", "--rna", "--informat", "pfam", "il.sto", "1-2"], None),
                                        ("esl-alistat", ["--small", "--rna", "--informat", "pfam", "il.sto"], None)]):
        c_ = {"name": "corpus-regress-6d1c4fc-small-interleaved-%d" % k_, "expect_err": True, "ops": [op_file("il.sto", il_), op_file("list", "s1\n"), op_run(t_, a_)]}
        if kk_: c_["known_key"] = kk_
        out.append(c_)
    # round 6: esl-reformat --small pfam with a WUSS option: inverted #=GR / SS tests ('bad #=GR line' on any #=GF line); repaired in 2415140
    out.append({"name": "corpus-regress-2415140-reformat-small-dewuss", "expect_ok": True,
                "ops": [op_file("w.sto", "# STOCKHOLM 1.0\n#=GF ID aln1\n\ns1         ACGU-ACGU.NN\n#=GR s1 SS <<<<....>>>>\nseq_two    AC-UUACGU.NN\n#=GC SS_cons <<<<....>>>>\n//\n"),
                        op_run("esl-reformat", ["--small", "--dewuss", "--informat", "pfam", "pfam", "w.sto"])]})
    # esl-alimask -p: a #=GR PP character outside 0-9 * gap indexed pp_ct[apos][-1] (found in round 4 while modelling -p; repaired in 2ee6f53):
    # must be refused with a message
    out.append({"name": "corpus-regress-2ee6f53-alimask-p-bad-ppchar", "expect_err": True,
                "ops": [op_file("pp.sto", "# STOCKHOLM 1.0\ns1         ACGU\n#=GR s1 PP 9x8*\ns2         AC-U\n#=GR s2 PP 99.*\n//\n"),
                        op_run("esl-alimask", ["-p", "--rna", "pp.sto"])]})
    # the text-mode Clustal writer on an alignment with ZERO columns aborted with "zero malloc disallowed" (round 4; repaired in fc170bb):
    # both tools now write the empty alignment, and the reference predicts it
    out.append({"name": "corpus-regress-fc170bb-clustal-zero-columns-alimask", "ref": True, "nopred_ok": True,
                "ops": [op_file("a.sto", "# STOCKHOLM 1.0\ns1 AC-U\ns2 -CGU\n//\n"), op_file("m0", "0000\n"),
                        op_run("esl-alimask", ["--rna", "--outformat", "clustal", "a.sto", "m0"])]})
    out.append({"name": "corpus-regress-fc170bb-clustal-zero-columns-reformat", "ref": True, "nopred_ok": True,
                "ops": [op_file("g.sto", "# STOCKHOLM 1.0\ns1 A--U\ns2 -CG-\n//\n"), op_run("esl-reformat", ["--nogap", "clustal", "g.sto"])]})
    out.append({"name": "corpus-clustal-zero-columns-predicted", "ref": True,
                "ops": [op_file("a.sto", "# STOCKHOLM 1.0\ns1 AC-U\ns2 -CGU\n//\n"), op_file("m0", "0000\n"),
                        op_run("esl-alimask", ["--rna", "--informat", "stockholm", "--outformat", "clustal", "a.sto", "m0"]),
                        op_file("g.sto", "# STOCKHOLM 1.0\ns1 A--U\ns2 -CG-\n//\n"),
                        op_run("esl-reformat", ["--nogap", "--informat", "stockholm", "clustal", "g.sto"])]})
    # esl-compalign -p with PP lines for some sequences only: NULL ta->pp[i] was dereferenced (round 4; repaired in 6402139): must be refused
    out.append({"name": "corpus-regress-6402139-compalign-p-missing-pp", "expect_err": True,
                "ops": [op_file("k.sto", "# STOCKHOLM 1.0\ns1         ACGU\ns2         AC-U\n#=GC RF    xxxx\n//\n"),
                        op_file("t.sto", "# STOCKHOLM 1.0\ns1         ACGU\n#=GR s1 PP 9*8*\ns2         AC-U\n#=GC RF    xxxx\n//\n"),
                        op_run("esl-compalign", ["-p", "--rna", "k.sto", "t.sto"])]})
    # esl-alimanip --trim <Stockholm file with #=GR lines>: esl_sq_Copy text -> digital, xr[] one byte short (round 4, thorough tier; repaired in
    # b033cd2); the witness file is the tree's own esl_msa_testfiles/stockholm/stockholm.good.1
    g1 = os.path.join(getattr(ctx, "c13_src", "") or "", "esl_msa_testfiles", "stockholm", "stockholm.good.1")
    if os.path.exists(g1):
        t1 = open(g1, "rb").read()
        out.append({"name": "corpus-regress-b033cd2-alimanip-trim-gr-markup", "ops": [op_file("in0", t1), op_run("esl-alimanip", ["--trim", "in0", "-"], stdin=t1)]})
    # round 4, thorough tier with every tool in the seed-dependent stream: esl-alimanip --c-mx double fclose (repaired in b282134); esl-sfetch with an
    # unaligned --informat on a file whose SSI index was made from an alignment ("bad offset" exception, repaired in e3f8b5b: refused with a message)
    out.append({"name": "corpus-regress-b282134-alimanip-cmx-double-fclose", "expect_ok": True,
                "ops": [op_file("aln.sto", "# STOCKHOLM 1.0\n\ns1 ACGU\ns2 ACGA\ns3 UCGA\n#=GC RF xxxx\n//\n"),
                        op_run("esl-alimanip", ["--c-mx", "out.mx", "--cn-id", "2", "--rna", "aln.sto"])]})
    out.append({"name": "corpus-regress-e3f8b5b-sfetch-index-format-mismatch", "expect_err": True,
                "ops": [op_file("in0", "# STOCKHOLM 1.0\n\nseq1 GAATTC\nseq2 GAATTC\n//\n"), op_run("esl-sfetch", ["--index", "in0"]),
                        op_run("esl-sfetch", ["--informat", "ddbj", "-n", "1", "in0", "seq1"])]})
    for nm, commit, ops in RETIRED_WITNESSES:
        out.append({"name": "corpus-regress-%s-%s" % (commit, nm), "ops": list(ops)})
    # invalid arguments on valid files: a non-zero exit status with a diagnostic is REQUIRED (a tool that silently
    # accepts them and prints something is as wrong as one that dies)
    afa = ">s1\nACGTACGTAA\n>s2\nACGTAC-TAA\n>s3\nTTGTACGTCA\n"
    sto = "# STOCKHOLM 1.0\n#=GF ID aln1\n\ns1  ACGU\ns2  AC-U\n//\n"
    three = "l1\nl2\nl3\n"
    def bad(name, files, *runs, known=None):
        c = {"name": "corpus-reject-" + name, "expect_err": True, "ops": [op_file(n, t) for n, t in files] + list(runs)}
        if known: c["known_key"] = known
        out.append(c)
    bad("filter-maxid-high", [("a.afa", afa)], op_run("easel", ["filter", "--informat", "afa", "--dna", "2.0", "a.afa"]))
    bad("filter-maxid-neg", [("a.afa", afa)], op_run("easel", ["filter", "--informat", "afa", "--dna", "-0.1", "a.afa"]))
    bad("seqrange-idx-gt-nproc", [("a.fa", fa)], op_run("esl-sfetch", ["--index", "a.fa"]), op_run("esl-seqrange", ["a.fa", "3", "2"]))
    bad("seqrange-idx-0", [("a.fa", fa)], op_run("esl-sfetch", ["--index", "a.fa"]), op_run("esl-seqrange", ["a.fa", "0", "2"]))
    bad("seqrange-nproc-gt-nseq", [("a.fa", fa)], op_run("esl-sfetch", ["--index", "a.fa"]), op_run("esl-seqrange", ["a.fa", "1", "3"]))
    bad("seqrange-noindex", [("a.fa", fa)], op_run("esl-seqrange", ["a.fa", "1", "1"]))
    bad("selectn-too-many", [("t", three)], op_run("esl-selectn", ["--seed", "1", "4", "t"]))
    bad("downsample-too-many", [("t", three)], op_run("easel", ["downsample", "--seed", "1", "4", "t"]))
    bad("downsample-s-too-many", [("a.fa", fa)], op_run("easel", ["downsample", "-s", "--seed", "1", "3", "a.fa"]))
    bad("downsample-S-too-many", [("a.fa", fa)], op_run("easel", ["downsample", "-S", "--seed", "1", "3", "a.fa"]))
    bad("downsample-not-int", [("t", three)], op_run("easel", ["downsample", "2x", "t"]))
    bad("sfetch-nosuch", [("a.fa", fa)], op_run("esl-sfetch", ["--index", "a.fa"]), op_run("esl-sfetch", ["a.fa", "nosuch"]))
    bad("sfetch-noindex", [("a.fa", fa)], op_run("esl-sfetch", ["a.fa", "s1"]))
    bad("sfetch-r-protein", [("p.fa", ">p1\nMKVLEFPQWW\n")], op_run("esl-sfetch", ["--index", "p.fa"]), op_run("esl-sfetch", ["-r", "p.fa", "p1"]))
    bad("afetch-nosuch", [("a.sto", sto)], op_run("esl-afetch", ["a.sto", "nosuch"]))
    bad("mask-name-mismatch", [("a.fa", fa), ("m", "s2 1 2\n")], op_run("esl-mask", ["a.fa", "m"]))
    bad("mask-too-many-lines", [("a.fa", fa), ("m", "s1 1 2\ns2 1 2\ns3 1 2\n")], op_run("esl-mask", ["a.fa", "m"]))
    bad("reformat-bogus", [("a.fa", fa)], op_run("esl-reformat", ["bogus", "a.fa"]))
    bad("reformat-two-alis-afa", [("a.sto", sto + sto.replace("aln1", "aln2"))], op_run("esl-reformat", ["afa", "a.sto"]))
    bad("translate-bad-code", [("a.fa", fa)], op_run("esl-translate", ["-c", "7", "a.fa"]))
    bad("alirev-protein", [("p.afa", ">p1\nMKVLEFPQWW\n>p2\nMKVLEFPQWY\n")], op_run("esl-alirev", ["--informat", "afa", "p.afa"]))
    bad("alipid-ragged", [("r.afa", ">s1\nACGT\n>s2\nACG\n")], op_run("esl-alipid", ["--informat", "afa", "--dna", "r.afa"]))
    for tool, nargs in (("esl-seqstat", 1), ("esl-translate", 1), ("esl-alipid", 1), ("esl-weight", 1), ("esl-selectn", 2), ("esl-mask", 2),
                        ("esl-seqrange", 3), ("esl-reformat", 2), ("esl-alistat", 1), ("esl-alirev", 1)):
        bad("argcount-%s-less" % tool, [("a.fa", fa)], op_run(tool, ["a.fa"] * (nargs - 1)))
        bad("argcount-%s-more" % tool, [("a.fa", fa)], op_run(tool, ["a.fa"] * (nargs + 1)))
    # every entry point must print its help (option table walk: esl_opt_DisplayHelp) and exit 0
    for tool in ENTRY_POINTS + ["esl-mixdchlet fit", "esl-mixdchlet score", "esl-mixdchlet gen", "esl-mixdchlet sample"]:
        out.append({"name": "corpus-help-" + tool.replace(" ", "_"), "expect_ok": True, "ops": [op_run(tool, ["-h"])]})
    return out


def reference_cases(ctx):
    rng = ctx.rng
    per = 30 if ctx.tier == "quick" else 300
    out = []
    for tool, g in REF_GENERATORS:
        for i in range(max(10, per // 3) if tool in ("easel index", "esl-reformat hmmpgmd") else (2 * per if tool in ("esl-translate", "esl-sfetch", "multi-alignment files", "esl-alimerge", "small modes") else per)):
            out.append(g(rng, i))
    out += sweep_cases(ctx)
    return out


def ref_monitor(ctx, case, out):
    """python-side statements of the property on the implementation's own output (independent of the Lean prediction)"""
    for op, l in zip(case["ops"], out):
        if op.startswith("run ") and " class=ok " not in l:
            return None if case.get("may_fail") else _fail("reference case: tool did not succeed on a valid input: " + l[:200])
    if case.get("hmmpgmd") is not None and len(out) >= 3:
        msg = _check_hmmpgmd(case, out)
        if msg:
            return _fail("esl-reformat hmmpgmd output is not the recomputed one (%s): %s" % (case["name"], msg))
    if case.get("index_msg") is not None:
        for op, l in zip(case["ops"], out):
            if op.startswith("run ") and "2d2d696e646578" in op:      # --index
                kv = dict(w.split("=", 1) for w in l.split() if "=" in w)
                t = bytes.fromhex(kv.get("out", "")).decode("latin-1") if kv.get("out", "-") != "-" else ""
                if t != case["index_msg"]:
                    return _fail("esl-afetch --index printed %r, expected %r (%s)" % (t, case["index_msg"], case["name"]))
    if case.get("alistat_info") is not None and len(out) >= 5:
        msg = _check_alistat_info(case, out)
        if msg:
            return _fail("esl-alistat info files do not match the recomputed counts (%s): %s" % (case["name"], msg))
    if case.get("same_out") and len(out) >= 2:
        o1 = dict(w.split("=", 1) for w in out[-2].split() if "=" in w).get("out")
        o2 = dict(w.split("=", 1) for w in out[-1].split() if "=" in w).get("out")

        def _norm(h):      # names and residues of every alignment, in order (the two modes lay out the annotation differently)
            try:
                t = bytes.fromhex(h).decode("latin-1")
            except Exception: return h
            digital = "reformat" not in case["name"]      # esl-alimask/-alimanip digitize in normal mode (upper case, '-' gaps), --small passes the text through
            recs, cur = [], None
            if t.startswith(">"):
                for l in t.split("\n"):
                    if l.startswith(">"): cur = [l[1:].split()[0] if l[1:].split() else "", ""]; recs.append(cur)
                    elif cur is not None: cur[1] += l.strip()
            else:
                for l in t.split("\n"):
                    w = l.split()
                    if not w or l.lstrip().startswith("#"): continue
                    if w[0] == "//": recs.append(["//", ""]); continue
                    if len(w) >= 2: recs.append([w[0], w[1]])
            if digital:
                recs = [[n, "".join("-" if c in "-._~" else c.upper() for c in s_)] for n, s_ in recs]
            return recs
        if o1 in (None, "-") or _norm(o1) != _norm(o2 or ""):
            def _t(h):
                try: return bytes.fromhex(h).decode("latin-1")[:300]
                except Exception: return h
            return _fail("--small mode prints something else than the normal mode (%s): normal %r small %r" % (case["name"], _t(o1 or ""), _t(o2 or "")))
    if case.get("expect_ids") is not None and out:
        kv = dict(w.split("=", 1) for w in out[-1].split() if "=" in w)
        try:
            txt = bytes.fromhex(kv.get("out", "")).decode("latin-1") if kv.get("out", "-") != "-" else ""
        except ValueError:
            txt = ""
        ids = re.findall(r"^#=GF ID\s+(\S+)", txt, re.M)
        if ids != case["expect_ids"] or txt.count("# STOCKHOLM 1.0") != len(ids) or len(re.findall(r"^//$", txt, re.M)) != len(ids):
            return _fail("esl-afetch -f returned alignments %r, expected %r (%s)" % (ids, case["expect_ids"], case["name"]))
    if case.get("roundtrip") is not None and out:
        kv = dict(w.split("=", 1) for w in out[-1].split() if "=" in w)
        try:
            txt = bytes.fromhex(kv.get("out", "")).decode("latin-1") if kv.get("out", "-") != "-" else ""
        except ValueError:
            txt = ""
        got, cur = [], None
        for line in txt.split("\n"):
            if line.startswith(">"):
                cur = [line[1:].split()[0] if line[1:].split() else "", ""]
                got.append(cur)
            elif cur is not None:
                cur[1] += line.strip()
        want = [[n, s_] for n, s_ in case["roundtrip"]]
        if got != want:
            return _fail("tool output, converted to afa by esl-reformat, is not the recomputed alignment (names/residues) (%s): want %r got %r"
                         % (case["name"], want[:3], got[:3]))
    return None


def _fail(msg, key=None):
    from vlib.engine import Failure
    return Failure("monitor", msg, key=key)
