"""Kind-G table dumper for C08: compiles a tiny C program against the scratch copy of the working tree
(ctx.src: sources + sanitized libeasel.a) that prints the tables of the standard alphabets, and renders them as
Lean `def`s of plain literals -> lean/EaselModel/Generated/Alphabets.lean.

The Lean theorems in Props/C08.lean that mention `Generated.Alphabets.*` are closed by `decide` over the WHOLE
table, so an edited table entry in esl_alphabet.c makes a proof obligation fail on the next run."""
import os, subprocess, json

DUMP_C = r'''
#include <stdio.h>
#include <string.h>
#include "easel.h"
#include "esl_alphabet.h"
static void dump(const char *name, int type)
{
  ESL_ALPHABET *a = esl_alphabet_Create(type);
  int x, y;
  if (!a) { printf("{\"name\":\"%s\",\"null\":1}\n", name); return; }
  printf("{\"name\":\"%s\",\"type\":%d,\"K\":%d,\"Kp\":%d,\"sym\":[", name, a->type, a->K, a->Kp);
  for (x = 0; x < a->Kp; x++) printf("%s%d", x ? "," : "", (int)(unsigned char)a->sym[x]);
  printf("],\"symlen\":%d,\"inmap\":[", (int) strlen(a->sym));
  for (x = 0; x < 128; x++) printf("%s%d", x ? "," : "", (int)a->inmap[x]);
  printf("],\"degen\":[");
  for (x = 0; x < a->Kp; x++) {
    printf("%s[", x ? "," : "");
    for (y = 0; y < a->K; y++) printf("%s%d", y ? "," : "", (int)a->degen[x][y]);
    printf("]");
  }
  printf("],\"ndegen\":[");
  for (x = 0; x < a->Kp; x++) printf("%s%d", x ? "," : "", a->ndegen[x]);
  printf("],\"complement\":");
  if (a->complement) {
    printf("[");
    for (x = 0; x < a->Kp; x++) printf("%s%d", x ? "," : "", (int)a->complement[x]);
    printf("]");
  } else printf("null");
  printf("}\n");
  esl_alphabet_Destroy(a);
}
int main(void)
{
  dump("dna", eslDNA); dump("rna", eslRNA); dump("amino", eslAMINO); dump("coins", eslCOINS); dump("dice", eslDICE);
  printf("{\"consts\":1,\"SENTINEL\":%d,\"ILLEGAL\":%d,\"IGNORED\":%d,\"EOL\":%d,\"EOD\":%d,"
         "\"eslRNA\":%d,\"eslDNA\":%d,\"eslAMINO\":%d,\"eslCOINS\":%d,\"eslDICE\":%d,\"eslNONSTANDARD\":%d}\n",
         eslDSQ_SENTINEL, eslDSQ_ILLEGAL, eslDSQ_IGNORED, eslDSQ_EOL, eslDSQ_EOD,
         eslRNA, eslDNA, eslAMINO, eslCOINS, eslDICE, eslNONSTANDARD);
  return 0;
}
'''


DUMP_AUX_C = r'''
#include <stdio.h>
#include <string.h>
#include "easel.h"
#include "esl_alphabet.h"
#include "esl_sq.h"
#include "esl_msa.h"
static int seen;
static void handler(int errcode, int use_errno, char *file, int line, char *fmt, va_list ap) { seen = errcode; }
int main(void)
{
  int c, t;
  esl_exception_SetHandler(handler);
  /* text-mode esl_sq_ReverseComplement on every one-byte sequence (its hand-written switch over IUPAC letters) */
  printf("{\"revtext\":[");
  for (c = 0; c < 256; c++) {
    ESL_SQ *sq = esl_sq_CreateFrom("x", "A", NULL, NULL, NULL);
    int st;
    sq->seq[0] = (char) c;
    st = esl_sq_ReverseComplement(sq);
    if (st != eslOK && st != eslEINVAL) { printf("BAD STATUS %d\n", st); return 1; }
    printf("%s[%d,%d]", c ? "," : "", (int)(unsigned char) sq->seq[0], st == eslOK ? 1 : 0);
    esl_sq_Destroy(sq);
  }
  printf("],\"decode\":[");
  for (t = 0; t <= 8; t++) {
    char *s; seen = 0; s = esl_abc_DecodeType(t);
    if (s) { int i; printf("%s[", t ? "," : ""); for (i = 0; s[i]; i++) printf("%s%d", i ? "," : "", (int)(unsigned char) s[i]); printf("]"); }
    else printf("%snull", t ? "," : "");
  }
  printf("],\"encode\":[");
  for (t = 0; t <= 8; t++) {
    char *s; seen = 0; s = esl_abc_DecodeType(t);
    printf("%s%d", t ? "," : "", s ? esl_abc_EncodeType(s) : -1);
  }
  printf("],\"valid\":[");
  for (t = 0; t <= 8; t++) printf("%s%d", t ? "," : "", esl_abc_ValidateType(t) == eslOK ? 1 : 0);
  printf("],\"classes\":{");
  {
    int types[5] = { eslDNA, eslRNA, eslAMINO, eslCOINS, eslDICE }; const char *names[5] = { "dna", "rna", "amino", "coins", "dice" }; int k;
    for (k = 0; k < 5; k++) {
      ESL_ALPHABET *a = esl_alphabet_Create(types[k]);
      printf("%s\"%s\":{\"c\":[", k ? "," : "", names[k]);
      for (c = 0; c < 256; c++) {
        char ch = (char) c; int m = 0;     /* the C* macros take a (signed) char, as sq->seq[i] is */
        if (esl_abc_CIsValid(a, ch))      m |= 1;
        if (esl_abc_CIsResidue(a, ch))    m |= 2;
        if (esl_abc_CIsCanonical(a, ch))  m |= 4;
        if (esl_abc_CIsGap(a, ch))        m |= 8;
        if (esl_abc_CIsDegenerate(a, ch)) m |= 16;
        if (esl_abc_CIsUnknown(a, ch))    m |= 32;
        if (esl_abc_CIsNonresidue(a, ch)) m |= 64;
        if (esl_abc_CIsMissing(a, ch))    m |= 128;
        printf("%s%d", c ? "," : "", m);
      }
      printf("],\"x\":[");
      for (c = 0; c < 256; c++) {
        ESL_DSQ x = (ESL_DSQ) c; int m = 0;
        if (esl_abc_XIsValid(a, x))      m |= 1;
        if (esl_abc_XIsResidue(a, x))    m |= 2;
        if (esl_abc_XIsCanonical(a, x))  m |= 4;
        if (esl_abc_XIsGap(a, x))        m |= 8;
        if (esl_abc_XIsDegenerate(a, x)) m |= 16;
        if (esl_abc_XIsUnknown(a, x))    m |= 32;
        if (esl_abc_XIsNonresidue(a, x)) m |= 64;
        if (esl_abc_XIsMissing(a, x))    m |= 128;
        printf("%s%d", c ? "," : "", m);
      }
      printf("],\"get\":[%d,%d,%d,%d]}", (int) esl_abc_XGetGap(a), (int) esl_abc_XGetUnknown(a), (int) esl_abc_XGetNonresidue(a), (int) esl_abc_XGetMissing(a));
      esl_alphabet_Destroy(a);
    }
  }
  printf("},\"guessprobe\":[");
  /* esl_abc_GuessAlphabet on 26 x 3 probe compositions: 30 each of A,C,G,T (resp. A,C,G,U / nothing) plus 5 of letter l */
  {
    int base, l, type;
    for (base = 0; base < 3; base++)
      for (l = 0; l < 26; l++) {
        int64_t ct[26]; int i;
        for (i = 0; i < 26; i++) ct[i] = 0;
        if (base < 2) { ct[0] = ct[2] = ct[6] = 100; ct[base == 0 ? 19 : 20] = 100; }
        ct[l] += (base == 2 ? 12 : 8);
        esl_abc_GuessAlphabet(ct, &type);
        printf("%s%d", (base || l) ? "," : "", type);
      }
  }
  /* 12 threshold probes: total 10 / 11; all-N 2000 / 2001; 2 / 3 foreign letters (B) in 100 and 101; 48 / 49 letters ACGT with
     one of the four missing; DNA with U as well (T wins), RNA only */
  {
    static const int64_t P[12][6] = {   /* A, C, G, T, U, then B (index 1) / N (index 13) by probe */
      {3,3,2,2,0,0}, {3,3,3,2,0,0}, {0,0,0,0,0,2000}, {0,0,0,0,0,2001}, {25,25,24,24,0,2}, {25,24,24,24,0,3},
      {25,25,25,24,0,2}, {25,25,25,23,0,3}, {16,16,16,0,0,0}, {16,16,16,1,0,0}, {10,10,10,10,10,0}, {10,10,10,0,10,0} };
    int k;
    for (k = 0; k < 12; k++) {
      int64_t ct[26]; int i, type;
      for (i = 0; i < 26; i++) ct[i] = 0;
      ct[0] = P[k][0]; ct[2] = P[k][1]; ct[6] = P[k][2]; ct[19] = P[k][3]; ct[20] = P[k][4];
      if (k == 2 || k == 3) ct[13] = P[k][5]; else ct[1] = P[k][5];
      esl_abc_GuessAlphabet(ct, &type);
      printf(",%d", type);
    }
  }
  printf("],\"msamixed\":");
  /* esl_msa_GuessAlphabet on a text alignment with one row called RNA and one row called amino (documented: indeterminate) */
  {
    ESL_MSA *msa = esl_msa_Create(2, 12); int type = -1;
    strcpy(msa->aseq[0], "ACGUACGUACGU"); strcpy(msa->aseq[1], "ACDEFGHIKLMN");
    esl_msa_SetSeqName(msa, 0, "s1", -1); esl_msa_SetSeqName(msa, 1, "s2", -1);
    esl_msa_GuessAlphabet(msa, &type);
    printf("%d", type);
    esl_msa_Destroy(msa);
  }
  printf(",\"copyreused\":");
  /* esl_sq_Copy(src without ss, dst that got an ss buffer from an earlier Copy): 1 = dst keeps a (stale) ss, 0 = dst->ss is NULL */
  {
    ESL_SQ *s1 = esl_sq_CreateFrom("a", "ACGTACGT", NULL, NULL, "<<....>>"), *s2 = esl_sq_CreateFrom("b", "ACG", NULL, NULL, NULL), *d = esl_sq_Create();
    esl_sq_Copy(s1, d); esl_sq_Copy(s2, d);
    printf("%d", d->ss ? 1 : 0);
    esl_sq_Destroy(s1); esl_sq_Destroy(s2); esl_sq_Destroy(d);
  }
  printf(",\"eslUNKNOWN\":%d,\"eslOK\":%d,\"eslFAIL\":%d,\"eslEINVAL\":%d,\"eslENOALPHABET\":%d}\n", eslUNKNOWN, eslOK, eslFAIL, eslEINVAL, eslENOALPHABET);
  return 0;
}
'''


def dump_aux(src, work):
    """second dumper: the text-mode complement switch of esl_sq_ReverseComplement (all 256 bytes), alphabet type names/codes"""
    c = os.path.join(work, "dump_alphabet_aux.c")
    exe = os.path.join(work, "dump_alphabet_aux")
    with open(c, "w") as f:
        f.write(DUMP_AUX_C)
    cmd = ["gcc", "-I" + src, "-O1", "-g", "-fsanitize=address,undefined", "-fno-sanitize-recover=all",
           c, os.path.join(src, "libeasel.a"), "-lm", "-lpthread", "-o", exe]
    p = subprocess.run(cmd, stdout=subprocess.PIPE, stderr=subprocess.PIPE, text=True)
    if p.returncode != 0:
        raise RuntimeError("alphabet aux dumper does not compile: " + p.stderr[-1500:])
    env = dict(os.environ, ASAN_OPTIONS="detect_leaks=0")
    p = subprocess.run([exe], stdout=subprocess.PIPE, stderr=subprocess.PIPE, text=True, env=env, timeout=60)
    if p.returncode != 0:
        raise RuntimeError("alphabet aux dumper failed: " + (p.stderr or p.stdout)[-1500:])
    return json.loads(p.stdout)


def render_aux(d):
    out = ["/-! GENERATED by translate/tables_alphabet.py from the working tree (do not edit).",
           "    `textRevcomp[c]` = (byte left in a one-byte text-mode sequence `[c]` by `esl_sq_ReverseComplement`, 1 if it returned",
           "    eslOK / 0 if eslEINVAL) for c = 0..255;  `decodeType[t]` = bytes of `esl_abc_DecodeType(t)` (none = NULL + exception),",
           "    `encodeOfDecode[t]` = `esl_abc_EncodeType(esl_abc_DecodeType(t))` (-1 -> 999), `validType[t]` = `esl_abc_ValidateType(t) == eslOK`,",
           "    t = 0..8;  `cClass_<abc>[c]` / `xClass_<abc>[x]` = bit mask of the macros esl_abc_{C,X}Is{Valid,Residue,Canonical,Gap,Degenerate,",
           "    Unknown,Nonresidue,Missing} (bits 0..7) on every (signed) char / every code 0..255; `xGet_<abc>` = XGetGap/Unknown/Nonresidue/",
           "    Missing; `guessProbe` = answers of esl_abc_GuessAlphabet on 3 x 26 probe compositions + 12 threshold probes (see the dumper). -/",
           "namespace EaselModel.Generated.AlphabetsAux",
           ""]
    out.append("def textRevcomp : List (Nat × Nat) := [" + ", ".join("(%d, %d)" % (a, b) for a, b in d["revtext"]) + "]")
    out.append("def decodeType : List (Option (List Nat)) := [" + ", ".join("none" if v is None else "some " + lean_list(v) for v in d["decode"]) + "]")
    out.append("def encodeOfDecode : List Nat := " + lean_list([999 if v < 0 else v for v in d["encode"]]))
    out.append("def validType : List Bool := [" + ", ".join("true" if v else "false" for v in d["valid"]) + "]")
    for nm, t in d["classes"].items():
        out.append("def cClass_%s : List Nat := %s" % (nm, lean_list(t["c"])))
        out.append("def xClass_%s : List Nat := %s" % (nm, lean_list(t["x"])))
        out.append("def xGet_%s : List Nat := %s" % (nm, lean_list(t["get"])))
    out.append("def guessProbe : List Nat := " + lean_list(d["guessprobe"]))
    out.append("/-- answer of `esl_msa_GuessAlphabet` on the text alignment `ACGUACGUACGU` / `ACDEFGHIKLMN` (one row called RNA, one amino) -/")
    out.append("def msaMixedProbe : Nat := %d" % d["msamixed"])
    out.append("/-- 1 = `esl_sq_Copy(src without ss, reused dst with an ss buffer)` leaves a stale `dst->ss`; 0 = it is released -/")
    out.append("def sqCopyReusedProbe : Nat := %d" % d["copyreused"])
    for k in ("eslUNKNOWN", "eslOK", "eslFAIL", "eslEINVAL", "eslENOALPHABET"):
        out.append("def c_%s : Nat := %d" % (k, d[k]))
    out.append("")
    out.append("end EaselModel.Generated.AlphabetsAux")
    return "\n".join(out) + "\n"


def dump_tables(src, work):
    """compile + run the dumper; returns list of dicts (one per alphabet) and the constants dict"""
    c = os.path.join(work, "dump_alphabet.c")
    exe = os.path.join(work, "dump_alphabet")
    with open(c, "w") as f:
        f.write(DUMP_C)
    cmd = ["gcc", "-I" + src, "-O1", "-g", "-fsanitize=address,undefined", "-fno-sanitize-recover=all",
           c, os.path.join(src, "libeasel.a"), "-lm", "-lpthread", "-o", exe]
    p = subprocess.run(cmd, stdout=subprocess.PIPE, stderr=subprocess.PIPE, text=True)
    if p.returncode != 0:
        raise RuntimeError("alphabet table dumper does not compile: " + p.stderr[-1500:])
    env = dict(os.environ, ASAN_OPTIONS="detect_leaks=0")
    p = subprocess.run([exe], stdout=subprocess.PIPE, stderr=subprocess.PIPE, text=True, env=env, timeout=60)
    if p.returncode != 0:
        raise RuntimeError("alphabet table dumper failed: " + (p.stderr or p.stdout)[-1500:])
    tabs, consts = [], None
    for line in p.stdout.split("\n"):
        if not line.strip():
            continue
        d = json.loads(line)
        if d.get("consts"):
            consts = d
        else:
            tabs.append(d)
    if consts is None or len(tabs) != 5:
        raise RuntimeError("alphabet table dumper: unexpected output")
    return tabs, consts


def lean_list(xs):
    return "[" + ", ".join(str(x) for x in xs) + "]"


def render(tabs, consts):
    out = ["import EaselModel.Alphabet.Model",
           "/-! GENERATED by translate/tables_alphabet.py from the working tree's esl_alphabet.c (do not edit).",
           "    Tables of the standard alphabets as dumped from `esl_alphabet_Create()` of the code under check. -/",
           "namespace EaselModel.Generated.Alphabets",
           "open EaselModel.Alphabet",
           ""]
    for k in ("SENTINEL", "ILLEGAL", "IGNORED", "EOL", "EOD", "eslRNA", "eslDNA", "eslAMINO", "eslCOINS", "eslDICE", "eslNONSTANDARD"):
        out.append("def c_%s : Nat := %d" % (k, consts[k]))
    out.append("")
    for t in tabs:
        if t.get("null"):
            raise RuntimeError("esl_alphabet_Create(%s) returned NULL" % t["name"])
        out.append("def %s : Alphabet :=" % t["name"])
        out.append("  { type := %d" % t["type"])
        out.append("    K := %d" % t["K"])
        out.append("    Kp := %d" % t["Kp"])
        out.append("    sym := %s" % lean_list(t["sym"]))
        out.append("    inmap := %s" % lean_list(t["inmap"]))
        out.append("    degen := [" + ",\n      ".join(lean_list(r) for r in t["degen"]) + "]")
        out.append("    ndegen := %s" % lean_list(t["ndegen"]))
        out.append("    complement := %s }" % ("none" if t["complement"] is None else "some " + lean_list(t["complement"])))
        out.append("def %s_symlen : Nat := %d" % (t["name"], t["symlen"]))
        out.append("")
    out.append("end EaselModel.Generated.Alphabets")
    return "\n".join(out) + "\n"


def generate(ctx):
    tabs, consts = dump_tables(ctx.src, ctx.work)
    ctx.stats["alphabet_tables"] = {t["name"]: {"K": t["K"], "Kp": t["Kp"]} for t in tabs}
    aux = dump_aux(ctx.src, ctx.work)
    return {"EaselModel/Generated/Alphabets.lean": render(tabs, consts),
            "EaselModel/Generated/AlphabetsAux.lean": render_aux(aux)}, tabs, consts
