#!/usr/bin/env python3
"""c2lean.py — translate straight-line numeric C functions to Lean 4 definitions polymorphic over `Num α`
(DESIGN §2.1 kind T).  Input: clang-14's JSON AST of the *current* source; output: Lean source text.

Supported subset (anything else raises `Unsupported`, which the engine turns into a failed obligation):
  * parameters and locals of type `double` (plus one `ESL_RANDOMNESS *` parameter, which becomes the positive
    uniform deviate `u` that `esl_rnd_UniformPositive(r)` yields — it may be called at most once);
  * declarations with or without initialiser, `=`, `+= -= *= /=`, `if/else`, `return`, `?:`, empty statements;
  * `+ - * /`, unary `-`, parentheses, comparisons `< <= > >= == !=`, `&& || !` in conditions;
  * calls to the libm functions of `LIBM`, to functions already translated in this run,
    `esl_stats_LogGamma(e,&v)` and `esl_stats_IncompleteGamma(a,x,&p|NULL,&q|NULL)` as statements
    (they become `let v := Num.logGamma e` etc.), `INFINITY` (`__builtin_inff()`);
  * floating literals are emitted from their SOURCE TEXT (through macro expansions such as `eslSMALLX1`,
    `eslCONST_PI`), never from the rounded double; the text is checked to denote the value clang parsed.
Control flow is rendered in continuation style: the statements following an `if` are appended to each branch that
does not return, so every path of the C function is one `if … then … else …` path of the Lean term.

Round-3 extensions (same command line, same `translate_all` interface; existing output unchanged):
  * `do { … } while (c);` and `while (c) { … }` with `break` and early `return`: each loop becomes a top-level helper
    `<fn>_loop<k>` that recurses structurally on a FUEL argument (`none` = fuel exhausted: the C loop would still be
    running) and whose arguments are the variables in scope at loop entry; the code after the loop becomes
    `<fn>_exit<k>`.  A function containing a loop takes a leading `fuel : Nat` and returns `Option α`; a call to such
    a function is accepted in tail position (`return f(…)`).  Variables first assigned inside a loop body are local to
    one iteration (a later use is an unknown identifier in Lean, i.e. a loud failure).
  * counted loops `for (k = c; k < N; k++) body` (no `break`/`return`, one variable carried) become
    `(List.range' c (N - c)).foldl (fun v k => …) v`;
  * `int`/`int64_t` parameters and loop counters (`Nat`), `double *` parameters and members (`List α`, read with
    `getD · 0.0`, written with `List.set`), pointers to the parameter structures `ESL_HYPEREXP`, `ESL_MIXGEV`
    (a Lean `structure` with the members the translated functions use; `h->wrk[k] = e` updates the structure value
    local to the call: the scratch vector is not carried across calls), `void *params` immediately cast to one of these.

Round-6 extension: a primitive draw INSIDE a `do … while` / `while` loop (`esl_gam_Sample`'s redraw loop).  The generator
parameter then becomes the STREAM of variates `u : Nat → α` (an array as a function); the draw in iteration `i` of the loop
(`i = fuel − (gas + 1)`, `gas` = the iterations still allowed) reads `u i`.  `none` = fuel exhausted = the C loop would draw again.
"""
import json, os, re, subprocess, sys

LIBM = {"exp": "Num.exp", "log": "Num.log", "log1p": "Num.log1p", "expm1": "Num.expm1", "pow": "Num.pow", "sqrt": "Num.sqrt", "floor": "Num.floor",
        "fabs": "Num.fabs", "erfc": "Num.erfc", "esl_stats_erfc": "Num.erfc"}
LEAN_KEYWORDS = {"at", "in", "from", "end", "then", "do", "open", "fun", "let", "have", "show", "where", "with", "if",
                 "else", "by", "Type", "Prop", "Sort", "def", "theorem", "instance", "class", "structure", "match",
                 "mut", "for", "return", "import", "namespace", "section", "variable", "universe", "using", "calc",
                 "u", "α", "inf", "exp", "log", "log1p", "expm1", "pow", "sqrt", "floor", "fabs", "erfc"}
CMP = {"<", "<=", ">", ">=", "==", "!="}
INT_TYPES = {"int", "int64_t", "const int", "const int64_t", "long", "const long"}
ARR_TYPES = {"double *", "const double *"}
STRUCT_TYPES = {"ESL_HYPEREXP *": "ESL_HYPEREXP", "ESL_MIXGEV *": "ESL_MIXGEV"}
DBL_TYPES = {"double", "const double"}


class Unsupported(Exception):
    pass


def clang_docs(src_dir, cfile, filt):
    cmd = ["clang-14", "-Xclang", "-ast-dump=json", "-Xclang", "-ast-dump-filter=" + filt, "-fsyntax-only",
           "-I" + src_dir, os.path.join(src_dir, cfile)]
    p = subprocess.run(cmd, cwd=src_dir, stdout=subprocess.PIPE, stderr=subprocess.PIPE, text=True)
    if p.returncode != 0:
        raise Unsupported("clang failed on %s: %s" % (cfile, p.stderr[-800:]))
    txt, dec, i, docs = p.stdout, json.JSONDecoder(), 0, []
    while True:
        while i < len(txt) and txt[i].isspace():
            i += 1
        if i >= len(txt):
            break
        d, i = dec.raw_decode(txt, i)
        docs.append(d)
    return docs


def resolve_files(docs, main_file):
    """clang elides "file" when it equals the last one printed: walk in print order and annotate every location."""
    cur = [main_file]

    def walk(n):
        if isinstance(n, dict):
            if "offset" in n:
                if "file" in n:
                    cur[0] = n["file"]
                n["_file"] = cur[0]
            for v in n.values():
                walk(v)
        elif isinstance(n, list):
            for v in n:
                walk(v)
    for d in docs:
        walk(d)


class FileCache:
    def __init__(self, src_dir):
        self.src_dir, self.c = src_dir, {}

    def read(self, name):
        if name not in self.c:
            p = name if os.path.isabs(name) else os.path.join(self.src_dir, name)
            with open(p, "rb") as f:
                self.c[name] = f.read()
        return self.c[name]


def lean_float_literal(text, value, where):
    """C floating literal text -> Lean scientific literal with exactly the same decimal digits."""
    m = re.fullmatch(r"(\d*)(?:\.(\d*))?(?:[eE]([+-]?\d+))?", text)
    if not m or (m.group(1) == "" and not m.group(2)):
        raise Unsupported("%s: floating literal %r not in the supported syntax" % (where, text))
    ip, fp, ex = m.group(1) or "0", m.group(2) or "0", m.group(3)
    if float(text) != float(value):
        raise Unsupported("%s: literal text %r does not denote the parsed value %s" % (where, text, value))
    out = "%s.%s" % (ip, fp)
    if ex is not None:
        out += "e%d" % int(ex)
    return out


class FnTranslator:
    def __init__(self, fdecl, cfile, files, known, structs=None, partial_fns=None):
        self.f, self.cfile, self.files, self.known = fdecl, cfile, files, known
        self.name = fdecl["name"]
        self.rng_param = None
        self.rng_used = 0
        self.rng_prim = None
        self.rng_args = []
        self.rng_stream = False    # round 6: the draw sits inside a do/while loop -> `u : Nat → α`
        self.status_checked = []   # round 6: `if (esl_stats_X(...) != eslOK) return eslNaN;` sites folded into the plain call
        self.choice = None
        self.n_leaves = 0
        self.leaf_paths = []
        self.path = []
        self.literals = []
        self.structs = structs if structs is not None else {}      # struct name -> {member: kind} (insertion ordered)
        self.partial_fns = partial_fns if partial_fns is not None else set()
        self.vkind = {}            # C variable -> 'd' | 'int' | 'arr' | 'struct:<NAME>' | 'void'
        self.helpers = []          # loop / exit helper definitions, in dependency order
        self.nloops = 0
        self.loop_stack = []       # exit-call text of the enclosing do/while loops (None inside a counted for)
        self.partial = False

    def where(self, n=None):
        line = (n or self.f).get("loc", {}).get("line") or (n or self.f).get("range", {}).get("begin", {}).get("line")
        return "%s:%s(%s)" % (self.cfile, self.name, line if line else "?")

    def ident(self, s):
        return s + "_" if s in LEAN_KEYWORDS else s

    @staticmethod
    def kind_of(t):
        if t in DBL_TYPES:
            return "d"
        if t in INT_TYPES:
            return "int"
        if t in ARR_TYPES:
            return "arr"
        if t in STRUCT_TYPES:
            return "struct:" + STRUCT_TYPES[t]
        if t == "void *":
            return "void"
        return None

    def lean_type(self, kind):
        return {"d": "α", "int": "Nat", "arr": "List α", "rng": "α", "rngs": "Nat → α"}.get(kind) or "%s α" % kind.split(":", 1)[1]

    def strip(self, n, cstyle=False):
        while True:
            k = n["kind"]
            if k == "ParenExpr" or (cstyle and k == "CStyleCastExpr"):
                n = n["inner"][0]
            elif k == "ImplicitCastExpr" and n.get("castKind") in ("LValueToRValue", "NoOp", "IntegralCast", "BitCast"):
                n = n["inner"][0]
            else:
                return n

    # ---- expressions ------------------------------------------------------------------------
    def literal(self, n):
        b = n["range"]["begin"]
        loc = b.get("spellingLoc", b)
        fname, off, ln = loc.get("_file"), loc.get("offset"), loc.get("tokLen")
        text = None
        if fname and not fname.startswith("<") and off is not None:
            try:
                text = self.files.read(fname)[off:off + ln].decode()
            except OSError:
                text = None
        if text is None:                      # compiler built-in macro (DBL_EPSILON = __DBL_EPSILON__): 17 digits
            text = n["value"].replace("E", "e")
        lit = lean_float_literal(text, n["value"], self.where(n))
        self.literals.append(lit)
        return lit

    def is_inf_tree(self, n):
        k = n["kind"]
        if k == "CallExpr":
            return self.callee(n) in ("__builtin_inff", "__builtin_inf", "__builtin_huge_val", "__builtin_huge_valf")
        if k in ("ParenExpr",) or (k == "UnaryOperator" and n.get("opcode") == "-"):
            return self.is_inf_tree(n["inner"][0])
        return False

    def is_nan_tree(self, n):
        """`eslNaN`: `NAN` = `__builtin_nanf("")`, or `eslINFINITY/eslINFINITY`"""
        while n.get("kind") in ("ImplicitCastExpr", "ParenExpr", "CStyleCastExpr"):
            n = n["inner"][0]
        if n.get("kind") == "CallExpr":
            try:
                return self.callee(n) in ("__builtin_nanf", "__builtin_nan")
            except Unsupported:
                return False
        if n.get("kind") == "BinaryOperator" and n.get("opcode") == "/":
            return all(self.is_inf_tree(c) for c in n["inner"])
        return False

    def status_checked_call(self, s):
        """the CallExpr of `if (esl_stats_X(...) != eslOK) return eslNaN;` (no else), or None"""
        inner = s.get("inner", [])
        if len(inner) != 2 or s.get("hasInit") or s.get("hasVar"):
            return None
        c = self.strip(inner[0])
        if c.get("kind") != "BinaryOperator" or c.get("opcode") != "!=":
            return None
        call, ok = self.strip(c["inner"][0]), self.strip(c["inner"][1])
        if call.get("kind") != "CallExpr" or ok.get("kind") != "IntegerLiteral" or ok.get("value") != "0":
            return None
        try:
            if self.callee(call) not in ("esl_stats_IncompleteGamma", "esl_stats_LogGamma"):
                return None
        except Unsupported:
            return None
        th = self.flatten(inner[1])
        if len(th) != 1 or th[0].get("kind") != "ReturnStmt" or not th[0].get("inner") or not self.is_nan_tree(th[0]["inner"][0]):
            return None
        return call

    def callee(self, n):
        c = n["inner"][0]
        while c["kind"] in ("ImplicitCastExpr", "ParenExpr"):
            c = c["inner"][0]
        if c["kind"] != "DeclRefExpr":
            raise Unsupported("%s: indirect call" % self.where(n))
        return c["referencedDecl"]["name"]

    def var_kind(self, rd, n):
        nm = rd.get("name")
        if rd["kind"] not in ("VarDecl", "ParmVarDecl"):
            raise Unsupported("%s: reference to %s %s" % (self.where(n), rd["kind"], nm))
        return self.vkind.get(nm) or self.kind_of(rd["type"]["qualType"])

    def member(self, n, want):
        """h->name : register the member with the structure, return the Lean projection"""
        if not n.get("isArrow"):
            raise Unsupported("%s: member access by value" % self.where(n))
        base = self.strip(n["inner"][0])
        if base["kind"] != "DeclRefExpr":
            raise Unsupported("%s: member of a computed pointer" % self.where(n))
        bk = self.var_kind(base["referencedDecl"], n)
        if not bk or not bk.startswith("struct:"):
            raise Unsupported("%s: member of %s" % (self.where(n), base["referencedDecl"]["type"]["qualType"]))
        mk = self.kind_of(n["type"]["qualType"])
        if mk != want:
            raise Unsupported("%s: member %s of type %s where %s is expected" % (self.where(n), n.get("name"), n["type"]["qualType"], want))
        sn = bk.split(":", 1)[1]
        fields = self.structs.setdefault(sn, {})
        if fields.setdefault(n["name"], mk) != mk:
            raise Unsupported("%s: member %s used at two types" % (self.where(n), n["name"]))
        return "%s.%s" % (self.ident(base["referencedDecl"]["name"]), self.ident(n["name"]))

    def int_expr(self, n):
        c = self.strip(n)
        k = c["kind"]
        if k == "IntegerLiteral":
            return str(int(c["value"]))
        if k == "DeclRefExpr":
            if self.var_kind(c["referencedDecl"], c) != "int":
                raise Unsupported("%s: %s is not an integer variable" % (self.where(c), c["referencedDecl"].get("name")))
            return self.ident(c["referencedDecl"]["name"])
        if k == "MemberExpr":
            return self.member(c, "int")
        if k == "BinaryOperator" and c["opcode"] == "+":
            return "(%s + %s)" % (self.int_expr(c["inner"][0]), self.int_expr(c["inner"][1]))
        raise Unsupported("%s: integer expression of kind %s %s" % (self.where(c), k, c.get("opcode", "")))

    def ptr_expr(self, n):
        c = self.strip(n, cstyle=True)
        k = c["kind"]
        if k == "DeclRefExpr":
            if self.var_kind(c["referencedDecl"], c) != "arr":
                raise Unsupported("%s: %s is not a double array" % (self.where(c), c["referencedDecl"].get("name")))
            return self.ident(c["referencedDecl"]["name"])
        if k == "MemberExpr":
            return self.member(c, "arr")
        raise Unsupported("%s: pointer expression of kind %s" % (self.where(c), k))

    def struct_expr(self, n, sname):
        c = self.strip(n, cstyle=True)
        if c["kind"] == "DeclRefExpr" and self.var_kind(c["referencedDecl"], c) == "struct:" + sname:
            return self.ident(c["referencedDecl"]["name"])
        raise Unsupported("%s: %s argument expected" % (self.where(c), sname))

    def call_args(self, fn, n):
        args = n["inner"][1:]
        kinds = self.known[fn]
        if len(kinds) != len(args):
            raise Unsupported("%s: call to %s with %d arguments" % (self.where(n), fn, len(args)))
        out = []
        for a, kd in zip(args, kinds):
            if kd == "rng":
                # passing the generator on: the callee draws the (single) deviate
                self.rng_used += 1
                if self.rng_used > 1:
                    raise Unsupported("%s: more than one deviate drawn" % self.where(n))
                out.append("u")
            elif kd == "d":
                out.append(self.atom(a))
            elif kd == "int":
                out.append(self.wrap(self.int_expr(a)))
            elif kd == "arr":
                out.append(self.wrap(self.ptr_expr(a)))
            else:
                out.append(self.struct_expr(a, kd.split(":", 1)[1]))
        return " ".join(out)

    def expr(self, n):
        k = n["kind"]
        ty = n.get("type", {}).get("qualType")
        if k == "ParenExpr":
            return self.expr(n["inner"][0])
        if k == "ImplicitCastExpr":
            ck = n["castKind"]
            if ck in ("LValueToRValue", "NoOp"):
                return self.expr(n["inner"][0])
            if ck == "IntegralToFloating":
                c = n["inner"][0]
                while c["kind"] == "ParenExpr":
                    c = c["inner"][0]
                if c["kind"] == "IntegerLiteral":
                    return "%d.0" % int(c["value"])
                if c["kind"] == "UnaryOperator" and c["opcode"] == "-" and c["inner"][0]["kind"] == "IntegerLiteral":
                    return "(-%d.0)" % int(c["inner"][0]["value"])
                raise Unsupported("%s: integer expression converted to double" % self.where(n))
            if ck == "FloatingCast" and self.is_inf_tree(n["inner"][0]):
                return self.expr(n["inner"][0])
            raise Unsupported("%s: cast %s" % (self.where(n), ck))
        if k == "FloatingLiteral":
            if ty != "double":
                raise Unsupported("%s: %s literal" % (self.where(n), ty))
            return self.literal(n)
        if k == "DeclRefExpr":
            rd = n["referencedDecl"]
            if rd["kind"] not in ("VarDecl", "ParmVarDecl") or rd["type"]["qualType"] not in ("double", "const double"):
                raise Unsupported("%s: reference to %s %s of type %s" % (self.where(n), rd["kind"], rd.get("name"), rd["type"]["qualType"]))
            return self.ident(rd["name"])
        if k == "MemberExpr":
            return self.member(n, "d")
        if k == "ArraySubscriptExpr":
            if ty not in DBL_TYPES:
                raise Unsupported("%s: subscript at type %s" % (self.where(n), ty))
            return "(%s.getD %s 0.0)" % (self.ptr_expr(n["inner"][0]), self.int_expr(n["inner"][1]))
        if k == "UnaryOperator":
            if n["opcode"] == "-":
                return "(-%s)" % self.expr(n["inner"][0])
            if n["opcode"] == "+":
                return self.expr(n["inner"][0])
            raise Unsupported("%s: unary %s" % (self.where(n), n["opcode"]))
        if k == "BinaryOperator":
            op = n["opcode"]
            if op in ("+", "-", "*", "/"):
                if ty != "double":
                    raise Unsupported("%s: arithmetic at type %s" % (self.where(n), ty))
                return "(%s %s %s)" % (self.expr(n["inner"][0]), op, self.expr(n["inner"][1]))
            raise Unsupported("%s: binary %s in value position" % (self.where(n), op))
        if k == "ConditionalOperator":
            c, a, b = n["inner"]
            return "(if %s then %s else %s)" % (self.cond(c), self.expr(a), self.expr(b))
        if k == "CallExpr":
            fn = self.callee(n)
            args = n["inner"][1:]
            if fn in ("__builtin_inff", "__builtin_inf", "__builtin_huge_val", "__builtin_huge_valf"):
                return "Num.inf"
            if fn in LIBM:
                return "(%s %s)" % (LIBM[fn], " ".join(self.atom(a) for a in args))
            if fn in RNG_PRIMS:
                # the one variate drawn from the generator becomes the parameter `u`; which primitive (and with which
                # arguments) yields it is recorded for the docstring and the harness
                self.rng_used += 1
                if self.rng_used > 1:
                    raise Unsupported("%s: more than one deviate drawn" % self.where(n))
                self.rng_prim = fn
                self.rng_args = [self.expr(x) for x in args[1:]]     # e.g. the shape passed to esl_rnd_Gamma
                if self.rng_stream:
                    if len(self.loop_stack) != 1 or self.loop_stack[0] is None:
                        raise Unsupported("%s: a streamed draw must sit directly in one do/while loop" % self.where(n))
                    return "(u (fuel - (gas + 1)))"          # iteration index of the enclosing loop helper
                return "u"
            if fn in self.known:
                if fn in self.partial_fns:
                    raise Unsupported("%s: call to the loop-containing %s outside tail position" % (self.where(n), fn))
                return "(%s %s)" % (fn, self.call_args(fn, n))
            raise Unsupported("%s: call to %s is outside the translated subset" % (self.where(n), fn))
        raise Unsupported("%s: expression kind %s" % (self.where(n), k))

    def atom(self, n):
        e = self.expr(n)
        return e if re.fullmatch(r"[\w.]+|\(.*\)", e) and not re.fullmatch(r"[\d.]+e-\d+", e) else "(%s)" % e

    def cond(self, n):
        k = n["kind"]
        if k == "ParenExpr":
            return self.cond(n["inner"][0])
        if k == "BinaryOperator":
            op = n["opcode"]
            if op in CMP:
                a, b = self.expr(n["inner"][0]), self.expr(n["inner"][1])
                # `e < eslINFINITY` / `eslINFINITY > e`: "e is below +infinity".  eslINFINITY has no real value (the ℝ
                # instance keeps `Num.inf` opaque), so this test is its own class operation: `x < inf` on binary64,
                # `true` on ℝ (every real number is below +infinity).
                if (op == "<" and b == "Num.inf") or (op == ">" and a == "Num.inf"):
                    return "(Num.ltInf %s = true)" % self.atomize(a if op == "<" else b)
                return {"<": "(%s < %s)" % (a, b), "<=": "(%s ≤ %s)" % (a, b),
                        ">": "(%s < %s)" % (b, a), ">=": "(%s ≤ %s)" % (b, a),
                        "==": "(Num.eqb %s %s = true)" % (self.atomize(a), self.atomize(b)),
                        "!=": "(Num.eqb %s %s = false)" % (self.atomize(a), self.atomize(b))}[op]
            if op == "&&":
                return "(%s ∧ %s)" % (self.cond(n["inner"][0]), self.cond(n["inner"][1]))
            if op == "||":
                return "(%s ∨ %s)" % (self.cond(n["inner"][0]), self.cond(n["inner"][1]))
        if k == "UnaryOperator" and n["opcode"] == "!":
            return "(¬ %s)" % self.cond(n["inner"][0])
        raise Unsupported("%s: condition of kind %s %s" % (self.where(n), k, n.get("opcode", "")))

    def atomize(self, e):
        return e if re.fullmatch(r"\w+|\(.*\)", e) else "(%s)" % e

    def wrap(self, e):
        return e if re.fullmatch(r"[\w.]+|\(.*\)", e) and not re.fullmatch(r"[\d.]+e-\d+", e) else "(%s)" % e

    # ---- statements -------------------------------------------------------------------------
    def outparam(self, a):
        """&v -> 'v' ; NULL -> None"""
        c = a
        while c["kind"] in ("ImplicitCastExpr", "ParenExpr", "CStyleCastExpr"):
            if c["kind"] == "ImplicitCastExpr" and c.get("castKind") == "NullToPointer":
                return None
            c = c["inner"][0]
        if c["kind"] == "UnaryOperator" and c["opcode"] == "&":
            d = c["inner"][0]
            if d["kind"] == "DeclRefExpr" and d["referencedDecl"]["type"]["qualType"] == "double":
                return self.ident(d["referencedDecl"]["name"])
        if c["kind"] == "IntegerLiteral" and c["value"] == "0":
            return None
        raise Unsupported("%s: out-parameter form" % self.where(a))

    def flatten(self, n):
        if n is None:
            return []
        if n["kind"] == "CompoundStmt":
            out = []
            for c in n.get("inner", []):
                out.extend(self.flatten(c))
            return out
        return [n]

    def terminates(self, stmts):
        for s in stmts:
            if s["kind"] in ("ReturnStmt", "BreakStmt"):
                return True
            if s["kind"] == "IfStmt":
                inner = s["inner"]
                if len(inner) == 3 and self.terminates(self.flatten(inner[1])) and self.terminates(self.flatten(inner[2])):
                    return True
        return False

    def contains_kind(self, n, kinds):
        if isinstance(n, dict):
            if n.get("kind") in kinds:
                return True
            return any(self.contains_kind(c, kinds) for c in n.get("inner", []))
        return False

    def lhs_root(self, lhs):
        """variable that an assignment through `lhs` changes: `v`, `v[i]`, `h->m[i]`"""
        c = self.strip(lhs)
        if c["kind"] == "ArraySubscriptExpr":
            c = self.strip(c["inner"][0], cstyle=True)
        if c["kind"] == "MemberExpr":
            c = self.strip(c["inner"][0])
        if c["kind"] == "DeclRefExpr":
            return c["referencedDecl"]["name"]
        raise Unsupported("%s: assignment target" % self.where(lhs))

    def assigned_roots(self, n, out):
        if isinstance(n, dict):
            k = n.get("kind")
            if (k == "BinaryOperator" and n.get("opcode") == "=") or k == "CompoundAssignOperator":
                r = self.lhs_root(n["inner"][0])
                if r not in out:
                    out.append(r)
            if k == "UnaryOperator" and n.get("opcode") in ("++", "--"):
                r = self.lhs_root(n["inner"][0])
                if r not in out:
                    out.append(r)
            for c in n.get("inner", []):
                self.assigned_roots(c, out)
        return out

    def refs(self, n, out):
        if isinstance(n, dict):
            if n.get("kind") == "DeclRefExpr" and n.get("referencedDecl", {}).get("kind") in ("VarDecl", "ParmVarDecl"):
                out.add(n["referencedDecl"]["name"])
            for c in n.get("inner", []):
                self.refs(c, out)
        return out

    def live_in(self, stmts, v):
        """is the value `v` holds on entry to `stmts` read before `v` is assigned again? (conservative: a compound statement
           that mentions `v` counts as a read)"""
        for st in stmts:
            c = self.strip(st) if st.get("kind") in ("ParenExpr", "ImplicitCastExpr") else st
            if c.get("kind") == "BinaryOperator" and c.get("opcode") == "=" and self.lhs_root(c["inner"][0]) == v \
                    and self.strip(c["inner"][0])["kind"] == "DeclRefExpr" and v not in self.refs(c["inner"][1], set()):
                return False
            if v in self.refs(st, set()):
                return True
        return False

    def binders(self, names):
        """`(a b : α) (h : ESL_HYPEREXP α)` for the variables `names` (C names)"""
        out, run, last = [], [], None
        for nm in names:
            t = self.lean_type(self.vkind[nm])
            if t != last and run:
                out.append("(%s : %s)" % (" ".join(run), last)); run = []
            run.append("u" if self.vkind[nm] in ("rng", "rngs") else self.ident(nm)); last = t
        if run:
            out.append("(%s : %s)" % (" ".join(run), last))
        return " ".join(out)

    def ret(self, e):
        return "some %s" % self.wrap(e) if self.partial else e

    def block(self, stmts, ind, scope=()):
        """stmts: list of statement nodes forming the rest of the function on this path -> Lean term lines.
           scope: the C variables that hold a value at this point (in order of first definition)."""
        pad = "  " * ind
        scope = list(scope)
        if not stmts:
            raise Unsupported("%s: control reaches the end of the function without a return" % self.where())
        s, rest = stmts[0], stmts[1:]
        k = s["kind"]

        def define(v):
            return scope if v in scope else scope + [v]

        if k == "NullStmt":
            return self.block(rest, ind, scope)
        if k == "CompoundStmt":
            return self.block(self.flatten(s) + rest, ind, scope)
        if k == "_Yield":
            return [pad + self.ident(s["var"])]
        if k == "_LoopTest":
            call = "%s fuel %s gas" % (s["loop"], " ".join("u" if self.vkind[v] in ("rng", "rngs") else self.ident(v) for v in s["pars"]))
            if s["cond"] is None:
                return [pad + call]
            return [pad + "if %s then" % self.cond(s["cond"]), pad + "  " + call, pad + "else", pad + "  " + s["exit"]]
        if k == "BreakStmt":
            if not self.loop_stack or self.loop_stack[-1] is None:
                raise Unsupported("%s: break outside a do/while loop" % self.where(s))
            return [pad + self.loop_stack[-1]]
        if k == "ReturnStmt":
            if not s.get("inner"):
                raise Unsupported("%s: return without value" % self.where(s))
            e = s["inner"][0]
            c = self.strip(e)
            if c["kind"] == "CallExpr" and self.callee(c) in self.partial_fns:
                fn = self.callee(c)
                if not self.partial:
                    raise Unsupported("%s: tail call to %s from a function not marked partial" % (self.where(s), fn))
                return [pad + "%s fuel %s" % (fn, self.call_args(fn, c))]
            self.n_leaves += 1
            self.leaf_paths.append(" ∧ ".join(self.path) or "always")
            return [pad + self.ret(self.expr(e)) + LEAF_MARK]
        if k == "DeclStmt":
            lines = []
            for v in s["inner"]:
                if v["kind"] != "VarDecl":
                    raise Unsupported("%s: declaration" % self.where(s))
                if v.get("storageClass"):
                    raise Unsupported("%s: %s variable" % (self.where(s), v["storageClass"]))
                t = v["type"]["qualType"]
                kd = self.kind_of(t)
                if kd == "d":
                    self.vkind[v["name"]] = "d"
                    if v.get("inner"):
                        lines.append(pad + "let %s := %s" % (self.ident(v["name"]), self.expr(v["inner"][0])))
                        scope = define(v["name"])
                elif kd == "int" and not v.get("inner"):
                    self.vkind[v["name"]] = "int"            # a loop counter: gets its value from a counted `for`
                elif kd in ("arr",) or (kd or "").startswith("struct:"):
                    # `double *p = (double *) params;` / `ESL_X *h = (ESL_X *) params;` : a typed view of the void* parameter
                    src = self.strip(v["inner"][0], cstyle=True) if v.get("inner") else None
                    if not src or src["kind"] != "DeclRefExpr" or self.vkind.get(src["referencedDecl"]["name"]) not in ("void", kd):
                        raise Unsupported("%s: declaration of %s : %s" % (self.where(s), v.get("name"), t))
                    self.vkind[src["referencedDecl"]["name"]] = kd
                    self.vkind[v["name"]] = kd
                    lines.append(pad + "let %s := %s" % (self.ident(v["name"]), self.ident(src["referencedDecl"]["name"])))
                    scope = define(v["name"])
                else:
                    raise Unsupported("%s: declaration of %s : %s" % (self.where(s), v.get("name"), t))
            return lines + self.block(rest, ind, scope)
        if k in ("BinaryOperator", "CompoundAssignOperator"):
            op = s["opcode"]
            lhs = self.strip(s["inner"][0])
            if op not in ("=", "+=", "-=", "*=", "/="):
                raise Unsupported("%s: statement %s" % (self.where(s), op))
            rhs_node = s["inner"][1]
            # chained assignment a = b = e
            if rhs_node["kind"] == "BinaryOperator" and rhs_node["opcode"] == "=":
                raise Unsupported("%s: chained assignment" % self.where(s))
            if lhs["kind"] == "ArraySubscriptExpr":
                if lhs["type"]["qualType"] != "double":
                    raise Unsupported("%s: store at type %s" % (self.where(s), lhs["type"]["qualType"]))
                cur = self.expr(lhs)
                rhs = self.expr(rhs_node)
                if op != "=":
                    rhs = "(%s %s %s)" % (cur, op[0], rhs)
                base = self.strip(lhs["inner"][0], cstyle=True)
                idx = self.int_expr(lhs["inner"][1])
                arr = self.ptr_expr(lhs["inner"][0])
                if base["kind"] == "MemberExpr":
                    hv, fld = arr.split(".", 1)
                    return [pad + "let %s := { %s with %s := %s.set %s %s }" % (hv, hv, fld, arr, idx, self.wrap(rhs))] + self.block(rest, ind, scope)
                return [pad + "let %s := %s.set %s %s" % (arr, arr, idx, self.wrap(rhs))] + self.block(rest, ind, scope)
            if lhs["kind"] != "DeclRefExpr":
                raise Unsupported("%s: statement %s" % (self.where(s), op))
            rc = self.strip(rhs_node)
            if op == "=" and rc["kind"] == "CallExpr" and self.callee(rc) == "esl_rnd_DChoose" \
                    and self.vkind.get(lhs["referencedDecl"]["name"]) == "int":
                # `k = esl_rnd_DChoose(r, p, K)`: the component the generator chooses becomes a parameter `k : Nat`
                if self.choice is not None:
                    raise Unsupported("%s: more than one esl_rnd_DChoose" % self.where(s))
                self.choice = lhs["referencedDecl"]["name"]
                return self.block(rest, ind, define(self.choice))
            v = self.expr(lhs)
            rhs = self.expr(rhs_node)
            if op != "=":
                rhs = "(%s %s %s)" % (v, op[0], rhs)
            return [pad + "let %s := %s" % (v, rhs)] + self.block(rest, ind, define(lhs["referencedDecl"]["name"]))
        if k == "CallExpr":
            fn = self.callee(s)
            args = s["inner"][1:]
            if fn == "esl_stats_LogGamma" and len(args) == 2:
                v = self.outparam(args[1])
                if v is None:
                    raise Unsupported("%s: LogGamma without result" % self.where(s))
                return [pad + "let %s := Num.logGamma %s" % (v, self.atom(args[0]))] + self.block(rest, ind, define(v))
            if fn == "esl_stats_IncompleteGamma" and len(args) == 4:
                a, x = self.atom(args[0]), self.atom(args[1])
                p, q = self.outparam(args[2]), self.outparam(args[3])
                lines = []
                if p is not None:
                    lines.append(pad + "let %s := Num.incGammaP %s %s" % (p, a, x)); scope = define(p)
                if q is not None:
                    lines.append(pad + "let %s := Num.incGammaQ %s %s" % (q, a, x)); scope = define(q)
                return lines + self.block(rest, ind, scope)
            raise Unsupported("%s: call statement %s" % (self.where(s), fn))
        if k == "IfStmt" and self.status_checked_call(s) is not None:
            # `if (esl_stats_IncompleteGamma(a, x, &p, &q) != eslOK) return eslNaN;` (resp. esl_stats_LogGamma): the function
            # symbols `Num.incGammaP/Q`, `Num.logGamma` denote the class's junk value exactly where the C function fails - NaN at
            # binary64 - so the failure branch `return NaN` is the same term as the unchecked call followed by the rest of the
            # function (every use of the unset result propagates the NaN).  Both shapes translate to the same definition.
            self.status_checked.append(self.where(s))
            return self.block([self.status_checked_call(s)] + rest, ind, scope)
        if k == "IfStmt":
            if s.get("hasInit") or s.get("hasVar"):
                raise Unsupported("%s: if with init/var" % self.where(s))
            inner = s["inner"]
            c = self.cond(inner[0])
            th = self.flatten(inner[1])
            el = self.flatten(inner[2]) if len(inner) > 2 else []
            th_full = th if self.terminates(th) else th + rest
            el_full = el if (el and self.terminates(el)) else el + rest
            self.path.append(c)
            th_lines = self.block(th_full, ind + 1, scope)
            self.path[-1] = "¬" + c
            el_lines = self.block(el_full, ind + 1, scope)
            self.path.pop()
            return [pad + "if %s then" % c] + th_lines + [pad + "else"] + el_lines
        if k == "ForStmt":
            return self.for_loop(s, rest, ind, scope)
        if k in ("DoStmt", "WhileStmt"):
            return self.fuel_loop(s, rest, ind, scope)
        raise Unsupported("%s: statement kind %s" % (self.where(s), k))

    def for_loop(self, s, rest, ind, scope):
        """`for (k = c; k < N; k++) body` carrying one variable -> a fold over `List.range' c (N - c)`"""
        pad = "  " * ind
        inner = s["inner"]
        if len(inner) != 5 or inner[1]:
            raise Unsupported("%s: for statement form" % self.where(s))
        init, _, cond, inc, body = inner
        try:
            if init["kind"] != "BinaryOperator" or init["opcode"] != "=":
                raise KeyError
            kv_node = self.strip(init["inner"][0])
            kv = kv_node["referencedDecl"]["name"]
            if self.var_kind(kv_node["referencedDecl"], s) != "int":
                raise KeyError
            start = self.strip(init["inner"][1])
            if start["kind"] != "IntegerLiteral":
                raise KeyError
            start = int(start["value"])
            if cond["kind"] != "BinaryOperator" or cond["opcode"] != "<" or self.strip(cond["inner"][0]).get("referencedDecl", {}).get("name") != kv:
                raise KeyError
            bound = self.int_expr(cond["inner"][1])
            if inc["kind"] != "UnaryOperator" or inc["opcode"] != "++" or self.strip(inc["inner"][0]).get("referencedDecl", {}).get("name") != kv:
                raise KeyError
        except (KeyError, TypeError):
            raise Unsupported("%s: only `for (k = c; k < N; k++)` is a counted loop" % self.where(s))
        if self.contains_kind(body, ("ReturnStmt", "BreakStmt", "ContinueStmt", "GotoStmt", "DoStmt", "WhileStmt")):
            raise Unsupported("%s: early exit from a counted loop" % self.where(s))
        carried = self.assigned_roots(body, [])
        if kv in carried:
            raise Unsupported("%s: loop counter assigned in the body" % self.where(s))
        if len(carried) != 1 or carried[0] not in scope:
            raise Unsupported("%s: a counted loop must carry exactly one variable that holds a value (carries %s)" % (self.where(s), carried))
        cv = self.ident(carried[0])
        rng = "List.range %s" % bound if start == 0 else "List.range' %d (%s - %d)" % (start, bound, start)
        self.loop_stack.append(None)
        lines = [pad + "let %s := (%s).foldl (fun %s %s =>" % (cv, rng, cv, self.ident(kv))]
        lines += self.block(self.flatten(body) + [{"kind": "_Yield", "var": carried[0]}], ind + 2, scope)
        self.loop_stack.pop()
        lines[-1] += ") %s" % cv
        return lines + self.block(rest, ind, scope)

    def fuel_loop(self, s, rest, ind, scope):
        pad = "  " * ind
        self.nloops += 1
        idx = self.nloops
        if not self.partial:
            raise Unsupported("%s: loop in a function not marked partial" % self.where(s))
        body, cond = (s["inner"][0], s["inner"][1]) if s["kind"] == "DoStmt" else (s["inner"][1], s["inner"][0])
        if self.contains_kind(body, ("ContinueStmt", "GotoStmt")):
            raise Unsupported("%s: continue/goto in a loop" % self.where(s))
        pars = list(scope)
        loop_name, exit_name = "%s_loop%d" % (self.name, idx), "%s_exit%d" % (self.name, idx)
        bind = self.binders(pars)
        names = " ".join("u" if self.vkind[v] in ("rng", "rngs") else self.ident(v) for v in pars)
        # round 6: a variable declared before a do-while without a value, assigned in its body (which runs at least once) and
        # read after the loop before being assigned again is handed to the continuation (`double x; do { x = … } while (…); return x;`)
        live = []
        if s["kind"] == "DoStmt":
            live = [v for v in self.assigned_roots(body, []) if v not in pars and self.vkind.get(v) == "d" and self.live_in(rest, v)]
        xpars = pars + live
        xnames = " ".join("u" if self.vkind[v] in ("rng", "rngs") else self.ident(v) for v in xpars)
        exit_lines = self.block(rest, 1, xpars)
        self.helpers.append("/-- `%s`: the code after loop %d (line %s) -/\ndef %s (fuel : Nat) %s : Option α :=\n%s\n" % (
            self.name, idx, s.get("range", {}).get("begin", {}).get("line", "?"), exit_name, self.binders(xpars), "\n".join(exit_lines)))
        exit_call = "%s fuel %s" % (exit_name, xnames)
        test = {"kind": "_LoopTest", "cond": cond, "loop": loop_name, "pars": pars, "exit": exit_call}
        self.loop_stack.append(exit_call)
        if s["kind"] == "DoStmt":
            body_lines = self.block(self.flatten(body) + [test], 2, pars)
        else:
            again = dict(test, cond=None)
            body_lines = ["    if %s then" % self.cond(cond)] + self.block(self.flatten(body) + [again], 3, pars) + ["    else", "      " + exit_call]
        self.loop_stack.pop()
        self.helpers.append("/-- `%s`: %s loop %d (line %s); `gas` counts the iterations still allowed, `none` = exhausted -/\n"
                            "def %s (fuel : Nat) %s : Nat → Option α\n  | 0 => none\n  | gas + 1 =>\n%s\n" % (
                                self.name, "do-while" if s["kind"] == "DoStmt" else "while", idx,
                                s.get("range", {}).get("begin", {}).get("line", "?"), loop_name, bind, "\n".join(body_lines)))
        return [pad + "%s fuel %s fuel" % (loop_name, names)]

    def translate(self):
        params, body = [], None
        kinds = []
        for c in self.f.get("inner", []):
            if c["kind"] == "ParmVarDecl":
                t = c["type"]["qualType"]
                kd = self.kind_of(t)
                if t == "ESL_RANDOMNESS *" and self.rng_param is None:
                    self.rng_param = c["name"]; kd = "rng"
                elif kd is None:
                    raise Unsupported("%s: parameter %s : %s" % (self.where(), c.get("name"), t))
                self.vkind[c["name"]] = kd
                params.append(c["name"])
            elif c["kind"] == "CompoundStmt":
                body = c
        if self.f["type"]["qualType"].split("(")[0].strip() != "double":
            raise Unsupported("%s: return type %s" % (self.where(), self.f["type"]["qualType"]))
        if body is None:
            raise Unsupported("%s: no body" % self.where())
        if self.rng_param is not None:
            for loop in self.collect(body, "DoStmt") + self.collect(body, "WhileStmt"):
                if any(self.callee(c) in RNG_PRIMS for c in self.collect(loop, "CallExpr")):
                    self.rng_stream = True
                    self.vkind[self.rng_param] = "rngs"
        self.partial = self.contains_kind(body, ("DoStmt", "WhileStmt")) or any(
            r.get("inner") and self.strip(r["inner"][0])["kind"] == "CallExpr" and self.callee(self.strip(r["inner"][0])) in self.partial_fns
            for r in self.collect(body, "ReturnStmt"))
        lines = self.block(self.flatten(body), 1, [p for p in params])
        if self.choice is not None:
            params.append(self.choice)
        if self.rng_param is not None and self.rng_used != 1:
            raise Unsupported("%s: generator parameter but %d deviates drawn" % (self.where(), self.rng_used))
        for p in params:
            if self.vkind[p] == "void":
                raise Unsupported("%s: void* parameter %s is never given a type" % (self.where(), p))
        kinds = [self.vkind[p] for p in params]
        line = self.f.get("loc", {}).get("line", "?")
        note = ""
        if self.rng_stream:
            note += "; `u i` = the variate the i-th call `%s(r, …)` yields (stream; `none` = fuel exhausted, the loop would draw again)" % self.rng_prim
        elif self.rng_prim and self.rng_prim != "esl_rnd_UniformPositive":
            note += "; `u` = the variate `%s(r, …)` yields" % self.rng_prim
        if self.choice is not None:
            note += "; `%s` = the component `esl_rnd_DChoose(r, …)` yields" % self.ident(self.choice)
        self.note = note
        if all(kd in ("d", "rng") for kd in kinds) and not self.partial:       # the round-1 form, unchanged
            head = "/-- `%s` (%s:%s)%s -/\ndef %s (%s : α) : α :=" % (
                self.name, self.cfile, line, note, self.name, " ".join("u" if self.vkind[p] == "rng" else self.ident(p) for p in params))
        else:
            head = "/-- `%s` (%s:%s)%s -/\ndef %s %s%s : %s :=" % (
                self.name, self.cfile, line, note, self.name, "(fuel : Nat) " if self.partial else "", self.binders(params),
                "Option α" if self.partial else "α")
        twin = ""
        self.has_leaf_twin = False
        if all(kd in ("d", "rng") for kd in kinds) and not self.partial and not self.helpers:
            # branch monitor: the same decision tree returning the number of the `return` statement reached (in source order
            # along the translated tree); the driver reports it next to the value so that the L0 monitors' coverage is per branch
            n, tl = 0, []
            for ln in lines:
                if ln.endswith(LEAF_MARK):
                    tl.append(ln[:len(ln) - len(ln.lstrip())] + str(n)); n += 1
                else:
                    tl.append(ln)
            twin = "/-- which `return` of `%s` is reached (branch monitor; numbered in the order of the translated tree) -/\ndef %s_leaf (%s : α) : Nat :=\n%s\n\n" % (
                self.name, self.name, " ".join("u" if self.vkind[p] == "rng" else self.ident(p) for p in params), "\n".join(tl))
            self.has_leaf_twin = True
            self.n_leaves = n
        self.has_draw = False
        if self.rng_args and ((all(kd in ("d", "rng") for kd in kinds) and not self.partial and not self.helpers) or self.rng_stream) \
                and all(re.fullmatch(r"[\w.()/*+\- ]+", e) and not (set(re.findall(r"[A-Za-z_]\w*", e)) - set(self.ident(p) for p in params if self.vkind[p] == "d") - {"Num"})
                        for e in self.rng_args):
            # the arguments handed to the primitive draw (functions of the parameters only)
            twin += "/-- the arguments `%s` passes to `%s(r, …)` -/\ndef %s_draw (%s : α) : List α :=\n  [%s]\n\n" % (
                self.name, self.rng_prim, self.name, " ".join(self.ident(p) for p in params if self.vkind[p] == "d"), ", ".join(self.rng_args))
            self.has_draw = True
        elif self.rng_args:
            raise Unsupported("%s: arguments of %s are not expressions of the parameters: %s" % (self.where(), self.rng_prim, self.rng_args))
        lines = [ln[:-len(LEAF_MARK)] if ln.endswith(LEAF_MARK) else ln for ln in lines]
        helpers = [h.replace(LEAF_MARK, "") for h in self.helpers]
        return "".join(h + "\n" for h in helpers) + head + "\n" + "\n".join(lines) + "\n" + ("\n" + twin if twin else ""), kinds

    def collect(self, n, kind):
        out = []
        if isinstance(n, dict):
            if n.get("kind") == kind:
                out.append(n)
            for c in n.get("inner", []):
                out.extend(self.collect(c, kind))
        return out


LEAF_MARK = "\x00LEAF"
RNG_PRIMS = ("esl_rnd_UniformPositive", "esl_rnd_Gamma", "esl_rnd_Gaussian")

HEADER = """import EaselModel.Dist.Num
/-! GENERATED on every run by translate/c2lean.py from the working tree's C sources — do not edit.
    Each definition is the C function of the same name, as clang-14 parsed it, over an arbitrary `Num` carrier. -/
set_option linter.unusedVariables false
namespace EaselModel.Dist.Gen
open EaselModel.Dist
variable {α : Type} [Add α] [Sub α] [Mul α] [Div α] [Neg α] [OfScientific α] [LT α] [LE α]
  [DecidableLT α] [DecidableLE α] [Num α]

"""


def translate_all(src_dir, plan):
    """plan: list of (cfile, filter_prefix, [function names in dependency order]).
       Returns (lean_text, info) ; raises Unsupported."""
    files = FileCache(src_dir)
    known = {}
    structs = {}
    partial_fns = set()
    chunks = []
    info = {"functions": [], "literals": set(), "rng_prim": {}, "leaves": {}}
    for cfile, filt, names in plan:
        docs = clang_docs(src_dir, cfile, filt)
        resolve_files(docs, cfile)
        defs = {}
        for d in docs:
            if d.get("kind") == "FunctionDecl" and any(c.get("kind") == "CompoundStmt" for c in d.get("inner", [])):
                defs[d["name"]] = d
        for nm in names:
            if nm not in defs:
                raise Unsupported("%s: function %s not found (renamed or removed?)" % (cfile, nm))
            t = FnTranslator(defs[nm], cfile, files, known, structs, partial_fns)
            text, kinds = t.translate()
            known[nm] = kinds
            if t.partial:
                partial_fns.add(nm)
            chunks.append(text)
            info["functions"].append(nm)
            info["literals"].update(t.literals)
            if t.has_leaf_twin:
                info["leaves"][nm] = t.n_leaves
                info.setdefault("leaf_paths", {})[nm] = list(t.leaf_paths)
            if t.has_draw:
                info.setdefault("draw_args", {})[nm] = list(t.rng_args)
            if t.status_checked:
                info.setdefault("status_checked_special_calls", {})[nm] = list(t.status_checked)
            if t.rng_prim or t.choice:
                info["rng_prim"][nm] = [x for x in (("esl_rnd_DChoose" if t.choice else None), t.rng_prim) if x]
    info["literals"] = sorted(info["literals"])
    info["arity"] = {nm: len(known[nm]) for nm in info["functions"]}
    info["rng"] = {nm: "rng" in known[nm] for nm in info["functions"]}
    info["kinds"] = {nm: list(known[nm]) for nm in info["functions"]}
    info["partial"] = sorted(partial_fns)
    info["structs"] = {sn: dict(f) for sn, f in structs.items()}
    scalar = lambda nm: all(kd in ("d", "rng") for kd in known[nm])
    disp = ["/-- name → translated function (a generator parameter is the leading deviate `u`) -/",
            "def dispatch (name : String) (a : List α) : Option α :=", "  match name, a with"]
    for nm in info["functions"]:
        if scalar(nm) and nm not in partial_fns:
            xs = ["x%d" % i for i in range(len(known[nm]))]
            disp.append('  | "%s", [%s] => some (%s %s)' % (nm, ", ".join(xs), nm, " ".join(xs)))
    disp.append("  | _, _ => none")
    disp += ["", "/-- name → number of the `return` reached (branch monitor) -/",
             "def dispatchLeaf (name : String) (a : List α) : Option Nat :=", "  match name, a with"]
    for nm in info["functions"]:
        if nm in info["leaves"]:
            xs = ["x%d" % i for i in range(len(known[nm]))]
            disp.append('  | "%s", [%s] => some (%s_leaf %s)' % (nm, ", ".join(xs), nm, " ".join(xs)))
    disp.append("  | _, _ => none")
    disp += ["", "/-- name → the arguments the sampler passes to its primitive draw -/",
             "def dispatchDraw (name : String) (a : List α) : Option (List α) :=", "  match name, a with"]
    for nm in info["functions"]:
        if nm in info.get("draw_args", {}):
            xs = ["x%d" % i for i in range(len(known[nm]) - 1)]
            disp.append('  | "%s", [%s] => some (%s_draw %s)' % (nm, ", ".join(xs), nm, " ".join(xs)))
    disp.append("  | _, _ => none")
    if partial_fns or any(not scalar(nm) for nm in info["functions"]):
        disp += ["", "/-- name → translated loop-containing function (`some none` = fuel exhausted) and the generic-API wrappers",
                 "    `f(x, void *params)` over a parameter vector -/",
                 "def dispatchP (fuel : Nat) (name : String) (a : List α) : Option (Option α) :=", "  match name, a with"]
        for nm in info["functions"]:
            if nm in partial_fns and scalar(nm):
                xs = ["x%d" % i for i in range(len(known[nm]))]
                disp.append('  | "%s", [%s] => some (%s fuel %s)' % (nm, ", ".join(xs), nm, " ".join(xs)))
            elif known[nm] == ["d", "arr"] and "_generic_" in nm:
                disp.append('  | "%s", x0 :: ps => some (%s%s x0 ps)' % (nm, "" if nm in partial_fns else "some (", nm + (" fuel" if nm in partial_fns else "")) + ("" if nm in partial_fns else ")"))
        disp.append("  | _, _ => none")
    sdecl = []
    for sn, fields in structs.items():
        sdecl.append("/-- the members of the C parameter structure `%s` that the translated functions use -/" % sn)
        sdecl.append("structure %s (α : Type) where" % sn)
        for fn_, kd in fields.items():
            sdecl.append("  %s : %s" % (fn_ + "_" if fn_ in LEAN_KEYWORDS else fn_, {"d": "α", "int": "Nat", "arr": "List α"}[kd]))
        sdecl.append("")
    head = HEADER
    if sdecl:
        head = HEADER.replace("namespace EaselModel.Dist.Gen\n", "namespace EaselModel.Dist.Gen\n" + "\n".join(sdecl) + "\n", 1)
    return head + "\n".join(chunks) + "\n" + "\n".join(disp) + "\n\nend EaselModel.Dist.Gen\n", info


GEN4 = ["generic_pdf", "generic_cdf", "generic_surv", "generic_invcdf"]
FAMILIES = [
    ("esl_exponential.c", "esl_exp_", ["esl_exp_pdf", "esl_exp_logpdf", "esl_exp_cdf", "esl_exp_logcdf", "esl_exp_surv",
                                       "esl_exp_logsurv", "esl_exp_invcdf", "esl_exp_invsurv", "esl_exp_Sample"] +
     ["esl_exp_" + g for g in GEN4]),
    ("esl_gumbel.c", "esl_gumbel_", ["esl_gumbel_pdf", "esl_gumbel_logpdf", "esl_gumbel_cdf", "esl_gumbel_logcdf",
                                     "esl_gumbel_surv", "esl_gumbel_logsurv", "esl_gumbel_invcdf", "esl_gumbel_invsurv",
                                     "esl_gumbel_Sample"] + ["esl_gumbel_" + g for g in GEN4]),
    ("esl_gev.c", "esl_gev_", ["esl_gev_pdf", "esl_gev_logpdf", "esl_gev_cdf", "esl_gev_logcdf", "esl_gev_surv",
                               "esl_gev_logsurv", "esl_gev_invcdf", "esl_gev_Sample"] + ["esl_gev_" + g for g in GEN4]),
    ("esl_weibull.c", "esl_wei_", ["esl_wei_pdf", "esl_wei_logpdf", "esl_wei_cdf", "esl_wei_logcdf", "esl_wei_surv",
                                   "esl_wei_logsurv", "esl_wei_invcdf", "esl_wei_Sample"] + ["esl_wei_" + g for g in GEN4]),
    # families on the special functions of esl_stats.c (function symbols of the class); their bracketing + bisection
    # inverses (do-while loops) recurse on fuel
    ("esl_stretchexp.c", "esl_sxp_", ["esl_sxp_pdf", "esl_sxp_logpdf", "esl_sxp_cdf", "esl_sxp_logcdf", "esl_sxp_surv",
                                      "esl_sxp_logsurv", "esl_sxp_invcdf", "esl_sxp_Sample"] + ["esl_sxp_" + g for g in GEN4]),
    ("esl_gamma.c", "esl_gam_", ["esl_gam_pdf", "esl_gam_logpdf", "esl_gam_cdf", "esl_gam_logcdf", "esl_gam_surv",
                                 "esl_gam_logsurv", "esl_gam_invcdf", "esl_gam_Sample"] + ["esl_gam_" + g for g in GEN4]),
    ("esl_normal.c", "esl_normal_", ["esl_normal_pdf", "esl_normal_logpdf", "esl_normal_cdf", "esl_normal_surv"] +
     ["esl_normal_" + g for g in GEN4[:3]]),
    ("esl_lognormal.c", "esl_lognormal_", ["esl_lognormal_pdf", "esl_lognormal_logpdf", "esl_lognormal_Sample"]),
    # the mixtures: counted loops over the components (folds), esl_vec_DLogSum for the log versions, bisection inverses
    ("esl_vectorops.c", "esl_vec_D", ["esl_vec_DMax", "esl_vec_DMin", "esl_vec_DLogSum"]),
    ("esl_hyperexp.c", "esl_hxp_", ["esl_hxp_pdf", "esl_hxp_logpdf", "esl_hxp_cdf", "esl_hxp_logcdf", "esl_hxp_surv",
                                    "esl_hxp_logsurv", "esl_hxp_invcdf", "esl_hxp_Sample"] + ["esl_hxp_" + g for g in GEN4]),
    ("esl_mixgev.c", "esl_mixgev_", ["esl_mixgev_pdf", "esl_mixgev_logpdf", "esl_mixgev_cdf", "esl_mixgev_logcdf",
                                     "esl_mixgev_surv", "esl_mixgev_logsurv", "esl_mixgev_invcdf", "esl_mixgev_Sample"] +
     ["esl_mixgev_" + g for g in GEN4]),
]

if __name__ == "__main__":
    src = sys.argv[1] if len(sys.argv) > 1 else "/repo"
    text, info = translate_all(src, FAMILIES)
    sys.stdout.write(text)
    sys.stderr.write("translated %d functions; literals: %s\n" % (len(info["functions"]), " ".join(info["literals"])))


def erfc_coefficients(src_dir):
    """kind G: the polynomial coefficients of esl_stats_erfc() (esl_stats.c), dumped from the working tree as binary64 bit
    patterns (Python's float() rounds the decimal text correctly, as the C compiler does).  The branch structure of the
    function is hand-modelled in Dist/FloatInst.lean (`erfcSun`) and tied bit-for-bit by the correspondence run."""
    import struct
    txt = open(os.path.join(src_dir, "esl_stats.c")).read()
    m = re.search(r"\nesl_stats_erfc\(double x\)\s*\{(.*?)\n\}", txt, re.S)
    if not m:
        raise Unsupported("esl_stats.c: esl_stats_erfc not found")
    body = m.group(1)
    names = ["erx", "pp0", "pp1", "pp2", "pp3", "pp4", "qq1", "qq2", "qq3", "qq4", "qq5",
             "pa0", "pa1", "pa2", "pa3", "pa4", "pa5", "pa6", "qa1", "qa2", "qa3", "qa4", "qa5", "qa6",
             "ra0", "ra1", "ra2", "ra3", "ra4", "ra5", "ra6", "ra7", "sa1", "sa2", "sa3", "sa4", "sa5", "sa6", "sa7", "sa8",
             "rb0", "rb1", "rb2", "rb3", "rb4", "rb5", "rb6", "sb1", "sb2", "sb3", "sb4", "sb5", "sb6", "sb7"]
    found = dict(re.findall(r"static\s+const\s+double\s+(\w+)\s*=\s*([-+0-9.eE]+)\s*;", body))
    out = ["/-! GENERATED on every run by translate/c2lean.py (erfc_coefficients) from esl_stats.c — do not edit. -/",
           "namespace EaselModel.Dist.ErfcCoef"]
    for n in names:
        if n not in found:
            raise Unsupported("esl_stats.c: coefficient %s of esl_stats_erfc not found" % n)
        v = float(found[n])
        out.append("def %s : Float := Float.ofBits 0x%016x  -- %s" % (n, struct.unpack("<Q", struct.pack("<d", v))[0], found[n]))
    extra = sorted(set(found) - set(names))
    if extra:
        raise Unsupported("esl_stats.c: esl_stats_erfc has coefficients the model does not know: %s" % extra)
    out.append("end EaselModel.Dist.ErfcCoef")
    return "\n".join(out) + "\n"
