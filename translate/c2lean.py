#!/usr/bin/env python3
"""c2lean.py — translate straight-line numeric C functions to Lean 4 definitions polymorphic over `Num α`
(DESIGN §2.1 kind T).  Input: clang-14's JSON AST of the *current* source; output: Lean source text.

Supported subset (anything else raises `Unsupported`, which the engine turns into a failed obligation):
  * parameters and locals of type `double` (plus one `ESL_RANDOMNESS *` parameter, which becomes the positive
    uniform deviate `u` that `esl_rnd_UniformPositive(r)` yields — it may be called at most once);
  * declarations with or without initialiser, `=`, `+= -= *= /=`, `if/else`, `return`, `?:`, empty statements;
  * `+ - * /`, unary `-`, parentheses, comparisons `< <= > >= == !=`, `&& || !` in conditions;
  * calls to the libm functions of `LIBM`, to functions already translated in this run,
    `esl_stats_LogGamma(e,&v)` and `esl_stats_IncompleteGamma(a,x,&p|NULL,&q|NULL)` as statements
    (they become `let v := Num.logGamma e` etc.), `INFINITY` (`__builtin_inff()`);
  * floating literals are emitted from their SOURCE TEXT (through macro expansions such as `eslSMALLX1`,
    `eslCONST_PI`), never from the rounded double; the text is checked to denote the value clang parsed.
Control flow is rendered in continuation style: the statements following an `if` are appended to each branch that
does not return, so every path of the C function is one `if … then … else …` path of the Lean term.
"""
import json, os, re, subprocess, sys

LIBM = {"exp": "Num.exp", "log": "Num.log", "log1p": "Num.log1p", "expm1": "Num.expm1", "pow": "Num.pow", "sqrt": "Num.sqrt", "floor": "Num.floor",
        "fabs": "Num.fabs", "erfc": "Num.erfc", "esl_stats_erfc": "Num.erfc"}
LEAN_KEYWORDS = {"at", "in", "from", "end", "then", "do", "open", "fun", "let", "have", "show", "where", "with", "if",
                 "else", "by", "Type", "Prop", "Sort", "def", "theorem", "instance", "class", "structure", "match",
                 "mut", "for", "return", "import", "namespace", "section", "variable", "universe", "using", "calc",
                 "u", "α", "inf", "exp", "log", "log1p", "expm1", "pow", "sqrt", "floor", "fabs", "erfc"}
CMP = {"<", "<=", ">", ">=", "==", "!="}


class Unsupported(Exception):
    pass


def clang_docs(src_dir, cfile, filt):
    cmd = ["clang-14", "-Xclang", "-ast-dump=json", "-Xclang", "-ast-dump-filter=" + filt, "-fsyntax-only",
           "-I" + src_dir, os.path.join(src_dir, cfile)]
    p = subprocess.run(cmd, cwd=src_dir, stdout=subprocess.PIPE, stderr=subprocess.PIPE, text=True)
    if p.returncode != 0:
        raise Unsupported("clang failed on %s: %s" % (cfile, p.stderr[-800:]))
    txt, dec, i, docs = p.stdout, json.JSONDecoder(), 0, []
    while True:
        while i < len(txt) and txt[i].isspace():
            i += 1
        if i >= len(txt):
            break
        d, i = dec.raw_decode(txt, i)
        docs.append(d)
    return docs


def resolve_files(docs, main_file):
    """clang elides "file" when it equals the last one printed: walk in print order and annotate every location."""
    cur = [main_file]

    def walk(n):
        if isinstance(n, dict):
            if "offset" in n:
                if "file" in n:
                    cur[0] = n["file"]
                n["_file"] = cur[0]
            for v in n.values():
                walk(v)
        elif isinstance(n, list):
            for v in n:
                walk(v)
    for d in docs:
        walk(d)


class FileCache:
    def __init__(self, src_dir):
        self.src_dir, self.c = src_dir, {}

    def read(self, name):
        if name not in self.c:
            p = name if os.path.isabs(name) else os.path.join(self.src_dir, name)
            with open(p, "rb") as f:
                self.c[name] = f.read()
        return self.c[name]


def lean_float_literal(text, value, where):
    """C floating literal text -> Lean scientific literal with exactly the same decimal digits."""
    m = re.fullmatch(r"(\d*)(?:\.(\d*))?(?:[eE]([+-]?\d+))?", text)
    if not m or (m.group(1) == "" and not m.group(2)):
        raise Unsupported("%s: floating literal %r not in the supported syntax" % (where, text))
    ip, fp, ex = m.group(1) or "0", m.group(2) or "0", m.group(3)
    if float(text) != float(value):
        raise Unsupported("%s: literal text %r does not denote the parsed value %s" % (where, text, value))
    out = "%s.%s" % (ip, fp)
    if ex is not None:
        out += "e%d" % int(ex)
    return out


class FnTranslator:
    def __init__(self, fdecl, cfile, files, known):
        self.f, self.cfile, self.files, self.known = fdecl, cfile, files, known
        self.name = fdecl["name"]
        self.rng_param = None
        self.rng_used = 0
        self.literals = []

    def where(self, n=None):
        line = (n or self.f).get("loc", {}).get("line") or (n or self.f).get("range", {}).get("begin", {}).get("line")
        return "%s:%s(%s)" % (self.cfile, self.name, line if line else "?")

    def ident(self, s):
        return s + "_" if s in LEAN_KEYWORDS else s

    # ---- expressions ------------------------------------------------------------------------
    def literal(self, n):
        b = n["range"]["begin"]
        loc = b.get("spellingLoc", b)
        fname, off, ln = loc.get("_file"), loc.get("offset"), loc.get("tokLen")
        text = None
        if fname and not fname.startswith("<") and off is not None:
            try:
                text = self.files.read(fname)[off:off + ln].decode()
            except OSError:
                text = None
        if text is None:                      # compiler built-in macro (DBL_EPSILON = __DBL_EPSILON__): 17 digits
            text = n["value"].replace("E", "e")
        lit = lean_float_literal(text, n["value"], self.where(n))
        self.literals.append(lit)
        return lit

    def is_inf_tree(self, n):
        k = n["kind"]
        if k == "CallExpr":
            return self.callee(n) in ("__builtin_inff", "__builtin_inf", "__builtin_huge_val", "__builtin_huge_valf")
        if k in ("ParenExpr",) or (k == "UnaryOperator" and n.get("opcode") == "-"):
            return self.is_inf_tree(n["inner"][0])
        return False

    def callee(self, n):
        c = n["inner"][0]
        while c["kind"] in ("ImplicitCastExpr", "ParenExpr"):
            c = c["inner"][0]
        if c["kind"] != "DeclRefExpr":
            raise Unsupported("%s: indirect call" % self.where(n))
        return c["referencedDecl"]["name"]

    def expr(self, n):
        k = n["kind"]
        ty = n.get("type", {}).get("qualType")
        if k == "ParenExpr":
            return self.expr(n["inner"][0])
        if k == "ImplicitCastExpr":
            ck = n["castKind"]
            if ck in ("LValueToRValue", "NoOp"):
                return self.expr(n["inner"][0])
            if ck == "IntegralToFloating":
                c = n["inner"][0]
                while c["kind"] == "ParenExpr":
                    c = c["inner"][0]
                if c["kind"] == "IntegerLiteral":
                    return "%d.0" % int(c["value"])
                if c["kind"] == "UnaryOperator" and c["opcode"] == "-" and c["inner"][0]["kind"] == "IntegerLiteral":
                    return "(-%d.0)" % int(c["inner"][0]["value"])
                raise Unsupported("%s: integer expression converted to double" % self.where(n))
            if ck == "FloatingCast" and self.is_inf_tree(n["inner"][0]):
                return self.expr(n["inner"][0])
            raise Unsupported("%s: cast %s" % (self.where(n), ck))
        if k == "FloatingLiteral":
            if ty != "double":
                raise Unsupported("%s: %s literal" % (self.where(n), ty))
            return self.literal(n)
        if k == "DeclRefExpr":
            rd = n["referencedDecl"]
            if rd["kind"] not in ("VarDecl", "ParmVarDecl") or rd["type"]["qualType"] not in ("double", "const double"):
                raise Unsupported("%s: reference to %s %s of type %s" % (self.where(n), rd["kind"], rd.get("name"), rd["type"]["qualType"]))
            return self.ident(rd["name"])
        if k == "UnaryOperator":
            if n["opcode"] == "-":
                return "(-%s)" % self.expr(n["inner"][0])
            if n["opcode"] == "+":
                return self.expr(n["inner"][0])
            raise Unsupported("%s: unary %s" % (self.where(n), n["opcode"]))
        if k == "BinaryOperator":
            op = n["opcode"]
            if op in ("+", "-", "*", "/"):
                if ty != "double":
                    raise Unsupported("%s: arithmetic at type %s" % (self.where(n), ty))
                return "(%s %s %s)" % (self.expr(n["inner"][0]), op, self.expr(n["inner"][1]))
            raise Unsupported("%s: binary %s in value position" % (self.where(n), op))
        if k == "ConditionalOperator":
            c, a, b = n["inner"]
            return "(if %s then %s else %s)" % (self.cond(c), self.expr(a), self.expr(b))
        if k == "CallExpr":
            fn = self.callee(n)
            args = n["inner"][1:]
            if fn in ("__builtin_inff", "__builtin_inf", "__builtin_huge_val", "__builtin_huge_valf"):
                return "Num.inf"
            if fn in LIBM:
                return "(%s %s)" % (LIBM[fn], " ".join(self.atom(a) for a in args))
            if fn == "esl_rnd_UniformPositive":
                self.rng_used += 1
                if self.rng_used > 1:
                    raise Unsupported("%s: more than one deviate drawn" % self.where(n))
                return "u"
            if fn in self.known:
                out = []
                for a, isr in zip(args, self.known[fn]):
                    if isr:
                        # passing the generator on: the callee draws the (single) deviate
                        self.rng_used += 1
                        if self.rng_used > 1:
                            raise Unsupported("%s: more than one deviate drawn" % self.where(n))
                        out.append("u")
                    else:
                        out.append(self.atom(a))
                return "(%s %s)" % (fn, " ".join(out))
            raise Unsupported("%s: call to %s is outside the translated subset" % (self.where(n), fn))
        raise Unsupported("%s: expression kind %s" % (self.where(n), k))

    def atom(self, n):
        e = self.expr(n)
        return e if re.fullmatch(r"[\w.]+|\(.*\)", e) and not re.fullmatch(r"[\d.]+e-\d+", e) else "(%s)" % e

    def cond(self, n):
        k = n["kind"]
        if k == "ParenExpr":
            return self.cond(n["inner"][0])
        if k == "BinaryOperator":
            op = n["opcode"]
            if op in CMP:
                a, b = self.expr(n["inner"][0]), self.expr(n["inner"][1])
                return {"<": "(%s < %s)" % (a, b), "<=": "(%s ≤ %s)" % (a, b),
                        ">": "(%s < %s)" % (b, a), ">=": "(%s ≤ %s)" % (b, a),
                        "==": "(Num.eqb %s %s = true)" % (self.atomize(a), self.atomize(b)),
                        "!=": "(Num.eqb %s %s = false)" % (self.atomize(a), self.atomize(b))}[op]
            if op == "&&":
                return "(%s ∧ %s)" % (self.cond(n["inner"][0]), self.cond(n["inner"][1]))
            if op == "||":
                return "(%s ∨ %s)" % (self.cond(n["inner"][0]), self.cond(n["inner"][1]))
        if k == "UnaryOperator" and n["opcode"] == "!":
            return "(¬ %s)" % self.cond(n["inner"][0])
        raise Unsupported("%s: condition of kind %s %s" % (self.where(n), k, n.get("opcode", "")))

    def atomize(self, e):
        return e if re.fullmatch(r"\w+|\(.*\)", e) else "(%s)" % e

    # ---- statements -------------------------------------------------------------------------
    def outparam(self, a):
        """&v -> 'v' ; NULL -> None"""
        c = a
        while c["kind"] in ("ImplicitCastExpr", "ParenExpr", "CStyleCastExpr"):
            if c["kind"] == "ImplicitCastExpr" and c.get("castKind") == "NullToPointer":
                return None
            c = c["inner"][0]
        if c["kind"] == "UnaryOperator" and c["opcode"] == "&":
            d = c["inner"][0]
            if d["kind"] == "DeclRefExpr" and d["referencedDecl"]["type"]["qualType"] == "double":
                return self.ident(d["referencedDecl"]["name"])
        if c["kind"] == "IntegerLiteral" and c["value"] == "0":
            return None
        raise Unsupported("%s: out-parameter form" % self.where(a))

    def flatten(self, n):
        if n is None:
            return []
        if n["kind"] == "CompoundStmt":
            out = []
            for c in n.get("inner", []):
                out.extend(self.flatten(c))
            return out
        return [n]

    def terminates(self, stmts):
        for s in stmts:
            if s["kind"] == "ReturnStmt":
                return True
            if s["kind"] == "IfStmt":
                inner = s["inner"]
                if len(inner) == 3 and self.terminates(self.flatten(inner[1])) and self.terminates(self.flatten(inner[2])):
                    return True
        return False

    def block(self, stmts, ind):
        """stmts: list of statement nodes forming the rest of the function on this path -> Lean term lines"""
        pad = "  " * ind
        if not stmts:
            raise Unsupported("%s: control reaches the end of the function without a return" % self.where())
        s, rest = stmts[0], stmts[1:]
        k = s["kind"]
        if k == "NullStmt":
            return self.block(rest, ind)
        if k == "CompoundStmt":
            return self.block(self.flatten(s) + rest, ind)
        if k == "ReturnStmt":
            if not s.get("inner"):
                raise Unsupported("%s: return without value" % self.where(s))
            return [pad + self.expr(s["inner"][0])]
        if k == "DeclStmt":
            lines = []
            for v in s["inner"]:
                if v["kind"] != "VarDecl" or v["type"]["qualType"] not in ("double", "const double"):
                    raise Unsupported("%s: declaration of %s : %s" % (self.where(s), v.get("name"), v.get("type", {}).get("qualType")))
                if v.get("storageClass"):
                    raise Unsupported("%s: %s variable" % (self.where(s), v["storageClass"]))
                if v.get("inner"):
                    lines.append(pad + "let %s := %s" % (self.ident(v["name"]), self.expr(v["inner"][0])))
            return lines + self.block(rest, ind)
        if k in ("BinaryOperator", "CompoundAssignOperator"):
            op = s["opcode"]
            lhs = s["inner"][0]
            if lhs["kind"] != "DeclRefExpr" or op not in ("=", "+=", "-=", "*=", "/="):
                raise Unsupported("%s: statement %s" % (self.where(s), op))
            v = self.expr(lhs)
            rhs_node = s["inner"][1]
            # chained assignment a = b = e
            if rhs_node["kind"] == "BinaryOperator" and rhs_node["opcode"] == "=":
                raise Unsupported("%s: chained assignment" % self.where(s))
            rhs = self.expr(rhs_node)
            if op != "=":
                rhs = "(%s %s %s)" % (v, op[0], rhs)
            return [pad + "let %s := %s" % (v, rhs)] + self.block(rest, ind)
        if k == "CallExpr":
            fn = self.callee(s)
            args = s["inner"][1:]
            if fn == "esl_stats_LogGamma" and len(args) == 2:
                v = self.outparam(args[1])
                if v is None:
                    raise Unsupported("%s: LogGamma without result" % self.where(s))
                return [pad + "let %s := Num.logGamma %s" % (v, self.atom(args[0]))] + self.block(rest, ind)
            if fn == "esl_stats_IncompleteGamma" and len(args) == 4:
                a, x = self.atom(args[0]), self.atom(args[1])
                p, q = self.outparam(args[2]), self.outparam(args[3])
                lines = []
                if p is not None:
                    lines.append(pad + "let %s := Num.incGammaP %s %s" % (p, a, x))
                if q is not None:
                    lines.append(pad + "let %s := Num.incGammaQ %s %s" % (q, a, x))
                return lines + self.block(rest, ind)
            raise Unsupported("%s: call statement %s" % (self.where(s), fn))
        if k == "IfStmt":
            if s.get("hasInit") or s.get("hasVar"):
                raise Unsupported("%s: if with init/var" % self.where(s))
            inner = s["inner"]
            c = self.cond(inner[0])
            th = self.flatten(inner[1])
            el = self.flatten(inner[2]) if len(inner) > 2 else []
            th_full = th if self.terminates(th) else th + rest
            el_full = el if (el and self.terminates(el)) else el + rest
            lines = [pad + "if %s then" % c] + self.block(th_full, ind + 1) + [pad + "else"] + self.block(el_full, ind + 1)
            return lines
        raise Unsupported("%s: statement kind %s" % (self.where(s), k))

    def translate(self):
        params, body = [], None
        rng = []
        for c in self.f.get("inner", []):
            if c["kind"] == "ParmVarDecl":
                t = c["type"]["qualType"]
                if t == "double":
                    params.append(self.ident(c["name"])); rng.append(False)
                elif t == "ESL_RANDOMNESS *" and self.rng_param is None:
                    self.rng_param = c["name"]; params.append("u"); rng.append(True)
                else:
                    raise Unsupported("%s: parameter %s : %s" % (self.where(), c.get("name"), t))
            elif c["kind"] == "CompoundStmt":
                body = c
        if self.f["type"]["qualType"].split("(")[0].strip() != "double":
            raise Unsupported("%s: return type %s" % (self.where(), self.f["type"]["qualType"]))
        if body is None:
            raise Unsupported("%s: no body" % self.where())
        lines = self.block(self.flatten(body), 1)
        if self.rng_param is not None and self.rng_used != 1:
            raise Unsupported("%s: generator parameter but %d deviates drawn" % (self.where(), self.rng_used))
        line = self.f.get("loc", {}).get("line", "?")
        head = "/-- `%s` (%s:%s) -/\ndef %s (%s : α) : α :=" % (self.name, self.cfile, line, self.name, " ".join(params))
        return head + "\n" + "\n".join(lines) + "\n", rng


HEADER = """import EaselModel.Dist.Num
/-! GENERATED on every run by translate/c2lean.py from the working tree's C sources — do not edit.
    Each definition is the C function of the same name, as clang-14 parsed it, over an arbitrary `Num` carrier. -/
set_option linter.unusedVariables false
namespace EaselModel.Dist.Gen
open EaselModel.Dist
variable {α : Type} [Add α] [Sub α] [Mul α] [Div α] [Neg α] [OfScientific α] [LT α] [LE α]
  [DecidableLT α] [DecidableLE α] [Num α]

"""


def translate_all(src_dir, plan):
    """plan: list of (cfile, filter_prefix, [function names in dependency order]).
       Returns (lean_text, info) ; raises Unsupported."""
    files = FileCache(src_dir)
    known = {}
    chunks = []
    info = {"functions": [], "literals": set()}
    for cfile, filt, names in plan:
        docs = clang_docs(src_dir, cfile, filt)
        resolve_files(docs, cfile)
        defs = {}
        for d in docs:
            if d.get("kind") == "FunctionDecl" and any(c.get("kind") == "CompoundStmt" for c in d.get("inner", [])):
                defs[d["name"]] = d
        for nm in names:
            if nm not in defs:
                raise Unsupported("%s: function %s not found (renamed or removed?)" % (cfile, nm))
            t = FnTranslator(defs[nm], cfile, files, known)
            text, rng = t.translate()
            known[nm] = rng
            chunks.append(text)
            info["functions"].append(nm)
            info["literals"].update(t.literals)
    info["literals"] = sorted(info["literals"])
    info["arity"] = {nm: len(known[nm]) for nm in info["functions"]}
    info["rng"] = {nm: any(known[nm]) for nm in info["functions"]}
    disp = ["/-- name → translated function (a generator parameter is the leading deviate `u`) -/",
            "def dispatch (name : String) (a : List α) : Option α :=", "  match name, a with"]
    for nm in info["functions"]:
        xs = ["x%d" % i for i in range(len(known[nm]))]
        disp.append('  | "%s", [%s] => some (%s %s)' % (nm, ", ".join(xs), nm, " ".join(xs)))
    disp.append("  | _, _ => none")
    return HEADER + "\n".join(chunks) + "\n" + "\n".join(disp) + "\n\nend EaselModel.Dist.Gen\n", info


FAMILIES = [
    ("esl_exponential.c", "esl_exp_", ["esl_exp_pdf", "esl_exp_logpdf", "esl_exp_cdf", "esl_exp_logcdf", "esl_exp_surv",
                                       "esl_exp_logsurv", "esl_exp_invcdf", "esl_exp_invsurv", "esl_exp_Sample"]),
    ("esl_gumbel.c", "esl_gumbel_", ["esl_gumbel_pdf", "esl_gumbel_logpdf", "esl_gumbel_cdf", "esl_gumbel_logcdf",
                                     "esl_gumbel_surv", "esl_gumbel_logsurv", "esl_gumbel_invcdf", "esl_gumbel_invsurv",
                                     "esl_gumbel_Sample"]),
    ("esl_gev.c", "esl_gev_", ["esl_gev_pdf", "esl_gev_logpdf", "esl_gev_cdf", "esl_gev_logcdf", "esl_gev_surv",
                               "esl_gev_logsurv", "esl_gev_invcdf", "esl_gev_Sample"]),
    ("esl_weibull.c", "esl_wei_", ["esl_wei_pdf", "esl_wei_logpdf", "esl_wei_cdf", "esl_wei_logcdf", "esl_wei_surv",
                                   "esl_wei_logsurv", "esl_wei_invcdf", "esl_wei_Sample"]),
    # families on the special functions of esl_stats.c (function symbols of the class); their bisection inverses
    # (do-while loops) are outside the subset and stay monitor-only
    ("esl_stretchexp.c", "esl_sxp_", ["esl_sxp_pdf", "esl_sxp_logpdf", "esl_sxp_cdf", "esl_sxp_logcdf", "esl_sxp_surv",
                                      "esl_sxp_logsurv"]),
    ("esl_gamma.c", "esl_gam_", ["esl_gam_pdf", "esl_gam_logpdf", "esl_gam_cdf", "esl_gam_logcdf", "esl_gam_surv",
                                 "esl_gam_logsurv"]),
    ("esl_normal.c", "esl_normal_", ["esl_normal_pdf", "esl_normal_logpdf", "esl_normal_cdf", "esl_normal_surv"]),
    ("esl_lognormal.c", "esl_lognormal_", ["esl_lognormal_pdf", "esl_lognormal_logpdf"]),
]

if __name__ == "__main__":
    src = sys.argv[1] if len(sys.argv) > 1 else "/repo"
    text, info = translate_all(src, FAMILIES)
    sys.stdout.write(text)
    sys.stderr.write("translated %d functions; literals: %s\n" % (len(info["functions"]), " ".join(info["literals"])))


def erfc_coefficients(src_dir):
    """kind G: the polynomial coefficients of esl_stats_erfc() (esl_stats.c), dumped from the working tree as binary64 bit
    patterns (Python's float() rounds the decimal text correctly, as the C compiler does).  The branch structure of the
    function is hand-modelled in Dist/FloatInst.lean (`erfcSun`) and tied bit-for-bit by the correspondence run."""
    import struct
    txt = open(os.path.join(src_dir, "esl_stats.c")).read()
    m = re.search(r"\nesl_stats_erfc\(double x\)\s*\{(.*?)\n\}", txt, re.S)
    if not m:
        raise Unsupported("esl_stats.c: esl_stats_erfc not found")
    body = m.group(1)
    names = ["erx", "pp0", "pp1", "pp2", "pp3", "pp4", "qq1", "qq2", "qq3", "qq4", "qq5",
             "pa0", "pa1", "pa2", "pa3", "pa4", "pa5", "pa6", "qa1", "qa2", "qa3", "qa4", "qa5", "qa6",
             "ra0", "ra1", "ra2", "ra3", "ra4", "ra5", "ra6", "ra7", "sa1", "sa2", "sa3", "sa4", "sa5", "sa6", "sa7", "sa8",
             "rb0", "rb1", "rb2", "rb3", "rb4", "rb5", "rb6", "sb1", "sb2", "sb3", "sb4", "sb5", "sb6", "sb7"]
    found = dict(re.findall(r"static\s+const\s+double\s+(\w+)\s*=\s*([-+0-9.eE]+)\s*;", body))
    out = ["/-! GENERATED on every run by translate/c2lean.py (erfc_coefficients) from esl_stats.c — do not edit. -/",
           "namespace EaselModel.Dist.ErfcCoef"]
    for n in names:
        if n not in found:
            raise Unsupported("esl_stats.c: coefficient %s of esl_stats_erfc not found" % n)
        v = float(found[n])
        out.append("def %s : Float := Float.ofBits 0x%016x  -- %s" % (n, struct.unpack("<Q", struct.pack("<d", v))[0], found[n]))
    extra = sorted(set(found) - set(names))
    if extra:
        raise Unsupported("esl_stats.c: esl_stats_erfc has coefficients the model does not know: %s" % extra)
    out.append("end EaselModel.Dist.ErfcCoef")
    return "\n".join(out) + "\n"
