"""C09 (kind G): tables and constants regenerated from the working tree's esl_random.c / esl_rand64.c on every run.

* the four `static double` tables a[32], d[31], t[31], h[31] of esl_rnd_Gaussian -> `gaussTables : GaussTables Float`
  (each literal converted with the C/IEEE decimal->binary64 conversion = Python float; written as bit patterns);
* the constants of the three generators, obtained SEMANTICALLY: a tiny C program is compiled against the working tree
  (`#include "esl_random.c"` / `"esl_rand64.c"`, so the static functions and whatever macros name their constants are the real
  ones) and PROBES mersenne_twister / mersenne_fill_table / mersenne_seed_table / knuth / esl_rand64 / mt64_fill_table /
  mt64_seed_table: table length, tempering images of the 32 (64) basis words, one refill of tables holding a single word,
  seed tables of chosen seeds.  From the answers this module derives the canonical constants
  (N, M, matrix A, upper mask, lower mask, seeding multiplier[, seeding shift]; LCG a, c) and VALIDATES that the probed
  functions are the MT recurrence with exactly those constants on random tables/words (tempering is checked to be XOR-linear,
  so its basis images determine it).  The result does not depend on how the source spells a constant (literal, macro,
  expression); a value that cannot be derived or fails validation raises (= failed obligation `translator`).
  Props/C09.lean proves (by `decide`) that the regenerated values are the published MT19937 / MT19937-64 constants and that
  the hand model's `twist32/temper32/P32`, `twist64/temper64/P64`, `Rng.next` use exactly them."""
import os, re, struct, hashlib, subprocess, tempfile

OUT = "EaselModel/Generated/RandTables.lean"

def _dbits(x):
    return "0x%016x" % struct.unpack("<Q", struct.pack("<d", x))[0]

def _strip_comments(src):
    src = re.sub(r"/\*.*?\*/", " ", src, flags=re.S)
    return re.sub(r"//[^\n]*", " ", src)

def _func_body(src, name):
    m = re.search(r"^%s\s*\([^)]*\)\s*\{" % re.escape(name), src, flags=re.M)
    if not m: raise RuntimeError("rand_tables: function %s not found" % name)
    i = m.end(); depth = 1
    while depth:
        c = src[i]
        depth += (c == "{") - (c == "}")
        i += 1
    return src[m.end():i - 1]

def gauss_tables(src):
    body = _func_body(src, "esl_rnd_Gaussian")
    tabs = {}
    for name, n in (("a", 32), ("d", 31), ("t", 31), ("h", 31)):
        m = re.search(r"static\s+double\s+%s\s*\[\s*(\d+)\s*\]\s*=\s*\{([^}]*)\}" % name, body)
        if not m: raise RuntimeError("rand_tables: table %s[] of esl_rnd_Gaussian not found" % name)
        vals = [float(x) for x in m.group(2).split(",") if x.strip()]
        if int(m.group(1)) != n or len(vals) != n:
            raise RuntimeError("rand_tables: table %s[] has %d entries (declared %s), expected %d" % (name, len(vals), m.group(1), n))
        tabs[name] = vals
    return tabs

# ------------------------------------------------------------------------------------------------------------------
# the prober
D32 = r'''
#include "esl_random.c"
#include <stdio.h>
static uint32_t prng32(uint32_t *s) { *s = *s * 1664525u + 1013904223u; return *s ^ (*s >> 15); }
void c09_dump32(void)
{
  static ESL_RANDOMNESS r; int i, p, N = (int)(sizeof(r.mt) / sizeof(r.mt[0])); uint32_t s = 12345u;
  memset(&r, 0, sizeof r); r.type = eslRND_MERSENNE;
  printf("N32 %d\n", N);
  for (i = 0; i < 32; i++) { r.mti = 0; r.mt[0] = (uint32_t) 1 << i; printf("T32 %d %" PRIu32 "\n", i, mersenne_twister(&r)); }
  r.mti = 0; r.mt[0] = 0; printf("T32Z %" PRIu32 "\n", mersenne_twister(&r));
  for (i = 0; i < 64; i++) { uint32_t x = prng32(&s); r.mti = 0; r.mt[0] = x; printf("T32R %" PRIu32 " %" PRIu32 "\n", x, mersenne_twister(&r)); }
  { uint32_t seeds[3] = { 1u, 0x9e3779b9u, 0xffffffffu };
    for (p = 0; p < 3; p++) { mersenne_seed_table(&r, seeds[p]); printf("S32 %" PRIu32 " %" PRIu32 " %" PRIu32 " %" PRIu32 " %" PRIu32 " %" PRIu32 "\n", seeds[p], r.mt[0], r.mt[1], r.mt[2], r.mt[N-1], r.seed); } }
  { uint32_t xs[3] = { 0u, 1u, 123456789u };
    r.type = eslRND_FAST; for (p = 0; p < 3; p++) { r.x = xs[p]; printf("K32 %" PRIu32 " %" PRIu32 "\n", xs[p], knuth(&r)); } r.type = eslRND_MERSENNE; }
  /* refill probes: a table holding one non-zero word */
  { struct { int idx; uint32_t v; } pr[3] = { { N-1, 4u }, { 5, 1u }, { 5, 0xffffffffu } };
    for (p = 0; p < 3; p++) {
      memset(r.mt, 0, sizeof r.mt); r.mt[pr[p].idx] = pr[p].v; mersenne_fill_table(&r);
      printf("F32 %d mti=%d", p, r.mti); for (i = 0; i < N; i++) if (r.mt[i]) printf(" %d:%" PRIu32, i, r.mt[i]); printf("\n"); } }
  /* refill of random tables, input and output in full */
  for (p = 0; p < 3; p++) {
    for (i = 0; i < N; i++) r.mt[i] = prng32(&s);
    printf("RI32 %d", p); for (i = 0; i < N; i++) printf(" %" PRIu32, r.mt[i]); printf("\n");
    mersenne_fill_table(&r);
    printf("RO32 %d", p); for (i = 0; i < N; i++) printf(" %" PRIu32, r.mt[i]); printf("\n"); }
}
'''
D64 = r'''
#include "esl_rand64.c"
#include <stdio.h>
static uint64_t prng64(uint64_t *s) { *s = *s * 6364136223846793005ULL + 1442695040888963407ULL; return *s ^ (*s >> 29); }
void c09_dump64(void)
{
  static ESL_RAND64 r; int i, p, N = (int)(sizeof(r.mt) / sizeof(r.mt[0])); uint64_t s = 987654321ULL;
  memset(&r, 0, sizeof r);
  printf("N64 %d\n", N);
  for (i = 0; i < 64; i++) { r.mti = 0; r.mt[0] = (uint64_t) 1 << i; printf("T64 %d %" PRIu64 "\n", i, esl_rand64(&r)); }
  r.mti = 0; r.mt[0] = 0; printf("T64Z %" PRIu64 "\n", esl_rand64(&r));
  for (i = 0; i < 64; i++) { uint64_t x = prng64(&s); r.mti = 0; r.mt[0] = x; printf("T64R %" PRIu64 " %" PRIu64 "\n", x, esl_rand64(&r)); }
  { uint64_t seeds[4] = { 0ULL, 0x8000000000000000ULL, 0x9e3779b97f4a7c15ULL, 0xffffffffffffffffULL };
    for (p = 0; p < 4; p++) { mt64_seed_table(&r, seeds[p]); printf("S64 %" PRIu64 " %" PRIu64 " %" PRIu64 " %" PRIu64 " %" PRIu64 " %" PRIu64 " %" PRIu64 "\n", seeds[p], r.mt[0], r.mt[1], r.mt[2], r.mt[3], r.mt[N-1], r.seed); } }
  { struct { int idx; uint64_t v; } pr[3] = { { N-1, 4ULL }, { 5, 1ULL }, { 5, 0xffffffffffffffffULL } };
    for (p = 0; p < 3; p++) {
      memset(r.mt, 0, sizeof r.mt); r.mt[pr[p].idx] = pr[p].v; mt64_fill_table(&r);
      printf("F64 %d mti=%d", p, r.mti); for (i = 0; i < N; i++) if (r.mt[i]) printf(" %d:%" PRIu64, i, r.mt[i]); printf("\n"); } }
  for (p = 0; p < 3; p++) {
    for (i = 0; i < N; i++) r.mt[i] = prng64(&s);
    printf("RI64 %d", p); for (i = 0; i < N; i++) printf(" %" PRIu64, r.mt[i]); printf("\n");
    mt64_fill_table(&r);
    printf("RO64 %d", p); for (i = 0; i < N; i++) printf(" %" PRIu64, r.mt[i]); printf("\n"); }
}
'''
DMAIN = r'''
void c09_dump32(void); void c09_dump64(void);
int main(void) { c09_dump32(); c09_dump64(); return 0; }
'''

def _probe(ctx):
    """compile + run the prober against ctx.src; the executable is cached beside the content-addressed library build"""
    tag = hashlib.sha1((D32 + D64 + DMAIN).encode()).hexdigest()[:12]
    exe = os.path.join(ctx.src, "c09_probe_" + tag)
    if not os.path.exists(exe):
        try:
            from vlib.engine import SAN_FLAGS as flags
        except Exception:
            flags = ["-O1", "-g", "-ffp-contract=off", "-fsanitize=address,undefined", "-DEASEL_VERIF"]
        with tempfile.TemporaryDirectory(prefix="c09probe.") as td:
            for n, t in (("d32.c", D32), ("d64.c", D64), ("dmain.c", DMAIN)):
                open(os.path.join(td, n), "w").write(t)
            tmp = os.path.join(td, "probe")
            cmd = ["gcc", "-I" + ctx.src, "-pthread"] + list(flags) + ["-Wl,--allow-multiple-definition",
                   os.path.join(td, "d32.c"), os.path.join(td, "d64.c"), os.path.join(td, "dmain.c"),
                   "-o", tmp, os.path.join(ctx.src, "libeasel.a"), "-lm", "-lpthread"]
            p = subprocess.run(cmd, cwd=ctx.src, stdout=subprocess.PIPE, stderr=subprocess.PIPE, text=True)
            if p.returncode != 0:
                raise RuntimeError("rand_tables: the constant prober does not compile against the working tree: " + p.stderr[-1500:])
            try:
                os.replace(tmp, exe)
            except OSError:
                import shutil; shutil.copy2(tmp, exe)
    p = subprocess.run([exe], stdout=subprocess.PIPE, stderr=subprocess.PIPE, text=True, timeout=120,
                       env=dict(os.environ, ASAN_OPTIONS="detect_leaks=0"))
    if p.returncode != 0:
        raise RuntimeError("rand_tables: the constant prober died (a probe left the table?): " + (p.stderr or p.stdout)[-1500:])
    return p.stdout

def _derive(lines, bits):
    """canonical constants of one Mersenne Twister from the probe answers; raises when the probed functions are not the MT
    recurrence with the derived constants"""
    W = (1 << bits) - 1
    b = str(bits)
    g = lambda key: [l.split()[1:] for l in lines if l.split()[0] == key + b]
    N = int(g("N")[0][0])
    basis = [None] * bits
    for i, v in g("T"): basis[int(i)] = int(v)
    if any(v is None for v in basis) or int(g("T")[0][1]) is None: raise RuntimeError("rand_tables: tempering probes incomplete")
    if int([l.split()[1] for l in lines if l.split()[0] == "T%sZ" % b][0]) != 0:
        raise RuntimeError("rand_tables: tempering of the zero word is not zero (%d bit)" % bits)
    for x, tx in [(int(a), int(c)) for a, c in [l.split()[1:] for l in lines if l.split()[0] == "T%sR" % b]]:
        e = 0
        for i in range(bits):
            if x >> i & 1: e ^= basis[i]
        if e != tx: raise RuntimeError("rand_tables: %d-bit tempering is not XOR-linear at word %d" % (bits, x))
    # refill probes
    F = {}
    for l in lines:
        w = l.split()
        if w[0] == "F" + b:
            if w[2] != "mti=0": raise RuntimeError("rand_tables: refill leaves %s, expected mti=0" % w[2])
            F[int(w[1])] = {int(t.split(":")[0]): int(t.split(":")[1]) for t in w[3:]}
    try:
        i4 = min(i for i, v in F[0].items() if v == 4)     # first word that received mt[N-1] as its mt[z+M] (later ones are echoes)
        M = N - 1 - i4
        A = F[1][4]
        UM = (F[2][5] << 1) & W
        LM = (((F[2][4] ^ A) << 1) | 1) & W
    except Exception as e:
        raise RuntimeError("rand_tables: %d-bit refill probes do not have the shape of the MT recurrence (%r)" % (bits, F))
    if not (0 < M < N) or (UM ^ LM) != W or (UM & LM): raise RuntimeError("rand_tables: derived M=%d UM=%x LM=%x inconsistent" % (M, UM, LM))
    # validation: the C refill of random tables is the in-place MT refill with (N, M, A, UM, LM)
    RI = {int(l.split()[1]): [int(t) for t in l.split()[2:]] for l in lines if l.split()[0] == "RI" + b}
    RO = {int(l.split()[1]): [int(t) for t in l.split()[2:]] for l in lines if l.split()[0] == "RO" + b}
    for k, t in RI.items():
        t = list(t)
        for z in range(N):
            y = (t[z] & UM) | (t[(z + 1) % N] & LM)
            t[z] = t[(z + M) % N] ^ (y >> 1) ^ (A if y & 1 else 0)
        if t != RO[k]:
            bad = [z for z in range(N) if t[z] != RO[k][z]]
            raise RuntimeError("rand_tables: %d-bit refill of a random table is not the MT recurrence with N=%d M=%d A=%#x UM=%#x LM=%#x: "
                               "first differing table word %d (of %d differing)" % (bits, N, M, A, UM, LM, bad[0], len(bad)))
    # seeding
    S = [[int(t) for t in l.split()[1:]] for l in lines if l.split()[0] == "S" + b]
    if bits == 32:
        mult = S[0][2]                      # seed 1: mt[1] = mult * 1
        for seed, m0, m1, m2, mlast, sd in S:
            if m0 != seed or sd != seed or m1 != (mult * m0) & W or m2 != (mult * m1) & W or mlast != (pow(mult, N - 1, 1 << 32) * seed) & W:
                raise RuntimeError("rand_tables: mersenne_seed_table(%d) is not mt[z] = %d * mt[z-1]" % (seed, mult))
        seedc = [mult]
    else:
        s0 = S[0]                           # seed 0: mt[1] = 1, mt[2] = mult * (1 ^ (1 >> shift)) + 2 = mult + 2
        mult = (s0[3] - 2) & W
        if s0[1] != 0 or s0[2] != 1 or mult % 2 == 0: raise RuntimeError("rand_tables: mt64_seed_table(0) probe has an unexpected shape")
        s1 = S[1]                           # seed 2^63: (mt[1] - 1) / mult = 2^63 ^ 2^(63-shift)
        v = ((s1[2] - 1) * pow(mult, -1, 1 << 64)) & W
        low = v ^ (1 << 63)
        if low == 0 or low & (low - 1): raise RuntimeError("rand_tables: cannot derive the seeding shift")
        shift = 63 - (low.bit_length() - 1)
        for seed, m0, m1, m2, m3, mlast, sd in S:
            x = [seed]
            for z in range(1, N): x.append((mult * (x[-1] ^ (x[-1] >> shift)) + z) & W)
            if [m0, m1, m2, m3, mlast, sd] != [x[0], x[1], x[2], x[3], x[N - 1], seed]:
                raise RuntimeError("rand_tables: mt64_seed_table(%d) is not mt[z] = %d * (mt[z-1] ^ mt[z-1] >> %d) + z" % (seed, mult, shift))
        seedc = [mult, shift]
    return [N, M, A, UM, LM] + seedc, basis

def probe_constants(ctx):
    lines = [l for l in _probe(ctx).split("\n") if l.strip()]
    c32, b32 = _derive(lines, 32)
    c64, b64 = _derive(lines, 64)
    K = {int(l.split()[1]): int(l.split()[2]) for l in lines if l.split()[0] == "K32"}
    c = K[0]; a = (K[1] - c) & 0xffffffff
    for x, y in K.items():
        if y != (a * x + c) & 0xffffffff: raise RuntimeError("rand_tables: knuth() is not x -> %d x + %d" % (a, c))
    return {"mt32Consts": c32, "mt64Consts": c64, "lcgConsts": [a, c], "mt32TemperBasis": b32, "mt64TemperBasis": b64}

def generate(ctx):
    s32 = _strip_comments(open(os.path.join(ctx.src, "esl_random.c")).read())
    tabs = gauss_tables(s32)
    lits = probe_constants(ctx)
    L = ["import EaselModel.Random.Samplers",
         "/-! GENERATED by translate/rand_tables.py from esl_random.c / esl_rand64.c of the working tree — do not edit.",
         "    mt32Consts = [N, M, matrix A, upper mask, lower mask, seeding multiplier]; mt64Consts = the same + seeding shift;",
         "    lcgConsts = [a, c]; mt32TemperBasis / mt64TemperBasis = tempering images of the words 1<<<0, 1<<<1, …  (values probed from",
         "    the compiled functions, independent of how the source spells them). -/",
         "namespace EaselModel.Generated.RandTables", "open EaselModel.Random", ""]
    for name in "adth":
        L.append("def gauss_%s : Array Float := #[" % name + ", ".join("Float.ofBits %s" % _dbits(v) for v in tabs[name]) + "]")
    L.append("def gaussTables : GaussTables Float := { a := gauss_a, d := gauss_d, t := gauss_t, h := gauss_h }")
    L.append("def gaussSizes : List Nat := [%d, %d, %d, %d]" % tuple(len(tabs[n]) for n in "adth"))
    L.append("")
    for k, v in lits.items():
        L.append("def %s : List Nat := [%s]" % (k, ", ".join(str(x) for x in v)))
    L += ["", "end EaselModel.Generated.RandTables", ""]
    return {OUT: "\n".join(L)}, tabs, lits
