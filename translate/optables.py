"""C13 (kind G): extract every `static ESL_OPTIONS <name>[] = { ... };` table from the miniapps sources of the working tree.

The option lists that drive the option-combination generator therefore follow the tree that is being checked:
a new option, a changed type/range/incompatibility list shows up in the generated command lines at once.

parse_file(path) -> {table_name: [ {name,type,default,env,range,toggles,reqs,incomp,help,docgroup}, ... ]}
tool_tables(srcdir) -> {tool: [option dict, ...]}   (tool = esl-xxx | "easel alistat" | ...)
"""
import os, re

FIELDS = ["name", "type", "default", "env", "range", "toggles", "reqs", "incomp", "help", "docgroup"]


def strip_comments(txt):
    out, i, n = [], 0, len(txt)
    while i < n:
        c = txt[i]
        if c == '"':
            j = i + 1
            while j < n and txt[j] != '"':
                j += 2 if txt[j] == "\\" else 1
            out.append(txt[i:j + 1]); i = j + 1
        elif c == "'" :
            j = i + 1
            while j < n and txt[j] != "'":
                j += 2 if txt[j] == "\\" else 1
            out.append(txt[i:j + 1]); i = j + 1
        elif txt.startswith("/*", i):
            j = txt.find("*/", i + 2)
            i = n if j < 0 else j + 2
            out.append(" ")
        elif txt.startswith("//", i):
            j = txt.find("\n", i)
            i = n if j < 0 else j
        else:
            out.append(c); i += 1
    return "".join(out)


def string_macros(txt):
    """#define NAME "a" "b" ...  -> {NAME: 'ab'} (only macros whose body is string literals / other such macros)"""
    mac = {}
    for m in re.finditer(r'^[ \t]*#[ \t]*define[ \t]+(\w+)[ \t]+(.+?)[ \t]*$', txt, re.M):
        mac[m.group(1)] = m.group(2)
    return mac


def unescape(s):
    return bytes(s, "latin-1").decode("unicode_escape")


def eval_field(tok, mac, depth=0):
    """A field is: NULL/FALSE/0 -> None ; TRUE ; an identifier (eslARG_x or a string macro) ; a number ;
    a sequence of adjacent string literals and macros -> concatenated string."""
    tok = tok.strip()
    if tok in ("NULL", "FALSE", "0", ""):
        return None
    parts = re.findall(r'"(?:\\.|[^"\\])*"|[A-Za-z_]\w*|-?[\d.]+', tok)
    if not parts:
        return tok
    if len(parts) == 1 and not parts[0].startswith('"'):
        p = parts[0]
        if p in mac and depth < 8:
            return eval_field(mac[p], mac, depth + 1)
        return p
    s = ""
    for p in parts:
        if p.startswith('"'):
            s += unescape(p[1:-1])
        elif p in mac and depth < 8:
            v = eval_field(mac[p], mac, depth + 1)
            s += v if isinstance(v, str) else ""
        else:
            s += p
    return s


def split_top(s, sep=","):
    out, cur, depth, i, n = [], [], 0, 0, len(s)
    while i < n:
        c = s[i]
        if c == '"':
            j = i + 1
            while j < n and s[j] != '"':
                j += 2 if s[j] == "\\" else 1
            cur.append(s[i:j + 1]); i = j + 1; continue
        if c == "'":
            j = i + 1
            while j < n and s[j] != "'":
                j += 2 if s[j] == "\\" else 1
            cur.append(s[i:j + 1]); i = j + 1; continue
        if c in "({[":
            depth += 1
        elif c in ")}]":
            depth -= 1
        if c == sep and depth == 0:
            out.append("".join(cur)); cur = []
        else:
            cur.append(c)
        i += 1
    if "".join(cur).strip():
        out.append("".join(cur))
    return out


def parse_text(txt):
    txt = strip_comments(txt)
    mac = string_macros(txt)
    tables = {}
    for m in re.finditer(r'\bESL_OPTIONS\s+(\w+)\s*\[\s*\]\s*=\s*\{', txt):
        i = m.end()
        depth, j = 1, i
        while j < len(txt) and depth:
            c = txt[j]
            if c == '"':
                j += 1
                while j < len(txt) and txt[j] != '"':
                    j += 2 if txt[j] == "\\" else 1
            elif c == "{":
                depth += 1
            elif c == "}":
                depth -= 1
            j += 1
        body = txt[i:j - 1]
        opts = []
        for ent in split_top(body):
            ent = ent.strip()
            if not ent.startswith("{"):
                continue
            fields = split_top(ent[1:ent.rindex("}")])
            vals = [eval_field(f, mac) for f in fields]
            if not vals or vals[0] is None:
                continue
            d = dict(zip(FIELDS, vals + [None] * (len(FIELDS) - len(vals))))
            opts.append(d)
        tables[m.group(1)] = opts
    return tables


def parse_file(path):
    with open(path, errors="replace") as f:
        return parse_text(f.read())


SUBCMDS = {"alistat": "cmd_alistat.c", "downsample": "cmd_downsample.c", "filter": "cmd_filter.c", "index": "cmd_index.c"}


def tool_tables(srcdir):
    """{tool: {"options": [...], "tables": {...}}} for the 23 esl-* programs and the easel subcommands of the tree."""
    mdir = os.path.join(srcdir, "miniapps")
    res = {}
    for fn in sorted(os.listdir(mdir)):
        if fn.startswith("esl-") and fn.endswith(".c"):
            t = parse_file(os.path.join(mdir, fn))
            main = t.get("options") or t.get("top_options") or []
            res[fn[:-2]] = {"options": main, "tables": t}
    # subcommands: read the ESL_SUBCMD table of easel.c so that an added subcommand is picked up
    subs = dict(SUBCMDS)
    try:
        etxt = strip_comments(open(os.path.join(mdir, "easel.c"), errors="replace").read())
        for m in re.finditer(r'\{\s*esl_cmd_(\w+)\s*,\s*"(\w+)"\s*,\s*(\d+)', etxt):
            subs.setdefault(m.group(2), "cmd_%s.c" % m.group(1))
    except OSError:
        pass
    for sub, fn in sorted(subs.items()):
        p = os.path.join(mdir, fn)
        if os.path.exists(p):
            t = parse_file(p)
            res["easel " + sub] = {"options": t.get("cmd_options") or [], "tables": t}
    return res


if __name__ == "__main__":
    import sys, json
    tt = tool_tables(sys.argv[1] if len(sys.argv) > 1 else "/repo")
    for k, v in tt.items():
        print(k, len(v["options"]), [o["name"] for o in v["options"]][:8], {n: len(x) for n, x in v["tables"].items()})
