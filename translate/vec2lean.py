#!/usr/bin/env python3
"""vec2lean.py — translate the short loops of esl_vectorops.c / esl_matrixops.c to Lean 4 (C20, kind T).

Input: clang-14's JSON AST of the working tree's source (through c2lean.clang_docs); output: one Lean definition per C
function in `Generated/VectorOps.lean`, written over an abstract element type `α` with the C element semantics `CElem α`
(lean/EaselModel/Vec/CSem.lean): every array read/write is bounds-checked (`rd`/`wr`, out of bounds = `none` = fault) and every
element operation may fault (`CElem.add/sub/mul` = `none` on signed overflow for `int`/`int64_t`, as UBSan reports it; total
for the floating types).  Index arithmetic (`int64_t i, n`, `int M, N`) is on `Int` with C's truncating `/` and `%`.

Supported subset (anything else raises Unsupported — the engine turns that into a failed obligation):
  * parameters: pointers to the element type (arrays), `T **` matrices (their flat block `A[0]`), scalars of the element type,
    integer scalars used as lengths / indices; `const void *` parameters dereferenced once through `* (T *) p` (qsort comparators);
  * locals of the element type or of an integer type; declarations with or without initialiser;
  * statements: `=`, `+= -= *=` on scalars and on `a[e]`; counted loops `for (i = lo; i < hi; i++) body` whose body neither
    assigns `i` nor leaves the loop; `if (c) s [else s]` without `return` anywhere; at function level additionally
    `if (c) return e;` and `return e;`; calls of already translated functions (as statements or as the returned value);
  * expressions of element type: variables, `a[e]`, `+ - *`, integer-valued literals converted to the element type;
    conditions: `< > == !=` on elements, `< <= > >= == !=` on indices, an index expression used as a truth value, `! && ||`.
Evaluation order of the (unsequenced) operands of a binary operator is fixed left to right; only the identity of the fault
could depend on it.  A loop carries exactly the variables its body assigns and that are live (read before written in the body,
or read after the loop); a loop counter read after its loop has the value `max lo hi`.
A variant with two pointer parameters aliased (`esl_vec_*Reverse(v, v, n)`) is produced on request: both names then denote one
array.
"""
import os, re, sys
sys.path.insert(0, os.path.dirname(os.path.abspath(__file__)))
import c2lean
from c2lean import Unsupported

ELEM_TYPES = {"double": "D", "float": "F", "int": "I", "int64_t": "L", "int16_t": "W", "int8_t": "B", "char": "C"}
INT_TYPES = {"int", "int64_t", "long", "long long", "int16_t", "int8_t", "char", "size_t", "unsigned long"}
# scalar functions of easel.c called by the vector routines: C name -> (Lean name, class the generated caller needs); hand model in
# lean/EaselModel/Vec/Model.lean, compared bit-exactly with the C function through the harness op `cmpold`
LIBM_D = {"exp": "VInf.exp", "log": "VInf.log", "exp2": "VInf.exp2", "log2": "VNum.log2"}      # double libm calls -> class operations
LIBM_F = {"expf": "VInf.exp", "logf": "VInf.log", "exp2f": "VInf.exp2", "log2f": "VNum.log2"}  # float libm calls -> the same operations at the float type
EXTERNAL = {"esl_DCompare_old": ("compareOldStatus", "VCmp"), "esl_FCompare_old": ("compareOldStatus", "VCmp")}
LEAN_KW = c2lean.LEAN_KEYWORDS | {"rd", "wr", "loop", "s", "pure", "max", "min"}


def strip_q(t):
    return re.sub(r"\b(const|register|restrict)\b", "", t).replace("  ", " ").strip()


def unwrap(n, kinds=("ParenExpr",), casts=("LValueToRValue", "NoOp")):
    while True:
        if n["kind"] in kinds:
            n = n["inner"][0]
        elif n["kind"] == "ImplicitCastExpr" and n.get("castKind") in casts:
            n = n["inner"][0]
        else:
            return n


class Sig:
    def __init__(self, name, params, writes, ret):
        self.name, self.params, self.writes, self.ret = name, params, writes, ret      # params: [(leanname, kind)], writes: [leanname], ret: None|'elem'|'idx'


class Fn:
    def __init__(self, fdecl, cfile, known, alias=None, suffix=""):
        self.f, self.cfile, self.known = fdecl, cfile, known
        self.cname = fdecl["name"]
        self.name = self.cname + suffix
        self.alias = alias or {}
        self.tmp = 0
        self.kind = {}          # C variable name -> 'arr' | 'mat' | 'elem' | 'idx' | 'voidp'
        self.bound = set()      # scalar variables currently holding a value
        self.elemtype = None
        self.written = []       # arrays written (lean names, in first-write order)
        self.monadic = False
        self.vcmp = False       # calls esl_{D,F}Compare_old (`VCmp`)
        self.vinf = False       # floating-point routine using negation / infinity / exp / log / exp2 (`VInf`)
        self.vnum = False       # floating-point routine using division / log2 / `(double) n` (`VNum`)
        self.vsci = False       # a non-integer floating literal at the element type (`VSci α`) ...
        self.wsci = False       # ... at the wide type (`VSci ω`); the present source has none: only integer-valued literals
        self.vint = False       # converts `int` cells to the floating element type (`VInt α ι`)
        self.arrtype = {}       # C array name -> 'α' (the element type) | 'ω' (double cells in a float routine) | 'ι' (int cells in a floating routine)
        self.vfin = False       # uses `isfinite` / `fabs` at the element type (`VFin α`)
        self.wfin = False       # ... at the wide type (`VFin ω`)
        self.labels = {}        # label declId -> the statements that follow the label (function level)
        self.winf = False       # ... and among them negation / infinity / exp / log (`VInf ω`; otherwise `VNum ω` suffices)
        self.mix = False        # a `float` routine with sub-expressions the C text evaluates in `double` (`VMix α ω`: widen / narrow)
        self.wrap = False       # uses gcc's wrap-around / truncation semantics (`CWrap`): the `return x1 - x2` comparator idiom
        self.stats = {"n_reads": 0, "n_writes": 0, "n_loops": 0, "n_ops": 0, "n_calls": 0}

    # ------------------------------------------------------------------ helpers
    def where(self, n=None):
        n = n or self.f
        line = n.get("loc", {}).get("line") or n.get("range", {}).get("begin", {}).get("line")
        return "%s:%s(%s)" % (self.cfile, self.cname, line if line else "?")

    def ident(self, s):
        s = self.alias.get(s, s)
        return s + "_" if s in LEAN_KW else s

    def fresh(self):
        self.tmp += 1
        return "t%d" % self.tmp

    def set_elem(self, t, n=None):
        t = strip_q(t)
        if t not in ELEM_TYPES:
            raise Unsupported("%s: element type %s" % (self.where(n), t))
        if self.elemtype is None:
            self.elemtype = t
        elif self.elemtype != t:
            raise Unsupported("%s: two element types (%s, %s)" % (self.where(n), self.elemtype, t))

    def walk(self, n, f):
        if isinstance(n, dict):
            f(n)
            for c in n.get("inner", []):
                self.walk(c, f)

    def vars_in(self, n):
        out = []
        def f(x):
            if x.get("kind") == "DeclRefExpr" and x["referencedDecl"]["kind"] in ("VarDecl", "ParmVarDecl"):
                out.append(x["referencedDecl"]["name"])
        self.walk(n, f)
        return out

    # ------------------------------------------------------------------ kinds of variables
    def classify(self, body):
        idxish = set()
        def f(x):
            k = x.get("kind")
            if k == "ArraySubscriptExpr":
                idxish.update(self.vars_in(x["inner"][1]))
            elif k == "ForStmt":
                for part in (x["inner"][0], x["inner"][2], x["inner"][3]):
                    if part and part.get("kind"):
                        idxish.update(self.vars_in(part))
            elif k == "CallExpr":
                fn = self.callee(x)
                if fn == "qsort":
                    idxish.update(self.vars_in(x["inner"][2]))
                if fn in self.known:
                    for a, (pn, pk) in zip(x["inner"][1:], self.known[fn].params):
                        if pk == "idx":
                            idxish.update(self.vars_in(a))
        self.walk(body, f)
        decls = [c for c in self.f.get("inner", []) if c["kind"] == "ParmVarDecl"]
        def g(x):
            if x.get("kind") == "VarDecl":
                decls.append(x)
        self.walk(body, g)
        # element type: from the pointer parameters / the `* (T *) p` dereferences
        fp_ptr = any(re.fullmatch(r"(double|float) \*(\*?)", strip_q(d["type"]["qualType"])) for d in decls)
        bases = set()
        for d in decls:
            m = re.fullmatch(r"(\w+) \*", strip_q(d["type"]["qualType"]))
            if m and m.group(1) not in ("void", "char"):
                bases.add(m.group(1))
        if bases == {"double", "float"}:                             # conversion routines: the double cells are the wide type
            self.elemtype = "float"
        elif bases in ({"int", "float"}, {"int", "double"}):
            self.elemtype = (bases - {"int"}).pop()
        for d in decls:
            t = strip_q(d["type"]["qualType"])
            m = re.fullmatch(r"(\w+) \*(\*?)", t)
            if m and m.group(1) == "char" and fp_ptr and d["kind"] == "ParmVarDecl":
                continue                                             # `char *errbuf`: message text is outside the model
            if m and not m.group(2) and len(bases) == 2 and m.group(1) in bases and m.group(1) != self.elemtype:
                self.arrtype[d["name"]] = "ω" if m.group(1) == "double" else "ι"
                if m.group(1) == "double": self.mix = True
                else: self.vint = True
                continue
            if m and m.group(1) != "void":
                self.set_elem(m.group(1), d)
        def h(x):
            if x.get("kind") == "CStyleCastExpr":
                m = re.fullmatch(r"(\w+) \*", strip_q(x["type"]["qualType"]))
                if m and m.group(1) != "void":
                    self.set_elem(m.group(1), x)
        self.walk(body, h)
        if self.elemtype is None:
            raise Unsupported("%s: no element type" % self.where())
        for d in decls:
            t = strip_q(d["type"]["qualType"])
            nm = d["name"]
            if t == "char *" and fp_ptr and d["kind"] == "ParmVarDecl":
                self.kind[nm] = "msg"
            elif re.fullmatch(r"\w+ \*\*", t):
                self.kind[nm] = "mat"
            elif t == "void *":
                self.kind[nm] = "voidp"
            elif re.fullmatch(r"\w+ \*", t):
                self.kind[nm] = "arr"
            elif t in ("double", "float"):
                if t != self.elemtype:
                    raise Unsupported("%s: %s variable %s in a routine over %s" % (self.where(d), t, nm, self.elemtype))
                self.kind[nm] = "elem"
            elif t in INT_TYPES:
                self.kind[nm] = "idx" if (t != self.elemtype or nm in idxish) else "elem"
            else:
                raise Unsupported("%s: variable %s of type %s" % (self.where(d), nm, t))

    def callee(self, n):
        c = n["inner"][0]
        while c["kind"] in ("ImplicitCastExpr", "ParenExpr"):
            c = c["inner"][0]
        if c["kind"] != "DeclRefExpr":
            raise Unsupported("%s: indirect call" % self.where(n))
        return c["referencedDecl"]["name"]

    # ------------------------------------------------------------------ expressions
    def int_literal(self, n):
        """integer value of a literal (possibly under casts / a unary minus), or None"""
        n = unwrap(n, casts=("LValueToRValue", "NoOp", "IntegralCast", "IntegralToFloating", "FloatingCast"))
        if n["kind"] == "IntegerLiteral":
            return int(n["value"])
        if n["kind"] == "FloatingLiteral":
            v = float(n["value"])
            return int(v) if v == int(v) and abs(v) < 2 ** 31 else None
        if n["kind"] == "UnaryOperator" and n["opcode"] == "-":
            v = self.int_literal(n["inner"][0])
            return None if v is None else -v
        return None

    def sci_literal(self, n):
        """(mantissa, decimal exponent) of a non-integer floating literal `m * 10^-e` (from clang's round-trip decimal text), or None"""
        from decimal import Decimal
        n = unwrap(n, casts=("LValueToRValue", "NoOp", "FloatingCast"))
        neg = False
        if n["kind"] == "UnaryOperator" and n["opcode"] == "-":
            neg = True
            n = unwrap(n["inner"][0], casts=("LValueToRValue", "NoOp", "FloatingCast"))
        if n["kind"] != "FloatingLiteral":
            return None
        try:
            d = Decimal(n["value"])
        except Exception:
            return None
        if not d.is_finite():
            return None
        sign, digits, exp = d.as_tuple()
        m = int("".join(map(str, digits)))
        if exp >= 0:
            m, exp = m * 10 ** exp, 0
        return (neg != bool(sign), m, -exp)

    def idx(self, n):
        """index-kind expression -> pure Lean `Int` term"""
        n = unwrap(n, casts=("LValueToRValue", "NoOp", "IntegralCast"))
        k = n["kind"]
        if k == "IntegerLiteral":
            return n["value"]
        if k == "DeclRefExpr":
            nm = n["referencedDecl"]["name"]
            if self.kind.get(nm) != "idx":
                raise Unsupported("%s: %s (%s) used as an index" % (self.where(n), nm, self.kind.get(nm)))
            if nm not in self.bound:
                raise Unsupported("%s: %s read before it is assigned" % (self.where(n), nm))
            return self.ident(nm)
        if k == "UnaryOperator" and n["opcode"] == "-":
            return "(-%s)" % self.idx(n["inner"][0])
        if k == "BinaryOperator" and n["opcode"] in ("+", "-", "*", "/", "%"):
            a, b = self.idx(n["inner"][0]), self.idx(n["inner"][1])
            op = n["opcode"]
            if op == "/":
                return "(Int.tdiv %s %s)" % (a, b)
            if op == "%":
                return "(Int.tmod %s %s)" % (a, b)
            return "(%s %s %s)" % (a, op, b)
        raise Unsupported("%s: index expression of kind %s %s" % (self.where(n), k, n.get("opcode", "")))

    def is_idx_expr(self, n):
        n = unwrap(n, casts=("LValueToRValue", "NoOp", "IntegralCast"))
        k = n["kind"]
        if k == "IntegerLiteral":
            return True
        if k == "DeclRefExpr":
            return self.kind.get(n["referencedDecl"]["name"]) == "idx"
        if k == "BinaryOperator" and n["opcode"] in ("+", "-", "*", "/", "%"):
            return self.is_idx_expr(n["inner"][0]) and self.is_idx_expr(n["inner"][1])
        if k == "UnaryOperator" and n["opcode"] == "-":
            return self.is_idx_expr(n["inner"][0])
        return False

    def arr_of(self, n):
        """array-valued expression: a pointer parameter, or `A[0]` of a matrix parameter"""
        n = unwrap(n, casts=("LValueToRValue", "NoOp", "BitCast"))
        if n["kind"] == "CStyleCastExpr":
            return self.arr_of(n["inner"][0])
        if n["kind"] == "DeclRefExpr":
            nm = n["referencedDecl"]["name"]
            if self.kind.get(nm) != "arr":
                raise Unsupported("%s: %s is not an array" % (self.where(n), nm))
            return self.ident(nm)
        if n["kind"] == "ArraySubscriptExpr":
            base = unwrap(n["inner"][0])
            if base["kind"] == "DeclRefExpr" and self.kind.get(base["referencedDecl"]["name"]) == "mat" and self.int_literal(n["inner"][1]) == 0:
                return self.ident(base["referencedDecl"]["name"])
        raise Unsupported("%s: array expression of kind %s" % (self.where(n), n["kind"]))

    def arr_ty(self, n):
        n = unwrap(n, casts=("LValueToRValue", "NoOp", "BitCast"))
        if n["kind"] == "DeclRefExpr":
            return self.arrtype.get(n["referencedDecl"]["name"], "α")
        return "α"

    def elem(self, n, out, target=None):
        """element-kind expression; emits `let` lines into out; returns a Lean atom (a name or a parenthesised pure term)"""
        n0 = n
        n = unwrap(n)
        k = n["kind"]
        lit = self.int_literal(n)
        if lit is not None and k != "DeclRefExpr":
            if lit < 0:
                self.need_double(n); self.vinf = True
                a = "(VInf.neg (CElem.ofNat %d : α))" % -lit
            else:
                a = "(CElem.ofNat %d : α)" % lit
        elif self.elemtype in ("double", "float") and self.sci_literal(n) is not None and not self.is_wide(n):
            ng, m, e = self.sci_literal(n)
            self.vsci = True; self.vnum = True
            a = "(VSci.sci %d %d : α)" % (m, e)
            if ng:
                self.vinf = True
                a = "(VInf.neg %s)" % a
        elif k == "DeclRefExpr":
            nm = n["referencedDecl"]["name"]
            if self.kind.get(nm) != "elem":
                raise Unsupported("%s: %s (%s) used as an element" % (self.where(n), nm, self.kind.get(nm)))
            if nm not in self.bound:
                raise Unsupported("%s: %s read before it is assigned" % (self.where(n), nm))
            a = self.ident(nm)
        elif k == "ArraySubscriptExpr":
            arr = self.arr_of(n["inner"][0])
            if self.arr_ty(n["inner"][0]) != "α":
                raise Unsupported("%s: cell of %s read at the element type without a conversion" % (self.where(n), arr))
            i = self.idx(n["inner"][1])
            a = target or self.fresh()
            out.append("let %s ← rd %s %s" % (a, arr, i))
            self.monadic = True; self.stats["n_reads"] += 1
            return a
        elif k == "UnaryOperator" and n["opcode"] == "*":          # * (T *) p
            c = unwrap(n["inner"][0])
            if c["kind"] == "CStyleCastExpr":
                p = unwrap(c["inner"][0])
                if p["kind"] == "DeclRefExpr" and self.kind.get(p["referencedDecl"]["name"]) == "voidp":
                    a = self.ident(p["referencedDecl"]["name"])
                else:
                    raise Unsupported("%s: dereference" % self.where(n))
            else:
                raise Unsupported("%s: dereference" % self.where(n))
        elif k == "BinaryOperator" and n["opcode"] in ("+", "-", "*"):
            if strip_q(n["type"]["qualType"]) not in (self.elemtype, {"int64_t": "long"}.get(self.elemtype, "")):
                raise Unsupported("%s: arithmetic at type %s in a routine over %s" % (self.where(n), n["type"]["qualType"], self.elemtype))
            x = self.elem(n["inner"][0], out)
            y = self.elem(n["inner"][1], out)
            a = target or self.fresh()
            out.append("let %s ← CElem.%s %s %s" % (a, {"+": "add", "-": "sub", "*": "mul"}[n["opcode"]], x, y))
            self.monadic = True; self.stats["n_ops"] += 1
            return a
        elif self.inf_tree(n0) is not None:                          # (-)eslINFINITY = (-)INFINITY = (-)(__builtin_inff ()), widened to double
            self.need_double(n); self.vinf = True
            a = "(VInf.inf : α)" if self.inf_tree(n0) == 1 else "(VInf.neg (VInf.inf : α))"
        elif k == "UnaryOperator" and n["opcode"] == "-":
            self.need_double(n); self.vinf = True
            x = self.elem(n["inner"][0], out)
            a = "(VInf.neg %s)" % x
        elif k == "BinaryOperator" and n["opcode"] == "/":
            self.need_double(n); self.vnum = True
            x = self.elem(n["inner"][0], out)
            y = self.elem(n["inner"][1], out)
            a = target or self.fresh()
            out.append("let %s := %s / %s" % (a, x, y)); self.stats["n_ops"] += 1
            return a
        elif k == "ConditionalOperator":
            self.need_double(n)
            c = self.cond(n["inner"][0], out)
            tl, el = [], []
            x = self.elem(n["inner"][1], tl)
            y = self.elem(n["inner"][2], el)
            a = target or self.fresh()
            out.append("let %s ← if %s then do" % (a, c))
            out.extend("    " + l for l in tl + ["pure %s" % x])
            out.append("  else do")
            out.extend("    " + l for l in el + ["pure %s" % y])
            self.monadic = True
            return a
        elif k == "CallExpr" and self.callee(n) in (LIBM_D if self.elemtype == "double" else LIBM_F if self.elemtype == "float" else {}):
            tab = LIBM_D if self.elemtype == "double" else LIBM_F
            if tab[self.callee(n)].startswith("VNum."): self.vnum = True
            else: self.vinf = True
            if len(n["inner"]) != 2:
                raise Unsupported("%s: argument count of %s" % (self.where(n), self.callee(n)))
            x = self.elem(n["inner"][1], out)
            a = "(%s %s)" % (tab[self.callee(n)], x); self.stats["n_calls"] += 1
        elif k == "CallExpr" and self.callee(n) in (("fabs",) if self.elemtype == "double" else ("fabsf",) if self.elemtype == "float" else ()) and len(n["inner"]) == 2:
            x = self.elem(n["inner"][1], out); self.vfin = True
            a = "(VFin.abs %s)" % x; self.stats["n_calls"] += 1
        elif k == "CallExpr" and self.callee(n) in self.known and self.known[self.callee(n)].ret == "elem":
            return self.call(n, out, want_ret=True) if not target else self.bind_as(target, self.call(n, out, want_ret=True), out)
        elif k in ("CStyleCastExpr", "ImplicitCastExpr") and n.get("castKind") == "IntegralToFloating" and self.is_idx_expr(n["inner"][0]):
            self.need_double(n); self.vnum = True                    # `(double) n` for a length / index
            a = "(VNum.ofNat (%s).toNat : α)" % self.idx(n["inner"][0])
        elif k in ("ImplicitCastExpr", "CStyleCastExpr") and n.get("castKind") == "IntegralToFloating" and unwrap(n["inner"][0])["kind"] == "ArraySubscriptExpr" \
                and self.arr_ty(unwrap(n["inner"][0])["inner"][0]) == "ι" and strip_q(n["type"]["qualType"]) == self.elemtype:
            sub = unwrap(n["inner"][0])
            t = self.fresh()
            out.append("let %s ← rd %s %s" % (t, self.arr_of(sub["inner"][0]), self.idx(sub["inner"][1])))
            self.monadic = True; self.stats["n_reads"] += 1; self.vint = True
            a = "(VInt.ofInt %s)" % t                                  # `(T) src[i]` for an `int` cell
        elif k in ("ImplicitCastExpr", "CStyleCastExpr") and n.get("castKind") == "FloatingCast" and self.elemtype == "float" \
                and strip_q(n["type"]["qualType"]) == "float" and self.is_wide(n["inner"][0]):
            w = self.welem(n["inner"][0], out)                       # `(float) <double expression>`: the one rounding to binary32
            self.mix = True
            a = "(VMix.narrow %s)" % w
        elif k == "ImplicitCastExpr":
            raise Unsupported("%s: conversion %s to %s" % (self.where(n), n.get("castKind"), n["type"]["qualType"]))
        else:
            raise Unsupported("%s: element expression of kind %s %s" % (self.where(n), k, n.get("opcode", "")))
        if target:
            out.append("let %s := %s" % (target, a))
            return target
        return a

    def wrap_int(self, n):
        """an expression of an INTEGER element type returned as `int` (the comparator idiom `return x1 - x2;`): pure Lean `Int` term in
        gcc's semantics — `+ - *` wrap around at the element width (`CWrap.wadd/wsub/wmul`; ISO C: undefined on signed overflow, UBSan
        aborts the C side) and the conversion to `int` keeps the low 32 bits (`CWrap.toCInt`; implementation-defined in ISO C)"""
        if self.elemtype not in ("int", "int64_t"):
            raise Unsupported("%s: a %s expression returned as int" % (self.where(n), self.elemtype))
        def go(x):
            x = unwrap(x, casts=("LValueToRValue", "NoOp"))
            k = x["kind"]
            if k == "ImplicitCastExpr" and x.get("castKind") == "IntegralCast" and strip_q(x["type"]["qualType"]) == "int":
                return go(x["inner"][0])
            if k == "DeclRefExpr":
                nm = x["referencedDecl"]["name"]
                if self.kind.get(nm) not in ("elem", "voidp") or nm not in self.bound:
                    raise Unsupported("%s: %s in a wrapped integer expression" % (self.where(x), nm))
                return self.ident(nm)
            if k == "BinaryOperator" and x["opcode"] in ("+", "-", "*"):
                if strip_q(x["type"]["qualType"]) not in (self.elemtype, {"int64_t": "long"}.get(self.elemtype, "")):
                    raise Unsupported("%s: arithmetic at type %s in a routine over %s" % (self.where(x), x["type"]["qualType"], self.elemtype))
                self.stats["n_ops"] += 1
                return "(CWrap.%s %s %s)" % ({"+": "wadd", "-": "wsub", "*": "wmul"}[x["opcode"]], go(x["inner"][0]), go(x["inner"][1]))
            raise Unsupported("%s: wrapped integer expression of kind %s %s" % (self.where(x), k, x.get("opcode", "")))
        self.wrap = True
        return "(CWrap.toCInt %s)" % go(n)

    def need_double(self, n):
        """the floating-point forms are translated for `double` routines only: in a `float` routine the C source mixes binary32 and
        binary64 sub-expressions, which this one-type translation does not express (those routines stay with the hand model)"""
        if self.elemtype == "float":
            t = strip_q(n.get("type", {}).get("qualType", "float"))
            if t not in ("float", "const float", "void", "int"):
                raise Unsupported("%s: %s-typed floating-point form reached the float path" % (self.where(n), t))
            return
        if self.elemtype != "double":
            raise Unsupported("%s: floating-point expression form in a routine over %s" % (self.where(n), self.elemtype))

    def is_wide(self, n):
        """in a `float` routine: is this expression evaluated in `double` by the C text?"""
        if self.elemtype != "float":
            return False
        return strip_q(unwrap(n).get("type", {}).get("qualType", "")) == "double"

    def welem(self, n, out):
        """a `double`-typed expression inside a `float` routine -> Lean atom of the wide type `ω` (operations of `VInf ω`; total)"""
        n0 = n
        n = unwrap(n)
        k = n["kind"]
        if strip_q(n.get("type", {}).get("qualType", "")) != "double":
            raise Unsupported("%s: %s-typed expression where a double is expected" % (self.where(n), n.get("type", {}).get("qualType")))
        self.mix = True
        if k in ("ImplicitCastExpr", "CStyleCastExpr") and n.get("castKind") == "FloatingCast" and not self.is_wide(n["inner"][0]):
            if self.inf_tree(n0) is not None:
                self.winf = True
                return "(VInf.inf : ω)" if self.inf_tree(n0) == 1 else "(VInf.neg (VInf.inf : ω))"
            x = self.elem(n["inner"][0], out)                        # `(double) <float expression>`: exact
            return "(VMix.widen %s : ω)" % x
        if k == "ArraySubscriptExpr" and self.arr_ty(n["inner"][0]) == "ω":
            t = self.fresh()
            out.append("let %s ← rd %s %s" % (t, self.arr_of(n["inner"][0]), self.idx(n["inner"][1])))
            self.monadic = True; self.stats["n_reads"] += 1
            return t
        lit = self.int_literal(n)
        if lit is not None:
            if lit < 0: self.winf = True
            return "(VInf.neg (VNum.ofNat %d : ω))" % -lit if lit < 0 else "(VNum.ofNat %d : ω)" % lit
        if self.sci_literal(n) is not None:
            ng, m, e = self.sci_literal(n)
            self.wsci = True
            if ng: self.winf = True
            return ("(VInf.neg (VSci.sci %d %d : ω))" if ng else "(VSci.sci %d %d : ω)") % (m, e)
        if k == "BinaryOperator" and n["opcode"] in ("+", "-", "*", "/"):
            x = self.welem(n["inner"][0], out)
            y = self.welem(n["inner"][1], out)
            a = self.fresh()
            out.append("let %s : ω := %s %s %s" % (a, x, n["opcode"], y)); self.stats["n_ops"] += 1
            return a
        if k == "UnaryOperator" and n["opcode"] == "-":
            self.winf = True
            return "(VInf.neg %s)" % self.welem(n["inner"][0], out)
        if k == "CallExpr" and self.callee(n) in LIBM_D:
            if len(n["inner"]) != 2:
                raise Unsupported("%s: argument count of %s" % (self.where(n), self.callee(n)))
            if not LIBM_D[self.callee(n)].startswith("VNum."): self.winf = True
            x = self.welem(n["inner"][1], out); self.stats["n_calls"] += 1
            return "(%s %s)" % (LIBM_D[self.callee(n)], x)
        if k in ("CStyleCastExpr", "ImplicitCastExpr") and n.get("castKind") == "IntegralToFloating" and self.is_idx_expr(n["inner"][0]):
            return "(VNum.ofNat (%s).toNat : ω)" % self.idx(n["inner"][0])
        if k == "CallExpr" and self.callee(n) == "fabs" and len(n["inner"]) == 2:
            x = self.welem(n["inner"][1], out); self.wfin = True; self.stats["n_calls"] += 1
            return "(VFin.abs %s)" % x
        raise Unsupported("%s: double-typed expression of kind %s %s in a float routine" % (self.where(n), k, n.get("opcode", "")))

    def is_inf(self, n):
        return self.inf_tree(n) == 1

    def inf_tree(self, n):
        """+1 / -1 if the expression is (a negation of) the infinity builtin under parentheses and exact float->double widening, else None"""
        n = unwrap(n, casts=("LValueToRValue", "NoOp", "FloatingCast"))
        if n["kind"] == "CallExpr":
            return 1 if self.callee(n) in ("__builtin_inff", "__builtin_inf", "__builtin_huge_val", "__builtin_huge_valf") else None
        if n["kind"] == "UnaryOperator" and n["opcode"] == "-":
            r = self.inf_tree(n["inner"][0])
            return None if r is None else -r
        return None

    def bind_as(self, target, atom, out):
        out.append("let %s := %s" % (target, atom))
        return target

    def cond(self, n, out):
        n = unwrap(n)
        k = n["kind"]
        if k == "BinaryOperator":
            op = n["opcode"]
            if op in ("&&", "||"):
                pre = []
                a = self.cond(n["inner"][0], out)
                b = self.cond(n["inner"][1], pre)
                if pre:                                              # the right operand reads memory: evaluate it only when C does
                    cn = self.fresh()
                    if op == "||":
                        out.append("let %s ← if %s then pure true else do" % (cn, a))
                        out.extend("    " + l for l in pre + ["pure %s" % b])
                    else:
                        out.append("let %s ← if %s then do" % (cn, a))
                        out.extend("    " + l for l in pre + ["pure %s" % b])
                        out.append("  else pure false")
                    self.monadic = True
                    return cn
                return "(%s %s %s)" % (a, op, b)
            if op in ("==", "!=") and unwrap(n["inner"][0])["kind"] == "BinaryOperator" and unwrap(n["inner"][0]).get("opcode") == "=" \
                    and self.int_literal(n["inner"][1]) is not None:
                asg = unwrap(n["inner"][0])
                l = unwrap(asg["inner"][0]); r = unwrap(asg["inner"][1])
                if not (l["kind"] == "DeclRefExpr" and self.kind.get(l["referencedDecl"]["name"]) == "idx" and r["kind"] == "CallExpr"
                        and self.callee(r) in self.known and self.known[self.callee(r)].ret == "idx"):
                    raise Unsupported("%s: assignment inside a condition" % self.where(n))
                t = self.call(r, out, want_ret=True)
                v = self.ident(l["referencedDecl"]["name"])
                out.append("let %s : Int := %s" % (v, t))
                self.bound.add(l["referencedDecl"]["name"])
                return "(decide (%s %s %d))" % (v, "=" if op == "==" else "≠", self.int_literal(n["inner"][1]))
            if op in ("==", "!=") and unwrap(n["inner"][0])["kind"] == "CallExpr" and self.callee(unwrap(n["inner"][0])) in EXTERNAL \
                    and self.int_literal(n["inner"][1]) is not None:
                c = unwrap(n["inner"][0])
                lean, cls = EXTERNAL[self.callee(c)]
                args = [self.elem(a, out) for a in c["inner"][1:]]
                if len(args) != 3:
                    raise Unsupported("%s: argument count of %s" % (self.where(n), self.callee(c)))
                self.vcmp = True; self.stats["n_calls"] += 1
                return "(decide (%s %s %s %d))" % (lean, " ".join(args), "=" if op == "==" else "≠", self.int_literal(n["inner"][1]))
            if op in ("<", ">", "<=", ">=", "==", "!="):
                if self.is_idx_expr(n["inner"][0]) and self.is_idx_expr(n["inner"][1]):
                    a, b = self.idx(n["inner"][0]), self.idx(n["inner"][1])
                    return "(decide (%s %s %s))" % (a, {"<": "<", ">": ">", "<=": "≤", ">=": "≥", "==": "=", "!=": "≠"}[op], b)
                if self.is_wide(n["inner"][0]) and self.is_wide(n["inner"][1]):      # float routine: the comparison is made in double
                    a = self.welem(n["inner"][0], out)
                    b = self.welem(n["inner"][1], out)
                    if op == "<": return "(VOrd.lt %s %s)" % (a, b)
                    if op == ">": return "(VOrd.lt %s %s)" % (b, a)
                    if op == "==": return "(VNum.eq %s %s)" % (a, b)
                    if op == "!=": return "(!(VNum.eq %s %s))" % (a, b)
                    raise Unsupported("%s: %s on elements (NaN-sensitive) is outside the subset" % (self.where(n), op))
                a = self.elem(n["inner"][0], out)
                b = self.elem(n["inner"][1], out)
                if op == "<": return "(VOrd.lt %s %s)" % (a, b)
                if op == ">": return "(VOrd.lt %s %s)" % (b, a)
                if op == "==": return "(CElem.eq %s %s)" % (a, b)
                if op == "!=": return "(!(CElem.eq %s %s))" % (a, b)
                raise Unsupported("%s: %s on elements (NaN-sensitive) is outside the subset" % (self.where(n), op))
        if k == "UnaryOperator" and n["opcode"] == "!":
            return "(!%s)" % self.cond(n["inner"][0], out)
        if k == "CallExpr" and self.callee(n) in ("__builtin_isfinite", "isfinite") and len(n["inner"]) == 2 and self.elemtype in ("double", "float"):
            if self.is_wide(n["inner"][1]):
                x = self.welem(n["inner"][1], out); self.wfin = True
            else:
                x = self.elem(n["inner"][1], out); self.vfin = True
            return "(VFin.isFinite %s)" % x
        if self.is_idx_expr(n):
            return "(decide (%s ≠ 0))" % self.idx(n)
        raise Unsupported("%s: condition of kind %s %s" % (self.where(n), k, n.get("opcode", "")))

    # ------------------------------------------------------------------ statements
    def flatten(self, n):
        if n is None or not n.get("kind"):
            return []
        if n["kind"] == "CompoundStmt":
            out = []
            for c in n.get("inner", []):
                out.extend(self.flatten(c))
            return out
        if n["kind"] == "NullStmt":
            return []
        if n["kind"] == "DoStmt" and self.int_literal(n["inner"][1]) == 0 and self.alloc_of(n) is not None:
            return [self.alloc_of(n)]                                 # ESL_ALLOC(p, sizeof(T) * n)
        if n["kind"] == "DoStmt" and self.int_literal(n["inner"][1]) == 0:      # the statement macros `do { … } while (0)`
            found = []
            self.walk(n["inner"][0], lambda x: found.append(1) if x.get("kind") in ("BreakStmt", "ContinueStmt") else None)
            if found:
                raise Unsupported("%s: break / continue inside do { } while (0)" % self.where(n))
            return self.flatten(n["inner"][0])
        if n["kind"] == "LabelStmt":
            return [{"kind": "LabelMark", "declId": n.get("declId")}] + self.flatten(n["inner"][0])
        if self.msg_only(n):
            return []
        return [n]

    def alloc_of(self, n):
        """`ESL_ALLOC(p, sizeof(T) * cnt)` (a `do { … p = malloc(size) … } while (0)` whose other branches report a failed / zero-size
        allocation and `goto ERROR`): the pseudo-statement `p = fresh array of cnt cells`; a failed allocation is outside the model and
        `cnt <= 0` is a fault of the model (the macro raises an exception there)"""
        hits = []
        def f(x):
            if x.get("kind") == "BinaryOperator" and x.get("opcode") == "=":
                l = unwrap(x["inner"][0])
                r = unwrap(x["inner"][1], casts=("LValueToRValue", "NoOp", "BitCast"))
                if l["kind"] == "DeclRefExpr" and r["kind"] == "CallExpr":
                    try:
                        if self.callee(r) == "malloc":
                            hits.append((l["referencedDecl"]["name"], r["inner"][1]))
                    except Unsupported:
                        pass
        self.walk(n, f)
        if len(hits) != 1:
            return None
        nm, size = hits[0]
        size = unwrap(size, casts=("LValueToRValue", "NoOp", "IntegralCast"))
        if not (size["kind"] == "BinaryOperator" and size["opcode"] == "*"):
            return None
        a, b = size["inner"]
        a = unwrap(a, casts=("LValueToRValue", "NoOp", "IntegralCast"))
        if not (a["kind"] == "UnaryExprOrTypeTraitExpr" and a.get("name") == "sizeof" and strip_q(a.get("argType", {}).get("qualType", "")) == self.elemtype):
            return None
        if self.kind.get(nm) != "arr":
            return None
        return {"kind": "AllocMark", "var": nm, "count": b}

    def msg_only(self, n):
        """a statement that only touches the caller's message buffer (`if (errbuf) *errbuf = 0;`, `esl_fail(errbuf, …)`): no effect in the model"""
        k = n.get("kind")
        if k == "CallExpr":
            try:
                if self.callee(n) == "free" and len(n["inner"]) == 2:
                    return True                                      # memory management is outside the model (LeakSanitizer covers the C side)
                return self.callee(n) in ("esl_fail", "snprintf", "sprintf") and len(n["inner"]) > 1 and \
                    [self.kind.get(v) for v in self.vars_in(n["inner"][1])] == ["msg"]
            except Unsupported:
                return False
        if k == "IfStmt" and len(n.get("inner", [])) == 2 and not self.has_return(n) and self.flatten(n["inner"][1]) == [] \
                and not self.assigned([n["inner"][0]]):
            return True                                              # `if (p != NULL) free(p);`
        if k == "IfStmt" and len(n.get("inner", [])) == 2 and not self.has_return(n):
            c = unwrap(n["inner"][0], casts=("LValueToRValue", "NoOp", "PointerToBoolean"))
            if c["kind"] == "BinaryOperator" and c.get("opcode") == "!=":
                c = unwrap(c["inner"][0], casts=("LValueToRValue", "NoOp"))
            if c["kind"] == "DeclRefExpr" and self.kind.get(c["referencedDecl"]["name"]) == "msg":
                asg = self.assigned(self.flatten(n["inner"][1]))
                return all(self.kind.get(v) == "msg" for v in asg)
        return False

    def has_return(self, n):
        found = []
        self.walk(n, lambda x: found.append(1) if x.get("kind") in ("ReturnStmt", "BreakStmt", "ContinueStmt", "GotoStmt") else None)
        return bool(found)

    def assigned(self, stmts):
        """C variables (scalars and arrays) assigned anywhere in stmts, in order of first assignment"""
        out = []
        def add(v):
            if v not in out:
                out.append(v)
        def f(x):
            k = x.get("kind")
            if k in ("BinaryOperator", "CompoundAssignOperator") and x.get("opcode") in ("=", "+=", "-=", "*=", "/="):
                l = unwrap(x["inner"][0])
                if l["kind"] == "DeclRefExpr":
                    add(l["referencedDecl"]["name"])
                elif l["kind"] == "ArraySubscriptExpr":
                    b = unwrap(l["inner"][0])
                    if b["kind"] == "DeclRefExpr":
                        add(b["referencedDecl"]["name"])
                    elif b["kind"] == "ArraySubscriptExpr":
                        add(unwrap(b["inner"][0])["referencedDecl"]["name"])
                elif l["kind"] == "UnaryOperator" and l.get("opcode") == "*":
                    for v in self.vars_in(l):
                        add(v)
            elif k == "UnaryOperator" and x.get("opcode") in ("++", "--"):
                add(unwrap(x["inner"][0])["referencedDecl"]["name"])
            elif k == "VarDecl" and x.get("inner"):
                add(x["name"])
            elif k == "CallExpr":
                fn = self.callee(x)
                if fn in self.known:
                    sig = self.known[fn]
                    for a, (pn, pk) in zip(x["inner"][1:], sig.params):
                        if pn in sig.writes:
                            for v in self.vars_in(a):
                                add(v)
        for s in stmts:
            self.walk(s, f)
        return [self.alias.get(v, v) for v in out]

    def reads_before_write(self, stmts):
        """scalar variables that some path through stmts may read before assigning them (conservative)"""
        need, done = [], set()
        def reads(n):
            for v in self.vars_in(n):
                if v not in done and v not in need:
                    need.append(v)
        def go(ss):
            for s in ss:
                k = s["kind"]
                if k in ("BinaryOperator", "CompoundAssignOperator") and s.get("opcode") in ("=", "+=", "-=", "*=", "/="):
                    l = unwrap(s["inner"][0])
                    reads(s["inner"][1])
                    if l["kind"] == "DeclRefExpr":
                        if s["opcode"] != "=":
                            reads(l)
                        done.add(l["referencedDecl"]["name"])
                    else:
                        reads(l)
                elif k == "IfStmt":
                    reads(s["inner"][0])
                    before = set(done)
                    go(self.flatten(s["inner"][1]))
                    a = set(done)
                    done.clear(); done.update(before)
                    if len(s["inner"]) > 2:
                        go(self.flatten(s["inner"][2]))
                    b = set(done)
                    done.clear(); done.update(a & b)
                else:
                    reads(s)
        go(stmts)
        return need

    def proj(self, i, n):
        if n == 1:
            return "s"
        return "s" + ".2" * i + (".1" if i < n - 1 else "")

    def assign_scalar(self, nm, rhs, lines, compound=None, node=None):
        k = self.kind.get(nm)
        v = self.ident(nm)
        if k == "elem":
            if compound and self.elemtype == "float" and node is not None and strip_q(node.get("computeResultType", {}).get("qualType", "")) == "double":
                cur = self.elem({"kind": "DeclRefExpr", "referencedDecl": {"name": nm}}, lines)      # `x += <double>`: widen, operate in double, round once
                y = self.welem(rhs, lines)
                t = self.fresh()
                lines.append("let %s : ω := (VMix.widen %s : ω) %s %s" % (t, cur, compound, y))
                lines.append("let %s := VMix.narrow %s" % (v, t))
                self.mix = True; self.stats["n_ops"] += 1
            elif compound:
                cur = self.elem({"kind": "DeclRefExpr", "referencedDecl": {"name": nm}}, lines)
                y = self.elem(rhs, lines)
                lines.append("let %s ← CElem.%s %s %s" % (v, {"+": "add", "-": "sub", "*": "mul"}[compound], cur, y))
                self.monadic = True; self.stats["n_ops"] += 1
            else:
                self.elem(rhs, lines, target=v)
        elif k == "idx":
            e = self.idx(rhs)
            if compound:
                if nm not in self.bound:
                    raise Unsupported("%s: %s read before it is assigned" % (self.where(node), nm))
                e = "(%s %s %s)" % (v, compound, e)
            lines.append("let %s : Int := %s" % (v, e))
        else:
            raise Unsupported("%s: assignment to %s (%s)" % (self.where(node), nm, k))
        self.bound.add(nm)

    def call(self, n, lines, want_ret):
        fn = self.callee(n)
        if fn not in self.known:
            raise Unsupported("%s: call of %s (not translated)" % (self.where(n), fn))
        sig = self.known[fn]
        self.wrap = self.wrap or getattr(sig, "wrap", False)
        self.vcmp = self.vcmp or getattr(sig, "vcmp", False)
        self.vinf = self.vinf or getattr(sig, "vinf", False)
        self.vnum = self.vnum or getattr(sig, "vnum", False)
        self.mix = self.mix or getattr(sig, "mix", False)
        self.winf = self.winf or getattr(sig, "winf", False)
        self.vfin = self.vfin or getattr(sig, "vfin", False)
        self.vsci = self.vsci or getattr(sig, "vsci", False)
        self.wsci = self.wsci or getattr(sig, "wsci", False)
        self.wfin = self.wfin or getattr(sig, "wfin", False)
        args, wr = [], []
        actual = [a for a in n["inner"][1:] if [self.kind.get(v) for v in self.vars_in(a)] != ["msg"]]
        for a, (pn, pk) in zip(actual, sig.params):
            if pk == "arr":
                x = self.arr_of(a)
                args.append(x)
                if pn in sig.writes:
                    wr.append(x)
            elif pk == "idx":
                args.append(self.idx(a))
            else:
                args.append(self.elem(a, lines))
        if len(args) != len(sig.params):
            raise Unsupported("%s: argument count of %s" % (self.where(n), fn))
        self.monadic = True; self.stats["n_calls"] += 1
        for x in wr:
            if x not in self.written:
                self.written.append(x)
        callee = "%s %s" % (sig.name, " ".join(args))
        outs = ([self.fresh()] if sig.ret else []) + wr
        if bool(sig.ret) != bool(want_ret):
            raise Unsupported("%s: result of %s %s" % (self.where(n), fn, "ignored" if sig.ret else "used"))
        if len(outs) == 1:
            lines.append("let %s ← %s" % (outs[0], callee))
        else:
            r = self.fresh()
            lines.append("let %s ← %s" % (r, callee))
            for i, o in enumerate(outs):
                lines.append("let %s := %s" % (o, self.proj(i, len(outs)).replace("s", r, 1)))
        return outs[0] if sig.ret else None

    def stmt(self, s, lines, after):
        """one statement without `return`; `after` = the statements that follow it in the function (for liveness)"""
        k = s["kind"]
        if k == "AllocMark":
            v = self.ident(s["var"])
            lines.append("let %s ← allocM (%s) (CElem.ofNat 0 : α)" % (v, self.idx(s["count"])))
            self.monadic = True
            return
        if k == "DeclStmt":
            for v in s["inner"]:
                if v["kind"] != "VarDecl":
                    raise Unsupported("%s: declaration" % self.where(s))
                if self.kind.get(v["name"]) == "arr":
                    if v.get("inner") and unwrap(v["inner"][0], casts=("NullToPointer", "NoOp", "BitCast")).get("castKind") not in (None, "NullToPointer") :
                        raise Unsupported("%s: pointer initialiser" % self.where(s))
                    continue                                         # `T *p = NULL;` : the array exists from its ESL_ALLOC on
                if v.get("inner"):
                    self.assign_scalar(v["name"], v["inner"][0], lines, node=s)
            return
        if k in ("BinaryOperator", "CompoundAssignOperator") and s.get("opcode") in ("=", "+=", "-=", "*=", "/="):
            op = s["opcode"]
            l = unwrap(s["inner"][0])
            rhs = s["inner"][1]
            if l["kind"] == "DeclRefExpr":
                self.assign_scalar(l["referencedDecl"]["name"], rhs, lines, compound=(op[0] if op != "=" else None), node=s)
                return
            if l["kind"] == "ArraySubscriptExpr":
                arr = self.arr_of(l["inner"][0])
                i = self.idx(l["inner"][1])
                if op != "=" and strip_q(s.get("computeResultType", {}).get("qualType", self.elemtype)) not in (self.elemtype, {"int64_t": "long"}.get(self.elemtype, "")):
                    raise Unsupported("%s: compound assignment computed at type %s" % (self.where(s), s.get("computeResultType", {}).get("qualType")))
                if self.arr_ty(l["inner"][0]) != "α":
                    if op != "=" or self.arr_ty(l["inner"][0]) != "ω":
                        raise Unsupported("%s: only plain assignment into a double array of a float routine" % self.where(s))
                    v = self.welem(rhs, lines)
                elif op == "=":
                    v = self.elem(rhs, lines)
                elif op == "/=":
                    self.need_double(s); self.vnum = True
                    cur = self.fresh()
                    lines.append("let %s ← rd %s %s" % (cur, arr, i)); self.stats["n_reads"] += 1
                    y = self.elem(rhs, lines)
                    v = self.fresh()
                    lines.append("let %s := %s / %s" % (v, cur, y)); self.stats["n_ops"] += 1
                else:
                    cur = self.fresh()
                    lines.append("let %s ← rd %s %s" % (cur, arr, i)); self.stats["n_reads"] += 1
                    y = self.elem(rhs, lines)
                    v = self.fresh()
                    lines.append("let %s ← CElem.%s %s %s" % (v, {"+": "add", "-": "sub", "*": "mul"}[op[0]], cur, y)); self.stats["n_ops"] += 1
                lines.append("let %s ← wr %s %s %s" % (arr, arr, i, v))
                self.monadic = True; self.stats["n_writes"] += 1
                if arr not in self.written:
                    self.written.append(arr)
                return
            raise Unsupported("%s: assignment target of kind %s" % (self.where(s), l["kind"]))
        if k == "CallExpr" and self.callee(s) == "qsort":
            base, cnt, sz, cmpf = s["inner"][1:5]
            arr = self.arr_of(base)
            nn = self.idx(cnt)
            if sz.get("kind") != "UnaryExprOrTypeTraitExpr" or sz.get("name") != "sizeof" or strip_q(sz.get("argType", {}).get("qualType", "")) != self.elemtype:
                raise Unsupported("%s: qsort element size is not sizeof(%s)" % (self.where(s), self.elemtype))
            c = unwrap(cmpf, casts=("FunctionToPointerDecay", "NoOp"))
            cn = c.get("referencedDecl", {}).get("name")
            sig = self.known.get(cn)
            if not sig or sig.monadic or sig.ret != "idx" or [kk for _, kk in sig.params] != ["elem", "elem"]:
                raise Unsupported("%s: qsort comparator %s is not a translated pure comparator" % (self.where(s), cn))
            self.wrap = self.wrap or getattr(sig, "wrap", False)
            lines.append("let %s ← qsortM %s %s %s" % (arr, arr, nn, sig.name))
            self.monadic = True; self.stats["n_calls"] += 1
            if arr not in self.written:
                self.written.append(arr)
            return
        if k == "CallExpr":
            self.call(s, lines, want_ret=False)
            return
        if k == "IfStmt":
            if s.get("hasInit") or s.get("hasVar") or self.has_return(s):
                raise Unsupported("%s: if with init / return inside a loop or a nested block" % self.where(s))
            c = self.cond(s["inner"][0], lines)
            th = self.flatten(s["inner"][1])
            el = self.flatten(s["inner"][2]) if len(s["inner"]) > 2 else []
            asg = [v for v in self.assigned(th + el) if self.kind.get(v) in ("arr", "mat") or v in self.bound]
            if not asg:
                raise Unsupported("%s: if without effect" % self.where(s))
            tup = "(%s)" % ", ".join(self.ident(v) for v in asg) if len(asg) > 1 else self.ident(asg[0])
            saved = set(self.bound)
            tl = []
            for i, x in enumerate(th):
                self.stmt(x, tl, th[i + 1:])
            self.bound = set(saved)
            elines = []
            for i, x in enumerate(el):
                self.stmt(x, elines, el[i + 1:])
            self.bound = set(saved)
            r = self.fresh() if len(asg) > 1 else self.ident(asg[0])
            lines.append("let %s ← if %s then do" % (r, c))
            lines.extend("    " + x for x in tl + ["pure %s" % tup])
            if elines:
                lines.append("  else do")
                lines.extend("    " + x for x in elines + ["pure %s" % tup])
            else:
                lines.append("  else pure %s" % tup)
            if len(asg) > 1:
                for i, v in enumerate(asg):
                    lines.append("let %s := %s" % (self.ident(v), self.proj(i, len(asg)).replace("s", r, 1)))
            self.monadic = True
            return
        if k == "ForStmt":
            init, _, cnd, inc, body = s["inner"]
            if not (init and init.get("kind") == "BinaryOperator" and init["opcode"] == "=" and unwrap(init["inner"][0])["kind"] == "DeclRefExpr"):
                raise Unsupported("%s: for-init" % self.where(s))
            iv = unwrap(init["inner"][0])["referencedDecl"]["name"]
            if self.kind.get(iv) != "idx":
                raise Unsupported("%s: loop counter %s" % (self.where(s), iv))
            lo = self.idx(init["inner"][1])
            c = unwrap(cnd) if cnd and cnd.get("kind") else None
            if not (c and c["kind"] == "BinaryOperator" and c["opcode"] == "<" and unwrap(c["inner"][0]).get("referencedDecl", {}).get("name") == iv):
                raise Unsupported("%s: loop condition is not `%s < bound`" % (self.where(s), iv))
            if not (inc and inc.get("kind") == "UnaryOperator" and inc["opcode"] == "++" and unwrap(inc["inner"][0])["referencedDecl"]["name"] == iv):
                raise Unsupported("%s: loop increment is not `%s++`" % (self.where(s), iv))
            bs = self.flatten(body)
            if self.has_return(body):
                raise Unsupported("%s: loop with early exit" % self.where(s))
            asg = self.assigned(bs)
            if iv in asg:
                raise Unsupported("%s: loop counter assigned in the body" % self.where(s))
            if set(self.vars_in(c["inner"][1])) & set(asg):
                raise Unsupported("%s: loop bound modified by the body" % self.where(s))
            hi = self.idx(c["inner"][1])
            rbw = self.reads_before_write(bs)
            later = set()
            for x in after:
                later.update(self.vars_in(x))
            state = [v for v in asg if self.kind.get(v) in ("arr", "mat") or v in rbw or v in later]
            for v in state:
                if self.kind.get(v) in ("elem", "idx") and v not in self.bound:
                    raise Unsupported("%s: %s is carried by the loop but has no value before it" % (self.where(s), v))
            if not state:
                raise Unsupported("%s: loop without effect" % self.where(s))
            names = [self.ident(v) for v in state]
            tup = "(%s)" % ", ".join(names) if len(names) > 1 else names[0]
            saved = set(self.bound)
            self.bound.add(iv)
            bl = []
            if len(names) > 1:
                for i, v in enumerate(names):
                    bl.append("let %s := %s" % (v, self.proj(i, len(names))))
            for i, x in enumerate(bs):
                self.stmt(x, bl, bs[i + 1:] + bs)       # the next iteration follows
            bl.append("pure %s" % tup)
            self.bound = saved | set(state)
            res = "s" if len(names) > 1 else names[0]
            lines.append("let %s ← loop %s %s %s fun %s %s => do" % (res, lo, hi, tup, self.ident(iv), res))
            lines.extend("    " + x for x in bl)
            if len(names) > 1:
                for i, v in enumerate(names):
                    lines.append("let %s := %s" % (v, self.proj(i, len(names))))
            if iv in later:
                lines.append("let %s : Int := if %s ≤ %s then %s else %s" % (self.ident(iv), lo, hi, hi, lo))
                self.bound.add(iv)
            else:
                self.bound.discard(iv)
            self.monadic = True; self.stats["n_loops"] += 1
            for v in state:
                if self.kind.get(v) in ("arr", "mat") and self.ident(v) not in self.written:
                    self.written.append(self.ident(v))
            return
        raise Unsupported("%s: statement kind %s %s" % (self.where(s), k, s.get("opcode", "")))

    def block(self, stmts, ind):
        """function-level statement list -> lines; handles `if (c) return e;` in continuation style"""
        pad = "  " * ind
        lines = []
        for j, s in enumerate(stmts):
            k = s["kind"]
            if k == "ReturnStmt":
                pre = []
                if not s.get("inner"):
                    r = None
                else:
                    e = s["inner"][0]
                    if self.ret == "idx" and unwrap(e)["kind"] == "CallExpr" and self.callee(unwrap(e)) in self.known:
                        r = self.call(unwrap(e), pre, want_ret=True)
                    elif self.ret == "idx" and not self.is_idx_expr(e) and self.int_literal(e) is None and not self.returns_index_expr(e):
                        r = "(%s : Int)" % self.wrap_int(e)
                    elif self.ret == "idx":
                        r = "(%s : Int)" % self.idx(e)
                    elif unwrap(e)["kind"] == "CallExpr" and self.inf_tree(e) is None:
                        r = self.call(unwrap(e), pre, want_ret=True)
                    else:
                        r = self.elem(e, pre)
                lines.extend(pad + x for x in pre)
                lines.append(pad + "return! " + self.result(r))
                return lines
            if k == "ForStmt" and self.has_return(s):
                init, _, cnd, inc, body = s["inner"]
                bs = self.flatten(body)
                search = (len(bs) == 1 and bs[0]["kind"] == "IfStmt" and len(bs[0]["inner"]) == 2 and not bs[0].get("hasInit") and not bs[0].get("hasVar"))
                th = self.flatten(bs[0]["inner"][1]) if search else []
                search = search and (len(th) == 1 and th[0]["kind"] == "ReturnStmt" and th[0].get("inner") and self.ret == "idx" and self.int_literal(th[0]["inner"][0]) is not None)
                if not search:
                    lines.extend(self.ret_loop(s, stmts[j + 1:], ind))
                    return lines
                if not (init and init.get("kind") == "BinaryOperator" and init["opcode"] == "=" and unwrap(init["inner"][0])["kind"] == "DeclRefExpr"):
                    raise Unsupported("%s: for-init" % self.where(s))
                iv = unwrap(init["inner"][0])["referencedDecl"]["name"]
                if self.kind.get(iv) != "idx":
                    raise Unsupported("%s: loop counter %s" % (self.where(s), iv))
                lo = self.idx(init["inner"][1])
                c = unwrap(cnd) if cnd and cnd.get("kind") else None
                if not (c and c["kind"] == "BinaryOperator" and c["opcode"] == "<" and unwrap(c["inner"][0]).get("referencedDecl", {}).get("name") == iv):
                    raise Unsupported("%s: loop condition is not `%s < bound`" % (self.where(s), iv))
                if not (inc and inc.get("kind") == "UnaryOperator" and inc["opcode"] == "++" and unwrap(inc["inner"][0])["referencedDecl"]["name"] == iv):
                    raise Unsupported("%s: loop increment is not `%s++`" % (self.where(s), iv))
                hi = self.idx(c["inner"][1])
                later = set()
                for x in stmts[j + 1:]:
                    later.update(self.vars_in(x))
                if iv in later:
                    raise Unsupported("%s: counter of a search loop read after the loop" % self.where(s))
                saved = set(self.bound)
                self.bound.add(iv)
                pre = []
                cc = self.cond(bs[0]["inner"][0], pre)
                self.bound = saved
                fnd = self.fresh()
                lines.append(pad + "let %s ← loopAny %s %s fun %s => do" % (fnd, lo, hi, self.ident(iv)))
                lines.extend(pad + "    " + x for x in pre + ["pure %s" % cc])
                self.monadic = True; self.stats["n_loops"] += 1
                lines.append(pad + "if %s then" % fnd)
                lines.extend(self.block(th, ind + 1))
                self.bound = set(saved)
                lines.append(pad + "else")
                lines.extend(self.block(stmts[j + 1:], ind + 1))
                return lines
            if k == "GotoStmt":
                tgt = s.get("targetLabelDeclId")
                if tgt not in self.labels:
                    raise Unsupported("%s: goto to an unknown / nested label" % self.where(s))
                lines.extend(self.block(self.labels[tgt], ind))
                return lines
            if k == "IfStmt" and self.has_return(s):
                th = self.flatten(s["inner"][1])
                el = self.flatten(s["inner"][2]) if len(s["inner"]) > 2 else []
                if s.get("hasInit") or s.get("hasVar"):
                    raise Unsupported("%s: if with init" % self.where(s))
                pre = []
                c = self.cond(s["inner"][0], pre)
                lines.extend(pad + x for x in pre)
                saved = set(self.bound)
                lines.append(pad + "if %s then" % c)
                lines.extend(self.block(th + stmts[j + 1:], ind + 1))
                self.bound = set(saved)
                lines.append(pad + "else")
                lines.extend(self.block(el + stmts[j + 1:], ind + 1))
                return lines
            sub = []
            self.stmt(s, sub, stmts[j + 1:])
            lines.extend(pad + x for x in sub)
        if self.ret is not None:
            raise Unsupported("%s: control reaches the end of a non-void function" % self.where())
        lines.append(pad + "return! " + self.result(None))
        return lines

    def live_part(self, stmts):
        """the statements of a loop body without the branches that end in `return` / `goto` (what they assign is not carried round the loop)"""
        out = []
        for x in stmts:
            if x["kind"] in ("ReturnStmt", "GotoStmt"):
                break
            if x["kind"] == "IfStmt" and self.has_return(x):
                th = self.flatten(x["inner"][1])
                el = self.flatten(x["inner"][2]) if len(x["inner"]) > 2 else []
                y = dict(x)
                def part(b):
                    b2 = self.live_part(b)
                    dead = bool(b) and len(b2) < len(b) and (not b2 or True) and self.ends(b)
                    return [] if dead else b2
                y["inner"] = [x["inner"][0], {"kind": "CompoundStmt", "inner": part(th)}, {"kind": "CompoundStmt", "inner": part(el)}]
                out.append(y)
            else:
                out.append(x)
        return out

    def ends(self, stmts):
        """does every path through stmts end in return / goto?"""
        if not stmts:
            return False
        last = stmts[-1]
        if last["kind"] in ("ReturnStmt", "GotoStmt"):
            return True
        if last["kind"] == "IfStmt" and len(last["inner"]) > 2:
            return self.ends(self.flatten(last["inner"][1])) and self.ends(self.flatten(last["inner"][2]))
        return False

    def ret_loop(self, s, rest, ind):
        """`for (i = lo; i < hi; i++) body` whose body may `return e;` on some paths and carries state on the others:
        `loopRet lo hi state fun i state => … pure (Sum.inl e) | pure (Sum.inr state)`, then the function continues on `Sum.inr`"""
        pad = "  " * ind
        init, _, cnd, inc, body = s["inner"]
        if self.ret is None:
            raise Unsupported("%s: return inside a loop of a void function" % self.where(s))
        if not (init and init.get("kind") == "BinaryOperator" and init["opcode"] == "=" and unwrap(init["inner"][0])["kind"] == "DeclRefExpr"):
            raise Unsupported("%s: for-init" % self.where(s))
        iv = unwrap(init["inner"][0])["referencedDecl"]["name"]
        if self.kind.get(iv) != "idx":
            raise Unsupported("%s: loop counter %s" % (self.where(s), iv))
        lo = self.idx(init["inner"][1])
        c = unwrap(cnd) if cnd and cnd.get("kind") else None
        if not (c and c["kind"] == "BinaryOperator" and c["opcode"] == "<" and unwrap(c["inner"][0]).get("referencedDecl", {}).get("name") == iv):
            raise Unsupported("%s: loop condition is not `%s < bound`" % (self.where(s), iv))
        if not (inc and inc.get("kind") == "UnaryOperator" and inc["opcode"] == "++" and unwrap(inc["inner"][0])["referencedDecl"]["name"] == iv):
            raise Unsupported("%s: loop increment is not `%s++`" % (self.where(s), iv))
        bs = self.flatten(body)
        found = []
        self.walk(body, lambda x: found.append(1) if x.get("kind") in ("BreakStmt", "ContinueStmt") else None)
        if found:
            raise Unsupported("%s: break / continue in a loop" % self.where(s))
        asg = self.assigned(self.live_part(bs))
        if iv in asg:
            raise Unsupported("%s: loop counter assigned in the body" % self.where(s))
        if set(self.vars_in(c["inner"][1])) & set(asg):
            raise Unsupported("%s: loop bound modified by the body" % self.where(s))
        hi = self.idx(c["inner"][1])
        rbw = self.reads_before_write(self.live_part(bs))
        later = set()
        for x in rest:
            later.update(self.vars_in(x))
        if iv in later:
            raise Unsupported("%s: counter of a loop with early return read after the loop" % self.where(s))
        state = [v for v in asg if self.kind.get(v) in ("arr", "mat") or v in rbw or v in later]
        for v in state:
            if self.kind.get(v) in ("arr", "mat"):
                raise Unsupported("%s: a loop with early return may not write arrays" % self.where(s))
            if v not in self.bound:
                raise Unsupported("%s: %s is carried by the loop but has no value before it" % (self.where(s), v))
        if not state:
            raise Unsupported("%s: loop with early return but without state (use the search-loop form)" % self.where(s))
        names = [self.ident(v) for v in state]
        tup = "(%s)" % ", ".join(names) if len(names) > 1 else names[0]
        res = "s" if len(names) > 1 else names[0]
        saved = set(self.bound)
        self.bound.add(iv)

        def body_block(stmts, depth):
            p2 = "  " * depth
            out = []
            for jj, x in enumerate(stmts):
                k = x["kind"]
                if k == "ReturnStmt":
                    if not x.get("inner"):
                        raise Unsupported("%s: bare return" % self.where(x))
                    pre = []
                    r = ("(%s : Int)" % self.idx(x["inner"][0])) if self.ret == "idx" else self.elem(x["inner"][0], pre)
                    out.extend(p2 + l for l in pre)
                    out.append(p2 + "pure (Sum.inl %s)" % r)
                    return out
                if k == "GotoStmt":
                    tgt = x.get("targetLabelDeclId")
                    if tgt not in self.labels:
                        raise Unsupported("%s: goto to an unknown / nested label" % self.where(x))
                    out.extend(body_block(self.labels[tgt], depth))      # (the label's statements must end in `return`)
                    return out
                if k == "IfStmt" and self.has_return(x):
                    if x.get("hasInit") or x.get("hasVar"):
                        raise Unsupported("%s: if with init" % self.where(x))
                    pre = []
                    cc = self.cond(x["inner"][0], pre)
                    out.extend(p2 + l for l in pre)
                    th = self.flatten(x["inner"][1])
                    el = self.flatten(x["inner"][2]) if len(x["inner"]) > 2 else []
                    keep = set(self.bound)
                    out.append(p2 + "if %s then" % cc)
                    out.extend(body_block(th + stmts[jj + 1:], depth + 1))
                    self.bound = set(keep)
                    out.append(p2 + "else")
                    out.extend(body_block(el + stmts[jj + 1:], depth + 1))
                    self.bound = set(keep)
                    return out
                sub = []
                self.stmt(x, sub, stmts[jj + 1:] + bs)
                out.extend(p2 + l for l in sub)
            out.append(p2 + "pure (Sum.inr %s)" % tup)
            return out

        bl = []
        if len(names) > 1:
            for i, v in enumerate(names):
                bl.append("let %s := %s" % (v, self.proj(i, len(names))))
        inner = body_block(bs, 0)
        self.bound = saved | set(state)
        self.bound.discard(iv)
        r = self.fresh()
        lines = [pad + "let %s ← loopRet %s %s %s fun %s %s => do" % (r, lo, hi, tup, self.ident(iv), res)]
        lines.extend(pad + "    " + x for x in bl + inner)
        self.monadic = True; self.stats["n_loops"] += 1
        e = self.fresh()
        lines.append(pad + "match %s with" % r)
        lines.append(pad + "| Sum.inl %s =>" % e)
        lines.append(pad + "  return! %s" % e)
        lines.append(pad + "| Sum.inr %s =>" % res)
        if len(names) > 1:
            for i, v in enumerate(names):
                lines.append(pad + "  let %s := %s" % (v, self.proj(i, len(names))))
        lines.extend(self.block(rest, ind + 1))
        return lines

    def translate(self):
        body = None
        params = []
        for c in self.f.get("inner", []):
            if c["kind"] == "CompoundStmt":
                body = c
        if body is None:
            raise Unsupported("%s: no body" % self.where())
        self.classify(body)
        rt = strip_q(self.f["type"]["qualType"].split("(")[0])
        sig_params = []
        for c in self.f.get("inner", []):
            if c["kind"] != "ParmVarDecl":
                continue
            nm = c["name"]
            k = self.kind[nm]
            if nm in self.alias or k == "msg":
                continue
            ln = self.ident(nm)
            if k in ("arr", "mat"):
                params.append("(%s : Array %s)" % (ln, self.arrtype.get(nm, "α"))); sig_params.append((ln, "arr"))
                self.leantype = getattr(self, "leantype", {}); self.leantype[ln] = self.arrtype.get(nm, "α")
                self.kind[nm] = "arr" if k == "arr" else "mat"
            elif k in ("elem", "voidp"):
                params.append("(%s : α)" % ln); sig_params.append((ln, "elem"))
                self.bound.add(nm)
            else:
                params.append("(%s : Int)" % ln); sig_params.append((ln, "idx"))
                self.bound.add(nm)
        if rt == "void":
            self.ret = None
        elif rt == self.elemtype and not self.returns_index(body) and "voidp" not in self.kind.values():
            self.ret = "elem"
        elif rt in INT_TYPES:          # (a qsort comparator — `const void *` parameters — returns a plain `int`, never an element)
            self.ret = "idx"
        else:
            raise Unsupported("%s: return type %s" % (self.where(), rt))
        # arrays written are only known after the body is translated: translate with a placeholder
        self.out_arrays = []
        top = self.flatten(body)
        for i, x in enumerate(top):
            if x["kind"] == "LabelMark":
                self.labels[x["declId"]] = [y for y in top[i + 1:] if y["kind"] != "LabelMark"]
        lines = self.block([y for y in top if y["kind"] != "LabelMark"], 1)
        order = [p for p, k in sig_params if k == "arr" and p in self.written]
        self.out_arrays = order
        text_lines = []
        for l in lines:
            m = re.match(r"(\s*)return! ?(.*)$", l)
            if m:
                ret_atom = m.group(2).strip() or None
                parts = ([ret_atom] if ret_atom else []) + order
                if not parts:
                    raise Unsupported("%s: function without result" % self.where())
                val = "(%s)" % ", ".join(parts) if len(parts) > 1 else parts[0]
                text_lines.append(m.group(1) + ("pure " if self.monadic else "") + val)
            else:
                text_lines.append(l)
        tys = (["Int" if self.ret == "idx" else "α"] if self.ret else []) + ["Array %s" % getattr(self, "leantype", {}).get(o, "α") for o in order]
        rty = " × ".join(tys)
        if self.monadic:
            head = "def %s %s%s : Option (%s) := do" % (self.name, self.binders(), " ".join(params), rty)
        else:
            head = "def %s %s%s : %s :=" % (self.name, self.binders(), " ".join(params), rty)
        line = self.f.get("loc", {}).get("line", "?")
        doc = "/-- `%s` (%s:%s)%s -/" % (self.cname, self.cfile, line, (" with " + ", ".join("%s = %s" % kv for kv in self.alias.items())) if self.alias else "")
        sig = Sig(self.name, sig_params, order, self.ret)
        sig.monadic = self.monadic
        sig.wrap = self.wrap
        sig.vcmp = self.vcmp
        sig.vinf = self.vinf
        sig.vnum = self.vnum
        sig.mix = self.mix
        sig.winf = self.winf
        sig.vfin = self.vfin
        sig.vsci = self.vsci
        sig.wsci = self.wsci
        sig.wfin = self.wfin
        return doc + "\n" + head + "\n" + "\n".join(text_lines) + "\n", sig

    def binders(self):
        return (("[CWrap α] " if self.wrap else "") + ("[VCmp α] " if self.vcmp else "") +
                ("[VInf α] " if self.vinf else "[VNum α] " if self.vnum else "") + ("[VFin α] " if self.vfin else "") +
                ("{ω : Type} [VMix α ω] [%s ω] " % ("VInf" if self.winf else "VNum") if self.mix else "") + ("[VFin ω] " if self.wfin else "") + ("{ι : Type} [VInt α ι] " if self.vint else "") + ("[VSci α] " if self.vsci else "") + ("[VSci ω] " if self.wsci else ""))

    def result(self, r):
        return r or ""

    def returns_index_expr(self, e):
        """does the returned expression mention no variable of element kind? (then it is index arithmetic)"""
        return not any(self.kind.get(v) in ("elem", "voidp", "arr", "mat") for v in self.vars_in(e))

    def returns_index(self, body):
        """a function whose element type is int64_t/int and whose return type is the same: is the returned value an index?"""
        res = []
        def f(x):
            if x.get("kind") == "ReturnStmt" and x.get("inner"):
                e = unwrap(x["inner"][0])
                if e["kind"] == "CallExpr" and self.callee(e) in self.known:
                    res.append(self.known[self.callee(e)].ret == "idx")
                else:
                    res.append(self.is_idx_expr(x["inner"][0]))
        self.walk(body, f)
        return bool(res) and all(res)


HEADER = """import EaselModel.Vec.CSem
/-! GENERATED on every run by translate/vec2lean.py from the working tree's esl_vectorops.c / esl_matrixops.c — do not edit.
    Each definition is the C function of the same name as clang-14 parsed it: arrays are `Array α` with bounds-checked access
    (`rd`/`wr`: out of bounds = `none`), element operations are those of `CElem α` (`none` = signed overflow), index arithmetic
    is on `Int`, counted loops are `loop lo hi state body`. -/
set_option linter.unusedVariables false
namespace EaselModel.Vec.Gen
open EaselModel.Vec
variable {α : Type} [CElem α]

"""

VEC_TYPES = "DFIL"
VEC_ROUTINES = ["Set", "Scale", "Increment", "Add", "AddScaled", "Sum", "Dot", "Max", "Min", "ArgMax", "ArgMin", "Copy", "Swap", "Reverse", "Compare"]
MAT_ROUTINES = {"Set": "DFI", "Scale": "DFI", "Copy": "DFIWB", "Max": "DFI", "Compare": "DFI"}


def plan():
    vec = []
    for r in VEC_ROUTINES:
        for T in VEC_TYPES:
            vec.append(("esl_vec_%s%s" % (T, r), None, ""))
            if r == "Reverse":
                vec.append(("esl_vec_%s%s" % (T, r), {"rev": "vec"}, "_inplace"))
    vec.append(("esl_vec_CReverse", None, "")); vec.append(("esl_vec_CReverse", {"rev": "vec"}, "_inplace"))
    vec += [("esl_vec_WCopy", None, ""), ("esl_vec_BCopy", None, "")]
    # the probability / log-space routines over `double` (the `float` versions mix binary32 and binary64: hand model Vec/Model.lean)
    vec += [("esl_vec_D%s" % r, None, "") for r in ("Norm", "Log", "Log2", "Exp", "Exp2", "LogSum", "Log2Sum", "LogNorm", "Log2Norm", "Entropy")]
    vec += [("esl_vec_F%s" % r, None, "") for r in ("Norm", "Log", "Log2", "Exp", "Exp2", "LogSum", "Log2Sum", "LogNorm", "Log2Norm", "Entropy")]
    vec += [("esl_vec_D2F", None, ""), ("esl_vec_F2D", None, ""), ("esl_vec_I2F", None, ""), ("esl_vec_I2D", None, "")]
    vec += [("esl_vec_DRelEntropy", None, ""), ("esl_vec_FRelEntropy", None, ""), ("esl_vec_DValidate", None, ""), ("esl_vec_FValidate", None, "")]
    vec += [("esl_vec_%s%sValidate" % (T, b), None, "") for b in ("Log", "Log2") for T in "DF"]
    vec += [("esl_vec_DCDF", None, ""), ("esl_vec_DCDF", {"cdf": "p"}, "_inplace"), ("esl_vec_FCDF", None, ""), ("esl_vec_FCDF", {"cdf": "p"}, "_inplace")]
    cmpf = [("qsort_%s%s" % (T, d), None, "") for d in ("Increasing", "Decreasing") for T in VEC_TYPES]
    sort = [("esl_vec_%sSort%s" % (T, d), None, "") for d in ("Increasing", "Decreasing") for T in VEC_TYPES]
    mat = [("esl_mat_%s%s" % (T, r), None, "") for r, ts in MAT_ROUTINES.items() for T in ts]
    return [("esl_vectorops.c", "esl_vec_", vec), ("esl_vectorops.c", "qsort_", cmpf), ("esl_vectorops.c", "esl_vec_", sort), ("esl_matrixops.c", "esl_mat_", mat)]


def generate(src_dir, the_plan=None):
    known, chunks, infos = {}, [], []
    for cfile, filt, items in (the_plan or plan()):
        docs = c2lean.clang_docs(src_dir, cfile, filt)
        defs = {}
        for d in docs:
            if d.get("kind") == "FunctionDecl" and any(c.get("kind") == "CompoundStmt" for c in d.get("inner", [])):
                defs[d["name"]] = d
        for nm, alias, suffix in items:
            if nm not in defs:
                raise Unsupported("%s: function %s not found (renamed or removed?)" % (cfile, nm))
            t = Fn(defs[nm], cfile, known, alias, suffix)
            text, sig = t.translate()
            if not alias:
                known[nm] = sig
            chunks.append(text)
            infos.append({"name": t.name, "elem": t.elemtype, "wrap": t.wrap, "vcmp": t.vcmp, "vinf": t.vinf or t.vnum or t.mix or t.vfin or t.vint or t.vsci or t.wsci, "mix": t.mix, "params": sig.params, "writes": sig.writes, "ret": sig.ret, "monadic": t.monadic, **t.stats})
    disp = ["/-- name → translated function; arguments grouped by kind in parameter order (arrays, indices, elements);",
            "    outer `none` = unknown name / wrong arity, inner `none` = the routine faults -/",
            "def dispatch %s(name : String) (A : List (Array α)) (I : List Int) (E : List α) : Option (Option (Res α)) :=" % ("[CWrap α] " if any(i["wrap"] for i in infos) else ""),
            "  match name, A, I, E with"]
    for inf in infos:
        if inf["vcmp"] or inf["vinf"]:
            continue                     # needs the floating-point class `VCmp`: the driver calls it directly at Float / Float32
        ps = inf["params"]
        pat = lambda k: "[%s]" % ", ".join(p for p, kk in ps if kk == k)
        call = "%s %s" % (inf["name"], " ".join(p for p, kk in ps))
        nout = (1 if inf["ret"] else 0) + len(inf["writes"])
        comps = ["r"] if nout == 1 else ["r" + ".2" * i + (".1" if i < nout - 1 else "") for i in range(nout)]
        e = comps[0] if inf["ret"] == "elem" else None
        ix = comps[0] if inf["ret"] == "idx" else None
        arrs = comps[(1 if inf["ret"] else 0):]
        res = "⟨%s, %s, [%s]⟩" % ("some " + e if e else "none", "some " + ix if ix else "none", ", ".join(arrs))
        body = "(%s).map fun r => %s" % (call, res) if inf["monadic"] else "some (let r := %s; %s)" % (call, res)
        disp.append('  | "%s", %s, %s, %s => some (%s)' % (inf["name"], pat("arr"), pat("idx"), pat("elem"), body))
    disp.append("  | _, _, _, _ => none")
    return HEADER + "\n".join(chunks) + "\n" + "\n".join(disp) + "\n\nend EaselModel.Vec.Gen\n", infos


if __name__ == "__main__":
    text, infos = generate(sys.argv[1] if len(sys.argv) > 1 else "/repo")
    sys.stdout.write(text)
    sys.stderr.write("translated %d functions\n" % len(infos))
