"""C15: dump the DNA/RNA/amino alphabet tables (K, Kp, sym, inmap, complement, degen, ndegen) of the working tree into a Lean file.
Used from props/c15.py: SPEC.generated(ctx). The tables are what esl_msa_Digitize/Textize/ReverseComplement/MinimGaps read."""
import os, subprocess, tempfile

C_SRC = r'''
#include <stdio.h>
#include "easel.h"
#include "esl_alphabet.h"
int main(void) {
  int types[3] = { eslRNA, eslDNA, eslAMINO }; const char *nm[3] = { "rna", "dna", "amino" }; int t, i;
  for (t = 0; t < 3; t++) {
    ESL_ALPHABET *a = esl_alphabet_Create(types[t]);
    if (!a) return 1;
    printf("abc %s %d %d %d\n", nm[t], a->type, a->K, a->Kp);
    printf("sym"); for (i = 0; i < a->Kp; i++) printf(" %d", (unsigned char) a->sym[i]); printf("\n");
    printf("inmap"); for (i = 0; i < 128; i++) printf(" %d", a->inmap[i]); printf("\n");
    if (a->complement) { printf("compl"); for (i = 0; i < a->Kp; i++) printf(" %d", a->complement[i]); printf("\n"); }
    else printf("compl none\n");
    printf("degen"); for (i = 0; i < a->Kp; i++) { int y; printf(" "); for (y = 0; y < a->K; y++) printf("%d", a->degen[i][y] ? 1 : 0); } printf("\n");
    printf("ndegen"); for (i = 0; i < a->Kp; i++) printf(" %d", a->ndegen[i]); printf("\n");
    esl_alphabet_Destroy(a);
  }
  return 0;
}
'''

def dump(src_dir, work, san_flags):
    c = os.path.join(work, "c15_abc_dump.c"); exe = os.path.join(work, "c15_abc_dump")
    open(c, "w").write(C_SRC)
    cmd = ["gcc", "-I" + src_dir] + list(san_flags) + [c, "-o", exe, os.path.join(src_dir, "libeasel.a"), "-lm", "-lpthread"]
    p = subprocess.run(cmd, capture_output=True, text=True)
    if p.returncode != 0:
        raise RuntimeError("alphabet dumper does not compile: " + p.stderr[-1500:])
    e = dict(os.environ, ASAN_OPTIONS="detect_leaks=0")
    p = subprocess.run([exe], capture_output=True, text=True, env=e, timeout=60)
    if p.returncode != 0:
        raise RuntimeError("alphabet dumper failed: " + p.stderr[-1500:])
    return p.stdout

def to_lean(txt):
    out = ["import EaselModel.Msa.Model",
           "/-! GENERATED on every run by translate/c15_abc_tables.py from `esl_alphabet_Create()` of the working tree. Do not edit. -/",
           "namespace EaselModel.Msa.Gen", ""]
    lines = txt.strip().split("\n")
    names = []
    for k in range(0, len(lines), 6):
        _, nm, ty, K, Kp = lines[k].split()
        sym = lines[k + 1].split()[1:]; inmap = lines[k + 2].split()[1:]; compl = lines[k + 3].split()[1:]
        degen = lines[k + 4].split()[1:]; ndegen = lines[k + 5].split()[1:]
        names.append(nm)
        out.append("def %sAbc : Abc :=" % nm)
        out.append("  { type := %s, K := %s, Kp := %s," % (ty, K, Kp))
        out.append("    sym := [%s]," % ", ".join(sym))
        out.append("    inmap := [%s]," % ", ".join(inmap))
        out.append("    complement := %s," % ("none" if compl == ["none"] else "some [%s]" % ", ".join(compl)))
        out.append("    degen := [%s]," % ", ".join("[" + ", ".join("true" if c == "1" else "false" for c in row) + "]" for row in degen))
        out.append("    ndegen := [%s] }" % ", ".join(ndegen))
        out.append("")
    out.append("end EaselModel.Msa.Gen")
    return "\n".join(out) + "\n"
