"""simd2lean.py — translate the inline SIMD helpers of esl_sse.h / esl_avx.h / esl_avx512.h to Lean (C20, kind T).

A strict parser for the very regular straight-line bodies of these helpers.  Anything it does not know
(an unknown intrinsic, a statement form outside the list below, a byte shift that would split a lane in the
function's lane view, an unknown preprocessor conditional) raises TranslateError: the engine reports that as a
failed obligation.  The meaning of every intrinsic is NOT here: it is the Lean definition of the same name in
lean/EaselModel/Simd/Intrinsics.lean (reviewed table, validated against the hardware each run).  This file only
maps C syntax to applications of those definitions and fixes, per function, the lane view:

    name ends in _epu8/_epi8/_int8   -> lanes are BitVec 8
                 _epi16/_int16       -> lanes are BitVec 16
                 _ps/_float          -> lanes are abstract binary32 values `α` with operations `O : F32Ops α`

Statement forms accepted:   [register] T x = e;   x = e;   return e;   _mm_store_ss(p, e);
                            int *q = (int *) p;   *q = e;          (the AVX "extract a float" idiom)
"""
import re, os

class TranslateError(Exception):
    pass

HELPERS = {
    "esl_sse.h": ["esl_sse_hmax_epu8", "esl_sse_hmax_epi8", "esl_sse_hmax_epi16", "esl_sse_hmax_ps", "esl_sse_hmin_ps",
                  "esl_sse_hsum_ps", "esl_sse_rightshift_int8", "esl_sse_rightshift_int16", "esl_sse_rightshiftz_float",
                  "esl_sse_leftshiftz_float", "esl_sse_rightshift_ps", "esl_sse_leftshift_ps", "esl_sse_any_gt_epu8",
                  "esl_sse_any_gt_epi16", "esl_sse_any_gt_ps", "esl_sse_select_ps"],
    "esl_avx.h": ["esl_avx_hmax_epu8", "esl_avx_hmax_epi8", "esl_avx_hmax_epi16", "esl_avx_hsum_ps",
                  "esl_avx_rightshift_int8", "esl_avx_rightshift_int16", "esl_avx_rightshiftz_float",
                  "esl_avx_leftshiftz_float", "esl_avx_any_gt_epi16"],
    "esl_avx512.h": ["esl_avx512_hmax_epu8", "esl_avx512_hmax_epi8", "esl_avx512_hmax_epi16", "esl_avx512_hsum_ps",
                     "esl_avx512_rightshift_int8", "esl_avx512_rightshift_int16", "esl_avx512_rightshiftz_float",
                     "esl_avx512_leftshiftz_float"],
}

VEC_BITS = {"__m128": 128, "__m128i": 128, "__m256": 256, "__m256i": 256, "__m512": 512, "__m512i": 512}
SCALAR_RET = {"uint8_t": 8, "int8_t": 8, "int16_t": 16}


# ----------------------------------------------------------------------------------------------
# preprocessing
# ----------------------------------------------------------------------------------------------
def strip_comments(s):
    s = re.sub(r"/\*.*?\*/", lambda m: re.sub(r"[^\n]", " ", m.group(0)), s, flags=re.S)
    s = re.sub(r"//[^\n]*", "", s)
    return s


def config_defines(src):
    defs = set()
    p = os.path.join(src, "esl_config.h")
    for line in open(p):
        m = re.match(r"\s*#\s*define\s+(\w+)", line)
        if m:
            defs.add(m.group(1))
    return defs


def preprocess(text, defs):
    """resolve #ifdef/#ifndef/#if defined(..) [|| defined(..)]/#else/#endif ; drop #include/#define lines"""
    out, stack = [], []
    for line in text.split("\n"):
        s = line.strip()
        if s.startswith("#"):
            d = re.sub(r"^#\s*", "", s)
            if d.startswith("ifdef"):
                stack.append(d.split()[1] in defs)
            elif d.startswith("ifndef"):
                nm = d.split()[1]
                stack.append(nm not in defs)
                if nm.endswith("_INCLUDED"):
                    stack[-1] = True
            elif d.startswith("if "):
                names = re.findall(r"defined\s*\(?\s*(\w+)\s*\)?", d)
                rest = re.sub(r"defined\s*\(?\s*\w+\s*\)?", "", d[3:]).replace("||", "").strip()
                if not names or rest:
                    raise TranslateError("unsupported preprocessor conditional: " + s)
                stack.append(any(n in defs for n in names))
            elif d.startswith("else"):
                if not stack:
                    raise TranslateError("#else without #if")
                stack[-1] = not stack[-1]
            elif d.startswith("endif"):
                if not stack:
                    raise TranslateError("#endif without #if")
                stack.pop()
            elif d.startswith(("include", "define", "undef", "pragma", "error", "warning", "line")):
                pass
            else:
                raise TranslateError("unsupported preprocessor line: " + s)
            out.append("")
            continue
        out.append(line if all(stack) else "")
    if stack:
        raise TranslateError("unterminated #if")
    return "\n".join(out)


def find_function(text, name):
    m = re.search(r"static\s+inline\s+([\w\s\*]+?)\s+" + re.escape(name) + r"\s*\(([^)]*)\)\s*\{", text)
    if not m:
        raise TranslateError("helper %s not found (or not `static inline`)" % name)
    i = m.end()
    depth = 1
    j = i
    while depth and j < len(text):
        if text[j] == "{": depth += 1
        elif text[j] == "}": depth -= 1
        j += 1
    if depth:
        raise TranslateError("unbalanced braces in " + name)
    return m.group(1).strip(), m.group(2).strip(), text[i:j - 1]


# ----------------------------------------------------------------------------------------------
# expression parser
# ----------------------------------------------------------------------------------------------
TOK = re.compile(r"\s*(0[xX][0-9a-fA-F]+|\d+|[A-Za-z_]\w*|!=|[()*,=;])")


def tokenize(s):
    toks, i = [], 0
    s = s.strip()
    while i < len(s):
        m = TOK.match(s, i)
        if not m:
            raise TranslateError("cannot tokenize: %r" % s[i:i + 30])
        toks.append(m.group(1))
        i = m.end()
    return toks


class P:
    def __init__(self, toks):
        self.t, self.i = toks, 0

    def peek(self, k=0):
        return self.t[self.i + k] if self.i + k < len(self.t) else None

    def next(self):
        x = self.peek()
        if x is None:
            raise TranslateError("unexpected end of expression")
        self.i += 1
        return x

    def expect(self, x):
        y = self.next()
        if y != x:
            raise TranslateError("expected %r, got %r" % (x, y))

    # expr := unary [ '!=' unary ]
    def expr(self):
        a = self.unary()
        if self.peek() == "!=":
            self.next()
            b = self.unary()
            return ("ne", a, b)
        return a

    def unary(self):
        x = self.peek()
        if x == "(":
            # cast or parenthesised
            if self.peek(1) in VEC_BITS or self.peek(1) in SCALAR_RET or self.peek(1) == "int":
                self.next()
                ty = self.next()
                if self.peek() == "*":
                    self.next(); ty += "*"
                self.expect(")")
                return ("cast", ty, self.unary())
            self.next()
            e = self.expr()
            self.expect(")")
            return e
        x = self.next()
        if re.match(r"0[xX]|\d", x):
            return ("int", int(x, 0))
        if not re.match(r"[A-Za-z_]\w*$", x):
            raise TranslateError("unexpected token %r" % x)
        if self.peek() == "(":
            self.next()
            args = []
            if self.peek() != ")":
                args.append(self.expr())
                while self.peek() == ",":
                    self.next()
                    args.append(self.expr())
            self.expect(")")
            return ("call", x, args)
        return ("var", x)


def parse_expr(s):
    p = P(tokenize(s))
    e = p.expr()
    if p.peek() is not None:
        raise TranslateError("trailing tokens in expression %r" % s)
    return e


# ----------------------------------------------------------------------------------------------
# translation of one function
# ----------------------------------------------------------------------------------------------
class Fn:
    def __init__(self, name):
        self.name = name
        if re.search(r"_(epu8|epi8|int8)$", name): self.W, self.kind = 8, "int"
        elif re.search(r"_(epi16|int16)$", name): self.W, self.kind = 16, "int"
        elif re.search(r"_(ps|float)$", name): self.W, self.kind = 32, "f32"
        else: raise TranslateError("cannot determine the lane view of " + name)
        self.L = 128 // self.W          # lanes per 128-bit block
        self.B = self.W // 8            # bytes per lane
        self.z = "0" if self.kind == "int" else "O.zero"
        self.vars = {}                  # C variable -> ('vec', bits) | ('int',) | ('outptr',) | ('alias', outptr)
        self.used = set()               # intrinsics this helper applies (each must be validated against the hardware in the same run)

    def lanes(self, bits):
        return bits // self.W

    def lane_ty(self):
        return "BitVec %d" % self.W if self.kind == "int" else "α"

    def vec_ty(self, bits):
        return "Vector (%s) %d" % (self.lane_ty(), self.lanes(bits))

    def const(self, e):
        if e[0] == "int":
            return e[1]
        if e[0] == "call" and e[1] == "_MM_SHUFFLE" and len(e[2]) == 4:
            a, b, c, d = [self.const(x) for x in e[2]]
            for v in (a, b, c, d):
                if not 0 <= v <= 3:
                    raise TranslateError("_MM_SHUFFLE argument out of range in " + self.name)
            return (a << 6) | (b << 4) | (c << 2) | d
        raise TranslateError("%s: expected an integer constant, got %r" % (self.name, e))

    def need(self, cond, what):
        if not cond:
            raise TranslateError("%s: %s" % (self.name, what))

    def vec(self, e):
        s, t = self.tr(e)
        self.need(t[0] == "vec", "expected a vector expression, got %r" % (e,))
        return s, t[1]

    def tr(self, e):
        """-> (lean text, type) ; type = ('vec', bits) | ('lane',) | ('int',) | ('bool',)"""
        k = e[0]
        if k == "var":
            self.need(e[1] in self.vars, "unknown variable %s" % e[1])
            t = self.vars[e[1]]
            self.need(t[0] in ("vec", "int"), "variable %s used as a value" % e[1])
            return e[1], t
        if k == "int":
            return str(e[1]), ("int",)
        if k == "cast":
            ty, inner = e[1], e[2]
            if ty in VEC_BITS:
                s, b = self.vec(inner)
                self.need(b == VEC_BITS[ty], "cast changes register width")
                return s, ("vec", b)
            if ty in SCALAR_RET:
                return self.extract(inner, SCALAR_RET[ty])
            raise TranslateError("%s: unsupported cast to %s" % (self.name, ty))
        if k == "ne":
            a, ta = self.tr(e[1])
            self.need(ta == ("int",) and e[2] == ("int", 0), "only `<int> != 0` is supported")
            return "(decide (%s ≠ 0))" % a, ("bool",)
        if k == "call":
            return self.call(e[1], e[2])
        raise TranslateError("bad expression node %r" % (e,))

    def extract(self, e, castbits):
        """scalar extraction, optionally under a C cast to a `castbits`-wide integer"""
        self.need(e[0] == "call", "scalar cast of a non-extraction")
        f, args = e[1], e[2]
        table = {"_mm_extract_epi16": 16, "_mm_cvtsi128_si32": 32, "_mm256_extract_epi8": 8,
                 "_mm256_extract_epi16": 16, "_mm256_extract_epi32": 32,
                 "_mm_extract_epi8": 8, "_mm_extract_epi32": 32, "_mm256_cvtsi256_si32": 32}
        self.need(f in table, "unsupported scalar extraction %s" % f)
        self.used.add(f)
        wbits = table[f]
        s, b = self.vec(args[0])
        idx = self.const(args[1]) if len(args) > 1 else 0
        eff = castbits if castbits is not None else wbits
        self.need(eff == self.W, "extraction of %d bits in a %d-bit lane view" % (eff, self.W))
        self.need(wbits >= self.W and (idx * wbits) % self.W == 0, "extraction splits a lane")
        return "(extract %s %s %d)" % (self.z, s, idx * wbits // self.W), ("lane",)

    def call(self, f, args):
        W, L, B, z = self.W, self.L, self.B, self.z
        base = re.sub(r"^_mm(256|512)?_", "", f)
        width = {"_mm_": 128, "_mm2": 256, "_mm5": 512}[f[:4]] if f.startswith("_mm") else None
        self.need(width is not None, "unknown function %s" % f)
        self.used.add(f)

        def v(i):
            s, b = self.vec(args[i])
            return s, b
        def same(*bs):
            self.need(all(b == width for b in bs), "%s applied to a register of another width" % f)

        # ---- lane-wise integer
        if base in ("max_epu8", "max_epi8", "max_epi16"):
            self.need(self.kind == "int" and W == int(re.search(r"\d+$", base).group(0)), "%s in a %d-bit %s view" % (f, W, self.kind))
            (a, ba), (b, bb) = v(0), v(1); same(ba, bb)
            return "(%s %s %s)" % ("max_epu" if "epu" in base else "max_epi", a, b), ("vec", width)
        if base in ("or_si128", "or_si256", "or_si512", "xor_si128", "xor_si256", "and_si128", "and_si256"):
            self.need(self.kind == "int", "%s on float lanes" % f)
            (a, ba), (b, bb) = v(0), v(1); same(ba, bb)
            return "(%s_si %s %s)" % (base.split("_")[0], a, b), ("vec", width)
        if base in ("cmpeq_epi8", "cmpeq_epi16", "cmpgt_epi8", "cmpgt_epi16"):
            self.need(self.kind == "int" and W == int(re.search(r"\d+$", base).group(0)), "%s in a %d-bit view" % (f, W))
            (a, ba), (b, bb) = v(0), v(1); same(ba, bb)
            return "(%s_epi %s %s)" % (base[:5], a, b), ("vec", width)
        if base == "movemask_epi8":
            self.need(self.kind == "int", "movemask_epi8 on float lanes")
            a, ba = v(0); same(ba)
            return "(movemask_epi8 %d %s)" % (B, a), ("int",)
        # ---- float lanes
        if base in ("max_ps", "min_ps", "add_ps", "cmpgt_ps"):
            self.need(self.kind == "f32", "%s outside a float view" % f)
            (a, ba), (b, bb) = v(0), v(1); same(ba, bb)
            return "(%s O %s %s)" % (base, a, b), ("vec", width)
        if base == "movemask_ps":
            self.need(self.kind == "f32", "%s outside a float view" % f)
            a, ba = v(0); same(ba)
            return "(movemask_ps O %s)" % a, ("int",)
        if base == "blendv_ps":
            self.need(self.kind == "f32", "%s outside a float view" % f)
            (a, ba), (b, bb), (m, bm) = v(0), v(1), v(2); same(ba, bb, bm)
            return "(blendv_ps O %s %s %s)" % (a, b, m), ("vec", width)
        # ---- data movement (any view that does not split a lane)
        if base in ("srli_si128", "srli_si256", "slli_si128", "slli_si256"):
            a, ba = v(0); same(ba)
            k = self.const(args[1])
            self.need(k % B == 0 and 0 <= k, "byte shift %d splits a %d-bit lane" % (k, W))
            return "(%s %d %d %s %s %d)" % ("bsrli" if base.startswith("srli") else "bslli", L, B, z, a, k), ("vec", width)
        if base == "shuffle_epi32":
            self.need(32 % W == 0, "shuffle_epi32 splits a lane")
            a, ba = v(0); same(ba)
            imm = self.const(args[1]); self.need(0 <= imm < 256, "immediate out of range")
            return "(shuffle32 %d %s %s %d)" % (L, z, a, imm), ("vec", width)
        if base == "shufflelo_epi16":
            self.need(16 % W == 0, "shufflelo_epi16 splits a lane")
            a, ba = v(0); same(ba)
            imm = self.const(args[1]); self.need(0 <= imm < 256, "immediate out of range")
            return "(shufflelo16 %d %s %s %d)" % (L, z, a, imm), ("vec", width)
        if base == "shuffle_ps":
            self.need(W == 32, "shuffle_ps outside a 32-bit view")
            (a, ba), (b, bb) = v(0), v(1); same(ba, bb)
            imm = self.const(args[2]); self.need(0 <= imm < 256, "immediate out of range")
            return "(shuffle_ps %d %s %s %s %d)" % (L, z, a, b, imm), ("vec", width)
        if base in ("srli_epi16", "srli_epi32"):
            g = int(base[-2:])
            a, ba = v(0); same(ba)
            s = self.const(args[1])
            self.need(W < g and s % W == 0 and 0 < s < g, "%s by %d is not a whole-lane move in a %d-bit view" % (f, s, W))
            return "(srl_group %d %s %s %d)" % (g // W, z, a, s // W), ("vec", width)
        if base == "permute2x128_si256":
            (a, ba), (b, bb) = v(0), v(1); same(ba, bb)
            imm = self.const(args[2]); self.need(0 <= imm < 256, "immediate out of range")
            return "(permute2x128 %d %s %s %s %d)" % (L, z, a, b, imm), ("vec", width)
        if base == "alignr_epi8":
            (a, ba), (b, bb) = v(0), v(1); same(ba, bb)
            k = self.const(args[2])
            self.need(k % B == 0 and 0 <= k, "alignr by %d bytes splits a %d-bit lane" % (k, W))
            return "(alignr %d %d %s %s %s %d)" % (L, B, z, a, b, k), ("vec", width)
        if base == "move_ss":
            self.need(32 % W == 0, "move_ss splits a lane")
            (a, ba), (b, bb) = v(0), v(1); same(ba, bb)
            return "(move_ss %d %s %s %s)" % (32 // W, z, a, b), ("vec", width)
        if base in ("shuffle_f32x4", "shuffle_i32x4"):
            self.need(width == 512, "%s on a non-512-bit register" % f)
            (a, ba), (b, bb) = v(0), v(1); same(ba, bb)
            imm = self.const(args[2]); self.need(0 <= imm < 256, "immediate out of range")
            return "(shuffle_x4 %d %s %s %s %d)" % (L, z, a, b, imm), ("vec", width)
        if base == "maskz_shuffle_i32x4":
            self.need(width == 512 and 32 % W == 0, "%s: bad view" % f)
            k = self.const(args[0]); self.need(0 <= k < 65536, "mask out of range")
            (a, ba), (b, bb) = v(1), v(2); same(ba, bb)
            imm = self.const(args[3]); self.need(0 <= imm < 256, "immediate out of range")
            return "(maskz_shuffle_x4 %d %s %d %s %s %d)" % (L, z, k, a, b, imm), ("vec", width)
        if base in ("extracti32x8_epi32", "extractf32x8_ps"):
            self.need(width == 512, "%s on a non-512-bit register" % f)
            a, ba = v(0); same(ba)
            idx = self.const(args[1]); self.need(idx in (0, 1), "half index out of range")
            return "(extract_half (m := %d) %s %s %d)" % (self.lanes(256), z, a, idx), ("vec", 256)
        if base in ("extract_epi16", "cvtsi128_si32", "extract_epi8", "extract_epi32", "cvtsi256_si32"):
            return self.extract(("call", f, args), None)
        raise TranslateError("%s: intrinsic %s is not in the semantics table" % (self.name, f))


def split_statements(body):
    stmts = [s.strip() for s in body.replace("\n", " ").split(";")]
    return [re.sub(r"\s+", " ", s) for s in stmts if s]


def translate_function(text, name):
    ret, params, body = find_function(text, name)
    fn = Fn(name)
    lean_params, outptr, argspec = [], None, []
    for p in [x.strip() for x in params.split(",")]:
        m = re.match(r"(__m\d+i?)\s+(\w+)$", p)
        if m:
            bits = VEC_BITS[m.group(1)]
            fn.vars[m.group(2)] = ("vec", bits)
            lean_params.append("(%s : %s)" % (m.group(2), fn.vec_ty(bits)))
            argspec.append(bits)
            continue
        m = re.match(r"float\s*\*\s*(\w+)$", p)
        if m and outptr is None and fn.kind == "f32":
            outptr = m.group(1)
            fn.vars[outptr] = ("outptr",)
            continue
        raise TranslateError("%s: unsupported parameter %r" % (name, p))
    lines, result = [], None
    for st in split_statements(body):
        if result is not None:
            raise TranslateError("%s: statement after the result was produced: %r" % (name, st))
        m = re.match(r"return\s+(.*)$", st)
        if m:
            fn.need(outptr is None, "return in a function with an output pointer")
            s, t = fn.tr(parse_expr(m.group(1)))
            result = (s, t)
            continue
        m = re.match(r"_mm_store_ss\s*\(\s*(\w+)\s*,(.*)\)$", st)
        if m:
            fn.need(m.group(1) == outptr, "_mm_store_ss to something that is not the output pointer")
            fn.used.add("_mm_store_ss")
            s, b = fn.vec(parse_expr(m.group(2)))
            result = ("(extract %s %s 0)" % (fn.z, s), ("lane",))
            continue
        m = re.match(r"int \*\s*(\w+) = \(int \*\) (\w+)$", st)
        if m:
            fn.need(m.group(2) == outptr, "int* alias of something that is not the output pointer")
            fn.vars[m.group(1)] = ("alias",)
            continue
        m = re.match(r"\*\s*(\w+) = (.*)$", st)
        if m:
            fn.need(fn.vars.get(m.group(1)) == ("alias",), "store through an unknown pointer")
            s, t = fn.tr(parse_expr(m.group(2)))
            fn.need(t == ("lane",), "stored value is not one lane")
            result = (s, t)
            continue
        m = re.match(r"(?:register )?(__m\d+i?|int) (\w+) = (.*)$", st)
        if m:
            s, t = fn.tr(parse_expr(m.group(3)))
            if m.group(1) == "int":
                fn.need(t == ("int",), "int variable initialised with a non-int")
            else:
                fn.need(t == ("vec", VEC_BITS[m.group(1)]), "declared type and initialiser differ in %r" % st)
            fn.vars[m.group(2)] = t
            lines.append("  let %s := %s" % (m.group(2), s))
            continue
        m = re.match(r"(\w+) = (.*)$", st)
        if m and fn.vars.get(m.group(1), ("",))[0] in ("vec", "int"):
            s, t = fn.tr(parse_expr(m.group(2)))
            fn.need(t == fn.vars[m.group(1)], "assignment changes the type of %s" % m.group(1))
            lines.append("  let %s := %s" % (m.group(1), s))
            continue
        raise TranslateError("%s: unsupported statement %r" % (name, st))
    if result is None:
        raise TranslateError("%s: no result" % name)
    s, t = result
    if t[0] == "vec":
        rty, rspec = fn.vec_ty(t[1]), ("vec", t[1])
        fn.need(ret in VEC_BITS and VEC_BITS[ret] == t[1], "declared return type %s does not match" % ret)
    elif t[0] == "lane":
        rty, rspec = fn.lane_ty(), ("lane",)
        if outptr is None:
            fn.need(SCALAR_RET.get(ret) == fn.W, "declared return type %s does not match the lane view" % ret)
        else:
            fn.need(ret == "void", "output pointer and non-void return")
    elif t[0] == "bool":
        rty, rspec = "Bool", ("bool",)
        fn.need(ret == "int", "boolean result but return type %s" % ret)
    else:
        raise TranslateError("%s: result of unsupported type %r" % (name, t))
    head = "def %s %s%s : %s :=" % (name, "{α : Type} (O : F32Ops α) " if fn.kind == "f32" else "", " ".join(lean_params), rty)
    return "\n".join([head] + lines + ["  " + s]), dict(name=name, kind=fn.kind, W=fn.W, args=argspec, ret=rspec, intrinsics=sorted(fn.used))


def dispatch_case(info):
    name, W, kind = info["name"], info["W"], info["kind"]
    n = len(info["args"])
    conv = {("int", 8): "vec8", ("int", 16): "vec16", ("f32", 32): "vecF"}[(kind, W)]
    back = {("int", 8): "bytes8", ("int", 16): "bytes16", ("f32", 32): "bytesF"}[(kind, W)]
    lane = {("int", 8): "lane8", ("int", 16): "lane16", ("f32", 32): "laneF"}[(kind, W)]
    pats = ", ".join("x%d" % i for i in range(n))
    args = " ".join("(%s %d x%d)" % (conv, bits // W, i) for i, bits in enumerate(info["args"]))
    call = "%s %s%s" % (name, "F32.ops " if kind == "f32" else "", args)
    if info["ret"][0] == "vec": out = "%s (%s)" % (back, call)
    elif info["ret"][0] == "lane": out = "%s (%s)" % (lane, call)
    else: out = "boolByte (%s)" % call
    return '  | "%s", [%s] => some (%s)' % (name, pats, out)


def generate(src):
    defs = config_defines(src)
    out = ["import EaselModel.Simd.Intrinsics", "import EaselModel.Simd.Bytes",
           "/-! GENERATED by translate/simd2lean.py from esl_sse.h, esl_avx.h, esl_avx512.h of the working tree — do not edit.",
           "    Each definition is the C helper of the same name with every intrinsic replaced by its entry in",
           "    `EaselModel.Simd.Intrinsics`. -/", "",
           "namespace EaselModel.Simd.Gen", "open EaselModel.Simd", ""]
    infos = []
    for hdr, names in HELPERS.items():
        text = preprocess(strip_comments(open(os.path.join(src, hdr)).read()), defs)
        out.append("/-! ## %s -/" % hdr)
        for nm in names:
            code, info = translate_function(text, nm)
            out += [code, ""]
            infos.append(info)
    out.append("/-- run a helper on byte-encoded registers (driver) -/")
    out.append("def dispatch (name : String) (args : List (List UInt8)) : Option (List UInt8) :=")
    out.append("  match name, args with")
    for info in infos:
        out.append(dispatch_case(info))
    out.append("  | _, _ => none")
    out.append("")
    out.append("def helperNames : List String := [%s]" % ", ".join('"%s"' % i["name"] for i in infos))
    out += ["", "end EaselModel.Simd.Gen", ""]
    return "\n".join(out), infos


if __name__ == "__main__":
    import sys
    txt, infos = generate(sys.argv[1] if len(sys.argv) > 1 else "/repo")
    sys.stdout.write(txt)


# ==============================================================================================
# Part B: esl_sse_logf / esl_sse_expf  (esl_sse.c) — every intrinsic there is lane-wise, so the function is
# translated to a function on ONE 32-bit lane (`UInt32` bit pattern); intrinsics map to EaselModel.Simd.Lane32.
# Float literals are evaluated by the C compiler (so that rounding to binary32 is the compiler's) and emitted as
# bit patterns.
# ==============================================================================================
import subprocess, tempfile

TOK2 = re.compile(r"\s*((?:\d+\.\d*|\.\d+|\d+)(?:[eE][-+]?\d+)?[fF]|\d+\.\d*(?:[eE][-+]?\d+)?|0[xX][0-9a-fA-F]+|\d+|[A-Za-z_]\w*|[()\[\]{},=;~\-])")

LANE_CALLS = {  # intrinsic -> (lean name, arity, kinds of args: v = lane value, i = integer constant)
    "_mm_set1_ps": None, "_mm_set1_epi32": None, "_mm_setzero_si128": None,     # constants: handled apart
    "_mm_castps_si128": ("id", "v"), "_mm_castsi128_ps": ("id", "v"),
    "_mm_srli_epi32": ("srli_epi32", "vi"), "_mm_slli_epi32": ("slli_epi32", "vi"),
    "_mm_and_si128": ("and32", "vv"), "_mm_and_ps": ("and32", "vv"), "_mm_or_ps": ("or32", "vv"), "_mm_or_si128": ("or32", "vv"),
    "_mm_andnot_ps": ("andnot32", "vv"),
    "_mm_cmpeq_epi32": ("cmpeq_epi32", "vv"), "_mm_sub_epi32": ("sub_epi32", "vv"), "_mm_add_epi32": ("add_epi32", "vv"),
    "_mm_cvtepi32_ps": ("cvtepi32_ps", "v"), "_mm_cvttps_epi32": ("cvttps_epi32", "v"),
    "_mm_cmplt_ps": ("cmplt_ps", "vv"), "_mm_cmpgt_ps": ("cmpgt_ps", "vv"), "_mm_cmple_ps": ("cmple_ps", "vv"),
    "_mm_add_ps": ("add_ps", "vv"), "_mm_sub_ps": ("sub_ps", "vv"), "_mm_mul_ps": ("mul_ps", "vv"),
    "esl_sse_select_ps": ("select_ps", "vvv"),
}


USED_LANE = {}      # function name -> intrinsics (and helpers) applied by esl_sse_logf / esl_sse_expf, filled by generate_logexp


def tokenize2(s):
    toks, i = [], 0
    s = s.strip()
    while i < len(s):
        m = TOK2.match(s, i)
        if not m:
            raise TranslateError("cannot tokenize: %r" % s[i:i + 30])
        toks.append(m.group(1)); i = m.end()
    return toks


class LaneFn:
    def __init__(self, name, select_is_blendv):
        self.name = name
        self.consts = []          # C expression texts to be evaluated as (float) by the compiler
        self.iconsts = []
        self.vars = set()
        self.farrays = {}         # name -> [literal text]
        self.fscalars = {}        # name -> literal text
        self.select_is_blendv = select_is_blendv

    def fconst(self, text):
        self.consts.append(text)
        return "F%d" % (len(self.consts) - 1)

    def parse(self, toks):
        self.t, self.i = toks, 0
        e = self.expr()
        if self.i != len(self.t):
            raise TranslateError("%s: trailing tokens %r" % (self.name, self.t[self.i:]))
        return e

    def peek(self): return self.t[self.i] if self.i < len(self.t) else None
    def next(self):
        if self.i >= len(self.t): raise TranslateError("%s: unexpected end" % self.name)
        self.i += 1; return self.t[self.i - 1]
    def expect(self, x):
        y = self.next()
        if y != x: raise TranslateError("%s: expected %r got %r" % (self.name, x, y))

    def ctext(self):
        """a constant C expression (float or int), returned as source text"""
        x = self.next()
        if x in ("-", "~"):
            return x + self.ctext()
        if re.match(r"[\d.]", x):
            return x
        if re.match(r"[A-Za-z_]\w*$", x):
            if x in self.farrays:
                self.expect("["); k = int(self.next(), 0); self.expect("]")
                if not 0 <= k < len(self.farrays[x]): raise TranslateError("%s: index %d out of range of %s" % (self.name, k, x))
                return self.farrays[x][k]
            if x in self.fscalars:
                return self.fscalars[x]
            if x in ("eslINFINITY", "eslCONST_LOG2R", "eslCONST_LOG2"):
                return x
        raise TranslateError("%s: unsupported constant expression at %r" % (self.name, x))

    def expr(self):
        x = self.next()
        if x == "(":
            e = self.expr(); self.expect(")"); return e
        if x in LANE_CALLS:
            USED_LANE.setdefault(self.name, set()).add(x)
            self.expect("(")
            if x == "_mm_setzero_si128":
                self.expect(")"); return "(0 : UInt32)"
            if x == "_mm_set1_ps":
                c = self.ctext(); self.expect(")"); return self.fconst(c)
            if x == "_mm_set1_epi32":
                c = self.ctext(); self.expect(")")
                self.iconsts.append(c); return "I%d" % (len(self.iconsts) - 1)
            lean, kinds = LANE_CALLS[x]
            args = []
            for n, k in enumerate(kinds):
                if n: self.expect(",")
                if k == "v": args.append(self.expr())
                else: args.append(str(int(self.next(), 0)))
            self.expect(")")
            if lean == "id": return args[0]
            if lean == "select_ps" and not self.select_is_blendv:
                raise TranslateError("esl_sse_select_ps is not the SSE4.1 blendv form in this configuration")
            return "(L.%s %s)" % (lean, " ".join(args))
        if re.match(r"[A-Za-z_]\w*$", x) and x in self.vars:
            return x
        raise TranslateError("%s: unsupported expression at %r" % (self.name, x))


def find_extern_function(text, name, rettype):
    m = re.search(re.escape(rettype) + r"\s+" + re.escape(name) + r"\s*\(\s*" + re.escape(rettype) + r"\s+(\w+)\s*\)\s*\{", text)
    if not m: raise TranslateError("function %s not found" % name)
    i = m.end(); depth = 1; j = i
    while depth and j < len(text):
        if text[j] == "{": depth += 1
        elif text[j] == "}": depth -= 1
        j += 1
    return m.group(1), text[i:j - 1]


def translate_lane_function(text, name, select_is_blendv):
    param, body = find_extern_function(text, name, "__m128")
    fn = LaneFn(name, select_is_blendv)
    fn.vars.add(param)
    lines = []
    returned = False
    # statements: split on ';' outside braces
    stmts, depth, cur = [], 0, ""
    for ch in body:
        if ch == "{": depth += 1
        if ch == "}": depth -= 1
        if ch == ";" and depth == 0:
            stmts.append(re.sub(r"\s+", " ", cur).strip()); cur = ""
        else: cur += ch
    if cur.strip(): raise TranslateError("%s: trailing text %r" % (name, cur.strip()[:40]))
    if "#" in body: raise TranslateError("%s: preprocessor line inside the body" % name)
    for st in stmts:
        if not st: continue
        if returned: raise TranslateError("%s: statement after return" % name)
        m = re.match(r"static float (\w+)\[(\d+)\] = \{(.*)\}$", st)
        if m:
            lits = [x.strip() for x in m.group(3).split(",")]
            if len(lits) != int(m.group(2)) or not all(re.match(r"-?[\d.]+(?:[eE][-+]?\d+)?[fF]?$", l) for l in lits):
                raise TranslateError("%s: bad float table %s" % (name, m.group(1)))
            fn.farrays[m.group(1)] = lits; continue
        m = re.match(r"static float (\w+) = (-?[\d.]+(?:[eE][-+]?\d+)?[fF]?)$", st)
        if m:
            fn.fscalars[m.group(1)] = m.group(2); continue
        m = re.match(r"(__m128i?) (\w+(?:\s*,\s*\w+)*)$", st)
        if m:
            continue                                   # declaration without initialiser
        m = re.match(r"(?:__m128i? )?(\w+) = (.*)$", st)
        if m:
            e = fn.parse(tokenize2(m.group(2)))
            fn.vars.add(m.group(1))
            lines.append("  let %s := %s" % (m.group(1), e)); continue
        m = re.match(r"return (\w+)$", st)
        if m and m.group(1) in fn.vars:
            lines.append("  " + m.group(1)); returned = True; continue
        raise TranslateError("%s: unsupported statement %r" % (name, st))
    if not returned: raise TranslateError("%s: no return" % name)
    return fn, param, lines


def eval_constants(src, fns):
    """let gcc evaluate every float / int constant expression; returns {fn name: ([float bits], [int bits])}"""
    prog = ['#include <stdio.h>', '#include <string.h>', '#include <stdint.h>', '#include <math.h>', '#include "easel.h"', 'int main(void){ float f; uint32_t u; int k;']
    for fn in fns:
        for c in fn.consts:
            prog.append('  f = (float)(%s); memcpy(&u,&f,4); printf("%s F %%08x\\n", u);' % (c, fn.name))
        for c in fn.iconsts:
            prog.append('  k = (int)(%s); memcpy(&u,&k,4); printf("%s I %%08x\\n", u);' % (c, fn.name))
    prog.append('  return 0; }')
    d = tempfile.mkdtemp(prefix="c20consts.")
    cfile, exe = os.path.join(d, "k.c"), os.path.join(d, "k")
    open(cfile, "w").write("\n".join(prog))
    p = subprocess.run(["gcc", "-O0", "-I" + src, cfile, "-o", exe, "-lm"], capture_output=True, text=True)
    if p.returncode: raise TranslateError("constant evaluation program does not compile: " + p.stderr[-500:])
    out = subprocess.run([exe], capture_output=True, text=True).stdout
    import shutil; shutil.rmtree(d, ignore_errors=True)
    res = {fn.name: ([], []) for fn in fns}
    for line in out.split("\n"):
        w = line.split()
        if len(w) == 3: res[w[0]][0 if w[1] == "F" else 1].append(w[2])
    for fn in fns:
        if len(res[fn.name][0]) != len(fn.consts) or len(res[fn.name][1]) != len(fn.iconsts):
            raise TranslateError("constant evaluation lost values")
    return res


def generate_logexp(src):
    defs = config_defines(src)
    if not ({"eslENABLE_SSE", "eslENABLE_SSE4"} & defs):
        raise TranslateError("esl_sse.c is not enabled in esl_config.h")
    text = strip_comments(open(os.path.join(src, "esl_sse.c")).read())   # function bodies contain no preprocessor lines
    hdr = preprocess(strip_comments(open(os.path.join(src, "esl_sse.h")).read()), defs)
    _, _, selbody = find_function(hdr, "esl_sse_select_ps")
    select_is_blendv = re.sub(r"\s+", "", selbody) == "return_mm_blendv_ps(a,b,mask);"
    fns = []
    parts = []
    USED_LANE.clear()
    for nm in ("esl_sse_logf", "esl_sse_expf"):
        fn, param, lines = translate_lane_function(text, nm, select_is_blendv)
        fns.append(fn); parts.append((fn, param, lines))
    consts = eval_constants(src, fns)
    out = ["import EaselModel.Simd.Lane32",
           "/-! GENERATED by translate/simd2lean.py from esl_sse.c of the working tree — do not edit.",
           "    `esl_sse_logf` / `esl_sse_expf` on ONE 32-bit lane (all their intrinsics are lane-wise); float constants are the",
           "    bit patterns the C compiler produces for the literals of the source. -/", "",
           "namespace EaselModel.Simd.Gen", "open EaselModel.Simd", ""]
    for fn, param, lines in parts:
        fb, ib = consts[fn.name]
        out.append("/-- float constants of `%s` in order of use: %s -/" % (fn.name, ", ".join(fn.consts)))
        out.append("def %s_fconsts : List UInt32 := [%s]" % (fn.name, ", ".join("0x" + b for b in fb)))
        out.append("def %s_iconsts : List UInt32 := [%s]" % (fn.name, ", ".join("0x" + b for b in ib)))
        out.append("def %s_lane (L : Lane32Ops) (%s : UInt32) : UInt32 :=" % (fn.name, param))
        for k, b in enumerate(fb): out.append("  let F%d : UInt32 := 0x%s" % (k, b))
        for k, b in enumerate(ib): out.append("  let I%d : UInt32 := 0x%s" % (k, b))
        out += lines
        out.append("")
    out += ["end EaselModel.Simd.Gen", ""]
    return "\n".join(out)


if __name__ == "__main__" and len(sys.argv) > 2 and sys.argv[2] == "logexp":
    pass
