#!/usr/bin/env python3
"""MANIFEST.setup_cmd: build every Lean module and driver the checks need (offline; files on disk only).
Targets are built per property so that one failing module cannot prevent the others from being prebuilt;
a failing build is reported again (as a failed proof obligation) by the check that needs it, so setup itself
only fails when lake cannot run at all."""
import os, sys, subprocess, importlib, json
ROOT = os.path.dirname(os.path.abspath(__file__))
sys.path.insert(0, ROOT)
LEAN = os.path.join(ROOT, "lean")
if subprocess.call(["lake", "build", "EaselModel"], cwd=LEAN) != 0:
    print("setup: base library failed to build", file=sys.stderr)
bad = []
for l in open(os.path.join(ROOT, "properties.jsonl")):
    i = json.loads(l)["id"]
    if not os.path.exists(os.path.join(ROOT, "props", i.lower() + ".py")):
        continue
    try:
        spec = importlib.import_module("props." + i.lower()).SPEC
    except Exception as e:
        print("setup: cannot import plug-in %s: %r" % (i, e), file=sys.stderr); bad.append(i); continue
    try:
        from vlib import engine
        ch = engine.regenerate_only(spec)      # translated / table files follow /repo's working tree
        if ch: print("setup: regenerated", ch, file=sys.stderr)
    except Exception as e:
        print("setup: regeneration for %s failed: %r" % (i, e), file=sys.stderr)
    targets = list(spec.lean_modules) + ([spec.lean_exe] if spec.lean_exe else [])
    if targets and subprocess.call(["lake", "build"] + targets, cwd=LEAN, stdout=subprocess.DEVNULL) != 0:
        bad.append(i)
if bad:
    print("setup: Lean targets of %s did not build; their checks will report it" % bad, file=sys.stderr)
sys.exit(0)
