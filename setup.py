#!/usr/bin/env python3
"""MANIFEST.setup_cmd: build every Lean module and driver the claimed checks need (offline; files on disk only)."""
import os, sys, subprocess, importlib, json
ROOT = os.path.dirname(os.path.abspath(__file__))
sys.path.insert(0, ROOT)
targets = ["EaselModel"]
for l in open(os.path.join(ROOT, "properties.jsonl")):
    i = json.loads(l)["id"]
    if os.path.exists(os.path.join(ROOT, "props", i.lower() + ".py")):
        spec = importlib.import_module("props." + i.lower()).SPEC
        targets += list(spec.lean_modules) + ([spec.lean_exe] if spec.lean_exe else [])
rc = subprocess.call(["lake", "build"] + targets, cwd=os.path.join(ROOT, "lean"))
# a failing build here is reported again (as a failed obligation) by the check that needs it
sys.exit(0 if rc == 0 else 1)
