import EaselModel.Core.Proto
