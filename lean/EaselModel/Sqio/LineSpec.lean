import EaselModel.Sqio.Model
/-! # The line loader of the line-based formats (EMBL / UniProt / GenBank / DDBJ) is block-size independent (C04)

In line mode one `loadbuf` delivers one line: the file bytes from the end of the previous line up to and including the next `\n`
(or to the end of the file). `loadbuf_line`: for EVERY read-block size `B ≥ 1` the line, its offset `boff` and its length `nc` are
functions of the file bytes and of the previous line end only; `fault` (running out of the loop's fuel) is not an outcome. -/
namespace EaselModel.Sqio.LineSpec
open EaselModel.Sqio

/-- the declarative next line: the bytes up to and including the first `\n` (all of `l` if there is none), and the rest -/
def nextLine (l : List UInt8) : List UInt8 × List UInt8 :=
  (l.takeWhile (· != 10) ++ (l.dropWhile (· != 10)).take 1, (l.dropWhile (· != 10)).drop 1)

theorem while_split (p : UInt8 → Bool) (x y : List UInt8) (c0 : UInt8) (hx : ∀ c ∈ x, p c = true) (h0 : p c0 = false) :
    (x ++ c0 :: y).takeWhile p = x ∧ (x ++ c0 :: y).dropWhile p = c0 :: y := by
  induction x with
  | nil => simp [h0]
  | cons c t ih =>
    have hc : p c = true := hx c (by simp)
    obtain ⟨i1, i2⟩ := ih (fun z hz => hx z (by simp [hz]))
    rw [List.cons_append, List.takeWhile_cons_of_pos hc, List.dropWhile_cons_of_pos hc, i1, i2]
    exact ⟨rfl, rfl⟩

theorem while_all (p : UInt8 → Bool) (x : List UInt8) (hx : ∀ c ∈ x, p c = true) :
    x.takeWhile p = x ∧ x.dropWhile p = [] := by
  induction x with
  | nil => simp
  | cons c t ih =>
    have hc : p c = true := hx c (by simp)
    obtain ⟨i1, i2⟩ := ih (fun z hz => hx z (by simp [hz]))
    rw [List.takeWhile_cons_of_pos hc, List.dropWhile_cons_of_pos hc, i1, i2]
    exact ⟨rfl, rfl⟩

theorem nextLine_nl (x y : List UInt8) (hx : ∀ c ∈ x, c ≠ 10) : nextLine (x ++ 10 :: y) = (x ++ [10], y) := by
  obtain ⟨tw, dw⟩ := while_split (· != 10) x y 10 (fun c hc => by simpa using hx c hc) (by simp)
  simp only [nextLine, tw, dw]
  simp

theorem nextLine_none (x : List UInt8) (hx : ∀ c ∈ x, c ≠ 10) : nextLine x = (x, []) := by
  obtain ⟨tw, dw⟩ := while_all (· != 10) x (fun c hc => by simpa using hx c hc)
  simp only [nextLine, tw, dw]
  simp

/-! ## `memchr` -/

theorem findNl_spec (file : Bytes) (lo hi : Nat) :
    (∀ p, findNl file lo hi = some p → lo ≤ p ∧ p < hi ∧ file.getD p 0 = 10 ∧ ∀ i, lo ≤ i → i < p → file.getD i 0 ≠ 10) ∧
    (findNl file lo hi = none → ∀ i, lo ≤ i → i < hi → file.getD i 0 ≠ 10) := by
  fun_induction findNl file lo hi
  case case1 =>
    rename_i lo h hc
    have hc' : file.getD lo 0 = 10 := eq_of_beq hc
    refine ⟨fun p hp => ?_, fun k => (by cases k)⟩
    have := (Option.some.inj hp).symm
    subst this
    exact ⟨Nat.le_refl _, h, hc', fun i h1 h2 => by omega⟩
  case case2 =>
    rename_i lo h hc ih
    have hc' : file.getD lo 0 ≠ 10 := by
      intro k; apply hc; rw [k]; rfl
    refine ⟨fun p hp => ?_, fun hn i h1 h2 => ?_⟩
    · obtain ⟨i1, i2, i3, i4⟩ := ih.1 p hp
      refine ⟨by omega, i2, i3, fun i h1 h2 => ?_⟩
      by_cases e : i = lo
      · rw [e]; exact hc'
      · exact i4 i (by omega) h2
    · by_cases e : i = lo
      · rw [e]; exact hc'
      · exact ih.2 hn i (by omega) h2
  case case3 =>
    rename_i lo h
    exact ⟨fun p hp => (by cases hp), fun _ i h1 h2 => by omega⟩

/-- the bytes of `file[lo, hi)` are bytes of the file at positions in `[lo, hi)` -/
theorem mem_extract (file : Bytes) (lo hi : Nat) (c : UInt8) (h : c ∈ (file.extract lo hi).toList) :
    ∃ i, lo ≤ i ∧ i < hi ∧ file.getD i 0 = c := by
  have h' : c ∈ file.extract lo hi := Array.mem_toList_iff.mp h
  obtain ⟨i, hi', e⟩ := Array.mem_iff_getElem.mp h'
  rw [Array.getElem_extract] at e
  have hs : i < min hi file.size - lo := by simpa [Array.size_extract] using hi'
  have hlt : lo + i < file.size := by omega
  refine ⟨lo + i, by omega, by omega, ?_⟩
  rw [← e]
  simp [Array.getD, hlt]

/-- `e` is the end (exclusive) of the line that starts at `s` -/
def EndAt (file : Bytes) (s e : Nat) : Prop :=
  s ≤ e ∧ e ≤ file.size ∧
  ((s < e ∧ file.getD (e - 1) 0 = 10 ∧ ∀ i, s ≤ i → i + 1 < e → file.getD i 0 ≠ 10) ∨
   (e = file.size ∧ ∀ i, s ≤ i → i < e → file.getD i 0 ≠ 10))

theorem toList_extract' (file : Bytes) (lo hi : Nat) : (file.extract lo hi).toList = (file.toList.drop lo).take (hi - lo) := by
  rw [Array.toList_extract, List.extract_eq_take_drop]

theorem nextLine_extract (file : Bytes) (s e : Nat) (h : EndAt file s e) :
    nextLine (file.toList.drop s) = ((file.extract s e).toList, file.toList.drop e) := by
  obtain ⟨h1, h2, h3⟩ := h
  rcases h3 with ⟨k1, k2, k3⟩ | ⟨k1, k2⟩
  · have hlt : e - 1 < file.size := by omega
    have hsplit : file.toList.drop s = (file.extract s (e - 1)).toList ++ 10 :: file.toList.drop e := by
      rw [toList_extract']
      have e1 : file.toList.drop (e - 1) = file[e - 1] :: file.toList.drop e := by
        have hl : e - 1 < file.toList.length := by simpa using hlt
        rw [List.drop_eq_getElem_cons hl]
        have : e - 1 + 1 = e := by omega
        rw [this]; simp
      have e2 : file[e - 1] = 10 := by
        have : file.getD (e - 1) 0 = file[e - 1] := by simp [Array.getD, hlt]
        rw [← this]; exact k2
      rw [← e2, ← e1]
      have e3 : file.toList.drop (e - 1) = (file.toList.drop s).drop (e - 1 - s) := by
        rw [List.drop_drop]; congr 1; omega
      rw [e3, List.take_append_drop]
    have hno : ∀ c ∈ (file.extract s (e - 1)).toList, c ≠ 10 := by
      intro c hc
      obtain ⟨i, i1, i2, i3⟩ := mem_extract file s (e - 1) c hc
      rw [← i3]; exact k3 i i1 (by omega)
    rw [hsplit, nextLine_nl _ _ hno]
    congr 1
    rw [toList_extract', toList_extract']
    have e4 : e - s = (e - 1 - s) + 1 := by omega
    rw [e4, List.take_add_one]
    congr 1
    have hg : (file.toList.drop s)[e - 1 - s]? = some 10 := by
      rw [List.getElem?_drop]
      have : s + (e - 1 - s) = e - 1 := by omega
      rw [this]
      have hl : e - 1 < file.toList.length := by simpa using hlt
      rw [List.getElem?_eq_getElem hl]
      have : file.getD (e - 1) 0 = file[e - 1] := by simp [Array.getD, hlt]
      rw [← k2, this]; simp
    rw [hg]; rfl
  · have hall : file.toList.drop s = (file.extract s e).toList := by
      rw [toList_extract', List.take_of_length_le]
      simp; omega
    have hno : ∀ c ∈ (file.extract s e).toList, c ≠ 10 := by
      intro c hc
      obtain ⟨i, i1, i2, i3⟩ := mem_extract file s e c hc
      rw [← i3]; exact k2 i i1 i2
    rw [hall, nextLine_none _ hno]
    congr 1
    exact (List.drop_eq_nil_of_le (by simp; omega)).symm

/-! ## the line loader -/

/-- invariant of a line-mode handle between two `loadbuf`s: the current line is `file[boff, boff+nc)`, and the next unread byte
    (in `mem`, or — when `mem` is used up, or before the very first read — at `fpos`) is the byte behind it -/
structure LWF (a : Ascii) : Prop where
  lb : a.linebased = true
  norec : a.recording ≠ 1
  bpos1 : 1 ≤ a.B
  fposLe : a.fpos ≤ a.file.size
  mposLe : a.mpos ≤ a.mn
  mem : a.mpos < a.mn → 0 ≤ a.moff ∧ a.moff + a.mn = a.fpos
  next : a.boff + a.nc = (if a.mpos < a.mn then a.moff + a.mpos else (a.fpos : Int))
  lineEq : a.line = a.file.extract a.boff.toNat (a.boff.toNat + a.nc)
  boff0 : 0 ≤ a.boff

/-- the fields the line loader never touches -/
def keepL (a : Ascii) : Bytes × Nat × Int × Int × Track × Bytes × Nat × Nat × Bool × Bool × Bool × Int × Int × Bool :=
  (a.file, a.B, a.L, a.linenumber, a.trk, a.inmap, a.fmt, a.abc, a.eofIsOk, a.haveErr, a.exc, a.bookmarkOff, a.bookmarkLine,
   a.linebased)

theorem loadmem_norec (a : Ascii) (h : a.recording ≠ 1) :
    loadmem a = ({ a with memValid := true, recording := -1, mpos := 0, moff := a.fpos, mn := min a.B (a.file.size - a.fpos),
                          fpos := a.fpos + min a.B (a.file.size - a.fpos) },
                 if (min a.B (a.file.size - a.fpos) == 0) = true then Status.eof else Status.ok) := by
  have h' : (a.recording == 1) = false := by simpa using h
  simp [loadmem, h']

/-- append the rest of `mem` to the line (the body of the `while (nlp == NULL)` loop before its `loadmem`) -/
def eatMem (a : Ascii) : Ascii :=
  { a with line := a.line ++ a.file.extract (a.moff.toNat + a.mpos) (a.moff.toNat + a.mpos + (a.mn - a.mpos)),
           mpos := a.mpos + (a.mn - a.mpos), nc := a.nc + (a.mn - a.mpos) }

theorem loadLineLoop_succ (fuel : Nat) (a : Ascii) : loadLineLoop (fuel + 1) a =
    match findNl a.file (a.moff.toNat + a.mpos) (a.moff.toNat + a.mn) with
    | some p => (a, .ok, some p)
    | none => if ((loadmem (eatMem a)).2 == .eof) = true then ((loadmem (eatMem a)).1, .eof, none)
              else loadLineLoop fuel (loadmem (eatMem a)).1 := rfl

/-- the piece up to and including the `\n` that was found -/
def closeAt (a : Ascii) (p : Nat) : Ascii :=
  { a with line := a.line ++ a.file.extract (a.moff.toNat + a.mpos) (a.moff.toNat + a.mpos + (p - (a.moff.toNat + a.mpos) + 1)),
           mpos := a.mpos + (p - (a.moff.toNat + a.mpos) + 1), nc := a.nc + (p - (a.moff.toNat + a.mpos) + 1) }

def closeLine (a : Ascii) (nl : Option Nat) : Ascii :=
  match nl with
  | some p => closeAt a p
  | none => a

/-- `eatMem` followed by the `loadmem` of the next block -/
def afterLoad (a : Ascii) : Ascii :=
  { eatMem a with memValid := true, recording := -1, mpos := 0, moff := a.fpos, mn := min a.B (a.file.size - a.fpos),
                  fpos := a.fpos + min a.B (a.file.size - a.fpos) }

theorem loadmem_eat (a : Ascii) (h : a.recording ≠ 1) :
    loadmem (eatMem a) = (afterLoad a, if (min a.B (a.file.size - a.fpos) == 0) = true then Status.eof else Status.ok) :=
  loadmem_norec (eatMem a) h

/-- the state in which the line loop starts -/
def preLine (a : Ascii) : Ascii :=
  { (if a.mpos ≥ a.mn then (loadmem a).1 else a) with
      boff := (if a.mpos ≥ a.mn then (loadmem a).1 else a).moff + (if a.mpos ≥ a.mn then (loadmem a).1 else a).mpos,
      nc := 0, line := #[] }

/-- what `loadbuf` does with the result of the line loop -/
def lineTail (r : Ascii × Status × Option Nat) : Ascii × Status :=
  if r.2.1 == .fault then (r.1, .fault)
  else ({ closeLine r.1 r.2.2 with bpos := 0 }, if (closeLine r.1 r.2.2).nc == 0 then .eof else .ok)

theorem loadbuf_line_eq (a : Ascii) (hl : a.linebased = true) :
    loadbuf a = lineTail (loadLineLoop ((preLine a).file.size + 2) (preLine a)) := by
  unfold loadbuf
  simp only [hl, Bool.not_true, Bool.false_eq_true, if_false]
  rfl

/-- loop invariant: the line so far is `file[s, s+nc)`, holds no `\n`, and ends where the unread part of `mem` starts -/
structure LI (a : Ascii) (s : Nat) : Prop where
  lb : a.linebased = true
  norec : a.recording ≠ 1
  bpos1 : 1 ≤ a.B
  fposLe : a.fpos ≤ a.file.size
  mposLe : a.mpos ≤ a.mn
  moff0 : 0 ≤ a.moff
  fposEq : a.moff + a.mn = a.fpos
  boffS : a.boff = (s : Int)
  lineEq : a.line = a.file.extract s (s + a.nc)
  posEq : s + a.nc = a.moff.toNat + a.mpos
  noNl : ∀ i, s ≤ i → i < s + a.nc → a.file.getD i 0 ≠ 10

/-- what the loop + the closing piece establish -/
structure LDone (a0 : Ascii) (s : Nat) (a : Ascii) : Prop where
  norec : a.recording ≠ 1
  fposLe : a.fpos ≤ a.file.size
  mposLe : a.mpos ≤ a.mn
  moff0 : 0 ≤ a.moff
  fposEq : a.moff + a.mn = a.fpos
  boffS : a.boff = (s : Int)
  lineEq : a.line = a.file.extract s (s + a.nc)
  posEq : s + a.nc = a.moff.toNat + a.mpos
  endAt : EndAt a.file s (s + a.nc)
  keep : keepL a = keepL a0
  bposEq : a.bpos = a0.bpos

theorem extract_glue (f : Bytes) (i j k : Nat) (h1 : i ≤ j) (h2 : j ≤ k) :
    f.extract i j ++ f.extract j k = f.extract i k := by
  rw [Array.extract_append_extract]
  congr 1 <;> omega

theorem loop_spec (fuel : Nat) : ∀ (a : Ascii) (s : Nat), LI a s → a.file.size - a.fpos + 2 ≤ fuel →
    (loadLineLoop fuel a).2.1 ≠ .fault ∧ LDone a s (closeLine (loadLineLoop fuel a).1 (loadLineLoop fuel a).2.2) := by
  induction fuel with
  | zero => intro a s _ hf; omega
  | succ fuel ih =>
    intro a s h hf
    have hmo := h.moff0
    have hfe := h.fposEq
    have hfl := h.fposLe
    have hml := h.mposLe
    have hpe := h.posEq
    have hB := h.bpos1
    obtain ⟨f1, f2⟩ := findNl_spec a.file (a.moff.toNat + a.mpos) (a.moff.toNat + a.mn)
    rw [loadLineLoop_succ]
    cases hfn : findNl a.file (a.moff.toNat + a.mpos) (a.moff.toNat + a.mn) with
    | some p =>
      obtain ⟨g1, g2, g3, g4⟩ := f1 p hfn
      simp only []
      refine ⟨by simp, ?_⟩
      show LDone a s (closeAt a p)
      have e_nc : (closeAt a p).nc = a.nc + (p - (a.moff.toNat + a.mpos) + 1) := rfl
      have e_mpos : (closeAt a p).mpos = a.mpos + (p - (a.moff.toNat + a.mpos) + 1) := rfl
      have e_line : (closeAt a p).line = a.line ++ a.file.extract (a.moff.toNat + a.mpos)
          (a.moff.toNat + a.mpos + (p - (a.moff.toNat + a.mpos) + 1)) := rfl
      have he : s + (a.nc + (p - (a.moff.toNat + a.mpos) + 1)) = p + 1 := by omega
      refine ⟨h.norec, hfl, ?_, hmo, hfe, h.boffS, ?_, ?_, ?_, rfl, rfl⟩
      · show (closeAt a p).mpos ≤ a.mn
        rw [e_mpos]; omega
      · show (closeAt a p).line = a.file.extract s (s + (closeAt a p).nc)
        rw [e_line, e_nc, h.lineEq, ← hpe, extract_glue _ _ _ _ (by omega) (by omega)]
        congr 1
        omega
      · show s + (closeAt a p).nc = a.moff.toNat + (closeAt a p).mpos
        rw [e_nc, e_mpos]; omega
      · show EndAt a.file s (s + (closeAt a p).nc)
        rw [e_nc, he]
        refine ⟨by omega, by omega, Or.inl ⟨by omega, by simpa using g3, fun i i1 i2 => ?_⟩⟩
        by_cases k : i < s + a.nc
        · exact h.noNl i i1 k
        · exact g4 i (by omega) (by omega)
    | none =>
      have hnone := f2 hfn
      simp only []
      rw [loadmem_eat a h.norec]
      have a_nc : (afterLoad a).nc = a.nc + (a.mn - a.mpos) := rfl
      have a_mpos : (afterLoad a).mpos = 0 := rfl
      have a_mn : (afterLoad a).mn = min a.B (a.file.size - a.fpos) := rfl
      have a_moff : (afterLoad a).moff = (a.fpos : Int) := rfl
      have a_fpos : (afterLoad a).fpos = a.fpos + min a.B (a.file.size - a.fpos) := rfl
      have a_file : (afterLoad a).file = a.file := rfl
      have a_line : (afterLoad a).line = a.line ++ a.file.extract (a.moff.toNat + a.mpos) (a.moff.toNat + a.mpos + (a.mn - a.mpos)) := rfl
      have hline : (afterLoad a).line = a.file.extract s (s + (afterLoad a).nc) := by
        rw [a_line, a_nc, h.lineEq, ← hpe, extract_glue _ _ _ _ (by omega) (by omega)]
        congr 1
        omega
      have hnonl : ∀ i, s ≤ i → i < s + (afterLoad a).nc → a.file.getD i 0 ≠ 10 := by
        intro i i1 i2
        rw [a_nc] at i2
        by_cases k : i < s + a.nc
        · exact h.noNl i i1 k
        · exact hnone i (by omega) (by omega)
      have hrec : (afterLoad a).recording ≠ 1 := by show (-1 : Int) ≠ 1; omega
      have hli : LI (afterLoad a) s :=
        ⟨h.lb, hrec, hB, by rw [a_fpos, a_file]; omega, by rw [a_mpos]; omega, by rw [a_moff]; omega,
         by rw [a_moff, a_mn, a_fpos]; omega, h.boffS, hline, by rw [a_nc, a_moff, a_mpos]; omega, hnonl⟩
      by_cases hz : min a.B (a.file.size - a.fpos) = 0
      · have hb : (min a.B (a.file.size - a.fpos) == 0) = true := by simp [hz]
        have he : (Status.eof == Status.eof) = true := by decide
        simp only [hb, if_true, he]
        refine ⟨by simp, ?_⟩
        show LDone a s (afterLoad a)
        refine ⟨hrec, hli.fposLe, hli.mposLe, hli.moff0, hli.fposEq, h.boffS, hline, hli.posEq, ?_, rfl, rfl⟩
        show EndAt a.file s (s + (afterLoad a).nc)
        rw [a_nc]
        exact ⟨by omega, by omega, Or.inr ⟨by omega, by rw [← a_nc]; exact hnonl⟩⟩
      · have hb : (min a.B (a.file.size - a.fpos) == 0) = false := by simp [hz]
        have he : (Status.ok == Status.eof) = false := by decide
        simp only [hb, Bool.false_eq_true, if_false, he]
        obtain ⟨i1, i2⟩ := ih _ s hli (by rw [a_fpos, a_file]; omega)
        refine ⟨i1, ?_⟩
        obtain ⟨d1, d2, d3, d4, d5, d6, d7, d8, d9, d10, d11⟩ := i2
        exact ⟨d1, d2, d3, d4, d5, d6, d7, d8, d9, d10, d11⟩

theorem extract_empty (f : Bytes) (i : Nat) : f.extract i (i + 0) = #[] := by
  apply Array.ext'
  rw [toList_extract']
  simp

def preGe (a : Ascii) : Ascii :=
  { a with memValid := true, recording := -1, mpos := 0, moff := a.fpos, mn := min a.B (a.file.size - a.fpos),
           fpos := a.fpos + min a.B (a.file.size - a.fpos), boff := (a.fpos : Int) + ((0 : Nat) : Int), nc := 0, line := #[] }

def preLt (a : Ascii) : Ascii := { a with boff := a.moff + a.mpos, nc := 0, line := #[] }

theorem preLine_li (a : Ascii) (h : LWF a) :
    LI (preLine a) (a.boff.toNat + a.nc) ∧ keepL (preLine a) = keepL a ∧ (preLine a).bpos = a.bpos := by
  have hb0 := h.boff0
  have hnext := h.next
  have hfl := h.fposLe
  have hB := h.bpos1
  by_cases hc : a.mpos ≥ a.mn
  · have hlt : ¬ a.mpos < a.mn := by omega
    simp only [hlt, if_false] at hnext
    have e : preLine a = preGe a := by
      unfold preLine preGe
      simp only [hc, if_true, loadmem_norec a h.norec]
    rw [e]
    refine ⟨⟨h.lb, by show (-1 : Int) ≠ 1; omega, hB, by show a.fpos + min a.B (a.file.size - a.fpos) ≤ a.file.size; omega,
      by show 0 ≤ min a.B (a.file.size - a.fpos); omega, by show (0 : Int) ≤ (a.fpos : Int); omega,
      by show (a.fpos : Int) + ((min a.B (a.file.size - a.fpos) : Nat) : Int) = ((a.fpos + min a.B (a.file.size - a.fpos) : Nat) : Int); omega,
      by show (a.fpos : Int) + ((0 : Nat) : Int) = ((a.boff.toNat + a.nc : Nat) : Int); omega,
      (extract_empty _ _).symm, by show a.boff.toNat + a.nc + 0 = (a.fpos : Int).toNat + 0; omega,
      fun i i1 i2 => by have : i < a.boff.toNat + a.nc + 0 := i2; omega⟩, rfl, rfl⟩
  · have hlt : a.mpos < a.mn := by omega
    simp only [hlt, if_true] at hnext
    obtain ⟨m1, m2⟩ := h.mem hlt
    have e : preLine a = preLt a := by
      unfold preLine preLt
      simp only [hc, if_false]
    rw [e]
    refine ⟨⟨h.lb, h.norec, hB, hfl, h.mposLe, m1, m2,
      by show a.moff + (a.mpos : Int) = ((a.boff.toNat + a.nc : Nat) : Int); omega,
      (extract_empty _ _).symm, by show a.boff.toNat + a.nc + 0 = a.moff.toNat + a.mpos; omega,
      fun i i1 i2 => by have : i < a.boff.toNat + a.nc + 0 := i2; omega⟩, rfl, rfl⟩

/-- **One `loadbuf` in line mode = the next line of the file, for every block size `B ≥ 1`.** The line delivered, its offset and its
    length are functions of the file bytes behind the previous line only; the status is `eslEOF` exactly when nothing is left;
    `fault` (the loop's fuel running out) is not an outcome; nothing but the block/line bookkeeping changes. -/
theorem loadbuf_line (a : Ascii) (h : LWF a) :
    LWF (loadbuf a).1 ∧ keepL (loadbuf a).1 = keepL a ∧
    (loadbuf a).1.line.toList = (nextLine (a.file.toList.drop (a.boff.toNat + a.nc))).1 ∧
    (loadbuf a).1.nc = (nextLine (a.file.toList.drop (a.boff.toNat + a.nc))).1.length ∧
    (loadbuf a).1.boff = a.boff + a.nc ∧ (loadbuf a).1.bpos = 0 ∧
    (loadbuf a).2 = (if a.file.toList.drop (a.boff.toNat + a.nc) = [] then .eof else .ok) ∧
    a.file.toList.drop ((loadbuf a).1.boff.toNat + (loadbuf a).1.nc) = (nextLine (a.file.toList.drop (a.boff.toNat + a.nc))).2 := by
  obtain ⟨p1, p2, p3⟩ := preLine_li a h
  have hfile : (preLine a).file = a.file := congrArg (fun t => t.1) p2
  obtain ⟨q1, q2⟩ := loop_spec ((preLine a).file.size + 2) (preLine a) _ p1 (by omega)
  rw [loadbuf_line_eq a h.lb]
  generalize loadLineLoop ((preLine a).file.size + 2) (preLine a) = r at q1 q2
  obtain ⟨a1, st, nl⟩ := r
  simp only at q1 q2
  have hnf : (st == Status.fault) = false := by simpa using q1
  simp only [lineTail, hnf, Bool.false_eq_true, if_false]
  generalize closeLine a1 nl = A at q2
  obtain ⟨d1, d2, d3, d4, d5, d6, d7, d8, d9, d10, d11⟩ := q2
  have hk : keepL A = keepL a := d10.trans p2
  have hAfile : A.file = a.file := congrArg (fun t => t.1) hk
  have hAB : A.B = a.B := congrArg (fun t => t.2.1) hk
  have hAlb : A.linebased = a.linebased := congrArg (fun t => t.2.2.2.2.2.2.2.2.2.2.2.2.2) hk
  rw [hAfile] at d9 d7 d2
  have hnl := nextLine_extract a.file _ _ d9
  have hlen : (a.file.extract (a.boff.toNat + a.nc) (a.boff.toNat + a.nc + A.nc)).toList.length = A.nc := by
    obtain ⟨e1, e2, _⟩ := d9
    rw [toList_extract']
    simp; omega
  have hboffN : A.boff.toNat = a.boff.toNat + a.nc := by rw [d6]; omega
  refine ⟨⟨by rw [hAlb]; exact h.lb, d1, by rw [hAB]; exact h.bpos1, by rw [hAfile]; exact d2, d3, fun _ => ⟨d4, d5⟩, ?_, ?_, ?_⟩,
    hk, ?_, ?_, ?_, by first | rfl | trivial, ?_, ?_⟩
  · show A.boff + (A.nc : Int) = if A.mpos < A.mn then A.moff + (A.mpos : Int) else (A.fpos : Int)
    split <;> omega
  · show A.line = A.file.extract A.boff.toNat (A.boff.toNat + A.nc)
    rw [hAfile, hboffN]; exact d7
  · show 0 ≤ A.boff
    omega
  · show A.line.toList = _
    rw [hnl, d7]
  · show A.nc = _
    rw [hnl, hlen]
  · show A.boff = _
    rw [d6]; have := h.boff0; omega
  · show (if (A.nc == 0) = true then Status.eof else Status.ok) = _
    obtain ⟨e1, e2, e3⟩ := d9
    by_cases hz : A.nc = 0
    · have hnil : a.file.toList.drop (a.boff.toNat + a.nc) = [] := by
        apply List.drop_eq_nil_of_le
        simp only [Array.length_toList]
        rcases e3 with ⟨k, _⟩ | ⟨k, _⟩ <;> omega
      simp [hz, hnil]
    · have hne : a.file.toList.drop (a.boff.toNat + a.nc) ≠ [] := by
        intro k
        have := congrArg List.length k
        simp at this
        omega
      simp [hz, hne]
  · show a.file.toList.drop (A.boff.toNat + A.nc) = _
    rw [hnl, hboffN]

/-! ## the state at open, and block-size independence as a simulation -/

/-- a handle on which nothing has been read yet (as `esl_sqfile_Open` builds it before its first `loadbuf`) -/
theorem lwf_fresh (a : Ascii) (hl : a.linebased = true) (hr : a.recording ≠ 1) (hB : 1 ≤ a.B) (h1 : a.fpos = 0) (h2 : a.mn = 0)
    (h3 : a.mpos = 0) (h4 : a.boff = 0) (h5 : a.nc = 0) (h6 : a.line = #[]) : LWF a := by
  refine ⟨hl, hr, hB, by omega, by omega, fun k => by omega, ?_, ?_, by omega⟩
  · rw [h4, h5, h3, h2, h1]; simp
  · rw [h6, h4, h5]; exact (extract_empty _ _).symm

/-- **the state after open**: the first `loadbuf` of a line-based file delivers its first line, for every `B ≥ 1` -/
theorem open_line (file : Bytes) (B abc fmt : Nat) (eofOk : Bool) (inmap : Bytes) (hB : 1 ≤ B) :
    LWF (loadbuf { file := file, B := B, abc := abc, fmt := fmt, eofIsOk := eofOk, linebased := true, inmap := inmap }).1 ∧
    (loadbuf { file := file, B := B, abc := abc, fmt := fmt, eofIsOk := eofOk, linebased := true, inmap := inmap }).1.line.toList =
      (nextLine file.toList).1 ∧
    (loadbuf { file := file, B := B, abc := abc, fmt := fmt, eofIsOk := eofOk, linebased := true, inmap := inmap }).1.boff = 0 ∧
    (loadbuf { file := file, B := B, abc := abc, fmt := fmt, eofIsOk := eofOk, linebased := true, inmap := inmap }).2 =
      (if file.toList = [] then .eof else .ok) := by
  have w : LWF { file := file, B := B, abc := abc, fmt := fmt, eofIsOk := eofOk, linebased := true, inmap := inmap } :=
    lwf_fresh _ rfl (by show (0 : Int) ≠ 1; omega) hB rfl rfl rfl rfl rfl rfl
  obtain ⟨l1, _, l3, _, l5, _, l7, _⟩ := loadbuf_line _ w
  exact ⟨l1, l3, l5, l7⟩

/-- everything but the block bookkeeping -/
def keepP (a : Ascii) : Bytes × Int × Int × Track × Bytes × Nat × Nat × Bool × Bool × Bool × Int × Int × Bool :=
  (a.file, a.L, a.linenumber, a.trk, a.inmap, a.fmt, a.abc, a.eofIsOk, a.haveErr, a.exc, a.bookmarkOff, a.bookmarkLine, a.linebased)

theorem keepP_of_keepL {a b : Ascii} (h : keepL a = keepL b) : keepP a = keepP b := by
  simp only [keepL, Prod.mk.injEq] at h
  obtain ⟨h1, _, h3, h4, h5, h6, h7, h8, h9, h10, h11, h12, h13, h14⟩ := h
  simp only [keepP, h1, h3, h4, h5, h6, h7, h8, h9, h10, h11, h12, h13, h14]

/-- two line-mode handles on the same file, possibly with different block sizes, standing on the same line -/
structure LSim (a1 a2 : Ascii) : Prop where
  w1 : LWF a1
  w2 : LWF a2
  keep : keepP a1 = keepP a2
  boff : a1.boff = a2.boff
  nc : a1.nc = a2.nc
  line : a1.line = a2.line
  bpos : a1.bpos = a2.bpos

/-- **the line loader is block-size independent**: from two handles on the same line, `loadbuf` delivers the same next line, at
    the same offset, with the same status — whatever the two block sizes are -/
theorem loadbuf_lsim {a1 a2 : Ascii} (h : LSim a1 a2) : LSim (loadbuf a1).1 (loadbuf a2).1 ∧ (loadbuf a1).2 = (loadbuf a2).2 := by
  obtain ⟨p1, p2, p3, p4, p5, p6, p7, _⟩ := loadbuf_line a1 h.w1
  obtain ⟨q1, q2, q3, q4, q5, q6, q7, _⟩ := loadbuf_line a2 h.w2
  have hfile : a1.file = a2.file := congrArg (fun t => t.1) h.keep
  rw [hfile, h.boff, h.nc] at p3 p4 p7
  rw [h.boff, h.nc] at p5
  refine ⟨⟨p1, q1, ?_, by rw [p5, q5], by rw [p4, q4], ?_, by rw [p6, q6]⟩, by rw [p7, q7]⟩
  · exact (keepP_of_keepL p2).trans (h.keep.trans (keepP_of_keepL q2).symm)
  · apply Array.ext'
    rw [p3, q3]

/-! ## non-vacuity: `ID x\nAC\n//` (no final newline) read with block sizes 1, 2 and 5 -/

def demoL : Bytes := #[73, 68, 32, 120, 10, 65, 67, 10, 47, 47]

/-- the first three lines and the status of the fourth `loadbuf` -/
def threeLines (B : Nat) : Bytes × Bytes × Bytes × Status × Status :=
  let a1 := (loadbuf { file := demoL, B := B, linebased := true }).1
  let a2 := (loadbuf a1).1
  let a3 := (loadbuf a2)
  (a1.line, a2.line, a3.1.line, a3.2, (loadbuf a3.1).2)

example : threeLines 1 = (#[73, 68, 32, 120, 10], #[65, 67, 10], #[47, 47], .ok, .eof) ∧
    threeLines 2 = threeLines 1 ∧ threeLines 5 = threeLines 1 := by decide +kernel

example : nextLine demoL.toList = ([73, 68, 32, 120, 10], [65, 67, 10, 47, 47]) := by decide

end EaselModel.Sqio.LineSpec
