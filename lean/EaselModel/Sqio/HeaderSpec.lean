import EaselModel.Sqio.Cursor
/-! # `header_fasta` / `skip_fasta` in closed form (whole-reader refinement, layer ii)

`headerL N sq l`: what `header_fasta` returns when the cursor stands on the list `l` of remaining bytes of a file of `N` bytes,
written with `dropWhile` / `takeWhile` only — no block size, no buffer. `headerFasta_spec`: the model's parser (which goes through
`nextchar`, hence through `loadbuf` at every block boundary) returns exactly that, for every `B ≥ 1`; `fault` is not an outcome. -/
namespace EaselModel.Sqio.HeaderSpec
open EaselModel.Sqio.Refine EaselModel.Sqio.Fold EaselModel.Sqio.DataScan EaselModel.Sqio.Cursor

def pNotEol : UInt8 → Bool := fun c => c != chNl && c != chCr
def pEol : UInt8 → Bool := fun c => c == chNl || c == chCr
def pDesc : UInt8 → Bool := fun c => c != chNl && c != chCr && c != 1
def pName : UInt8 → Bool := fun c => !isSpace c

/-- absolute offset of the suffix `l` of a file of `N` bytes -/
def offOf (N : Nat) (l : List UInt8) : Int := ((N - l.length : Nat) : Int)

/-- rest of the header line (`hoff`), end-of-line characters (`doff`) -/
def hfEndL (N : Nat) (sq : Sq) (l : List UInt8) : Sq × List UInt8 :=
  ({ sq with hoff := offOf N (l.dropWhile pNotEol), doff := offOf N ((l.dropWhile pNotEol).dropWhile pEol) },
   (l.dropWhile pNotEol).dropWhile pEol)

/-- blanks, description -/
def hfDescL (N : Nat) (sq : Sq) (l : List UInt8) : Sq × List UInt8 :=
  hfEndL N { sq with desc := ((l.dropWhile isBlankTab).takeWhile pDesc).toArray,
                     dalloc := allocGrow sq.dalloc 0 ((l.dropWhile isBlankTab).takeWhile pDesc).length }
    ((l.dropWhile isBlankTab).dropWhile pDesc)

/-- blanks, name; `none` = no name (`eslEFORMAT`) -/
def hfNameL (N : Nat) (sq : Sq) (l : List UInt8) : Option (Sq × List UInt8) :=
  if ((l.dropWhile isBlankTab).takeWhile pName).isEmpty then none else
  some (hfDescL N { sq with name := ((l.dropWhile isBlankTab).takeWhile pName).toArray,
                            nalloc := allocGrow sq.nalloc 0 ((l.dropWhile isBlankTab).takeWhile pName).length }
         ((l.dropWhile isBlankTab).dropWhile pName))

/-- `header_fasta` on the remaining bytes `l`: status, record fields, remaining bytes after the header -/
def headerL (N : Nat) (sq : Sq) (l : List UInt8) : Status × Sq × List UInt8 :=
  match l.dropWhile isSpace with
  | [] => (.eof, sq, [])
  | c :: l2 =>
    if c != chGt then (.eformat, sq, c :: l2) else
    match hfNameL N { sq with roff := offOf N (c :: l2) } l2 with
    | none => (.eformat, { sq with roff := offOf N (c :: l2) }, c :: l2)
    | some r => (.ok, r.1, r.2)

theorem _root_.EaselModel.Sqio.Cursor.Abs.off {a : Ascii} {st : Status} {c : UInt8} {l : List UInt8} (h : Abs a st c l) :
    a.boff + (a.bpos : Int) = offOf a.file.size l := by
  have := h.cur.posEq
  rw [h.ff] at this
  exact this

theorem _root_.EaselModel.Sqio.Cursor.Abs.fuel {a : Ascii} {st : Status} {c : UInt8} {l : List UInt8} (h : Abs a st c l) : l.length < fuelOf a := by
  have := h.cur.fuel
  rw [h.ff] at this
  exact this

theorem payload_file {a b : Ascii} (h : Sim.payload a = Sim.payload b) : a.file = b.file := congrArg (fun p => p.1) h

theorem _root_.EaselModel.Sqio.Cursor.Cur.newRecord {a : Ascii} (h : Cur a) (l : Int) :
    Cur { a with trk := { a.trk with prvrpl := -1, prvbpl := -1, currpl := 0, curbpl := 0 }, linenumber := l } :=
  ⟨⟨h.wf.block, h.wf.norec, h.wf.bpos1, h.wf.full, h.wf.moff0, h.wf.fposEq, h.wf.fposLe, h.wf.ncLe, h.wf.boffEq, h.wf.bposLe⟩,
   h.cur, reset_ok _⟩

/-- stage 5 -/
theorem hfEnd_spec (a : Ascii) (sq : Sq) (st : Status) (c : UInt8) (l : List UInt8) (h : Abs a st c l) :
    (hfEnd a sq st c).2 = ((hfEndL a.file.size sq l).1, .ok) ∧ Cur (hfEnd a sq st c).1 ∧
    fileFrom (hfEnd a sq st c).1 = (hfEndL a.file.size sq l).2 ∧ stat (hfEnd a sq st c).1 = stat a := by
  unfold hfEnd
  simp only []
  have s1 := skipWhile_abs (fun c => c != chNl && c != chCr) (fuelOf a) a st c l h h.fuel
  generalize skipWhile (fun c => c != chNl && c != chCr) (fuelOf a) a st c = r1 at s1 ⊢
  obtain ⟨a1, st1, c1⟩ := r1
  obtain ⟨h1, p1⟩ := s1
  simp only [] at h1 p1 ⊢
  have s2 := skipWhile_abs (fun c => c == chNl || c == chCr) (fuelOf a1) a1 st1 c1 _ h1 h1.fuel
  generalize skipWhile (fun c => c == chNl || c == chCr) (fuelOf a1) a1 st1 c1 = r2 at s2 ⊢
  obtain ⟨a2, st2, c2⟩ := r2
  obtain ⟨h2, p2⟩ := s2
  simp only [] at h2 p2 ⊢
  have f1 : a1.file = a.file := payload_file p1
  have f2 : a2.file = a.file := (payload_file p2).trans f1
  have o1 := h1.off
  have o2 := h2.off
  rw [f1] at o1
  rw [f2] at o2
  have hs : stat a2 = stat a := (stat_of_payload p2).trans (stat_of_payload p1)
  have hk1 : (st2 == Status.fault) = false := by rcases h2.st_cases with e | e <;> rw [e] <;> rfl
  have hk2 : (st2 != Status.ok && st2 != Status.eof) = false := by rcases h2.st_cases with e | e <;> rw [e] <;> rfl
  simp only [hk1, hk2, Bool.false_eq_true, if_false]
  refine ⟨?_, h2.cur.newRecord _, h2.ff, hs⟩
  rw [o1, o2]
  rfl

/-- stage 4 -/
theorem hfDesc_spec (a : Ascii) (sq : Sq) (st : Status) (c : UInt8) (l : List UInt8) (h : Abs a st c l) (hd : 2 ≤ sq.dalloc) :
    (hfDesc a sq st c).2 = ((hfDescL a.file.size sq l).1, .ok) ∧ Cur (hfDesc a sq st c).1 ∧
    fileFrom (hfDesc a sq st c).1 = (hfDescL a.file.size sq l).2 ∧ stat (hfDesc a sq st c).1 = stat a := by
  unfold hfDesc
  simp only []
  have s1 := skipWhile_abs isBlankTab (fuelOf a) a st c l h h.fuel
  generalize skipWhile isBlankTab (fuelOf a) a st c = r1 at s1 ⊢
  obtain ⟨a1, st1, c1⟩ := r1
  obtain ⟨h1, p1⟩ := s1
  simp only [] at h1 p1 ⊢
  have s2 := storeWhile_abs (fun c => c != chNl && c != chCr && c != 1) (fuelOf a1) a1 st1 c1 _ #[] sq.dalloc h1 h1.fuel
    (by simp; omega)
  generalize storeWhile (fun c => c != chNl && c != chCr && c != 1) (fuelOf a1) a1 st1 c1 #[] sq.dalloc = r2 at s2 ⊢
  obtain ⟨a2, st2, c2, acc2, al2⟩ := r2
  obtain ⟨h2, e2, i2, g2, p2⟩ := s2
  simp only [] at h2 e2 i2 g2 p2 ⊢
  have f2 : a2.file = a.file := (payload_file p2).trans (payload_file p1)
  have hs : stat a2 = stat a := (stat_of_payload p2).trans (stat_of_payload p1)
  have hk1 : (st2 == Status.fault) = false := by rcases h2.st_cases with e | e <;> rw [e] <;> rfl
  have hk2 : (!decide (acc2.size < al2)) = false := by simp; omega
  simp only [hk1, hk2, Bool.false_eq_true, if_false]
  obtain ⟨q1, q2, q3, q4⟩ := hfEnd_spec a2 { sq with desc := acc2, dalloc := al2 } st2 c2 _ h2
  rw [f2] at q1 q3
  refine ⟨?_, q2, ?_, q4.trans hs⟩
  · rw [q1, e2, g2]; simp [hfDescL]; rfl
  · rw [q3, e2, g2]; simp [hfDescL]; rfl

/-- stage 3 -/
theorem hfName_spec (a : Ascii) (sq : Sq) (st : Status) (c : UInt8) (l : List UInt8) (h : Abs a st c l)
    (hn : 2 ≤ sq.nalloc) (hd : 2 ≤ sq.dalloc) :
    (hfNameL a.file.size sq l = none → (hfName a sq st c).2 = (sq, .eformat) ∧ (hfName a sq st c).1.haveErr = true) ∧
    (∀ r, hfNameL a.file.size sq l = some r → (hfName a sq st c).2 = (r.1, .ok) ∧ Cur (hfName a sq st c).1 ∧
      fileFrom (hfName a sq st c).1 = r.2 ∧ stat (hfName a sq st c).1 = stat a) := by
  unfold hfName
  simp only []
  have s1 := skipWhile_abs isBlankTab (fuelOf a) a st c l h h.fuel
  generalize skipWhile isBlankTab (fuelOf a) a st c = r1 at s1 ⊢
  obtain ⟨a1, st1, c1⟩ := r1
  obtain ⟨h1, p1⟩ := s1
  simp only [] at h1 p1 ⊢
  have s2 := storeWhile_abs (fun c => !isSpace c) (fuelOf a1) a1 st1 c1 _ #[] sq.nalloc h1 h1.fuel (by simp; omega)
  generalize storeWhile (fun c => !isSpace c) (fuelOf a1) a1 st1 c1 #[] sq.nalloc = r2 at s2 ⊢
  obtain ⟨a2, st2, c2, acc2, al2⟩ := r2
  obtain ⟨h2, e2, i2, g2, p2⟩ := s2
  simp only [] at h2 e2 i2 g2 p2 ⊢
  have f2 : a2.file = a.file := (payload_file p2).trans (payload_file p1)
  have hs : stat a2 = stat a := (stat_of_payload p2).trans (stat_of_payload p1)
  have hk1 : (st2 == Status.fault) = false := by rcases h2.st_cases with e | e <;> rw [e] <;> rfl
  have hk2 : (!decide (acc2.size < al2)) = false := by simp; omega
  have hsz0 : acc2.size = ((l.dropWhile isBlankTab).takeWhile (fun c => !isSpace c)).length := by rw [e2]; simp
  have hsz : acc2.size = ((l.dropWhile isBlankTab).takeWhile pName).length := hsz0
  simp only [hk1, Bool.false_eq_true, if_false]
  unfold hfNameL
  by_cases hz : ((l.dropWhile isBlankTab).takeWhile pName).isEmpty = true
  · have hz0 : (acc2.size == 0) = true := by rw [hsz]; simpa using hz
    simp only [hz, hz0, if_true]
    exact ⟨fun _ => ⟨by first | rfl | trivial, by first | rfl | trivial⟩, fun r hr => (by cases hr)⟩
  · have hz0 : (acc2.size == 0) = false := by
      rw [hsz]
      cases hh : (l.dropWhile isBlankTab).takeWhile pName with
      | nil => rw [hh] at hz; simp at hz
      | cons _ _ => simp
    simp only [hz, hz0, hk2, Bool.false_eq_true, if_false]
    refine ⟨fun hr => (by cases hr), fun r hr => ?_⟩
    obtain ⟨q1, q2, q3, q4⟩ := hfDesc_spec a2 { sq with name := acc2, nalloc := al2 } st2 c2 _ h2 hd
    rw [f2] at q1 q3
    have hr' := (Option.some.inj hr).symm
    subst hr'
    refine ⟨?_, q2, ?_, q4.trans hs⟩
    · rw [q1, e2, g2]; simp; rfl
    · rw [q3, e2, g2]; simp; rfl


theorem abs_of_live (a : Ascii) (h : Cur a) (hl : Sim.Live a) :
    ∃ x t, a.bufGet a.bpos = some x ∧ fileFrom a = x :: t ∧ Abs a .ok x (x :: t) := by
  obtain ⟨x, hx, hf⟩ := fileFrom_live a h.wf hl
  exact ⟨x, _, hx, hf, ⟨h, hf, fun _ => ⟨_, rfl⟩, fun k => absurd rfl k⟩⟩

/-- **`header_fasta` = `headerL` on the remaining file bytes, for every block size** -/
theorem headerFasta_spec (a : Ascii) (sq : Sq) (h : Cur a) (hl : Sim.Live a) (hn : 2 ≤ sq.nalloc) (hd : 2 ≤ sq.dalloc) :
    (headerFasta a sq).2 = ((headerL a.file.size sq (fileFrom a)).2.1, (headerL a.file.size sq (fileFrom a)).1) ∧
    ((headerL a.file.size sq (fileFrom a)).1 = .ok → Cur (headerFasta a sq).1 ∧
       fileFrom (headerFasta a sq).1 = (headerL a.file.size sq (fileFrom a)).2.2 ∧ stat (headerFasta a sq).1 = stat a) ∧
    ((headerL a.file.size sq (fileFrom a)).1 = .eformat → (headerFasta a sq).1.haveErr = true) ∧
    ((headerL a.file.size sq (fileFrom a)).1 = .eof → Cur (headerFasta a sq).1 ∧ fileFrom (headerFasta a sq).1 = [] ∧
       stat (headerFasta a sq).1 = stat a) := by
  obtain ⟨x, t, hx, hf, h0⟩ := abs_of_live a h hl
  have hn1 : (a.nc == a.bpos) = false := by simp only [Sim.Live] at hl; simp; omega
  unfold headerFasta
  have hne : (Status.ok != Status.ok) = false := by decide
  simp only [hn1, Bool.false_eq_true, if_false, hx, hne]
  have s1 := skipWhile_abs isSpace (fuelOf a) a .ok x _ h0 h0.fuel
  generalize skipWhile isSpace (fuelOf a) a .ok x = r1 at s1 ⊢
  obtain ⟨a1, st1, c1⟩ := r1
  obtain ⟨h1, p1⟩ := s1
  simp only [] at h1 p1 ⊢
  have f1 : a1.file = a.file := payload_file p1
  have hs1 : stat a1 = stat a := stat_of_payload p1
  rw [hf]
  unfold headerL
  cases hl1 : (x :: t).dropWhile isSpace with
  | nil =>
    rw [hl1] at h1
    have hst : st1 = .eof := by
      rcases h1.st_cases with e | e
      · exact absurd rfl (h1.ok_iff.mp e)
      · exact e
    subst hst
    unfold hfGt
    simp only [beq_self_eq_true, if_true]
    exact ⟨by first | rfl | trivial, fun k => (by cases k), fun k => (by cases k), fun _ => ⟨h1.cur, h1.ff, hs1⟩⟩
  | cons c' l2 =>
    rw [hl1] at h1
    have hst : st1 = .ok := h1.ok_iff.mpr (by simp)
    subst hst
    obtain ⟨t', ht'⟩ := h1.okc rfl
    obtain ⟨rfl, rfl⟩ := List.cons.inj ht'
    have b1 : (Status.ok == Status.eof) = false := by decide
    have b2 : (Status.ok == Status.ok) = true := by decide
    have b3 : (Status.ok != Status.ok) = false := by decide
    unfold hfGt
    simp only [b1, b2, b3, Bool.false_eq_true, if_false, Bool.true_and, Bool.false_and]
    by_cases hc : (c' != chGt) = true
    · simp only [hc, if_true]
      exact ⟨by first | rfl | trivial, fun k => (by cases k), fun _ => (by first | rfl | trivial), fun k => (by cases k)⟩
    · simp only [hc, Bool.false_eq_true, if_false]
      obtain ⟨h2, p2⟩ := nextchar_abs a1 c' l2 h1.cur h1.ff
      have o1 := h1.off
      rw [f1] at o1
      generalize nextchar a1 c' = r2 at h2 p2 ⊢
      obtain ⟨a2, st2, c2⟩ := r2
      simp only [] at h2 p2 ⊢
      have f2 : a2.file = a.file := (payload_file p2).trans f1
      have hs2 : stat a2 = stat a := (stat_of_payload p2).trans hs1
      obtain ⟨n1, n2⟩ := hfName_spec a2 { sq with roff := a1.boff + (a1.bpos : Int) } st2 c2 l2 h2 hn hd
      rw [f2, o1] at n1 n2
      rw [o1]
      cases hN : hfNameL a.file.size { sq with roff := offOf a.file.size (c' :: l2) } l2 with
      | none =>
        obtain ⟨m1, m2⟩ := n1 hN
        simp only []
        exact ⟨m1, fun k => (by cases k), fun _ => m2, fun k => (by cases k)⟩
      | some r =>
        obtain ⟨m1, m2, m3, m4⟩ := n2 r hN
        simp only []
        exact ⟨m1, fun _ => ⟨m2, m3, m4.trans hs2⟩, fun k => (by cases k), fun k => (by cases k)⟩


/-! ## `skip_fasta` -/

/-- `skip_fasta` on the remaining bytes `l` -/
def skipL (N : Nat) (sq : Sq) (l : List UInt8) : Status × Sq × List UInt8 :=
  match l.dropWhile isSpace with
  | [] => (.eof, sq, [])
  | c :: l2 =>
    if c != chGt then (.eformat, sq, c :: l2) else
    (.ok, { sq with roff := offOf N (c :: l2), name := #[], acc := #[], desc := #[],
                    doff := offOf N ((l2.dropWhile pNotEol).dropWhile pEol) },
     (l2.dropWhile pNotEol).dropWhile pEol)

theorem _root_.EaselModel.Sqio.Cursor.Cur.setLine {a : Ascii} (h : Cur a) (l : Int) : Cur { a with linenumber := l } :=
  ⟨⟨h.wf.block, h.wf.norec, h.wf.bpos1, h.wf.full, h.wf.moff0, h.wf.fposEq, h.wf.fposLe, h.wf.ncLe, h.wf.boffEq, h.wf.bposLe⟩,
   h.cur, h.tok⟩

/-- **`skip_fasta` = `skipL` on the remaining file bytes, for every block size** -/
theorem skipFasta_spec (a : Ascii) (sq : Sq) (h : Cur a) (hl : Sim.Live a) :
    (skipFasta a sq).2 = ((skipL a.file.size sq (fileFrom a)).2.1, (skipL a.file.size sq (fileFrom a)).1) ∧
    ((skipL a.file.size sq (fileFrom a)).1 = .ok → Cur (skipFasta a sq).1 ∧
       fileFrom (skipFasta a sq).1 = (skipL a.file.size sq (fileFrom a)).2.2 ∧ stat (skipFasta a sq).1 = stat a) ∧
    ((skipL a.file.size sq (fileFrom a)).1 = .eformat → (skipFasta a sq).1.haveErr = true) ∧
    ((skipL a.file.size sq (fileFrom a)).1 = .eof → Cur (skipFasta a sq).1 ∧ fileFrom (skipFasta a sq).1 = [] ∧
       stat (skipFasta a sq).1 = stat a) := by
  obtain ⟨x, t, hx, hf, h0⟩ := abs_of_live a h hl
  have hn1 : (a.nc == a.bpos) = false := by simp only [Sim.Live] at hl; simp; omega
  unfold skipFasta
  have hne : (Status.ok != Status.ok) = false := by decide
  simp only [hn1, Bool.false_eq_true, if_false, hx, hne]
  have s1 := skipWhile_abs isSpace (fuelOf a) a .ok x _ h0 h0.fuel
  generalize skipWhile isSpace (fuelOf a) a .ok x = r1 at s1 ⊢
  obtain ⟨a1, st1, c1⟩ := r1
  obtain ⟨h1, p1⟩ := s1
  simp only [] at h1 p1 ⊢
  have f1 : a1.file = a.file := payload_file p1
  have hs1 : stat a1 = stat a := stat_of_payload p1
  rw [hf]
  unfold skipL
  cases hl1 : (x :: t).dropWhile isSpace with
  | nil =>
    rw [hl1] at h1
    have hst : st1 = .eof := by
      rcases h1.st_cases with e | e
      · exact absurd rfl (h1.ok_iff.mp e)
      · exact e
    subst hst
    simp only [beq_self_eq_true, if_true]
    exact ⟨by first | rfl | trivial, fun k => (by cases k), fun k => (by cases k), fun _ => ⟨h1.cur, h1.ff, hs1⟩⟩
  | cons c' l2 =>
    rw [hl1] at h1
    have hst : st1 = .ok := h1.ok_iff.mpr (by simp)
    subst hst
    obtain ⟨t', ht'⟩ := h1.okc rfl
    obtain ⟨rfl, rfl⟩ := List.cons.inj ht'
    have b1 : (Status.ok == Status.eof) = false := by decide
    have b2 : (Status.ok == Status.fault) = false := by decide
    have b3 : (Status.ok != Status.ok) = false := by decide
    simp only [b1, b2, b3, Bool.false_eq_true, if_false]
    by_cases hc : (c' != chGt) = true
    · simp only [hc, if_true]
      exact ⟨by first | rfl | trivial, fun k => (by cases k), fun _ => (by first | rfl | trivial), fun k => (by cases k)⟩
    · simp only [hc, Bool.false_eq_true, if_false]
      obtain ⟨h2, p2⟩ := nextchar_abs a1 c' l2 h1.cur h1.ff
      have o1 := h1.off
      rw [f1] at o1
      generalize nextchar a1 c' = r2 at h2 p2 ⊢
      obtain ⟨a2, st2, c2⟩ := r2
      simp only [] at h2 p2 ⊢
      have s3 := skipWhile_abs (fun c => c != chNl && c != chCr) (fuelOf a2) a2 st2 c2 l2 h2 h2.fuel
      generalize skipWhile (fun c => c != chNl && c != chCr) (fuelOf a2) a2 st2 c2 = r3 at s3 ⊢
      obtain ⟨a3, st3, c3⟩ := r3
      obtain ⟨h3, p3⟩ := s3
      simp only [] at h3 p3 ⊢
      have s4 := skipWhile_abs (fun c => c == chNl || c == chCr) (fuelOf a3) a3 st3 c3 _ h3 h3.fuel
      generalize skipWhile (fun c => c == chNl || c == chCr) (fuelOf a3) a3 st3 c3 = r4 at s4 ⊢
      obtain ⟨a4, st4, c4⟩ := r4
      obtain ⟨h4, p4⟩ := s4
      simp only [] at h4 p4 ⊢
      have f4 : a4.file = a.file := (payload_file p4).trans ((payload_file p3).trans ((payload_file p2).trans f1))
      have hs4 : stat a4 = stat a :=
        (stat_of_payload p4).trans ((stat_of_payload p3).trans ((stat_of_payload p2).trans hs1))
      have o4 := h4.off
      rw [f4] at o4
      have hk1 : (st4 == Status.fault) = false := by rcases h4.st_cases with e | e <;> rw [e] <;> rfl
      have hk2 : (st4 != Status.ok && st4 != Status.eof) = false := by rcases h4.st_cases with e | e <;> rw [e] <;> rfl
      simp only [hk1, hk2, Bool.false_eq_true, if_false]
      refine ⟨?_, fun _ => ⟨h4.cur.setLine _, h4.ff, hs4⟩, fun k => (by cases k), fun k => (by cases k)⟩
      rw [o1, o4]
      rfl

/-- dropping a prefix whose bytes all satisfy `p` does not change `dropWhile p` -/
theorem dropWhile_dropWhile_of_imp (p q : UInt8 → Bool) (hpq : ∀ c, q c = true → p c = true) (l : List UInt8) :
    (l.dropWhile q).dropWhile p = l.dropWhile p := by
  induction l with
  | nil => rfl
  | cons x t ih =>
    by_cases hq : q x = true
    · rw [List.dropWhile_cons_of_pos hq, List.dropWhile_cons_of_pos (hpq x hq)]; exact ih
    · rw [List.dropWhile_cons_of_neg hq]

/-- **`header_fasta` and `skip_fasta` leave the cursor at the same byte and report the same `roff` / `doff`** whenever the header
    has a name: the part of `Read` / `ReadSequence` agreement that concerns the header -/
theorem headerL_skipL_agree (N : Nat) (sq sq' : Sq) (l : List UInt8) (h : (headerL N sq l).1 = .ok) :
    (skipL N sq' l).1 = .ok ∧ (skipL N sq' l).2.2 = (headerL N sq l).2.2 ∧
    (skipL N sq' l).2.1.roff = (headerL N sq l).2.1.roff ∧ (skipL N sq' l).2.1.doff = (headerL N sq l).2.1.doff := by
  unfold headerL skipL at *
  cases hl1 : l.dropWhile isSpace with
  | nil => rw [hl1] at h; cases h
  | cons c l2 =>
    rw [hl1] at h
    simp only [] at h ⊢
    by_cases hc : (c != chGt) = true
    · simp only [hc, if_true] at h; cases h
    · simp only [hc, Bool.false_eq_true, if_false] at h ⊢
      cases hN : hfNameL N { sq with roff := offOf N (c :: l2) } l2 with
      | none => rw [hN] at h; cases h
      | some r =>
        unfold hfNameL at hN
        split at hN
        · cases hN
        · have hr := (Option.some.inj hN).symm
          subst hr
          have e1 : ∀ c, isBlankTab c = true → pNotEol c = true := by
            intro c hc; simp only [isBlankTab, pNotEol, chNl, chCr] at *
            rcases (Bool.or_eq_true _ _).mp hc with e | e <;> (have := eq_of_beq e; subst this; decide)
          have e2 : ∀ c, pName c = true → pNotEol c = true := by
            intro c hc
            simp only [pName, isSpace, pNotEol, chNl, chCr, Bool.not_eq_true', Bool.or_eq_false_iff, Bool.and_eq_false_iff] at *
            simp only [Bool.and_eq_true, bne_iff_ne, ne_eq]
            constructor
            · intro k; subst k; revert hc; decide
            · intro k; subst k; revert hc; decide
          have e3 : ∀ c, pDesc c = true → pNotEol c = true := by
            intro c hc; simp only [pDesc, pNotEol, Bool.and_eq_true] at *; exact hc.1
          have key : (((((l2.dropWhile isBlankTab).dropWhile pName).dropWhile isBlankTab).dropWhile pDesc).dropWhile pNotEol) =
              l2.dropWhile pNotEol := by
            rw [dropWhile_dropWhile_of_imp _ _ e3, dropWhile_dropWhile_of_imp _ _ e1, dropWhile_dropWhile_of_imp _ _ e2,
              dropWhile_dropWhile_of_imp _ _ e1]
          simp only [hfDescL, hfEndL, key]
          exact ⟨trivial, trivial, trivial, trivial⟩

end EaselModel.Sqio.HeaderSpec
